From Coq Require Import List NArith ZArith Lia Bool.
Import ListNotations.
Local Open Scope N_scope.

Definition byte := N.
Definition OK : N := 0. Definition ERR_READ : N := 3. Definition ERR_WRITE : N := 4.

(* ===== host level (what mspack_system sees) ===== *)
Inductive rd := RErr | RBytes (l : list byte).
(* HHint: the value of a field the host may set asynchronously (lzx->length, set by the CAB block reader when it reads the last block) *)
Inductive hcall : Type := HRead (n : N) | HWrite (d : list byte) | HHint.
Definition hanswer (c : hcall) : Type := match c with HRead _ => rd | HWrite _ => Z | HHint => N end.
Inductive prog (A : Type) : Type := Ret (a : A) | Do (c : hcall) (k : hanswer c -> prog A).
Arguments Ret {A}. Arguments Do {A}.
Fixpoint bind {A B} (p : prog A) (f : A -> prog B) : prog B :=
  match p with Ret a => f a | Do c k => Do c (fun r => bind (k r) f) end.

(* ===== decoder level: programs over a byte source and a byte sink ===== *)
Inductive scall : Type :=
| SNext                     (* READ_IF_NEEDED; *i_ptr++   : next input byte *)
| SAvail                    (* READ_IF_NEEDED alone: make sure a byte is available, consume nothing *)
| SCopyIn (n : nat)         (* deliver exactly n input bytes, chunk by chunk as buffered *)
| SWrite (d : list byte)    (* sys->write(output, d, |d|) must accept all *)
| SHint.                    (* read the output-length hint (lzx->length): 0 while unknown *)
Inductive sres (A : Type) := SVal (a : A) | SStop (status : N).   (* SStop: the C function returns *)
Arguments SVal {A}. Arguments SStop {A}.
Definition sanswer (c : scall) : Type :=
  match c with SNext => byte | SAvail => unit | SCopyIn _ => list byte | SWrite _ => unit | SHint => N end.
(* a decoder is a tree of source calls; an unavailable answer ends it with a status *)
Inductive sprog (A : Type) : Type := SRet (a : A) | SDo (c : scall) (k : sanswer c -> sprog A).
Arguments SRet {A}. Arguments SDo {A}.
Fixpoint sbind {A B} (p : sprog A) (f : A -> sprog B) : sprog B :=
  match p with SRet a => f a | SDo c k => SDo c (fun r => sbind (k r) f) end.

(* which end-of-input rule a decoder family uses *)
Inductive eofrule := EofStop (* lzss: read<=0 -> return OK/READ *) | EofPad2 (* readbits.h: two zero bytes once, then READ error *).

(* ===== ideal interpretation: input is a list, output is a list ===== *)
(* the ideal input already carries the end-of-input padding of its rule *)
Definition pad (rule : eofrule) : list byte := match rule with EofStop => [] | EofPad2 => [0; 0] end.
Definition eof_status (rule : eofrule) : N := match rule with EofStop => OK | EofPad2 => ERR_READ end.
Record ist := { irest : list byte; iout : list byte (* reversed *) }.

Definition ideal_next (rule : eofrule) (s : ist) : sres (byte * ist) :=
  match irest s with
  | b :: r => SVal (b, {| irest := r; iout := iout s |})
  | [] => SStop (eof_status rule)
  end.

Fixpoint ideal_take (rule : eofrule) (n : nat) (s : ist) (acc : list byte) : sres (list byte * ist) :=
  match n with
  | O => SVal (rev_append acc [], s)
  | S n' => match ideal_next rule s with
            | SVal (b, s') => ideal_take rule n' s' (b :: acc)
            | SStop e => SStop e
            end
  end.

Fixpoint ideal {A} (rule : eofrule) (hint : N) (p : sprog A) (s : ist) : sres A * ist :=
  match p with
  | SRet a => (SVal a, s)
  | SDo SNext k =>
      match ideal_next rule s with
      | SVal (b, s') => ideal rule hint (k b) s'
      | SStop e => (SStop e, s)
      end
  | SDo SAvail k =>
      match irest s with
      | [] => (SStop (eof_status rule), s)
      | _ :: _ => ideal rule hint (k tt) s
      end
  | SDo (SCopyIn n) k =>
      match ideal_take rule n s [] with
      | SVal (l, s') => ideal rule hint (k l) s'
      | SStop e => (SStop e, s)
      end
  | SDo (SWrite d) k => ideal rule hint (k tt) {| irest := irest s; iout := rev_append d (iout s) |}
  | SDo SHint k => ideal rule hint (k hint) s
  end.

(* ===== buffered interpretation: into host calls, with an input buffer of any size ===== *)
Record bst := { bbuf : list byte; bend : bool (* input_end *) }.

Section Buffered.
Context {A : Type}.
Variables (bufsize : N) (rule : eofrule).

Definition b_fill (s : bst) (k : sres (byte * bst) -> prog (sres A * bst)) : prog (sres A * bst) :=
  Do (HRead bufsize) (fun r =>
    match r with
    | RErr => k (SStop ERR_READ)
    | RBytes [] =>
        match rule with
        | EofStop => k (SStop OK)
        | EofPad2 => if bend s then k (SStop ERR_READ)
                     else k (SVal (0, {| bbuf := [0]; bend := true |}))
        end
    | RBytes (b :: l) => k (SVal (b, {| bbuf := l; bend := bend s |}))
    end).

Definition b_next (s : bst) (k : sres (byte * bst) -> prog (sres A * bst)) : prog (sres A * bst) :=
  match bbuf s with
  | b :: l => k (SVal (b, {| bbuf := l; bend := bend s |}))
  | [] => b_fill s k
  end.

(* while (todo > 0) { if (avail == 0) READ_IF_NEEDED; else { i = min(avail, todo); copy(...); ... } } *)
Fixpoint b_copyin (fuel todo : nat) (s : bst) (acc : list byte)
         (k : sres (list byte * bst) -> prog (sres A * bst)) : prog (sres A * bst) :=
  match todo with
  | O => k (SVal (rev_append acc [], s))
  | S _ =>
    match fuel with
    | O => k (SStop 99)
    | S fuel' =>
      match bbuf s with
      | [] => b_fill s (fun r => match r with
                                 | SVal (b, s') => b_copyin fuel' todo {| bbuf := b :: bbuf s'; bend := bend s' |} acc k
                                 | SStop e => k (SStop e) end)
      | _ => let got := firstn todo (bbuf s) in      (* min(avail, todo) bytes, without measuring the whole buffer *)
             b_copyin fuel' (todo - length got) {| bbuf := skipn todo (bbuf s); bend := bend s |}
                      (rev_append got acc) k
      end
    end
  end.

Fixpoint buffered (p : sprog A) (s : bst) : prog (sres A * bst) :=
  match p with
  | SRet a => Ret (SVal a, s)
  | SDo SNext k =>
      b_next s (fun r => match r with SVal (b, s') => buffered (k b) s' | SStop e => Ret (SStop e, s) end)
  | SDo SAvail k =>
      match bbuf s with
      | _ :: _ => buffered (k tt) s
      | [] => b_fill s (fun r => match r with
                                 | SVal (b, s') => buffered (k tt) {| bbuf := b :: bbuf s'; bend := bend s' |}
                                 | SStop e => Ret (SStop e, s) end)
      end
  | SDo (SCopyIn n) k =>
      b_copyin (S (2 * n)) n s [] (fun r => match r with SVal (l, s') => buffered (k l) s' | SStop e => Ret (SStop e, s) end)
  | SDo (SWrite d) k =>
      Do (HWrite d) (fun w => if Z.eqb w (Z.of_nat (length d)) then buffered (k tt) s
                              else Ret (SStop ERR_WRITE, s))
  | SDo SHint k => Do HHint (fun h => buffered (k h) s)
  end.
End Buffered.
