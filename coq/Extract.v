(* Extraction of the executable model for the correspondence checks.
   ExtrOcamlBasic only: bool, option, unit, list, prod, sumbool, sumor map to OCaml's; N, Z, positive, nat stay inductive.
   No Extract Constant anywhere. *)
From Coq Require Import List NArith ZArith.
From Coq Require Extraction ExtrOcamlBasic.
From MSP Require Import Model.Cksum Model.LzssBase Model.Lzss Model.LzssEnc Model.Mszip Model.Lzx Model.Qtm L2.Sys L2.Host L2.Szdd L2.Kwaj Model.Find Model.OutName Model.Cabx Model.Chm Model.Oab Model.Cab Model.CabSet Model.Kwaj.
Extraction Language OCaml.
Set Extraction Optimize.
Extraction "model.ml" cksum lzss_spec lzss_enc block_accepts lzss_enc_expand wf_tok mszip_ideal lzx_run qtm_run run_script_decompress run_script_open_extract run_kscript_decompress run_kscript_open_extract cab_find out_tail perm_bits mtime_fields chm_session oab_run oab_patch_run cab_session set_session kwaj_session.
