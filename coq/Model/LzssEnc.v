From Coq Require Import List NArith ZArith Lia Bool.
Import ListNotations.
From MSP Require Import Model.LzssBase Model.Lzss.
Local Open Scope N_scope.

(* ---------- tokens, their meaning, and the encoder ---------- *)
Inductive tok := Lit (b : byte) | Mat (mpos len : N).
Definition wf_tok (t : tok) : bool :=
  match t with Lit b => b <? 256 | Mat mpos len => (mpos <? 4096) && (3 <=? len) && (len <=? 18) end.
Definition expand1 (s : sst) (t : tok) : sst :=
  match t with Lit b => s_put s b | Mat mpos len => s_copy (N.to_nat len) s mpos end.
Definition expand (s : sst) (ts : list tok) : sst := fold_left expand1 ts s.

Definition is_lit (t : tok) : bool := match t with Lit _ => true | Mat _ _ => false end.
Fixpoint ctrl (l : list bool) : N := match l with [] => 0 | b :: r => 2 * ctrl r + N.b2n b end.
Definition body1 (t : tok) : list byte :=
  match t with Lit b => [b] | Mat mpos len => [N.land mpos 255; N.lor (N.shiftl (N.shiftr mpos 8) 4) (len - 3)] end.
Fixpoint groups (fuel : nat) (ts : list tok) : list (list tok) :=
  match fuel with O => [] | S f => match ts with [] => [] | _ => firstn 8 ts :: groups f (skipn 8 ts) end end.
Definition enc_group (inv : N) (g : list tok) : list byte :=
  N.lxor (ctrl (map is_lit g)) inv :: flat_map body1 g.
Definition lzss_enc (mode : N) (ts : list tok) : list byte :=
  flat_map (enc_group (if mode =? 1 then 255 else 0)) (groups (length ts) ts).

(* generator interface: the encoding and the meaning of a token stream, side by side *)
Definition lzss_enc_expand (mode : N) (ts : list tok) : list byte * list byte :=
  (lzss_enc mode ts, rev' (sout (expand {| swin := Emp; spos := start_pos mode; sout := [] |} ts))).
