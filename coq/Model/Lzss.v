From Coq Require Import List NArith ZArith Lia Bool.
Import ListNotations.
From MSP Require Import Model.LzssBase.
Local Open Scope N_scope.
Local Notation "x <- p ;; q" := (bind p (fun x => q)) (at level 61, p at next level, right associativity).

Definition W := 12%nat.
Definition FILL : byte := 32.
Definition mask (x : N) := N.land x 4095.

(* ================= layer S: pure decoder on a byte list ================= *)
Record sst := { swin : wtree; spos : N; sout : list byte (* reversed *) }.

Definition s_put (s : sst) (b : byte) : sst :=
  {| swin := wset W (swin s) (spos s) b; spos := mask (spos s + 1); sout := b :: sout s |}.

Fixpoint s_copy (n : nat) (s : sst) (mpos : N) : sst :=
  match n with
  | O => s
  | S n' => s_copy n' (s_put s (wget W (swin s) mpos FILL)) (mask (mpos + 1))
  end.

(* result of the 8-item loop: remaining input, state, stop? *)
Fixpoint s_items (k : nat) (c bit : N) (inp : list byte) (s : sst) : list byte * sst * bool :=
  match k with
  | O => (inp, s, false)
  | S k' =>
    if N.testbit c bit then
      match inp with
      | [] => (inp, s, true)
      | b :: inp' => s_items k' c (bit + 1) inp' (s_put s b)
      end
    else
      match inp with
      | [] => (inp, s, true)
      | [m1] => ([], s, true)
      | m1 :: m2 :: inp' =>
        let mpos := N.lor m1 (N.shiftl (N.land m2 240) 4) in
        let len := N.land m2 15 + 3 in
        s_items k' c (bit + 1) inp' (s_copy (N.to_nat len) s mpos)
      end
  end.

Fixpoint s_loop (fuel : nat) (inv : N) (inp : list byte) (s : sst) : sst :=
  match fuel with
  | O => s
  | S f =>
    match inp with
    | [] => s
    | c :: inp' =>
      let '(inp2, s2, stop) := s_items 8 (N.lxor c inv) 0 inp' s in
      if stop then s2 else s_loop f inv inp2 s2
    end
  end.

Definition start_pos (mode : N) : N := 4096 - (if mode =? 2 then 18 else 16).
Definition lzss_spec (mode : N) (inp : list byte) : list byte :=
  rev (sout (s_loop (S (length inp)) (if mode =? 1 then 255 else 0) inp
                    {| swin := Emp; spos := start_pos mode; sout := [] |})).

(* ================= layer I: port of lzss_decompress over callbacks ================= *)
Record ist := { iwin : wtree; ipos : N; ibuf : list byte }.
Definition res (A : Type) := (N + A)%type.        (* inl status = function returns *)

Section Impl.
Variables (inh outh : handle) (bufsize : N).

(* ENSURE_BYTES; *i_ptr++ *)
Definition getbyte (s : ist) : prog (res (ist * byte)) :=
  match ibuf s with
  | b :: rest => Ret (inr ({| iwin := iwin s; ipos := ipos s; ibuf := rest |}, b))
  | [] => Do (CRead inh bufsize) (fun r =>
      match r with
      | RErr => Ret (inl ERR_READ)
      | RBytes [] => Ret (inl OK)
      | RBytes (b :: rest) => Ret (inr ({| iwin := iwin s; ipos := ipos s; ibuf := rest |}, b))
      end)
  end.

(* window[pos] = b; WRITE_BYTE; pos++ *)
Definition i_put (s : ist) (b : byte) : prog (res ist) :=
  Do (CWrite outh [b]) (fun w =>
    if Z.eqb w 1 then Ret (inr {| iwin := wset W (iwin s) (ipos s) b; ipos := mask (ipos s + 1); ibuf := ibuf s |})
    else Ret (inl ERR_WRITE)).

Fixpoint i_copy (n : nat) (s : ist) (mpos : N) : prog (res ist) :=
  match n with
  | O => Ret (inr s)
  | S n' => r <- i_put s (wget W (iwin s) mpos FILL) ;;
            match r with inl e => Ret (inl e) | inr s' => i_copy n' s' (mask (mpos + 1)) end
  end.

Fixpoint i_items (k : nat) (c bit : N) (s : ist) : prog (res ist) :=
  match k with
  | O => Ret (inr s)
  | S k' =>
    if N.testbit c bit then
      r <- getbyte s ;;
      match r with
      | inl e => Ret (inl e)
      | inr (s1, b) => r2 <- i_put s1 b ;;
          match r2 with inl e => Ret (inl e) | inr s2 => i_items k' c (bit + 1) s2 end
      end
    else
      r <- getbyte s ;;
      match r with
      | inl e => Ret (inl e)
      | inr (s1, m1) => r2 <- getbyte s1 ;;
        match r2 with
        | inl e => Ret (inl e)
        | inr (s2, m2) =>
          let mpos := N.lor m1 (N.shiftl (N.land m2 240) 4) in
          let len := N.land m2 15 + 3 in
          r3 <- i_copy (N.to_nat len) s2 mpos ;;
          match r3 with inl e => Ret (inl e) | inr s3 => i_items k' c (bit + 1) s3 end
        end
      end
  end.

Fixpoint i_loop (fuel : nat) (inv : N) (s : ist) : prog N :=
  match fuel with
  | O => Ret 99                                   (* out of fuel: never a legal status *)
  | S f =>
    r <- getbyte s ;;
    match r with
    | inl e => Ret e
    | inr (s1, c) => r2 <- i_items 8 (N.lxor c inv) 0 s1 ;;
        match r2 with inl e => Ret e | inr s2 => i_loop f inv s2 end
    end
  end.

Definition lzss_impl (fuel : nat) (mode : N) : prog N :=
  i_loop fuel (if mode =? 1 then 255 else 0)
         {| iwin := Emp; ipos := start_pos mode; ibuf := [] |}.
End Impl.
