(* Output accounting shared by lzxd_decompress, qtmd_decompress, mszipd_decompress and noned_decompress:
     i = min(stored-up bytes, out_bytes); write i; out_bytes -= i;
     while (out_bytes > 0) { produce one frame of p bytes (or fail); i = min(out_bytes, p); write i; keep p - i; out_bytes -= i; }
     if (out_bytes) return error ("bytes left to output");
   The per-frame decoder is abstracted to a list of outcomes: Some p = a frame of p bytes was decoded, None = the decoder failed. *)
From Coq Require Import List NArith Bool.
Import ListNotations.
Local Open Scope N_scope.

Record acct := { written : N; leftover : N; status_ok : bool }.

Fixpoint frames (out_bytes : N) (ps : list (option N)) (w : N) : acct :=
  if out_bytes =? 0 then {| written := w; leftover := 0; status_ok := true |} else
  match ps with
  | [] => {| written := w; leftover := 0; status_ok := false |}                   (* ran out of frames: "bytes left to output" / read error *)
  | None :: _ => {| written := w; leftover := 0; status_ok := false |}            (* decoder error *)
  | Some p :: rest =>
      let i := N.min out_bytes p in
      if out_bytes - i =? 0 then {| written := w + i; leftover := p - i; status_ok := true |}
      else frames (out_bytes - i) rest (w + i)
  end.

Definition decompress_call (have out_bytes : N) (ps : list (option N)) : acct :=
  let i := N.min have out_bytes in
  if out_bytes - i =? 0 then {| written := i; leftover := have - i; status_ok := true |}
  else frames (out_bytes - i) ps i.
