From Coq Require Import List NArith ZArith Lia Bool.
Import ListNotations.
From MSP Require Import Base.Src Gen.Tables Gen.Consts Model.Mszip.
From RecordUpdate Require Import RecordSet.
Import RecordSetNotations.
Local Open Scope N_scope.

Definition QFRAME := QTM_FRAME_SIZE.
Definition q_position_base := qtm_position_base.
Definition q_extra_bits := qtm_extra_bits.
Definition q_length_base := qtm_length_base.
Definition q_length_extra := qtm_length_extra.
Definition M16 := 65536. Definition M32 := 4294967296.
Definition QWD := 21%nat. Definition QJUNK := 0.   (* the window is cleared at initialisation (qtmd_init) *)

(* a model: syms as a list of (sym, cumfreq), length entries+1 *)
Record qmodel := mkM { shiftsleft : N; entries : N; syms : list (N * N) }.
#[export] Instance etaM : Settable _ := settable! mkM <shiftsleft; entries; syms>.
Definition init_model (start len : N) : qmodel :=
  {| shiftsleft := 4; entries := len;
     syms := map (fun i => (start + i, len - i)) (nrange (N.to_nat (len + 1)) 0) |}.

Definition u16 (x : N) := N.land x 65535.
(* qtmd_update_model *)
Fixpoint halve (l : list (N * N)) : list (N * N) :=       (* processes i = entries-1 downto 0; list order is i ascending *)
  match l with
  | [] => []
  | [last] => [last]                                        (* syms[entries]: untouched *)
  | (s, c) :: rest =>
      let rest' := halve rest in
      let nextc := match rest' with (_, c') :: _ => c' | [] => 0 end in
      let c1 := N.shiftr c 1 in
      (s, if c1 <=? nextc then u16 (nextc + 1) else c1) :: rest'
  end.
Fixpoint to_freq (l : list (N * N)) : list (N * N) :=       (* i ascending: cum[i] -= cum[i+1]; ++; >>= 1 (uses the OLD cum[i+1]) *)
  match l with
  | (s, c) :: (((_, c2) :: _) as rest) => (s, N.shiftr (u16 (u16 (c + M16 - c2) + 1)) 1) :: to_freq rest
  | l' => l'
  end.
(* in-place selection sort with the C's exact swap pattern, on the first [entries] elements *)
Fixpoint swap_pass (x : N * N) (l : list (N * N)) : (N * N) * list (N * N) :=
  match l with
  | [] => (x, [])
  | y :: r => if snd x <? snd y then let '(x', r') := swap_pass y r in (x', x :: r')
              else let '(x', r') := swap_pass x r in (x', y :: r')
  end.
Fixpoint sel_sort (n : nat) (l : list (N * N)) : list (N * N) :=
  match n with O => l | S n' => match l with [] => [] | x :: r => let '(x', r') := swap_pass x r in x' :: sel_sort n' r' end end.
Fixpoint to_cum (l : list (N * N)) : list (N * N) :=        (* i = entries-1 downto 0: cum[i] += cum[i+1] *)
  match l with
  | [] => []
  | [last] => [last]
  | (s, c) :: rest => let rest' := to_cum rest in
                      let nextc := match rest' with (_, c') :: _ => c' | [] => 0 end in (s, u16 (c + nextc)) :: rest'
  end.
Definition update_model (m : qmodel) : qmodel :=
  let sl := N.land (shiftsleft m + M32 - 1) (M32 - 1) in
  if negb (sl =? 0) then m <| shiftsleft := sl |> <| syms := halve (syms m) |>
  else
    let n := N.to_nat (entries m) in
    let fr := to_freq (syms m) in
    let body := firstn n fr in let tail := skipn n fr in
    m <| shiftsleft := 50 |> <| syms := to_cum (sel_sort n body ++ tail) |>.

Inductive mid := M0 | M1 | M2 | M3 | M4 | M5 | M6 | M6L | M7.
Record qst := mkQ {
  bb : N; bl : N; win : tr; wsize : N; wposn : N; frame_todo : N;
  H : N; L : N; C : N; header_read : bool;
  m0 : qmodel; m1 : qmodel; m2 : qmodel; m3 : qmodel; m4 : qmodel; m5 : qmodel; m6 : qmodel; m6l : qmodel; m7 : qmodel;
  optr : N; oend : N; err : N }.
#[export] Instance etaQ : Settable _ := settable! mkQ
  <bb; bl; win; wsize; wposn; frame_todo; H; L; C; header_read; m0; m1; m2; m3; m4; m5; m6; m6l; m7; optr; oend; err>.
Definition getm (i : mid) (s : qst) : qmodel :=
  match i with M0 => m0 s | M1 => m1 s | M2 => m2 s | M3 => m3 s | M4 => m4 s | M5 => m5 s | M6 => m6 s | M6L => m6l s | M7 => m7 s end.
Definition setm (i : mid) (m : qmodel) (s : qst) : qst :=
  match i with M0 => s <| m0 := m |> | M1 => s <| m1 := m |> | M2 => s <| m2 := m |> | M3 => s <| m3 := m |>
             | M4 => s <| m4 := m |> | M5 => s <| m5 := m |> | M6 => s <| m6 := m |> | M6L => s <| m6l := m |> | M7 => s <| m7 := m |> end.

Definition qm (A : Type) := qst -> sprog (N + (A * qst)).
Definition ret {A} (a : A) : qm A := fun s => SRet (inr (a, s)).
Definition fail {A} (e : N) : qm A := fun _ => SRet (inl e).
Definition bnd {A B} (m : qm A) (f : A -> qm B) : qm B :=
  fun s => sbind (m s) (fun r => match r with inl e => SRet (inl e) | inr (a, s') => f a s' end).
Notation "x <- m ;; k" := (bnd m (fun x => k)) (at level 61, m at next level, right associativity).
Definition get : qm qst := fun s => SRet (inr (s, s)).
Definition put (s : qst) : qm unit := fun _ => SRet (inr (tt, s)).
Definition modify (f : qst -> qst) : qm unit := fun s => SRet (inr (tt, f s)).
Definition next_byte : qm N := fun s => SDo SNext (fun b => SRet (inr (b, s))).
Definition write (d : list N) : qm unit := fun s => SDo (SWrite d) (fun _ => SRet (inr (tt, s))).

(* READ_BYTES: INJECT_BITS((b0 << 8) | b1, 16) *)
Definition read_word : qm unit :=
  b0 <- next_byte ;; b1 <- next_byte ;;
  modify (fun s => s <| bb := N.land (N.lor (bb s) (N.shiftl (N.lor (N.shiftl b0 8) b1) (16 - bl s))) (M32 - 1) |> <| bl := bl s + 16 |>).
Fixpoint ensure (fuel : nat) (n : N) : qm unit :=
  match fuel with O => ret tt | S f => s <- get ;; if bl s <? n then _ <- read_word ;; ensure f n else ret tt end.
Definition peek (n : N) : qm N := s <- get ;; ret (if n =? 0 then 0 else N.shiftr (bb s) (32 - n)).
Definition remove (n : N) : qm unit := modify (fun s => s <| bb := N.land (N.shiftl (bb s) n) (M32 - 1) |> <| bl := bl s - n |>).
Definition read_bits (n : N) : qm N := _ <- ensure 3 n ;; v <- peek n ;; _ <- remove n ;; ret v.
(* READ_MANY_BITS *)
Fixpoint read_many (fuel : nat) (needed val : N) : qm N :=
  match fuel with O => ret val | S f =>
    if needed =? 0 then ret val else
    s <- get ;; _ <- (if bl s <=? 16 then read_word else ret tt) ;;
    s1 <- get ;; let bitrun := N.min (bl s1) needed in
    p <- peek bitrun ;; _ <- remove bitrun ;;
    read_many f (N.land (needed + 256 - bitrun) 255) (N.land (N.lor (N.shiftl val bitrun) p) (M32 - 1)) end.

(* GET_SYMBOL *)
Fixpoint find_sym (l : list (N * N)) (i : N) (entries symf : N) : N :=
  (* for (i = 1; i < entries; i++) if (syms[i].cumfreq <= symf) break;  -- l starts at syms[1] *)
  match l with
  | [] => i
  | (_, c) :: r => if entries <=? i then i else if c <=? symf then i else find_sym r (i + 1) entries symf
  end.
Fixpoint add8 (n : nat) (l : list (N * N)) : list (N * N) :=
  match n with O => l | S n' => match l with [] => [] | (s, c) :: r => (s, u16 (c + 8)) :: add8 n' r end end.
Fixpoint renorm (fuel : nat) : qm unit :=
  match fuel with O => fail 99 | S f =>
    s <- get ;;
    let goon := if negb (N.land (L s) 32768 =? N.land (H s) 32768) then
                  if negb (N.land (L s) 16384 =? 0) && (N.land (H s) 16384 =? 0) then Some true else None
                else Some false in
    match goon with
    | None => ret tt
    | Some uf =>
      _ <- (if uf then modify (fun s => s <| C := N.lxor (C s) 16384 |> <| L := N.land (L s) 16383 |> <| H := N.lor (H s) 16384 |>) else ret tt) ;;
      _ <- modify (fun s => s <| L := u16 (N.shiftl (L s) 1) |> <| H := u16 (N.lor (N.shiftl (H s) 1) 1) |>) ;;
      b <- read_bits 1 ;;
      _ <- modify (fun s => s <| C := u16 (N.lor (N.shiftl (C s) 1) b) |>) ;;
      renorm f
    end end.
Definition cdiv (a b : Z) : Z := Z.quot a b.
Definition get_symbol (i : mid) : qm N :=
  s <- get ;;
  let m := getm i s in
  let cum (k : N) := snd (nth (N.to_nat k) (syms m) (0, 0)) in
  let range := N.land (H s + M16 - L s) 65535 + 1 in
  let c0 := cum 0 in
  (* symf = ((((C - L + 1) * cumfreq0) - 1) / range) & 0xFFFF, in C int arithmetic *)
  let symf := Z.to_N ((cdiv (((Z.of_N (C s) - Z.of_N (L s) + 1) * Z.of_N c0) - 1) (Z.of_N range)) mod 65536)%Z in
  let idx := find_sym (tl (syms m)) 1 (entries m) symf in
  let sym := fst (nth (N.to_nat (idx - 1)) (syms m) (0, 0)) in
  let range2 := (Z.of_N (H s) - Z.of_N (L s) + 1)%Z in
  let tot := Z.of_N c0 in
  let chi := cum (idx - 1) in let clo := cum idx in
  let H' := Z.to_N ((Z.of_N (L s) + cdiv (Z.of_N chi * range2) tot - 1) mod 65536)%Z in
  let L' := Z.to_N ((Z.of_N (L s) + cdiv (Z.of_N clo * range2) tot) mod 65536)%Z in
  let m1 := m <| syms := add8 (N.to_nat idx) (syms m) |> in
  let m2 := if 3800 <? snd (nth 0 (syms m1) (0, 0)) then update_model m1 else m1 in
  _ <- put (setm i m2 (s <| H := H' |> <| L := L' |>)) ;;
  _ <- renorm 100 ;; ret sym.

(* ghost checks: the model "goes wrong" with this status wherever qtmd.c would store or copy outside window[0..window_size);
   Proofs/QtmSafe.v shows it never does *)
Definition OOBQ : N := 96.
Definition inb (ws src dst n : N) : bool := (src + n <=? ws) && (dst + n <=? ws).
Fixpoint copy_fwd (n : nat) (w : tr) (src dst : N) : tr :=
  match n with O => w | S n' => copy_fwd n' (tset QWD w dst (tget QWD w src QJUNK)) (src + 1) (dst + 1) end.
Fixpoint copy_mask (n : nat) (w : tr) (j dst mask : N) : tr * N :=
  match n with O => (w, j) | S n' => copy_mask n' (tset QWD w dst (tget QWD w (N.land j mask) QJUNK)) (j + 1) (dst + 1) mask end.
Fixpoint span (n : nat) (w : tr) (i : N) (acc : list N) : list N :=
  match n with O => rev_append acc [] | S n' => span n' w (i + 1) (tget QWD w i QJUNK :: acc) end.

(* inner loop: while (window_posn < frame_end); returns (broke_out_after_wrap, out_bytes) *)
Fixpoint inner (fuel : nat) (frame_end out_bytes : N) : qm (bool * N) :=
  match fuel with O => fail 99 | S f =>
    s <- get ;;
    if frame_end <=? wposn s then ret (false, out_bytes) else
    sel <- get_symbol M7 ;;
    if sel <? 4 then
      sym <- get_symbol (if sel =? 0 then M0 else if sel =? 1 then M1 else if sel =? 2 then M2 else M3) ;;
      sl <- get ;; if wsize sl <=? wposn sl then fail OOBQ else        (* ghost: window[window_posn++] = sym *)
      _ <- modify (fun s => s <| win := tset QWD (win s) (wposn s) (N.land sym 255) |> <| wposn := wposn s + 1 |>
                              <| frame_todo := N.land (frame_todo s + M32 - 1) (M32 - 1) |>) ;;
      inner f frame_end out_bytes
    else
      mlmo <- (if sel =? 4 then sym <- get_symbol M4 ;; e <- read_many 40 (nthN q_extra_bits sym) 0 ;;
                                ret (3, nthN q_position_base sym + e + 1)
               else if sel =? 5 then sym <- get_symbol M5 ;; e <- read_many 40 (nthN q_extra_bits sym) 0 ;;
                                ret (4, nthN q_position_base sym + e + 1)
               else if sel =? 6 then
                 sym <- get_symbol M6L ;; e <- read_many 40 (nthN q_length_extra sym) 0 ;;
                 let ml := nthN q_length_base sym + e + 5 in
                 sym2 <- get_symbol M6 ;; e2 <- read_many 40 (nthN q_extra_bits sym2) 0 ;;
                 ret (ml, nthN q_position_base sym2 + e2 + 1)
               else fail ERR_DECRUNCH) ;;
      let '(ml, mo0) := mlmo in let mo := N.land mo0 (M32 - 1) in
      _ <- modify (fun s => s <| frame_todo := N.land (frame_todo s + M32 - ml) (M32 - 1) |>) ;;
      s1 <- get ;;
      if wsize s1 <? wposn s1 + ml then
        (* match wraps the window: copy first part, flush, copy second part, leave the loop *)
        if (wsize s1 <? wposn s1) || (wsize s1 <? ml - (wsize s1 - wposn s1)) then fail OOBQ else   (* ghost: both halves of the wrapped copy stay inside the window *)
        let i := wsize s1 - wposn s1 in
        let j0 := N.land (wposn s1 + M32 - mo) (M32 - 1) in       (* int j = window_posn - match_offset, used masked *)
        let '(w1, j1) := copy_mask (N.to_nat i) (win s1) j0 (wposn s1) (wsize s1 - 1) in
        let fl := wsize s1 - optr s1 in
        if out_bytes <? fl then fail ERR_DECRUNCH else
        _ <- write (span (N.to_nat fl) w1 (optr s1) []) ;;
        let i2 := ml - i in
        let '(w2, _) := copy_mask (N.to_nat i2) w1 j1 0 (wsize s1 - 1) in
        _ <- put (s1 <| win := w2 |> <| optr := 0 |> <| oend := 0 |> <| wposn := wposn s1 + ml - wsize s1 |>) ;;
        ret (true, out_bytes - fl)
      else
        _ <- (if wposn s1 <? mo then
           let j := mo - wposn s1 in
           if wsize s1 <? j then fail ERR_DECRUNCH else
           if negb (if j <? ml then inb (wsize s1) (wsize s1 - j) (wposn s1) j && inb (wsize s1) 0 (wposn s1 + j) (ml - j)
                    else inb (wsize s1) (wsize s1 - j) (wposn s1) ml) then fail OOBQ else     (* ghost *)
           let w' := if j <? ml
                     then copy_fwd (N.to_nat (ml - j)) (copy_fwd (N.to_nat j) (win s1) (wsize s1 - j) (wposn s1)) 0 (wposn s1 + j)
                     else copy_fwd (N.to_nat ml) (win s1) (wsize s1 - j) (wposn s1) in
           put (s1 <| win := w' |> <| wposn := wposn s1 + ml |>)
         else if negb (inb (wsize s1) (wposn s1 - mo) (wposn s1) ml) then fail OOBQ          (* ghost *)
         else put (s1 <| win := copy_fwd (N.to_nat ml) (win s1) (wposn s1 - mo) (wposn s1) |> <| wposn := wposn s1 + ml |>)) ;;
        inner f frame_end out_bytes
  end.

Fixpoint trailer (fuel : nat) : qm unit :=
  match fuel with O => fail 99 | S f => i <- read_bits 8 ;; if i =? 255 then ret tt else trailer f end.

Fixpoint outer (fuel : nat) (out_bytes : N) : qm N :=
  match fuel with O => fail 99 | S f =>
    s <- get ;;
    if out_bytes <=? oend s - optr s then ret out_bytes else
    _ <- (if header_read s then ret tt else
            c <- read_bits 16 ;; modify (fun s => s <| H := 65535 |> <| L := 0 |> <| C := c |> <| header_read := true |>)) ;;
    s1 <- get ;;
    let fe0 := N.land (wposn s1 + (out_bytes - (oend s1 - optr s1))) (M32 - 1) in
    let fe1 := if N.land (wposn s1 + frame_todo s1) (M32 - 1) <? fe0 then N.land (wposn s1 + frame_todo s1) (M32 - 1) else fe0 in
    let fe := if wsize s1 <? fe1 then wsize s1 else fe1 in
    r <- inner 70000 fe out_bytes ;;
    let '(_, ob) := r in
    _ <- modify (fun s => s <| oend := wposn s |>) ;;
    s2 <- get ;;
    if QFRAME <? frame_todo s2 then fail ERR_DECRUNCH else
    _ <- (if frame_todo s2 =? 0 then
            _ <- (if negb (N.land (bl s2) 7 =? 0) then remove (N.land (bl s2) 7) else ret tt) ;;
            _ <- trailer 100000 ;;
            modify (fun s => s <| header_read := false |> <| frame_todo := QFRAME |>)
          else ret tt) ;;
    s3 <- get ;;
    if wposn s3 =? wsize s3 then
      let i := oend s3 - optr s3 in
      if ob <=? i then ret ob    (* break *)
      else _ <- write (span (N.to_nat i) (win s3) (optr s3) []) ;;
           _ <- put (s3 <| optr := 0 |> <| oend := 0 |> <| wposn := 0 |>) ;;
           outer f (ob - i)
    else outer f ob
  end.

Definition decompress (out_bytes : N) : qm unit :=
  s <- get ;;
  if negb (err s =? 0) then fail (err s) else
  let i := N.min (oend s - optr s) out_bytes in
  _ <- (if 0 <? i then _ <- write (span (N.to_nat i) (win s) (optr s) []) ;; modify (fun s => s <| optr := optr s + i |>) else ret tt) ;;
  let ob := out_bytes - i in
  if ob =? 0 then ret tt else
  rest <- outer 100000 ob ;;
  if 0 <? rest then
    s1 <- get ;; _ <- write (span (N.to_nat rest) (win s1) (optr s1) []) ;; modify (fun s => s <| optr := optr s + rest |>)
  else ret tt.

Definition qtm_init (window_bits : N) : qst :=
  let i := window_bits * 2 in
  {| bb := 0; bl := 0; win := Emp; wsize := N.shiftl 1 window_bits; wposn := 0; frame_todo := QFRAME;
     H := 0; L := 0; C := 0; header_read := false;
     m0 := init_model 0 64; m1 := init_model 64 64; m2 := init_model 128 64; m3 := init_model 192 64;
     m4 := init_model 0 (N.min i 24); m5 := init_model 0 (N.min i 36); m6 := init_model 0 i;
     m6l := init_model 0 27; m7 := init_model 0 7; optr := 0; oend := 0; err := 0 |}.

Definition set_err (s : qst) (e : N) : qst := s <| err := e |>.
Definition qtm_call (s : qst) (i : ist) (n : N) : N * qst * ist :=
  match ideal EofPad2 0 (decompress n s) i with
  | (SVal (inl e), i') => (e, s <| err := e |>, i')
  | (SVal (inr (_, s')), i') => (0, s', i')
  | (SStop e, i') => (e, s <| err := e |>, i')
  end.
Fixpoint qtm_calls (reqs : list N) (s : qst) (i : ist) (acc : list N) : list N * ist :=
  match reqs with
  | [] => (rev_append acc [], i)
  | n :: rest => let '(st, s', i') := qtm_call s i n in qtm_calls rest s' i' (st :: acc)
  end.
Definition qtm_run (window_bits : N) (inp reqs : list N) : list N * list N :=
  let '(sts, i) := qtm_calls reqs (qtm_init window_bits) {| irest := inp ++ pad EofPad2; iout := [] |} [] in
  (sts, rev_append (iout i) []).
