(* cabd_merge at the level of the lists it builds.  A part (cabinet, or an already merged run of cabinets) is its folder list and
   its file list; files refer to folders by a globally unique folder identity.  A folder knows whether it continues from the previous /
   into the next part (merge_prev / merge_next non-NULL).
     no merge needed:  folders = L ++ R, files = L ++ R
     merge needed:     the last folder of L absorbs the first folder of R (blocks: l + r - 1, the shared split block counted once;
                       it continues onward iff R's first folder did), R's copies of the continued files (those whose folder is the
                       absorbed one) are deleted from the file list.                                                             *)
From Coq Require Import List NArith Bool.
Import ListNotations.
Local Open Scope N_scope.

Record fold := { fid : N; blocks : N; mprev : bool; mnext : bool }.
Record file := { fname : N; ffold : N }.
Record part := { folders : list fold; files : list file }.

Definition absorb (l r : fold) : fold := {| fid := fid l; blocks := blocks l + blocks r - 1; mprev := mprev l; mnext := mnext r |}.
Definition keep (rid : N) (f : file) : bool := negb (ffold f =? rid).

Definition merge (l r : part) : part :=
  match rev (folders l), folders r with
  | lf :: linit_rev, rf :: rtail =>
      if mnext lf || mprev rf then
        {| folders := rev linit_rev ++ absorb lf rf :: rtail;
           files := files l ++ filter (keep (fid rf)) (files r) |}
      else {| folders := folders l ++ folders r; files := files l ++ files r |}
  | _, _ => {| folders := folders l ++ folders r; files := files l ++ files r |}
  end.

(* a well-formed set part: at least one folder, folder identities unique within it, every file names a folder of the part,
   only the first folder may continue from before, only the last may continue onward, every folder has >= 1 block *)
Definition fids (p : part) : list N := map fid (folders p).
