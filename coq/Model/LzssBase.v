From Coq Require Import List NArith ZArith Lia Bool.
Import ListNotations.
Local Open Scope N_scope.

Definition byte := N.
Definition handle := nat.
Inductive rd := RErr | RBytes (l : list byte).

Inductive call : Type :=
| CRead (h : handle) (n : N) | CWrite (h : handle) (d : list byte).
Definition answer (c : call) : Type := match c with CRead _ _ => rd | CWrite _ _ => Z end.

Inductive prog (A : Type) : Type := Ret (a : A) | Do (c : call) (k : answer c -> prog A).
Arguments Ret {A}. Arguments Do {A}.
Fixpoint bind {A B} (p : prog A) (f : A -> prog B) : prog B :=
  match p with Ret a => f a | Do c k => Do c (fun r => bind (k r) f) end.

(* window as a bit-indexed trie; unset cells read as [junk] *)
Inductive wtree := Emp | Lf (b : byte) | Nd (l r : wtree).
Fixpoint wget (d : nat) (t : wtree) (i : N) (junk : byte) : byte :=
  match d with
  | O => match t with Lf b => b | _ => junk end
  | S d' => match t with
            | Nd l r => if N.odd i then wget d' r (N.div2 i) junk else wget d' l (N.div2 i) junk
            | _ => junk end
  end.
Fixpoint wset (d : nat) (t : wtree) (i : N) (b : byte) : wtree :=
  match d with
  | O => Lf b
  | S d' => let '(l, r) := match t with Nd l r => (l, r) | _ => (Emp, Emp) end in
            if N.odd i then Nd l (wset d' r (N.div2 i) b) else Nd (wset d' l (N.div2 i) b) r
  end.

(* memset(window, v, 2^d): every cell set *)
Fixpoint full_tree (d : nat) (v : byte) : wtree := match d with O => Lf v | S d' => Nd (full_tree d' v) (full_tree d' v) end.

(* status codes *)
Definition OK : N := 0. Definition ERR_READ : N := 3. Definition ERR_WRITE : N := 4.
