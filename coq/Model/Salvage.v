(* What MSCABD_PARAM_SALVAGE / FIXMSZIP relax, as decision rules:
   - file table: an entry with a folder index >= num_folders (or a bad name) is fatal in strict mode, skipped in salvage mode;
   - block reader: size limits (Model/CabBlock.v) and the checksum test (Model/Cksum.v) are relaxed;
   - extract: an over-long length is clamped instead of refused. *)
From Coq Require Import List NArith Bool.
Import ListNotations.
From MSP Require Import Gen.Consts Model.Cksum Model.CabBlock.
Local Open Scope N_scope.

Record entry := { e_fidx : N; e_name_ok : bool; e_payload : N }.
Definition entry_ok (nfolders : N) (e : entry) : bool :=
  e_name_ok e && ((e_fidx e <? nfolders) || (cffileCONTINUED_FROM_PREV <=? e_fidx e)).
(* cabd_read_headers' file loop: None = MSPACK_ERR_DATAFORMAT *)
Fixpoint file_table (salvage : bool) (nfolders : N) (es : list entry) : option (list entry) :=
  match es with
  | [] => Some []
  | e :: rest =>
      if entry_ok nfolders e then option_map (cons e) (file_table salvage nfolders rest)
      else if salvage then file_table salvage nfolders rest else None
  end.
Definition listing (salvage : bool) (nfolders : N) (es : list entry) : option (list entry) :=
  match file_table salvage nfolders es with
  | Some [] => None                    (* "No files found": DATAFORMAT *)
  | r => r
  end.

(* the checksum test of one block part under the ignore_cksum flag: Some true = data accepted *)
Definition block_ok (ignore_cksum : bool) (stored : N) (hdr4 payload : list N) : bool :=
  block_accepts stored hdr4 payload || ignore_cksum.

(* cabd_extract's length rule *)
Definition extract_len (salvage : bool) (offset length : N) : option N :=
  if CAB_LENGTHMAX <? offset then None
  else if CAB_LENGTHMAX - offset <? length then (if salvage then Some (CAB_LENGTHMAX - offset) else None)
  else Some length.
