(* Loop-progress models for C04.
   (1) cabd_find: after a candidate header at caboff, where does the scan resume?
         offset = caboff + 4;                                   (rejected, or header parse failed)
         offset = caboff + cablen_u32;                          (parsed as a cabinet; only reached when foffset_u32 < cablen_u32)
   (2) chmd_fast_find after the repair: both walks count visited chunks and stop at num_chunks.
       [next] is ANY function from chunk numbers to chunk numbers (whatever the file says). *)
From Coq Require Import List NArith Bool.
Import ListNotations.
Local Open Scope N_scope.

Definition resume_offset (caboff cablen foffset : N) (plausible parsed : bool) : N :=
  if plausible && parsed && (foffset <? cablen) then caboff + cablen else caboff + 4.

Inductive walk_result := Found (steps : N) | NotFound (steps : N) | LoopDetected (steps : N) | OutOfFuel.
(* PMGL walk: for (n = first; n <= last; n = next n) { if (visited++ >= num) loop!; if (hit n) found; if (n == next n) break; } *)
Fixpoint pmgl_walk (fuel : nat) (next : N -> N) (hit : N -> bool) (last num : N) (n visited : N) : walk_result :=
  match fuel with
  | O => OutOfFuel
  | S f =>
    if last <? n then NotFound visited
    else if num <=? visited then LoopDetected visited
    else if hit n then Found (visited + 1)
    else if n =? next n then NotFound (visited + 1)
    else pmgl_walk f next hit last num (next n) (visited + 1)
  end.
