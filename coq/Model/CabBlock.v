(* The size bookkeeping of cabd_sys_read_block: how many bytes can ever sit in the CAB input buffer.
     len      = EndGetI16(&hdr[cfdata_CompressedSize]);             (0..65535)
     full_len = (d->i_end - d->i_ptr) + len;                       (i_ptr = input[0] on entry, so this is have + len)
     if (full_len > CAB_INPUTMAX) { if (!ignore_blocksize || full_len > CAB_INPUTMAX_SALVAGE) return DATAFORMAT; }
     read len bytes at i_end; i_end += len;
     if uncompressed size != 0: done (and the Quantum feeder then stores ONE more byte: *i_end++ = 0xFF)
     else: continue with the next cabinet's first block (same buffer, same have)                                   *)
From Coq Require Import List NArith Bool.
Import ListNotations.
From MSP Require Import Gen.Consts.
Local Open Scope N_scope.

Definition accept_part (salvage : bool) (have len : N) : option N :=
  let full_len := have + len in
  if CAB_INPUTMAX <? full_len then
    (if negb salvage || (CAB_INPUTMAX_SALVAGE <? full_len) then None else Some full_len)
  else Some full_len.

(* parts of one (possibly split) block: each element is the 16-bit compressed size of a part *)
Fixpoint accept_parts (salvage : bool) (have : N) (lens : list N) : option N :=
  match lens with
  | [] => Some have
  | l :: rest => match accept_part salvage have l with None => None | Some h => accept_parts salvage h rest end
  end.
