(* The decoder-reuse logic of cabd_extract (and chmd_extract's LZX section), over an abstract folder.
   A folder is its plaintext plus an optional damage point: decoding any byte at position >= [dmg] fails.
   Decoders are frame-based (LZX, MSZIP: [frame] = 32768; the output of a frame is delivered only when the whole frame decoded)
   or byte-based ([frame] = 1: stored folders; Quantum decodes only as far as asked).
   State: None = no decoder; Some (o, failed) = a decoder that has delivered o bytes and may carry a sticky error.
     cabd_extract(file):  if (d->folder != fol || d->offset > file->offset || !d->state) re-initialise (offset 0, no error);
                          skip file->offset - d->offset bytes (written nowhere), then extract file->length bytes.          *)
From Coq Require Import List NArith Bool.
Import ListNotations.
Local Open Scope N_scope.

Record folder := { plain : list N; dmg : option N; frame : N }.
Definition st := option (N * bool).

(* deliver n more bytes from offset o: returns (bytes delivered, new offset, failed).  A frame-based decoder fails when the frame
   holding the first damaged byte is needed, and has then delivered everything up to the start of that frame. *)
Definition limit (f : folder) : option N :=      (* first offset that cannot be delivered *)
  match dmg f with None => None | Some x => Some ((x / frame f) * frame f) end.
Definition slice (l : list N) (a n : N) : list N := firstn (N.to_nat n) (skipn (N.to_nat a) l).
Definition deliver (f : folder) (o n : N) : list N * N * bool :=
  let avail := match limit f with
               | None => N.of_nat (length (plain f))
               | Some x => N.min x (N.of_nat (length (plain f))) end in
  if o + n <=? avail then (slice (plain f) o n, o + n, false)
  else (slice (plain f) o (avail - o), N.max o avail, true).

Definition extract (f : folder) (s : st) (off len : N) : (bool * list N) * st :=   (* (ok, bytes written to the output), new state *)
  let s0 := match s with
            | Some (o, failed) => if off <? o then (0, false) else (o, failed)
            | None => (0, false) end in
  let '(o, failed) := s0 in
  if len =? 0 then ((true, []), Some (o, failed)) else      (* if (filelen) { ... }: an empty member needs no decoding *)
  if failed then ((false, []), Some (o, true)) else
  let '(_, o1, f1) := deliver f o (off - o) in
  if f1 then ((false, []), Some (o1, true)) else
  let '(bytes, o2, f2) := deliver f o1 len in
  ((negb f2, bytes), Some (o2, f2)).

Definition fresh (f : folder) (off len : N) : bool * list N := fst (extract f None off len).

(* a history: any sequence of (offset, length) requests on one folder *)
Fixpoint after (f : folder) (s : st) (hist : list (N * N)) : st :=
  match hist with [] => s | (off, len) :: rest => after f (snd (extract f s off len)) rest end.
