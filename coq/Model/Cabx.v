(* cabextract's per-member loop (process_cabinet) as a function from the listing, the options and two oracles to what it does;
   and set_date_and_perm's mode computation. *)
From Coq Require Import List NArith Bool.
Import ListNotations.
Local Open Scope N_scope.

Inductive mode := MList | MTest | MPipe | MExtract.
Inductive action (M : Type) := AList (m : M) | ATest (m : M) | APipe (m : M) | AExtract (m : M) | ASkip (m : M).
Arguments AList {M}. Arguments ATest {M}. Arguments APipe {M}. Arguments AExtract {M}. Arguments ASkip {M}.
Definition target {M} (a : action M) : M := match a with AList m | ATest m | APipe m | AExtract m | ASkip m => m end.

Section Loop.
Variable M : Type.
Variables (matches : M -> bool)      (* the -F filters applied to the member's output name (true when no filter is given) *)
          (extract_ok : M -> bool)   (* does cabd->extract() succeed on this member *)
          (path_ok : M -> bool)      (* ensure_filepath() *)
          (writable : M -> bool).    (* can_write(): false = skipped (-n, answered no) *)
(* returns the actions in order and the error count *)
Fixpoint process (md : mode) (ms : list M) : list (action M) * N :=
  match ms with
  | [] => ([], 0)
  | m :: rest =>
      let '(acts, errs) := process md rest in
      if negb (matches m) then (acts, errs) else
      match md with
      | MList => (AList m :: acts, errs)
      | MTest => (ATest m :: acts, errs + N.b2n (negb (extract_ok m)))
      | MPipe => (APipe m :: acts, errs + N.b2n (negb (extract_ok m)))
      | MExtract =>
          if negb (path_ok m) then (AExtract m :: acts, errs + 1)
          else if writable m then (AExtract m :: acts, errs + N.b2n (negb (extract_ok m)))
          else (ASkip m :: acts, errs)
      end
  end.
Definition exit_status (md : mode) (ms : list M) : N := if snd (process md ms) =? 0 then 0 else 1.
End Loop.

(* set_date_and_perm: mode = 0444 | (EXEC ? 0111 : 0) | (RDONLY ? 0 : 0222), then & ~umask *)
Definition ATTR_RDONLY : N := 1. Definition ATTR_EXEC : N := 64.
Definition perm_bits (attribs umask : N) : N :=
  let m := N.lor (N.lor 292 (if N.land attribs ATTR_EXEC =? 0 then 0 else 73)) (if N.land attribs ATTR_RDONLY =? 0 then 146 else 0) in
  N.land m (N.lxor 511 (N.land umask 511)).
(* the fields handed to mktime() *)
Definition mtime_fields (date time : N) : N * N * N * N * N * N :=    (* sec, min, hour, mday, mon (0-based), year - 1900 *)
  (N.land (N.shiftl time 1) 62, N.land (N.shiftr time 5) 63, N.shiftr time 11,
   N.land date 31, N.land (N.shiftr date 5) 15 - 1, N.shiftr date 9 + 1980 - 1900).
