From Coq Require Import List NArith Lia Bool.
Import ListNotations.
Local Open Scope N_scope.

Definition DOT := 46. Definition SL := 47. Definition BSL := 92. Definition XX := 120.
Definition is_slash (c : N) : bool := (c =? SL) || (c =? BSL).

(* port of the last two passes of create_output_name (cabextract.c), on the bytes after the
   "dir/" prefix.  Pass 1: strip leading slashes of either kind; all-slashes -> "x". *)
Fixpoint strip (l : list N) : list N :=
  match l with
  | c :: rest => if is_slash c then strip rest else l
  | [] => []
  end.
Definition strip_lead (l : list N) : list N :=
  match l with
  | c :: _ => if is_slash c then (match strip l with [] => [XX] | s => s end) else l
  | [] => []
  end.

(* Pass 2: for (; *o; o++) if (o[0]=='.' && o[1]=='.' && (o[2]=='/'||o[2]=='\\')) { o[0]=o[1]='x'; o+=2; } *)
Fixpoint rw (l : list N) : list N :=
  match l with
  | [] => []
  | a :: rest =>
    match rest with
    | b :: c :: rest2 =>
        if (a =? DOT) && (b =? DOT) && is_slash c then XX :: XX :: c :: rw rest2
        else a :: rw rest
    | _ => a :: rw rest
    end
  end.

(* does "..<slash>" occur anywhere? *)
Fixpoint has_dds (l : list N) : bool :=
  match l with
  | [] => false
  | a :: rest =>
    match rest with
    | b :: c :: _ => ((a =? DOT) && (b =? DOT) && is_slash c) || has_dds rest
    | _ => has_dds rest
    end
  end.

(* ---------- the whole of create_output_name (cabextract.c), on the member name's bytes (no NUL) ---------- *)
Section Out.
Variable lower : N -> N.          (* towlower() / tolower(): any function *)
Definition cont (b : N) : bool := N.land b 192 =? 128.       (* (b & 0xC0) == 0x80 *)
Definition nth0 (l : list N) (i : nat) : N := nth i l 0.     (* bytes past the end read as the terminating NUL *)

(* one UTF-8 character: returns (code point, bytes consumed after the first) *)
Definition decode1 (c : N) (r : list N) : N * nat :=
  if c <? 128 then (c, 0%nat)
  else if (194 <=? c) && (c <? 224) && cont (nth0 r 0) then
    (N.lor (N.shiftl (N.land c 31) 6) (N.land (nth0 r 0) 63), 1%nat)
  else if (224 <=? c) && (c <? 240) && (Nat.leb 1 (length r)) && cont (nth0 r 0) && cont (nth0 r 1) then
    (N.lor (N.lor (N.shiftl (N.land c 15) 12) (N.shiftl (N.land (nth0 r 0) 63) 6)) (N.land (nth0 r 1) 63), 2%nat)
  else if (240 <=? c) && (c <? 245) && (Nat.leb 2 (length r)) && cont (nth0 r 0) && cont (nth0 r 1) && cont (nth0 r 2) then
    (N.lor (N.lor (N.lor (N.shiftl (N.land c 7) 18) (N.shiftl (N.land (nth0 r 0) 63) 12)) (N.shiftl (N.land (nth0 r 1) 63) 6)) (N.land (nth0 r 2) 63), 3%nat)
  else (65533, 0%nat).
Definition fixup (x : N) : N :=
  if (x =? 0) || (1114111 <? x) || ((55296 <=? x) && (x <=? 57343)) || (x =? 65534) || (x =? 65535) then 65533 else x.
Definition swap (isunix : bool) (x : N) : N :=
  let sep := if isunix then SL else BSL in let other := if isunix then BSL else SL in
  if x =? sep then SL else if x =? other then BSL else x.
Definition encode1 (x : N) : list N :=
  if x <? 128 then [x]
  else if x <? 2048 then [N.lor 192 (N.shiftr x 6); N.lor 128 (N.land x 63)]
  else if x <? 65536 then [N.lor 224 (N.shiftr x 12); N.lor 128 (N.land (N.shiftr x 6) 63); N.lor 128 (N.land x 63)]
  else if x <=? 1114111 then [N.lor 240 (N.shiftr x 18); N.lor 128 (N.land (N.shiftr x 12) 63); N.lor 128 (N.land (N.shiftr x 6) 63); N.lor 128 (N.land x 63)]
  else [239; 191; 189].
Fixpoint conv_utf8 (fuel : nat) (isunix lowerit : bool) (l : list N) : list N :=
  match fuel with O => [] | S f =>
    match l with
    | [] => []
    | c :: r => let '(x, k) := decode1 c r in
                let x1 := fixup x in
                let x2 := if lowerit then lower x1 else x1 in
                encode1 (swap isunix x2) ++ conv_utf8 f isunix lowerit (skipn k r)
    end
  end.
Definition conv_plain (isunix lowerit : bool) (l : list N) : list N :=
  map (fun c => swap isunix (if lowerit then N.land (lower c) 255 else c)) l.     (* (unsigned char) tolower(c) *)

(* the buffer is a C string: it ends at the first NUL *)
Fixpoint cstr (l : list N) : list N := match l with [] => [] | c :: r => if c =? 0 then [] else c :: cstr r end.

Definition out_tail (lowerit isunix utf8 : bool) (name : list N) : list N :=
  let conv := if utf8 then conv_utf8 (length name) isunix lowerit name else conv_plain isunix lowerit name in
  rw (strip_lead (cstr conv)).
Definition create_output_name (dir : option (list N)) (lowerit isunix utf8 : bool) (name : list N) : list N :=
  (match dir with Some d => d ++ [SL] | None => [] end) ++ out_tail lowerit isunix utf8 name.
End Out.
