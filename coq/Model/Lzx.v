From Coq Require Import List NArith ZArith Lia Bool.
Import ListNotations.
From MSP Require Import Base.Src Gen.Tables Gen.Consts Model.Mszip.
From RecordUpdate Require Import RecordSet.
Import RecordSetNotations.
Local Open Scope N_scope.

(* reuses tr/tget/tset from Mszip.v (value tries) *)
Definition ERR_ARGS : N := 1.
Definition FRAME_SIZE := LZX_FRAME_SIZE.
Definition NUM_CHARS := LZX_NUM_CHARS.
Definition PRETREE_SYMS := LZX_PRETREE_MAXSYMBOLS. Definition PRETREE_BITS := LZX_PRETREE_TABLEBITS.
Definition MAINTREE_SYMS := LZX_MAINTREE_MAXSYMBOLS. Definition MAINTREE_BITS := LZX_MAINTREE_TABLEBITS.
Definition LENGTH_SYMS := LZX_LENGTH_MAXSYMBOLS. Definition LENGTH_BITS := LZX_LENGTH_TABLEBITS.
Definition ALIGNED_SYMS := LZX_ALIGNED_MAXSYMBOLS. Definition ALIGNED_BITS := LZX_ALIGNED_TABLEBITS.
Definition TBD := 14%nat.    (* table tries up to 16384 cells *)
Definition LND := 12%nat.    (* length arrays up to 4096 cells *)
Definition WND := 25%nat.    (* window trie *)
Definition JUNK := 170.

(* ---------- make_decode_table, BITS_ORDER_MSB; None = returns 1; cells beyond the array are
   simply stored (the model keeps F1's over-run inside one big trie) ---------- *)
Section MDT.
Variables (nsyms nbits : N) (len : N -> N).
Definition msyms := nrange (N.to_nat nsyms) 0.
Definition q1_sym (bit_num bit_mask table_mask : N) (st : option (tr * N)) (sym : N) : option (tr * N) :=
  match st with None => None | Some (t, pos) =>
    if len sym =? bit_num then
      let pos' := pos + bit_mask in
      if table_mask <? pos' then None else Some (tfill TBD (N.to_nat bit_mask) t pos sym, pos')
    else st end.
Fixpoint q1 (k : nat) (bit_num bit_mask table_mask : N) (st : option (tr * N)) : option (tr * N) :=
  match k with O => st | S k' =>
    q1 k' (bit_num + 1) (N.div2 bit_mask) table_mask (fold_left (q1_sym bit_num bit_mask table_mask) msyms st) end.
Fixpoint qwalk (k : nat) (fillc : N) (t : tr) (leaf next pos : N) : tr * N * N :=
  match k with O => (t, leaf, next) | S k' =>
    let '(t1, next1) := if tget TBD t leaf 70000 =? 65535
                        then (tset TBD (tset TBD (tset TBD t (N.shiftl next 1) 65535) (N.shiftl next 1 + 1) 65535) leaf next,
                              N.land (next + 1) 65535)
                        else (t, next) in
    let leaf' := N.shiftl (tget TBD t1 leaf 70000) 1 + (if N.testbit pos (15 - fillc) then 1 else 0) in
    qwalk k' (fillc + 1) t1 leaf' next1 pos end.
Definition q3_sym (bit_num bit_mask table_mask : N) (st : option (tr * N * N)) (sym : N) : option (tr * N * N) :=
  match st with None => None | Some (t, pos, next) =>
    if len sym =? bit_num then
      if table_mask <=? pos then None else
      let '(t1, leaf, next1) := qwalk (N.to_nat (bit_num - nbits)) 0 t (N.shiftr pos 16) next pos in
      Some (tset TBD t1 leaf sym, pos + bit_mask, next1)
    else st end.
Fixpoint q3 (k : nat) (bit_num bit_mask table_mask : N) (st : option (tr * N * N)) : option (tr * N * N) :=
  match k with O => st | S k' =>
    q3 k' (bit_num + 1) (N.div2 bit_mask) table_mask (fold_left (q3_sym bit_num bit_mask table_mask) msyms st) end.
Definition mdt_msb : option tr :=
  let table_mask := N.shiftl 1 nbits in
  match q1 (N.to_nat nbits) 1 (N.div2 table_mask) table_mask (Some (Emp, 0)) with
  | None => None
  | Some (t, pos) =>
    if pos =? table_mask then Some t else
    let t1 := tfill TBD (N.to_nat (table_mask - pos)) t pos 65535 in
    let next := if N.div2 table_mask <? nsyms then nsyms else N.div2 table_mask in
    let tm16 := N.shiftl table_mask 16 in
    match q3 (N.to_nat (16 - nbits)) (nbits + 1) 32768 tm16 (Some (t1, N.shiftl pos 16, next)) with
    | None => None
    | Some (t2, posf, _) => if posf =? tm16 then Some t2 else None
    end
  end.
End MDT.

(* ---------- state ---------- *)
Inductive osrc := OWin | OE8.
Record lst := mkL {
  bb : N; bl : N;
  win : tr; wsize : N; refsize : N; num_offsets : N;
  wposn : N; fposn : N; frame : N; reset_interval : N;
  R0 : N; R1 : N; R2 : N; blen : N; brem : N;
  intel_filesize : N; intel_started : bool; btype : N; header_read : bool;
  is_delta : bool; offset : N;
  pre_len : tr; main_len : tr; len_len : tr; ali_len : tr;
  pre_tab : tr; main_tab : tr; len_tab : tr; ali_tab : tr; len_empty : bool;
  e8 : tr; osel : osrc; optr : N; oend : N; err : N }.
#[export] Instance etaL : Settable _ := settable! mkL
  <bb; bl; win; wsize; refsize; num_offsets; wposn; fposn; frame; reset_interval; R0; R1; R2; blen; brem;
   intel_filesize; intel_started; btype; header_read; is_delta; offset;
   pre_len; main_len; len_len; ali_len; pre_tab; main_tab; len_tab; ali_tab; len_empty; e8; osel; optr; oend; err>.

Definition lm (A : Type) := lst -> sprog (N + (A * lst)).      (* inl status: lzxd_decompress returns lzx->error = status *)
Definition ret {A} (a : A) : lm A := fun s => SRet (inr (a, s)).
Definition fail {A} (e : N) : lm A := fun _ => SRet (inl e).
Definition bnd {A B} (m : lm A) (f : A -> lm B) : lm B :=
  fun s => sbind (m s) (fun r => match r with inl e => SRet (inl e) | inr (a, s') => f a s' end).
Notation "x <- m ;; k" := (bnd m (fun x => k)) (at level 61, m at next level, right associativity).
Definition get : lm lst := fun s => SRet (inr (s, s)).
Definition put (s : lst) : lm unit := fun _ => SRet (inr (tt, s)).
Definition modify (f : lst -> lst) : lm unit := fun s => SRet (inr (tt, f s)).
Definition avail : lm unit := fun s => SDo SAvail (fun _ => SRet (inr (tt, s))).
Definition next_byte : lm N := fun s => SDo SNext (fun b => SRet (inr (b, s))).
Definition copy_in (n : N) : lm (list N) := fun s => SDo (SCopyIn (N.to_nat n)) (fun l => SRet (inr (l, s))).
Definition write (d : list N) : lm unit := fun s => SDo (SWrite d) (fun _ => SRet (inr (tt, s))).
Definition get_hint : lm N := fun s => SDo SHint (fun h => SRet (inr (h, s))).     (* lzx->length as it is now *)
Definition M32 := 4294967296.

(* READ_BYTES: INJECT_BITS((b1<<8)|b0, 16); only reached with bits_left <= 16 *)
Definition read_word : lm unit :=
  b0 <- next_byte ;; b1 <- next_byte ;;
  modify (fun s => s <| bb := N.lor (bb s) (N.shiftl (N.lor (N.shiftl b1 8) b0) (16 - bl s)) |> <| bl := bl s + 16 |>).
Fixpoint ensure (fuel : nat) (n : N) : lm unit :=
  match fuel with O => ret tt | S f => s <- get ;; if bl s <? n then _ <- read_word ;; ensure f n else ret tt end.
Definition peek (n : N) : lm N := s <- get ;; ret (N.shiftr (bb s) (32 - n)).
Definition remove (n : N) : lm unit :=
  modify (fun s => s <| bb := N.land (N.shiftl (bb s) n) (M32 - 1) |> <| bl := bl s - n |>).
Definition read_bits (n : N) : lm N := _ <- ensure 3 n ;; v <- peek n ;; _ <- remove n ;; ret v.

Fixpoint traverse (fuel : nat) (table : tr) (maxsyms : N) (sym mask : N) : lm N :=
  match fuel with O => fail ERR_DECRUNCH | S f =>
    let mask' := N.div2 mask in
    if mask' =? 0 then fail ERR_DECRUNCH else
    s <- get ;;
    let sym' := tget TBD table (N.lor (N.shiftl sym 1) (if N.land (bb s) mask' =? 0 then 0 else 1)) 70000 in
    if maxsyms <=? sym' then traverse f table maxsyms sym' mask' else ret sym' end.
Definition read_huffsym (table lens : tr) (tablebits maxsyms : N) : lm N :=
  _ <- ensure 3 16 ;; v <- peek tablebits ;;
  let sym0 := tget TBD table v 70000 in
  sym <- (if maxsyms <=? sym0 then traverse 40 table maxsyms sym0 (N.shiftl 1 (32 - tablebits)) else ret sym0) ;;
  _ <- remove (tget LND lens sym 0) ;; ret sym.

(* ---------- lzxd_read_lens ---------- *)
Inductive which := WMain | WLen.
Definition lens_of (w : which) (s : lst) : tr := match w with WMain => main_len s | WLen => len_len s end.
Definition set_lens (w : which) (t : tr) (s : lst) : lst :=
  match w with WMain => s <| main_len := t |> | WLen => s <| len_len := t |> end.
Definition delta (cur z : N) : N :=               (* z = lens[x] - z; if (z < 0) z += 17; stored in an unsigned char *)
  let v := (Z.of_N cur - Z.of_N z)%Z in
  let v' := if (v <? 0)%Z then (v + 17)%Z else v in Z.to_N (v' mod 256)%Z.
Fixpoint pre_lens (n : nat) (x : N) : lm unit :=
  match n with O => ret tt | S n' => y <- read_bits 4 ;; _ <- modify (fun s => s <| pre_len := tset LND (pre_len s) x y |>) ;; pre_lens n' (x + 1) end.
Fixpoint run_set (n : nat) (t : tr) (x v : N) : tr * N :=
  match n with O => (t, x) | S n' => run_set n' (tset LND t x v) (x + 1) v end.
Fixpoint lens_loop (fuel : nat) (w : which) (x last : N) : lm unit :=
  match fuel with O => fail 99 | S f =>
    if last <=? x then ret tt else
    s <- get ;;
    z <- read_huffsym (pre_tab s) (pre_len s) PRETREE_BITS PRETREE_SYMS ;;
    if z =? 17 then y <- read_bits 4 ;;
      s1 <- get ;; let '(t, x') := run_set (N.to_nat (y + 4)) (lens_of w s1) x 0 in _ <- put (set_lens w t s1) ;; lens_loop f w x' last
    else if z =? 18 then y <- read_bits 5 ;;
      s1 <- get ;; let '(t, x') := run_set (N.to_nat (y + 20)) (lens_of w s1) x 0 in _ <- put (set_lens w t s1) ;; lens_loop f w x' last
    else if z =? 19 then y <- read_bits 1 ;;
      s0 <- get ;; z2 <- read_huffsym (pre_tab s0) (pre_len s0) PRETREE_BITS PRETREE_SYMS ;;
      s1 <- get ;; let v := delta (tget LND (lens_of w s1) x 0) z2 in
      let '(t, x') := run_set (N.to_nat (y + 4)) (lens_of w s1) x v in _ <- put (set_lens w t s1) ;; lens_loop f w x' last
    else
      s1 <- get ;; let v := delta (tget LND (lens_of w s1) x 0) z in
      _ <- put (set_lens w (tset LND (lens_of w s1) x v) s1) ;; lens_loop f w (x + 1) last
  end.
Definition read_lens (w : which) (first last : N) : lm unit :=
  _ <- pre_lens 20 0 ;;
  s <- get ;;
  match mdt_msb PRETREE_SYMS PRETREE_BITS (fun x => tget LND (pre_len s) x 0) with
  | None => fail ERR_DECRUNCH
  | Some t => _ <- put (s <| pre_tab := t |>) ;; lens_loop 5000 w first last
  end.

Definition reset_state (s : lst) : lst :=
  s <| R0 := 1 |> <| R1 := 1 |> <| R2 := 1 |> <| header_read := false |> <| brem := 0 |> <| btype := 0 |>
    <| main_len := tfill LND (N.to_nat MAINTREE_SYMS) (main_len s) 0 0 |>
    <| len_len := tfill LND (N.to_nat LENGTH_SYMS) (len_len s) 0 0 |>.

(* ---------- block header ---------- *)
Fixpoint ali_lens (n : nat) (i : N) : lm unit :=
  match n with O => ret tt | S n' => j <- read_bits 3 ;; _ <- modify (fun s => s <| ali_len := tset LND (ali_len s) i j |>) ;; ali_lens n' (i + 1) end.
Fixpoint any_len_pos (n : nat) (t : tr) (i : N) : bool :=
  match n with O => false | S n' => if 0 <? tget LND t i 0 then true else any_len_pos n' t (i + 1) end.
Fixpoint raw_bytes (n : nat) (acc : list N) : lm (list N) :=
  match n with O => ret (rev_append acc []) | S n' => b <- next_byte ;; raw_bytes n' (b :: acc) end.
Definition le32 (l : list N) (o : nat) : N :=
  nth o l 0 + 256 * nth (o+1) l 0 + 65536 * nth (o+2) l 0 + 16777216 * nth (o+3) l 0.

Definition verbatim_header : lm unit :=
  _ <- read_lens WMain 0 256 ;;
  s0 <- get ;; _ <- read_lens WMain 256 (NUM_CHARS + num_offsets s0) ;;
  s <- get ;;
  match mdt_msb MAINTREE_SYMS MAINTREE_BITS (fun x => tget LND (main_len s) x 0) with
  | None => fail ERR_DECRUNCH
  | Some mt =>
    _ <- put (s <| main_tab := mt |> <| intel_started := (intel_started s || negb (tget LND (main_len s) 232 0 =? 0))%bool |>) ;;
    _ <- read_lens WLen 0 249 ;;
    s1 <- get ;;
    match mdt_msb LENGTH_SYMS LENGTH_BITS (fun x => tget LND (len_len s1) x 0) with
    | Some lt => put (s1 <| len_tab := lt |> <| len_empty := false |>)
    | None => if any_len_pos (N.to_nat LENGTH_SYMS) (len_len s1) 0 then fail ERR_DECRUNCH
              else put (s1 <| len_empty := true |>)
    end
  end.

Definition block_header : lm unit :=
  s <- get ;;
  _ <- (if (btype s =? 3) && N.odd (blen s) then _ <- next_byte ;; ret tt else ret tt) ;;
  t <- read_bits 3 ;; i <- read_bits 16 ;; j <- read_bits 8 ;;
  let bl0 := N.lor (N.shiftl i 8) j in
  _ <- modify (fun s => s <| btype := t |> <| blen := bl0 |> <| brem := bl0 |>) ;;
  if t =? 2 then
    _ <- ali_lens 8 0 ;; s1 <- get ;;
    match mdt_msb ALIGNED_SYMS ALIGNED_BITS (fun x => tget LND (ali_len s1) x 0) with
    | None => fail ERR_DECRUNCH
    | Some at_ => _ <- put (s1 <| ali_tab := at_ |>) ;; verbatim_header
    end
  else if t =? 1 then verbatim_header
  else if t =? 3 then
    _ <- modify (fun s => s <| intel_started := true |>) ;;
    s1 <- get ;; _ <- (if bl s1 =? 0 then ensure 3 16 else ret tt) ;;
    _ <- modify (fun s => s <| bl := 0 |> <| bb := 0 |>) ;;
    b <- raw_bytes 12 [] ;;
    modify (fun s => s <| R0 := le32 b 0 |> <| R1 := le32 b 4 |> <| R2 := le32 b 8 |>)
  else fail ERR_DECRUNCH.

(* ---------- match copy ---------- *)
Fixpoint copy_fwd (n : nat) (w : tr) (src dst : N) : tr :=
  match n with O => w | S n' => copy_fwd n' (tset WND w dst (tget WND w src JUNK)) (src + 1) (dst + 1) end.
Fixpoint put_list (l : list N) (w : tr) (dst : N) : tr :=
  match l with [] => w | b :: r => put_list r (tset WND w dst b) (dst + 1) end.

(* ghost checks: the model "goes wrong" with this status wherever the C code would touch memory outside the window / the E8 buffer;
   Proofs/LzxSafe.v shows it never does *)
Definition OOB : N := 96.
Definition inb (ws src dst n : N) : bool := (src + n <=? ws) && (dst + n <=? ws).

Definition extra_of (slot : N) : N := if 36 <=? slot then 17 else nthN lzx_extra_bits slot.

Definition delta_extra_len : lm N :=
  _ <- ensure 3 3 ;;
  p1 <- peek 1 ;;
  if p1 =? 0 then _ <- remove 1 ;; read_bits 8
  else p2 <- peek 2 ;;
    if p2 =? 2 then _ <- remove 2 ;; v <- read_bits 10 ;; ret (v + 256)
    else p3 <- peek 3 ;;
      if p3 =? 6 then _ <- remove 3 ;; v <- read_bits 12 ;; ret (v + 1280)
      else _ <- remove 3 ;; read_bits 15.

(* one symbol of a verbatim/aligned block; returns the number of bytes produced *)
Definition decode_symbol : lm N :=
  s <- get ;;
  me <- read_huffsym (main_tab s) (main_len s) MAINTREE_BITS MAINTREE_SYMS ;;
  if me <? NUM_CHARS then
    sl <- get ;; if wsize sl <=? wposn sl then fail OOB else           (* ghost: window[window_posn++] = sym *)
    _ <- modify (fun s => s <| win := tset WND (win s) (wposn s) me |> <| wposn := wposn s + 1 |>) ;; ret 1
  else
    let m := me - NUM_CHARS in
    let ml0 := N.land m 7 in
    ml1 <- (if ml0 =? 7 then
              s1 <- get ;; if len_empty s1 then fail ERR_DECRUNCH else
              lf <- read_huffsym (len_tab s1) (len_len s1) LENGTH_BITS LENGTH_SYMS ;; ret (ml0 + lf)
            else ret ml0) ;;
    let ml2 := ml1 + 2 in
    let slot := N.shiftr m 3 in
    mo <- (if slot =? 0 then s1 <- get ;; ret (R0 s1)
           else if slot =? 1 then s1 <- get ;; let v := R1 s1 in _ <- put (s1 <| R1 := R0 s1 |> <| R0 := v |>) ;; ret v
           else if slot =? 2 then s1 <- get ;; let v := R2 s1 in _ <- put (s1 <| R2 := R0 s1 |> <| R0 := v |>) ;; ret v
           else
             let extra := extra_of slot in
             let base := N.land (nthN lzx_position_base slot + (M32 - 2)) (M32 - 1) in
             s1 <- get ;;
             v <- (if (3 <=? extra) && (btype s1 =? 2) then
                     vb <- (if 3 <? extra then x <- read_bits (extra - 3) ;; ret (N.shiftl x 3) else ret 0) ;;
                     s2 <- get ;; ab <- read_huffsym (ali_tab s2) (ali_len s2) ALIGNED_BITS ALIGNED_SYMS ;;
                     ret (N.land (base + vb + ab) (M32 - 1))
                   else if 0 <? extra then vb <- read_bits extra ;; ret (N.land (base + vb) (M32 - 1))
                   else ret base) ;;
             _ <- modify (fun s => s <| R2 := R1 s |> <| R1 := R0 s |> <| R0 := v |>) ;; ret v) ;;
    s3 <- get ;;
    ml <- (if (ml2 =? 257) && is_delta s3 then e <- delta_extra_len ;; ret (ml2 + e) else ret ml2) ;;
    s4 <- get ;;
    if wsize s4 <? wposn s4 + ml then fail ERR_DECRUNCH else
    if wposn s4 <? mo then
      if (offset s4 <? mo) && (refsize s4 <? mo - wposn s4) then fail ERR_DECRUNCH else
      let j := mo - wposn s4 in
      if wsize s4 <? j then fail ERR_DECRUNCH else
      if negb (if j <? ml then inb (wsize s4) (wsize s4 - j) (wposn s4) j && inb (wsize s4) 0 (wposn s4 + j) (ml - j)
               else inb (wsize s4) (wsize s4 - j) (wposn s4) ml) then fail OOB else      (* ghost: both copy loops stay inside the window *)
      let w' := if j <? ml
                then copy_fwd (N.to_nat (ml - j)) (copy_fwd (N.to_nat j) (win s4) (wsize s4 - j) (wposn s4)) 0 (wposn s4 + j)
                else copy_fwd (N.to_nat ml) (win s4) (wsize s4 - j) (wposn s4) in
      _ <- put (s4 <| win := w' |> <| wposn := wposn s4 + ml |>) ;; ret ml
    else
      if negb (inb (wsize s4) (wposn s4 - mo) (wposn s4) ml) then fail OOB else            (* ghost *)
      _ <- put (s4 <| win := copy_fwd (N.to_nat ml) (win s4) (wposn s4 - mo) (wposn s4) |> <| wposn := wposn s4 + ml |>) ;; ret ml.

(* while (this_run > 0) over symbols; this_run may end negative *)
Fixpoint sym_loop (fuel : nat) (this_run : Z) : lm Z :=
  match fuel with O => fail 99 | S f =>
    if (this_run <=? 0)%Z then ret this_run else
    n <- decode_symbol ;; sym_loop f (this_run - Z.of_N n)%Z end.

(* while (bytes_todo > 0) *)
Fixpoint todo_loop (fuel : nat) (bytes_todo : Z) : lm unit :=
  match fuel with O => fail 99 | S f =>
    if (bytes_todo <=? 0)%Z then ret tt else
    s <- get ;; _ <- (if brem s =? 0 then block_header else ret tt) ;;
    s1 <- get ;;
    let this_run := Z.min (Z.of_N (brem s1)) bytes_todo in
    let todo' := (bytes_todo - this_run)%Z in
    _ <- modify (fun s => s <| brem := Z.to_N (Z.of_N (brem s) - this_run) |>) ;;
    tr_ <- (if (btype s1 =? 1) || (btype s1 =? 2) then sym_loop 40000 this_run
            else if btype s1 =? 3 then
              sc <- get ;; if wsize sc <? wposn sc + Z.to_N this_run then fail OOB else     (* ghost: the raw copy stays inside the window *)
              l <- copy_in (Z.to_N this_run) ;;
              _ <- modify (fun s => s <| win := put_list l (win s) (wposn s) |> <| wposn := wposn s + Z.to_N this_run |>) ;; ret 0%Z
            else fail ERR_DECRUNCH) ;;
    _ <- (if (tr_ <? 0)%Z then
            s2 <- get ;; if (Z.of_N (brem s2) <? - tr_)%Z then fail ERR_DECRUNCH
                         else modify (fun s => s <| brem := Z.to_N (Z.of_N (brem s) + tr_) |>)
          else ret tt) ;;
    todo_loop f todo' end.

(* ---------- E8 ---------- *)
Definition s32 (x : N) : Z := let z := Z.of_N (N.land x (M32 - 1)) in if (z <? 2147483648)%Z then z else (z - 4294967296)%Z.
Definition u32 (z : Z) : N := Z.to_N (z mod 4294967296)%Z.
Fixpoint e8_loop (fuel : nat) (d : tr) (i dataend : N) (curpos filesize : Z) : tr :=
  match fuel with O => d | S f =>
    if dataend <=? i then d else
    if negb (tget WND d i 0 =? 232) then e8_loop f d (i + 1) dataend (curpos + 1)%Z filesize else
    let p := i + 1 in
    let abs_off := s32 (tget WND d p 0 + 256 * tget WND d (p+1) 0 + 65536 * tget WND d (p+2) 0 + 16777216 * tget WND d (p+3) 0) in
    let d' := if ((- curpos <=? abs_off) && (abs_off <? filesize))%Z then
                let rel := u32 (if (0 <=? abs_off)%Z then abs_off - curpos else abs_off + filesize)%Z in
                tset WND (tset WND (tset WND (tset WND d p (N.land rel 255)) (p+1) (N.land (N.shiftr rel 8) 255))
                         (p+2) (N.land (N.shiftr rel 16) 255)) (p+3) (N.land (N.shiftr rel 24) 255)
              else d in
    e8_loop f d' (p + 4) dataend (s32 (u32 (curpos + 5)%Z)) filesize end.

Fixpoint span (n : nat) (w : tr) (i : N) (acc : list N) : list N :=
  match n with O => rev_append acc [] | S n' => span n' w (i + 1) (tget WND w i JUNK :: acc) end.
Definition obytes (s : lst) (n : N) : list N :=
  span (N.to_nat n) (match osel s with OWin => win s | OE8 => e8 s end) (optr s) [].

(* ---------- frame loop ---------- *)
(* everything lzxd_decompress does for one frame before it hands bytes out: reset, DELTA chunk word, Intel header, frame size from the
   output-length hint, the block loop, realignment, E8 translation / output pointers.  Returns the frame size. *)
Definition frame_pre : lm N :=
    s <- get ;;
    _ <- (if negb (reset_interval s =? 0) && (frame s mod reset_interval s =? 0) then modify reset_state else ret tt) ;;
    s0 <- get ;; _ <- (if is_delta s0 then _ <- ensure 3 16 ;; remove 16 else ret tt) ;;
    s1 <- get ;;
    _ <- (if header_read s1 then ret tt else
            i <- read_bits 1 ;;
            ij <- (if i =? 1 then a <- read_bits 16 ;; b <- read_bits 16 ;; ret (N.lor (N.shiftl a 16) b) else ret 0) ;;
            modify (fun s => s <| intel_filesize := ij |> <| header_read := true |>)) ;;
    len0 <- get_hint ;;
    _ <- (if len0 =? 0 then avail else ret tt) ;;   (* if (!lzx->length) READ_IF_NEEDED; (fix: late output-length hint) *)
    len1 <- get_hint ;;                              (* the read may have made the CAB block reader set lzx->length *)
    s2 <- get ;;
    let frame_size := if negb (len1 =? 0) && (Z.of_N len1 - Z.of_N (offset s2) <? 32768)%Z
                      then u32 (Z.of_N len1 - Z.of_N (offset s2))%Z else FRAME_SIZE in
    let bytes_todo := s32 (u32 (Z.of_N (fposn s2) + Z.of_N frame_size - Z.of_N (wposn s2))%Z) in
    _ <- todo_loop 70000 bytes_todo ;;
    s3 <- get ;;
    if negb (u32 (Z.of_N (wposn s3) - Z.of_N (fposn s3))%Z =? frame_size) then fail ERR_DECRUNCH else
    _ <- (if 0 <? bl s3 then ensure 3 16 else ret tt) ;;
    s4 <- get ;; _ <- (if negb (N.land (bl s4) 15 =? 0) then remove (N.land (bl s4) 15) else ret tt) ;;
    s5 <- get ;;
    if negb (optr s5 =? oend s5) then fail ERR_DECRUNCH else
    if (FRAME_SIZE <? frame_size) || (wsize s5 <? fposn s5 + frame_size) then fail OOB else   (* ghost: e8_buf[LZX_FRAME_SIZE], &window[frame_posn] *)
    _ <- (if intel_started s5 && negb (intel_filesize s5 =? 0) && (frame s5 <? 32768) && (10 <? frame_size) then
            let fb := span (N.to_nat frame_size) (win s5) (fposn s5) [] in
            let d0 := put_list fb Emp 0 in
            let d1 := e8_loop (N.to_nat frame_size) d0 0 (frame_size - 10) (s32 (offset s5)) (s32 (intel_filesize s5)) in
            put (s5 <| e8 := d1 |> <| osel := OE8 |> <| optr := 0 |> <| oend := frame_size |>)
          else put (s5 <| osel := OWin |> <| optr := fposn s5 |> <| oend := fposn s5 + frame_size |>)) ;;
    ret frame_size.
Definition wrap_posns (s : lst) : lst :=
  let s' := if wposn s =? wsize s then s <| wposn := 0 |> else s in if fposn s' =? wsize s' then s' <| fposn := 0 |> else s'.
Fixpoint frame_loop (fuel : nat) (end_frame : N) (out_bytes : N) : lm N :=
  match fuel with O => fail 99 | S f =>
    s <- get ;;
    if end_frame <=? frame s then ret out_bytes else
    frame_size <- frame_pre ;;
    s6 <- get ;;
    let i := N.min out_bytes frame_size in
    _ <- write (obytes s6 i) ;;
    _ <- modify (fun s => s <| optr := optr s + i |> <| offset := offset s + i |>
                            <| fposn := fposn s + frame_size |> <| frame := frame s + 1 |>) ;;
    _ <- modify wrap_posns ;;
    frame_loop f end_frame (out_bytes - i) end.

Definition decompress (out_bytes : N) : lm unit :=
  s <- get ;;
  if negb (err s =? 0) then fail (err s) else
  let avail := oend s - optr s in
  let i := N.min avail out_bytes in
  _ <- (if 0 <? i then _ <- write (obytes s i) ;; modify (fun s => s <| optr := optr s + i |> <| offset := offset s + i |>) else ret tt) ;;
  let ob := out_bytes - i in
  if ob =? 0 then ret tt else
  s1 <- get ;;
  let end_frame := N.land ((offset s1 + ob + FRAME_SIZE - 1) / FRAME_SIZE) (M32 - 1) in     (* fix: no decode-ahead past a frame boundary *)
  rest <- frame_loop 70000 end_frame ob ;;
  if negb (rest =? 0) then fail ERR_DECRUNCH else ret tt.

Definition lzx_init (window_bits reset_int : N) (delta_ : bool) (refdata : list N) : lst :=
  let ws := N.shiftl 1 window_bits in
  reset_state
  {| bb := 0; bl := 0; win := put_list refdata Emp (ws - N.of_nat (List.length refdata)); wsize := ws;
     refsize := N.of_nat (List.length refdata); num_offsets := N.shiftl (nthN lzx_position_slots (window_bits - 15)) 3;
     wposn := 0; fposn := 0; frame := 0; reset_interval := reset_int; R0 := 1; R1 := 1; R2 := 1; blen := 0; brem := 0;
     intel_filesize := 0; intel_started := false; btype := 0; header_read := false; is_delta := delta_;
     offset := 0; pre_len := Emp; main_len := Emp; len_len := Emp; ali_len := Emp;
     pre_tab := Emp; main_tab := Emp; len_tab := Emp; ali_tab := Emp; len_empty := false;
     e8 := Emp; osel := OWin; optr := 0; oend := 0; err := 0 |}.

Definition set_err (s : lst) (e : N) : lst := s <| err := e |>.
(* a sequence of lzxd_decompress calls on one stream; errors are sticky; returns the statuses *)
Fixpoint calls (reqs : list N) (s : lst) (acc : list N) : sprog (list N) :=
  match reqs with
  | [] => SRet (rev_append acc [])
  | n :: rest =>
    sbind (decompress n s) (fun r =>
      match r with
      | inl e => calls rest (s <| err := e |>) (e :: acc)      (* state is dead after an error *)
      | inr (_, s') => calls rest s' (0 :: acc)
      end)
  end.

Definition lzx_ideal (window_bits reset_int output_length : N) (delta_ : bool) (refdata inp : list N) (reqs : list N)
  : list N * list N :=
  match ideal EofPad2 output_length (calls reqs (lzx_init window_bits reset_int delta_ refdata) [])
              {| irest := inp ++ pad EofPad2; iout := [] |} with
  | (SVal sts, s) => (sts, rev_append (iout s) [])
  | (SStop e, s) => ([e], rev_append (iout s) [])
  end.

Definition lzx_call (hint : N) (s : lst) (i : ist) (n : N) : N * lst * ist :=
  match ideal EofPad2 hint (decompress n s) i with
  | (SVal (inl e), i') => (e, s <| err := e |>, i')
  | (SVal (inr (_, s')), i') => (0, s', i')
  | (SStop e, i') => (e, s <| err := e |>, i')
  end.
Fixpoint lzx_calls (hint : N) (reqs : list N) (s : lst) (i : ist) (acc : list N) : list N * ist :=
  match reqs with
  | [] => (rev_append acc [], i)
  | n :: rest => let '(st, s', i') := lzx_call hint s i n in lzx_calls hint rest s' i' (st :: acc)
  end.
Definition lzx_run (window_bits reset_int output_length : N) (delta_ : bool) (refdata inp reqs : list N) : list N * list N :=
  let '(sts, i) := lzx_calls output_length reqs (lzx_init window_bits reset_int delta_ refdata)
                             {| irest := inp ++ pad EofPad2; iout := [] |} [] in
  (sts, rev_append (iout i) []).
