From Coq Require Import List NArith ZArith Lia Bool.
Import ListNotations.
From MSP Require Import Base.Src Gen.Tables Gen.Consts.
Local Open Scope N_scope.

(* ---------- small functional arrays (bit-indexed tries) ---------- *)
Inductive tr := Emp | Lf (v : N) | Nd (l r : tr).
Fixpoint tget (d : nat) (t : tr) (i : N) (dflt : N) : N :=
  match d with
  | O => match t with Lf v => v | _ => dflt end
  | S d' => match t with
            | Nd l r => if N.odd i then tget d' r (N.div2 i) dflt else tget d' l (N.div2 i) dflt
            | _ => dflt end
  end.
Fixpoint tset (d : nat) (t : tr) (i : N) (v : N) : tr :=
  match d with
  | O => Lf v
  | S d' => let '(l, r) := match t with Nd l r => (l, r) | _ => (Emp, Emp) end in
            if N.odd i then Nd l (tset d' r (N.div2 i) v) else Nd (tset d' l (N.div2 i) v) r
  end.
Fixpoint tfill (d : nat) (n : nat) (t : tr) (i v : N) : tr :=
  match n with O => t | S n' => tfill d n' (tset d t i v) (i + 1) v end.
Definition of_list (d : nat) (l : list N) : tr :=
  snd (fold_left (fun '(i, t) v => (i + 1, tset d t i v)) l (0, Emp)).

(* ---------- constants (would come from Gen/) ---------- *)
Definition FRAME := MSZIP_FRAME_SIZE.
Definition LIT_SYMS := MSZIP_LITERAL_MAXSYMBOLS. Definition LIT_BITS := MSZIP_LITERAL_TABLEBITS. Definition LIT_TSIZE := MSZIP_LITERAL_TABLESIZE.
Definition DIST_SYMS := MSZIP_DISTANCE_MAXSYMBOLS. Definition DIST_BITS := MSZIP_DISTANCE_TABLEBITS. Definition DIST_TSIZE := MSZIP_DISTANCE_TABLESIZE.
Definition lit_lengths := zip_lit_lengths.
Definition dist_offsets := zip_dist_offsets.
Definition lit_extrabits := zip_lit_extrabits.
Definition dist_extrabits := zip_dist_extrabits.
Definition bitlen_order := zip_bitlen_order.
Definition nthN (l : list N) (i : N) : N := nth (N.to_nat i) l 0.

(* error codes *)
Definition ERR_DECRUNCH : N := MSPACK_ERR_DECRUNCH.
(* inflate's negative codes all become DECRUNCH at the caller; keep them apart for the diff *)
Inductive ierr := IErr (code : N) (* INF_ERR_x as positive number *) | IMsp (status : N).

(* ---------- make_decode_table, BITS_ORDER_LSB ---------- *)
Fixpoint bitrev (n : nat) (x acc : N) : N :=
  match n with O => acc | S n' => bitrev n' (N.div2 x) (N.lor (N.shiftl acc 1) (N.land x 1)) end.
Definition TD := 11%nat.   (* table tries: up to 2048 cells *)

Section MDT.
Variables (nsyms nbits : N) (len : N -> N).
Fixpoint nrange (n : nat) (from : N) : list N :=
  match n with O => [] | S n' => from :: nrange n' (from + 1) end.
Definition syms := nrange (N.to_nat nsyms) 0.

Fixpoint fill_stride (n : nat) (t : tr) (leaf stride sym : N) : tr :=
  match n with O => t | S n' => fill_stride n' (tset TD t leaf sym) (leaf + stride) stride sym end.

Definition p1_sym (bit_num bit_mask table_mask : N) (st : option (tr * N)) (sym : N) : option (tr * N) :=
  match st with None => None | Some (t, pos) =>
    if len sym =? bit_num then
      let leaf := bitrev (N.to_nat bit_num) (N.shiftr pos (nbits - bit_num)) 0 in
      let pos' := pos + bit_mask in
      if table_mask <? pos' then None
      else Some (fill_stride (N.to_nat bit_mask) t leaf (N.shiftl 1 bit_num) sym, pos')
    else st end.
Fixpoint p1 (k : nat) (bit_num bit_mask table_mask : N) (st : option (tr * N)) : option (tr * N) :=
  match k with O => st | S k' =>
    p1 k' (bit_num + 1) (N.div2 bit_mask) table_mask (fold_left (p1_sym bit_num bit_mask table_mask) syms st) end.

Fixpoint mark_unused (n : nat) (t : tr) (sym : N) : tr :=
  match n with O => t | S n' => mark_unused n' (tset TD t (bitrev (N.to_nat nbits) sym 0) 65535) (sym + 1) end.

Fixpoint walk (k : nat) (fillc : N) (t : tr) (leaf next pos : N) : tr * N * N :=
  match k with O => (t, leaf, next) | S k' =>
    let '(t1, next1) := if tget TD t leaf 70000 =? 65535
                        then (tset TD (tset TD (tset TD t (N.shiftl next 1) 65535) (N.shiftl next 1 + 1) 65535) leaf next, next + 1)
                        else (t, next) in
    let leaf' := N.shiftl (tget TD t1 leaf 70000) 1 + (if N.testbit pos (15 - fillc) then 1 else 0) in
    walk k' (fillc + 1) t1 leaf' next1 pos end.

Definition p3_sym (bit_num bit_mask table_mask : N) (st : option (tr * N * N)) (sym : N) : option (tr * N * N) :=
  match st with None => None | Some (t, pos, next) =>
    if len sym =? bit_num then
      if table_mask <=? pos then None else
      let leaf0 := bitrev (N.to_nat nbits) (N.shiftr pos 16) 0 in
      let '(t1, leaf, next1) := walk (N.to_nat (bit_num - nbits)) 0 t leaf0 next pos in
      Some (tset TD t1 leaf sym, pos + bit_mask, next1)
    else st end.
Fixpoint p3 (k : nat) (bit_num bit_mask table_mask : N) (st : option (tr * N * N)) : option (tr * N * N) :=
  match k with O => st | S k' =>
    p3 k' (bit_num + 1) (N.div2 bit_mask) table_mask (fold_left (p3_sym bit_num bit_mask table_mask) syms st) end.

(* returns None when the C returns 1 *)
Definition make_decode_table : option tr :=
  let table_mask := N.shiftl 1 nbits in
  match p1 (N.to_nat nbits) 1 (N.div2 table_mask) table_mask (Some (Emp, 0)) with
  | None => None
  | Some (t, pos) =>
    if pos =? table_mask then Some t else
    let t1 := mark_unused (N.to_nat (table_mask - pos)) t pos in
    let next := if N.div2 table_mask <? nsyms then nsyms else N.div2 table_mask in
    let tm16 := N.shiftl table_mask 16 in
    match p3 (N.to_nat (16 - nbits)) (nbits + 1) 32768 tm16 (Some (t1, N.shiftl pos 16, next)) with
    | None => None
    | Some (t2, posf, _) => if posf =? tm16 then Some t2 else None
    end
  end.
End MDT.

(* ---------- decoder state and monad over sprog ---------- *)
Record zst := { bb : N; bl : N; win : tr; wpos : N; bout : N;
                litlen : tr; dislen : tr; littab : tr; distab : tr }.
Definition WD := 15%nat.  Definition LD := 9%nat.
Definition dm (A : Type) := zst -> sprog (ierr + (A * zst)).
Definition ret {A} (a : A) : dm A := fun s => SRet (inr (a, s)).
Definition fail {A} (e : ierr) : dm A := fun _ => SRet (inl e).
Definition bnd {A B} (m : dm A) (f : A -> dm B) : dm B :=
  fun s => sbind (m s) (fun r => match r with inl e => SRet (inl e) | inr (a, s') => f a s' end).
Notation "x <- m ;; k" := (bnd m (fun x => k)) (at level 61, m at next level, right associativity).
Definition get : dm zst := fun s => SRet (inr (s, s)).
Definition put (s : zst) : dm unit := fun _ => SRet (inr (tt, s)).
Definition next_byte : dm N := fun s => SDo SNext (fun b => SRet (inr (b, s))).

(* ENSURE_BITS(n): while (bits_left < n) { READ_IF_NEEDED; INJECT_BITS( *i_ptr++, 8) } *)
Fixpoint ensure (fuel : nat) (n : N) : dm unit :=
  match fuel with O => ret tt | S f =>
    s <- get ;; if bl s <? n then
      b <- next_byte ;; _ <- put {| bb := N.lor (bb s) (N.shiftl b (bl s)); bl := bl s + 8; win := win s; wpos := wpos s;
                                     bout := bout s; litlen := litlen s; dislen := dislen s; littab := littab s; distab := distab s |} ;;
      ensure f n
    else ret tt end.
Definition peek (n : N) : dm N := s <- get ;; ret (N.land (bb s) (N.ones n)).
Definition remove (n : N) : dm unit :=
  s <- get ;; put {| bb := N.shiftr (bb s) n; bl := bl s - n; win := win s; wpos := wpos s; bout := bout s;
                     litlen := litlen s; dislen := dislen s; littab := littab s; distab := distab s |}.
Definition read_bits (n : N) : dm N := _ <- ensure 4 n ;; v <- peek n ;; _ <- remove n ;; ret v.

Definition upd_win (s : zst) (w : tr) (p : N) (o : N) : zst :=
  {| bb := bb s; bl := bl s; win := w; wpos := p; bout := o; litlen := litlen s; dislen := dislen s;
     littab := littab s; distab := distab s |}.

(* FLUSH_IF_NEEDED *)
Definition flush_if_needed : dm unit :=
  s <- get ;; if wpos s =? FRAME then
                let o := bout s + FRAME in
                if FRAME <? o then fail (IErr 3) else put (upd_win s (win s) 0 o)
              else ret tt.
(* ghost checks: the model "goes wrong" with IErr OOBZ wherever inflate would index its 32 KiB window outside [0, 32768);
   Proofs/MszipSafe.v shows it never does *)
Definition OOBZ : N := 96.
Definition out_byte (b : N) : dm unit :=
  s <- get ;; if FRAME <=? wpos s then fail (IErr OOBZ) else      (* ghost: window[window_posn++] = b *)
  _ <- put (upd_win s (tset WD (win s) (wpos s) b) (wpos s + 1) (bout s)) ;; flush_if_needed.

Fixpoint copy_match (n : nat) (mpos : N) : dm unit :=
  match n with O => ret tt | S n' =>
    if FRAME <=? mpos then fail (IErr OOBZ) else                  (* ghost: window[match_posn] *)
    s <- get ;; _ <- out_byte (tget WD (win s) mpos 0 (* the window is cleared at initialisation *)) ;;
    copy_match n' (N.land (mpos + 1) (FRAME - 1)) end.

(* READ_HUFFSYM, LSB order *)
Fixpoint traverse (fuel : nat) (table : tr) (maxsyms : N) (sym idx : N) : dm N :=
  match fuel with O => fail (IErr 14) | S f =>
    if 16 <? idx then fail (IErr 14) else
    let idx' := idx + 1 in
    s <- get ;;
    let sym' := tget TD table (N.lor (N.shiftl sym 1) (N.land (N.shiftr (bb s) idx') 1)) 70000 in
    if maxsyms <=? sym' then traverse f table maxsyms sym' idx' else ret sym' end.
Definition read_huffsym (table lens : tr) (tablebits maxsyms : N) : dm N :=
  _ <- ensure 4 16 ;; v <- peek tablebits ;;
  let sym0 := tget TD table v 70000 in
  sym <- (if maxsyms <=? sym0 then traverse 20 table maxsyms sym0 (tablebits - 1) else ret sym0) ;;
  _ <- remove (tget LD lens sym 0) ;; ret sym.

(* zip_read_lens *)
Fixpoint rl_bitlens (l : list N) (blen : tr) : dm tr :=
  match l with [] => ret blen | o :: rest => v <- read_bits 3 ;; rl_bitlens rest (tset LD blen o v) end.
Fixpoint rl_run (n : nat) (lens : tr) (i code : N) : tr * N :=
  match n with O => (lens, i) | S n' => rl_run n' (tset LD lens i code) (i + 1) code end.
Fixpoint rl_codes (fuel : nat) (bl_table bl_len : tr) (total : N) (lens : tr) (i last : N) : dm tr :=
  match fuel with O => ret lens | S f =>
    if total <=? i then ret lens else
    _ <- ensure 4 7 ;; v <- peek 7 ;;
    let code := tget TD bl_table v 70000 in
    _ <- remove (tget LD bl_len code 0) ;;
    if code <? 16 then rl_codes f bl_table bl_len total (tset LD lens i code) (i + 1) code
    else
      rc <- (if code =? 16 then r <- read_bits 2 ;; ret (r + 3, last)
             else if code =? 17 then r <- read_bits 3 ;; ret (r + 3, 0)
             else if code =? 18 then r <- read_bits 7 ;; ret (r + 11, 0)
             else fail (IErr 10)) ;;
      let '(run, c) := rc in
      if total <? i + run then fail (IErr 9) else
      let '(lens', i') := rl_run (N.to_nat run) lens i c in
      rl_codes f bl_table bl_len total lens' i' last
  end.
Fixpoint sub_tr (n : nat) (src : tr) (from : N) (dst : tr) (to : N) : tr :=
  match n with O => dst | S n' => sub_tr n' src (from + 1) (tset LD dst to (tget LD src from 0)) (to + 1) end.

Definition zip_read_lens : dm unit :=
  lc <- read_bits 5 ;; dc <- read_bits 5 ;; bc <- read_bits 4 ;;
  let lit_codes := lc + 257 in let dist_codes := dc + 1 in let bitlen_codes := bc + 4 in
  if LIT_SYMS <? lit_codes then fail (IErr 5) else if DIST_SYMS <? dist_codes then fail (IErr 5) else
  blen <- rl_bitlens (firstn (N.to_nat bitlen_codes) bitlen_order) Emp ;;
  match make_decode_table 19 7 (fun s => tget LD blen s 0) with
  | None => fail (IErr 6)
  | Some bl_table =>
    lens <- rl_codes 400 bl_table blen (lit_codes + dist_codes) Emp 0 0 ;;
    s <- get ;;
    put {| bb := bb s; bl := bl s; win := win s; wpos := wpos s; bout := bout s;
           litlen := sub_tr (N.to_nat lit_codes) lens 0 Emp 0;
           dislen := sub_tr (N.to_nat dist_codes) lens lit_codes Emp 0;
           littab := littab s; distab := distab s |}
  end.

Definition fixed_lens : tr * tr :=
  (tfill LD 8 (tfill LD 24 (tfill LD 112 (tfill LD 144 Emp 0 8) 144 9) 256 7) 280 8, tfill LD 32 Emp 0 5).

(* the "decode forever until end of block" loop *)
Fixpoint block_loop (fuel : nat) : dm unit :=
  match fuel with O => fail (IErr 99) | S f =>
    s <- get ;;
    code <- read_huffsym (littab s) (litlen s) LIT_BITS LIT_SYMS ;;
    if code <? 256 then _ <- out_byte code ;; block_loop f
    else if code =? 256 then ret tt
    else
      let c := code - 257 in
      if 29 <=? c then fail (IErr 11) else
      e <- read_bits (nthN lit_extrabits c) ;;
      let length := e + nthN lit_lengths c in
      s1 <- get ;;
      dcode <- read_huffsym (distab s1) (dislen s1) DIST_BITS DIST_SYMS ;;
      if 30 <=? dcode then fail (IErr 12) else
      de <- read_bits (nthN dist_extrabits dcode) ;;
      let distance := de + nthN dist_offsets dcode in
      s2 <- get ;;
      if FRAME + wpos s2 <? distance then fail (IErr OOBZ) else    (* ghost: match_posn would wrap below zero *)
      let mpos := (if wpos s2 <? distance then FRAME else 0) + wpos s2 - distance in
      _ <- copy_match (N.to_nat length) mpos ;; block_loop f
  end.

(* stored block: copy `length` bytes, at most up to the end of the window at a time *)
Fixpoint put_bytes (l : list N) : dm unit :=
  match l with [] => ret tt | b :: r =>
    s <- get ;; if FRAME <=? wpos s then fail (IErr OOBZ) else    (* ghost *)
    _ <- put (upd_win s (tset WD (win s) (wpos s) b) (wpos s + 1) (bout s)) ;; put_bytes r end.
Fixpoint stored_copy (fuel : nat) (length : N) : dm unit :=
  match fuel with O => fail (IErr 99) | S f =>
    if length =? 0 then ret tt else
    s <- get ;;
    let piece := N.min length (FRAME - wpos s) in
    bytes <- (fun st => SDo (SCopyIn (N.to_nat piece)) (fun l => SRet (inr (l, st)))) ;;
    _ <- put_bytes bytes ;; _ <- flush_if_needed ;; stored_copy f (length - piece)
  end.

Fixpoint take_bitbuf_bytes (fuel : nat) (i : N) (acc : list N) : dm (N * list N) :=
  match fuel with O => ret (i, acc) | S f =>
    s <- get ;; if 8 <=? bl s then
                  if i =? 4 then fail (IErr 4) else
                  v <- peek 8 ;; _ <- remove 8 ;; take_bitbuf_bytes f (i + 1) (acc ++ [v])
                else ret (i, acc) end.
Fixpoint take_raw (n : nat) (acc : list N) : dm (list N) :=
  match n with O => ret acc | S n' => b <- next_byte ;; take_raw n' (acc ++ [b]) end.

Fixpoint inflate (fuel : nat) : dm unit :=
  match fuel with O => fail (IErr 99) | S f =>
    last <- read_bits 1 ;; btype <- read_bits 2 ;;
    _ <- (if btype =? 0 then
            s <- get ;; _ <- remove (N.land (bl s) 7) ;;
            r <- take_bitbuf_bytes 6 0 [] ;; let '(i, lb) := r in
            s1 <- get ;; if negb (bl s1 =? 0) then fail (IErr 4) else
            lb' <- take_raw (N.to_nat (4 - i)) lb ;;
            let length := N.lor (nthN lb' 0) (N.shiftl (nthN lb' 1) 8) in
            let comp := N.lor (nthN lb' 2) (N.shiftl (nthN lb' 3) 8) in
            if negb (length =? N.land (N.lxor comp 65535) 65535) then fail (IErr 2) else
            stored_copy 70000 length
          else if (btype =? 1) || (btype =? 2) then
            _ <- (if btype =? 1 then
                    s <- get ;; put {| bb := bb s; bl := bl s; win := win s; wpos := wpos s; bout := bout s;
                                       litlen := fst fixed_lens; dislen := snd fixed_lens; littab := littab s; distab := distab s |}
                  else zip_read_lens) ;;
            s <- get ;;
            match make_decode_table LIT_SYMS LIT_BITS (fun x => tget LD (litlen s) x 0) with
            | None => fail (IErr 7)
            | Some lt =>
              match make_decode_table DIST_SYMS DIST_BITS (fun x => tget LD (dislen s) x 0) with
              | None => fail (IErr 8)
              | Some dt =>
                _ <- put {| bb := bb s; bl := bl s; win := win s; wpos := wpos s; bout := bout s;
                            litlen := litlen s; dislen := dislen s; littab := lt; distab := dt |} ;;
                block_loop 100000
              end
            end
          else fail (IErr 1)) ;;
    if last =? 1 then
      s <- get ;; if negb (wpos s =? 0) then
                    let o := bout s + wpos s in if FRAME <? o then fail (IErr 3) else put (upd_win s (win s) (wpos s) o)
                  else ret tt
    else inflate f
  end.

(* mszipd_decompress(out_bytes) on a fresh stream, strict mode *)
Fixpoint find_ck (fuel : nat) (state : N) : dm unit :=
  match fuel with O => fail (IErr 99) | S f =>
    i <- read_bits 8 ;;
    let st' := if i =? 67 then 1 else if (state =? 1) && (i =? 75) then 2 else 0 in
    if st' =? 2 then ret tt else find_ck f st' end.

Fixpoint win_bytes (n : nat) (w : tr) (i : N) (acc : list N) : list N :=
  match n with O => rev_append acc [] | S n' => win_bytes n' w (i + 1) (tget WD w i 0 :: acc) end.

Fixpoint decompress (fuel : nat) (out_bytes : N) : dm N :=
  match fuel with O => ret 99 | S f =>
    if out_bytes =? 0 then ret OK else
    s <- get ;; _ <- remove (N.land (bl s) 7) ;;
    _ <- find_ck 100000 0 ;;
    s1 <- get ;; _ <- put (upd_win s1 (win s1) 0 0) ;;
    _ <- inflate 100000 ;;
    s2 <- get ;;
    let i := N.min out_bytes (bout s2) in
    _ <- (fun st => SDo (SWrite (win_bytes (N.to_nat i) (win s2) 0 [])) (fun _ => SRet (inr (tt, st)))) ;;
    decompress f (out_bytes - i)
  end.

Definition init : zst := {| bb := 0; bl := 0; win := Emp; wpos := 0; bout := 0;
                           litlen := Emp; dislen := Emp; littab := Emp; distab := Emp |}.
Definition mszip_run (out_bytes : N) : sprog N :=
  sbind (decompress 70000 out_bytes init)
        (fun r => SRet (match r with
                        | inl (IMsp e) => e
                        | inl (IErr _) => ERR_DECRUNCH
                        | inr (st, _) => st end)).

(* ---------- the stream as cabd.c uses it: several mszipd_decompress calls, leftover frame bytes, permanent errors (strict mode) ---------- *)
Record zstream := mkZS { zs : zst; zo : N; zend : N; zerr : N }.       (* o_ptr and o_end as window offsets *)
Definition zinit : zstream := mkZS init 0 0 0.
Definition zframe : dm unit :=
  s <- get ;; _ <- remove (N.land (bl s) 7) ;; _ <- find_ck 100000 0 ;;
  s1 <- get ;; _ <- put (upd_win s1 (win s1) 0 0) ;; inflate 100000.
(* inflate errors are reported to the caller (status 97) so that it can tell strict mode's DECRUNCH from what repair mode would do *)
Fixpoint zloop (fuel : nat) (n : N) (st : zst) : sprog (N * bool * zstream) :=
  match fuel with O => SRet (99, false, mkZS st 0 0 99) | S f =>
    sbind (zframe st) (fun r =>
      match r with
      | inl (IMsp e) => SRet (e, true, mkZS st 0 0 e)
      | inl (IErr _) => SRet (ERR_DECRUNCH, true, mkZS st 0 0 ERR_DECRUNCH)
      | inr (_, s2) =>
        let i := N.min n (bout s2) in
        SDo (SWrite (win_bytes (N.to_nat i) (win s2) 0 [])) (fun _ =>
          if n - i =? 0 then SRet (OK, false, mkZS s2 i (bout s2) 0) else zloop f (n - i) s2)
      end)
  end.
(* mszipd_decompress(zip, n): (status, whether inflate() failed in this call, stream) *)
Definition zcall (n : N) (z : zstream) : sprog (N * bool * zstream) :=
  if negb (zerr z =? 0) then SRet (zerr z, false, z) else
  let i := N.min (zend z - zo z) n in
  let z1 := mkZS (zs z) (zo z + i) (zend z) 0 in
  let go (_ : unit) := if n - i =? 0 then SRet (OK, false, z1) else zloop 70000 (n - i) (zs z) in
  if 0 <? i then SDo (SWrite (win_bytes (N.to_nat i) (win (zs z)) (zo z) [])) go else go tt.

(* mszipd_decompress_kwaj: blocks of (16-bit length, "CK", deflate data) until a zero length *)
Fixpoint zkwaj_loop (fuel : nat) (st : zst) : sprog N :=
  match fuel with O => SRet 99 | S f =>
    sbind ((s <- get ;; _ <- remove (N.land (bl s) 7) ;; lo <- read_bits 8 ;; hi <- read_bits 8 ;; ret (N.lor lo (N.shiftl hi 8))) st) (fun r =>
      match r with
      | inl (IMsp e) => SRet e | inl (IErr _) => SRet ERR_DECRUNCH
      | inr (blen, st1) =>
        if blen =? 0 then SRet OK else
        sbind ((c <- read_bits 8 ;; if negb (c =? 67) then fail (IMsp 8) else
                k <- read_bits 8 ;; if negb (k =? 75) then fail (IMsp 8) else
                s1 <- get ;; _ <- put (upd_win s1 (win s1) 0 0) ;; inflate 100000) st1) (fun r2 =>
          match r2 with
          | inl (IMsp e) => SRet e | inl (IErr _) => SRet ERR_DECRUNCH
          | inr (_, s2) => SDo (SWrite (win_bytes (N.to_nat (bout s2)) (win s2) 0 [])) (fun _ => zkwaj_loop f s2)
          end)
      end)
  end.
Definition mszip_kwaj (inp : list N) : N * list N :=
  match ideal EofPad2 0 (zkwaj_loop 70000 init) {| irest := inp ++ pad EofPad2; iout := [] |} with
  | (SVal st, s) => (st, rev_append (iout s) [])
  | (SStop e, s) => (e, rev_append (iout s) [])
  end.

(* whole-stream ideal run for the driver *)
Definition mszip_ideal (inp : list N) (out_bytes : N) : N * list N :=
  match ideal EofPad2 0 (mszip_run out_bytes) {| irest := inp ++ pad EofPad2; iout := [] |} with
  | (SVal st, s) => (st, rev_append (iout s) [])
  | (SStop e, s) => (e, rev_append (iout s) [])
  end.
