(* Executable model of the KWAJ method 3 decoder in kwajd.c (lzh_decompress, lzh_read_lens, lzh_read_input, the MSB-first bit reader
   with 8-bit refills, READ_BITS_SAFE / READ_HUFFSYM_SAFE, BUILD_TREE with its STORE_BITS / RESTORE_BITS around lzh_read_lens), on the
   bytes of the compressed stream.  Host failures are not part of this model (the stream is a list); the table builder is the port of
   make_decode_table in Model/Lzx.v. *)
From Coq Require Import List NArith ZArith Bool.
Import ListNotations.
From MSP Require Import Gen.Consts Model.Mszip Model.Lzx.
Local Open Scope N_scope.

Definition M32 : N := 4294967296.
Record hst := mkHS {
  hbb : N; hbl : N;              (* bit_buffer, bits_left (the function's local copies) *)
  hibuf : list N;                (* inbuf from i_ptr to i_end *)
  hrest : list N;                (* the part of the stream not read yet *)
  hend : N;                      (* lzh->input_end *)
  sbb : N; sbl : N; sibuf : list N;   (* the copies in the struct: written by STORE_BITS; i_ptr/i_end also by lzh_read_input *)
  hlens : tr;                    (* the code-length array being read *)
  hwin : tr; hpos : N; hout : list N }.
Inductive hres (A : Type) := HVal (a : A) (s : hst) | HStop (status : N) (s : hst).
Arguments HVal {A}. Arguments HStop {A}.
Definition hm (A : Type) := hst -> hres A.
Definition hret {A} (a : A) : hm A := fun s => HVal a s.
Definition hbind {A B} (m : hm A) (f : A -> hm B) : hm B := fun s => match m s with HVal a s' => f a s' | HStop e s' => HStop e s' end.
Notation "x <- m ;; k" := (hbind m (fun x => k)) (at level 61, m at next level, right associativity).
Definition hget : hm hst := fun s => HVal s s.
Definition hstop {A} (e : N) : hm A := fun s => HStop e s.
Definition hmod (f : hst -> hst) : hm unit := fun s => HVal tt (f s).

Definition with_bits (s : hst) (bb bl : N) (ib : list N) : hst :=
  mkHS bb bl ib (hrest s) (hend s) (sbb s) (sbl s) (sibuf s) (hlens s) (hwin s) (hpos s) (hout s).
(* lzh_read_input: the next KWAJ_INPUT_SIZE bytes; at the end of the stream one zero byte, counted in input_end *)
Definition refill (s : hst) : hst :=
  match hrest s with
  | [] => mkHS (hbb s) (hbl s) [0] [] (hend s + 8) (sbb s) (sbl s) [0] (hlens s) (hwin s) (hpos s) (hout s)
  | _ => let n := N.to_nat KWAJ_INPUT_SIZE in
         let ib := firstn n (hrest s) in
         mkHS (hbb s) (hbl s) ib (skipn n (hrest s)) (hend s) (sbb s) (sbl s) ib (hlens s) (hwin s) (hpos s) (hout s)
  end.
(* READ_BYTES: INJECT_BITS( *i_ptr++, 8) *)
Definition read_byte (s : hst) : hst :=
  let s1 := match hibuf s with [] => refill s | _ => s end in
  match hibuf s1 with
  | b :: r => with_bits s1 (N.lor (hbb s1) (N.shiftl b (32 - 8 - hbl s1))) (hbl s1 + 8) r
  | [] => s1
  end.
Fixpoint ensure (fuel : nat) (n : N) (s : hst) : hst :=
  match fuel with O => s | S f => if hbl s <? n then ensure f n (read_byte s) else s end.
Definition peek (n : N) (s : hst) : N := N.shiftr (hbb s) (32 - n).
Definition remove (n : N) (s : hst) : hst := with_bits s (N.land (N.shiftl (hbb s) n) (M32 - 1)) (hbl s - n) (hibuf s).
Definition eof_check : hm unit := fun s => if negb (hend s =? 0) && (hbl s <? hend s) then HStop MSPACK_ERR_OK s else HVal tt s.
Definition read_bits_safe (n : N) : hm N := fun s =>
  let s1 := ensure 4 n s in let v := peek n s1 in
  match eof_check (remove n s1) with HVal _ s2 => HVal v s2 | HStop e s2 => HStop e s2 end.

Fixpoint traverse (fuel : nat) (table : tr) (maxsyms sym mask : N) (s : hst) : option N :=
  match fuel with O => None | S f =>
    let mask' := N.div2 mask in
    if mask' =? 0 then None else
    let sym' := tget TBD table (N.lor (N.shiftl sym 1) (if N.land (hbb s) mask' =? 0 then 0 else 1)) 70000 in
    if maxsyms <=? sym' then traverse f table maxsyms sym' mask' s else Some sym' end.
Definition read_huffsym_safe (table lens : tr) (maxsyms : N) : hm N := fun s =>
  let s1 := ensure 4 16 s in
  let sym0 := tget TBD table (peek KWAJ_TABLEBITS s1) 70000 in
  match (if maxsyms <=? sym0 then traverse 40 table maxsyms sym0 (N.shiftl 1 (32 - KWAJ_TABLEBITS)) s1 else Some sym0) with
  | None => HStop MSPACK_ERR_DATAFORMAT s1
  | Some sym => match eof_check (remove (tget LND lens sym 0) s1) with HVal _ s2 => HVal sym s2 | HStop e s2 => HStop e s2 end
  end.

Definition store_bits (s : hst) : hst :=
  mkHS (hbb s) (hbl s) (hibuf s) (hrest s) (hend s) (hbb s) (hbl s) (hibuf s) (hlens s) (hwin s) (hpos s) (hout s).
Definition restore_bits (s : hst) : hst := with_bits s (sbb s) (sbl s) (sibuf s).
Definition set_len (i v : N) : hm unit := hmod (fun s =>
  mkHS (hbb s) (hbl s) (hibuf s) (hrest s) (hend s) (sbb s) (sbl s) (sibuf s) (tset LND (hlens s) i (v mod 256)) (hwin s) (hpos s) (hout s)).
Definition clear_lens : hm unit := hmod (fun s =>
  mkHS (hbb s) (hbl s) (hibuf s) (hrest s) (hend s) (sbb s) (sbl s) (sibuf s) Emp (hwin s) (hpos s) (hout s)).

(* lzh_read_lens *)
Fixpoint lens1 (n : nat) (i c : N) : hm unit :=
  match n with O => hret tt | S n' =>
    sel <- read_bits_safe 1 ;;
    if sel =? 0 then _ <- set_len i c ;; lens1 n' (i + 1) c else
    sel2 <- read_bits_safe 1 ;;
    if sel2 =? 0 then let c' := (c + 1) mod M32 in _ <- set_len i c' ;; lens1 n' (i + 1) c' else
    c' <- read_bits_safe 4 ;; _ <- set_len i c' ;; lens1 n' (i + 1) c' end.
Fixpoint lens2 (n : nat) (i c : N) : hm unit :=
  match n with O => hret tt | S n' =>
    sel <- read_bits_safe 2 ;;
    c' <- (if sel =? 3 then read_bits_safe 4 else hret ((c + M32 + sel - 1) mod M32)) ;;
    _ <- set_len i c' ;; lens2 n' (i + 1) c' end.
Fixpoint lens3 (n : nat) (i : N) : hm unit :=
  match n with O => hret tt | S n' => c <- read_bits_safe 4 ;; _ <- set_len i c ;; lens3 n' (i + 1) end.
Fixpoint lens0 (n : nat) (i c : N) : hm unit :=
  match n with O => hret tt | S n' => _ <- set_len i c ;; lens0 n' (i + 1) c end.
Definition read_lens (type numsyms : N) : hm unit :=
  _ <- hmod restore_bits ;;
  _ <- (if type =? 0 then lens0 (N.to_nat numsyms) 0 (if numsyms =? 16 then 4 else if numsyms =? 32 then 5 else if numsyms =? 64 then 6 else if numsyms =? 256 then 8 else 0)
        else if type =? 1 then c <- read_bits_safe 4 ;; _ <- set_len 0 c ;; lens1 (N.to_nat numsyms - 1) 1 c
        else if type =? 2 then c <- read_bits_safe 4 ;; _ <- set_len 0 c ;; lens2 (N.to_nat numsyms - 1) 1 c
        else if type =? 3 then lens3 (N.to_nat numsyms) 0
        else hstop MSPACK_ERR_DATAFORMAT) ;;
  hmod store_bits.

(* BUILD_TREE: (lens, table) of one of the five codes.  A stream that ends inside the length list makes lzh_read_lens return
   MSPACK_ERR_OK without STORE_BITS: the caller carries on with the bit buffer it stored before the call and with the input
   pointers lzh_read_input left in the struct, and builds the table from the lengths read so far (the rest are zero). *)
Definition build_tree (type numsyms : N) : hm (tr * tr) := fun s =>
  let s0 := store_bits (match clear_lens s with HVal _ x => x | HStop _ x => x end) in
  let after := match read_lens type numsyms s0 with
               | HVal _ s1 => inl (restore_bits s1)
               | HStop e s1 => if e =? MSPACK_ERR_OK then inl (restore_bits s1) else inr (e, s1)
               end in
  match after with
  | inr (e, s1) => HStop e s1
  | inl s2 =>
    match mdt_msb numsyms KWAJ_TABLEBITS (fun x => tget LND (hlens s2) x 0) with
    | None => HStop MSPACK_ERR_DATAFORMAT s2
    | Some t => HVal (hlens s2, t) s2
    end
  end.

Definition put_byte (b : N) : hm unit := hmod (fun s =>
  mkHS (hbb s) (hbl s) (hibuf s) (hrest s) (hend s) (sbb s) (sbl s) (sibuf s) (hlens s) (tset LND (hwin s) (hpos s) b) (N.land (hpos s + 1) 4095) (b :: hout s)).
Fixpoint copy_match (n : nat) (offset : N) : hm unit :=
  match n with O => hret tt | S n' =>
    s <- hget ;; _ <- put_byte (tget LND (hwin s) (N.land (hpos s + 4096 - offset) 4095) LZSS_WINDOW_FILL) ;; copy_match n' offset end.
Fixpoint literals (n : nat) (tab lens : tr) : hm unit :=
  match n with O => hret tt | S n' => j <- read_huffsym_safe tab lens KWAJ_LITERAL_SYMS ;; _ <- put_byte j ;; literals n' tab lens end.

Section Loop.
Variables (ml1 ml2 ll off lit : tr * tr).
Fixpoint main_loop (fuel : nat) (lit_run : bool) : hm N :=
  match fuel with O => hret 99 | S f =>
    s <- hget ;;
    if negb (hend s =? 0) then hret MSPACK_ERR_OK else
    len <- (if lit_run then read_huffsym_safe (snd ml2) (fst ml2) KWAJ_MATCHLEN2_SYMS else read_huffsym_safe (snd ml1) (fst ml1) KWAJ_MATCHLEN1_SYMS) ;;
    if 0 <? len then
      j <- read_huffsym_safe (snd off) (fst off) KWAJ_OFFSET_SYMS ;;
      k <- read_bits_safe 6 ;;
      _ <- copy_match (N.to_nat (len + 2)) (N.lor (N.shiftl j 6) k) ;;
      main_loop f false
    else
      l <- read_huffsym_safe (snd ll) (fst ll) KWAJ_LITLEN_SYMS ;;
      _ <- literals (N.to_nat (l + 1)) (snd lit) (fst lit) ;;
      main_loop f (negb (l + 1 =? 32))
  end.
End Loop.

Fixpoint read_types (n : nat) (acc : list N) : hm (list N) :=
  match n with O => hret (rev acc) | S n' => t <- read_bits_safe 4 ;; read_types n' (t :: acc) end.
Definition lzh_prog (fuel : nat) : hm N :=
  types <- read_types 6 [] ;;
  ml1 <- build_tree (nth 0 types 0) KWAJ_MATCHLEN1_SYMS ;;
  ml2 <- build_tree (nth 1 types 0) KWAJ_MATCHLEN2_SYMS ;;
  ll <- build_tree (nth 2 types 0) KWAJ_LITLEN_SYMS ;;
  off <- build_tree (nth 3 types 0) KWAJ_OFFSET_SYMS ;;
  lit <- build_tree (nth 4 types 0) KWAJ_LITERAL_SYMS ;;
  main_loop ml1 ml2 ll off lit fuel false.

Definition lzh_init (data : list N) : hst := mkHS 0 0 [] data 0 0 0 [] Emp Emp 0 [].
(* lzh_decompress on a stream: (status, bytes written) *)
Definition lzh_decompress (data : list N) : N * list N :=
  match lzh_prog (S (8 * length data)) (lzh_init data) with
  | HVal e s => (e, rev (hout s))
  | HStop e s => (e, rev (hout s))
  end.
