(* Executable model of cabinet sets in cabd.c: cabd_merge (append / prepend) with cabd_can_merge_folders on the shared folder
   and file lists, and cabd_extract over folders whose data parts lie in several cabinet files (split blocks continue in the
   next part).  Builds on Model/Cab.v (headers, decoder ports, buffered interpreter).  Folders and file entries carry the
   identity they have as C objects (cabinet number, position in that cabinet's own table), because cabd.c compares pointers. *)
From Coq Require Import List NArith ZArith Bool.
Import ListNotations.
From MSP Require Import Base.Src Gen.Consts Gen.Tables Model.Chm Model.Cab.
From MSP Require Model.Lzx Model.Qtm Model.Mszip Model.Cksum.
Local Open Scope N_scope.

Definition oid := (N * N)%type.        (* cabinet number, index in that cabinet's own table *)
Definition oid_eqb (a b : oid) : bool := (fst a =? fst b) && (snd a =? snd b).

Record sfolder := mkSF { sf_id : oid; sf_comp : N; sf_nblocks : N; sf_parts : list (N * Z) (* cabinet number, data offset *);
                         sf_mprev : option oid; sf_mnext : option oid (* file entries *) }.
Record sfile := mkSFi { sfi_id : oid; sfi_f : cfile; sfi_folder : oid }.
(* the lists every cabinet of a joined chain points to *)
Record chain := mkCh { ch_cabs : list N (* first to last *); ch_folders : list sfolder; ch_files : list sfile }.
Record sset := mkSet { st_files : list (list N); st_cabs : list cabinet; st_chains : list chain }.

Definition is_to_next (c : N) : bool := (c =? cffileCONTINUED_TO_NEXT) || (c =? cffileCONTINUED_PREV_AND_NEXT).
Definition is_from_prev (c : N) : bool := (c =? cffileCONTINUED_FROM_PREV) || (c =? cffileCONTINUED_PREV_AND_NEXT).
Fixpoint index_where {A} (p : A -> bool) (l : list A) (i : N) : option N :=
  match l with [] => None | x :: r => if p x then Some i else index_where p r (i + 1) end.
Fixpoint mapi {A B} (f : N -> A -> B) (l : list A) (i : N) : list B := match l with [] => [] | x :: r => f i x :: mapi f r (i + 1) end.

(* the chain of one freshly opened cabinet *)
Definition chain_of (k : N) (c : cabinet) : chain :=
  let nfo := N.of_nat (length (c_folders c)) in
  let mnext := match index_where (fun f => is_to_next (fi_code f)) (c_files c) 0 with Some i => Some (k, i) | None => None end in
  let mprev := match index_where (fun f => is_from_prev (fi_code f)) (c_files c) 0 with Some i => Some (k, i) | None => None end in
  mkCh [k]
       (mapi (fun i fo => mkSF (k, i) (fo_comp fo) (fo_nblocks fo) [(k, fo_offset fo)]
                               (if i =? 0 then mprev else None) (if i + 1 =? nfo then mnext else None)) (c_folders c) 0)
       (mapi (fun i f => mkSFi (k, i) f (k, fi_folder f)) (c_files c) 0).

Definition chain_idx (s : sset) (k : N) : option N := index_where (fun ch => existsb (N.eqb k) (ch_cabs ch)) (st_chains s) 0.
Definition get_chain (s : sset) (k : N) : option chain :=
  match chain_idx s k with Some i => nth_error (st_chains s) (N.to_nat i) | None => None end.

(* files of a list from the entry with identity id on *)
Fixpoint from_file (id : oid) (l : list sfile) : list sfile :=
  match l with [] => [] | f :: r => if oid_eqb (sfi_id f) id then l else from_file id r end.
Definition same_place (a b : sfile) : bool := (fi_off (sfi_f a) =? fi_off (sfi_f b)) && (fi_len (sfi_f a) =? fi_len (sfi_f b)).
Fixpoint pairwise (l r : list sfile) : bool :=
  match l with [] => true | a :: l' => match r with [] => false | b :: r' => same_place a b && pairwise l' r' end end.

Fixpoint take_while {A} (p : A -> bool) (l : list A) : list A := match l with [] => [] | x :: r => if p x then x :: take_while p r else [] end.
(* cabd_can_merge_folders *)
(* None: the model cannot follow (a folder's merge file is no longer in its list - a dangling pointer in C) *)
Definition can_merge (lfol rfol : sfolder) (lfiles rfiles : list sfile) : option bool :=
  if negb (sf_comp lfol =? sf_comp rfol) then Some false else
  if CAB_FOLDERMAX <? sf_nblocks lfol + sf_nblocks rfol then Some false else
  match sf_mnext lfol, sf_mprev rfol with
  | Some lid, Some rid =>
    let ls := from_file lid lfiles in let rs0 := from_file rid rfiles in
    (* only entries of rfol itself are compared (the entries of a folder are contiguous in the list) *)
    let rs := take_while (fun f => oid_eqb (sfi_folder f) (sf_id rfol)) rs0 in
    match ls, rs0 with
    | [], _ | _, [] => None
    | _, _ => Some (if pairwise ls rs then true else existsb (fun a => existsb (same_place a) rs) ls)
    end
  | _, _ => Some false
  end.

Fixpoint last_opt {A} (l : list A) : option A := match l with [] => None | [x] => Some x | _ :: r => last_opt r end.
Fixpoint replace_last {A} (l : list A) (x : A) : list A := match l with [] => [] | [_] => [x] | y :: r => y :: replace_last r x end.
Fixpoint remove_nth {A} (n : nat) (l : list A) : list A := match l with [] => [] | x :: r => match n with O => r | S n' => x :: remove_nth n' r end end.

(* the list surgery of cabd_merge on the two chains: None = the model cannot follow, Some None = refused (DATAFORMAT) *)
Definition join_chains (cl cr : chain) : option (option chain) :=
  match last_opt (ch_folders cl), ch_folders cr with
  | Some lfol, rfol :: rfols =>
    match sf_mnext lfol, sf_mprev rfol with
    | None, None => Some (Some (mkCh (ch_cabs cl ++ ch_cabs cr) (ch_folders cl ++ ch_folders cr) (ch_files cl ++ ch_files cr)))
    | _, _ =>
      match can_merge lfol rfol (ch_files cl) (ch_files cr) with
      | None => None
      | Some false => Some None
      | Some true =>
        let keep_next := match sf_mnext rfol with
                         | None => true
                         | Some fidn => match find (fun f => oid_eqb (sfi_id f) fidn) (ch_files cr) with
                                        | Some f => negb (oid_eqb (sfi_folder f) (sf_id rfol)) | None => true end
                         end in
        let lfol' := mkSF (sf_id lfol) (sf_comp lfol) ((sf_nblocks lfol + sf_nblocks rfol + M32 - 1) mod M32) (sf_parts lfol ++ sf_parts rfol)
                          (sf_mprev lfol) (if keep_next then sf_mnext rfol else sf_mnext lfol) in
        Some (Some (mkCh (ch_cabs cl ++ ch_cabs cr) (replace_last (ch_folders cl) lfol' ++ rfols)
                         (filter (fun f => negb (oid_eqb (sfi_folder f) (sf_id rfol))) (ch_files cl ++ ch_files cr))))
      end
    end
  | _, _ => None
  end.

(* cabd_merge(lcab, rcab) on cabinet numbers: (status, set) *)
Definition merge (s : sset) (l r : option N) : N * sset :=
  match l, r with
  | Some l, Some r =>
    if l =? r then (MSPACK_ERR_ARGS, s) else
    match chain_idx s l, chain_idx s r with
    | Some il, Some ir =>
      match nth_error (st_chains s) (N.to_nat il), nth_error (st_chains s) (N.to_nat ir) with
      | Some cl, Some cr =>
        (* lcab must be the last of its chain, rcab the first of its chain, and the chains different *)
        if negb (match last_opt (ch_cabs cl) with Some x => x =? l | None => false end) then (MSPACK_ERR_ARGS, s) else
        if negb (match ch_cabs cr with x :: _ => x =? r | [] => false end) then (MSPACK_ERR_ARGS, s) else
        if il =? ir then (MSPACK_ERR_ARGS, s) else
        match join_chains cl cr with
        | None => (UNMODELLED, s)
        | Some None => (MSPACK_ERR_DATAFORMAT, s)
        | Some (Some ch) =>
          let lo := N.min il ir in let hi := N.max il ir in
          let chains1 := remove_nth (N.to_nat hi) (st_chains s) in
          let chains2 := firstn (N.to_nat lo) chains1 ++ ch :: skipn (S (N.to_nat lo)) chains1 in
          (MSPACK_ERR_OK, mkSet (st_files s) (st_cabs s) chains2)
        end
      | _, _ => (MSPACK_ERR_ARGS, s)
      end
    | _, _ => (MSPACK_ERR_ARGS, s)
    end
  | _, _ => (MSPACK_ERR_ARGS, s)
  end.

(* ---------- extraction over several data parts ---------- *)
Record shost := mkSH { sh_part : N; sh_pos : Z; sh_open : bool; sh_ibuf : list N; sh_block : N; sh_outlen : N; sh_rerr : N;
                       sh_off : N; sh_writing : bool; sh_out : list N; sh_hint : N }.

Section SHost.
Variable par : params.
Variable parts : list (list N * Z * N).      (* per data part: the cabinet file, the offset of the folder's data in it, that cabinet's block reserve *)
Variable comp : N.
Variable nblocks : N.
Definition sctype : N := N.land comp cffoldCOMPTYPE_MASK.
Definition sign_cksum : bool := p_salvage par || (p_fixmszip par && (sctype =? cffoldCOMPTYPE_MSZIP)).
Definition part_at (k : N) : option (list N * Z * N) := nth_error parts (N.to_nat k).

(* cabd_sys_read_block: loops over the parts of a split block *)
Fixpoint sread_block (fuel : nat) (h : shost) (acc : list N) : N * N * shost :=
  match fuel with O => (99, 0, h) | S f =>
    match part_at (sh_part h) with
    | None => (UNMODELLED, 0, h)
    | Some (file, _, bres) =>
      let hdr := rdn file (sh_pos h) cfdata_SIZEOF in
      if negb (len hdr =? cfdata_SIZEOF) then (MSPACK_ERR_READ, 0, h) else
      let pos1 := (sh_pos h + Z.of_N cfdata_SIZEOF + Z.of_N bres)%Z in
      let ln := le16 hdr cfdata_CompressedSize in let un := le16 hdr cfdata_UncompressedSize in
      let full := len acc + ln in
      let hb := mkSH (sh_part h) pos1 (sh_open h) acc (sh_block h) (sh_outlen h) (sh_rerr h) (sh_off h) (sh_writing h) (sh_out h) (sh_hint h) in
      if (CAB_INPUTMAX <? full) && (negb (p_salvage par) || (CAB_INPUTMAX_SALVAGE <? full)) then (MSPACK_ERR_DATAFORMAT, 0, hb) else
      if (CAB_BLOCKMAX <? un) && negb (p_salvage par) then (MSPACK_ERR_DATAFORMAT, 0, hb) else
      let data := rdn file pos1 ln in
      if negb (len data =? ln) then (MSPACK_ERR_READ, 0, hb) else
      let pos2 := (pos1 + Z.of_N ln)%Z in
      let stored := le32 hdr cfdata_CheckSum in
      if negb (stored =? 0) && negb (Cksum.cksum (sub hdr 4 8) (Cksum.cksum data 0) =? stored) && negb sign_cksum
      then (MSPACK_ERR_CHECKSUM, 0, mkSH (sh_part h) pos2 (sh_open h) acc (sh_block h) (sh_outlen h) (sh_rerr h) (sh_off h) (sh_writing h) (sh_out h) (sh_hint h)) else
      let acc' := acc ++ data in
      if negb (un =? 0) then (MSPACK_ERR_OK, un, mkSH (sh_part h) pos2 (sh_open h) acc' (sh_block h) (sh_outlen h) (sh_rerr h) (sh_off h) (sh_writing h) (sh_out h) (sh_hint h))
      else match part_at (sh_part h + 1) with
           | None => (MSPACK_ERR_DATAFORMAT, 0, mkSH (sh_part h + 1) pos2 false acc' (sh_block h) (sh_outlen h) (sh_rerr h) (sh_off h) (sh_writing h) (sh_out h) (sh_hint h))
           | Some (_, off2, _) =>
             if (off2 <? 0)%Z then (MSPACK_ERR_SEEK, 0, mkSH (sh_part h + 1) pos2 true acc' (sh_block h) (sh_outlen h) (sh_rerr h) (sh_off h) (sh_writing h) (sh_out h) (sh_hint h))
             else sread_block f (mkSH (sh_part h + 1) off2 true acc' (sh_block h) (sh_outlen h) (sh_rerr h) (sh_off h) (sh_writing h) (sh_out h) (sh_hint h)) acc'
           end
    end
  end.

Fixpoint ssys_read (fuel : nat) (todo : N) (acc : list N) (h : shost) : Src.rd * shost :=
  match fuel with O => (RErr, h) | S f =>
    if todo =? 0 then (RBytes acc, h) else
    match sh_ibuf h with
    | _ :: _ =>
      let got := firstn (N.to_nat todo) (sh_ibuf h) in
      ssys_read f (todo - len got) (acc ++ got)
                (mkSH (sh_part h) (sh_pos h) (sh_open h) (skipn (N.to_nat todo) (sh_ibuf h)) (sh_block h) (sh_outlen h) (sh_rerr h) (sh_off h) (sh_writing h) (sh_out h) (sh_hint h))
    | [] =>
      let hb := mkSH (sh_part h) (sh_pos h) (sh_open h) [] (sh_block h + 1) (sh_outlen h) (sh_rerr h) (sh_off h) (sh_writing h) (sh_out h) (sh_hint h) in
      if nblocks <=? sh_block h then
        (RBytes acc, if p_salvage par then hb
                     else mkSH (sh_part h) (sh_pos h) (sh_open h) [] (sh_block h + 1) (sh_outlen h) MSPACK_ERR_DATAFORMAT (sh_off h) (sh_writing h) (sh_out h) (sh_hint h))
      else
        let '(e, un, h1) := sread_block (S (length parts)) hb [] in
        if negb (e =? 0) then (RErr, mkSH (sh_part h1) (sh_pos h1) (sh_open h1) (sh_ibuf h1) (sh_block h1) (sh_outlen h1) e (sh_off h1) (sh_writing h1) (sh_out h1) (sh_hint h1)) else
        let outlen := sh_outlen h1 + un in
        let ibuf := if sctype =? cffoldCOMPTYPE_QUANTUM then sh_ibuf h1 ++ [255] else sh_ibuf h1 in
        let hint := if (nblocks <=? sh_block h1) && (sctype =? cffoldCOMPTYPE_LZX) && (0 <? outlen) then outlen else sh_hint h1 in
        ssys_read f todo acc (mkSH (sh_part h1) (sh_pos h1) (sh_open h1) ibuf (sh_block h1) outlen 0 (sh_off h1) (sh_writing h1) (sh_out h1) hint)
    end
  end.

Definition shans (h : shost) (c : hcall) : hanswer c * shost :=
  match c return hanswer c * shost with
  | HRead n => ssys_read (S (2 * N.to_nat nblocks + 4)) n [] h
  | HWrite d => (Z.of_N (len d),
                 mkSH (sh_part h) (sh_pos h) (sh_open h) (sh_ibuf h) (sh_block h) (sh_outlen h) (sh_rerr h) (sh_off h + len d) (sh_writing h)
                      (if sh_writing h then rev_append d (sh_out h) else sh_out h) (sh_hint h))
  | HHint => (sh_hint h, h)
  end.
Fixpoint sexec {A} (h : shost) (p : prog A) : A * shost :=
  match p with Ret a => (a, h) | Do c k => let '(a, h') := shans h c in sexec h' (k a) end.

Fixpoint snoned (fuel : nat) (bytes : N) (h : shost) : N * shost :=
  match fuel with O => (99, h) | S f =>
    if bytes =? 0 then (MSPACK_ERR_OK, h) else
    let run := N.min bytes (p_bufsize par) in
    match shans h (HRead run) with
    | (RErr, h1) => (MSPACK_ERR_READ, h1)
    | (RBytes l, h1) =>
      if negb (len l =? run) then (MSPACK_ERR_READ, h1) else
      let '(_, h2) := shans h1 (HWrite l) in snoned f (bytes - run) h2
    end
  end.

Definition sdec_call (d : cdec) (b : bst) (h : shost) (n : N) : N * cdec * bst * shost :=
  match d with
  | DNoned err =>
    if negb (err =? 0) then (err, d, b, h) else
    let '(e, h') := snoned (S (N.to_nat (n / N.max (p_bufsize par) 1)) + 1) n h in (e, DNoned e, b, h')
  | DZip z =>
    match sexec h (buffered (bufsize_even par) EofPad2 (Mszip.zcall n z) b) with
    | ((SVal (e, failed, z'), b'), h') => ((if failed && p_fixmszip par then UNMODELLED else e), DZip z', b', h')
    | ((SStop e, b'), h') => ((if p_fixmszip par then UNMODELLED else e), DZip (Mszip.mkZS (Mszip.zs z) 0 0 e), b', h')   (* repair mode flushes the partly inflated frame before returning a read error *)
    end
  | DQtm q =>
    match sexec h (buffered (bufsize_even par) EofPad2 (Qtm.decompress n q) b) with
    | ((SVal (inl e), b'), h') => (e, DQtm (Qtm.set_err q e), b', h')
    | ((SVal (inr (_, q')), b'), h') => (0, DQtm q', b', h')
    | ((SStop e, b'), h') => (e, DQtm (Qtm.set_err q e), b', h')
    end
  | DLzx l =>
    match sexec h (buffered (bufsize_even par) EofPad2 (Lzx.decompress n l) b) with
    | ((SVal (inl e), b'), h') => (e, DLzx (Lzx.set_err l e), b', h')
    | ((SVal (inr (_, l')), b'), h') => (0, DLzx l', b', h')
    | ((SStop e, b'), h') => (e, DLzx (Lzx.set_err l e), b', h')
    end
  end.
End SHost.

(* self->d for sets: which folder object, decoder, its input buffer, the block reader *)
Record sstate := mkSS { ss_folder : option oid; ss_dec : option cdec; ss_bst : bst; ss_host : shost }.
Definition ss_init : sstate := mkSS None None {| bbuf := []; bend := false |} (mkSH 0 0 false [] 0 0 0 0 false [] 0).
Definition sh_with_writing (h : shost) (w : bool) : shost :=
  mkSH (sh_part h) (sh_pos h) (sh_open h) (sh_ibuf h) (sh_block h) (sh_outlen h) (sh_rerr h) (sh_off h) w (sh_out h) (sh_hint h).
Definition sh_clear_out (h : shost) : shost :=
  mkSH (sh_part h) (sh_pos h) (sh_open h) (sh_ibuf h) (sh_block h) (sh_outlen h) (sh_rerr h) (sh_off h) (sh_writing h) [] (sh_hint h).

(* cabd_extract of a file entry of a chain *)
Definition sextract (par : params) (s : sset) (ch : chain) (st : sstate) (sf : sfile) : N * list N * sstate :=
  let f := sfi_f sf in
  if CAB_LENGTHMAX <? fi_off f then (MSPACK_ERR_DATAFORMAT, [], st) else
  let too_long := CAB_LENGTHMAX - fi_off f <? fi_len f in
  if too_long && negb (p_salvage par) then (MSPACK_ERR_DATAFORMAT, [], st) else
  let filelen := if too_long then CAB_LENGTHMAX - fi_off f else fi_len f in
  match find (fun fo => oid_eqb (sf_id fo) (sfi_folder sf)) (ch_folders ch) with
  | None => (UNMODELLED, [], st)       (* a file entry whose folder object is not in the chain's list *)
  | Some fo =>
    match sf_mprev fo with Some _ => (MSPACK_ERR_DECRUNCH, [], st) | None =>
    let maxlen := (sf_nblocks fo * CAB_BLOCKMAX) mod M32 in
    if negb (p_salvage par) && ((maxlen <? fi_off f) || (maxlen - fi_off f <? filelen)) then (MSPACK_ERR_DECRUNCH, [], st) else
    let parts := map (fun p => (nth (N.to_nat (fst p)) (st_files s) [], snd p,
                                match nth_error (st_cabs s) (N.to_nat (fst p)) with Some c => c_bres c | None => 0 end)) (sf_parts fo) in
    let reinit := negb (match ss_folder st with Some k => oid_eqb k (sf_id fo) | None => false end)
                  || (fi_off f <? sh_off (ss_host st)) || (match ss_dec st with None => true | Some _ => false end) in
    let off0 := match sf_parts fo with (_, o) :: _ => o | [] => 0%Z end in
    let st1 : N * sstate :=
      if reinit then
        match init_decomp (sf_comp fo) with
        | inl e => (e, mkSS (ss_folder st) None (ss_bst st)
                            (mkSH 0 off0 true (sh_ibuf (ss_host st)) (sh_block (ss_host st)) (sh_outlen (ss_host st)) (sh_rerr (ss_host st)) (sh_off (ss_host st)) false [] (sh_hint (ss_host st))))
        | inr d => (0, mkSS (Some (sf_id fo)) (Some d) {| bbuf := []; bend := false |} (mkSH 0 off0 true [] 0 0 0 0 false [] 0))
        end
      else (0, st) in
    let '(e0, s1) := st1 in
    if negb (e0 =? 0) then (e0, [], s1) else
    match ss_dec s1 with
    | None => (UNMODELLED, [], s1)
    | Some d =>
      if filelen =? 0 then (MSPACK_ERR_OK, [], s1) else
      let h0 := sh_clear_out (sh_with_writing (ss_host s1) false) in
      let skip := fi_off f - sh_off h0 in
      let '(e1, d1, b1, h1) := if skip =? 0 then (0, d, ss_bst s1, h0) else sdec_call par parts (sf_comp fo) (sf_nblocks fo) d (ss_bst s1) h0 skip in
      let err1 := if e1 =? MSPACK_ERR_READ then sh_rerr h1 else e1 in
      if negb (err1 =? 0) then (err1, [], mkSS (ss_folder s1) (Some d1) b1 (sh_with_writing h1 false)) else
      let '(e2, d2, b2, h2) := sdec_call par parts (sf_comp fo) (sf_nblocks fo) d1 b1 (sh_with_writing h1 true) filelen in
      let err2 := if e2 =? MSPACK_ERR_READ then sh_rerr h2 else e2 in
      (err2, rev_append (sh_out h2) [], mkSS (ss_folder s1) (Some d2) b2 (sh_clear_out (sh_with_writing h2 false)))
    end end
  end.

(* ---------- sessions ---------- *)
Inductive sop := SOpen (fileno : N) | SMerge (l r : option N) | SList (c : N) | SExtract (c idx : N).
Inductive sres := ROpen (err : N) | RMerge (err : N) | RList (hasprev hasnext : bool) (folders : list sfolder) (files : list sfile) | RExtr (r : option (N * list N)).

(* the cabinet numbers are the positions of the successful opens; a failed open still takes a number (its variable stays NULL) *)
Fixpoint run_sops (par : params) (allfiles : list (list N)) (ops : list sop) (s : sset) (live : list bool) (st : sstate) (acc : list sres) : list sres :=
  match ops with
  | [] => rev acc
  | SOpen k :: rest =>
    let file := nth (N.to_nat k) allfiles [] in
    let n := N.of_nat (length (st_files s)) in
    match cab_open file (p_salvage par) with
    | (e, Some c) => run_sops par allfiles rest (mkSet (st_files s ++ [file]) (st_cabs s ++ [c]) (st_chains s ++ [chain_of n c])) (live ++ [true]) st (ROpen e :: acc)
    | (e, None) => run_sops par allfiles rest (mkSet (st_files s ++ [file]) (st_cabs s ++ [mkCab 0 0 0 0 0 0 0 None None None None [] []]) (st_chains s)) (live ++ [false]) st (ROpen e :: acc)
    end
  | SMerge l r :: rest =>
    let ok (x : option N) := match x with Some k => if nth (N.to_nat k) live false then Some k else None | None => None end in
    let '(e, s') := merge s (ok l) (ok r) in run_sops par allfiles rest s' live st (RMerge e :: acc)
  | SList c :: rest =>
    match get_chain s c with
    | Some ch =>
      let hasprev := negb (match ch_cabs ch with x :: _ => x =? c | [] => true end) in
      let hasnext := negb (match last_opt (ch_cabs ch) with Some x => x =? c | None => true end) in
      run_sops par allfiles rest s live st (RList hasprev hasnext (ch_folders ch) (ch_files ch) :: acc)
    | None => run_sops par allfiles rest s live st (RExtr None :: acc)
    end
  | SExtract c idx :: rest =>
    match get_chain s c with
    | Some ch =>
      match nth_error (ch_files ch) (N.to_nat idx) with
      | Some sf => let '(e, out, st') := sextract par s ch st sf in run_sops par allfiles rest s live st' (RExtr (Some (e, out)) :: acc)
      | None => run_sops par allfiles rest s live st (RExtr None :: acc)
      end
    | None => run_sops par allfiles rest s live st (RExtr None :: acc)
    end
  end.
Definition set_session (salvage fixmszip : bool) (bufsize : N) (allfiles : list (list N)) (ops : list sop) : list sres :=
  run_sops (mkPar salvage fixmszip bufsize) allfiles ops (mkSet [] [] []) [] ss_init [].
