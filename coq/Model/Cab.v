(* Executable model of cabd.c for one cabinet file: cabd_read_headers / cabd_read_string (open), and cabd_extract with
   cabd_sys_read, cabd_sys_read_block, cabd_sys_write, the checksum test, noned_decompress and the three decoder ports run
   through the buffered interpreter (so that the input buffer size DECOMPBUF matters exactly as in C).
   Not modelled: repair mode's recovery after an inflate error (FIXMSZIP; reported as UNMODELLED when it would be needed),
   out-of-memory, cabinet sets (a block continued in the next cabinet ends in "ran out of cabinets"). *)
From Coq Require Import List NArith ZArith Bool.
Import ListNotations.
From MSP Require Import Base.Src Gen.Consts Gen.Tables Model.Chm.
From MSP Require Model.Lzx Model.Qtm Model.Mszip Model.Cksum.
Local Open Scope N_scope.

Definition UNMODELLED : N := 98.

(* ---------- open ---------- *)
Record cfolder := mkFo { fo_comp : N; fo_nblocks : N; fo_offset : Z; fo_mprev : bool; fo_mnext : bool }.
(* fi_code: the iFolder field as stored (a folder index or one of the three CONTINUED codes) *)
Record cfile := mkFi { fi_name : list N; fi_len : N; fi_attr : N; fi_off : N; fi_folder : N;
                       fi_th : N; fi_tm : N; fi_ts : N; fi_dy : N; fi_dm : N; fi_dd : N; fi_code : N }.
Record cabinet := mkCab { c_base : Z; c_len : N; c_setid : N; c_idx : N; c_flags : N; c_hres : N; c_bres : N;
                          c_prev : option (list N); c_pinfo : option (list N); c_next : option (list N); c_ninfo : option (list N);
                          c_folders : list cfolder; c_files : list cfile }.

Definition rdn (file : list N) (pos : Z) (n : N) : list N := sub file (Z.to_N pos) (Z.to_N pos + n).
Fixpoint index0 (l : list N) (i : N) : option N := match l with [] => None | c :: r => if c =? 0 then Some i else index0 r (i + 1) end.

(* cabd_read_string: (error, string, position afterwards) *)
Definition read_string (file : list N) (pos : Z) (permit_empty : bool) : N * list N * Z :=
  let buf := rdn file pos 256 in
  if len buf =? 0 then (MSPACK_ERR_READ, [], pos) else
  let after := (pos + Z.of_N (len buf))%Z in
  match index0 buf 0 with
  | None => (MSPACK_ERR_DATAFORMAT, [], after)
  | Some i => if (i =? 0) && negb permit_empty then (MSPACK_ERR_DATAFORMAT, [], after)
              else (MSPACK_ERR_OK, firstn (N.to_nat i) buf, (pos + Z.of_N i + 1)%Z)
  end.

Definition set_mprev (fs : list cfolder) : list cfolder :=
  match fs with [] => [] | f :: r => mkFo (fo_comp f) (fo_nblocks f) (fo_offset f) true (fo_mnext f) :: r end.
Fixpoint set_mnext (fs : list cfolder) : list cfolder :=
  match fs with [] => [] | [f] => [mkFo (fo_comp f) (fo_nblocks f) (fo_offset f) (fo_mprev f) true] | f :: r => f :: set_mnext r end.

Fixpoint read_folders (n : nat) (file : list N) (pos base : Z) (fres : N) (acc : list cfolder) : N * list cfolder * Z :=
  match n with
  | O => (MSPACK_ERR_OK, rev acc, pos)
  | S n' =>
    let b := rdn file pos cffold_SIZEOF in
    if negb (len b =? cffold_SIZEOF) then (MSPACK_ERR_READ, rev acc, pos) else
    read_folders n' file (pos + Z.of_N cffold_SIZEOF + Z.of_N fres)%Z base fres
      (mkFo (le16 b cffold_CompType) (le16 b cffold_NumBlocks) (base + Z.of_N (le32 b cffold_DataOffset))%Z false false :: acc)
  end.

Fixpoint read_files (n : nat) (file : list N) (pos : Z) (salvage : bool) (nfold : N) (folders : list cfolder) (acc : list cfile)
  : N * list cfolder * list cfile :=
  match n with
  | O => (MSPACK_ERR_OK, folders, rev acc)
  | S n' =>
    let b := rdn file pos cffile_SIZEOF in
    if negb (len b =? cffile_SIZEOF) then (MSPACK_ERR_READ, folders, rev acc) else
    let fidx := le16 b cffile_FolderIndex in
    let to_next := (fidx =? cffileCONTINUED_TO_NEXT) || (fidx =? cffileCONTINUED_PREV_AND_NEXT) in
    let from_prev := (fidx =? cffileCONTINUED_FROM_PREV) || (fidx =? cffileCONTINUED_PREV_AND_NEXT) in
    let folder : option N :=
      if fidx <? cffileCONTINUED_FROM_PREV then (if fidx <? nfold then Some fidx else None)
      else if from_prev then Some 0 else Some (nfold - 1) in
    let t := le16 b cffile_Time in let d := le16 b cffile_Date in
    let '(err, name, pos') := read_string file (pos + Z.of_N cffile_SIZEOF)%Z false in
    match (if err =? 0 then folder else None) with
    | None =>
      if salvage && ((err =? 0) || (err =? MSPACK_ERR_DATAFORMAT)) then read_files n' file pos' salvage nfold folders acc
      else ((if err =? 0 then MSPACK_ERR_DATAFORMAT else err), folders, rev acc)
    | Some fo =>
      let f := mkFi name (le32 b cffile_UncompressedSize) (le16 b cffile_Attribs) (le32 b cffile_FolderOffset) fo
                    (N.shiftr t 11) (N.land (N.shiftr t 5) 63) (N.land (N.shiftl t 1) 62)
                    (N.shiftr d 9 + 1980) (N.land (N.shiftr d 5) 15) (N.land d 31) fidx in
      let folders1 := if to_next then set_mnext folders else folders in
      let folders2 := if from_prev then set_mprev folders1 else folders1 in
      read_files n' file pos' salvage nfold folders2 (f :: acc)
    end
  end.

Definition MSCF_SIG := 1178817357.    (* 0x4643534D *)

(* cabd_read_headers at an offset of the file *)
Definition read_headers (file : list N) (offset : Z) (salvage : bool) : N * option cabinet :=
  if (offset <? 0)%Z then (MSPACK_ERR_SEEK, None) else
  let b := rdn file offset cfhead_SIZEOF in
  if negb (len b =? cfhead_SIZEOF) then (MSPACK_ERR_READ, None) else
  if negb (le32 b cfhead_Signature =? MSCF_SIG) then (MSPACK_ERR_SIGNATURE, None) else
  let nfold := le16 b cfhead_NumFolders in let nfiles := le16 b cfhead_NumFiles in
  if nfold =? 0 then (MSPACK_ERR_DATAFORMAT, None) else
  if nfiles =? 0 then (MSPACK_ERR_DATAFORMAT, None) else
  let flags := le16 b cfhead_Flags in
  let pos0 := (offset + Z.of_N cfhead_SIZEOF)%Z in
  let ext := rdn file pos0 cfheadext_SIZEOF in
  let has_resv := negb (N.land flags cfheadRESERVE_PRESENT =? 0) in
  if has_resv && negb (len ext =? cfheadext_SIZEOF) then (MSPACK_ERR_READ, None) else
  let hres := if has_resv then le16 ext cfheadext_HeaderReserved else 0 in
  let fres := if has_resv then nthb ext cfheadext_FolderReserved else 0 in
  let bres := if has_resv then nthb ext cfheadext_DataReserved else 0 in
  let pos1 := if has_resv then (pos0 + Z.of_N cfheadext_SIZEOF + Z.of_N hres)%Z else pos0 in
  (* previous / next cabinet names *)
  let rd2 (present : bool) (pos : Z) : N * option (list N) * option (list N) * Z :=
    if present then
      let '(e1, s1, p1) := read_string file pos false in
      if negb (e1 =? 0) then (e1, None, None, p1) else
      let '(e2, s2, p2) := read_string file p1 true in
      if negb (e2 =? 0) then (e2, None, None, p2) else (0, Some s1, Some s2, p2)
    else (0, None, None, pos) in
  let '(ep, pn, pi, pos2) := rd2 (negb (N.land flags cfheadPREV_CABINET =? 0)) pos1 in
  if negb (ep =? 0) then (ep, None) else
  let '(en, nn, ni, pos3) := rd2 (negb (N.land flags cfheadNEXT_CABINET =? 0)) pos2 in
  if negb (en =? 0) then (en, None) else
  let '(ef, folders, pos4) := read_folders (N.to_nat nfold) file pos3 offset fres [] in
  if negb (ef =? 0) then (ef, None) else
  let '(ex, folders', files) := read_files (N.to_nat nfiles) file pos4 salvage nfold folders [] in
  if negb (ex =? 0) then (ex, None) else
  match files with
  | [] => (MSPACK_ERR_DATAFORMAT, None)
  | _ => (MSPACK_ERR_OK, Some (mkCab offset (le32 b cfhead_CabinetSize) (le16 b cfhead_SetID) (le16 b cfhead_CabinetIndex) flags hres bres pn pi nn ni folders' files))
  end.

Definition cab_open (file : list N) (salvage : bool) : N * option cabinet := read_headers file 0 salvage.

(* ---------- extraction ---------- *)
Record params := mkPar { p_salvage : bool; p_fixmszip : bool; p_bufsize : N }.

(* what cabd_sys_read / cabd_sys_write keep in struct mscabd_decompress_state (one cabinet: the file is fixed) *)
Record chost := mkH { h_pos : Z; h_open : bool; h_ibuf : list N; h_block : N; h_outlen : N; h_rerr : N;
                      h_off : N; h_writing : bool; h_out : list N; h_hint : N }.

Section Host.
Variable file : list N.
Variable par : params.
Variable bres : N.            (* cab->block_resv *)
Variable comp : N.            (* d->comp_type *)
Variable nblocks : N.         (* folder->num_blocks *)
Definition ctype : N := N.land comp cffoldCOMPTYPE_MASK.
Definition ignore_cksum : bool := p_salvage par || (p_fixmszip par && (ctype =? cffoldCOMPTYPE_MSZIP)).

(* cabd_sys_read_block: (error, uncompressed size announced, host).  parts: bytes of earlier parts of a split block *)
Definition read_block (h : chost) (parts : list N) : N * N * chost :=
    let hdr := rdn file (h_pos h) cfdata_SIZEOF in
    if negb (len hdr =? cfdata_SIZEOF) then (MSPACK_ERR_READ, 0, h) else
    let pos1 := (h_pos h + Z.of_N cfdata_SIZEOF + Z.of_N bres)%Z in
    let ln := le16 hdr cfdata_CompressedSize in let un := le16 hdr cfdata_UncompressedSize in
    let full := len parts + ln in
    let hb := mkH pos1 (h_open h) parts (h_block h) (h_outlen h) (h_rerr h) (h_off h) (h_writing h) (h_out h) (h_hint h) in
    if (CAB_INPUTMAX <? full) && (negb (p_salvage par) || (CAB_INPUTMAX_SALVAGE <? full)) then (MSPACK_ERR_DATAFORMAT, 0, hb) else
    if (CAB_BLOCKMAX <? un) && negb (p_salvage par) then (MSPACK_ERR_DATAFORMAT, 0, hb) else
    let data := rdn file pos1 ln in
    if negb (len data =? ln) then (MSPACK_ERR_READ, 0, hb) else
    let pos2 := (pos1 + Z.of_N ln)%Z in
    let stored := le32 hdr cfdata_CheckSum in
    if negb (stored =? 0) && negb (Cksum.cksum (sub hdr 4 8) (Cksum.cksum data 0) =? stored) && negb ignore_cksum
    then (MSPACK_ERR_CHECKSUM, 0, mkH pos2 (h_open h) parts (h_block h) (h_outlen h) (h_rerr h) (h_off h) (h_writing h) (h_out h) (h_hint h)) else
    let parts' := parts ++ data in
    let h2 := mkH pos2 (h_open h) parts' (h_block h) (h_outlen h) (h_rerr h) (h_off h) (h_writing h) (h_out h) (h_hint h) in
    if negb (un =? 0) then (MSPACK_ERR_OK, un, h2)
    else (* the block continues in the next cabinet, and there is none: the handle is closed *)
      (MSPACK_ERR_DATAFORMAT, 0, mkH pos2 false parts' (h_block h) (h_outlen h) (h_rerr h) (h_off h) (h_writing h) (h_out h) (h_hint h)).

(* cabd_sys_read(bytes): the bytes delivered, or RErr *)
Fixpoint sys_read (fuel : nat) (todo : N) (acc : list N) (h : chost) : Src.rd * chost :=
  match fuel with O => (RErr, h) | S f =>
    if todo =? 0 then (RBytes acc, h) else
    match h_ibuf h with
    | _ :: _ =>
      let got := firstn (N.to_nat todo) (h_ibuf h) in
      sys_read f (todo - len got) (acc ++ got)
               (mkH (h_pos h) (h_open h) (skipn (N.to_nat todo) (h_ibuf h)) (h_block h) (h_outlen h) (h_rerr h) (h_off h) (h_writing h) (h_out h) (h_hint h))
    | [] =>
      let hb := mkH (h_pos h) (h_open h) [] (h_block h + 1) (h_outlen h) (h_rerr h) (h_off h) (h_writing h) (h_out h) (h_hint h) in
      if nblocks <=? h_block h then
        (RBytes acc, if p_salvage par then hb
                     else mkH (h_pos h) (h_open h) [] (h_block h + 1) (h_outlen h) MSPACK_ERR_DATAFORMAT (h_off h) (h_writing h) (h_out h) (h_hint h))
      else
        let '(e, un, h1) := read_block hb [] in
        if negb (e =? 0) then (RErr, mkH (h_pos h1) (h_open h1) (h_ibuf h1) (h_block h1) (h_outlen h1) e (h_off h1) (h_writing h1) (h_out h1) (h_hint h1)) else
        let outlen := h_outlen h1 + un in
        let ibuf := if ctype =? cffoldCOMPTYPE_QUANTUM then h_ibuf h1 ++ [255] else h_ibuf h1 in
        let hint := if (nblocks <=? h_block h1) && (ctype =? cffoldCOMPTYPE_LZX) && (0 <? outlen) then outlen else h_hint h1 in
        sys_read f todo acc (mkH (h_pos h1) (h_open h1) ibuf (h_block h1) outlen 0 (h_off h1) (h_writing h1) (h_out h1) hint)
    end
  end.

Definition hans (h : chost) (c : hcall) : hanswer c * chost :=
  match c return hanswer c * chost with
  | HRead n => sys_read (S (2 * N.to_nat nblocks + 4)) n [] h
  | HWrite d => (Z.of_N (len d),
                 mkH (h_pos h) (h_open h) (h_ibuf h) (h_block h) (h_outlen h) (h_rerr h) (h_off h + len d) (h_writing h)
                     (if h_writing h then rev_append d (h_out h) else h_out h) (h_hint h))
  | HHint => (h_hint h, h)
  end.
Fixpoint cexec {A} (h : chost) (p : prog A) : A * chost :=
  match p with Ret a => (a, h) | Do c k => let '(a, h') := hans h c in cexec h' (k a) end.

(* noned_decompress: (status, host) *)
Fixpoint noned (fuel : nat) (bytes : N) (h : chost) : N * chost :=
  match fuel with O => (99, h) | S f =>
    if bytes =? 0 then (MSPACK_ERR_OK, h) else
    let run := N.min bytes (p_bufsize par) in
    match hans h (HRead run) with
    | (RErr, h1) => (MSPACK_ERR_READ, h1)
    | (RBytes l, h1) =>
      if negb (len l =? run) then (MSPACK_ERR_READ, h1) else
      let '(_, h2) := hans h1 (HWrite l) in noned f (bytes - run) h2
    end
  end.
End Host.

Inductive cdec := DNoned (err : N) | DZip (z : Mszip.zstream) | DQtm (q : Qtm.qst) | DLzx (l : Lzx.lst).
(* self->d: folder being decoded, decoder, the decoder's input buffer, the block reader *)
Record cstate := mkCS { cs_folder : option N; cs_dec : option cdec; cs_bst : bst; cs_host : chost }.
Definition cs_init : cstate := mkCS None None {| bbuf := []; bend := false |} (mkH 0 false [] 0 0 0 0 false [] 0).

Section Extract.
Variable file : list N.
Variable par : params.
Variable cab : cabinet.

Definition bufsize_even : N := (p_bufsize par + 1) / 2 * 2.

(* one decompress(state, n) call of whichever decoder the folder uses: (status, decoder, input buffer, host) *)
Definition dec_call (fo : cfolder) (d : cdec) (b : bst) (h : chost) (n : N) : N * cdec * bst * chost :=
  let comp := fo_comp fo in let nb := fo_nblocks fo in
  match d with
  | DNoned err =>
    if negb (err =? 0) then (err, d, b, h) else
    let '(e, h') := noned file par (c_bres cab) comp nb (S (N.to_nat (n / N.max (p_bufsize par) 1)) + 1) n h in (e, DNoned e, b, h')
  | DZip z =>
    match cexec file par (c_bres cab) comp nb h (buffered bufsize_even EofPad2 (Mszip.zcall n z) b) with
    | ((SVal (e, failed, z'), b'), h') => ((if failed && p_fixmszip par then UNMODELLED else e), DZip z', b', h')
    | ((SStop e, b'), h') => ((if p_fixmszip par then UNMODELLED else e), DZip (Mszip.mkZS (Mszip.zs z) 0 0 e), b', h')   (* repair mode flushes the partly inflated frame before returning a read error *)
    end
  | DQtm q =>
    match cexec file par (c_bres cab) comp nb h (buffered bufsize_even EofPad2 (Qtm.decompress n q) b) with
    | ((SVal (inl e), b'), h') => (e, DQtm (Qtm.set_err q e), b', h')
    | ((SVal (inr (_, q')), b'), h') => (0, DQtm q', b', h')
    | ((SStop e, b'), h') => (e, DQtm (Qtm.set_err q e), b', h')
    end
  | DLzx l =>
    match cexec file par (c_bres cab) comp nb h (buffered bufsize_even EofPad2 (Lzx.decompress n l) b) with
    | ((SVal (inl e), b'), h') => (e, DLzx (Lzx.set_err l e), b', h')
    | ((SVal (inr (_, l')), b'), h') => (0, DLzx l', b', h')
    | ((SStop e, b'), h') => (e, DLzx (Lzx.set_err l e), b', h')
    end
  end.

(* cabd_init_decomp *)
Definition init_decomp (comp : N) : N + cdec :=
  let ct := N.land comp cffoldCOMPTYPE_MASK in
  let wb := N.land (N.shiftr comp 8) 31 in
  if ct =? cffoldCOMPTYPE_NONE then inr (DNoned 0)
  else if ct =? cffoldCOMPTYPE_MSZIP then inr (DZip Mszip.zinit)
  else if ct =? cffoldCOMPTYPE_QUANTUM then (if (10 <=? wb) && (wb <=? 21) then inr (DQtm (Qtm.qtm_init wb)) else inl MSPACK_ERR_NOMEMORY)
  else if ct =? cffoldCOMPTYPE_LZX then (if (15 <=? wb) && (wb <=? 21) then inr (DLzx (Lzx.lzx_init wb 0 false [])) else inl MSPACK_ERR_NOMEMORY)
  else inl MSPACK_ERR_DATAFORMAT.

Definition with_writing (h : chost) (w : bool) : chost :=
  mkH (h_pos h) (h_open h) (h_ibuf h) (h_block h) (h_outlen h) (h_rerr h) (h_off h) w (h_out h) (h_hint h).
Definition clear_out (h : chost) : chost :=
  mkH (h_pos h) (h_open h) (h_ibuf h) (h_block h) (h_outlen h) (h_rerr h) (h_off h) (h_writing h) [] (h_hint h).

(* cabd_extract of file entry f: (status, bytes written to the output file, state) *)
Definition extract (st : cstate) (f : cfile) : N * list N * cstate :=
  if CAB_LENGTHMAX <? fi_off f then (MSPACK_ERR_DATAFORMAT, [], st) else
  let too_long := CAB_LENGTHMAX - fi_off f <? fi_len f in
  if too_long && negb (p_salvage par) then (MSPACK_ERR_DATAFORMAT, [], st) else
  let filelen := if too_long then CAB_LENGTHMAX - fi_off f else fi_len f in
  match nth_error (c_folders cab) (N.to_nat (fi_folder f)) with
  | None => (MSPACK_ERR_DECRUNCH, [], st)
  | Some fo =>
    if fo_mprev fo then (MSPACK_ERR_DECRUNCH, [], st) else
    let maxlen := (fo_nblocks fo * CAB_BLOCKMAX) mod M32 in
    if negb (p_salvage par) && ((maxlen <? fi_off f) || (maxlen - fi_off f <? filelen)) then (MSPACK_ERR_DECRUNCH, [], st) else
    let reinit := negb (match cs_folder st with Some k => k =? fi_folder f | None => false end)
                  || (fi_off f <? h_off (cs_host st)) || (match cs_dec st with None => true | Some _ => false end) in
    let st1 : N * cstate :=
      if reinit then
        match init_decomp (fo_comp fo) with
        | inl e => (e, mkCS (cs_folder st) None (cs_bst st)
                            (mkH (fo_offset fo) true (h_ibuf (cs_host st)) (h_block (cs_host st)) (h_outlen (cs_host st)) (h_rerr (cs_host st)) (h_off (cs_host st)) false [] (h_hint (cs_host st))))
        | inr d => (0, mkCS (Some (fi_folder f)) (Some d) {| bbuf := []; bend := false |} (mkH (fo_offset fo) true [] 0 0 0 0 false [] 0))
        end
      else (0, st) in
    let '(e0, s1) := st1 in
    if negb (e0 =? 0) then (e0, [], s1) else
    match cs_dec s1 with
    | None => (UNMODELLED, [], s1)
    | Some d =>
      if filelen =? 0 then (MSPACK_ERR_OK, [], s1) else
      let h0 := clear_out (with_writing (cs_host s1) false) in
      let skip := fi_off f - h_off h0 in
      let '(e1, d1, b1, h1) := if skip =? 0 then (0, d, cs_bst s1, h0) else dec_call fo d (cs_bst s1) h0 skip in
      let err1 := if e1 =? MSPACK_ERR_READ then h_rerr h1 else e1 in
      if negb (err1 =? 0) then (err1, [], mkCS (cs_folder s1) (Some d1) b1 (with_writing h1 false)) else
      let '(e2, d2, b2, h2) := dec_call fo d1 b1 (with_writing h1 true) filelen in
      let err2 := if e2 =? MSPACK_ERR_READ then h_rerr h2 else e2 in
      (err2, rev_append (h_out h2) [], mkCS (cs_folder s1) (Some d2) b2 (clear_out (with_writing h2 false)))
    end
  end.
End Extract.

(* a session on one cabinet file: open, then extract the listed members in the given order *)
Fixpoint run_extracts (file : list N) (par : params) (cab : cabinet) (ops : list N) (st : cstate) (acc : list (option (N * list N))) : list (option (N * list N)) :=
  match ops with
  | [] => rev acc
  | idx :: rest =>
    match nth_error (c_files cab) (N.to_nat idx) with
    | None => run_extracts file par cab rest st (None :: acc)
    | Some f => let '(e, out, st') := extract file par cab st f in run_extracts file par cab rest st' (Some (e, out) :: acc)
    end
  end.
Definition cab_session (file : list N) (salvage fixmszip : bool) (bufsize : N) (ops : list N) : N * option cabinet * list (option (N * list N)) :=
  match cab_open file salvage with
  | (e, None) => (e, None, [])
  | (e, Some cab) => (e, Some cab, run_extracts file (mkPar salvage fixmszip bufsize) cab ops cs_init [])
  end.
