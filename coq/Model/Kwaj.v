(* Executable model of kwajd.c on the bytes of a KWAJ file: kwajd_read_headers (all optional header fields, file name and
   extension) and kwajd_extract for the methods NONE, XOR, SZDD (the LZSS decoder of Model/Lzss.v) and MSZIP (Model/Mszip.v).
   Method LZH: Model/Lzh.v. *)
From Coq Require Import List NArith ZArith Bool.
Import ListNotations.
From MSP Require Import Gen.Consts Gen.Tables Model.Chm.
From MSP Require Model.Lzss Model.Mszip Model.Cab Model.Lzh.
Local Open Scope N_scope.

Definition UNMODELLED : N := 98.
Record khdr := mkK { k_comp : N; k_dataoff : N; k_headers : N; k_length : N; k_name : option (list N); k_extra : option (list N) }.

Definition rdk (file : list N) (pos n : N) : list N := sub file pos (pos + n).
Definition index0 := Cab.index0.
Definition has (flags bit : N) : bool := negb (N.land flags bit =? 0).

(* one of the two name parts: up to maxlen bytes of a NUL-terminated string.  (error, characters appended, position afterwards) *)
Definition read_part (file : list N) (pos maxlen : N) : N * list N * N :=
  let buf := rdk file pos maxlen in
  if len buf <? 2 then (MSPACK_ERR_READ, [], pos) else
  match index0 buf 0 with
  | Some i => (MSPACK_ERR_OK, firstn (N.to_nat i) buf, pos + i + 1)
  | None => if len buf =? maxlen then (MSPACK_ERR_DATAFORMAT, [], pos)
            else (MSPACK_ERR_OK, firstn (N.to_nat (len buf - 1)) buf, pos + len buf + 1)     (* the last byte copied is dropped as if it were the terminator *)
  end.

(* the optional header fields, each: (error, value, position afterwards) *)
Definition rd_len (flags : N) (file : list N) (pos : N) : N * N * N :=
  if has flags MSKWAJ_HDR_HASLENGTH then
    let b := rdk file pos 4 in if negb (len b =? 4) then (MSPACK_ERR_READ, 0, pos) else (MSPACK_ERR_OK, le32 b 0, pos + 4)
  else (MSPACK_ERR_OK, 0, pos).
Definition rd_unk1 (flags : N) (file : list N) (pos : N) : N * N :=
  if has flags MSKWAJ_HDR_HASUNKNOWN1 then
    if negb (len (rdk file pos 2) =? 2) then (MSPACK_ERR_READ, pos) else (MSPACK_ERR_OK, pos + 2)
  else (MSPACK_ERR_OK, pos).
Definition rd_unk2 (flags : N) (file : list N) (pos : N) : N * N :=
  if has flags MSKWAJ_HDR_HASUNKNOWN2 then
    let b := rdk file pos 2 in if negb (len b =? 2) then (MSPACK_ERR_READ, pos) else (MSPACK_ERR_OK, pos + 2 + le16 b 0)
  else (MSPACK_ERR_OK, pos).
Definition rd_names (flags : N) (file : list N) (pos : N) : N * option (list N) * N :=
  if has flags MSKWAJ_HDR_HASFILENAME || has flags MSKWAJ_HDR_HASFILEEXT then
    let '(e1, n1, p1) := if has flags MSKWAJ_HDR_HASFILENAME then read_part file pos 9 else (0, [], pos) in
    if negb (e1 =? 0) then (e1, None, p1) else
    let '(e2, n2, p2) := if has flags MSKWAJ_HDR_HASFILEEXT then read_part file p1 4 else (0, [], p1) in
    if negb (e2 =? 0) then (e2, None, p2) else
    (0, Some (n1 ++ (if has flags MSKWAJ_HDR_HASFILEEXT then 46 :: n2 else [])), p2)
  else (0, None, pos).
Definition rd_extra (flags : N) (file : list N) (pos : N) : N * option (list N) :=
  if has flags MSKWAJ_HDR_HASEXTRATEXT then
    let b := rdk file pos 2 in
    if negb (len b =? 2) then (MSPACK_ERR_READ, None) else
    let ex := rdk file (pos + 2) (le16 b 0) in
    if negb (len ex =? le16 b 0) then (MSPACK_ERR_READ, None) else (MSPACK_ERR_OK, Some ex)
  else (MSPACK_ERR_OK, None).

Definition kwaj_open (file : list N) : N * option khdr :=
  let b := rdk file 0 kwajh_SIZEOF in
  if negb (len b =? kwajh_SIZEOF) then (MSPACK_ERR_READ, None) else
  if negb ((le32 b kwajh_Signature1 =? 1245796171) && (le32 b kwajh_Signature2 =? 3509055624)) then (MSPACK_ERR_SIGNATURE, None) else
  let comp := le16 b kwajh_CompMethod in let dataoff := le16 b kwajh_DataOffset in let flags := le16 b kwajh_Flags in
  let '(e1, length, pos1) := rd_len flags file kwajh_SIZEOF in
  if negb (e1 =? 0) then (e1, None) else
  let '(e2, pos2) := rd_unk1 flags file pos1 in
  if negb (e2 =? 0) then (e2, None) else
  let '(e3, pos3) := rd_unk2 flags file pos2 in
  if negb (e3 =? 0) then (e3, None) else
  let '(e4, name, pos4) := rd_names flags file pos3 in
  if negb (e4 =? 0) then (e4, None) else
  let '(e5, extra) := rd_extra flags file pos4 in
  if negb (e5 =? 0) then (e5, None) else
  (MSPACK_ERR_OK, Some (mkK comp dataoff flags length name extra)).

Definition kwaj_extract (file : list N) (h : khdr) : N * list N :=
  let data := sub file (k_dataoff h) (len file) in
  if (k_comp h =? MSKWAJ_COMP_NONE) then (MSPACK_ERR_OK, data)
  else if (k_comp h =? MSKWAJ_COMP_XOR) then (MSPACK_ERR_OK, map (fun c => N.lxor c 255) data)
  else if (k_comp h =? MSKWAJ_COMP_SZDD) then (MSPACK_ERR_OK, Lzss.lzss_spec LZSS_MODE_QBASIC data)
  else if (k_comp h =? MSKWAJ_COMP_LZH) then Lzh.lzh_decompress data
  else if (k_comp h =? MSKWAJ_COMP_MSZIP) then Mszip.mszip_kwaj data
  else (MSPACK_ERR_DATAFORMAT, []).

Definition kwaj_session (file : list N) : N * option khdr * option (N * list N) :=
  match kwaj_open file with
  | (e, None) => (e, None, None)
  | (e, Some h) => (e, Some h, Some (kwaj_extract file h))
  end.
