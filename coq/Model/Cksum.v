From Coq Require Import List NArith Lia Bool.
Import ListNotations.
Local Open Scope N_scope.

(* ---- faithful model of cabd_checksum (cabd.c) on a byte list ---- *)
Definition le32 (a b c d : N) : N :=
  N.lor (N.lor (N.lor a (N.shiftl b 8)) (N.shiftl c 16)) (N.shiftl d 24).

Fixpoint cksum (data : list N) (ck : N) : N :=
  match data with
  | a :: b :: c :: d :: rest => cksum rest (N.lxor ck (le32 a b c d))
  | [a; b; c] => N.lxor ck (N.lor (N.lor (N.shiftl a 16) (N.shiftl b 8)) c)
  | [a; b]    => N.lxor ck (N.lor (N.shiftl a 8) b)
  | [a]       => N.lxor ck a
  | []        => N.lxor ck 0
  end.

Definition bytes (l : list N) := Forall (fun x => x < 256) l.

(* ---- xor form ---- *)
Definition x4 (a b c d : N) : N :=
  N.lxor (N.lxor (N.lxor a (N.shiftl b 8)) (N.shiftl c 16)) (N.shiftl d 24).

(* ---- the CFDATA block test of cabd_sys_read_block:
   if ((cksum = EndGetI32(&hdr[0]))) { sum2 = cabd_checksum(payload, len, 0);
                                        if (cabd_checksum(&hdr[4], 4, sum2) != cksum) -> MSPACK_ERR_CHECKSUM }
   hdr4 = the four bytes cbytes_lo, cbytes_hi, ubytes_lo, ubytes_hi *)
Definition block_sum (hdr4 payload : list N) : N := cksum hdr4 (cksum payload 0).
Definition block_accepts (stored : N) (hdr4 payload : list N) : bool :=
  (stored =? 0) || (block_sum hdr4 payload =? stored).
