(* Executable model of oabd.c: decompress() of a full OAB file and decompress_incremental() of a patch against a base
   file, with the CRC-32 of crc32.h over the regenerated table.  Files are byte lists read sequentially; no faults. *)
From Coq Require Import List NArith ZArith Bool.
Import ListNotations.
From MSP Require Import Base.Src Gen.Consts Gen.Tables.
From MSP Require Model.Lzx.
Local Open Scope N_scope.

Definition M32 := 4294967296.
Definition len (l : list N) : N := N.of_nat (length l).
Definition nthb (l : list N) (i : N) : N := nth (N.to_nat i) l 0.
Definition le32 (l : list N) (o : N) : N := nthb l o + 256 * (nthb l (o + 1) + 256 * (nthb l (o + 2) + 256 * nthb l (o + 3))).
Definition take (n : N) (l : list N) : list N := firstn (N.to_nat (N.min n (len l))) l.
Definition drop (n : N) (l : list N) : list N := if len l <=? n then [] else skipn (N.to_nat n) l.

(* crc32.h: val = crc32_table[(val ^ *s++) & 0xff] ^ (val >> 8) *)
Definition crc_step (val : N) (b : N) : N := N.lxor (nth (N.to_nat (N.land (N.lxor val b) 255)) crc32_table_gen 0) (N.shiftr val 8).
Definition crc32 (val : N) (d : list N) : N := fold_left crc_step d val.

(* window_bits = 17; while (window_bits < 25 && (1U << window_bits) < size) window_bits++; *)
Fixpoint wbits_loop (fuel : nat) (w size : N) : N :=
  match fuel with O => w | S f => if (w <? 25) && (N.shiftl 1 w <? size) then wbits_loop f (w + 1) size else w end.
Definition window_bits (size : N) : N := wbits_loop 8 17 size.

Section Blocks.
(* the LZX DELTA decoder on one block: window bits, block output size, reference data, the bytes it may read -> (status, output written) *)
Variable lzx : N -> N -> list N -> list N -> N * list N.
Variable buf_size : N.

(* copy_fh(sys, infh, outfh, n): (status, bytes written, rest of input); a short read loses the incomplete run *)
Definition copy_out (n : N) (inp : list N) : N * list N * list N :=
  if n <=? len inp then (MSPACK_ERR_OK, take n inp, drop n inp)
  else (MSPACK_ERR_READ, take (len inp / buf_size * buf_size) inp, []).

(* the block loop of oabd_decompress: (status, output) *)
Fixpoint full_blocks (fuel : nat) (inp : list N) (block_max target : N) (out : list N) : N * list N :=
  match fuel with O => (99, out) | S f =>
    if target =? 0 then (MSPACK_ERR_OK, out) else
    if len inp <? oabblk_SIZEOF then (MSPACK_ERR_READ, out) else
    let flags := le32 inp oabblk_Flags in let csize := le32 inp oabblk_CompSize in
    let dsize := le32 inp oabblk_UncompSize in let crc := le32 inp oabblk_CRC in
    let rest := drop oabblk_SIZEOF inp in
    if (block_max <? dsize) || (target <? dsize) || (1 <? flags) then (MSPACK_ERR_DATAFORMAT, out) else
    if flags =? 0 then
      if negb (dsize =? csize) then (MSPACK_ERR_DATAFORMAT, out) else
      let '(e, d, rest') := copy_out dsize rest in
      if negb (e =? 0) then (e, out ++ d) else full_blocks f rest' block_max (target - dsize) (out ++ d)
    else
      let '(e, d) := lzx (window_bits dsize) dsize [] (take csize rest) in
      if negb (e =? 0) then (e, out ++ d) else
      if len rest <? csize then (MSPACK_ERR_READ, out ++ d) else
      if negb (crc32 4294967295 d =? crc) then (MSPACK_ERR_CHECKSUM, out ++ d) else
      full_blocks f (drop csize rest) block_max (target - dsize) (out ++ d)
  end.

Definition oab_decompress (inp : list N) : N * list N :=
  if len inp <? oabhead_SIZEOF then (MSPACK_ERR_READ, []) else
  if negb ((le32 inp oabhead_VersionHi =? 3) && (le32 inp oabhead_VersionLo =? 1)) then (MSPACK_ERR_SIGNATURE, []) else
  full_blocks (S (N.to_nat (len inp / oabblk_SIZEOF))) (drop oabhead_SIZEOF inp) (le32 inp oabhead_BlockMax) (le32 inp oabhead_TargetSize) [].

(* the block loop of oabd_decompress_incremental; base: what is left of the base file *)
Fixpoint patch_blocks (fuel : nat) (inp base : list N) (block_max target : N) (out : list N) : N * list N :=
  match fuel with O => (99, out) | S f =>
    if target =? 0 then (MSPACK_ERR_OK, out) else
    if len inp <? patchblk_SIZEOF then (MSPACK_ERR_READ, out) else
    let csize := le32 inp patchblk_PatchSize in let dsize := le32 inp patchblk_TargetSize in
    let ssize := le32 inp patchblk_SourceSize in let crc := le32 inp patchblk_CRC in
    let rest := drop patchblk_SIZEOF inp in
    if (block_max <? dsize) || (target <? dsize) || (block_max <? ssize) then (MSPACK_ERR_DATAFORMAT, out) else
    (* window_size = ((ssize + 32767) & ~32767) + dsize, in unsigned 32-bit arithmetic *)
    let wsize := (((ssize + 32767) mod M32) / 32768 * 32768 + dsize) mod M32 in
    let wb := window_bits wsize in
    if N.shiftl 1 wb <? ssize then (MSPACK_ERR_ARGS, out) else          (* lzxd_set_reference_data: length > window_size *)
    if len base <? ssize then (MSPACK_ERR_READ, out) else
    let '(e, d) := lzx wb dsize (take ssize base) (take csize rest) in
    if negb (e =? 0) then (e, out ++ d) else
    if len rest <? csize then (MSPACK_ERR_READ, out ++ d) else
    if negb (crc32 4294967295 d =? crc) then (MSPACK_ERR_CHECKSUM, out ++ d) else
    patch_blocks f (drop csize rest) (drop ssize base) block_max (target - dsize) (out ++ d)
  end.

Definition oab_patch (inp base : list N) : N * list N :=
  if len inp <? patchhead_SIZEOF then (MSPACK_ERR_READ, []) else
  if negb ((le32 inp patchhead_VersionHi =? 3) && (le32 inp patchhead_VersionLo =? 2)) then (MSPACK_ERR_SIGNATURE, []) else
  let bm := le32 inp patchhead_BlockMax in
  patch_blocks (S (N.to_nat (len inp / patchblk_SIZEOF))) (drop patchhead_SIZEOF inp) base (N.max bm patchblk_SIZEOF) (le32 inp patchhead_TargetSize) [].
End Blocks.

(* the LZX port as the block decoder *)
Definition lzx_block (wb dsize : N) (ref inp : list N) : N * list N :=
  let '(sts, out) := Lzx.lzx_run wb 0 dsize true ref inp [dsize] in (hd 0 sts, out).
Definition oab_run (buf_size : N) (inp : list N) : N * list N := oab_decompress lzx_block buf_size inp.
Definition oab_patch_run (inp base : list N) : N * list N := oab_patch lzx_block inp base.
