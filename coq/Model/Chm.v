(* Executable model of chmd.c: header and directory parsing (open / fast_open), fast_find (index descent,
   quick-reference binary search, linear scan, case-insensitive UTF-8 comparison), reset-point selection
   (ControlData / ResetTable / SpanInfo) and extract() for both sections, on the bytes of a CHM file.
   File access is positional reading of an immutable byte list (seek beyond the end is allowed, a negative
   seek fails, a read at the end is short) - the behaviour of the harness's mspack_system without faults. *)
From Coq Require Import List NArith ZArith Bool.
Import ListNotations.
From MSP Require Import Base.Src Gen.Consts Gen.Tables.
From MSP Require Model.Lzx.
Local Open Scope N_scope.

Definition M32 := 4294967296.
Definition M64 := 18446744073709551616.
Definition len (l : list N) : N := N.of_nat (length l).
Definition nthb (l : list N) (i : N) : N := nth (N.to_nat i) l 0.
Definition le16 (l : list N) (o : N) : N := nthb l o + 256 * nthb l (o + 1).
Definition le32 (l : list N) (o : N) : N := le16 l o + 65536 * le16 l (o + 2).
Definition le64 (l : list N) (o : N) : N := le32 l o + M32 * le32 l (o + 4).
Definition be32 (l : list N) (o : N) : N := nthb l (o + 3) + 256 * (nthb l (o + 2) + 256 * (nthb l (o + 1) + 256 * nthb l o)).
Definition s64 (x : N) : Z := if x <? 9223372036854775808 then Z.of_N x else (Z.of_N x - 18446744073709551616)%Z.
Definition s32 (x : N) : Z := let y := x mod M32 in if y <? 2147483648 then Z.of_N y else (Z.of_N y - 4294967296)%Z.
Definition s32z (z : Z) : Z := s32 (Z.to_N (z mod 4294967296)%Z).
(* bytes [a, b) of l (empty when a >= b or a is beyond the end) *)
Definition sub (l : list N) (a b : N) : list N :=
  if (b <=? a) || (len l <=? a) then [] else firstn (N.to_nat (N.min b (len l) - a)) (skipn (N.to_nat a) l).
(* sys->seek(START, pos); sys->read(n): None when the seek fails, else the (possibly short) bytes *)
Definition rd (file : list N) (pos : Z) (n : N) : option (list N) :=
  if (pos <? 0)%Z then None else Some (sub file (Z.to_N pos) (Z.to_N pos + n)).

(* ---------- read_encint on the bytes from p up to end ---------- *)
Fixpoint encint_loop (fuel : nat) (i : N) (l : list N) (res : N) : option (N * list N) :=
  match fuel with
  | O => Some (res, l)            (* ENCINT_MAX_BYTES bytes, all with the continuation bit: the loop ends with i = MAX + 1 and no error *)
  | S f =>
    match l with
    | [] => None
    | c :: r =>
      let res' := N.lor (N.shiftl res 7) (N.land c 127) in
      if N.land c 128 =? 0
      then (if (i + 1 =? ENCINT_MAX_BYTES) && negb (N.land c ENCINT_BAD_LAST_BYTE =? 0) then None else Some (res', r))
      else encint_loop f (i + 1) r res'
    end
  end.
Definition read_encint (l : list N) : option (N * list N) := encint_loop (N.to_nat ENCINT_MAX_BYTES) 0 l 0.

(* ---------- directory entries ---------- *)
Record ent := mkEnt { e_name : list N; e_sec : N; e_off : N; e_len : N }.

Definition is_sys (name : list N) : bool := (nthb name 0 =? 58) && (nthb name 1 =? 58).
Definition keep (name : list N) (sec off ln : N) : bool :=
  negb ((len name <? 2) || (nthb name 0 =? 0) || (nthb name 1 =? 0))
  && negb ((off =? 0) && (ln =? 0) && (last name 0 =? 47))
  && (sec <=? 1).

(* the entry loop of chmd_read_headers on one chunk: entries kept (in order), and how the loop ended:
   0 every entry decoded; 1 a badly encoded ENCINT (sets the function's 'err' flag, which is never cleared); 2 a name running past the chunk *)
Fixpoint parse_entries (n : nat) (l : list N) (acc : list ent) : list ent * N :=
  match n with
  | O => (rev acc, 0)
  | S n' =>
    match read_encint l with
    | None => (rev acc, 1)
    | Some (nl0, l1) =>
      let nl := nl0 mod M32 in
      if len l1 <? nl then (rev acc, 2) else
      let name := firstn (N.to_nat nl) l1 in
      match read_encint (skipn (N.to_nat nl) l1) with
      | None => (rev acc, 1)
      | Some (sec0, l3) =>
        match read_encint l3 with
        | None => (rev acc, 1)
        | Some (off, l4) =>
          match read_encint l4 with
          | None => (rev acc, 1)
          | Some (ln, l5) =>
            let sec := sec0 mod M32 in
            parse_entries n' l5 (if keep name sec off ln then mkEnt name sec off ln :: acc else acc)
          end
        end
      end
    end
  end.

Definition PMGL_SIG := 1279741264.   (* 0x4C474D50 *)
Definition list_chunk (cs : N) (ch : list N) (sticky : bool) : list ent * N :=
  if negb (le32 ch pmgl_Signature =? PMGL_SIG) then ([], 0)
  else let n := le16 ch (cs - 2) in
       if sticky then ([], if n =? 0 then 0 else 1)      (* 'err' still set from an earlier chunk: the first read_encint "fails" *)
       else parse_entries (N.to_nat n) (sub ch pmgl_Entries (cs - 2)) [].

Record hdr := mkHdr {
  h_version : N; h_timestamp : N; h_language : N; h_length : Z; h_dir_offset : Z;
  h_num_chunks : N; h_chunk_size : N; h_density : N; h_depth : N; h_index_root : N; h_first_pmgl : N; h_last_pmgl : N;
  h_sec0_offset : Z }.

(* the chunk-reading loop: chunks first..last read sequentially from pos; a short read is ERR_READ *)
Fixpoint list_chunks (n : nat) (file : list N) (pos : Z) (cs : N) (files sysf : list ent) (errors sticky : bool)
  : N * list ent * list ent * bool :=
  match n with
  | O => (MSPACK_ERR_OK, files, sysf, errors)
  | S n' =>
    match rd file pos cs with
    | None => (MSPACK_ERR_READ, files, sysf, errors)
    | Some ch =>
      if negb (len ch =? cs) then (MSPACK_ERR_READ, files, sysf, errors) else
      let '(es, st) := list_chunk cs ch sticky in
      let fs := filter (fun e => negb (is_sys (e_name e))) es in
      let ss := filter (fun e => is_sys (e_name e)) es in
      list_chunks n' file (pos + Z.of_N cs)%Z cs (files ++ fs) (rev_append ss sysf) (errors || negb (st =? 0)) (sticky || (st =? 1))
    end
  end.

Definition ITSF_SIG := 1179866185.   (* 0x46535449 *)

(* the part of chmd_read_headers every open performs: the three fixed headers and their sanity checks *)
Definition read_hdr (file : list N) : N * option hdr :=
  let b0 := sub file 0 chmhead_SIZEOF in
  if negb (len b0 =? chmhead_SIZEOF) then (MSPACK_ERR_READ, None) else
  if negb (le32 b0 0 =? ITSF_SIG) then (MSPACK_ERR_SIGNATURE, None) else
  if negb (forallb (fun p => fst p =? snd p) (combine (sub b0 24 56) chm_guids)) then (MSPACK_ERR_SIGNATURE, None) else
  let b1 := sub file chmhead_SIZEOF (chmhead_SIZEOF + chmhst3_SIZEOF) in
  if negb (len b1 =? chmhst3_SIZEOF) then (MSPACK_ERR_READ, None) else
  let offset_hs0 := s64 (le64 b1 0) in
  let dir_off0 := s64 (le64 b1 16) in
  let sec0_v3 := s64 (le64 b1 32) in
  match rd file offset_hs0 chmhs0_SIZEOF with
  | None => (MSPACK_ERR_SEEK, None)
  | Some b2 =>
    if negb (len b2 =? chmhs0_SIZEOF) then (MSPACK_ERR_READ, None) else
    let length := s64 (le64 b2 8) in
    match rd file dir_off0 chmhs1_SIZEOF with
    | None => (MSPACK_ERR_SEEK, None)
    | Some b3 =>
      if negb (len b3 =? chmhs1_SIZEOF) then (MSPACK_ERR_READ, None) else
      let dir_offset := (dir_off0 + Z.of_N chmhs1_SIZEOF)%Z in
      let cs := le32 b3 16 in let dens := le32 b3 20 in let depth := le32 b3 24 in let root := le32 b3 28 in
      let first := le32 b3 32 in let last := le32 b3 36 in let nc := le32 b3 44 in
      let version := le32 b0 4 in
      let sec0 := if version <? 3 then (dir_offset + Z.of_N ((cs * nc) mod M32))%Z else sec0_v3 in
      let h := mkHdr version (be32 b0 16) (le32 b0 20) length dir_offset nc cs dens depth root first last sec0 in
      if (length <? sec0)%Z then (MSPACK_ERR_DATAFORMAT, None) else
      if cs <? pmgl_Entries + 2 then (MSPACK_ERR_DATAFORMAT, None) else
      if nc =? 0 then (MSPACK_ERR_DATAFORMAT, None) else
      if 100000 <? nc then (MSPACK_ERR_DATAFORMAT, None) else
      if 8192 <? cs then (MSPACK_ERR_DATAFORMAT, None) else
      if (length <? Z.of_N (cs * nc))%Z then (MSPACK_ERR_DATAFORMAT, None) else
      if last <? first then (MSPACK_ERR_DATAFORMAT, None) else
      if negb (root =? 4294967295) && (nc <=? root) then (MSPACK_ERR_DATAFORMAT, None) else
      (MSPACK_ERR_OK, Some h)
    end
  end.

(* chmd_read_headers: (error, header, files, sysfiles) *)
Definition read_headers (file : list N) (entire : bool) : N * option hdr * list ent * list ent :=
  match read_hdr file with
  | (e, None) => (e, None, [], [])
  | (e, Some h) =>
    if negb entire then (MSPACK_ERR_OK, Some h, [], []) else
    let cs := h_chunk_size h in
    let pos := (h_dir_offset h + Z.of_N (h_first_pmgl h * cs))%Z in
    let n := (h_last_pmgl h - h_first_pmgl h + 1) mod M32 in
    (* more chunks than the file could hold: the loop ends in a short read long before; bound the fuel by the file *)
    let n' := N.min n (len file / cs + 2) in
    let '(e, files, sysf, errors) := list_chunks (N.to_nat n') file pos cs [] [] false false in
    if negb (e =? 0) then (e, Some h, files, sysf)
    else ((if errors then MSPACK_ERR_DATAFORMAT else MSPACK_ERR_OK), Some h, files, sysf)
  end.

(* chmd_real_open: partial listings are returned (error cleared) when the only problem was a badly encoded entry *)
Definition chm_open (file : list N) (entire : bool) : N * option (hdr * list ent * list ent) :=
  match read_headers file entire with
  | (e, Some h, files, sysf) =>
      if e =? 0 then (0, Some (h, files, sysf))
      else if (e =? MSPACK_ERR_DATAFORMAT) && negb (match files, sysf with [], [] => true | _, _ => false end) then (0, Some (h, files, sysf))
      else (e, None)
  | (e, None, _, _) => (e, None)
  end.

(* ---------- compare(): case-insensitive comparison of two UTF-8 strings ---------- *)
Section Cmp.
Variable lower : N -> N.        (* TOLOWER() *)
(* GET_UTF8_CHAR: (code point, rest) *)
Definition get_utf8 (x : N) (r : list N) : N * list N :=
  if x <? 128 then (x, r) else
  match r with
  | a :: r1 =>
    if (194 <=? x) && (x <? 224) then (N.lor (N.shiftl (N.land x 31) 6) (N.land a 63), r1) else
    match r1 with
    | b :: r2 =>
      if (224 <=? x) && (x <? 240) then (N.lor (N.lor (N.shiftl (N.land x 15) 12) (N.shiftl (N.land a 63) 6)) (N.land b 63), r2) else
      match r2 with
      | c :: r3 =>
        if (240 <=? x) && (x <=? 245) then
          let v := N.lor (N.lor (N.lor (N.shiftl (N.land x 7) 18) (N.shiftl (N.land a 63) 12)) (N.shiftl (N.land b 63) 6)) (N.land c 63) in
          ((if 1114111 <? v then 65533 else v), r3)
        else (65533, r)
      | [] => (65533, r)
      end
    | [] => (65533, r)
    end
  | [] => (65533, r)
  end.
Fixpoint cmp_loop (fuel : nat) (s1 s2 : list N) : option Z :=
  match fuel with O => None | S f =>
    match s1, s2 with
    | x1 :: r1, x2 :: r2 =>
      let '(c1, t1) := get_utf8 x1 r1 in
      let '(c2, t2) := get_utf8 x2 r2 in
      if c1 =? c2 then cmp_loop f t1 t2 else
      let d1 := lower c1 in let d2 := lower c2 in
      if d1 =? d2 then cmp_loop f t1 t2 else Some (Z.of_N d1 - Z.of_N d2)%Z
    | _, _ => None
    end
  end.
Definition compare (s1 s2 : list N) : Z :=
  match cmp_loop (S (length s1)) s1 s2 with
  | Some d => d
  | None => (Z.of_N (len s1) - Z.of_N (len s2))%Z
  end.

(* ---------- search_chunk ---------- *)
(* name at the head of an entry: (compare result, bytes after the name) or None for a bad ENCINT / name running past end *)
Definition entry_cmp (fname : list N) (l : list N) : option (Z * list N) :=
  match read_encint l with
  | None => None
  | Some (nl0, l1) =>
    let nl := nl0 mod M32 in
    if len l1 <? nl then None else
    Some (compare fname (firstn (N.to_nat nl) l1), skipn (N.to_nat nl) l1)
  end.
(* while (p < end && ( *p++ & 0x80)) ; *)
Fixpoint skip_encint (l : list N) : list N :=
  match l with [] => [] | c :: r => if N.land c 128 =? 0 then r else skip_encint r end.

Inductive sres := SErr | SNone | SFound (payload : list N).

Fixpoint linear (n : nat) (is_pmgl : bool) (fname : list N) (l : list N) (res : option (list N)) : sres :=
  match n with
  | O => if is_pmgl then SNone else match res with Some p => SFound p | None => SNone end
  | S n' =>
    match entry_cmp fname l with
    | None => SErr
    | Some (c, p) =>
      if (c =? 0)%Z then SFound p
      else if (c <? 0)%Z then (if is_pmgl then SNone else match res with Some p => SFound p | None => SNone end)
      else if is_pmgl then linear n' is_pmgl fname (skip_encint (skip_encint (skip_encint p))) res
      else linear n' is_pmgl fname (skip_encint p) (Some p)
    end
  end.

Inductive bres := BErr | BNotFound | BExact (payload : list N) | BGroup (m : N).
(* the do { } while (L <= R) loop *)
Fixpoint bsearch (fuel : nat) (ch : list N) (eoff start endp : N) (fname : list N) (L R : N) : bres :=
  match fuel with O => BErr | S f =>
    let M := (L + R) / 2 in
    let p := eoff + (if M =? 0 then 0 else le16 ch (start - 2 * M)) in
    match entry_cmp fname (sub ch p endp) with
    | None => BErr
    | Some (c, rest) =>
      if (c =? 0)%Z then BExact rest
      else if (c <? 0)%Z then
        (if M =? 0 then BNotFound else
         if L <=? M - 1 then bsearch f ch eoff start endp fname L (M - 1) else BGroup ((L + (M - 1)) / 2))
      else
        (if M + 1 <=? R then bsearch f ch eoff start endp fname (M + 1) R else BGroup ((M + 1 + R) / 2))
    end
  end.

Definition search_chunk (cs dens : N) (ch : list N) (fname : list N) : sres :=
  let is_pmgl := nthb ch 3 =? 76 in
  let eoff := if is_pmgl then pmgl_Entries else pmgi_Entries in
  let qr_size := le32 ch pmgl_QuickRefSize in
  let start := cs - 2 in
  let num_entries := le16 ch start in
  if 31 <? dens then SErr else
  let qd := 1 + N.shiftl 1 dens in
  let qr_entries := (num_entries + qd - 1) / qd in
  if num_entries =? 0 then SErr else
  if cs <? qr_size then SErr else
  let endp := cs - qr_size in
  let qr_entries := if (Z.of_N qr_size - 2 <? 2 * Z.of_N qr_entries)%Z then 0 else qr_entries in
  if 0 <? qr_entries then
    match bsearch 40 ch eoff start endp fname 0 (qr_entries - 1) with
    | BErr => SErr
    | BNotFound => SNone
    | BExact p => SFound p
    | BGroup m =>
      let p := eoff + (if m =? 0 then 0 else le16 ch (start - 2 * m)) in
      let n := N.min (num_entries - m * qd) qd in
      linear (N.to_nat n) is_pmgl fname (sub ch p endp) None
    end
  else linear (N.to_nat num_entries) is_pmgl fname (sub ch eoff endp) None.

(* ---------- read_chunk (without the cache) ---------- *)
Definition read_chunk (file : list N) (h : hdr) (n : N) : N + list N :=
  if h_num_chunks h <=? n then inl MSPACK_ERR_DATAFORMAT else
  match rd file (h_dir_offset h + Z.of_N (n * h_chunk_size h))%Z (h_chunk_size h) with
  | None => inl MSPACK_ERR_SEEK
  | Some ch =>
    if negb (len ch =? h_chunk_size h) then inl MSPACK_ERR_READ else
    if (nthb ch 0 =? 80) && (nthb ch 1 =? 77) && (nthb ch 2 =? 71) && ((nthb ch 3 =? 76) || (nthb ch 3 =? 73)) then inr ch
    else inl MSPACK_ERR_SEEK
  end.

(* ---------- chmd_fast_find ---------- *)
Definition found := option (N * N * N).     (* section id, offset, length *)
Definition read_found (p : list N) : N * found :=
  match read_encint p with
  | None => (MSPACK_ERR_DATAFORMAT, None)
  | Some (sec, p1) =>
    match read_encint p1 with
    | None => (MSPACK_ERR_DATAFORMAT, None)
    | Some (off, p2) =>
      match read_encint p2 with
      | None => (MSPACK_ERR_DATAFORMAT, None)
      | Some (ln, _) => (MSPACK_ERR_OK, Some ((if sec mod M32 =? 0 then 0 else 1), off, ln))
      end
    end
  end.

(* descent from the index root *)
Fixpoint descend (fuel : nat) (file : list N) (h : hdr) (fname : list N) (n visited : N) : N * found :=
  match fuel with O => (MSPACK_ERR_DATAFORMAT, None) | S f =>
    if h_num_chunks h <=? visited then (MSPACK_ERR_DATAFORMAT, None) else
    match read_chunk file h n with
    | inl e => (e, None)
    | inr ch =>
      match search_chunk (h_chunk_size h) (h_density h) ch fname with
      | SErr => (MSPACK_ERR_DATAFORMAT, None)
      | SNone => (MSPACK_ERR_OK, None)
      | SFound p =>
        if nthb ch 3 =? 76 then read_found p else
        match read_encint p with
        | None => (MSPACK_ERR_DATAFORMAT, None)
        | Some (n', _) => descend f file h fname (n' mod M32) (visited + 1)
        end
      end
    end
  end.

(* PMGL chain walk: result is the outcome of the last search (initially "error") *)
Fixpoint walk (fuel : nat) (file : list N) (h : hdr) (fname : list N) (n visited : N) (last_err : bool) : N * found :=
  let finish (err : N) := if last_err then (MSPACK_ERR_DATAFORMAT, None) else (err, None) in
  match fuel with O => finish MSPACK_ERR_DATAFORMAT | S f =>
    if h_last_pmgl h <? n then finish MSPACK_ERR_OK else
    if h_num_chunks h <=? visited then finish MSPACK_ERR_DATAFORMAT else
    match read_chunk file h n with
    | inl e => finish e
    | inr ch =>
      match search_chunk (h_chunk_size h) (h_density h) ch fname with
      | SFound p => read_found p
      | SErr => if n =? le32 ch pmgl_NextChunk then (MSPACK_ERR_DATAFORMAT, None) else walk f file h fname (le32 ch pmgl_NextChunk) (visited + 1) true
      | SNone => if n =? le32 ch pmgl_NextChunk then (MSPACK_ERR_OK, None) else walk f file h fname (le32 ch pmgl_NextChunk) (visited + 1) false
      end
    end
  end.

(* the name is a C string *)
Fixpoint cstr (l : list N) : list N := match l with [] => [] | c :: r => if c =? 0 then [] else c :: cstr r end.

Definition fast_find (file : list N) (h : hdr) (name : list N) : N * found :=
  let fname := cstr name in
  let fuel := S (N.to_nat (h_num_chunks h)) in
  if h_index_root h <? h_num_chunks h then descend fuel file h fname (h_index_root h) 0
  else walk fuel file h fname (h_first_pmgl h) 0 true.

(* ---------- the same with the chunk cache of struct mschmd_header ---------- *)
Definition cache := list (N * list N).          (* chunk number -> chunk bytes, most recently read first *)
Fixpoint cache_get (c : cache) (n : N) : option (list N) :=
  match c with [] => None | (m, b) :: r => if m =? n then Some b else cache_get r n end.
Definition read_chunk_c (file : list N) (h : hdr) (c : cache) (n : N) : (N + list N) * cache :=
  if h_num_chunks h <=? n then (inl MSPACK_ERR_DATAFORMAT, c) else
  match cache_get c n with
  | Some b => (inr b, c)
  | None => match read_chunk file h n with inr b => (inr b, (n, b) :: c) | inl e => (inl e, c) end
  end.

Fixpoint descend_c (fuel : nat) (file : list N) (h : hdr) (fname : list N) (n visited : N) (c : cache) : N * found * cache :=
  match fuel with O => (MSPACK_ERR_DATAFORMAT, None, c) | S f =>
    if h_num_chunks h <=? visited then (MSPACK_ERR_DATAFORMAT, None, c) else
    match read_chunk_c file h c n with
    | (inl e, c1) => (e, None, c1)
    | (inr ch, c1) =>
      match search_chunk (h_chunk_size h) (h_density h) ch fname with
      | SErr => (MSPACK_ERR_DATAFORMAT, None, c1)
      | SNone => (MSPACK_ERR_OK, None, c1)
      | SFound p =>
        if nthb ch 3 =? 76 then (read_found p, c1) else
        match read_encint p with
        | None => (MSPACK_ERR_DATAFORMAT, None, c1)
        | Some (n', _) => descend_c f file h fname (n' mod M32) (visited + 1) c1
        end
      end
    end
  end.

Fixpoint walk_c (fuel : nat) (file : list N) (h : hdr) (fname : list N) (n visited : N) (last_err : bool) (c : cache) : N * found * cache :=
  let finish (err : N) (c : cache) := if last_err then (MSPACK_ERR_DATAFORMAT, None, c) else (err, None, c) in
  match fuel with O => finish MSPACK_ERR_DATAFORMAT c | S f =>
    if h_last_pmgl h <? n then finish MSPACK_ERR_OK c else
    if h_num_chunks h <=? visited then finish MSPACK_ERR_DATAFORMAT c else
    match read_chunk_c file h c n with
    | (inl e, c1) => finish e c1
    | (inr ch, c1) =>
      match search_chunk (h_chunk_size h) (h_density h) ch fname with
      | SFound p => (read_found p, c1)
      | SErr => if n =? le32 ch pmgl_NextChunk then (MSPACK_ERR_DATAFORMAT, None, c1) else walk_c f file h fname (le32 ch pmgl_NextChunk) (visited + 1) true c1
      | SNone => if n =? le32 ch pmgl_NextChunk then (MSPACK_ERR_OK, None, c1) else walk_c f file h fname (le32 ch pmgl_NextChunk) (visited + 1) false c1
      end
    end
  end.

Definition fast_find_c (file : list N) (h : hdr) (name : list N) (c : cache) : N * found * cache :=
  let fname := cstr name in
  let fuel := S (N.to_nat (h_num_chunks h)) in
  if h_index_root h <? h_num_chunks h then descend_c fuel file h fname (h_index_root h) 0 c
  else walk_c fuel file h fname (h_first_pmgl h) 0 true c.
End Cmp.

(* ---------- extraction ---------- *)
(* s_extra: entries find_sys_file allocated and linked at the head of chm->sysfiles (newest first) *)
Record sysfiles := mkSys { s_content : option ent; s_control : option ent; s_spaninfo : option ent; s_rtable : option ent; s_extra : list ent }.
Inductive which := WContent | WControl | WSpan | WRt.
Definition sget (w : which) (sy : sysfiles) : option ent :=
  match w with WContent => s_content sy | WControl => s_control sy | WSpan => s_spaninfo sy | WRt => s_rtable sy end.
Definition sset (w : which) (sy : sysfiles) (e : ent) : sysfiles :=
  match w with
  | WContent => mkSys (Some e) (s_control sy) (s_spaninfo sy) (s_rtable sy) (e :: s_extra sy)
  | WControl => mkSys (s_content sy) (Some e) (s_spaninfo sy) (s_rtable sy) (e :: s_extra sy)
  | WSpan => mkSys (s_content sy) (s_control sy) (Some e) (s_rtable sy) (e :: s_extra sy)
  | WRt => mkSys (s_content sy) (s_control sy) (s_spaninfo sy) (Some e) (e :: s_extra sy)
  end.
(* d_hint: the output length lzxd_init was given (lzx->length) *)
Record dstate := mkD { d_lzx : option (Lzx.lst * option ist); d_offset : N; d_length : Z; d_hint : N }.
Record sess := mkS { ss_sys : sysfiles; ss_d : option dstate; ss_cache : cache }.

Definition eqb_list (a b : list N) : bool := (len a =? len b) && forallb (fun p => fst p =? snd p) (combine a b).
(* which entry the listing loop leaves in sec1.content etc.: the last one in directory order *)
Definition last_named (name : list N) (es : list ent) : option ent :=
  fold_left (fun acc e => if eqb_list (e_name e) name then Some e else acc) es None.
Definition sys_of_listing (sysf_in_dir_order : list ent) : sysfiles :=
  mkSys (last_named chm_content_name sysf_in_dir_order) (last_named chm_control_name sysf_in_dir_order)
        (last_named chm_spaninfo_name sysf_in_dir_order) (last_named chm_rtable_name sysf_in_dir_order) [].

Section Ext.
Variable lower : N -> N.
Variable file : list N.
Variable h : hdr.

(* find_sys_file: (return value, sys pointers, entry, self->error afterwards) *)
Definition find_sys (sy : sysfiles) (w : which) (name : list N) (selferr : N) : N * sysfiles * option ent * N :=
  match sget w sy with
  | Some e => (0, sy, Some e, selferr)
  | None =>
    match fast_find lower file h name with
    | (0, Some (sec, off, ln)) => let e := mkEnt name sec off ln in (0, sset w sy e, Some e, 0)
    | (st, _) => (MSPACK_ERR_DATAFORMAT, sy, None, st)
    end
  end.
(* read_sys_file: inl error or the bytes *)
Definition read_sys (e : ent) : N + list N :=
  if negb (e_sec e =? 0) then inl MSPACK_ERR_DATAFORMAT else
  match rd file (h_sec0_offset h + Z.of_N (e_off e))%Z (e_len e) with
  | None => inl MSPACK_ERR_SEEK
  | Some d => if negb (len d =? e_len e) then inl MSPACK_ERR_READ else inr d
  end.

(* read_reset_table: Some (length, offset) on success; threads self->error (a failed read_sys_file leaves its code there) *)
Definition read_reset_table (sy : sysfiles) (entry : N) (selferr : N) : sysfiles * option (Z * Z) * N :=
  match find_sys sy WRt chm_rtable_name selferr with
  | (_, _, None, se) => (sy, None, se)
  | (_, sy', Some rt, se) =>
    if e_len rt <? lzxrt_headerSIZEOF then (sy', None, se) else
    if 1000000 <? e_len rt then (sy', None, se) else
    match read_sys rt with
    | inl e => (sy', None, e)
    | inr data =>
      if negb (le32 data lzxrt_FrameLen =? LZX_FRAME_SIZE) then (sy', None, se) else
      let length := s64 (le64 data lzxrt_UncompLen) in
      let entrysize := le32 data lzxrt_EntrySize in
      let pos := (le32 data lzxrt_TableOffset + entry * entrysize) mod M32 in
      if (entry <? le32 data lzxrt_NumEntries) && (Z.of_N pos <=? Z.of_N (e_len rt) - Z.of_N entrysize)%Z then
        if entrysize =? 4 then (sy', Some (length, Z.of_N (le32 data pos)), se)
        else if entrysize =? 8 then (sy', Some (length, s64 (le64 data pos)), se)
        else (sy', None, se)
      else (sy', None, se)
    end
  end.

(* read_spaninfo: (return value or length, self->error afterwards) *)
Definition read_spaninfo (sy : sysfiles) (selferr : N) : sysfiles * (N + Z) * N :=
  match find_sys sy WSpan chm_spaninfo_name selferr with
  | (_, _, None, se) => (sy, inl MSPACK_ERR_DATAFORMAT, se)
  | (_, sy', Some sp, se) =>
    if negb (e_len sp =? 8) then (sy', inl MSPACK_ERR_DATAFORMAT, se) else
    match read_sys sp with
    | inl e => (sy', inl e, e)
    | inr data =>
      let length := s64 (le64 data 0) in
      if (length <=? 0)%Z then (sy', inl MSPACK_ERR_DATAFORMAT, se) else (sy', inr length, se)
    end
  end.

Definition window_bits_of (ws : Z) : option N :=
  if (ws =? 32768)%Z then Some 15 else if (ws =? 65536)%Z then Some 16 else if (ws =? 131072)%Z then Some 17
  else if (ws =? 262144)%Z then Some 18 else if (ws =? 524288)%Z then Some 19 else if (ws =? 1048576)%Z then Some 20
  else if (ws =? 2097152)%Z then Some 21 else None.

(* C's truncating division and remainder *)
Definition cdiv (a b : Z) : Z := Z.quot a b.
Definition crem (a b : Z) : Z := Z.rem a b.

Definition UNMODELLED : N := 98.     (* arithmetic the model does not follow (negative / wrapped 32-bit frame numbers) *)

(* chmd_init_decomp for a file at uncompressed offset foff: (return value = self->error, sys pointers, decompression state) *)
Definition init_decomp (sy : sysfiles) (foff : N) : N * sysfiles * option dstate :=
  match find_sys sy WContent chm_content_name 0 with
  | (e, _, None, _) => (e, sy, None)
  | (_, sy1, Some content, se0) =>
    match find_sys sy1 WControl chm_control_name se0 with
    | (e, _, None, _) => (e, sy1, None)
    | (_, sy2, Some control, se1) =>
      if negb (e_len control =? lzxcd_SIZEOF) then (MSPACK_ERR_DATAFORMAT, sy2, None) else
      match read_sys control with
      | inl e => (e, sy2, None)
      | inr data =>
        if negb (le32 data lzxcd_Signature =? 1129863756) then (MSPACK_ERR_SIGNATURE, sy2, None) else
        let ver := le32 data lzxcd_Version in
        if negb ((ver =? 1) || (ver =? 2)) then (MSPACK_ERR_DATAFORMAT, sy2, None) else
        let ri := if ver =? 1 then s32 (le32 data lzxcd_ResetInterval) else s32 (le32 data lzxcd_ResetInterval * LZX_FRAME_SIZE) in
        let ws := if ver =? 1 then s32 (le32 data lzxcd_WindowSize) else s32 (le32 data lzxcd_WindowSize * LZX_FRAME_SIZE) in
        match window_bits_of ws with
        | None => (MSPACK_ERR_DATAFORMAT, sy2, None)
        | Some wb =>
          if (ri =? 0)%Z || negb (crem ri 32768 =? 0)%Z then (MSPACK_ERR_DATAFORMAT, sy2, None) else
          if (ri <? 0)%Z || (2147483647 <? cdiv (Z.of_N foff) ri * cdiv ri 32768 * 32768)%Z then (UNMODELLED, sy2, None) else
          let entry := (cdiv (Z.of_N foff) ri * cdiv ri 32768)%Z in
          let '(sy3, rt, se2) := read_reset_table sy2 (Z.to_N entry) se1 in
          let fin (sy4 : sysfiles) (selferr : N) (entry : Z) (length offset : Z) :=
            let doff := (entry * 32768)%Z in
            let rem := (length - doff)%Z in
            if (rem <? 0)%Z then (MSPACK_ERR_NOMEMORY, sy4, None)
            else
              let inoff := (h_sec0_offset h + Z.of_N (e_off content) + offset)%Z in
              let inp := if (inoff <? 0)%Z then None else Some {| irest := sub file (Z.to_N inoff) (len file) ++ pad EofPad2; iout := [] |} in
              (selferr, sy4, Some (mkD (Some (Lzx.lzx_init wb (Z.to_N (cdiv ri 32768)) false [], inp)) (Z.to_N doff) length (Z.to_N rem))) in
          match rt with
          | Some (length, offset) => fin sy3 se2 entry (Z.land (length + ri - 1) (- ri))%Z offset
          | None =>
            match read_spaninfo sy3 se2 with
            | (sy4, inl e, _) => (e, sy4, None)
            | (sy4, inr length, se3) => fin sy4 se3 0%Z length 0%Z
            end
          end
        end
      end
    end
  end.

(* chmd_extract of an entry: (status, bytes written to the output, session) *)
Definition extract (s : sess) (sec off ln : N) : N * list N * sess :=
  if ln =? 0 then (0, [], s) else
  if sec =? 0 then
    match rd file (h_sec0_offset h + Z.of_N off)%Z ln with
    | None => (MSPACK_ERR_SEEK, [], s)
    | Some d => if len d =? ln then (0, d, s) else (MSPACK_ERR_READ, firstn (N.to_nat (len d / 512 * 512)) d, s)
    end
  else
    let need_init := match ss_d s with Some d => match d_lzx d with Some _ => off <? d_offset d | None => true end | None => true end in
    let '(e0, sy, d0) := if need_init then init_decomp (ss_sys s) off else (0, ss_sys s, ss_d s) in
    match d0 with
    | None => (e0, [], mkS sy (match ss_d s with Some d => Some (mkD None (d_offset d) (d_length d) (d_hint d)) | None => None end) (ss_cache s))
    | Some d =>
      if negb (e0 =? 0) then (e0, [], mkS sy (Some d) (ss_cache s)) else
      if (d_length d <? Z.of_N off)%Z then (MSPACK_ERR_DECRUNCH, [], mkS sy (Some d) (ss_cache s)) else
      match d_lzx d with
      | None => (UNMODELLED, [], mkS sy (Some d) (ss_cache s))
      | Some (lz, None) => (MSPACK_ERR_SEEK, [], mkS sy (Some d) (ss_cache s))
      | Some (lz, Some inp) =>
        let skip := off - d_offset d in
        let '(e1, lz1, inp1) := if skip =? 0 then (0, lz, inp) else Lzx.lzx_call (d_hint d) lz inp skip in
        let written1 := len (iout inp1) in
        let inp1' := {| irest := irest inp1; iout := [] |} in
        if negb (e1 =? 0) then (e1, [], mkS sy (Some (mkD None (d_offset d + written1) (d_length d) (d_hint d))) (ss_cache s)) else
        let maxlen := (d_length d - Z.of_N off)%Z in
        let length := if (maxlen <? Z.of_N ln)%Z then Z.to_N (maxlen + 1) else ln in
        let '(e2, lz2, inp2) := Lzx.lzx_call (d_hint d) lz1 inp1' length in
        let out := rev_append (iout inp2) [] in
        let doff := d_offset d + written1 + len out in
        let inp2' := {| irest := irest inp2; iout := [] |} in
        if negb (e2 =? 0) then (e2, out, mkS sy (Some (mkD None doff (d_length d) (d_hint d))) (ss_cache s))
        else (0, out, mkS sy (Some (mkD (Some (lz2, Some inp2')) doff (d_length d) (d_hint d))) (ss_cache s))
      end
    end.
End Ext.

(* ---------- a session: open / fast_open, then a list of operations ---------- *)
Inductive op := OpExtract (idx : N) | OpFind (name : list N) | OpFindExtract (name : list N).
Inductive opres := RExtract (st : N) (out : list N) | RFind (st : N) (r : found) | RNoFile.

Definition lowerA (c : N) : N := if (65 <=? c) && (c <=? 90) then c + 32 else c.

(* OpExtract idx: the idx-th entry of chm->files followed by chm->sysfiles (which find_sys_file may have grown at the head) *)
Fixpoint run_ops (lower : N -> N) (file : list N) (h : hdr) (files sysf : list ent) (ops : list op) (s : sess) (acc : list opres) : list opres :=
  match ops with
  | [] => rev acc
  | OpExtract idx :: rest =>
    match nth_error (files ++ s_extra (ss_sys s) ++ sysf) (N.to_nat idx) with
    | None => run_ops lower file h files sysf rest s (RNoFile :: acc)
    | Some e => let '(st, out, s') := extract lower file h s (e_sec e) (e_off e) (e_len e) in
                run_ops lower file h files sysf rest s' (RExtract st out :: acc)
    end
  | OpFind name :: rest =>
    let '(st, r, c) := fast_find_c lower file h name (ss_cache s) in
    run_ops lower file h files sysf rest (mkS (ss_sys s) (ss_d s) c) (RFind st r :: acc)
  | OpFindExtract name :: rest =>
    match fast_find_c lower file h name (ss_cache s) with
    | (0, Some (sec, off, ln), c) =>
      let '(st, out, s') := extract lower file h (mkS (ss_sys s) (ss_d s) c) sec off ln in
      run_ops lower file h files sysf rest s' (RExtract st out :: RFind 0 (Some (sec, off, ln)) :: acc)
    | (st, r, c) => run_ops lower file h files sysf rest (mkS (ss_sys s) (ss_d s) c) (RFind st r :: acc)
    end
  end.

Definition chm_session (file : list N) (entire : bool) (ops : list op) : N * option (hdr * list ent * list ent) * list opres :=
  match chm_open file entire with
  | (e, None) => (e, None, [])
  | (e, Some (h, files, sysf)) =>
    (e, Some (h, files, sysf), run_ops lowerA file h files sysf ops (mkS (sys_of_listing (rev sysf)) None []) [])
  end.
