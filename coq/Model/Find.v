(* cabd_find: the byte-at-a-time signature automaton (as repaired: a mismatching byte in states 1-3 is looked at again in state 0),
   the candidate it yields, and the search loop around it.  [parse caboff] abstracts cabd_read_headers at that offset. *)
From Coq Require Import List NArith Bool.
Import ListNotations.
From MSP Require Import Model.Progress.
Local Open Scope N_scope.

Record astate := { ast : N; acablen : N; afoffset : N }.
Definition a0 : astate := {| ast := 0; acablen := 0; afoffset := 0 |}.
Definition start (b : N) : N := if b =? 77 then 1 else 0.          (* state 0: look for 'M' *)
Definition step (a : astate) (b : N) : astate :=
  let s := ast a in
  let set n := {| ast := n; acablen := acablen a; afoffset := afoffset a |} in
  if s =? 0 then set (start b)
  else if s =? 1 then set (if b =? 83 then 2 else start b)          (* 'S' *)
  else if s =? 2 then set (if b =? 67 then 3 else start b)          (* 'C' *)
  else if s =? 3 then set (if b =? 70 then 4 else start b)          (* 'F' *)
  else if s =? 8 then {| ast := 9; acablen := b; afoffset := afoffset a |}
  else if s =? 9 then {| ast := 10; acablen := N.lor (acablen a) (N.shiftl b 8); afoffset := afoffset a |}
  else if s =? 10 then {| ast := 11; acablen := N.lor (acablen a) (N.shiftl b 16); afoffset := afoffset a |}
  else if s =? 11 then {| ast := 12; acablen := N.lor (acablen a) (N.shiftl b 24); afoffset := afoffset a |}
  else if s =? 16 then {| ast := 17; acablen := acablen a; afoffset := b |}
  else if s =? 17 then {| ast := 18; acablen := acablen a; afoffset := N.lor (afoffset a) (N.shiftl b 8) |}
  else if s =? 18 then {| ast := 19; acablen := acablen a; afoffset := N.lor (afoffset a) (N.shiftl b 16) |}
  else if s =? 19 then {| ast := 20; acablen := acablen a; afoffset := N.lor (afoffset a) (N.shiftl b 24) |}
  else set (s + 1).

(* scan bytes (the byte at the head of [l] is at file offset [pos]) until 20 header bytes of a candidate have been seen:
   returns (caboff, cablen, foffset), or the automaton state at the end of the data *)
Fixpoint first_cand (l : list N) (pos : N) (a : astate) : (N * N * N) + astate :=
  match l with
  | [] => inr a
  | b :: rest => let a' := step a b in
                 if ast a' =? 20 then inl (pos + 1 - 20, acablen a', afoffset a') else first_cand rest (pos + 1) a'
  end.
(* the same, buffer by buffer, carrying the automaton state across refills (what the C loop does) *)
Fixpoint first_cand_chunks (chunks : list (list N)) (pos : N) (a : astate) : (N * N * N) + astate :=
  match chunks with
  | [] => inr a
  | c :: rest => match first_cand c pos a with
                 | inl r => inl r
                 | inr a' => first_cand_chunks rest (pos + N.of_nat (length c)) a'
                 end
  end.

Section Search.
Variables (bytes : list N) (parse : N -> bool) (salvage : bool).
Definition flen := N.of_nat (length bytes).
Definition plausible (caboff cablen foffset : N) : bool :=
  (foffset <? cablen) && (caboff + foffset <? flen + 32) && ((caboff + cablen <? flen + 32) || salvage).
Fixpoint cab_find (fuel : nat) (off : N) (acc : list N) : option (list N) :=
  match fuel with
  | O => None
  | S f =>
    match first_cand (skipn (N.to_nat off) bytes) off a0 with
    | inr _ => Some (rev' acc)
    | inl (caboff, cablen, foffset) =>
        let pl := plausible caboff cablen foffset in
        let ok := pl && parse caboff in
        let acc' := if ok then caboff :: acc else acc in
        let off' := resume_offset caboff cablen foffset pl (parse caboff) in
        if flen <=? off' then Some (rev' acc') else cab_find f off' acc'
    end
  end.
End Search.
