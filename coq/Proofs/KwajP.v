(* kwajd_read_headers (Model/Kwaj.v) reads back what a KWAJ writer wrote: every combination of the six optional header
   fields, with arbitrary data after the header. *)
From Coq Require Import List NArith ZArith Lia Bool.
Import ListNotations.
From MSP Require Import Gen.Consts Gen.Tables Model.Chm Model.Kwaj Proofs.ChmEnc Proofs.CabP Proofs.CabHdrP.
From MSP Require Model.Cab.
Local Open Scope N_scope.

Lemma rdk_rdn file pos n : rdk file pos n = Cab.rdn file (Z.of_N pos) n.
Proof. unfold rdk, Cab.rdn. rewrite N2Z.id. reflexivity. Qed.
Lemma rdk_prefix (pre s : list N) n : rdk (pre ++ s) (len pre) n = firstn (N.to_nat n) s.
Proof. rewrite rdk_rdn. apply rdn_prefix. Qed.
Lemma rdk_at (pre m t : list N) : rdk (pre ++ m ++ t) (len pre) (len m) = m.
Proof. unfold rdk. apply sub_mid. Qed.

(* what the writer chose *)
Record kspec := mkKS {
  ks_comp : N; ks_dataoff : N; ks_hi : N;                     (* hi: the flag bits above the six known ones *)
  ks_haslen : bool; ks_len : N;
  ks_hasu1 : bool; ks_u1 : list N;
  ks_hasu2 : bool; ks_u2 : list N;
  ks_hasname : bool; ks_name : list N;
  ks_hasext : bool; ks_ext : list N;
  ks_hasextra : bool; ks_extra : list N }.
Definition b2n (b : bool) : N := if b then 1 else 0.
Definition kflags (s : kspec) : N :=
  b2n (ks_haslen s) + 2 * b2n (ks_hasu1 s) + 4 * b2n (ks_hasu2 s) + 8 * b2n (ks_hasname s) + 16 * b2n (ks_hasext s)
  + 32 * b2n (ks_hasextra s) + 64 * ks_hi s.
Definition opt (b : bool) (l : list N) : list N := if b then l else [].
Definition sig8 : list N := [75; 87; 65; 74; 136; 240; 39; 209].
Definition enc_fixed (s : kspec) : list N := sig8 ++ le16b (ks_comp s) ++ le16b (ks_dataoff s) ++ le16b (kflags s).
Definition f_len s := opt (ks_haslen s) (le32b (ks_len s)).
Definition f_u1 s := opt (ks_hasu1 s) (ks_u1 s).
Definition f_u2 s := opt (ks_hasu2 s) (le16b (len (ks_u2 s)) ++ ks_u2 s).
Definition f_name s := opt (ks_hasname s) (ks_name s ++ [0]).
Definition f_ext s := opt (ks_hasext s) (ks_ext s ++ [0]).
Definition f_extra s := opt (ks_hasextra s) (le16b (len (ks_extra s)) ++ ks_extra s).
Definition enc_kwaj (s : kspec) : list N := enc_fixed s ++ f_len s ++ f_u1 s ++ f_u2 s ++ f_name s ++ f_ext s ++ f_extra s.

Definition wf_kspec (s : kspec) (rest : list N) : Prop :=
  ks_comp s < 65536 /\ ks_dataoff s < 65536 /\ ks_hi s < 1024 /\ ks_len s < 4294967296 /\
  len (ks_u1 s) = 2 /\ len (ks_u2 s) < 65536 /\
  nonul (ks_name s) /\ 1 <= len (ks_name s) <= 8 /\
  nonul (ks_ext s) /\ len (ks_ext s) <= 3 /\
  (* the reader refuses a name part with fewer than two bytes left in the file: an empty extension must be followed by something *)
  (ks_hasext s = true -> ks_ext s = [] -> f_extra s ++ rest <> []) /\
  len (ks_extra s) < 65536.

Definition k_name_of (s : kspec) : option (list N) :=
  if ks_hasname s || ks_hasext s then
    Some ((if ks_hasname s then ks_name s else []) ++ (if ks_hasext s then 46 :: ks_ext s else []))
  else None.
Definition khdr_of (s : kspec) : khdr :=
  mkK (ks_comp s) (ks_dataoff s) (kflags s) (if ks_haslen s then ks_len s else 0) (k_name_of s)
      (if ks_hasextra s then Some (ks_extra s) else None).

(* ---------- the flag word ---------- *)
Lemma has_flags (s : kspec) :
  has (kflags s) MSKWAJ_HDR_HASLENGTH = ks_haslen s /\ has (kflags s) MSKWAJ_HDR_HASUNKNOWN1 = ks_hasu1 s /\
  has (kflags s) MSKWAJ_HDR_HASUNKNOWN2 = ks_hasu2 s /\ has (kflags s) MSKWAJ_HDR_HASFILENAME = ks_hasname s /\
  has (kflags s) MSKWAJ_HDR_HASFILEEXT = ks_hasext s /\ has (kflags s) MSKWAJ_HDR_HASEXTRATEXT = ks_hasextra s.
Proof.
  assert (Hb : forall k lo hi, lo < 2 ^ k -> N.testbit (lo + 2 ^ k * hi) k = N.testbit hi 0).
  { intros k lo hi Hlo. rewrite N.testbit_eqb. rewrite (N.mul_comm (2 ^ k)), N.div_add by (apply N.pow_nonzero; lia).
    rewrite N.div_small by exact Hlo. rewrite N.add_0_l. rewrite N.testbit_eqb. rewrite N.pow_0_r, N.div_1_r. reflexivity. }
  assert (Hh : forall f k, has f (2 ^ k) = N.testbit f k).
  { intros f k. unfold has. destruct (N.testbit f k) eqn:T.
    - apply negb_true_iff, N.eqb_neq. intro E. assert (N.testbit (N.land f (2 ^ k)) k = false) by (rewrite E; apply N.bits_0).
      rewrite N.land_spec, T, N.pow2_bits_true in H. discriminate.
    - apply negb_false_iff, N.eqb_eq. apply N.bits_inj. intro j. rewrite N.land_spec, N.bits_0.
      destruct (N.eq_dec j k) as [->|Hj]; [rewrite T; reflexivity|]. rewrite N.pow2_bits_false by (intro; apply Hj; symmetry; assumption). apply andb_false_r. }
  unfold kflags. destruct s as [c d hi b0 l b1 u1 b2 u2 b3 nm b4 ex b5 xt]. cbn [ks_haslen ks_hasu1 ks_hasu2 ks_hasname ks_hasext ks_hasextra ks_hi].
  change MSKWAJ_HDR_HASLENGTH with (2 ^ 0). change MSKWAJ_HDR_HASUNKNOWN1 with (2 ^ 1). change MSKWAJ_HDR_HASUNKNOWN2 with (2 ^ 2).
  change MSKWAJ_HDR_HASFILENAME with (2 ^ 3). change MSKWAJ_HDR_HASFILEEXT with (2 ^ 4). change MSKWAJ_HDR_HASEXTRATEXT with (2 ^ 5).
  rewrite !Hh.
  assert (Hbit : forall b r, N.testbit (b2n b + 2 * r) 0 = b).
  { intros b r. rewrite N.testbit_eqb, N.pow_0_r, N.div_1_r. destruct b; cbn [b2n]; [replace ((1 + 2 * r) mod 2) with 1|replace ((0 + 2 * r) mod 2) with 0]; try reflexivity.
    - rewrite N.mul_comm, N.mod_add by lia. reflexivity.
    - rewrite N.add_0_l, N.mul_comm, N.mod_mul by lia. reflexivity. }
  repeat split.
  - replace (b2n b0 + 2 * b2n b1 + 4 * b2n b2 + 8 * b2n b3 + 16 * b2n b4 + 32 * b2n b5 + 64 * hi) with (b2n b0 + 2 * (b2n b1 + 2 * b2n b2 + 4 * b2n b3 + 8 * b2n b4 + 16 * b2n b5 + 32 * hi)) by lia. apply Hbit.
  - replace (b2n b0 + 2 * b2n b1 + 4 * b2n b2 + 8 * b2n b3 + 16 * b2n b4 + 32 * b2n b5 + 64 * hi) with (b2n b0 + 2 ^ 1 * (b2n b1 + 2 * (b2n b2 + 2 * b2n b3 + 4 * b2n b4 + 8 * b2n b5 + 16 * hi))) by (change (2 ^ 1) with 2; lia).
    rewrite Hb by (destruct b0; cbn; lia). apply Hbit.
  - replace (b2n b0 + 2 * b2n b1 + 4 * b2n b2 + 8 * b2n b3 + 16 * b2n b4 + 32 * b2n b5 + 64 * hi) with ((b2n b0 + 2 * b2n b1) + 2 ^ 2 * (b2n b2 + 2 * (b2n b3 + 2 * b2n b4 + 4 * b2n b5 + 8 * hi))) by (change (2 ^ 2) with 4; lia).
    rewrite Hb by (destruct b0, b1; cbn; lia). apply Hbit.
  - replace (b2n b0 + 2 * b2n b1 + 4 * b2n b2 + 8 * b2n b3 + 16 * b2n b4 + 32 * b2n b5 + 64 * hi) with ((b2n b0 + 2 * b2n b1 + 4 * b2n b2) + 2 ^ 3 * (b2n b3 + 2 * (b2n b4 + 2 * b2n b5 + 4 * hi))) by (change (2 ^ 3) with 8; lia).
    rewrite Hb by (destruct b0, b1, b2; cbn; lia). apply Hbit.
  - replace (b2n b0 + 2 * b2n b1 + 4 * b2n b2 + 8 * b2n b3 + 16 * b2n b4 + 32 * b2n b5 + 64 * hi) with ((b2n b0 + 2 * b2n b1 + 4 * b2n b2 + 8 * b2n b3) + 2 ^ 4 * (b2n b4 + 2 * (b2n b5 + 2 * hi))) by (change (2 ^ 4) with 16; lia).
    rewrite Hb by (destruct b0, b1, b2, b3; cbn; lia). apply Hbit.
  - replace (b2n b0 + 2 * b2n b1 + 4 * b2n b2 + 8 * b2n b3 + 16 * b2n b4 + 32 * b2n b5 + 64 * hi) with ((b2n b0 + 2 * b2n b1 + 4 * b2n b2 + 8 * b2n b3 + 16 * b2n b4) + 2 ^ 5 * (b2n b5 + 2 * hi)) by (change (2 ^ 5) with 32; lia).
    rewrite Hb by (destruct b0, b1, b2, b3, b4; cbn; lia). apply Hbit.
Qed.

(* ---------- one field at a time: file = pre ++ field ++ tail, read at len pre ---------- *)
Lemma rd_len_enc s pre tail :
  rd_len (kflags s) (pre ++ f_len s ++ tail) (len pre) = (MSPACK_ERR_OK, (if ks_haslen s then ks_len s else 0), len (pre ++ f_len s)).
Proof.
  unfold rd_len, f_len, opt. rewrite (proj1 (has_flags s)). destruct (ks_haslen s).
  - cbv zeta. change 4 with (len (le32b (ks_len s))). rewrite !rdk_at, N.eqb_refl. cbn [negb].
    rewrite <- (app_nil_r (le32b (ks_len s))) at 1. rewrite le32_le32b, len_app. reflexivity.
  - rewrite app_nil_r. reflexivity.
Qed.

Lemma rd_unk1_enc s pre tail : len (ks_u1 s) = 2 ->
  rd_unk1 (kflags s) (pre ++ f_u1 s ++ tail) (len pre) = (MSPACK_ERR_OK, len (pre ++ f_u1 s)).
Proof.
  intro H2. unfold rd_unk1, f_u1, opt. rewrite (proj1 (proj2 (has_flags s))). destruct (ks_hasu1 s).
  - rewrite <- H2 at 1. rewrite rdk_at, H2. cbn [N.eqb negb]. change (Pos.eqb _ _) with true. cbn [negb]. rewrite len_app, H2. reflexivity.
  - rewrite app_nil_r. reflexivity.
Qed.

Lemma rd_unk2_enc s pre tail : len (ks_u2 s) < 65536 ->
  rd_unk2 (kflags s) (pre ++ f_u2 s ++ tail) (len pre) = (MSPACK_ERR_OK, len (pre ++ f_u2 s)).
Proof.
  intro H2. unfold rd_unk2, f_u2, opt. rewrite (proj1 (proj2 (proj2 (has_flags s)))). destruct (ks_hasu2 s).
  - cbv zeta. rewrite <- app_assoc. change 2 with (len (le16b (len (ks_u2 s)))). rewrite !rdk_at, N.eqb_refl. cbn [negb].
    rewrite le16_le16b0 by exact H2. rewrite !len_app. f_equal. lia.
  - rewrite app_nil_r. reflexivity.
Qed.

Lemma read_part_enc pre nm tail maxlen : nonul nm -> len nm < maxlen -> 2 <= maxlen -> (nm = [] -> tail <> []) ->
  read_part (pre ++ nm ++ 0 :: tail) (len pre) maxlen = (MSPACK_ERR_OK, nm, len pre + len nm + 1).
Proof.
  intros Hn Hl Hm Hne. unfold read_part. rewrite rdk_prefix.
  set (buf := firstn (N.to_nat maxlen) (nm ++ 0 :: tail)).
  assert (Hidx : index0 buf 0 = Some (len nm)).
  { unfold buf, index0. apply index0_firstn; [rewrite index0_name by exact Hn; f_equal; lia| |lia]. rewrite N.sub_0_r, N2Nat.id. exact Hl. }
  assert (Hlen : len buf <? 2 = false).
  { apply N.ltb_ge. unfold buf, len. rewrite firstn_length, app_length. cbn [length].
    destruct nm as [|c nm']; [|cbn [length]; lia]. destruct tail as [|t tl]; [exfalso; apply (Hne eq_refl); reflexivity|]. cbn [length]. lia. }
  rewrite Hlen, Hidx. f_equal. f_equal.
  unfold buf. rewrite firstn_firstn. replace (Nat.min (N.to_nat (len nm)) (N.to_nat maxlen)) with (N.to_nat (len nm)) by lia. apply firstn_len_app.
Qed.

Lemma len_cons (c : N) l : len (c :: l) = 1 + len l.
Proof. unfold len. cbn [length]. lia. Qed.
Ltac lens := repeat (rewrite len_app || rewrite len_cons); change (len (@nil N)) with 0; lia.

Lemma rd_names_enc s pre tail :
  nonul (ks_name s) -> 1 <= len (ks_name s) <= 8 -> nonul (ks_ext s) -> len (ks_ext s) <= 3 ->
  (ks_hasext s = true -> ks_ext s = [] -> tail <> []) ->
  rd_names (kflags s) (pre ++ f_name s ++ f_ext s ++ tail) (len pre) = (MSPACK_ERR_OK, k_name_of s, len (pre ++ f_name s ++ f_ext s)).
Proof.
  intros Hn Hnl He Hel Hx. unfold rd_names, k_name_of, f_name, f_ext, opt.
  destruct (has_flags s) as (_ & _ & _ & F3 & F4 & _). rewrite F3, F4.
  assert (Hnm : ks_name s <> []) by (intro E; rewrite E in Hnl; unfold len in Hnl; cbn in Hnl; lia).
  change MSPACK_ERR_OK with 0.
  destruct (ks_hasname s); destruct (ks_hasext s); cbn [orb app].
  - rewrite <- !app_assoc. cbn [app]. rewrite read_part_enc; [|exact Hn|lia|lia|intro E; contradiction].
    change MSPACK_ERR_OK with 0. cbn [N.eqb negb].
    replace (len pre + len (ks_name s) + 1) with (len (pre ++ ks_name s ++ [0])) by lens.
    replace (pre ++ ks_name s ++ 0 :: ks_ext s ++ 0 :: tail) with ((pre ++ ks_name s ++ [0]) ++ ks_ext s ++ 0 :: tail) by (rewrite <- !app_assoc; reflexivity).
    rewrite read_part_enc; [|exact He|lia|lia|intro E; apply Hx; [reflexivity|exact E]].
    change MSPACK_ERR_OK with 0. cbn [N.eqb negb]. f_equal. lens.
  - rewrite <- !app_assoc. cbn [app]. rewrite read_part_enc; [|exact Hn|lia|lia|intro E; contradiction].
    change MSPACK_ERR_OK with 0. cbn [N.eqb negb]. rewrite app_nil_r. f_equal. lens.
  - cbn [N.eqb negb]. rewrite <- !app_assoc. cbn [app]. rewrite read_part_enc; [|exact He|lia|lia|intro E; apply Hx; [reflexivity|exact E]].
    change MSPACK_ERR_OK with 0. cbn [N.eqb negb]. f_equal. lens.
  - rewrite app_nil_r. reflexivity.
Qed.

Lemma rd_extra_enc s pre tail : len (ks_extra s) < 65536 ->
  rd_extra (kflags s) (pre ++ f_extra s ++ tail) (len pre) = (MSPACK_ERR_OK, if ks_hasextra s then Some (ks_extra s) else None).
Proof.
  intro H2. unfold rd_extra, f_extra, opt. rewrite (proj2 (proj2 (proj2 (proj2 (proj2 (has_flags s)))))). destruct (ks_hasextra s); [|reflexivity].
  cbv zeta. rewrite <- app_assoc. change 2 with (len (le16b (len (ks_extra s)))). rewrite !rdk_at, N.eqb_refl. cbn [negb].
  rewrite le16_le16b0 by exact H2.
  replace (len pre + len (le16b (len (ks_extra s)))) with (len (pre ++ le16b (len (ks_extra s)))) by apply len_app.
  replace (pre ++ le16b (len (ks_extra s)) ++ ks_extra s ++ tail) with ((pre ++ le16b (len (ks_extra s))) ++ ks_extra s ++ tail) by (rewrite <- app_assoc; reflexivity).
  rewrite rdk_at, N.eqb_refl. reflexivity.
Qed.

(* ---------- the whole header ---------- *)
Lemma fixed_fields s :
  le32 (enc_fixed s) kwajh_Signature1 = 1245796171 /\ le32 (enc_fixed s) kwajh_Signature2 = 3509055624 /\
  le16 (enc_fixed s) kwajh_CompMethod = ks_comp s /\ le16 (enc_fixed s) kwajh_DataOffset = ks_dataoff s /\
  le16 (enc_fixed s) kwajh_Flags = kflags s.
Proof.
  split; [reflexivity|]. split; [reflexivity|]. unfold enc_fixed. repeat split.
  - change kwajh_CompMethod with (len sig8 + 0). rewrite le16_app_r. apply le16_le16b.
  - change kwajh_DataOffset with (len (sig8 ++ le16b (ks_comp s)) + 0).
    replace (sig8 ++ le16b (ks_comp s) ++ le16b (ks_dataoff s) ++ le16b (kflags s)) with ((sig8 ++ le16b (ks_comp s)) ++ le16b (ks_dataoff s) ++ le16b (kflags s)) by (rewrite <- app_assoc; reflexivity).
    rewrite le16_app_r. apply le16_le16b.
  - change kwajh_Flags with (len (sig8 ++ le16b (ks_comp s) ++ le16b (ks_dataoff s)) + 0).
    replace (sig8 ++ le16b (ks_comp s) ++ le16b (ks_dataoff s) ++ le16b (kflags s)) with ((sig8 ++ le16b (ks_comp s) ++ le16b (ks_dataoff s)) ++ le16b (kflags s) ++ []) by (rewrite <- !app_assoc, app_nil_r; reflexivity).
    rewrite le16_app_r. apply le16_le16b.
Qed.

Theorem kwaj_open_enc s rest : wf_kspec s rest -> kwaj_open (enc_kwaj s ++ rest) = (MSPACK_ERR_OK, Some (khdr_of s)).
Proof.
  intros (Hc & Hd & Hhi & Hl & Hu1 & Hu2 & Hn & Hnl & He & Hel & Hx & Hxt).
  unfold kwaj_open, enc_kwaj. rewrite <- !app_assoc.
  set (file := enc_fixed s ++ f_len s ++ f_u1 s ++ f_u2 s ++ f_name s ++ f_ext s ++ f_extra s ++ rest).
  assert (Hb : rdk file 0 kwajh_SIZEOF = enc_fixed s).
  { change 0 with (len (@nil N)). change kwajh_SIZEOF with (len (enc_fixed s)). change file with ([] ++ file). apply rdk_at. }
  rewrite Hb. change (len (enc_fixed s) =? kwajh_SIZEOF) with true. cbn [negb].
  destruct (fixed_fields s) as (S1 & S2 & F1 & F2 & F3). rewrite S1, S2, F1, F2, F3, !N.eqb_refl. cbn [andb negb].
  change kwajh_SIZEOF with (len (enc_fixed s)). unfold file.
  rewrite rd_len_enc. change MSPACK_ERR_OK with 0. cbn [N.eqb negb].
  rewrite (app_assoc (enc_fixed s) (f_len s)). rewrite rd_unk1_enc by exact Hu1. change MSPACK_ERR_OK with 0. cbn [N.eqb negb].
  rewrite (app_assoc (enc_fixed s ++ f_len s) (f_u1 s)). rewrite rd_unk2_enc by exact Hu2. change MSPACK_ERR_OK with 0. cbn [N.eqb negb].
  rewrite (app_assoc ((enc_fixed s ++ f_len s) ++ f_u1 s) (f_u2 s)). rewrite rd_names_enc; [|exact Hn|exact Hnl|exact He|exact Hel|exact Hx].
  change MSPACK_ERR_OK with 0. cbn [N.eqb negb].
  replace ((((enc_fixed s ++ f_len s) ++ f_u1 s) ++ f_u2 s) ++ f_name s ++ f_ext s ++ f_extra s ++ rest)
    with (((((enc_fixed s ++ f_len s) ++ f_u1 s) ++ f_u2 s) ++ f_name s ++ f_ext s) ++ f_extra s ++ rest) by (rewrite <- !app_assoc; reflexivity).
  rewrite rd_extra_enc by exact Hxt. change MSPACK_ERR_OK with 0. cbn [N.eqb negb]. reflexivity.
Qed.

(* the premises are satisfiable: every optional field present *)
Definition kspec_sample : kspec :=
  mkKS 3 77 5 true 123456 true [1; 2] true [9; 9; 9] true [104; 101; 108; 108; 111] true [116; 120] true [65; 66; 67; 68].
Lemma kspec_sample_wf : wf_kspec kspec_sample [200; 201].
Proof.
  unfold wf_kspec, kspec_sample, nonul. cbn. repeat split; try lia; try discriminate.
  all: repeat constructor; discriminate.
Qed.

(* ---------- whole file: header + payload ---------- *)
Lemma data_at s rest : ks_dataoff s = len (enc_kwaj s) -> sub (enc_kwaj s ++ rest) (k_dataoff (khdr_of s)) (len (enc_kwaj s ++ rest)) = rest.
Proof.
  intro Hd. cbn [khdr_of k_dataoff]. rewrite Hd, len_app. rewrite <- (app_nil_r rest) at 1. apply sub_mid.
Qed.

Theorem kwaj_file_none s rest : wf_kspec s rest -> ks_dataoff s = len (enc_kwaj s) -> ks_comp s = MSKWAJ_COMP_NONE ->
  kwaj_open (enc_kwaj s ++ rest) = (MSPACK_ERR_OK, Some (khdr_of s)) /\ kwaj_extract (enc_kwaj s ++ rest) (khdr_of s) = (MSPACK_ERR_OK, rest).
Proof.
  intros Hwf Hd Hc. split; [apply kwaj_open_enc; exact Hwf|]. unfold kwaj_extract. rewrite data_at by exact Hd.
  cbn [khdr_of k_comp]. rewrite Hc. reflexivity.
Qed.
Theorem kwaj_file_xor s rest : wf_kspec s rest -> ks_dataoff s = len (enc_kwaj s) -> ks_comp s = MSKWAJ_COMP_XOR ->
  kwaj_open (enc_kwaj s ++ rest) = (MSPACK_ERR_OK, Some (khdr_of s)) /\
  kwaj_extract (enc_kwaj s ++ rest) (khdr_of s) = (MSPACK_ERR_OK, map (fun c => N.lxor c 255) rest).
Proof.
  intros Hwf Hd Hc. split; [apply kwaj_open_enc; exact Hwf|]. unfold kwaj_extract. rewrite data_at by exact Hd.
  cbn [khdr_of k_comp]. rewrite Hc. reflexivity.
Qed.
Theorem kwaj_file_szdd s rest : wf_kspec s rest -> ks_dataoff s = len (enc_kwaj s) -> ks_comp s = MSKWAJ_COMP_SZDD ->
  kwaj_open (enc_kwaj s ++ rest) = (MSPACK_ERR_OK, Some (khdr_of s)) /\
  kwaj_extract (enc_kwaj s ++ rest) (khdr_of s) = (MSPACK_ERR_OK, Lzss.lzss_spec LZSS_MODE_QBASIC rest).
Proof.
  intros Hwf Hd Hc. split; [apply kwaj_open_enc; exact Hwf|]. unfold kwaj_extract. rewrite data_at by exact Hd.
  cbn [khdr_of k_comp]. rewrite Hc. reflexivity.
Qed.
(* XOR is an involution on bytes: the XOR method undoes itself *)
Lemma xor255_invol c : N.lxor (N.lxor c 255) 255 = c.
Proof. rewrite N.lxor_assoc, N.lxor_nilpotent, N.lxor_0_r. reflexivity. Qed.
Theorem kwaj_xor_roundtrip s plain : wf_kspec s (map (fun c => N.lxor c 255) plain) -> ks_dataoff s = len (enc_kwaj s) -> ks_comp s = MSKWAJ_COMP_XOR ->
  kwaj_extract (enc_kwaj s ++ map (fun c => N.lxor c 255) plain) (khdr_of s) = (MSPACK_ERR_OK, plain).
Proof.
  intros Hwf Hd Hc. rewrite (proj2 (kwaj_file_xor s _ Hwf Hd Hc)). f_equal. rewrite map_map. rewrite <- (map_id plain) at 2.
  apply map_ext. intro c. apply xor255_invol.
Qed.
