(* fast_find of chmd.c against the directory listing: on a sorted PMGL chunk search_chunk returns the listed entry that
   compares equal to the name (and its section, offset, length decode back), or "not found". *)
From Coq Require Import List NArith ZArith Lia Bool.
Import ListNotations.
From Coq Require Import Sorting.Sorted.
From MSP Require Import Gen.Consts Gen.Tables Model.Chm Proofs.ChmEnc Proofs.ChmCmp Proofs.ChmFind.
Local Open Scope N_scope.

Definition pay (e : ent) : list N := encint (e_sec e) ++ encint (e_off e) ++ encint (e_len e).
Definition ae_of (e : ent) : aentry := (e_name e, pay e).
Lemma enc_ae_of e : enc (ae_of e) = enc_entry e.
Proof. reflexivity. Qed.
Lemma encs_ae_of es : encs (map ae_of es) = concat (map enc_entry es).
Proof. unfold encs. rewrite map_map. reflexivity. Qed.

Lemma wf_ae_of e : wf_ent e -> wf_ae true (ae_of e).
Proof.
  intros (H1 & _). split; [exact H1|]. intro rest. unfold skips, ae_of, pay. cbn [snd].
  rewrite <- !app_assoc, !skip_encint_enc. reflexivity.
Qed.

Definition sec01 (s : N) : N := if s mod M32 =? 0 then 0 else 1.
Lemma read_found_pay e rest : wf_ent e -> read_found (pay e ++ rest) = (MSPACK_ERR_OK, Some (sec01 (e_sec e), e_off e, e_len e)).
Proof.
  intros (_ & H2 & H3 & H4). unfold read_found, pay. rewrite <- !app_assoc.
  rewrite read_encint_enc by (unfold M32, MAXINT in *; lia). rewrite read_encint_enc by exact H3. rewrite read_encint_enc by exact H4. reflexivity.
Qed.

Lemma read_found_not_none p : read_found p <> (MSPACK_ERR_OK, None).
Proof.
  unfold read_found. destruct (read_encint p) as [[a p1]|]; [|discriminate].
  destruct (read_encint p1) as [[b p2]|]; [|discriminate]. destruct (read_encint p2) as [[c p3]|]; discriminate.
Qed.

Section Lookup.
Variable lower : N -> N.
Variable t : list N.

(* what the listing says about a name: the first entry comparing equal *)
Definition lookup (es : list ent) : option ent := find (fun e => (compare lower t (e_name e) =? 0)%Z) es.
Definition answer (r : option ent) : N * found :=
  (MSPACK_ERR_OK, match r with Some e => Some (sec01 (e_sec e), e_off e, e_len e) | None => None end).

(* sortedness as the search sees it: once an entry is not below the name, every later one is above it *)
Definition sorted_for (es : list ent) : Prop := pat lower t (map ae_of es).

Lemma sorted_for_tail e es : sorted_for (e :: es) -> sorted_for es.
Proof. intros H a x b E. apply (H (ae_of e :: a) x b). cbn [map app]. rewrite E. reflexivity. Qed.

Definition res_of (r : sres) : N * found :=
  match r with SErr => (MSPACK_ERR_DATAFORMAT, None) | SNone => (MSPACK_ERR_OK, None) | SFound p => read_found p end.

Lemma find_all_false {A} (f : A -> bool) l : (forall x, In x l -> f x = false) -> find f l = None.
Proof. induction l as [|x l IH]; intro H; [reflexivity|]. cbn. rewrite (H x (or_introl eq_refl)). apply IH. intros y Hy. apply H. right. exact Hy. Qed.

Lemma scan_lookup : forall es free, Forall wf_ent es -> sorted_for es ->
  res_of (alin lower t true (length (map ae_of es)) (map ae_of es) free None) = answer (lookup es).
Proof.
  induction es as [|e es IH]; intros free Hwf Hs; [reflexivity|].
  inversion Hwf as [|? ? He Hes]; subst. cbn [map length alin lookup find]. unfold cmpe at 1 2. cbn [ae_of fst snd].
  destruct (Z.eqb_spec (compare lower t (e_name e)) 0) as [C0|C0].
  - cbn [res_of]. rewrite read_found_pay by exact He. reflexivity.
  - destruct (Z.ltb_spec (compare lower t (e_name e)) 0) as [Cn|Cp].
    + cbn [fin res_of]. specialize (Hs [] (ae_of e) (map ae_of es) eq_refl). unfold cmpe in Hs. cbn [ae_of fst] in Hs. specialize (Hs ltac:(lia)).
      rewrite find_all_false; [reflexivity|]. intros x Hx. rewrite Forall_forall in Hs. specialize (Hs (ae_of x) (in_map ae_of _ _ Hx)).
      unfold cmpe in Hs. cbn [ae_of fst] in Hs. apply Z.eqb_neq. lia.
    + apply IH; [exact Hes|]. eapply sorted_for_tail. exact Hs.
Qed.

(* a PMGL chunk holding the entries es, laid out as search_chunk expects (Proofs/ChmFind.v: wfc) *)
Theorem search_pmgl cs dens ch es pre free post :
  wfc cs dens true ch (map ae_of es) pre free post -> Forall wf_ent es -> sorted_for es -> N.of_nat (length es) < 65536 ->
  res_of (search_chunk lower cs dens ch t) = answer (lookup es).
Proof.
  intros W Hwf Hs Hn. rewrite (search_chunk_abs lower t cs dens true ch (map ae_of es) pre free post W).
  rewrite asearch_full.
  - unfold full. apply scan_lookup; assumption.
  - exact Hs.
  - pose proof (w_npos _ _ _ _ _ _ _ _ W) as Hp. lia.
  - rewrite map_length. exact Hn.
Qed.
End Lookup.

(* ---------- sortedness of real directories ---------- *)
Section Sorted.
Variable lower : N -> N.
Definition name_lt (a b : ent) : Prop := lexcmp (key lower (e_name a)) (key lower (e_name b)) = Lt.
(* a directory chunk as a CHM writer produces it: canonical UTF-8 names in strictly increasing case-insensitive order *)
Definition dir_sorted (es : list ent) : Prop := StronglySorted name_lt es /\ Forall (fun e => canon lower (e_name e)) es.

Lemma sgn_lt z : sgn z = Lt <-> (z < 0)%Z. Proof. unfold sgn. apply Z.compare_lt_iff. Qed.
Lemma sgn_eq z : sgn z = Eq <-> z = 0%Z. Proof. unfold sgn. apply Z.compare_eq_iff. Qed.
Lemma sgn_gt z : sgn z = Gt <-> (0 < z)%Z. Proof. unfold sgn. rewrite Z.compare_gt_iff. reflexivity. Qed.

Lemma StronglySorted_app_inv {A} (R : A -> A -> Prop) a e b : StronglySorted R (a ++ e :: b) -> Forall (R e) b.
Proof.
  induction a as [|x a IH]; cbn [app]; intro H; inversion H as [|? ? H1 H2]; subst; [exact H2|apply IH; exact H1].
Qed.

Theorem sorted_canon t es : canon lower t -> dir_sorted es -> sorted_for lower t es.
Proof.
  intros Kt [Hs Hk] a x b E Hx.
  (* split the ent list at the same place *)
  assert (exists a' e' b', es = a' ++ e' :: b' /\ x = ae_of e' /\ b = map ae_of b') as (a' & e' & b' & -> & -> & ->).
  { clear - E. revert a E. induction es as [|e es IH]; intros a E; [destruct a; discriminate|].
    destruct a as [|y a]; cbn [map app] in E.
    - inversion E. exists [], e, es. repeat split; reflexivity.
    - inversion E as [[Ey Er]]. destruct (IH a Er) as (a' & e' & b' & E1 & E2 & E3). exists (e :: a'), e', b'. rewrite E1. repeat split; assumption. }
  apply StronglySorted_app_inv in Hs. rewrite Forall_forall in *. intros y Hy. apply in_map_iff in Hy as (y' & <- & Hy').
  unfold cmpe in *. cbn [ae_of fst] in *.
  assert (Ke : canon lower (e_name e')) by (apply Hk; apply in_or_app; right; left; reflexivity).
  assert (Ky : canon lower (e_name y')) by (apply Hk; apply in_or_app; right; right; exact Hy').
  pose proof (compare_sign lower t (e_name e') Kt Ke) as S1.
  pose proof (compare_sign lower t (e_name y') Kt Ky) as S2.
  specialize (Hs y' Hy'). unfold name_lt in Hs.
  apply (proj1 (sgn_lt _)). rewrite S2.
  destruct (Z.eq_dec (compare lower t (e_name e')) 0) as [Z0|Zn].
  - apply (proj2 (sgn_eq _)) in Z0. rewrite S1 in Z0. rewrite (lexcmp_eq_l _ _ _ Z0). exact Hs.
  - assert (Hl : (compare lower t (e_name e') < 0)%Z) by lia. apply (proj2 (sgn_lt _)) in Hl. rewrite S1 in Hl. eapply lexcmp_trans; eassumption.
Qed.

(* and what "found" means on such a directory: the entry whose name equals the searched one up to the case of letters *)
Lemma lookup_key t es e : canon lower t -> dir_sorted es -> lookup lower t es = Some e -> In e es /\ key lower t = key lower (e_name e).
Proof.
  intros Kt [_ Hk] H. apply find_some in H as [Hin Hc]. split; [exact Hin|].
  rewrite Forall_forall in Hk. apply Z.eqb_eq in Hc. apply (proj2 (sgn_eq _)) in Hc. rewrite compare_sign in Hc by (try apply Hk; assumption).
  apply lexcmp_eq. exact Hc.
Qed.
Lemma lookup_none t es : canon lower t -> dir_sorted es -> lookup lower t es = None -> forall e, In e es -> key lower t <> key lower (e_name e).
Proof.
  intros Kt [_ Hk] H e Hin Heq. pose proof (find_none _ _ H e Hin) as Hc. cbn beta in Hc.
  rewrite Forall_forall in Hk. apply Z.eqb_neq in Hc. apply Hc. apply (proj1 (sgn_eq _)). rewrite compare_sign by (try apply Hk; assumption).
  rewrite Heq. apply lexcmp_refl.
Qed.
End Sorted.

(* ---------- the PMGL chain (directories without an index) ---------- *)
Section Walk.
Variable lower : N -> N.
Variable t : list N.
Variables (file : list N) (h : hdr).

(* chunk number n holds the sorted entries es and links to chunk nxt *)
Definition pmgl_at (n : N) (es : list ent) (nxt : N) : Prop :=
  exists ch pre free post,
    read_chunk file h n = inr ch /\ wfc (h_chunk_size h) (h_density h) true ch (map ae_of es) pre free post /\
    Forall wf_ent es /\ sorted_for lower t es /\ N.of_nat (length es) < 65536 /\ le32 ch pmgl_NextChunk = nxt.

Lemma lookup_app es1 es2 : lookup lower t (es1 ++ es2) = match lookup lower t es1 with Some e => Some e | None => lookup lower t es2 end.
Proof. unfold lookup. induction es1 as [|e es IH]; [reflexivity|]. cbn [app find]. destruct (compare lower t (e_name e) =? 0)%Z; [reflexivity|exact IH]. Qed.

(* the chain fast_find follows from chunk n: each chunk links to the next, the last link leaves the range first..last *)
Fixpoint chain (n : N) (ess : list (list ent)) : Prop :=
  match ess with
  | [] => h_last_pmgl h < n
  | es :: rest => n <= h_last_pmgl h /\ exists nxt, pmgl_at n es nxt /\ n <> nxt /\ chain nxt rest
  end.

Lemma walk_chain : forall ess fuel n visited le,
  (length ess < fuel)%nat -> visited + N.of_nat (length ess) <= h_num_chunks h -> chain n ess -> (ess = [] -> le = false) ->
  walk lower fuel file h t n visited le = answer (lookup lower t (concat ess)).
Proof.
  induction ess as [|es ess IH]; intros fuel n visited le Hf Hv Hc Hle; (destruct fuel as [|f]; [cbn in Hf; lia|]); cbn [walk concat].
  - cbn [chain] in Hc. replace (h_last_pmgl h <? n) with true by (symmetry; apply N.ltb_lt; lia). rewrite (Hle eq_refl). reflexivity.
  - cbn [length chain] in *. destruct Hc as (Hn & nxt & (ch & pre & free & post & Hrd & W & Hwf & Hs & Hlen & Hnx) & Hne & Hrest).
    replace (h_last_pmgl h <? n) with false by (symmetry; apply N.ltb_ge; lia).
    replace (h_num_chunks h <=? visited) with false by (symmetry; apply N.leb_gt; lia).
    rewrite Hrd.
    pose proof (search_pmgl lower t _ _ ch es pre free post W Hwf Hs Hlen) as S. rewrite lookup_app.
    destruct (search_chunk lower (h_chunk_size h) (h_density h) ch t) as [| |p]; cbn [res_of] in S.
    + unfold answer in S. inversion S.
    + assert (Hl : lookup lower t es = None) by (unfold answer in S; destruct (lookup lower t es); [discriminate|reflexivity]). rewrite Hl, Hnx.
      replace (n =? nxt) with false by (symmetry; apply N.eqb_neq; exact Hne).
      apply IH; [lia|lia|exact Hrest|reflexivity].
    + rewrite S. destruct (lookup lower t es); [reflexivity|]. exfalso. exact (read_found_not_none p S).
Qed.

(* fast_find on a CHM without an index chunk *)
Theorem fast_find_chain ess name : t = cstr name ->
  h_num_chunks h <= h_index_root h -> N.of_nat (length ess) <= h_num_chunks h -> ess <> [] -> chain (h_first_pmgl h) ess ->
  fast_find lower file h name = answer (lookup lower t (concat ess)).
Proof.
  intros Ht Hroot Hlen Hne Hc. unfold fast_find. rewrite <- Ht.
  replace (h_index_root h <? h_num_chunks h) with false by (symmetry; apply N.ltb_ge; exact Hroot).
  apply walk_chain; [lia|lia|exact Hc|intro E; congruence].
Qed.
End Walk.

(* ---------- the index (PMGI chunks above the PMGL chunks) ---------- *)
Section Index.
Variable lower : N -> N.
Variable t : list N.
Variables (file : list N) (h : hdr).
Notation cmpn nm := (compare lower t nm).

Record kid := mkKid { k_name : list N; k_num : N; k_ents : list ent }.
Definition key_ae (k : kid) : aentry := (k_name k, encint (k_num k)).
Definition kpos (k : kid) : Prop := (0 < cmpn (k_name k))%Z.
Definition kneg (k : kid) : Prop := (cmpn (k_name k) < 0)%Z.
Definition epos (e : ent) : Prop := (0 < cmpn (e_name e))%Z.
Definition eneg (e : ent) : Prop := (cmpn (e_name e) < 0)%Z.

Definition pmgi_at (n : N) (kids : list kid) : Prop :=
  exists ch pre free post,
    read_chunk file h n = inr ch /\ wfc (h_chunk_size h) (h_density h) false ch (map key_ae kids) pre free post /\
    N.of_nat (length kids) < 65536 /\ Forall (fun k => k_num k < M32) kids.

(* how the keys of an index chunk relate to the entries below them, as far as the name t can tell *)
Definition keys_ok (kids : list kid) : Prop :=
  pat lower t (map key_ae kids) /\
  Forall (fun k => kneg k -> Forall eneg (k_ents k)) kids /\
  (forall A k k' B, kids = A ++ k :: k' :: B -> (0 <= cmpn (k_name k'))%Z -> Forall epos (k_ents k)).

Fixpoint tree_at (d : nat) (n : N) (ents : list ent) : Prop :=
  match d with
  | O => exists nxt, pmgl_at lower t file h n ents nxt
  | S d' => exists kids, pmgi_at n kids /\ ents = concat (map k_ents kids) /\ keys_ok kids /\
                         Forall (fun k => tree_at d' (k_num k) (k_ents k)) kids
  end.

Lemma lookup_skip_pos es1 es2 : Forall epos es1 -> lookup lower t (es1 ++ es2) = lookup lower t es2.
Proof.
  intro H. rewrite lookup_app. unfold lookup. rewrite find_all_false; [reflexivity|].
  intros x Hx. rewrite Forall_forall in H. specialize (H x Hx). unfold epos in H. apply Z.eqb_neq. lia.
Qed.
Lemma lookup_neg_none es : Forall eneg es -> lookup lower t es = None.
Proof.
  intro H. unfold lookup. apply find_all_false. intros x Hx. rewrite Forall_forall in H. specialize (H x Hx). unfold eneg in H. apply Z.eqb_neq. lia.
Qed.
Lemma Forall_concat {A} (P : A -> Prop) (ls : list (list A)) : Forall (fun l => Forall P l) ls -> Forall P (concat ls).
Proof. induction 1 as [|l ls Hl _ IH]; cbn [concat]; [constructor|]. apply Forall_app. split; assumption. Qed.

(* the scan of an index chunk, with what it had remembered before *)
Lemma alin_pmgi_prefix : forall A rest tail res, Forall kpos A ->
  alin lower t false (length (map key_ae (A ++ rest))) (map key_ae (A ++ rest)) tail res =
  alin lower t false (length (map key_ae rest)) (map key_ae rest) tail
       (match rev A with [] => res | a :: _ => Some (encint (k_num a) ++ encs (map key_ae rest) ++ tail) end).
Proof.
  induction A as [|x A IH]; intros rest tail res HA; [reflexivity|].
  inversion HA as [|? ? Hx HA']; subst. cbn [app map length alin]. unfold cmpe at 1 2. cbn [key_ae fst snd]. unfold kpos in Hx.
  replace (cmpn (k_name x) =? 0)%Z with false by (symmetry; apply Z.eqb_neq; lia).
  replace (cmpn (k_name x) <? 0)%Z with false by (symmetry; apply Z.ltb_ge; lia).
  rewrite IH by exact HA'. f_equal. cbn [rev]. destruct (rev A) as [|a r] eqn:E.
  - apply (f_equal (@rev _)) in E. rewrite rev_involutive in E. subst A. reflexivity.
  - reflexivity.
Qed.

Lemma split_kids : forall kids, Forall kpos kids \/ exists A k B, kids = A ++ k :: B /\ Forall kpos A /\ (cmpn (k_name k) <= 0)%Z.
Proof.
  induction kids as [|k kids IH]; [left; constructor|].
  destruct (Z.ltb_spec 0 (cmpn (k_name k))) as [Hp|Hn].
  - destruct IH as [IH|(A & k' & B & -> & HA & Hk)]; [left; constructor; assumption|].
    right. exists (k :: A), k', B. repeat split; [constructor; assumption|exact Hk].
  - right. exists [], k, kids. repeat split; [constructor|exact Hn].
Qed.

(* which child the scan picks: the last one whose key is not above the name *)
Lemma pmgi_choice kids free : kids <> [] -> pat lower t (map key_ae kids) ->
  (Forall kneg kids /\ alin lower t false (length (map key_ae kids)) (map key_ae kids) free None = SNone) \/
  (exists A a B, kids = A ++ a :: B /\ Forall kpos A /\ (0 <= cmpn (k_name a))%Z /\ Forall kneg B /\
     alin lower t false (length (map key_ae kids)) (map key_ae kids) free None = SFound (encint (k_num a) ++ encs (map key_ae B) ++ free)).
Proof.
  intros Hne Hp.
  assert (Hafter : forall A k B, kids = A ++ k :: B -> (cmpn (k_name k) <= 0)%Z -> Forall kneg B).
  { intros A k B E Hk. specialize (Hp (map key_ae A) (key_ae k) (map key_ae B)). rewrite E, map_app in Hp. specialize (Hp eq_refl Hk).
    rewrite Forall_forall in *. intros x Hx. apply (Hp (key_ae x)). apply in_map. exact Hx. }
  destruct (split_kids kids) as [Hall|(A & k & B & E & HA & Hk)].
  - (* every key below the name: the last child *)
    right. destruct (rev kids) as [|a r] eqn:Er; [apply (f_equal (@rev _)) in Er; rewrite rev_involutive in Er; cbn in Er; congruence|].
    assert (Ek : kids = rev r ++ [a]) by (rewrite <- (rev_involutive kids), Er; reflexivity).
    exists (rev r), a, []. rewrite Ek in Hall. apply Forall_app in Hall as [H1 H2]. inversion H2 as [|? ? Ha _]; subst.
    repeat split; [exact H1|unfold kpos in Ha; lia|constructor|].
    replace (rev r ++ [a]) with ((rev r ++ [a]) ++ []) by apply app_nil_r.
    rewrite alin_pmgi_prefix by (apply Forall_app; split; [exact H1|constructor; [exact Ha|constructor]]).
    rewrite rev_app_distr. cbn [rev app map length alin fin]. reflexivity.
  - pose proof (Hafter A k B E Hk) as HB. clear Hafter. subst kids.
    destruct (Z.eq_dec (cmpn (k_name k)) 0) as [K0|Kn].
    + right. exists A, k, B. repeat split; [exact HA|lia|exact HB|].
      rewrite map_app. cbn [map]. apply alin_skip_exact; [|exact K0].
      rewrite Forall_forall in *. intros x Hx. apply in_map_iff in Hx as (y & <- & Hy). apply HA. exact Hy.
    + rewrite alin_pmgi_prefix by exact HA. cbn [map length alin]. unfold cmpe. cbn [key_ae fst].
      replace (cmpn (k_name k) =? 0)%Z with false by (symmetry; apply Z.eqb_neq; lia).
      replace (cmpn (k_name k) <? 0)%Z with true by (symmetry; apply Z.ltb_lt; lia). cbn [fin].
      destruct (rev A) as [|a r] eqn:Er.
      * left. apply (f_equal (@rev _)) in Er. rewrite rev_involutive in Er. cbn in Er. subst A. split; [|reflexivity].
        cbn [app]. constructor; [unfold kneg; lia|exact HB].
      * right. assert (EA : A = rev r ++ [a]) by (rewrite <- (rev_involutive A), Er; reflexivity).
        exists (rev r), a, (k :: B). rewrite EA in HA. apply Forall_app in HA as [H1 H2]. inversion H2 as [|? ? Ha _]; subst.
        repeat split; [rewrite <- app_assoc; reflexivity|exact H1|unfold kpos in Ha; lia|constructor; [unfold kneg; lia|exact HB]].
Qed.

(* the entries under the children before the chosen one are below the name, those after it above: only the chosen child matters *)
Lemma chosen_lookup A a B : keys_ok (A ++ a :: B) -> Forall kpos A -> (0 <= cmpn (k_name a))%Z -> Forall kneg B ->
  lookup lower t (concat (map k_ents (A ++ a :: B))) = lookup lower t (k_ents a).
Proof.
  intros (_ & Hb & Hc) HA Ha HB. rewrite map_app, concat_app. cbn [map concat].
  rewrite lookup_skip_pos.
  - rewrite lookup_app. destruct (lookup lower t (k_ents a)); [reflexivity|]. apply lookup_neg_none. apply Forall_concat.
    rewrite Forall_forall in *. intros l Hl. apply in_map_iff in Hl as (k & <- & Hk).
    assert (Hin : In k (A ++ a :: B)) by (apply in_or_app; right; right; exact Hk).
    exact (Hb k Hin (HB k Hk)).
  - apply Forall_concat. rewrite Forall_forall. intros l Hl. apply in_map_iff in Hl as (k & <- & Hk).
    apply in_split in Hk as (A1 & A2 & ->).
    (* the key after k is either in A or is a *)
    destruct A2 as [|k' A2].
    + apply (Hc A1 k a B); [rewrite <- app_assoc; reflexivity|exact Ha].
    + apply (Hc A1 k k' (A2 ++ a :: B)); [rewrite <- !app_assoc; reflexivity|].
      rewrite Forall_forall in HA. assert (Hk' : kpos k') by (apply HA; apply in_or_app; right; right; left; reflexivity). unfold kpos in Hk'. lia.
Qed.
Lemma all_neg_lookup kids : keys_ok kids -> Forall kneg kids -> lookup lower t (concat (map k_ents kids)) = None.
Proof.
  intros (_ & Hb & _) Hn. apply lookup_neg_none. apply Forall_concat. rewrite Forall_forall in *. intros l Hl. apply in_map_iff in Hl as (k & <- & Hk).
  exact (Hb k Hk (Hn k Hk)).
Qed.

Lemma wf_key_ae k : len (k_name k) < M32 -> wf_ae false (key_ae k).
Proof. intro H. split; [exact H|]. intro rest. unfold skips, key_ae. cbn [snd]. apply skip_encint_enc. Qed.

Theorem descend_tree : forall d fuel n visited ents, tree_at d n ents -> (d < fuel)%nat -> visited + N.of_nat d + 1 <= h_num_chunks h ->
  descend lower fuel file h t n visited = answer (lookup lower t ents).
Proof.
  induction d as [|d IH]; intros fuel n visited ents Ht Hf Hv; (destruct fuel as [|f]; [lia|]); cbn [descend].
  - destruct Ht as (nxt & ch & pre & free & post & Hrd & W & Hwf & Hs & Hlen & _).
    replace (h_num_chunks h <=? visited) with false by (symmetry; apply N.leb_gt; lia). rewrite Hrd.
    pose proof (search_pmgl lower t _ _ ch ents pre free post W Hwf Hs Hlen) as S.
    destruct (search_chunk lower (h_chunk_size h) (h_density h) ch t) as [| |p]; cbn [res_of] in S.
    + unfold answer in S. inversion S.
    + exact S.
    + rewrite (w_sig _ _ _ _ _ _ _ _ W). cbn [N.eqb Pos.eqb]. exact S.
  - destruct Ht as (kids & (ch & pre & free & post & Hrd & W & Hlen & Hnum) & -> & Hok & Hsub).
    replace (h_num_chunks h <=? visited) with false by (symmetry; apply N.leb_gt; lia). rewrite Hrd.
    rewrite (search_chunk_abs lower t _ _ false ch (map key_ae kids) pre free post W).
    rewrite asearch_full; [|exact (proj1 Hok)|pose proof (w_npos _ _ _ _ _ _ _ _ W); lia|rewrite map_length; exact Hlen].
    unfold full.
    assert (Hne : kids <> []) by (pose proof (w_npos _ _ _ _ _ _ _ _ W) as Hp; rewrite map_length in Hp; destruct kids; [cbn in Hp; lia|discriminate]).
    destruct (pmgi_choice kids free Hne (proj1 Hok)) as [[Hneg ->]|(A & a & B & -> & HA & Ha & HB & ->)].
    + rewrite all_neg_lookup by assumption. reflexivity.
    + rewrite (w_sig _ _ _ _ _ _ _ _ W). cbn [N.eqb Pos.eqb].
      rewrite Forall_forall in Hnum, Hsub. assert (Hin : In a (A ++ a :: B)) by (apply in_or_app; right; left; reflexivity).
      rewrite read_encint_enc by (specialize (Hnum a Hin); unfold M32, MAXINT in *; lia).
      rewrite N.mod_small by (exact (Hnum a Hin)).
      rewrite chosen_lookup by assumption. apply IH; [exact (Hsub a Hin)|lia|lia].
Qed.

(* fast_find on a CHM with an index of depth d above its PMGL chunks *)
Theorem fast_find_tree d ents name : t = cstr name -> h_index_root h < h_num_chunks h -> N.of_nat d + 1 <= h_num_chunks h ->
  tree_at d (h_index_root h) ents -> fast_find lower file h name = answer (lookup lower t ents).
Proof.
  intros Ht Hroot Hd Htree. unfold fast_find. rewrite <- Ht.
  replace (h_index_root h <? h_num_chunks h) with true by (symmetry; apply N.ltb_lt; exact Hroot).
  apply (descend_tree d); [exact Htree|lia|lia].
Qed.
End Index.

(* ---------- index trees as a CHM writer produces them are consistent for every (canonical) name ---------- *)
Section SortedIndex.
Variable lower : N -> N.
Notation K x := (key lower x).
Definition nlt (a b : list N) : Prop := lexcmp (K a) (K b) = Lt.
Definition nle (a b : list N) : Prop := lexcmp (K a) (K b) <> Gt.

Lemma nlt_le_trans a b c : nlt a b -> nle b c -> nlt a c.
Proof.
  unfold nlt, nle. intros H1 H2. destruct (lexcmp (K b) (K c)) eqn:E; [|eapply lexcmp_trans; eassumption|congruence].
  apply lexcmp_eq in E. rewrite <- E. exact H1.
Qed.
Lemma nle_lt_trans a b c : nle a b -> nlt b c -> nlt a c.
Proof.
  unfold nlt, nle. intros H1 H2. destruct (lexcmp (K a) (K b)) eqn:E; [|eapply lexcmp_trans; eassumption|congruence].
  apply lexcmp_eq in E. rewrite E. exact H2.
Qed.
Lemma nlt_flip a b : nlt a b <-> lexcmp (K b) (K a) = Gt.
Proof. unfold nlt. rewrite (lexcmp_antisym (K a) (K b)). destruct (lexcmp (K a) (K b)); cbn; split; congruence. Qed.

(* sign of compare on canonical names, in the three forms used below *)
Lemma cmp_neg t x : canon lower t -> canon lower x -> (compare lower t x < 0)%Z <-> nlt t x.
Proof. intros Kt Kx. unfold nlt. rewrite <- compare_sign by assumption. symmetry. apply sgn_lt. Qed.
Lemma cmp_pos t x : canon lower t -> canon lower x -> (0 < compare lower t x)%Z <-> nlt x t.
Proof. intros Kt Kx. rewrite nlt_flip. rewrite <- compare_sign by assumption. symmetry. apply sgn_gt. Qed.
Lemma cmp_nonneg t x : canon lower t -> canon lower x -> (0 <= compare lower t x)%Z <-> nle x t.
Proof.
  intros Kt Kx. unfold nle. rewrite (lexcmp_antisym (K t) (K x)), <- compare_sign by assumption. unfold sgn.
  destruct (Z.compare_spec (compare lower t x) 0); cbn; split; intros; try lia; congruence.
Qed.

(* generic: a strictly increasing list of canonical names has the shape the search relies on *)
Lemma pat_of_sorted {X} (nm : X -> list N) (ae : X -> aentry) t xs :
  (forall x, fst (ae x) = nm x) -> canon lower t -> StronglySorted (fun a b => nlt (nm a) (nm b)) xs -> Forall (fun x => canon lower (nm x)) xs ->
  pat lower t (map ae xs).
Proof.
  intros Hfst Kt Hs Hk a x b E Hx.
  assert (exists a' e' b', xs = a' ++ e' :: b' /\ x = ae e' /\ b = map ae b') as (a' & e' & b' & -> & -> & ->).
  { clear - E. revert a E. induction xs as [|e es IH]; intros a E; [destruct a; discriminate|].
    destruct a as [|y a]; cbn [map app] in E.
    - inversion E. exists [], e, es. repeat split; reflexivity.
    - inversion E as [[Ey Er]]. destruct (IH a Er) as (a' & e' & b' & E1 & E2 & E3). exists (e :: a'), e', b'. rewrite E1. repeat split; assumption. }
  apply StronglySorted_app_inv in Hs. rewrite Forall_forall in *. intros y Hy. apply in_map_iff in Hy as (y' & <- & Hy').
  unfold cmpe in *. rewrite Hfst in *.
  assert (Ke : canon lower (nm e')) by (apply Hk; apply in_or_app; right; left; reflexivity).
  assert (Ky : canon lower (nm y')) by (apply Hk; apply in_or_app; right; right; exact Hy').
  apply (cmp_neg t _ Kt Ky). eapply nle_lt_trans; [|exact (Hs y' Hy')].
  unfold nle. rewrite <- compare_sign by assumption. unfold sgn. destruct (Z.compare_spec (compare lower t (nm e')) 0); try lia; congruence.
Qed.

(* the index chunk a writer produces: keys increasing; every entry below a child is not below that child's key and is below the next key *)
Definition kids_sorted (kids : list kid) : Prop :=
  StronglySorted (fun a b => nlt (k_name a) (k_name b)) kids /\
  Forall (fun k => canon lower (k_name k) /\ Forall (fun x => canon lower (e_name x) /\ nle (k_name k) (e_name x)) (k_ents k)) kids /\
  (forall A k k' B, kids = A ++ k :: k' :: B -> Forall (fun x => nlt (e_name x) (k_name k')) (k_ents k)).

Theorem keys_ok_sorted t kids : canon lower t -> kids_sorted kids -> keys_ok lower t kids.
Proof.
  intros Kt (Hs & Hk & Hnext). split; [|split].
  - apply (pat_of_sorted k_name key_ae); [reflexivity|exact Kt|exact Hs|].
    rewrite Forall_forall in *. intros k Hin. exact (proj1 (Hk k Hin)).
  - rewrite Forall_forall in *. intros k Hin Hneg. destruct (Hk k Hin) as [Kk He]. rewrite Forall_forall in *. intros x Hx.
    destruct (He x Hx) as [Kx Hle]. unfold kneg, eneg in *. apply (cmp_neg t _ Kt Kx). eapply nlt_le_trans; [|exact Hle]. apply (cmp_neg t _ Kt Kk). exact Hneg.
  - intros A k k' B E Hge. specialize (Hnext A k k' B E). rewrite Forall_forall in *.
    assert (Hin : In k kids) by (rewrite E; apply in_or_app; right; left; reflexivity).
    assert (Hin' : In k' kids) by (rewrite E; apply in_or_app; right; right; left; reflexivity).
    destruct (Hk k Hin) as [_ He]. destruct (Hk k' Hin') as [Kk' _]. rewrite Forall_forall in He.
    intros x Hx. destruct (He x Hx) as [Kx _]. unfold epos. apply (cmp_pos t _ Kt Kx). eapply nlt_le_trans; [exact (Hnext x Hx)|]. apply (cmp_nonneg t _ Kt Kk'). exact Hge.
Qed.
End SortedIndex.
