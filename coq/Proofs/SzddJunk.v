(* C11 for the SZDD front end + LZSS decoder: the whole behaviour (every callback, every status, every byte written) is the same
   whatever the freshly allocated window contained, for every host. *)
From stdpp Require Import gmap.
From Coq Require Import NArith ZArith List Lia.
From MSP Require Import Model.LzssBase.
From MSP Require Import Gen.Consts L2.Sys L2.Szdd Proofs.Mon Proofs.TrieP.
Local Open Scope N_scope.

(* two programs that make the same calls and continue in the same way on every answer *)
Inductive peq {A} : prog A -> prog A -> Prop :=
| peq_ret a : peq (Ret a) (Ret a)
| peq_do c k1 k2 : (forall r, peq (k1 r) (k2 r)) -> peq (Do c k1) (Do c k2).
Lemma peq_refl {A} (p : prog A) : peq p p.
Proof. induction p; constructor; auto. Qed.
Lemma peq_bind {A B} (p1 p2 : prog A) (f1 f2 : A -> prog B) : peq p1 p2 -> (forall a, peq (f1 a) (f2 a)) -> peq (bind p1 f1) (bind p2 f2).
Proof. intros Hp Hf. induction Hp; cbn [bind]; [apply Hf|constructor; auto]. Qed.
Lemma run_peq {A} (p q : prog A) : peq p q -> forall o m, run o m p = run o m q.
Proof. intro H. induction H; intros o m; cbn [run]; [reflexivity|auto]. Qed.

Lemma mask_lt x : mask x < 2 ^ N.of_nat W.
Proof.
  unfold mask, W. change (2 ^ N.of_nat 12) with 4096. change (LZSS_WINDOW_SIZE - 1) with (N.ones 12).
  rewrite N.land_ones. apply N.mod_lt. discriminate.
Qed.

Section Loop.
Variables (j1 j2 : byte) (inh outh : handle) (bufsize : Z) (window : ptr).
Definition okst (s : ist) : Prop := nojunk W (iwin s) /\ ipos s < 2 ^ N.of_nat W.

Lemma q_getbyte s k1 k2 : (forall s' b, iwin s' = iwin s -> ipos s' = ipos s -> peq (k1 s' b) (k2 s' b)) ->
  peq (getbyte inh bufsize window s k1) (getbyte inh bufsize window s k2).
Proof.
  intro Hk. unfold getbyte. destruct (ibuf s) as [|b rest]; [|apply Hk; reflexivity].
  apply peq_bind; [apply peq_refl|]. intros r. destruct r as [|[|b rest]]; try apply peq_refl. apply Hk; reflexivity.
Qed.
Lemma q_putbyte s b k1 k2 : okst s -> (forall s', okst s' -> peq (k1 s') (k2 s')) ->
  peq (putbyte outh window s b k1) (putbyte outh window s b k2).
Proof.
  intros [Hn Hp] Hk. unfold putbyte. apply peq_bind; [apply peq_refl|]. intros w. destruct (Z.eqb w 1); [|apply peq_refl].
  apply Hk. split; cbn [iwin ipos]; [apply nojunk_wset; assumption|apply mask_lt].
Qed.
Lemma q_copy n : forall s mpos k1 k2, okst s -> mpos < 2 ^ N.of_nat W -> (forall s', okst s' -> peq (k1 s') (k2 s')) ->
  peq (copy j1 outh window n s mpos k1) (copy j2 outh window n s mpos k2).
Proof.
  induction n as [|n IH]; intros s mpos k1 k2 Hs Hm Hk; cbn [copy]; [apply Hk; exact Hs|].
  rewrite (proj1 Hs mpos j1 j2 Hm). apply q_putbyte; [exact Hs|]. intros s' Hs'. apply IH; [exact Hs'|apply mask_lt|exact Hk].
Qed.
Lemma q_items n : forall c bit s k1 k2, okst s -> (forall s', okst s' -> peq (k1 s') (k2 s')) ->
  peq (items j1 inh outh bufsize window n c bit s k1) (items j2 inh outh bufsize window n c bit s k2).
Proof.
  induction n as [|n IH]; intros c bit s k1 k2 Hs Hk; cbn [items]; [apply Hk; exact Hs|].
  assert (Keep : forall s', iwin s' = iwin s -> ipos s' = ipos s -> okst s') by (intros s' E1 E2; unfold okst; rewrite E1, E2; exact Hs).
  destruct (N.testbit c bit).
  - apply q_getbyte. intros s1 b E1 E2. apply q_putbyte; [apply Keep; assumption|]. intros s2 Hs2. apply IH; assumption.
  - apply q_getbyte. intros s1 m1 E1 E2. apply q_getbyte. intros s2 m2 E3 E4.
    apply q_copy; [apply Keep; congruence|apply mask_lt|]. intros s3 Hs3. apply IH; assumption.
Qed.
Lemma q_loop fuel : forall inv s, okst s ->
  peq (loop j1 inh outh bufsize window fuel inv s) (loop j2 inh outh bufsize window fuel inv s).
Proof.
  induction fuel as [|f IH]; intros inv s Hs; cbn [loop]; [apply peq_refl|].
  apply q_getbyte. intros s1 c E1 E2. apply q_items; [unfold okst; rewrite E1, E2; exact Hs|]. intros s2 Hs2. apply IH. exact Hs2.
Qed.
End Loop.

Lemma q_lzss_decompress j1 j2 fuel inh outh bufsize mode :
  peq (lzss_decompress j1 fuel inh outh bufsize mode) (lzss_decompress j2 fuel inh outh bufsize mode).
Proof.
  unfold lzss_decompress. apply peq_bind; [apply peq_refl|]. intros w. destruct w as [w|]; [|apply peq_refl].
  apply q_loop. split; cbn [iwin ipos]; [apply nojunk_full|].
  change (2 ^ N.of_nat W) with 4096. destruct (mode =? LZSS_MODE_QBASIC); vm_compute; reflexivity.
Qed.
Lemma q_szdd_extract j1 j2 fuel s h out : peq (szdd_extract j1 fuel s h out) (szdd_extract j2 fuel s h out).
Proof.
  unfold szdd_extract. apply peq_bind; [apply peq_refl|]. intros ok. destruct (negb ok); [apply peq_refl|].
  apply peq_bind; [apply peq_refl|]. intros o. destruct o as [oh|]; [|apply peq_refl].
  apply peq_bind; [apply q_lzss_decompress|]. intros e. apply peq_refl.
Qed.
Lemma q_szdd_decompress j1 j2 fuel s i o : peq (szdd_decompress j1 fuel s i o) (szdd_decompress j2 fuel s i o).
Proof.
  unfold szdd_decompress. apply peq_bind; [apply peq_refl|]. intros [h s1]. destruct h as [hd|]; [|apply peq_refl].
  apply peq_bind; [apply q_szdd_extract|]. intros [e s2]. apply peq_refl.
Qed.

(* For every host: the complete run (result, ledger, every callback in order) of create; decompress; destroy is the same for
   any two contents of freshly allocated memory *)
Theorem szdd_junk_independent : forall (o : oracle) j1 j2 fuel,
  run o mon0 (script_decompress j1 fuel) = run o mon0 (script_decompress j2 fuel).
Proof.
  intros o j1 j2 fuel. apply run_peq. unfold script_decompress. apply peq_bind; [apply peq_refl|]. intros so.
  destruct so as [s|]; [|apply peq_refl]. apply peq_bind; [apply q_szdd_decompress|]. intros [e s']. apply peq_refl.
Qed.
Theorem szdd_open_extract_junk_independent : forall (o : oracle) j1 j2 fuel,
  run o mon0 (script_open_extract j1 fuel) = run o mon0 (script_open_extract j2 fuel).
Proof.
  intros o j1 j2 fuel. apply run_peq. unfold script_open_extract. apply peq_bind; [apply peq_refl|]. intros so.
  destruct so as [s|]; [|apply peq_refl]. apply peq_bind; [apply peq_refl|]. intros [h s1]. destruct h as [hd|]; [|apply peq_refl].
  apply peq_bind; [apply q_szdd_extract|]. intros [e1 s2]. apply peq_bind; [apply q_szdd_extract|]. intros [e2 s3]. apply peq_refl.
Qed.
