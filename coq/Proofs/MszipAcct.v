(* Output accounting of the real MSZIP port (Model/Mszip.v zcall = mszipd_decompress): a call asked for n bytes never writes more
   than n, and writes exactly n when it returns OK - for every input, every stream state, every end-of-input rule (C07). *)
From Coq Require Import List NArith Arith PeanoNat Lia Bool.
Import ListNotations.
From MSP Require Import Base.Src Model.Mszip Proofs.MszipResume Proofs.MszipClean.
From MSP Require Export Proofs.NoWrite.
Local Open Scope N_scope.

Section Acct.
Variables (rule : eofrule) (hint : N).
Notation run := (ideal rule hint).
Ltac fold_wr H := repeat match type of H with context [{| irest := irest ?s; iout := rev_append (win_bytes (N.to_nat ?i) ?w ?o []) (iout ?s) |}] =>
  change {| irest := irest s; iout := rev_append (win_bytes (N.to_nat i) w o []) (iout s) |} with (wr i w o s) in H end.

Lemma win_bytes_len : forall n w o, length (win_bytes n w o []) = n.
Proof.
  induction n as [|n IH]; intros w o; [reflexivity|]. cbn [win_bytes]. rewrite win_bytes_acc. cbn [rev app length]. rewrite IH. reflexivity.
Qed.
Lemma olen_wr i w o s : olen (wr i w o s) = olen s + i.
Proof. unfold olen, wr. cbn [iout]. rewrite rev_append_rev, app_length, rev_length, win_bytes_len, Nat2N.inj_add, N2Nat.id. apply N.add_comm. Qed.

Lemma zframe_facts st i r i' : run (zframe st) i = (r, i') -> olen i' = olen i /\ (forall e, r <> SVal (inl (IMsp e))).
Proof.
  intro H. destruct (clean_run rule hint _ (cleanm_zframe st) _ _ _ H) as [Ho He]. split; [unfold olen; rewrite Ho; reflexivity|].
  intros e E. destruct (He _ E) as [c Ec]. discriminate.
Qed.

Lemma zloop_acct : forall f n st i r i1, run (zloop f n st) i = (r, i1) ->
  olen i <= olen i1 /\ olen i1 <= olen i + n /\
  (forall fl z1, r = SVal (OK, fl, z1) -> fl = false /\ olen i1 = olen i + n /\ zo z1 <= zend z1 /\ zerr z1 = 0).
Proof.
  induction f as [|f IH]; intros n st i r i1 H.
  - rewrite zloop_0, run_ret in H. inversion H; subst. split; [lia|]. split; [lia|]. intros fl z1 E. inversion E.
  - rewrite zloop_S, ideal_sbind in H.
    destruct (run (zframe st) i) as [[x|e] i'] eqn:Ef; destruct (zframe_facts _ _ _ _ Ef) as [Eo Hm].
    2:{ inversion H; subst. rewrite Eo. split; [lia|]. split; [lia|]. intros fl z1 E. inversion E. }
    destruct x as [[c|e]|[u s2]].
    + rewrite run_ret in H. inversion H; subst. rewrite Eo. split; [lia|]. split; [lia|]. intros fl z1 E. exfalso. injection E as E1 _ _. vm_compute in E1. discriminate.
    + exfalso. apply (Hm e). reflexivity.
    + cbv zeta in H. rewrite run_write in H. fold_wr H.
      destruct (N.eqb_spec (n - N.min n (bout s2)) 0) as [E|E].
      * rewrite run_ret in H. inversion H; subst. rewrite olen_wr, Eo. split; [lia|]. split; [lia|].
        intros fl z1 E1. inversion E1; subst. cbn [zo zend zerr]. repeat split; lia.
      * specialize (IH _ _ _ _ _ H). rewrite olen_wr, Eo in IH. destruct IH as (A & B & C). split; [lia|]. split; [lia|].
        intros fl z1 E1. destruct (C fl z1 E1) as (C1 & C2 & C3 & C4). repeat split; try assumption. lia.
Qed.

Theorem zcall_acct n z i r i1 : zo z <= zend z -> run (zcall n z) i = (r, i1) ->
  olen i <= olen i1 /\ olen i1 <= olen i + n /\
  (forall fl z1, r = SVal (OK, fl, z1) -> olen i1 = olen i + n /\ zo z1 <= zend z1).
Proof.
  intros Hz H. destruct (N.eqb_spec (zerr z) 0) as [He|He].
  - rewrite zcall_unfold in H by exact He. cbv zeta in H.
    destruct (N.eqb_spec (n - N.min (zend z - zo z) n) 0) as [E|E].
    + inversion H; subst. rewrite olen_wr. split; [lia|]. split; [lia|]. intros fl z1 E1. inversion E1; subst. cbn [zo zend]. split; lia.
    + destruct (zloop_acct _ _ _ _ _ _ H) as (A & B & C). rewrite olen_wr in A, B, C. split; [lia|]. split; [lia|].
      intros fl z1 E1. destruct (C fl z1 E1) as (_ & C2 & C3 & _). split; [lia|exact C3].
  - unfold zcall in H. replace (zerr z =? 0) with false in H by (symmetry; apply N.eqb_neq; exact He). cbn [negb] in H. rewrite run_ret in H.
    inversion H; subst. split; [lia|]. split; [lia|]. intros fl z1 E1. inversion E1; subst. unfold OK in *. congruence.
Qed.
End Acct.
