(* Memory safety of the MSZIP port (Model/Mszip.v): the model carries ghost checks that fail with IErr OOBZ wherever inflate would
   index its 32 KiB window outside [0, 32768) - the literal store, both ends of every match copy step, the copy of a stored block.
   Here: a frame never returns OOBZ, for every input, from ANY decoder state (each frame starts by resetting window_posn). *)
From Coq Require Import List NArith Arith Lia Bool.
Import ListNotations.
From MSP Require Import Base.Src Gen.Consts Gen.Tables Model.Mszip Proofs.NoWrite.
Local Open Scope N_scope.

Definition zres_ok {A} (Q : A -> zst -> Prop) (r : ierr + A * zst) : Prop := match r with inl e => e <> IErr OOBZ | inr (a, s') => Q a s' end.
Definition hz {A} (Q : A -> zst -> Prop) (m : dm A) (s : zst) : Prop := leaves (fun _ => True) (zres_ok Q) (m s).
Lemma hz_bnd {A B} (Q1 : A -> zst -> Prop) (Q2 : B -> zst -> Prop) (m : dm A) (f : A -> dm B) s :
  hz Q1 m s -> (forall a s', Q1 a s' -> hz Q2 (f a) s') -> hz Q2 (bnd m f) s.
Proof. intros Hm Hf. unfold hz, bnd. eapply leaves_sbind; [exact Hm|]. intros [e|[a s']] H; [constructor; exact H|apply Hf; exact H]. Qed.
Lemma hz_get_bnd {B} (Q : B -> zst -> Prop) (f : zst -> dm B) s : hz Q (f s) s -> hz Q (bnd get f) s. Proof. intro H. exact H. Qed.
Lemma hz_put_bnd {B} (Q : B -> zst -> Prop) x (k : unit -> dm B) s : hz Q (k tt) x -> hz Q (bnd (put x) k) s. Proof. intro H. exact H. Qed.
Lemma hz_ret {A} (Q : A -> zst -> Prop) a s : Q a s -> hz Q (ret a) s. Proof. intro H. constructor. exact H. Qed.
Lemma hz_fail {A} (Q : A -> zst -> Prop) e s : e <> IErr OOBZ -> hz Q (@fail A e) s. Proof. intro H. constructor. exact H. Qed.
Lemma hz_put (Q : unit -> zst -> Prop) x s : Q tt x -> hz Q (put x) s. Proof. intro H. constructor. exact H. Qed.
Lemma hz_weaken {A} (Q Q' : A -> zst -> Prop) m s : hz Q m s -> (forall a s', Q a s' -> Q' a s') -> hz Q' m s.
Proof. intros H HQ. eapply leaves_weaken; [exact H|]. intros [e|[a s']] Hr; [exact Hr|apply HQ; exact Hr]. Qed.

(* ---- the reading half leaves window_posn and bytes_output alone ---- *)
Definition samez (s s' : zst) : Prop := wpos s' = wpos s /\ bout s' = bout s.
Definition Kz {A} (m : dm A) : Prop := forall g s, samez g s -> hz (fun _ s' => samez g s') m s.
Lemma samez_refl s : samez s s. Proof. split; reflexivity. Qed.
Lemma samez_upd g s x : samez g s -> wpos x = wpos s -> bout x = bout s -> samez g x.
Proof. unfold samez. intros [A B] C D. split; congruence. Qed.
Lemma Kz_app {A} (m : dm A) g s : Kz m -> samez g s -> hz (fun _ s' => samez g s') m s. Proof. intros K H. exact (K g s H). Qed.
Lemma hzK_bnd {A B} g (Q : B -> zst -> Prop) (m : dm A) (f : A -> dm B) s :
  hz (fun _ s' => samez g s') m s -> (forall a s', samez g s' -> hz Q (f a) s') -> hz Q (bnd m f) s.
Proof. intros Hm Hf. eapply hz_bnd; [exact Hm|]. intros a s' H. apply Hf. exact H. Qed.
Ltac kz := repeat (match goal with
  | |- Kz _ => let g := fresh "g" in let s := fresh "s" in let Hs := fresh "Hs" in intros g s Hs
  | |- hz _ (bnd get _) _ => apply hz_get_bnd
  | H : samez ?g ?s |- hz _ (bnd _ _) ?s => apply (hzK_bnd g); [|let a := fresh "a" in let s := fresh "s" in let Hs := fresh "Hs" in intros a s Hs]
  | |- hz _ (if ?b then _ else _) _ => destruct b
  | |- hz _ (let '(_, _) := ?x in _) _ => destruct x
  | |- hz _ (match ?x with _ => _ end) _ => destruct x
  | |- hz _ (ret _) _ => apply hz_ret; assumption
  | |- hz _ (fail _) _ => apply hz_fail; discriminate
  | |- hz _ (put _) _ => apply hz_put; match goal with H : samez ?g ?t |- samez ?g _ => apply (samez_upd g t _ H); reflexivity end
  | |- hz _ _ _ => solve [apply Kz_app; [auto with kzdb|assumption]]
  end).
Create HintDb kzdb.
Lemma Kz_next : Kz next_byte. Proof. intros g s Hs. unfold next_byte. constructor. intro b. constructor. exact Hs. Qed.
#[export] Hint Resolve Kz_next : kzdb.
Lemma Kz_ensure f : forall n, Kz (ensure f n). Proof. induction f as [|f IH]; intro n; cbn [ensure]; kz. Qed.
#[export] Hint Resolve Kz_ensure : kzdb.
Lemma Kz_peek n : Kz (peek n). Proof. unfold peek. kz. Qed.
Lemma Kz_remove n : Kz (remove n). Proof. unfold remove. kz. Qed.
#[export] Hint Resolve Kz_peek Kz_remove : kzdb.
Lemma Kz_read_bits n : Kz (read_bits n). Proof. unfold read_bits. kz. Qed.
#[export] Hint Resolve Kz_read_bits : kzdb.
Lemma Kz_traverse f : forall t ms sym idx, Kz (traverse f t ms sym idx). Proof. induction f as [|f IH]; intros; cbn [traverse]; kz. Qed.
#[export] Hint Resolve Kz_traverse : kzdb.
Lemma Kz_read_huffsym t l tb ms : Kz (read_huffsym t l tb ms). Proof. unfold read_huffsym. kz. Qed.
#[export] Hint Resolve Kz_read_huffsym : kzdb.
Lemma Kz_rl_bitlens l : forall b, Kz (rl_bitlens l b). Proof. induction l as [|o l IH]; intro b; cbn [rl_bitlens]; kz. Qed.
#[export] Hint Resolve Kz_rl_bitlens : kzdb.
Lemma Kz_rl_codes f : forall t bl tot lens i last, Kz (rl_codes f t bl tot lens i last). Proof. induction f as [|f IH]; intros; cbn [rl_codes]; kz. Qed.
#[export] Hint Resolve Kz_rl_codes : kzdb.
Lemma Kz_zip_read_lens : Kz zip_read_lens. Proof. unfold zip_read_lens. kz. Qed.
#[export] Hint Resolve Kz_zip_read_lens : kzdb.
Lemma Kz_take_bitbuf_bytes f : forall i acc, Kz (take_bitbuf_bytes f i acc). Proof. induction f as [|f IH]; intros; cbn [take_bitbuf_bytes]; kz. Qed.
Lemma Kz_take_raw n : forall acc, Kz (take_raw n acc). Proof. induction n as [|n IH]; intros; cbn [take_raw]; kz. Qed.
Lemma Kz_find_ck f : forall st, Kz (find_ck f st). Proof. induction f as [|f IH]; intros; cbn [find_ck]; kz. Qed.
#[export] Hint Resolve Kz_take_bitbuf_bytes Kz_take_raw Kz_find_ck : kzdb.

(* ---- the window ---- *)
Definition Iz (s : zst) : Prop := wpos s < FRAME.
Lemma frame_val : FRAME = 32768. Proof. reflexivity. Qed.
Lemma flush_safe s : wpos s <= FRAME -> hz (fun _ s' => Iz s') flush_if_needed s.
Proof.
  intro H. unfold flush_if_needed. apply hz_get_bnd. destruct (N.eqb_spec (wpos s) FRAME) as [E|E].
  - cbv zeta. destruct (FRAME <? bout s + FRAME); [apply hz_fail; discriminate|]. apply hz_put. unfold Iz. cbn. rewrite frame_val. lia.
  - apply hz_ret. unfold Iz. lia.
Qed.
Lemma out_byte_safe b s : Iz s -> hz (fun _ s' => Iz s') (out_byte b) s.
Proof.
  intro H. unfold out_byte. apply hz_get_bnd. destruct (N.leb_spec FRAME (wpos s)) as [E|E]; [unfold Iz in H; lia|].
  apply hz_put_bnd. apply flush_safe. cbn. unfold Iz in H. lia.
Qed.
Lemma land_frame x : N.land x (FRAME - 1) < FRAME.
Proof. change (FRAME - 1) with (N.ones 15). rewrite N.land_ones. change FRAME with (2 ^ 15). apply N.mod_lt. discriminate. Qed.
Lemma copy_match_safe : forall n mpos s, Iz s -> mpos < FRAME -> hz (fun _ s' => Iz s') (copy_match n mpos) s.
Proof.
  induction n as [|n IH]; intros mpos s H Hm; cbn [copy_match]; [apply hz_ret; exact H|].
  destruct (N.leb_spec FRAME mpos) as [E|E]; [lia|]. apply hz_get_bnd.
  eapply hz_bnd; [apply out_byte_safe; exact H|]. intros u1 s1 H1. apply IH; [exact H1|apply land_frame].
Qed.
Lemma put_bytes_safe : forall l s, wpos s + N.of_nat (length l) <= FRAME -> hz (fun _ s' => wpos s' <= FRAME) (put_bytes l) s.
Proof.
  induction l as [|b l IH]; intros s H; cbn [put_bytes]; [apply hz_ret; cbn [length] in H; lia|].
  cbn [length] in H. apply hz_get_bnd. destruct (N.leb_spec FRAME (wpos s)) as [E|E]; [lia|].
  apply hz_put_bnd. apply IH. cbn. lia.
Qed.
Lemma stored_copy_safe : forall f len s, Iz s -> hz (fun _ s' => Iz s') (stored_copy f len) s.
Proof.
  induction f as [|f IH]; intros len s H; cbn [stored_copy]; [apply hz_fail; discriminate|].
  destruct (len =? 0); [apply hz_ret; exact H|]. apply hz_get_bnd. cbv zeta.
  eapply (hz_bnd (fun l s' => s' = s /\ length l = N.to_nat (N.min len (FRAME - wpos s)))).
  { constructor. intros l Hl. constructor. split; [reflexivity|exact Hl]. }
  intros l s' [-> Hl]. unfold byte in *. eapply hz_bnd; [apply put_bytes_safe; rewrite Hl; unfold Iz in H; lia|].
  intros u1 s1 H1. cbv beta in H1. eapply hz_bnd; [apply flush_safe; exact H1|]. intros u2 s2 H2. apply IH. exact H2.
Qed.

Lemma read_bits_bound n g s : samez g s -> hz (fun v s' => samez g s' /\ v < 2 ^ n) (read_bits n) s.
Proof.
  intro Hs. unfold read_bits. apply (hzK_bnd g); [apply Kz_app; [auto with kzdb|exact Hs]|]. intros _ s0 Hs0.
  eapply (hz_bnd (fun v s' => samez g s' /\ v < 2 ^ n)).
  { unfold peek. apply hz_get_bnd. apply hz_ret. split; [exact Hs0|]. rewrite N.land_ones. apply N.mod_lt. apply N.pow_nonzero. discriminate. }
  intros v s1 [Hs1 Hv]. apply (hzK_bnd g); [apply Kz_app; [auto with kzdb|exact Hs1]|]. intros _ s2 Hs2. apply hz_ret. split; assumption.
Qed.
Lemma dist_bound d : d < 30 -> nthN dist_offsets d + 2 ^ nthN dist_extrabits d <= 32769.
Proof.
  intro H. assert (F : forallb (fun d => nthN dist_offsets d + 2 ^ nthN dist_extrabits d <=? 32769) (map N.of_nat (seq 0 30)) = true) by (vm_compute; reflexivity).
  rewrite forallb_forall in F. apply N.leb_le. apply F. apply in_map_iff. exists (N.to_nat d). split; [apply N2Nat.id|]. apply in_seq. lia.
Qed.

Lemma block_loop_safe : forall f s, Iz s -> hz (fun _ s' => Iz s') (block_loop f) s.
Proof.
  induction f as [|f IH]; intros s H; cbn [block_loop]; [apply hz_fail; discriminate|].
  assert (H0 : samez s s) by apply samez_refl.
  apply hz_get_bnd. apply (hzK_bnd s); [apply Kz_app; [auto with kzdb|exact H0]|]. intros code s1 Hs1.
  assert (I1 : Iz s1) by (unfold Iz in *; destruct Hs1 as [A _]; rewrite A; exact H).
  destruct (code <? 256).
  { eapply hz_bnd; [apply out_byte_safe; exact I1|]. intros u s2 I2. apply IH. exact I2. }
  destruct (code =? 256); [apply hz_ret; exact I1|]. cbv zeta.
  destruct (29 <=? code - 257); [apply hz_fail; discriminate|].
  apply (hzK_bnd s); [apply Kz_app; [auto with kzdb|exact Hs1]|]. intros e s2 Hs2.
  apply hz_get_bnd. apply (hzK_bnd s); [apply Kz_app; [auto with kzdb|exact Hs2]|]. intros dcode s3 Hs3.
  destruct (N.leb_spec 30 dcode) as [Ed|Ed]; [apply hz_fail; discriminate|].
  eapply hz_bnd; [apply (read_bits_bound _ s); exact Hs3|]. intros de s4 [Hs4 Hde]. cbv beta.
  apply hz_get_bnd.
  assert (I4 : wpos s4 < FRAME) by (unfold Iz in H; destruct Hs4 as [A _]; rewrite A; exact H).
  pose proof (dist_bound dcode Ed) as DB. rewrite frame_val in *.
  destruct (N.ltb_spec (32768 + wpos s4) (de + nthN dist_offsets dcode)) as [Eg|Eg]; [lia|].
  eapply hz_bnd; [apply copy_match_safe; [unfold Iz; rewrite frame_val; exact I4|]|].
  { rewrite frame_val. destruct (N.ltb_spec (wpos s4) (de + nthN dist_offsets dcode)); lia. }
  intros u s5 I5. apply IH. exact I5.
Qed.

Lemma inflate_safe : forall f s, Iz s -> hz (fun _ s' => wpos s' <= FRAME) (inflate f) s.
Proof.
  induction f as [|f IH]; intros s H; cbn [inflate]; [apply hz_fail; discriminate|].
  assert (H0 : samez s s) by apply samez_refl.
  apply (hzK_bnd s); [apply Kz_app; [auto with kzdb|exact H0]|]. intros last s1 Hs1.
  apply (hzK_bnd s); [apply Kz_app; [auto with kzdb|exact Hs1]|]. intros btype s2 Hs2.
  assert (I2 : Iz s2) by (unfold Iz in *; destruct Hs2 as [A _]; rewrite A; exact H).
  eapply (hz_bnd (fun _ s' => Iz s')).
  { destruct (btype =? 0).
    - apply hz_get_bnd. assert (G2 : samez s2 s2) by apply samez_refl.
      apply (hzK_bnd s2); [apply Kz_app; [auto with kzdb|exact G2]|]. intros u3 s3 Hs3.
      apply (hzK_bnd s2); [apply Kz_app; [auto with kzdb|exact Hs3]|]. intros [i lb] s4 Hs4.
      apply hz_get_bnd. destruct (negb (bl s4 =? 0)); [apply hz_fail; discriminate|].
      apply (hzK_bnd s2); [apply Kz_app; [auto with kzdb|exact Hs4]|]. intros lb' s5 Hs5. cbv zeta.
      match goal with |- hz _ (if ?b then _ else _) _ => destruct b end; [apply hz_fail; discriminate|].
      apply stored_copy_safe. unfold Iz in *. destruct Hs5 as [A _]. rewrite A. exact I2.
    - destruct ((btype =? 1) || (btype =? 2)); [|apply hz_fail; discriminate].
      assert (G2 : samez s2 s2) by apply samez_refl.
      apply (hzK_bnd s2).
      { destruct (btype =? 1); [|apply Kz_app; [auto with kzdb|exact G2]]. apply hz_get_bnd. apply hz_put. split; reflexivity. }
      intros u3 s3 Hs3. apply hz_get_bnd.
      destruct (make_decode_table LIT_SYMS LIT_BITS (fun x => tget LD (litlen s3) x 0)) as [lt|]; [|apply hz_fail; discriminate].
      destruct (make_decode_table DIST_SYMS DIST_BITS (fun x => tget LD (dislen s3) x 0)) as [dt|]; [|apply hz_fail; discriminate].
      apply hz_put_bnd. apply block_loop_safe. unfold Iz in *. cbn. destruct Hs3 as [A _]. rewrite A. exact I2. }
  intros u s6 I6. cbv beta in I6.
  destruct (last =? 1).
  - apply hz_get_bnd. destruct (negb (wpos s6 =? 0)).
    + cbv zeta. destruct (FRAME <? bout s6 + wpos s6); [apply hz_fail; discriminate|]. apply hz_put. cbn. unfold Iz in I6. lia.
    + apply hz_ret. unfold Iz in I6. lia.
  - apply IH. exact I6.
Qed.

(* one frame of mszipd_decompress ('CK' search, inflate) from ANY decoder state *)
Lemma zframe_safe st : hz (fun _ s' => wpos s' <= FRAME) zframe st.
Proof.
  unfold zframe. assert (H0 : samez st st) by apply samez_refl.
  apply hz_get_bnd. apply (hzK_bnd st); [apply Kz_app; [auto with kzdb|exact H0]|]. intros u1 s1 Hs1.
  apply (hzK_bnd st); [apply Kz_app; [auto with kzdb|exact Hs1]|]. intros u2 s2 Hs2.
  apply hz_get_bnd. apply hz_put_bnd. apply inflate_safe. unfold Iz. cbn. rewrite frame_val. lia.
Qed.

Theorem zframe_never_oob rule hint st i r i' : ideal rule hint (zframe st) i = (SVal r, i') ->
  match r with inl e => e <> IErr OOBZ | inr (_, s') => wpos s' <= FRAME end.
Proof.
  intro E. pose proof (leaves_run (fun _ => True) _ rule hint _ I (zframe_safe st) _ _ _ E) as L.
  destruct r as [e|[u s']]; exact L.
Qed.
(* non-vacuity of the ghost checks: a store with window_posn at the end of the window goes wrong *)
Example ghost_checks_bite : out_byte 65 (upd_win init Emp FRAME 0) = SRet (inl (IErr OOBZ)).
Proof. reflexivity. Qed.
