(* Facts about the bit-indexed tries used as windows (Model/LzssBase.v: wtree / wget / wset). *)
From Coq Require Import List NArith Lia Bool.
From MSP Require Import Model.LzssBase.
Local Open Scope N_scope.

Lemma div2_lt i d : i < 2 ^ N.of_nat (S d) -> N.div2 i < 2 ^ N.of_nat d.
Proof.
  intro H. rewrite Nat2N.inj_succ, N.pow_succ_r' in H. rewrite N.div2_div.
  apply N.div_lt_upper_bound; lia.
Qed.
Lemma odd_div2_inj i i' : N.odd i = N.odd i' -> N.div2 i = N.div2 i' -> i = i'.
Proof.
  intros Ho Hd. pose proof (N.div2_odd i) as A. pose proof (N.div2_odd i') as B.
  rewrite Ho, Hd in A. congruence.
Qed.

Lemma wget_wset_same : forall d t i b j, wget d (wset d t i b) i j = b.
Proof.
  induction d as [|d IH]; intros t i b j; cbn [wget wset]; [reflexivity|].
  destruct t as [| |l r]; destruct (N.odd i) eqn:E; cbn [wget]; rewrite ?E; apply IH.
Qed.
Lemma wget_emp d i j : wget d Emp i j = j.
Proof. destruct d; reflexivity. Qed.
Lemma wget_wset_other : forall d t i i' b j, i <> i' -> i < 2 ^ N.of_nat d -> i' < 2 ^ N.of_nat d ->
  wget d (wset d t i b) i' j = wget d t i' j.
Proof.
  induction d as [|d IH]; intros t i i' b j Hne Hi Hi'.
  - cbn in Hi, Hi'. lia.
  - cbn [wget wset].
    assert (Hcase : N.odd i <> N.odd i' \/ (N.odd i = N.odd i' /\ N.div2 i <> N.div2 i')).
    { destruct (Bool.bool_dec (N.odd i) (N.odd i')) as [E|E]; [right|left; exact E]. split; [exact E|]. intro D. apply Hne. apply odd_div2_inj; assumption. }
    destruct t as [| |l r]; destruct (N.odd i) eqn:Ei; destruct (N.odd i') eqn:Ei'; cbn [wget]; rewrite ?Ei';
      try reflexivity;
      try (destruct Hcase as [C|[_ C]]; [congruence|]; rewrite IH; [reflexivity|exact C|apply div2_lt; exact Hi|apply div2_lt; exact Hi']);
      try (destruct Hcase as [C|[C _]]; congruence).
    all: try apply wget_emp.
    all: destruct Hcase as [C|[_ C]]; [exfalso; apply C; reflexivity|]; rewrite IH; [apply wget_emp|exact C|apply div2_lt; exact Hi|apply div2_lt; exact Hi'].
Qed.

(* a trie with no unset cell below 2^d: reads do not depend on the default ("junk") *)
Definition nojunk (d : nat) (t : wtree) : Prop := forall i j1 j2, i < 2 ^ N.of_nat d -> wget d t i j1 = wget d t i j2.

Lemma wget_full : forall d v i j, wget d (full_tree d v) i j = v.
Proof. induction d as [|d IH]; intros v i j; cbn [wget full_tree]; [reflexivity|]. destruct (N.odd i); apply IH. Qed.
Lemma nojunk_full d v : nojunk d (full_tree d v).
Proof. intros i j1 j2 _. rewrite !wget_full. reflexivity. Qed.
Lemma nojunk_wset d t i b : nojunk d t -> i < 2 ^ N.of_nat d -> nojunk d (wset d t i b).
Proof.
  intros Hn Hi i' j1 j2 Hi'. destruct (N.eq_dec i i') as [->|Hne].
  - rewrite !wget_wset_same. reflexivity.
  - rewrite !(wget_wset_other d t i i' b) by assumption. apply Hn. exact Hi'.
Qed.
