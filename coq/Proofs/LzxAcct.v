(* Output accounting of the real LZX port (Model/Lzx.v decompress = lzxd_decompress): a call asked for n bytes never writes more than n,
   and writes exactly n when it returns OK - for every input, every stream state, every output-length hint (C07). *)
From Coq Require Import List NArith ZArith Lia Bool.
Import ListNotations.
From MSP Require Import Base.Src Model.Mszip Model.Lzx Proofs.NoWrite Proofs.LzxClean.
From RecordUpdate Require Import RecordSet.
Local Open Scope N_scope.

Section Acct.
Variable n : N.
Definition acm {A} (Q : A -> N -> Prop) (w : N) (m : lm A) : Prop :=
  forall s, acct (fun r w' => match r with inl e => e <> 0 /\ w' <= n | inr (a, _) => Q a w' end) (fun w' => w' <= n) w (m s).
Lemma acm_bnd {A B} (Q1 : A -> N -> Prop) (Q2 : B -> N -> Prop) w (m : lm A) (f : A -> lm B) :
  acm Q1 w m -> (forall a w', Q1 a w' -> acm Q2 w' (f a)) -> acm Q2 w (bnd m f).
Proof. intros Hm Hf s. unfold bnd. eapply acct_sbind; [apply Hm|]. intros [e|[a s']] w' H; [constructor; exact H|apply Hf; exact H]. Qed.
Lemma acm_nw {A} (m : lm A) w : nwm m -> w <= n -> acm (fun _ w' => w' = w) w m.
Proof.
  intros Hm Hw s. eapply acct_weaken; [apply (acct_nowrite nz (fun w1 => w1 <= n)); [apply Hm|exact Hw]|].
  intros [e|[a s']] w' [L E]; subst; [split; [exact L|exact Hw]|reflexivity].
Qed.
Lemma acm_write d w : acm (fun _ w' => w' = w + N.of_nat (length d)) w (write d).
Proof. intro s. unfold write. constructor. constructor. reflexivity. Qed.
Lemma acm_ret {A} (Q : A -> N -> Prop) a w : Q a w -> acm Q w (ret a). Proof. intros H s. constructor. exact H. Qed.
Lemma acm_fail {A} (Q : A -> N -> Prop) e w : e <> 0 -> w <= n -> acm Q w (fail e). Proof. intros H1 H2 s. constructor. split; assumption. Qed.

Lemma span_len : forall k w i acc, length (span k w i acc) = (k + length acc)%nat.
Proof. induction k as [|k IH]; intros w i acc; cbn [span]; [rewrite rev_append_rev, app_length, rev_length; cbn; lia|]. rewrite IH. cbn [length]. lia. Qed.
Lemma obytes_len s k : N.of_nat (length (obytes s k)) = k.
Proof. unfold obytes. rewrite span_len. cbn [length]. lia. Qed.

Ltac step := match goal with
  | |- acm _ _ (bnd (write _) _) => eapply acm_bnd; [apply acm_write|intros ? ? ->; rewrite obytes_len]
  | |- acm _ _ (bnd _ _) => eapply acm_bnd; [apply acm_nw; [solve [nw]|lia]|intros ? ? ->]
  | |- acm _ _ (fail _) => apply acm_fail; [let HH := fresh in intro HH; vm_compute in HH; discriminate|lia]
  end.

Lemma frame_loop_acct : forall f ef ob w, w + ob = n -> acm (fun rest w' => w' + rest = n) w (frame_loop f ef ob).
Proof.
  induction f as [|f IH]; intros ef ob w Hw; cbn [frame_loop]; [step|].
  step. destruct (ef <=? frame a); [apply acm_ret; exact Hw|].
  repeat first [step | match goal with |- acm _ _ (if ?b then _ else _) => destruct b end | progress cbv zeta].
  apply IH. lia.
Qed.

Lemma decompress_acct : acm (fun _ w' => w' = n) 0 (decompress n).
Proof.
  unfold decompress. step.
  destruct (N.eqb_spec (err a) 0) as [E|E]; cbn [negb]; [|apply acm_fail; [exact E|lia]].
  cbv zeta. set (i := N.min (oend a - optr a) n). assert (Hin : i <= n) by (unfold i; lia). clearbody i.
  eapply (acm_bnd (fun _ w' => w' = i)).
  - destruct (0 <? i) eqn:Hi.
    + step. intro s0. unfold modify. constructor. lia.
    + apply acm_ret. apply N.ltb_ge in Hi. lia.
  - intros _ w' ->. destruct (N.eqb_spec (n - i) 0) as [E0|E0]; [apply acm_ret; lia|].
    step. eapply acm_bnd; [apply frame_loop_acct; lia|]. intros rest w' Hr. cbv beta in Hr.
    destruct (N.eqb_spec rest 0) as [Er|Er]; cbn [negb]; [apply acm_ret; lia|]. apply acm_fail; [let HH := fresh in intro HH; vm_compute in HH; discriminate|lia].
Qed.
End Acct.

Theorem lzx_call_acct hint s i n st s' i' : lzx_call hint s i n = (st, s', i') ->
  olen i <= olen i' /\ olen i' <= olen i + n /\ (st = 0 -> olen i' = olen i + n).
Proof.
  unfold lzx_call. intro H.
  destruct (ideal EofPad2 hint (decompress n s) i) as [r i1] eqn:E.
  destruct (acct_run _ _ _ _ _ _ (decompress_acct n s) (olen i) i r i1 ltac:(lia) E) as (w' & A & B & C).
  destruct r as [[e|[[] s1]]|e]; inversion H; subst; (split; [lia|]).
  - destruct C as [C1 C2]. split; [lia|]. intro; contradiction.
  - split; lia.
  - destruct C as [C1 C2]. split; [lia|]. subst. intro HH. vm_compute in HH. discriminate.
Qed.

(* a sequence of calls on one stream: never more than the sum of the requests, exactly the sum when every call said OK *)
Definition sumN (l : list N) : N := fold_right N.add 0 l.
Lemma lzx_calls_acct hint : forall reqs s i acc sts i', lzx_calls hint reqs s i acc = (sts, i') ->
  exists sts', sts = rev acc ++ sts' /\ length sts' = length reqs /\
    olen i <= olen i' /\ olen i' <= olen i + sumN reqs /\ (Forall (fun st => st = 0) sts' -> olen i' = olen i + sumN reqs).
Proof.
  induction reqs as [|n reqs IH]; intros s i acc sts i' H; cbn [lzx_calls] in H.
  - inversion H; subst. exists []. rewrite rev_append_rev. cbn [sumN fold_right length]. repeat split; try lia. 
  - destruct (lzx_call hint s i n) as [[st s1] i1] eqn:E. destruct (lzx_call_acct _ _ _ _ _ _ _ E) as (A & B & C).
    destruct (IH _ _ _ _ _ H) as (sts' & E1 & E2 & E3 & E4 & E5). exists (st :: sts'). cbn [rev] in E1. rewrite <- app_assoc in E1. cbn [app] in E1.
    cbn [sumN fold_right length]. fold (sumN reqs). split; [exact E1|]. split; [lia|]. split; [lia|]. split; [lia|].
    intro F. inversion F as [|? ? F1 F2]; subst. specialize (C eq_refl). specialize (E5 F2). lia.
Qed.
Theorem lzx_run_acct wb ri outlen delta ref inp reqs sts out : lzx_run wb ri outlen delta ref inp reqs = (sts, out) ->
  length sts = length reqs /\ N.of_nat (length out) <= sumN reqs /\ (Forall (fun st => st = 0) sts -> N.of_nat (length out) = sumN reqs).
Proof.
  unfold lzx_run. intro H.
  destruct (lzx_calls outlen reqs (lzx_init wb ri delta ref) {| irest := inp ++ pad EofPad2; iout := [] |} []) as [sts0 i'] eqn:E.
  inversion H; subst. destruct (lzx_calls_acct _ _ _ _ _ _ _ E) as (sts' & E1 & E2 & E3 & E4 & E5). cbn [rev app] in E1. subst sts'.
  unfold olen in *. cbn [iout length] in *. rewrite rev_append_rev, app_nil_r, rev_length. split; [exact E2|]. split; [lia|]. intro F. specialize (E5 F). lia.
Qed.
