(* Extraction histories on the cabinet model (Model/Cab.v), MSZIP folders: cabd_extract continuing with the decoder it kept from
   earlier calls gives each member the bytes a fresh decompressor gives it - for every list of members of the folder extracted in
   order of their offsets.  Block reader + buffered interpreter (Proofs/CabP.v) + resumability of the decoder (Proofs/MszipResume.v). *)
From Coq Require Import List NArith ZArith Lia Bool.
Import ListNotations.
From MSP Require Import Base.Src Gen.Consts Gen.Tables Model.Chm Model.Cab Proofs.ChmEnc Proofs.Sim Proofs.CabP Proofs.MszipResume Proofs.MszipAcct Proofs.IdealOut Proofs.CabSlice.
From MSP Require Model.Mszip.
Local Open Scope N_scope.

Section Hist.
Variable file : list N.
Variable par : params.
Variable cab : cabinet.
Hypothesis bufpos : 0 < p_bufsize par.
Variables (fidx : N) (fo : cfolder) (pre post : list N) (bs : list blk).
Hypothesis Hfo : nth_error (c_folders cab) (N.to_nat fidx) = Some fo.
Hypothesis Hct : ctype (fo_comp fo) = cffoldCOMPTYPE_MSZIP.
Hypothesis Hfile : file = pre ++ encs bs ++ post.
Hypothesis Hoff : fo_offset fo = Z.of_N (len pre).
Hypothesis Hnb : N.of_nat (length bs) = fo_nblocks fo.
Hypothesis Hwf : Forall (wf_blk (c_bres cab)) bs.
Notation comp := (fo_comp fo).
Notation QQ := (Q (c_bres cab) comp (fo_nblocks fo) file).

(* the state cabd_extract leaves behind after a successful call on this folder: decoder state z, the ideal source at i *)
Definition minv (st : cstate) (z : Mszip.zstream) (i : ist) : Prop :=
  cs_folder st = Some fidx /\ cs_dec st = Some (DZip z) /\ iout i = [] /\ Mszip.zo z <= Mszip.zend z /\
  exists hs, QQ false [] (h_off (cs_host st)) 0 post (cs_host st) hs /\ out hs = [] /\ R EofPad2 i (cs_bst st) hs.

Lemma Q_norm h hs off : QQ false [] off 0 post h hs -> QQ false [] off 0 post (clear_out (with_writing h false)) hs.
Proof.
  intros ((pre1 & bs1 & Hat & Hrem) & Hw & Hh & Ho & Hout). unfold Q, clear_out, with_writing.
  cbn [h_off h_writing h_hint h_out h_ibuf h_pos h_block h_open]. split; [|split; [reflexivity|split; [exact Hh|split; [exact Ho|reflexivity]]]].
  exists pre1, bs1. split; [|exact Hrem]. destruct Hat as (A & B & C & D & E). unfold at_blocks. cbn [h_pos h_block h_ibuf h_open]. repeat split; assumption.
Qed.
Lemma Q_write h hs off : QQ false [] off 0 post h hs -> out hs = [] ->
  QQ true [] off 0 post (with_writing h true) {| rem := rem hs; out := [] |}.
Proof.
  intros ((pre1 & bs1 & Hat & Hrem) & Hw & Hh & Ho & Hout) Hoe. unfold Q, with_writing.
  cbn [h_off h_writing h_hint h_out h_ibuf h_pos h_block h_open rem out]. split; [|split; [reflexivity|split; [exact Hh|split; [rewrite Ho, Hoe; reflexivity|rewrite Hout; reflexivity]]]].
  exists pre1, bs1. split; [|exact Hrem]. destruct Hat as (A & B & C & D & E). unfold at_blocks. cbn [h_pos h_block h_ibuf h_open]. repeat split; assumption.
Qed.

Lemma prechecks_unfold f : prechecks par fo f = true ->
  (CAB_LENGTHMAX <? fi_off f) = false /\ (CAB_LENGTHMAX - fi_off f <? fi_len f) = false /\ fo_mprev fo = false /\
  negb (p_salvage par) && (((fo_nblocks fo * CAB_BLOCKMAX) mod M32 <? fi_off f) || ((fo_nblocks fo * CAB_BLOCKMAX) mod M32 - fi_off f <? fi_len f)) = false.
Proof.
  intro Hpre. unfold prechecks in Hpre.
  apply andb_true_iff in Hpre as [Hpre H4]. apply andb_true_iff in Hpre as [Hpre H3]. apply andb_true_iff in Hpre as [H1 H2].
  apply N.leb_le in H1, H2. apply negb_true_iff in H3.
  split; [apply N.ltb_ge; exact H1|]. split; [apply N.ltb_ge; exact H2|]. split; [exact H3|].
  destruct (p_salvage par); [reflexivity|]. cbn [orb negb andb] in *. apply andb_true_iff in H4 as [A B]. apply N.leb_le in A, B.
  replace (_ <? fi_off f) with false by (symmetry; apply N.ltb_ge; exact A). replace (_ <? fi_len f) with false by (symmetry; apply N.ltb_ge; exact B). reflexivity.
Qed.

(* one call of cabd_extract on a state with a live decoder of this folder, for a member not behind the folder offset *)
Theorem mszip_extract_from st z i f z1 i1 z2 i2 :
  minv st z i -> fi_folder f = fidx -> prechecks par fo f = true -> fi_len f <> 0 ->
  h_off (cs_host st) <= fi_off f ->
  (if fi_off f - h_off (cs_host st) =? 0 then (SVal (MSPACK_ERR_OK, false, z), i)
   else ideal EofPad2 0 (Mszip.zcall (fi_off f - h_off (cs_host st)) z) i) = (SVal (MSPACK_ERR_OK, false, z1), i1) ->
  ideal EofPad2 0 (Mszip.zcall (fi_len f) z1) {| irest := irest i1; iout := [] |} = (SVal (MSPACK_ERR_OK, false, z2), i2) ->
  exists st', extract file par cab st f = (MSPACK_ERR_OK, rev (iout i2), st') /\
              minv st' z2 {| irest := irest i2; iout := [] |} /\ h_off (cs_host st') = fi_off f + fi_len f.
Proof.
  intros (Hcf & Hcd & Hio & Hzz & hs & HQ & Hoe & HR) Hff Hpre Hlen Hle Hskip Hext.
  destruct (prechecks_unfold f Hpre) as (P1 & P2 & P3 & P4).
  unfold extract. rewrite P1, P2. cbn [andb]. rewrite Hff, Hfo, P3, P4.
  rewrite Hcf, Hcd. rewrite N.eqb_refl. cbn [negb orb].
  replace (fi_off f <? h_off (cs_host st)) with false by (symmetry; apply N.ltb_ge; exact Hle). cbn [orb N.eqb negb]. cbn beta zeta iota. rewrite Hcd.
  replace (fi_len f =? 0) with false by (symmetry; apply N.eqb_neq; exact Hlen).
  assert (Hnl : ctype comp <> cffoldCOMPTYPE_LZX) by (rewrite Hct; discriminate).
  set (h0 := clear_out (with_writing (cs_host st) false)).
  assert (Hh0 : h_off h0 = h_off (cs_host st)) by reflexivity. rewrite Hh0.
  pose proof (Q_norm _ _ _ HQ) as HQ0. fold h0 in HQ0.
  (* skip *)
  assert (Hs : exists h1 hs1 b1, (if fi_off f - h_off (cs_host st) =? 0 then (0, DZip z, cs_bst st, h0)
                                  else dec_call file par cab fo (DZip z) (cs_bst st) h0 (fi_off f - h_off (cs_host st))) = (0, DZip z1, b1, h1) /\
            QQ false [] (h_off (cs_host st)) 0 post h1 hs1 /\ R EofPad2 i1 b1 hs1 /\ iout i1 = out hs1).
  { destruct (N.eqb_spec (fi_off f - h_off (cs_host st)) 0) as [E0|NE].
    - inversion Hskip; subst. exists h0, hs, (cs_bst st). split; [reflexivity|]. split; [exact HQ0|]. split; [exact HR|]. rewrite Hio, Hoe. reflexivity.
    - unfold dec_call.
      pose proof (cab_buffered_ideal_rel par (c_bres cab) comp (fo_nblocks fo) file Hnl (Mszip.zcall (fi_off f - h_off (cs_host st)) z) (bufsize_even par) EofPad2
                    false [] (h_off (cs_host st)) 0 post i (cs_bst st) h0 _ (bufsize_even_pos par bufpos) HQ0 HR) as P.
      destruct (Cab.cexec file par (c_bres cab) comp (fo_nblocks fo) h0 (buffered (bufsize_even par) EofPad2 (Mszip.zcall (fi_off f - h_off (cs_host st)) z) (cs_bst st))) as [[r2 b1] h1].
      rewrite Hskip in P. destruct P as (<- & hs1 & HQ1 & Ho1 & HR1). cbn [andb]. exists h1, hs1, b1. split; [reflexivity|]. split; [exact HQ1|]. split; [exact (HR1 _ eq_refl)|exact Ho1]. }
  destruct Hs as (h1 & hs1 & b1 & E1 & HQ1 & HR1 & Ho1). rewrite E1. cbn [N.eqb negb].
  (* what the skip wrote: exactly the distance *)
  assert (Hoff1 : h_off h1 = fi_off f).
  { destruct HQ1 as (_ & _ & _ & Ho & _). rewrite Ho.
    destruct (N.eqb_spec (fi_off f - h_off (cs_host st)) 0) as [E0|NE].
    - inversion Hskip; subst. rewrite <- Ho1, Hio. unfold len. cbn. lia.
    - destruct (zcall_acct EofPad2 0 _ _ _ _ _ Hzz Hskip) as (_ & _ & A). destruct (A _ _ eq_refl) as [L _].
      unfold olen in L. rewrite Hio in L. cbn [length] in L. rewrite <- Ho1. unfold len, byte in *. lia. }
  assert (Hz1 : Mszip.zo z1 <= Mszip.zend z1).
  { destruct (N.eqb_spec (fi_off f - h_off (cs_host st)) 0) as [E0|NE]; [inversion Hskip; subst; exact Hzz|].
    destruct (zcall_acct EofPad2 0 _ _ _ _ _ Hzz Hskip) as (_ & _ & A). destruct (A _ _ eq_refl) as [_ B]. exact B. }
  (* extract *)
  assert (HQ1' : QQ true [] (h_off h1) 0 post (with_writing h1 true) {| rem := rem hs1; out := [] |}).
  { destruct HQ1 as ((pre1 & bs1 & Hat & Hrem) & Hw & Hh & Ho & Hout). unfold Q, with_writing.
    cbn [h_off h_writing h_hint h_out h_ibuf h_pos h_block h_open rem out]. split; [|split; [reflexivity|split; [exact Hh|split; [cbn; lia|rewrite Hout; reflexivity]]]].
    exists pre1, bs1. split; [|exact Hrem]. destruct Hat as (A & B & C & D & E). unfold at_blocks. cbn [h_pos h_block]. repeat split; assumption. }
  assert (HR1' : R EofPad2 {| irest := irest i1; iout := [] |} b1 {| rem := rem hs1; out := [] |}).
  { destruct HR1 as (A & B & C & D). unfold R. cbn. repeat split; assumption. }
  unfold dec_call.
  pose proof (cab_buffered_ideal_rel par (c_bres cab) comp (fo_nblocks fo) file Hnl (Mszip.zcall (fi_len f) z1) (bufsize_even par) EofPad2
                true [] (h_off h1) 0 post _ b1 (with_writing h1 true) _ (bufsize_even_pos par bufpos) HQ1' HR1') as P.
  destruct (Cab.cexec file par (c_bres cab) comp (fo_nblocks fo) (with_writing h1 true) (buffered (bufsize_even par) EofPad2 (Mszip.zcall (fi_len f) z1) b1)) as [[r2 b2] h2].
  rewrite Hext in P. destruct P as (<- & hs2 & HQ2 & Ho2 & HR2). cbn [andb N.eqb negb].
  eexists. split; [|split].
  - f_equal. f_equal. destruct HQ2 as (_ & _ & _ & _ & Hout). rewrite Hout, <- Ho2, app_nil_r, rev_append_rev, app_nil_r. reflexivity.
  - (* the invariant again *)
    destruct (zcall_acct EofPad2 0 _ _ _ _ _ Hz1 Hext) as (_ & _ & A). destruct (A _ _ eq_refl) as [L2 Hz2].
    unfold minv. cbn [cs_folder cs_dec cs_host cs_bst iout]. split; [exact Hcf|]. split; [reflexivity|]. split; [reflexivity|]. split; [exact Hz2|].
    exists {| rem := rem hs2; out := [] |}. cbn [out]. split; [|split; [reflexivity|]].
    + destruct HQ2 as ((pre2 & bs2 & Hat & Hrem) & Hw & Hh & Ho & Hout). unfold Q, clear_out, with_writing.
      cbn [h_off h_writing h_hint h_out h_ibuf h_pos h_block h_open rem out]. split; [|split; [reflexivity|split; [exact Hh|split; [cbn; lia|reflexivity]]]].
      exists pre2, bs2. split; [|exact Hrem]. destruct Hat as (A1 & B1 & C1 & D1 & E1'). unfold at_blocks. cbn [h_pos h_block h_ibuf h_open]. repeat split; assumption.
    + specialize (HR2 _ eq_refl). destruct HR2 as (A1 & B1 & C1 & D1). unfold R. cbn. repeat split; assumption.
  - cbn [cs_host]. unfold clear_out, with_writing. cbn [h_off].
    destruct HQ2 as (_ & _ & _ & Ho & _). rewrite Ho, Hoff1.
    destruct (zcall_acct EofPad2 0 _ _ _ _ _ Hz1 Hext) as (_ & _ & A). destruct (A _ _ eq_refl) as [L2 _].
    unfold olen in L2. cbn [iout length] in L2. rewrite <- Ho2. unfold len, byte in *. lia.
Qed.

(* ---------- chaining: the state reached after T bytes of the folder ---------- *)
Definition i0 : ist := {| irest := pays comp bs ++ pad EofPad2; iout := [] |}.
Definition reach (T : N) (z : Mszip.zstream) (i : ist) : Prop :=
  exists iT, ideal EofPad2 0 (Mszip.zcall T Mszip.zinit) i0 = (SVal (MSPACK_ERR_OK, false, z), iT) /\ i = {| irest := irest iT; iout := [] |}.

Lemma zinit_ok : Mszip.zo Mszip.zinit <= Mszip.zend Mszip.zinit. Proof. vm_compute. discriminate. Qed.
Lemma nofuel_ok z : nofuel (SVal (MSPACK_ERR_OK, false, z)). Proof. unfold nofuel. vm_compute. discriminate. Qed.

(* a later request, seen from the state reached after T bytes *)
Lemma from_reach T z i b zf iF : reach T z i ->
  ideal EofPad2 0 (Mszip.zcall (T + b) Mszip.zinit) i0 = (SVal (MSPACK_ERR_OK, false, zf), iF) ->
  exists i2, ideal EofPad2 0 (Mszip.zcall b z) i = (SVal (MSPACK_ERR_OK, false, zf), i2) /\
             irest i2 = irest iF /\ exists iT, iout iF = iout i2 ++ iout iT /\ N.of_nat (length (iout iT)) = T /\ N.of_nat (length (iout i2)) = b.
Proof.
  intros (iT & HT & Hi) Hrun. subst i.
  pose proof (zcall_split EofPad2 0 _ _ _ _ _ _ _ _ zinit_ok HT Hrun (nofuel_ok zf)) as H2.
  destruct (zcall_acct EofPad2 0 _ _ _ _ _ zinit_ok HT) as (_ & _ & A1). destruct (A1 _ _ eq_refl) as [L1 Hz1].
  destruct (zcall_acct EofPad2 0 _ _ _ _ _ Hz1 H2) as (_ & _ & A2). destruct (A2 _ _ eq_refl) as [L2 _].
  set (ie := {| irest := irest iT; iout := [] |}).
  assert (HiT : iT = push ie (iout iT)) by (destruct iT; reflexivity).
  rewrite HiT, ideal_push in H2. destruct (ideal EofPad2 0 (Mszip.zcall b z) ie) as [r2 i2] eqn:E2.
  apply pair_equal_spec in H2 as [Hr2 HiF]. subst r2. exists i2. split; [reflexivity|]. split; [rewrite <- HiF; reflexivity|].
  exists iT. split; [rewrite <- HiF; reflexivity|]. unfold olen, i0 in L1. cbn [iout length] in L1. split; [unfold byte in *; lia|].
  unfold olen in L2. rewrite <- HiF in L2. unfold push in L2. cbn [iout] in L2. rewrite app_length in L2. unfold byte in *. lia.
Qed.

(* one more member, in terms of ONE ideal run over the folder up to the member's end *)
Theorem hist_step st z i f zf iF :
  minv st z i -> reach (h_off (cs_host st)) z i -> fi_folder f = fidx -> prechecks par fo f = true -> fi_len f <> 0 ->
  h_off (cs_host st) <= fi_off f ->
  ideal EofPad2 0 (Mszip.zcall (fi_off f + fi_len f) Mszip.zinit) i0 = (SVal (MSPACK_ERR_OK, false, zf), iF) ->
  exists st', extract file par cab st f = (MSPACK_ERR_OK, skipn (N.to_nat (fi_off f)) (rev (iout iF)), st') /\
              minv st' zf {| irest := irest iF; iout := [] |} /\ reach (fi_off f + fi_len f) zf {| irest := irest iF; iout := [] |} /\
              h_off (cs_host st') = fi_off f + fi_len f.
Proof.
  intros Hinv Hreach Hff Hpre Hlen Hle Hrun. set (T := h_off (cs_host st)) in *.
  (* the run up to the member's offset *)
  destruct (zcall_prefix EofPad2 0 (fi_off f) (fi_len f) _ _ _ _ zinit_ok Hrun) as (z1 & iA & HA).
  replace (fi_off f) with (T + (fi_off f - T)) in HA by lia.
  destruct (from_reach T z i _ _ _ Hreach HA) as (i1 & Hs & Hr1 & iT & Ho1 & LT & L1).
  (* skip hypothesis in the shape mszip_extract_from wants *)
  assert (Hskip : (if fi_off f - T =? 0 then (SVal (MSPACK_ERR_OK, false, z), i) else ideal EofPad2 0 (Mszip.zcall (fi_off f - T) z) i) = (SVal (MSPACK_ERR_OK, false, z1), i1)).
  { destruct (N.eqb_spec (fi_off f - T) 0) as [E0|NE]; [|exact Hs]. rewrite E0 in Hs.
    destruct Hinv as (_ & _ & Hio & Hzz & _).
    assert (He : Mszip.zerr z = 0).
    { destruct (N.eqb_spec (Mszip.zerr z) 0) as [E|E]; [exact E|]. unfold Mszip.zcall in Hs. replace (Mszip.zerr z =? 0) with false in Hs by (symmetry; apply N.eqb_neq; exact E).
      cbn in Hs. change MSPACK_ERR_OK with 0 in Hs. inversion Hs. congruence. }
    rewrite (zcall_unfold EofPad2 0) in Hs by exact He. cbv zeta in Hs. rewrite N.min_r in Hs by lia. cbn [N.sub N.eqb] in Hs. rewrite wr_0, N.add_0_r in Hs.
    apply pair_equal_spec in Hs as [Hv Hi]. injection Hv as Hv. subst i1. rewrite <- Hv. clear - He.
    destruct z as [a b c d]. cbn [Mszip.zs Mszip.zo Mszip.zend Mszip.zerr] in *. subst d. reflexivity. }
  (* the member itself, from the state after the skip *)
  assert (Hreach1 : reach (fi_off f) z1 {| irest := irest i1; iout := [] |}).
  { exists iA. split; [replace (fi_off f) with (T + (fi_off f - T)) by lia; exact HA|]. rewrite Hr1. reflexivity. }
  destruct (from_reach (fi_off f) z1 _ (fi_len f) zf iF Hreach1 Hrun) as (i2 & He & Hr2 & iO & Ho2 & LO & L2).
  destruct (mszip_extract_from st z i f z1 i1 zf i2 Hinv Hff Hpre Hlen Hle Hskip He) as (st' & Ex & Hinv' & Hoff').
  exists st'. split; [|split; [|split; [|exact Hoff']]].
  - rewrite Ex. f_equal. f_equal. rewrite Ho2. symmetry. apply rev_skipn_len. exact LO.
  - rewrite <- Hr2. exact Hinv'.
  - exists iF. split; [exact Hrun|reflexivity].
Qed.

(* ---------- whole histories ---------- *)
Fixpoint seq_extract (st : cstate) (fs : list cfile) : list (N * list N) :=
  match fs with [] => [] | f :: r => let '(e, o, st') := extract file par cab st f in (e, o) :: seq_extract st' r end.
Definition run_to (f : cfile) := ideal EofPad2 0 (Mszip.zcall (fi_off f + fi_len f) Mszip.zinit) i0.
Definition good (f : cfile) : Prop :=
  fi_folder f = fidx /\ prechecks par fo f = true /\ fi_len f <> 0 /\ exists zf, fst (run_to f) = SVal (MSPACK_ERR_OK, false, zf).
Definition want (f : cfile) : N * list N := (MSPACK_ERR_OK, skipn (N.to_nat (fi_off f)) (rev (iout (snd (run_to f))))).
(* each member starts at or after the end of the one before *)
Fixpoint ordered (from : N) (fs : list cfile) : Prop :=
  match fs with [] => True | f :: r => from <= fi_off f /\ ordered (fi_off f + fi_len f) r end.

Lemma seq_from : forall fs st z i, minv st z i -> reach (h_off (cs_host st)) z i -> ordered (h_off (cs_host st)) fs -> Forall good fs ->
  seq_extract st fs = map want fs.
Proof.
  induction fs as [|f r IH]; intros st z i Hinv Hreach Hord Hgood; [reflexivity|].
  cbn [seq_extract map]. destruct Hord as [Hle Hord]. inversion Hgood as [|? ? (Hff & Hpre & Hlen & zf & Hrun) Hgr]; subst.
  unfold run_to in Hrun. destruct (ideal EofPad2 0 (Mszip.zcall (fi_off f + fi_len f) Mszip.zinit) i0) as [rr iF] eqn:E. cbn [fst] in Hrun. subst rr.
  destruct (hist_step st z i f zf iF Hinv Hreach Hff Hpre Hlen Hle E) as (st' & Ex & Hinv' & Hreach' & Hoff').
  rewrite Ex. f_equal.
  - unfold want, run_to. rewrite E. reflexivity.
  - apply (IH st' zf _ Hinv'); [rewrite Hoff'; exact Hreach'|rewrite Hoff'; exact Hord|exact Hgr].
Qed.

(* the state cabd_extract builds when it (re)initialises the decoder for this folder *)
Definition st0 : cstate := mkCS (Some fidx) (Some (DZip Mszip.zinit)) {| bbuf := []; bend := false |} (mkH (fo_offset fo) true [] 0 0 0 0 false [] 0).
Lemma minv_st0 : bs <> [] -> minv st0 Mszip.zinit i0 /\ reach (h_off (cs_host st0)) Mszip.zinit i0.
Proof.
  intro Hne. split.
  - unfold minv, st0. cbn [cs_folder cs_dec cs_host cs_bst h_off]. split; [reflexivity|]. split; [reflexivity|]. split; [reflexivity|]. split; [apply zinit_ok|].
    exists {| rem := pays comp bs; out := [] |}. cbn [out]. split; [|split; [reflexivity|]].
    + unfold Q. cbn. repeat split. exists pre, bs. split; [|reflexivity]. unfold at_blocks. cbn. repeat split; try assumption.
      * intros ->. contradiction.
      * intros _. lia.
    + unfold R, i0. cbn. repeat split; auto. discriminate.
  - exists i0. split; [|reflexivity]. cbn [st0 cs_host h_off]. vm_compute. reflexivity.
Qed.

Lemma extract_fresh_is_st0 f : fi_folder f = fidx -> prechecks par fo f = true -> extract file par cab cs_init f = extract file par cab st0 f.
Proof.
  intros Hff Hpre. destruct (prechecks_unfold f Hpre) as (P1 & P2 & P3 & P4).
  unfold extract. rewrite P1, P2. cbn [andb]. rewrite Hff, Hfo, P3, P4.
  assert (Hinit : init_decomp (fo_comp fo) = inr (DZip Mszip.zinit)) by (unfold init_decomp; unfold ctype in Hct; rewrite Hct; reflexivity).
  cbn [cs_init st0 cs_folder cs_dec cs_host cs_bst h_off negb orb]. rewrite Hinit, (N.eqb_refl fidx). cbn [negb orb].
  replace (fi_off f <? 0) with false by (symmetry; apply N.ltb_ge; lia). cbn [orb]. reflexivity.
Qed.

(* For every list of members of one MSZIP folder, each starting at or after the end of the one before: extracting them one after
   the other with ONE decompressor (which keeps its decoder between the calls) gives each of them the status and the bytes a
   fresh decompressor gives it. *)
Theorem mszip_history_independent fs : bs <> [] -> ordered 0 fs -> Forall good fs ->
  seq_extract cs_init fs = map (fun f => let '(e, o, _) := extract file par cab cs_init f in (e, o)) fs.
Proof.
  intros Hne Hord Hgood.
  assert (Hfresh : forall f, good f -> (let '(e, o, _) := extract file par cab cs_init f in (e, o)) = want f).
  { intros f (Hff & Hpre & Hlen & zf & Hrun). unfold run_to in Hrun.
    destruct (ideal EofPad2 0 (Mszip.zcall (fi_off f + fi_len f) Mszip.zinit) i0) as [rr iF] eqn:E. cbn [fst] in Hrun. subst rr.
    rewrite <- Hff in Hfo.
    destruct (mszip_member_is_slice file par cab bufpos fo f pre bs post zf iF Hfo Hct Hpre Hfile Hoff Hnb Hwf Hlen E) as (st' & Ex & _).
    rewrite Ex. unfold want, run_to. rewrite E. reflexivity. }
  transitivity (map want fs).
  - destruct fs as [|f r]; [reflexivity|].
    (* the first call builds the decoder; from then on the invariant carries *)
    cbn [seq_extract]. inversion Hgood as [|? ? Hg Hgr]; subst. destruct Hg as (Hff & Hpre & Hlen & zf & Hrun).
    rewrite (extract_fresh_is_st0 f Hff Hpre).
    destruct (minv_st0 Hne) as [Hi Hr].
    change (let '(e, o, st') := extract file par cab st0 f in (e, o) :: seq_extract st' r) with (seq_extract st0 (f :: r)).
    apply (seq_from (f :: r) st0 Mszip.zinit i0 Hi Hr); [exact Hord|exact Hgood].
  - apply map_ext_in. intros f Hin. symmetry. apply Hfresh. rewrite Forall_forall in Hgood. apply Hgood. exact Hin.
Qed.
End Hist.
