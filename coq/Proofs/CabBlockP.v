From Coq Require Import List NArith Bool Lia.
Import ListNotations.
From MSP Require Import Gen.Consts Model.CabBlock.
Local Open Scope N_scope.

(* side conditions on the constants regenerated from cab.h on every run *)
Lemma cab_consts_ok : CAB_INPUTMAX <= CAB_INPUTMAX_SALVAGE /\ CAB_INPUTMAX_SALVAGE + 1 <= cab_input_extent /\ CAB_INPUTMAX_SALVAGE + 1 <= CAB_INPUTBUF.
Proof. vm_compute. repeat split; discriminate. Qed.

Lemma accept_part_bound salvage have len h : accept_part salvage have len = Some h ->
  h = have + len /\ h <= (if salvage then CAB_INPUTMAX_SALVAGE else CAB_INPUTMAX).
Proof.
  unfold accept_part. destruct (N.ltb_spec CAB_INPUTMAX (have + len)) as [Hgt|Hle].
  - destruct salvage; cbn [negb orb]; [|discriminate].
    destruct (N.ltb_spec CAB_INPUTMAX_SALVAGE (have + len)); [discriminate|]. intro E; inversion E; subst. split; [reflexivity|assumption].
  - intro E; inversion E; subst. split; [reflexivity|]. destruct salvage; [|assumption].
    destruct cab_consts_ok as (H & _ & _). lia.
Qed.

(* whatever sequence of parts is accepted, the bytes held never exceed the mode's limit *)
Theorem cab_input_bound : forall (salvage : bool) lens have h,
  have <= (if salvage then CAB_INPUTMAX_SALVAGE else CAB_INPUTMAX) ->
  accept_parts salvage have lens = Some h ->
  h <= (if salvage then CAB_INPUTMAX_SALVAGE else CAB_INPUTMAX).
Proof.
  intros salvage lens. induction lens as [|l rest IH]; intros have h Hh E; cbn [accept_parts] in E.
  - inversion E; subst. exact Hh.
  - destruct (accept_part salvage have l) as [h1|] eqn:E1; [|discriminate].
    apply accept_part_bound in E1 as [_ Hb]. apply (IH h1 h Hb E).
Qed.

(* ... hence the block plus the Quantum trailer byte always fits the input array of struct mscabd_decompress_state *)
Corollary cab_input_fits : forall (salvage : bool) lens h, accept_parts salvage 0 lens = Some h -> h + 1 <= cab_input_extent.
Proof.
  intros salvage lens h E. destruct cab_consts_ok as (H1 & H2 & _).
  assert (Hb : h <= (if salvage then CAB_INPUTMAX_SALVAGE else CAB_INPUTMAX)).
  { apply (cab_input_bound salvage lens 0 h); [destruct salvage; lia|exact E]. }
  destruct salvage; lia.
Qed.

Example cab_input_nonvacuous : accept_parts false 0 [30000; 8000] = Some 38000 /\ accept_parts true 0 [40000; 25535] = Some 65535 /\ accept_parts true 0 [40000; 25536] = None.
Proof. vm_compute. auto. Qed.

(* Huffman decoding tables: every table array holds (1 << tablebits) + 2 * maxsymbols cells (the layout make_decode_table assumes) *)
Definition table_fits (tablebits maxsyms extent : N) : bool := (N.shiftl 1 tablebits + 2 * maxsyms <=? extent).
Lemma huff_table_extents :
  table_fits LZX_PRETREE_TABLEBITS LZX_PRETREE_MAXSYMBOLS lzx_PRETREE_table_extent = true /\
  table_fits LZX_MAINTREE_TABLEBITS LZX_MAINTREE_MAXSYMBOLS lzx_MAINTREE_table_extent = true /\
  table_fits LZX_LENGTH_TABLEBITS LZX_LENGTH_MAXSYMBOLS lzx_LENGTH_table_extent = true /\
  table_fits LZX_ALIGNED_TABLEBITS LZX_ALIGNED_MAXSYMBOLS lzx_ALIGNED_table_extent = true /\
  table_fits MSZIP_LITERAL_TABLEBITS MSZIP_LITERAL_MAXSYMBOLS zip_LITERAL_table_extent = true /\
  table_fits MSZIP_DISTANCE_TABLEBITS MSZIP_DISTANCE_MAXSYMBOLS zip_DISTANCE_table_extent = true /\
  table_fits KWAJ_TABLEBITS KWAJ_MATCHLEN1_SYMS KWAJ_MATCHLEN1_TBLSIZE = true /\
  table_fits KWAJ_TABLEBITS KWAJ_LITLEN_SYMS KWAJ_LITLEN_TBLSIZE = true /\
  table_fits KWAJ_TABLEBITS KWAJ_OFFSET_SYMS KWAJ_OFFSET_TBLSIZE = true /\
  table_fits KWAJ_TABLEBITS KWAJ_LITERAL_SYMS KWAJ_LITERAL_TBLSIZE = true.
Proof. vm_compute. repeat split. Qed.

(* code-length arrays: lzxd_read_lens may run up to LZX_LENTABLE_SAFETY cells past the last symbol (a run of 51 starting at last-1) *)
Lemma lzx_len_extents :
  LZX_MAINTREE_MAXSYMBOLS + LZX_LENTABLE_SAFETY <= lzx_MAINTREE_len_extent /\
  LZX_LENGTH_MAXSYMBOLS + LZX_LENTABLE_SAFETY <= lzx_LENGTH_len_extent /\
  LZX_PRETREE_MAXSYMBOLS + LZX_LENTABLE_SAFETY <= lzx_PRETREE_len_extent /\
  51 - 1 <= LZX_LENTABLE_SAFETY /\
  MSZIP_FRAME_SIZE <= zip_window_extent /\ LZX_FRAME_SIZE <= lzx_e8_buf_extent.
Proof. vm_compute. repeat split; discriminate. Qed.
