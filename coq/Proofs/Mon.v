(* Monitor semantics of prog under an ARBITRARY host (oracle) + a small Hoare logic.
   The monitor keeps the ledger (live allocations, handles open for reading / writing) and a sticky [bad] flag
   that is raised by any call violating the documented contract of mspack_system (C09 + C20). *)
From stdpp Require Import gmap.
From Coq Require Import NArith ZArith List.
From MSP Require Import L2.Sys.
Local Open Scope N_scope.

Definition oracle := N -> forall c, raw c.          (* the host's answer to the call with sequence number i *)
Record mon := { nxt : N; live : gset N; ropen : gset N; wopen : gset N; bad : bool; hfail : bool }.
(* [hfail]: the host has failed some call: open/alloc answered NULL, read answered an error, write accepted a different number of
   bytes than offered, seek failed *)

Definition mk_answer (i : N) (c : call) : raw c -> answer c :=
  match c return raw c -> answer c with
  | COpen _ _ => fun b : bool => if b then Some i else None
  | CAlloc _ => fun b : bool => if b then Some i else None
  | CRead _ n => fun r => match r with RErr => RErr | RBytes l => RBytes (firstn (Z.to_nat n) l) end   (* a host never returns more than asked *)
  | CWrite _ _ => fun r => r | CSeek _ _ _ => fun r => r | CTell _ => fun r => r
  | CClose _ => fun r => r | CMsg _ => fun r => r | CFree _ => fun r => r end.

Definition name_mode_ok (nm : fname) (mode : N) : bool :=
  match nm with FIn _ => mode =? MODE_READ | FOut _ => mode =? MODE_WRITE end.
Definition isopen (m : mon) (h : N) : bool := bool_decide (h ∈ ropen m) || bool_decide (h ∈ wopen m).

Definition upd (m : mon) (l r w : gset N) (b : bool) : mon := {| nxt := nxt m + 1; live := l; ropen := r; wopen := w; bad := bad m || b; hfail := hfail m |}.
Definition isfail (c : call) : answer c -> bool :=
  match c return answer c -> bool with
  | COpen _ _ => fun a => match a with None => true | Some _ => false end
  | CAlloc _ => fun a => match a with None => true | Some _ => false end
  | CRead _ _ => fun a => match a with RErr => true | RBytes _ => false end
  | CWrite _ d => fun a => negb (Z.eqb a (Z.of_nat (length d)))
  | CSeek _ _ _ => fun a => negb a
  | _ => fun _ => false end.
Definition mark (m : mon) (f : bool) : mon := {| nxt := nxt m; live := live m; ropen := ropen m; wopen := wopen m; bad := bad m; hfail := hfail m || f |}.
Definition mstep (m : mon) (c : call) : answer c -> mon :=
  match c return answer c -> mon with
  | COpen nm mode => fun a =>
      let viol := negb (name_mode_ok nm mode) in
      match a with
      | Some h => if mode =? MODE_READ then upd m (live m) ({[h]} ∪ ropen m) (wopen m) viol
                  else upd m (live m) (ropen m) ({[h]} ∪ wopen m) viol
      | None => upd m (live m) (ropen m) (wopen m) viol end
  | CClose h => fun _ => upd m (live m) (ropen m ∖ {[h]}) (wopen m ∖ {[h]}) (negb (isopen m h))
  | CRead h n => fun _ => upd m (live m) (ropen m) (wopen m) (negb (bool_decide (h ∈ ropen m)) || (n <? 0)%Z)
  | CWrite h _ => fun _ => upd m (live m) (ropen m) (wopen m) (negb (bool_decide (h ∈ wopen m)))
  | CSeek h _ wh => fun _ => upd m (live m) (ropen m) (wopen m) (negb (isopen m h) || (2 <? wh))
  | CTell h => fun _ => upd m (live m) (ropen m) (wopen m) (negb (isopen m h))
  | CMsg None => fun _ => upd m (live m) (ropen m) (wopen m) false
  | CMsg (Some h) => fun _ => upd m (live m) (ropen m) (wopen m) (negb (isopen m h))
  | CAlloc n => fun a => match a with
                        | Some p => upd m ({[p]} ∪ live m) (ropen m) (wopen m) (n <? 0)%Z
                        | None => upd m (live m) (ropen m) (wopen m) (n <? 0)%Z end
  | CFree None => fun _ => upd m (live m) (ropen m) (wopen m) false
  | CFree (Some p) => fun _ => upd m (live m ∖ {[p]}) (ropen m) (wopen m) (negb (bool_decide (p ∈ live m)))
  end.

Fixpoint run {A} (o : oracle) (m : mon) (p : prog A) : A * mon :=
  match p with
  | Ret a => (a, m)
  | Do c k => let a := mk_answer (nxt m) c (o (nxt m) c) in run o (mark (mstep m c a) (isfail c a)) (k a)
  end.
Definition mon0 : mon := {| nxt := 0; live := ∅; ropen := ∅; wopen := ∅; bad := false; hfail := false |}.

Lemma run_bind {A B} o (p : prog A) (f : A -> prog B) m :
  run o m (bind p f) = let '(a, m') := run o m p in run o m' (f a).
Proof. revert m. induction p as [a|c k IH]; intro m; simpl; [reflexivity|apply IH]. Qed.

(* ---------- Hoare triples ---------- *)
Definition fresh (m : mon) : Prop := forall x, x ∈ live m ∪ ropen m ∪ wopen m -> x < nxt m.
Definition wf (m : mon) : Prop := fresh m /\ bad m = false.
Definition triple {A} (P : mon -> Prop) (p : prog A) (Q : A -> mon -> Prop) : Prop :=
  forall o m, wf m -> P m -> let '(a, m') := run o m p in wf m' /\ Q a m'.

Lemma t_ret {A} (a : A) (P : mon -> Prop) (Q : A -> mon -> Prop) : (forall m, P m -> Q a m) -> triple P (Ret a) Q.
Proof. intros H o m Hw HP. simpl. auto. Qed.
Lemma t_ret_same {A} (a : A) (P : mon -> Prop) : triple P (Ret a) (fun _ => P).
Proof. intros o m Hw HP. simpl. auto. Qed.
Lemma t_bind {A B} P (p : prog A) Q (f : A -> prog B) R :
  triple P p Q -> (forall a, triple (Q a) (f a) R) -> triple P (bind p f) R.
Proof.
  intros Hp Hf o m Hw HP. rewrite run_bind. specialize (Hp o m Hw HP).
  destruct (run o m p) as [a m1]. destruct Hp as [Hw1 HQ]. apply (Hf a o m1 Hw1 HQ).
Qed.
Lemma t_conseq {A} (P P' : mon -> Prop) (p : prog A) (Q Q' : A -> mon -> Prop) :
  triple P' p Q' -> (forall m, P m -> P' m) -> (forall a m, Q' a m -> Q a m) -> triple P p Q.
Proof.
  intros H HP HQ o m Hw Hm. specialize (H o m Hw (HP m Hm)). destruct (run o m p) as [a m'].
  destruct H; split; auto.
Qed.
Lemma t_pre_prop {A} (P : mon -> Prop) (F : Prop) (p : prog A) Q : (F -> triple P p Q) -> triple (fun m => F /\ P m) p Q.
Proof. intros H o m Hw [HF HP]. apply (H HF o m Hw HP). Qed.

Lemma t_pre_prop_r {A} (P : mon -> Prop) (F : Prop) (p : prog A) Q : (F -> triple P p Q) -> triple (fun m => P m /\ F) p Q.
Proof. intros H o m Hw [HP HF]. apply (H HF o m Hw HP). Qed.
Lemma t_pre_extract {A} (P : mon -> Prop) (F : Prop) (p : prog A) Q : (forall m, P m -> F) -> (F -> triple P p Q) -> triple P p Q.
Proof. intros HF H o m Hw HP. apply (H (HF m HP) o m Hw HP). Qed.
Lemma t_pre_weaken {A} (P P' : mon -> Prop) (p : prog A) Q : (forall m, P m -> P' m) -> triple P' p Q -> triple P p Q.
Proof. intros HP H. eapply t_conseq; [exact H|exact HP|auto]. Qed.

(* the ledger state as a predicate *)
Definition st (L R W : gset N) (m : mon) : Prop := live m = L /\ ropen m = R /\ wopen m = W.

Ltac start_call := let o := fresh "o" in let m := fresh "m" in let Hf := fresh "Hf" in let Hb := fresh "Hb" in
  let HL := fresh "HL" in let HR := fresh "HR" in let HW := fresh "HW" in
  intros o m [Hf Hb] (HL & HR & HW); unfold call1; cbn [run mk_answer mstep].
Ltac fresh_tac Hf := intros x Hx; cbn [nxt live ropen wopen upd] in *; let H := fresh in assert (H : x < nxt _ \/ x = nxt _) by (set_solver by lia) ; lia.

Lemma upd_wf m l r w : wf m -> (forall x, x ∈ l ∪ r ∪ w -> x < nxt m + 1) -> wf (upd m l r w false).
Proof. intros [Hf Hb] H. split; [exact H|]. cbn. rewrite Hb. reflexivity. Qed.

Lemma lt_succ_of_fresh m (S : gset N) : fresh m -> S ⊆ live m ∪ ropen m ∪ wopen m -> forall x, x ∈ S -> x < nxt m + 1.
Proof. intros Hf Hs x Hx. specialize (Hf x (Hs x Hx)). lia. Qed.

Lemma t_read L R W h n : h ∈ R -> (0 <= n)%Z ->
  triple (st L R W) (call1 (CRead h n)) (fun _ => st L R W).
Proof.
  intros Hh Hn o m Hwf (HL & HR & HW). unfold call1. cbn [run]. set (a := mk_answer _ _ _).
  cbn [mstep]. rewrite bool_decide_true by (rewrite HR; exact Hh).
  replace (n <? 0)%Z with false by (symmetry; apply Z.ltb_ge; exact Hn). cbn [negb orb].
  split; [|unfold st; cbn; auto]. apply upd_wf; [exact Hwf|]. apply lt_succ_of_fresh; [apply Hwf|set_solver].
Qed.
Lemma t_write L R W h d : h ∈ W -> triple (st L R W) (call1 (CWrite h d)) (fun _ => st L R W).
Proof.
  intros Hh o m Hwf (HL & HR & HW). unfold call1. cbn [run]. set (a := mk_answer _ _ _).
  cbn [mstep]. rewrite bool_decide_true by (rewrite HW; exact Hh). cbn [negb].
  split; [|unfold st; cbn; auto]. apply upd_wf; [exact Hwf|]. apply lt_succ_of_fresh; [apply Hwf|set_solver].
Qed.
Lemma isopen_true m h : h ∈ ropen m ∪ wopen m -> isopen m h = true.
Proof. intro H. unfold isopen. apply elem_of_union in H as [H|H]; [rewrite (bool_decide_true _ H)|rewrite (bool_decide_true (h ∈ wopen m) H), orb_true_r]; reflexivity. Qed.
Lemma t_seek L R W h off wh : h ∈ R ∪ W -> wh <= 2 -> triple (st L R W) (call1 (CSeek h off wh)) (fun _ => st L R W).
Proof.
  intros Hh Hwh o m Hwf (HL & HR & HW). unfold call1. cbn [run]. set (a := mk_answer _ _ _).
  cbn [mstep]. rewrite isopen_true by (rewrite HR, HW; exact Hh).
  replace (2 <? wh) with false by (symmetry; apply N.ltb_ge; exact Hwh). cbn [negb orb].
  split; [|unfold st; cbn; auto]. apply upd_wf; [exact Hwf|]. apply lt_succ_of_fresh; [apply Hwf|set_solver].
Qed.
Lemma t_tell L R W h : h ∈ R ∪ W -> triple (st L R W) (call1 (CTell h)) (fun _ => st L R W).
Proof.
  intros Hh o m Hwf (HL & HR & HW). unfold call1. cbn [run]. set (a := mk_answer _ _ _).
  cbn [mstep]. rewrite isopen_true by (rewrite HR, HW; exact Hh). cbn [negb].
  split; [|unfold st; cbn; auto]. apply upd_wf; [exact Hwf|]. apply lt_succ_of_fresh; [apply Hwf|set_solver].
Qed.
Lemma t_msg_none L R W : triple (st L R W) (call1 (CMsg None)) (fun _ => st L R W).
Proof.
  intros o m Hwf (HL & HR & HW). unfold call1. cbn [run mstep].
  split; [|unfold st; cbn; auto]. apply upd_wf; [exact Hwf|]. apply lt_succ_of_fresh; [apply Hwf|set_solver].
Qed.
Lemma t_msg_some L R W h : h ∈ R ∪ W -> triple (st L R W) (call1 (CMsg (Some h))) (fun _ => st L R W).
Proof.
  intros Hh o m Hwf (HL & HR & HW). unfold call1. cbn [run mstep].
  rewrite isopen_true by (rewrite HR, HW; exact Hh). cbn [negb].
  split; [|unfold st; cbn; auto]. apply upd_wf; [exact Hwf|]. apply lt_succ_of_fresh; [apply Hwf|set_solver].
Qed.

Lemma fresh_notin m (S : gset N) : fresh m -> S ⊆ live m ∪ ropen m ∪ wopen m -> nxt m ∉ S.
Proof. intros Hf Hs Hin. specialize (Hf _ (Hs _ Hin)). lia. Qed.
Lemma fresh_add m (S : gset N) : fresh m -> S ⊆ {[nxt m]} ∪ (live m ∪ ropen m ∪ wopen m) -> forall x, x ∈ S -> x < nxt m + 1.
Proof. intros Hf Hs x Hx. specialize (Hs x Hx). apply elem_of_union in Hs as [Hs|Hs]; [apply elem_of_singleton in Hs; lia|specialize (Hf x Hs); lia]. Qed.

Lemma t_alloc L R W n : (0 <= n)%Z ->
  triple (st L R W) (call1 (CAlloc n))
    (fun r m => match r with Some p => p ∉ L ∪ R ∪ W /\ st ({[p]} ∪ L) R W m | None => st L R W m end).
Proof.
  intros Hn o m Hwf (HL & HR & HW). unfold call1. cbn [run mk_answer].
  replace (n <? 0)%Z with false by (symmetry; apply Z.ltb_ge; exact Hn).
  destruct (o (nxt m) (CAlloc n)); cbn [mstep]; replace (n <? 0)%Z with false by (symmetry; apply Z.ltb_ge; exact Hn).
  - split; [apply upd_wf; [exact Hwf|]; apply (fresh_add m); [apply Hwf|set_solver]|].
    split; [|unfold st; cbn; rewrite HL; auto]. rewrite <- HL, <- HR, <- HW. apply fresh_notin; [apply Hwf|set_solver].
  - split; [|unfold st; cbn; auto]. apply upd_wf; [exact Hwf|]. apply lt_succ_of_fresh; [apply Hwf|set_solver].
Qed.
Lemma t_open_in L R W k :
  triple (st L R W) (call1 (COpen (FIn k) MODE_READ))
    (fun r m => match r with Some h => h ∉ L ∪ R ∪ W /\ st L ({[h]} ∪ R) W m | None => st L R W m end).
Proof.
  intros o m Hwf (HL & HR & HW). unfold call1. cbn [run mk_answer].
  destruct (o (nxt m) (COpen (FIn k) MODE_READ)); cbn [mstep name_mode_ok]; rewrite N.eqb_refl; cbn [negb].
  - split; [apply upd_wf; [exact Hwf|]; apply (fresh_add m); [apply Hwf|set_solver]|].
    split; [|unfold st; cbn; rewrite HR; auto]. rewrite <- HL, <- HR, <- HW. apply fresh_notin; [apply Hwf|set_solver].
  - split; [|unfold st; cbn; auto]. apply upd_wf; [exact Hwf|]. apply lt_succ_of_fresh; [apply Hwf|set_solver].
Qed.
Lemma t_open_out L R W k :
  triple (st L R W) (call1 (COpen (FOut k) MODE_WRITE))
    (fun r m => match r with Some h => h ∉ L ∪ R ∪ W /\ st L R ({[h]} ∪ W) m | None => st L R W m end).
Proof.
  intros o m Hwf (HL & HR & HW). unfold call1. cbn [run mk_answer].
  destruct (o (nxt m) (COpen (FOut k) MODE_WRITE)); cbn [mstep name_mode_ok]; change (MODE_WRITE =? MODE_WRITE) with true; change (MODE_WRITE =? MODE_READ) with false; cbn [negb].
  - split; [apply upd_wf; [exact Hwf|]; apply (fresh_add m); [apply Hwf|set_solver]|].
    split; [|unfold st; cbn; rewrite HW; auto]. rewrite <- HL, <- HR, <- HW. apply fresh_notin; [apply Hwf|set_solver].
  - split; [|unfold st; cbn; auto]. apply upd_wf; [exact Hwf|]. apply lt_succ_of_fresh; [apply Hwf|set_solver].
Qed.
Lemma t_close L R W h : h ∈ R ∪ W ->
  triple (st L R W) (call1 (CClose h)) (fun _ => st L (R ∖ {[h]}) (W ∖ {[h]})).
Proof.
  intros Hh o m Hwf (HL & HR & HW). unfold call1. cbn [run mstep].
  rewrite isopen_true by (rewrite HR, HW; exact Hh). cbn [negb].
  split; [|unfold st; cbn; rewrite HL, HR, HW; auto]. apply upd_wf; [exact Hwf|]. apply lt_succ_of_fresh; [apply Hwf|set_solver].
Qed.
Lemma t_free_some L R W p : p ∈ L ->
  triple (st L R W) (call1 (CFree (Some p))) (fun _ => st (L ∖ {[p]}) R W).
Proof.
  intros Hp o m Hwf (HL & HR & HW). unfold call1. cbn [run mstep].
  rewrite bool_decide_true by (rewrite HL; exact Hp). cbn [negb].
  split; [|unfold st; cbn; rewrite HL; auto]. apply upd_wf; [exact Hwf|]. apply lt_succ_of_fresh; [apply Hwf|set_solver].
Qed.
Lemma t_free_none L R W : triple (st L R W) (call1 (CFree None)) (fun _ => st L R W).
Proof.
  intros o m Hwf (HL & HR & HW). unfold call1. cbn [run mstep].
  split; [|unfold st; cbn; auto]. apply upd_wf; [exact Hwf|]. apply lt_succ_of_fresh; [apply Hwf|set_solver].
Qed.

(* ---------- tracking host failures (C10) ---------- *)
Definition okh (m : mon) : Prop := hfail m = false.
Definition sto (L R W : gset N) (m : mon) : Prop := st L R W m /\ okh m.
Lemma sto_st L R W m : sto L R W m -> st L R W m. Proof. intros [H _]. exact H. Qed.

(* a call that cannot fail keeps [okh]; one that can fail keeps it exactly when the host did not fail *)
Lemma triple_okh (c : call) (P : mon -> Prop) (Q : answer c -> mon -> Prop) :
  triple P (call1 c) Q ->
  triple (fun m => P m /\ okh m) (call1 c) (fun a m => Q a m /\ (isfail c a = false -> okh m)).
Proof.
  intros T o m Hw [HP Hok]. specialize (T o m Hw HP). unfold call1 in *. cbn [run] in *.
  set (a := mk_answer (nxt m) c (o (nxt m) c)) in *. destruct T as [Hw' HQ]. split; [exact Hw'|]. split; [exact HQ|].
  intro Hf. unfold okh, mark in *. cbn [hfail]. rewrite Hf, orb_false_r.
  destruct c; cbn [mstep upd hfail]; try exact Hok; repeat (match goal with |- context [match ?x with _ => _ end] => destruct x end; cbn [upd hfail]); exact Hok.
Qed.
