(* mszipd_decompress (Model/Mszip.v: zcall) is resumable: asking for a bytes and then for b more gives the bytes, the status
   and the stream state of asking for a + b at once.  This is what lets cabd_extract continue with a cached decoder (C08). *)
From Coq Require Import List NArith Arith PeanoNat Lia Bool.
Import ListNotations.
From MSP Require Import Base.Src Model.Mszip.
Local Open Scope N_scope.

Section Resume.
Variables (rule : eofrule) (hint : N).
Notation run := (ideal rule hint).

Lemma ideal_sbind {A B} (p : sprog A) (f : A -> sprog B) : forall s,
  run (sbind p f) s = match run p s with (SVal a, s') => run (f a) s' | (SStop e, s') => (SStop e, s') end.
Proof.
  induction p as [a|c k IH]; intro s; [reflexivity|]. destruct c; cbn [sbind ideal].
  - destruct (ideal_next rule s) as [[b s']|e]; [apply IH|reflexivity].
  - destruct (irest s); [reflexivity|apply IH].
  - destruct (ideal_take rule n s []) as [[l s']|e]; [apply IH|reflexivity].
  - apply IH.
  - apply IH.
Qed.

Lemma zloop_0 n st : zloop 0 n st = SRet (99, false, mkZS st 0 0 99). Proof. reflexivity. Qed.
Lemma zloop_S f n st : zloop (S f) n st = sbind (zframe st) (fun r =>
      match r with
      | inl (IMsp e) => SRet (e, true, mkZS st 0 0 e)
      | inl (IErr _) => SRet (ERR_DECRUNCH, true, mkZS st 0 0 ERR_DECRUNCH)
      | inr (_, s2) =>
        let i := N.min n (bout s2) in
        SDo (SWrite (win_bytes (N.to_nat i) (win s2) 0 [])) (fun _ =>
          if n - i =? 0 then SRet (OK, false, mkZS s2 i (bout s2) 0) else zloop f (n - i) s2)
      end).
Proof. reflexivity. Qed.
Lemma run_ret {A} (a : A) s : run (SRet a) s = (SVal a, s). Proof. reflexivity. Qed.
Lemma run_write {A} d (k : unit -> sprog A) s : run (SDo (SWrite d) k) s = run (k tt) {| irest := irest s; iout := rev_append d (iout s) |}.
Proof. reflexivity. Qed.

(* the status 99 marks an exhausted loop counter of the model, which is not a behaviour of the C code *)
Definition nofuel (r : sres (N * bool * zstream)) : Prop := match r with SVal (e, _, _) => e <> 99 | SStop _ => True end.

Lemma zloop_mono : forall f n st i r j, run (zloop f n st) i = (r, j) -> nofuel r -> forall f', (f <= f')%nat -> run (zloop f' n st) i = (r, j).
Proof.
  induction f as [|f IH]; intros n st i r j H Hn f' Hf.
  - rewrite zloop_0, run_ret in H. inversion H; subst. unfold nofuel in Hn. congruence.
  - destruct f' as [|f']; [lia|]. rewrite zloop_S, ideal_sbind in H. rewrite zloop_S, ideal_sbind.
    destruct (run (zframe st) i) as [[x|e] i']; [|exact H].
    destruct x as [[c|e]|[u s2]]; try exact H.
    cbv zeta in H. cbv zeta. rewrite run_write in H. rewrite run_write.
    destruct (n - N.min n (bout s2) =? 0); [exact H|]. apply (IH _ _ _ _ _ H Hn). lia.
Qed.
Lemma zloop_fuel_indep f1 f2 n st i r1 j1 r2 j2 :
  run (zloop f1 n st) i = (r1, j1) -> nofuel r1 -> run (zloop f2 n st) i = (r2, j2) -> nofuel r2 -> r1 = r2 /\ j1 = j2.
Proof.
  intros H1 N1 H2 N2. pose proof (zloop_mono _ _ _ _ _ _ H1 N1 (Nat.max f1 f2) (Nat.le_max_l _ _)) as A.
  pose proof (zloop_mono _ _ _ _ _ _ H2 N2 (Nat.max f1 f2) (Nat.le_max_r _ _)) as B. rewrite A in B. inversion B. auto.
Qed.

Lemma win_bytes_acc : forall n w o acc, win_bytes n w o acc = rev acc ++ win_bytes n w o [].
Proof.
  induction n as [|n IH]; intros w o acc; cbn [win_bytes].
  - cbn [rev_append]. rewrite rev_append_rev, !app_nil_r. reflexivity.
  - rewrite (IH w (o + 1) (_ :: acc)), (IH w (o + 1) [_]). cbn [rev app]. rewrite <- app_assoc. reflexivity.
Qed.
Lemma win_bytes_split : forall a b w o, win_bytes (a + b) w o [] = win_bytes a w o [] ++ win_bytes b w (o + N.of_nat a) [].
Proof.
  induction a as [|a IH]; intros b w o.
  - cbn [Nat.add win_bytes rev_append app]. rewrite N.add_0_r. reflexivity.
  - cbn [Nat.add win_bytes]. rewrite (win_bytes_acc (a + b)), (win_bytes_acc a). cbn [rev app]. rewrite IH. f_equal. f_equal. f_equal. lia.
Qed.
Lemma write_split (a b : N) w o out :
  rev_append (win_bytes (N.to_nat b) w (o + a) []) (rev_append (win_bytes (N.to_nat a) w o []) out) = rev_append (win_bytes (N.to_nat (a + b)) w o []) out.
Proof.
  rewrite N2Nat.inj_add, win_bytes_split, N2Nat.id. rewrite !rev_append_rev, rev_app_distr, app_assoc. reflexivity.
Qed.
Lemma win_bytes_0 w o : win_bytes (N.to_nat 0) w o [] = []. Proof. reflexivity. Qed.

(* a write of i bytes that the code skips when i = 0 *)
Definition wr (i : N) (w : tr) (o : N) (s : ist) : ist := {| irest := irest s; iout := rev_append (win_bytes (N.to_nat i) w o []) (iout s) |}.
Ltac fold_wr H := repeat match type of H with context [{| irest := irest ?s; iout := rev_append (win_bytes (N.to_nat ?i) ?w ?o []) (iout ?s) |}] =>
  change {| irest := irest s; iout := rev_append (win_bytes (N.to_nat i) w o []) (iout s) |} with (wr i w o s) in H end.
Ltac ifred H := repeat match type of H with
  | context [if true then ?a else ?b] => change (if true then a else b) with a in H
  | context [if false then ?a else ?b] => change (if false then a else b) with b in H end; rewrite ?run_ret in H.
Lemma wr_0 w o s : wr 0 w o s = s. Proof. destruct s. reflexivity. Qed.
Lemma wr_wr a b w o s : wr b w (o + a) (wr a w o s) = wr (a + b) w o s.
Proof. unfold wr. cbn [irest iout]. rewrite write_split. reflexivity. Qed.

Lemma wr_wr0 a b w s : wr b w a (wr a w 0 s) = wr (a + b) w 0 s.
Proof. rewrite <- (N.add_0_l a) at 1. apply wr_wr. Qed.

Lemma zcall_unfold n z s : zerr z = 0 ->
  run (zcall n z) s =
  let i := N.min (zend z - zo z) n in
  if n - i =? 0 then (SVal (OK, false, mkZS (zs z) (zo z + i) (zend z) 0), wr i (win (zs z)) (zo z) s)
  else run (zloop 70000 (n - i) (zs z)) (wr i (win (zs z)) (zo z) s).
Proof.
  intro He. unfold zcall. rewrite He. cbn [N.eqb negb]. cbv zeta.
  destruct (N.ltb_spec 0 (N.min (zend z - zo z) n)) as [Hp|Hz].
  - cbn [ideal]. fold (wr (N.min (zend z - zo z) n) (win (zs z)) (zo z) s). destruct (_ =? 0); reflexivity.
  - assert (E : N.min (zend z - zo z) n = 0) by lia. rewrite E, wr_0. destruct (_ =? 0); reflexivity.
Qed.

(* the frame loop: finishing a request of n bytes and then asking for b more is asking for n + b *)
Lemma zloop_resume : forall f n b st i z1 i1, 0 < n ->
  run (zloop f n st) i = (SVal (OK, false, z1), i1) ->
  forall F rc ic r2 i2, run (zloop F (n + b) st) i = (rc, ic) -> nofuel rc -> run (zcall b z1) i1 = (r2, i2) -> nofuel r2 ->
  rc = r2 /\ ic = i2.
Proof.
  induction f as [|f IH]; intros n b st i z1 i1 Hn H1 F rc ic r2 i2 Hc Nc H2 N2.
  - rewrite zloop_0, run_ret in H1. inversion H1.
  - destruct F as [|F]; [rewrite zloop_0, run_ret in Hc; inversion Hc; subst; unfold nofuel in Nc; congruence|].
    rewrite zloop_S, ideal_sbind in H1, Hc.
    destruct (run (zframe st) i) as [[x|e] i']; [|inversion H1].
    destruct x as [[c|e]|[u s2]]; try (rewrite run_ret in H1; inversion H1; fail).
    cbv zeta in H1, Hc. rewrite run_write in H1, Hc. fold_wr H1. fold_wr Hc.
    destruct (N.eqb_spec (n - N.min n (bout s2)) 0) as [E|E]; ifred H1.
    + (* the request ends inside this frame *)
      assert (Hle : n <= bout s2) by lia. rewrite N.min_l in H1 by exact Hle. apply pair_equal_spec in H1 as [Hv Hi]; subst i1; injection Hv as Hv; subst z1.
      rewrite zcall_unfold in H2 by reflexivity. cbn [zs zo zend] in H2. cbv zeta in H2.
      replace (0 + n) with n in H2 by lia.
      destruct (N.le_gt_cases (n + b) (bout s2)) as [Hall|Hmore].
      * rewrite N.min_l in Hc by exact Hall. replace (n + b - (n + b) =? 0) with true in Hc by (symmetry; apply N.eqb_eq; lia). ifred Hc.
        rewrite N.min_r in H2 by lia. replace (b - b =? 0) with true in H2 by (symmetry; apply N.eqb_eq; lia). ifred H2.
        rewrite wr_wr0 in H2. rewrite Hc in H2. inversion H2. auto.
      * rewrite N.min_r in Hc by lia. replace (n + b - bout s2 =? 0) with false in Hc by (symmetry; apply N.eqb_neq; lia). ifred Hc.
        rewrite N.min_l in H2 by lia. replace (b - (bout s2 - n) =? 0) with false in H2 by (symmetry; apply N.eqb_neq; lia). ifred H2.
        rewrite wr_wr0 in H2. replace (n + (bout s2 - n)) with (bout s2) in H2 by lia.
        replace (b - (bout s2 - n)) with (n + b - bout s2) in H2 by lia.
        apply (zloop_fuel_indep _ _ _ _ _ _ _ _ _ Hc Nc H2 N2).
    + (* the request continues into the next frame *)
      assert (Hgt : bout s2 < n) by lia. rewrite N.min_r in H1 by lia. rewrite N.min_r in Hc by lia.
      replace (n + b - bout s2 =? 0) with false in Hc by (symmetry; apply N.eqb_neq; lia). ifred Hc.
      replace (n + b - bout s2) with ((n - bout s2) + b) in Hc by lia.
      assert (Hp : 0 < n - bout s2) by lia.
      apply (IH (n - bout s2) b s2 _ z1 i1 Hp H1 F rc ic r2 i2 Hc Nc H2 N2).
Qed.

Theorem zcall_resumable a b z i z1 i1 rc ic r2 i2 : zo z <= zend z ->
  run (zcall a z) i = (SVal (OK, false, z1), i1) ->
  run (zcall (a + b) z) i = (rc, ic) -> nofuel rc ->
  run (zcall b z1) i1 = (r2, i2) -> nofuel r2 ->
  rc = r2 /\ ic = i2.
Proof.
  intros Hz H1 Hc Nc H2 N2.
  assert (He : zerr z = 0).
  { destruct (N.eqb_spec (zerr z) 0) as [E|E]; [exact E|]. unfold zcall in H1. replace (zerr z =? 0) with false in H1 by (symmetry; apply N.eqb_neq; exact E).
    cbn in H1. inversion H1. unfold OK in *. congruence. }
  rewrite zcall_unfold in H1, Hc by exact He. cbv zeta in H1, Hc.
  set (av := zend z - zo z) in *.
  destruct (N.le_gt_cases a av) as [Hin|Hout].
  - rewrite N.min_r in H1 by exact Hin. replace (a - a =? 0) with true in H1 by (symmetry; apply N.eqb_eq; lia). ifred H1. apply pair_equal_spec in H1 as [Hv Hi]; subst i1; injection Hv as Hv; subst z1.
    rewrite zcall_unfold in H2 by reflexivity. cbn [zs zo zend] in H2. cbv zeta in H2. rewrite wr_wr in H2.
    replace (zend z - (zo z + a)) with (av - a) in H2 by lia.
    destruct (N.le_gt_cases (a + b) av) as [Hall|Hmore].
    + rewrite N.min_r in Hc by exact Hall. replace (a + b - (a + b) =? 0) with true in Hc by (symmetry; apply N.eqb_eq; lia). ifred Hc.
      rewrite N.min_r in H2 by lia. replace (b - b =? 0) with true in H2 by (symmetry; apply N.eqb_eq; lia). ifred H2.
      rewrite <- N.add_assoc in H2. rewrite Hc in H2. inversion H2. auto.
    + rewrite N.min_l in Hc by lia. replace (a + b - av =? 0) with false in Hc by (symmetry; apply N.eqb_neq; lia). ifred Hc.
      rewrite N.min_l in H2 by lia. replace (b - (av - a) =? 0) with false in H2 by (symmetry; apply N.eqb_neq; lia). ifred H2.
      replace (a + (av - a)) with av in H2 by lia. replace (b - (av - a)) with (a + b - av) in H2 by lia.
      apply (zloop_fuel_indep _ _ _ _ _ _ _ _ _ Hc Nc H2 N2).
  - rewrite N.min_l in H1 by lia. replace (a - av =? 0) with false in H1 by (symmetry; apply N.eqb_neq; lia). ifred H1.
    rewrite N.min_l in Hc by lia. replace (a + b - av =? 0) with false in Hc by (symmetry; apply N.eqb_neq; lia). ifred Hc.
    replace (a + b - av) with ((a - av) + b) in Hc by lia.
    assert (Hp : 0 < a - av) by lia.
    apply (zloop_resume _ _ _ _ _ _ _ Hp H1 _ _ _ _ _ Hc Nc H2 N2).
Qed.
End Resume.

(* ---------- the converse direction: a request that succeeds as a whole succeeds up to any point on the way ---------- *)
Section Prefix.
Variables (rule : eofrule) (hint : N).
Notation run := (ideal rule hint).
Ltac fold_wr H := repeat match type of H with context [{| irest := irest ?s; iout := rev_append (win_bytes (N.to_nat ?i) ?w ?o []) (iout ?s) |}] =>
  change {| irest := irest s; iout := rev_append (win_bytes (N.to_nat i) w o []) (iout s) |} with (wr i w o s) in H end.

Lemma zloop_prefix : forall F n b st i z i', 0 < n ->
  run (zloop F (n + b) st) i = (SVal (OK, false, z), i') ->
  exists z1 i1, run (zloop F n st) i = (SVal (OK, false, z1), i1).
Proof.
  induction F as [|F IH]; intros n b st i z i' Hn H.
  - rewrite zloop_0 in H. cbn [ideal] in H. inversion H.
  - rewrite zloop_S, (ideal_sbind rule hint) in H. rewrite zloop_S, (ideal_sbind rule hint).
    destruct (run (zframe st) i) as [[x|e] j]; [|inversion H].
    destruct x as [[c|e]|[u s2]]; try (cbn [ideal] in H; inversion H; fail).
    cbv zeta in H. cbv zeta. cbn [ideal] in H. cbn [ideal]. fold_wr H.
    destruct (N.eqb_spec (n - N.min n (bout s2)) 0) as [E|E].
    + eexists. eexists. reflexivity.
    + assert (Hgt : bout s2 < n) by lia.
      rewrite N.min_r in H by lia. replace (n + b - bout s2 =? 0) with false in H by (symmetry; apply N.eqb_neq; lia).
      replace (n + b - bout s2) with ((n - bout s2) + b) in H by lia.
      rewrite N.min_r by lia.
      match goal with |- exists z1 i1, run (zloop F (n - bout s2) s2) ?ii = _ => fold_wr H; apply (IH (n - bout s2) b s2 ii z i'); [lia|exact H] end.
Qed.

Lemma zcall_prefix a b z i zf i' : zo z <= zend z ->
  run (zcall (a + b) z) i = (SVal (OK, false, zf), i') ->
  exists z1 i1, run (zcall a z) i = (SVal (OK, false, z1), i1).
Proof.
  intros Hz H.
  assert (He : zerr z = 0).
  { destruct (N.eqb_spec (zerr z) 0) as [E|E]; [exact E|]. unfold zcall in H. replace (zerr z =? 0) with false in H by (symmetry; apply N.eqb_neq; exact E).
    cbn in H. inversion H. unfold OK in *. congruence. }
  rewrite (zcall_unfold rule hint) in H by exact He. rewrite (zcall_unfold rule hint) by exact He. cbv zeta in H. cbv zeta.
  set (av := zend z - zo z) in *.
  destruct (N.le_gt_cases a av) as [Hin|Hout].
  - rewrite N.min_r by exact Hin. replace (a - a =? 0) with true by (symmetry; apply N.eqb_eq; lia). eexists. eexists. reflexivity.
  - rewrite N.min_l by lia. replace (a - av =? 0) with false by (symmetry; apply N.eqb_neq; lia).
    rewrite N.min_l in H by lia. replace (a + b - av =? 0) with false in H by (symmetry; apply N.eqb_neq; lia).
    replace (a + b - av) with ((a - av) + b) in H by lia.
    assert (Hp : 0 < a - av) by lia. exact (zloop_prefix _ _ _ _ _ _ _ Hp H).
Qed.
End Prefix.

(* the second half of a split request is determined by the whole request (no assumption on the second run) *)
Section Split.
Variables (rule : eofrule) (hint : N).
Notation run := (ideal rule hint).
Ltac fold_wr H := repeat match type of H with context [{| irest := irest ?s; iout := rev_append (win_bytes (N.to_nat ?i) ?w ?o []) (iout ?s) |}] =>
  change {| irest := irest s; iout := rev_append (win_bytes (N.to_nat i) w o []) (iout s) |} with (wr i w o s) in H end.
Ltac ifred H := repeat match type of H with
  | context [if true then ?a else ?b] => change (if true then a else b) with a in H
  | context [if false then ?a else ?b] => change (if false then a else b) with b in H end; rewrite ?(run_ret rule hint) in H.

Lemma zloop_split : forall f n b st i z1 i1, 0 < n ->
  run (zloop f n st) i = (SVal (OK, false, z1), i1) ->
  forall F rc ic, (F <= 70000)%nat -> run (zloop F (n + b) st) i = (rc, ic) -> nofuel rc -> run (zcall b z1) i1 = (rc, ic).
Proof.
  induction f as [|f IH]; intros n b st i z1 i1 Hn H1 F rc ic HF Hc Nc.
  - rewrite zloop_0, (run_ret rule hint) in H1. inversion H1.
  - destruct F as [|F]; [rewrite zloop_0, (run_ret rule hint) in Hc; inversion Hc; subst; unfold nofuel in Nc; congruence|].
    rewrite zloop_S, (ideal_sbind rule hint) in H1, Hc.
    destruct (run (zframe st) i) as [[x|e] i']; [|inversion H1].
    destruct x as [[c|e]|[u s2]]; try (rewrite (run_ret rule hint) in H1; inversion H1; fail).
    cbv zeta in H1, Hc. rewrite (run_write rule hint) in H1, Hc. fold_wr H1. fold_wr Hc.
    destruct (N.eqb_spec (n - N.min n (bout s2)) 0) as [E|E]; ifred H1.
    + assert (Hle : n <= bout s2) by lia. rewrite N.min_l in H1 by exact Hle.
      apply pair_equal_spec in H1 as [Hv Hi]; subst i1; injection Hv as Hv; subst z1.
      rewrite (zcall_unfold rule hint) by reflexivity. cbn [zs zo zend]. cbv zeta.
      replace (0 + n) with n by lia.
      destruct (N.le_gt_cases (n + b) (bout s2)) as [Hall|Hmore].
      * rewrite N.min_l in Hc by exact Hall. replace (n + b - (n + b) =? 0) with true in Hc by (symmetry; apply N.eqb_eq; lia). ifred Hc.
        rewrite N.min_r by lia. replace (b - b =? 0) with true by (symmetry; apply N.eqb_eq; lia).
        rewrite wr_wr0. exact Hc.
      * rewrite N.min_r in Hc by lia. replace (n + b - bout s2 =? 0) with false in Hc by (symmetry; apply N.eqb_neq; lia). ifred Hc.
        rewrite N.min_l by lia. replace (b - (bout s2 - n) =? 0) with false by (symmetry; apply N.eqb_neq; lia).
        rewrite wr_wr0. replace (n + (bout s2 - n)) with (bout s2) by lia.
        replace (b - (bout s2 - n)) with (n + b - bout s2) by lia.
        apply (zloop_mono rule hint _ _ _ _ _ _ Hc Nc). lia.
    + assert (Hgt : bout s2 < n) by lia. rewrite N.min_r in H1 by lia. rewrite N.min_r in Hc by lia.
      replace (n + b - bout s2 =? 0) with false in Hc by (symmetry; apply N.eqb_neq; lia). ifred Hc.
      replace (n + b - bout s2) with ((n - bout s2) + b) in Hc by lia.
      assert (Hp : 0 < n - bout s2) by lia.
      apply (IH (n - bout s2) b s2 _ z1 i1 Hp H1 F rc ic ltac:(lia) Hc Nc).
Qed.

Theorem zcall_split a b z i z1 i1 rc ic : zo z <= zend z ->
  run (zcall a z) i = (SVal (OK, false, z1), i1) ->
  run (zcall (a + b) z) i = (rc, ic) -> nofuel rc ->
  run (zcall b z1) i1 = (rc, ic).
Proof.
  intros Hz H1 Hc Nc.
  assert (He : zerr z = 0).
  { destruct (N.eqb_spec (zerr z) 0) as [E|E]; [exact E|]. unfold zcall in H1. replace (zerr z =? 0) with false in H1 by (symmetry; apply N.eqb_neq; exact E).
    cbn in H1. inversion H1. unfold OK in *. congruence. }
  rewrite (zcall_unfold rule hint) in H1, Hc by exact He. cbv zeta in H1, Hc.
  set (av := zend z - zo z) in *.
  destruct (N.le_gt_cases a av) as [Hin|Hout].
  - rewrite N.min_r in H1 by exact Hin. replace (a - a =? 0) with true in H1 by (symmetry; apply N.eqb_eq; lia). ifred H1.
    apply pair_equal_spec in H1 as [Hv Hi]; subst i1; injection Hv as Hv; subst z1.
    rewrite (zcall_unfold rule hint) by reflexivity. cbn [zs zo zend]. cbv zeta. rewrite wr_wr.
    replace (zend z - (zo z + a)) with (av - a) by lia.
    destruct (N.le_gt_cases (a + b) av) as [Hall|Hmore].
    + rewrite N.min_r in Hc by exact Hall. replace (a + b - (a + b) =? 0) with true in Hc by (symmetry; apply N.eqb_eq; lia). ifred Hc.
      rewrite N.min_r by lia. replace (b - b =? 0) with true by (symmetry; apply N.eqb_eq; lia).
      rewrite <- N.add_assoc. exact Hc.
    + rewrite N.min_l in Hc by lia. replace (a + b - av =? 0) with false in Hc by (symmetry; apply N.eqb_neq; lia). ifred Hc.
      rewrite N.min_l by lia. replace (b - (av - a) =? 0) with false by (symmetry; apply N.eqb_neq; lia).
      replace (a + (av - a)) with av by lia. replace (b - (av - a)) with (a + b - av) by lia. exact Hc.
  - rewrite N.min_l in H1 by lia. replace (a - av =? 0) with false in H1 by (symmetry; apply N.eqb_neq; lia). ifred H1.
    rewrite N.min_l in Hc by lia. replace (a + b - av =? 0) with false in Hc by (symmetry; apply N.eqb_neq; lia). ifred Hc.
    replace (a + b - av) with ((a - av) + b) in Hc by lia.
    assert (Hp : 0 < a - av) by lia.
    apply (zloop_split _ _ _ _ _ _ _ Hp H1 70000%nat rc ic (Nat.le_refl _) Hc Nc).
Qed.
End Split.
