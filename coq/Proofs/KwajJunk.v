(* C11 for the KWAJ front end (L2/Kwaj.v): the complete run of the client scripts does not depend on what freshly allocated memory
   holds.  Only the SZDD method reads cells it may not have written (the LZSS window: Proofs/SzddJunk.v); the header reader and the
   NONE / XOR copy loop hand on only bytes the host delivered.  The LZH / MSZIP bodies are parameters (the same on both sides). *)
From stdpp Require Import gmap.
From Coq Require Import NArith ZArith List.
From MSP Require Import Gen.Consts L2.Sys L2.Szdd L2.Kwaj Proofs.Mon Proofs.SzddJunk.
Local Open Scope N_scope.

Section K.
Variables (fuel : nat) (lzh mszip : handle -> handle -> prog N).
Lemma q_kwaj_extract j1 j2 s h out : peq (kwaj_extract j1 fuel lzh mszip s h out) (kwaj_extract j2 fuel lzh mszip s h out).
Proof.
  unfold kwaj_extract. apply peq_bind; [apply peq_refl|]. intros ok. destruct (negb ok); [apply peq_refl|].
  apply peq_bind; [apply peq_refl|]. intros o. destruct o as [oh|]; [|apply peq_refl].
  apply peq_bind; [|intros e; apply peq_refl].
  destruct (_ || _); [apply peq_refl|]. destruct (_ =? _); [apply q_lzss_decompress|apply peq_refl].
Qed.
Lemma q_kwaj_decompress j1 j2 s i o : peq (kwaj_decompress j1 fuel lzh mszip s i o) (kwaj_decompress j2 fuel lzh mszip s i o).
Proof.
  unfold kwaj_decompress. apply peq_bind; [apply peq_refl|]. intros [h s1]. destruct h as [hd|]; [|apply peq_refl].
  apply peq_bind; [apply q_kwaj_extract|]. intros [e s2]. apply peq_refl.
Qed.
Theorem kwaj_junk_independent : forall (o : oracle) j1 j2,
  run o mon0 (kscript_decompress j1 fuel lzh mszip) = run o mon0 (kscript_decompress j2 fuel lzh mszip).
Proof.
  intros o j1 j2. apply run_peq. unfold kscript_decompress. apply peq_bind; [apply peq_refl|]. intros so.
  destruct so as [s|]; [|apply peq_refl]. apply peq_bind; [apply q_kwaj_decompress|]. intros [e s']. apply peq_refl.
Qed.
Theorem kwaj_open_extract_junk_independent : forall (o : oracle) j1 j2,
  run o mon0 (kscript_open_extract j1 fuel lzh mszip) = run o mon0 (kscript_open_extract j2 fuel lzh mszip).
Proof.
  intros o j1 j2. apply run_peq. unfold kscript_open_extract. apply peq_bind; [apply peq_refl|]. intros so.
  destruct so as [s|]; [|apply peq_refl]. apply peq_bind; [apply peq_refl|]. intros [h s1]. destruct h as [hd|]; [|apply peq_refl].
  apply peq_bind; [apply q_kwaj_extract|]. intros [e1 s2]. apply peq_bind; [apply q_kwaj_extract|]. intros [e2 s3]. apply peq_refl.
Qed.
End K.
