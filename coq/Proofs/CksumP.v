From Coq Require Import List NArith Lia Bool.
Import ListNotations.
From MSP Require Import Model.Cksum.
Local Open Scope N_scope.


Lemma byte_bits_high x n : x < 256 -> 8 <= n -> N.testbit x n = false.
Proof.
  intros Hx Hn. destruct (N.eq_dec x 0) as [->|Hz]; [apply N.bits_0|].
  apply N.bits_above_log2. apply N.lt_le_trans with 8; [|exact Hn].
  apply N.log2_lt_pow2; [lia|]. change (2^8) with 256. exact Hx.
Qed.

Lemma shl_bits_low x k n : n < k -> N.testbit (N.shiftl x k) n = false.
Proof. intros. apply N.shiftl_spec_low. exact H. Qed.

(* disjointness of a value below 2^k and a shifted value *)
Lemma land_low_shl a b k : a < 2^k -> N.land a (N.shiftl b k) = 0.
Proof.
  intros Ha. apply N.bits_inj. intro n. rewrite N.land_spec, N.bits_0.
  destruct (N.lt_ge_cases n k) as [Hlt|Hge].
  - rewrite shl_bits_low by exact Hlt. apply andb_false_r.
  - destruct (N.eq_dec a 0) as [->|Hz]; [rewrite N.bits_0; reflexivity|].
    rewrite (N.bits_above_log2 a n); [reflexivity|].
    apply N.lt_le_trans with k; [|exact Hge]. apply N.log2_lt_pow2; [lia|exact Ha].
Qed.

Lemma land_low_high a b k : a < 2^k -> (forall n, n < k -> N.testbit b n = false) -> N.land a b = 0.
Proof.
  intros Ha Hb. apply N.bits_inj. intro n. rewrite N.land_spec, N.bits_0.
  destruct (N.lt_ge_cases n k) as [Hlt|Hge].
  - rewrite Hb by exact Hlt. apply andb_false_r.
  - destruct (N.eq_dec a 0) as [->|Hz]; [rewrite N.bits_0; reflexivity|].
    rewrite (N.bits_above_log2 a n); [reflexivity|].
    apply N.lt_le_trans with k; [|exact Hge]. apply N.log2_lt_pow2; [lia|exact Ha].
Qed.

Lemma lor_is_lxor a b : N.land a b = 0 -> N.lor a b = N.lxor a b.
Proof. intro H. symmetry. apply N.lxor_lor. exact H. Qed.

Lemma shl_byte_lt b k : b < 256 -> N.shiftl b k < 2^(k+8).
Proof.
  intro Hb. rewrite N.shiftl_mul_pow2, N.add_comm, N.pow_add_r.
  change (2^8) with 256. apply N.mul_lt_mono_pos_r; [|exact Hb].
  apply N.neq_0_lt_0. apply N.pow_nonzero. lia.
Qed.

Lemma lor_lt a b k : a < 2^k -> b < 2^k -> N.lor a b < 2^k.
Proof.
  intros Ha Hb.
  destruct (N.eq_dec (N.lor a b) 0) as [->|Hz]; [apply N.neq_0_lt_0; apply N.pow_nonzero; lia|].
  apply N.log2_lt_pow2; [lia|]. rewrite N.log2_lor.
  destruct (N.eq_dec a 0) as [->|Ha0]; destruct (N.eq_dec b 0) as [->|Hb0]; try (simpl in Hz; lia).
  - rewrite N.max_r by (apply N.le_0_l). apply N.log2_lt_pow2; lia.
  - rewrite N.max_l by (apply N.le_0_l). apply N.log2_lt_pow2; lia.
  - apply N.max_lub_lt; apply N.log2_lt_pow2; lia.
Qed.

Lemma le32_x4 a b c d : a < 256 -> b < 256 -> c < 256 -> d < 256 -> le32 a b c d = x4 a b c d.
Proof.
  intros Ha Hb Hc Hd. unfold le32, x4.
  assert (H1: N.lor a (N.shiftl b 8) = N.lxor a (N.shiftl b 8)).
  { apply lor_is_lxor, land_low_shl. exact Ha. }
  assert (L1: N.lor a (N.shiftl b 8) < 2^16).
  { apply lor_lt; [apply N.lt_trans with 256; [exact Ha|reflexivity]| apply (shl_byte_lt b 8 Hb)]. }
  assert (H2: N.lor (N.lor a (N.shiftl b 8)) (N.shiftl c 16) = N.lxor (N.lor a (N.shiftl b 8)) (N.shiftl c 16)).
  { apply lor_is_lxor, land_low_shl. exact L1. }
  assert (L2: N.lor (N.lor a (N.shiftl b 8)) (N.shiftl c 16) < 2^24).
  { apply lor_lt; [apply N.lt_trans with (2^16); [exact L1|reflexivity]| apply (shl_byte_lt c 16 Hc)]. }
  rewrite (lor_is_lxor _ (N.shiftl d 24)) by (apply land_low_shl; exact L2).
  rewrite H2, H1. reflexivity.
Qed.

(* ---- xor is cancellative ---- *)
Lemma lxor_cancel_l a b c : N.lxor a b = N.lxor a c -> b = c.
Proof.
  intro H. apply N.lxor_eq.
  assert (E: N.lxor (N.lxor a b) (N.lxor a c) = 0) by (rewrite H; apply N.lxor_nilpotent).
  rewrite N.lxor_assoc, <- (N.lxor_assoc b a c), (N.lxor_comm b a), N.lxor_assoc, <- N.lxor_assoc in E.
  rewrite N.lxor_nilpotent, N.lxor_0_l in E. exact E.
Qed.
Lemma lxor_cancel_r a b c : N.lxor b a = N.lxor c a -> b = c.
Proof. rewrite !(N.lxor_comm _ a). apply lxor_cancel_l. Qed.
Lemma shl_inj a b k : N.shiftl a k = N.shiftl b k -> a = b.
Proof.
  intro H. apply (f_equal (fun x => N.shiftr x k)) in H.
  rewrite !N.shiftr_shiftl_l, N.sub_diag, !N.shiftl_0_r in H by apply N.le_refl. exact H.
Qed.

Fixpoint X (data : list N) : N :=
  match data with
  | a :: b :: c :: d :: rest => N.lxor (x4 a b c d) (X rest)
  | [a; b; c] => N.lxor (N.lxor (N.shiftl a 16) (N.shiftl b 8)) c
  | [a; b]    => N.lxor (N.shiftl a 8) b
  | [a]       => a
  | []        => 0
  end.

(* induction four at a time *)
Lemma list_ind4 (P : list N -> Prop) :
  P [] -> (forall a, P [a]) -> (forall a b, P [a;b]) -> (forall a b c, P [a;b;c]) ->
  (forall a b c d r, P r -> P (a::b::c::d::r)) -> forall l, P l.
Proof.
  intros H0 H1 H2 H3 H4.
  assert (G: forall n l, (length l <= n)%nat -> P l).
  { induction n as [|n IH]; intros l Hl.
    - destruct l; [exact H0|simpl in Hl; lia].
    - destruct l as [|a [|b [|c [|d r]]]]; auto.
      apply H4. apply IH. simpl in Hl. lia. }
  intro l. apply (G (length l)). lia.
Qed.

Lemma cksum_X : forall data, bytes data -> forall ck, cksum data ck = N.lxor ck (X data).
Proof.
  induction data as [|a|a b|a b c|a b c d r IH] using list_ind4; intros Hb ck.
  - reflexivity.
  - reflexivity.
  - cbn [cksum X]. f_equal. inversion Hb as [|? ? Ha Hb']; inversion Hb' as [|? ? Hbb _]; subst.
    rewrite N.lor_comm, (N.lxor_comm (N.shiftl a 8)). apply lor_is_lxor, land_low_shl. exact Hbb.
  - cbn [cksum X]. f_equal.
    inversion Hb as [|? ? Ha Hb1]; inversion Hb1 as [|? ? Hbb Hb2]; inversion Hb2 as [|? ? Hc _]; subst.
    assert (E1: N.lor (N.shiftl a 16) (N.shiftl b 8) = N.lxor (N.shiftl a 16) (N.shiftl b 8)).
    { rewrite N.lor_comm, N.lxor_comm. apply lor_is_lxor, land_low_shl. apply (shl_byte_lt b 8 Hbb). }
    rewrite <- E1. rewrite N.lor_comm, N.lxor_comm. apply lor_is_lxor.
    apply (land_low_high c _ 8 Hc). intros n Hn. rewrite N.lor_spec, !N.shiftl_spec_low by lia. reflexivity.
  - cbn [cksum X].
    inversion Hb as [|? ? Ha Hb1]; inversion Hb1 as [|? ? Hbb Hb2]; inversion Hb2 as [|? ? Hc Hb3];
      inversion Hb3 as [|? ? Hd Hr]; subst.
    rewrite IH by exact Hr. rewrite le32_x4 by assumption. apply N.lxor_assoc.
Qed.

(* ---- X is injective in any single byte ---- *)
Lemma X_single_byte : forall pre b b' post,
  X (pre ++ b :: post) = X (pre ++ b' :: post) -> b = b'.
Proof.
  intros pre. induction pre as [|p1|p1 p2|p1 p2 p3|p1 p2 p3 p4 r IH] using list_ind4; intros b b' post H.
  - (* changed byte is first of its group *)
    destruct post as [|q1 [|q2 [|q3 rest]]]; cbn [app X] in H.
    + exact H.
    + apply lxor_cancel_r in H. eapply shl_inj; exact H.
    + apply lxor_cancel_r in H. apply lxor_cancel_r in H. eapply shl_inj; exact H.
    + unfold x4 in H. apply lxor_cancel_r in H. do 3 apply lxor_cancel_r in H. exact H.
  - destruct post as [|q1 [|q2 rest]]; cbn [app X] in H.
    + apply lxor_cancel_l in H. exact H.
    + apply lxor_cancel_r in H. apply lxor_cancel_l in H. eapply shl_inj; exact H.
    + unfold x4 in H. apply lxor_cancel_r in H. do 2 apply lxor_cancel_r in H.
      apply lxor_cancel_l in H. eapply shl_inj; exact H.
  - destruct post as [|q1 rest]; cbn [app X] in H.
    + apply lxor_cancel_l in H. exact H.
    + unfold x4 in H. apply lxor_cancel_r in H. apply lxor_cancel_r in H.
      apply lxor_cancel_l in H. eapply shl_inj; exact H.
  - cbn [app X] in H. unfold x4 in H. apply lxor_cancel_r in H.
    apply lxor_cancel_l in H. eapply shl_inj; exact H.
  - cbn [app X] in H. apply lxor_cancel_l in H. eapply IH; exact H.
Qed.

(* ---- the property-level statement for the payload ---- *)
Theorem cab_cksum_single_byte : forall pre b b' post seed,
  bytes (pre ++ b :: post) -> b' < 256 -> b <> b' ->
  cksum (pre ++ b :: post) seed <> cksum (pre ++ b' :: post) seed.
Proof.
  intros pre b b' post seed Hb Hb' Hne Heq.
  assert (Hb2 : bytes (pre ++ b' :: post)).
  { unfold bytes in *. apply Forall_app in Hb as [H1 H2]. apply Forall_app; split; [exact H1|].
    inversion H2; subst. constructor; assumption. }
  rewrite !cksum_X in Heq by assumption.
  apply lxor_cancel_l in Heq. apply X_single_byte in Heq. contradiction.
Qed.

Example cksum_nonvacuous :
  bytes [1;2;3;4;5;6;7] /\ cksum [1;2;3;4;5;6;7] 0 <> cksum [1;2;3;4;5;9;7] 0.
Proof. split; [repeat constructor|vm_compute; discriminate]. Qed.

(* ---- block level: the test cabd_sys_read_block performs on one CFDATA part ---- *)
Lemma cksum_seed_inj data s1 s2 : bytes data -> cksum data s1 = cksum data s2 -> s1 = s2.
Proof. intros Hb H. rewrite !cksum_X in H by exact Hb. apply lxor_cancel_r in H. exact H. Qed.

Lemma bytes_replace pre b b' post : bytes (pre ++ b :: post) -> b' < 256 -> bytes (pre ++ b' :: post).
Proof.
  unfold bytes. intros H Hb'. apply Forall_app in H as [H1 H2]. apply Forall_app; split; [exact H1|].
  inversion H2; subst. constructor; assumption.
Qed.

(* altering one payload byte of an accepted, checksummed block makes the test fail *)
Theorem block_tamper_payload : forall stored hdr4 pre b b' post,
  stored <> 0 -> bytes hdr4 -> bytes (pre ++ b :: post) -> b' < 256 -> b <> b' ->
  block_accepts stored hdr4 (pre ++ b :: post) = true ->
  block_accepts stored hdr4 (pre ++ b' :: post) = false.
Proof.
  intros stored hdr4 pre b b' post Hs Hh Hp Hb' Hne Hacc. unfold block_accepts in *.
  apply N.eqb_neq in Hs. rewrite Hs in *. cbn [orb] in *. apply N.eqb_eq in Hacc. apply N.eqb_neq.
  intro E. rewrite <- Hacc in E. unfold block_sum in E.
  apply cksum_seed_inj in E; [|exact Hh].
  symmetry in E. revert E. apply cab_cksum_single_byte; assumption.
Qed.

(* altering one byte of the size fields (compressed or uncompressed size) makes the test fail *)
Theorem block_tamper_sizes : forall stored payload pre b b' post,
  stored <> 0 -> bytes (pre ++ b :: post) -> b' < 256 -> b <> b' ->
  block_accepts stored (pre ++ b :: post) payload = true ->
  block_accepts stored (pre ++ b' :: post) payload = false.
Proof.
  intros stored payload pre b b' post Hs Hh Hb' Hne Hacc. unfold block_accepts in *.
  apply N.eqb_neq in Hs. rewrite Hs in *. cbn [orb] in *. apply N.eqb_eq in Hacc. apply N.eqb_neq.
  intro E. rewrite <- Hacc in E. unfold block_sum in E. symmetry in E. revert E.
  apply cab_cksum_single_byte; assumption.
Qed.

(* altering the stored checksum: the new value is either 0 (block no longer checked, payload
   and sizes are intact) or the test fails *)
Theorem block_tamper_stored : forall stored stored' hdr4 payload,
  stored <> 0 -> stored' <> stored ->
  block_accepts stored hdr4 payload = true ->
  stored' = 0 \/ block_accepts stored' hdr4 payload = false.
Proof.
  intros stored stored' hdr4 payload Hs Hne Hacc. unfold block_accepts in *.
  destruct (N.eqb_spec stored' 0) as [E0|N0]; [left; exact E0|right]. cbn [orb].
  apply N.eqb_neq in Hs. rewrite Hs in Hacc. cbn [orb] in Hacc. apply N.eqb_eq in Hacc.
  apply N.eqb_neq. intro E. apply Hne. rewrite <- E, Hacc. reflexivity.
Qed.

Example block_nonvacuous :
  let p := [1;2;3;4;5;6;7] in let h := [7;0;7;0] in
  block_sum h p <> 0 /\ block_accepts (block_sum h p) h p = true /\ bytes h /\ bytes p.
Proof. cbn zeta. split; [vm_compute; discriminate|]. split; [vm_compute; reflexivity|]. split; repeat constructor. Qed.
