(* The ideal interpreter treats the output accumulated so far as an opaque suffix. *)
From Coq Require Import List NArith Lia.
Import ListNotations.
From MSP Require Import Base.Src.
Local Open Scope N_scope.

Definition push (s : ist) (o : list byte) : ist := {| irest := irest s; iout := iout s ++ o |}.

Lemma ideal_take_push rule o : forall n s acc,
  ideal_take rule n (push s o) acc = match ideal_take rule n s acc with SVal (l, s') => SVal (l, push s' o) | SStop e => SStop e end.
Proof.
  induction n as [|n IH]; intros s acc; cbn [ideal_take]; [reflexivity|].
  unfold ideal_next. cbn [push irest iout]. destruct (irest s) as [|b r]; [reflexivity|].
  change {| irest := r; iout := iout s ++ o |} with (push {| irest := r; iout := iout s |} o). apply IH.
Qed.

Lemma ideal_push {A} rule hint (p : sprog A) : forall s o,
  ideal rule hint p (push s o) = let '(r, s') := ideal rule hint p s in (r, push s' o).
Proof.
  induction p as [a|c k IH]; intros s o; [reflexivity|]. destruct c; cbn [ideal].
  - unfold ideal_next. cbn [push irest iout]. destruct (irest s) as [|b r]; [reflexivity|].
    change {| irest := r; iout := iout s ++ o |} with (push {| irest := r; iout := iout s |} o). apply IH.
  - cbn [push irest]. destruct (irest s) as [|b r]; [reflexivity|]. apply IH.
  - rewrite ideal_take_push. destruct (ideal_take rule n s []) as [[l s']|e]; [apply IH|reflexivity].
  - change {| irest := irest (push s o); iout := rev_append d (iout (push s o)) |} with {| irest := irest s; iout := rev_append d (iout s ++ o) |}.
    replace {| irest := irest s; iout := rev_append d (iout s ++ o) |} with (push {| irest := irest s; iout := rev_append d (iout s) |} o)
      by (unfold push; cbn [irest iout]; rewrite !rev_append_rev, app_assoc; reflexivity).
    apply IH.
  - apply IH.
Qed.
