(* extract(): section 0, and the arithmetic of reset-point selection. *)
From Coq Require Import List NArith ZArith Lia Bool.
Import ListNotations.
From MSP Require Import Gen.Consts Gen.Tables Model.Chm Proofs.ChmEnc Props.ChmSample.
Local Open Scope N_scope.

Lemma extract_sec0 lower file h s off ln d : ln <> 0 ->
  rd file (h_sec0_offset h + Z.of_N off)%Z ln = Some d -> len d = ln -> extract lower file h s 0 off ln = (MSPACK_ERR_OK, d, s).
Proof.
  intros Hn Hrd Hl. unfold extract. replace (ln =? 0) with false by (symmetry; apply N.eqb_neq; exact Hn).
  cbn [N.eqb]. rewrite Hrd, Hl, N.eqb_refl. reflexivity.
Qed.

Ltac Zify.zify_post_hook ::= Z.div_mod_to_equations.
Lemma reset_point_spec foff ri : (0 < ri)%Z -> (ri mod 32768 = 0)%Z ->
  let entry := (cdiv (Z.of_N foff) ri * cdiv ri 32768)%Z in
  (entry * 32768 = Z.of_N foff / ri * ri /\ entry * 32768 <= Z.of_N foff < entry * 32768 + ri)%Z.
Proof.
  intros Hri Hm. unfold cdiv. rewrite !Z.quot_div_nonneg by lia. cbv zeta.
  assert (E : (ri / 32768 * 32768 = ri)%Z) by lia.
  split; [rewrite <- Z.mul_assoc, E; reflexivity|]. rewrite <- Z.mul_assoc, E.
  pose proof (Z.div_mod (Z.of_N foff) ri ltac:(lia)). pose proof (Z.mod_pos_bound (Z.of_N foff) ri Hri). nia.
Qed.

Lemma sample_hyps :
  exists h, read_hdr sample_chm = (MSPACK_ERR_OK, Some h) /\
    N.of_nat (length sample_pmgls) = h_last_pmgl h - h_first_pmgl h + 1 /\
    (forall i d, nth_error sample_pmgls i = Some d ->
       rd sample_chm (h_dir_offset h + Z.of_N ((h_first_pmgl h + N.of_nat i) * h_chunk_size h))%Z (h_chunk_size h) = Some (chunk_of d) /\ wf_pmgl (h_chunk_size h) d).
Proof.
  eexists. split; [vm_compute; reflexivity|]. split; [reflexivity|].
  intros i d Hi. destruct i as [|[|i]]; cbn [nth_error sample_pmgls] in Hi; [| |destruct i; discriminate]; inversion Hi; subst d.
  all: split; [vm_compute; reflexivity|]. 
  all: unfold wf_pmgl; split; [|split; [vm_compute; reflexivity|vm_compute; reflexivity]].
  all: cbn [p_es]; repeat constructor; vm_compute; reflexivity.
Qed.
