(* ENCINT, directory entries, PMGL chunks and the whole directory: open() of chmd.c (Model/Chm.v) reads back exactly
   what an encoder wrote, for every value, every entry list and every chunk list. *)
From Coq Require Import List NArith ZArith Lia Bool.
Import ListNotations.
From MSP Require Import Gen.Consts Gen.Tables Model.Chm.
Local Open Scope N_scope.

Lemma small_bits_high c n : c < 128 -> 7 <= n -> N.testbit c n = false.
Proof.
  intros Hc Hn. destruct c as [|p]; [apply N.bits_0|].
  apply N.bits_above_log2. eapply N.lt_le_trans; [|exact Hn]. apply N.log2_lt_pow2; [lia|exact Hc].
Qed.
Lemma lor_shiftl7 r c : c < 128 -> N.lor (N.shiftl r 7) c = r * 128 + c.
Proof.
  intro Hc. rewrite N.shiftl_mul_pow2. change (2 ^ 7) with 128.
  assert (Hd : N.land (r * 128) c = 0).
  { apply N.bits_inj; intro n; rewrite N.land_spec, N.bits_0.
    destruct (N.lt_ge_cases n 7) as [Hn|Hn].
    - change 128 with (2 ^ 7). rewrite N.mul_pow2_bits_low by exact Hn. reflexivity.
    - rewrite (small_bits_high c n Hc Hn). apply andb_false_r. }
  rewrite <- N.lxor_lor by exact Hd. symmetry. apply N.add_nocarry_lxor. exact Hd.
Qed.
Fixpoint nrange (n : nat) (s : N) : list N := match n with O => [] | S k => s :: nrange k (s + 1) end.
Lemma nrange_in n : forall s c, s <= c -> c < s + N.of_nat n -> In c (nrange n s).
Proof.
  induction n as [|n IH]; intros s c H1 H2; [lia|]. cbn [nrange].
  destruct (N.eq_dec s c) as [->|Hne]; [left; reflexivity|right]. apply IH; lia.
Qed.
Lemma sweep (P : N -> bool) (k : nat) : forallb P (nrange k 0) = true -> forall c, c < N.of_nat k -> P c = true.
Proof. intros H c Hc. rewrite forallb_forall in H. apply H. apply nrange_in; lia. Qed.
Lemma cont_byte d : d < 128 -> N.land (128 + d) 128 =? 0 = false /\ N.land (128 + d) 127 = d.
Proof.
  intro H. pose proof (sweep (fun d => negb (N.land (128 + d) 128 =? 0) && (N.land (128 + d) 127 =? d)) 128 eq_refl d H) as S.
  apply andb_true_iff in S as [A B]. apply negb_true_iff in A. apply N.eqb_eq in B. split; assumption.
Qed.
Lemma last_byte d : d < 128 -> N.land d 128 =? 0 = true /\ N.land d 127 = d.
Proof.
  intro H. pose proof (sweep (fun d => (N.land d 128 =? 0) && (N.land d 127 =? d)) 128 eq_refl d H) as S.
  apply andb_true_iff in S as [A B]. apply N.eqb_eq in B. split; assumption.
Qed.
Fixpoint digits (k : nat) (v : N) : list N :=
  match k with O => [v mod 128] | S k' => (128 + (v / 128 ^ N.of_nat (S k')) mod 128) :: digits k' v end.

Lemma encint_loop_digits : forall k fuel i res rest v, (k < fuel)%nat ->
  encint_loop fuel i (digits k v ++ rest) res = Some (res * 128 ^ N.of_nat (S k) + v mod 128 ^ N.of_nat (S k), rest).
Proof.
  induction k as [|k IH]; intros fuel i res rest v Hf; (destruct fuel as [|f]; [lia|]); cbn [digits app encint_loop].
  - assert (Hd : v mod 128 < 128) by (apply N.mod_lt; lia).
    destruct (last_byte _ Hd) as [A B]. rewrite A, B, lor_shiftl7 by exact Hd.
    change ENCINT_BAD_LAST_BYTE with 128. rewrite A. rewrite andb_false_r. change (128 ^ N.of_nat 1) with 128. reflexivity.
  - set (d := (v / 128 ^ N.of_nat (S k)) mod 128).
    assert (Hd : d < 128) by (apply N.mod_lt; lia).
    destruct (cont_byte _ Hd) as [A B]. rewrite A, B, lor_shiftl7 by exact Hd.
    rewrite IH by lia. f_equal. f_equal.
    rewrite (Nat2N.inj_succ (S k)), N.pow_succ_r', (N.mul_comm 128), N.mod_mul_r by (try apply N.pow_nonzero; lia).
    fold d. lia.
Qed.
Lemma read_encint_digits k v rest : (k <= 8)%nat -> v < 128 ^ N.of_nat (S k) -> read_encint (digits k v ++ rest) = Some (v, rest).
Proof.
  intros Hk Hv. unfold read_encint. change (N.to_nat ENCINT_MAX_BYTES) with 9%nat.
  rewrite encint_loop_digits by lia. rewrite N.mod_small by exact Hv. reflexivity.
Qed.
Definition kof (v : N) : nat :=
  if v <? 128 ^ 1 then 0 else if v <? 128 ^ 2 then 1 else if v <? 128 ^ 3 then 2 else if v <? 128 ^ 4 then 3 else
  if v <? 128 ^ 5 then 4 else if v <? 128 ^ 6 then 5 else if v <? 128 ^ 7 then 6 else if v <? 128 ^ 8 then 7 else 8.
Definition encint (v : N) : list N := digits (kof v) v.
Definition MAXINT := 9223372036854775808.      (* 2^63 = 128^9 *)
Lemma read_encint_enc v rest : v < MAXINT -> read_encint (encint v ++ rest) = Some (v, rest).
Proof.
  intro Hv. unfold encint, kof.
  repeat match goal with |- context [if ?a <? ?b then _ else _] => destruct (N.ltb_spec a b) end;
    (apply read_encint_digits; [lia|first [assumption|exact Hv]]).
Qed.

Definition enc_entry (e : ent) : list N :=
  encint (len (e_name e)) ++ e_name e ++ encint (e_sec e) ++ encint (e_off e) ++ encint (e_len e).
Definition wf_ent (e : ent) : Prop := len (e_name e) < M32 /\ e_sec e < M32 /\ e_off e < MAXINT /\ e_len e < MAXINT.
Definition keepE (e : ent) : bool := keep (e_name e) (e_sec e) (e_off e) (e_len e).

Lemma firstn_len_app (a b : list N) : firstn (N.to_nat (len a)) (a ++ b) = a.
Proof. unfold len. rewrite Nat2N.id. rewrite firstn_app, Nat.sub_diag, firstn_all, firstn_O, app_nil_r. reflexivity. Qed.
Lemma skipn_len_app (a b : list N) : skipn (N.to_nat (len a)) (a ++ b) = b.
Proof. unfold len. rewrite Nat2N.id. rewrite skipn_app, Nat.sub_diag, skipn_all. reflexivity. Qed.
Lemma len_app (a b : list N) : len (a ++ b) = len a + len b.
Proof. unfold len. rewrite app_length. lia. Qed.

(* one entry at the head of the remaining bytes is read back exactly *)
Lemma parse_one e rest : wf_ent e ->
  read_encint (enc_entry e ++ rest) = Some (len (e_name e), e_name e ++ encint (e_sec e) ++ encint (e_off e) ++ encint (e_len e) ++ rest).
Proof.
  intros (H1 & _). unfold enc_entry. rewrite <- !app_assoc. apply read_encint_enc. unfold M32, MAXINT in *. lia.
Qed.

Lemma parse_entries_enc : forall es acc tail, Forall wf_ent es ->
  parse_entries (length es) (concat (map enc_entry es) ++ tail) acc = (rev acc ++ filter keepE es, 0).
Proof.
  induction es as [|e es IH]; intros acc tail Hwf; cbn [length parse_entries map concat filter].
  - rewrite app_nil_r. reflexivity.
  - inversion Hwf as [|? ? He Hes]; subst. rewrite <- app_assoc, parse_one by exact He.
    destruct He as (H1 & H2 & H3 & H4).
    rewrite (N.mod_small _ _ H1).
    assert (Hl : len (e_name e ++ encint (e_sec e) ++ encint (e_off e) ++ encint (e_len e) ++ concat (map enc_entry es) ++ tail) <? len (e_name e) = false).
    { apply N.ltb_ge. rewrite len_app. lia. }
    rewrite Hl, firstn_len_app, skipn_len_app.
    rewrite read_encint_enc by (unfold M32, MAXINT in *; lia).
    rewrite read_encint_enc by exact H3. rewrite read_encint_enc by exact H4.
    rewrite (N.mod_small _ _ H2). fold (keepE e). destruct e as [nm sc of ln]; cbn [e_name e_sec e_off e_len] in *.
    destruct (keepE (mkEnt nm sc of ln)) eqn:K; rewrite IH by exact Hes; cbn [rev]; rewrite <- ?app_assoc; reflexivity.
Qed.
(* ---------- byte-list positions ---------- *)
Lemma len_nil : len [] = 0. Proof. reflexivity. Qed.
Lemma sub_mid (a m t : list N) : sub (a ++ m ++ t) (len a) (len a + len m) = m.
Proof.
  unfold sub. destruct m as [|x m'].
  - rewrite len_nil, N.add_0_r, N.leb_refl. reflexivity.
  - assert (Hm : 0 < len (x :: m')) by (unfold len; cbn [length]; lia).
    replace (len a + len (x :: m') <=? len a) with false by (symmetry; apply N.leb_gt; lia).
    replace (len (a ++ (x :: m') ++ t) <=? len a) with false by (symmetry; apply N.leb_gt; rewrite !len_app; lia).
    cbn [orb]. rewrite skipn_len_app.
    replace (N.min (len a + len (x :: m')) (len (a ++ (x :: m') ++ t)) - len a) with (len (x :: m')) by (rewrite !len_app; lia).
    apply firstn_len_app.
Qed.
Lemma nthb_app_r (a b : list N) i : nthb (a ++ b) (len a + i) = nthb b i.
Proof. unfold nthb, len. rewrite N2Nat.inj_add, Nat2N.id, app_nth2_plus. reflexivity. Qed.
Lemma nthb_app_l (a b : list N) i : i < len a -> nthb (a ++ b) i = nthb a i.
Proof. unfold nthb, len. intro H. apply app_nth1. lia. Qed.

Definition le16b (v : N) : list N := [v mod 256; v / 256].
Definition le32b (v : N) : list N := le16b (v mod 65536) ++ le16b (v / 65536).
Lemma le16_le16b v r : le16 (le16b v ++ r) 0 = v.
Proof. unfold le16, le16b, nthb. change (N.to_nat 0) with 0%nat. change (N.to_nat (0 + 1)) with 1%nat. cbn [nth app]. pose proof (N.div_mod v 256). lia. Qed.
Lemma le16_app_r (a b : list N) i : le16 (a ++ b) (len a + i) = le16 b i.
Proof. unfold le16. rewrite <- N.add_assoc, !nthb_app_r. reflexivity. Qed.
Lemma le32_app_r (a b : list N) i : le32 (a ++ b) (len a + i) = le32 b i.
Proof. unfold le32. rewrite <- N.add_assoc, !le16_app_r. reflexivity. Qed.
Lemma le16_le16b0 v : v < 65536 -> le16 (le16b v) 0 = v.
Proof. intro H. rewrite <- (app_nil_r (le16b v)). apply le16_le16b. Qed.

(* a PMGL chunk: 20-byte header, the encoded entries, free space, the quick-reference area (any bytes), the entry count *)
Definition pmgl_hdr (qr_size unk prev next : N) : list N := [80; 77; 71; 76] ++ le32b qr_size ++ le32b unk ++ le32b prev ++ le32b next.
Definition mk_pmgl (qr_size unk prev next : N) (es : list ent) (free_and_qr : list N) : list N :=
  pmgl_hdr qr_size unk prev next ++ (concat (map enc_entry es) ++ free_and_qr) ++ le16b (N.of_nat (length es)).

Lemma len_pmgl_hdr a b c d : len (pmgl_hdr a b c d) = 20. Proof. reflexivity. Qed.

Theorem list_chunk_pmgl : forall cs qr unk prev next es fq, Forall wf_ent es -> N.of_nat (length es) < 65536 ->
  len (mk_pmgl qr unk prev next es fq) = cs ->
  list_chunk cs (mk_pmgl qr unk prev next es fq) false = (filter keepE es, 0).
Proof.
  intros cs qr unk prev next es fq Hwf Hn Hlen. unfold list_chunk.
  assert (Hsig : le32 (mk_pmgl qr unk prev next es fq) pmgl_Signature = PMGL_SIG) by reflexivity.
  rewrite Hsig, N.eqb_refl. cbn [negb].
  set (area := concat (map enc_entry es) ++ fq) in *.
  assert (Hcs : cs - 2 = len (pmgl_hdr qr unk prev next) + len area).
  { rewrite <- Hlen. unfold mk_pmgl. fold area. rewrite !len_app. change (len (le16b _)) with 2. lia. }
  rewrite Hcs. unfold mk_pmgl. fold area.
  rewrite le16_app_r. replace (len area) with (len area + 0) at 1 by lia. rewrite le16_app_r, le16_le16b0 by exact Hn.
  change pmgl_Entries with (len (pmgl_hdr qr unk prev next)). rewrite sub_mid.
  rewrite Nat2N.id. unfold area. rewrite parse_entries_enc by exact Hwf. reflexivity.
Qed.
(* ---------- the whole directory ---------- *)
Record pmgl := mkPmgl { p_qr : N; p_unk : N; p_prev : N; p_next : N; p_es : list ent; p_fq : list N }.
Definition chunk_of (d : pmgl) : list N := mk_pmgl (p_qr d) (p_unk d) (p_prev d) (p_next d) (p_es d) (p_fq d).
Definition wf_pmgl (cs : N) (d : pmgl) : Prop := Forall wf_ent (p_es d) /\ N.of_nat (length (p_es d)) < 65536 /\ len (chunk_of d) = cs.
Definition user (e : ent) : bool := negb (is_sys (e_name e)).
Definition sysb (e : ent) : bool := is_sys (e_name e).
Definition kept (d : pmgl) : list ent := filter keepE (p_es d).

Lemma rev_append_app {A} (a b s : list A) : rev_append (a ++ b) s = rev_append b (rev_append a s).
Proof. revert s; induction a as [|x a IH]; intro s; cbn; [reflexivity|apply IH]. Qed.

Lemma list_chunks_pmgl : forall descs file pos cs files sysf,
  (forall i d, nth_error descs i = Some d -> rd file (pos + Z.of_nat i * Z.of_N cs)%Z cs = Some (chunk_of d) /\ wf_pmgl cs d) ->
  list_chunks (length descs) file pos cs files sysf false false
  = (MSPACK_ERR_OK, files ++ filter user (concat (map kept descs)), rev_append (filter sysb (concat (map kept descs))) sysf, false).
Proof.
  induction descs as [|d ds IH]; intros file pos cs files sysf H; cbn [length list_chunks map concat].
  - cbn. rewrite app_nil_r. reflexivity.
  - destruct (H 0%nat d eq_refl) as (Hrd & Hes & Hn & Hlen).
    replace (pos + Z.of_nat 0 * Z.of_N cs)%Z with pos in Hrd by lia. rewrite Hrd.
    unfold chunk_of in *. rewrite Hlen, N.eqb_refl. cbn [negb].
    rewrite (list_chunk_pmgl cs _ _ _ _ _ _ Hes Hn Hlen). cbn [N.eqb negb orb].
    rewrite IH.
    + fold (kept d). rewrite !filter_app, rev_append_app, <- app_assoc. reflexivity.
    + intros i d' Hi. specialize (H (S i) d' Hi). replace (pos + Z.of_N cs + Z.of_nat i * Z.of_N cs)%Z with (pos + Z.of_nat (S i) * Z.of_N cs)%Z by lia. exact H.
Qed.

Lemma rd_inside file pos n ch : rd file pos n = Some ch -> len ch = n -> 0 < n -> (0 <= pos)%Z /\ Z.to_N pos + n <= len file.
Proof.
  unfold rd, sub. destruct (Z.ltb_spec pos 0); [discriminate|].
  destruct ((Z.to_N pos + n <=? Z.to_N pos) || (len file <=? Z.to_N pos)) eqn:C; intros E Hl Hn; inversion E as [E']; clear E.
  - subst ch. unfold len in Hl. cbn in Hl. lia.
  - apply orb_false_iff in C as [C1 C2]. apply N.leb_gt in C1, C2. split; [assumption|].
    subst ch. unfold len in Hl. rewrite firstn_length, skipn_length in Hl. unfold len in *. lia.
Qed.

(* open() on a file whose quick header reads as h and whose chunks first_pmgl..last_pmgl are the PMGL chunks descs:
   the listing is exactly the stored entries, user files in directory order, system files separately *)
Theorem chm_open_lists : forall file h descs,
  read_hdr file = (MSPACK_ERR_OK, Some h) ->
  N.of_nat (length descs) = h_last_pmgl h - h_first_pmgl h + 1 -> N.of_nat (length descs) < M32 -> descs <> [] ->
  (forall i d, nth_error descs i = Some d ->
     rd file (h_dir_offset h + Z.of_N ((h_first_pmgl h + N.of_nat i) * h_chunk_size h))%Z (h_chunk_size h) = Some (chunk_of d) /\ wf_pmgl (h_chunk_size h) d) ->
  chm_open file true = (MSPACK_ERR_OK, Some (h, filter user (concat (map kept descs)), rev (filter sysb (concat (map kept descs))))).
Proof.
  intros file h descs Hh Hn Hsm Hne Hch. unfold chm_open, read_headers. rewrite Hh. cbn [negb].
  set (cs := h_chunk_size h) in *.
  assert (Hcs : 0 < cs).
  { destruct descs as [|d ds]; [congruence|]. destruct (Hch 0%nat d eq_refl) as (_ & _ & _ & Hl). rewrite <- Hl. unfold chunk_of, mk_pmgl. rewrite len_app, len_pmgl_hdr. lia. }
  assert (Hcount : N.to_nat (N.min ((h_last_pmgl h - h_first_pmgl h + 1) mod M32) (len file / cs + 2)) = length descs).
  { rewrite <- Hn in *.
    assert (Hb : N.of_nat (length descs) <= len file / cs).
    { assert (Hp0 : (0 <= h_dir_offset h + Z.of_N (h_first_pmgl h * cs))%Z).
      { destruct descs as [|d0 ds]; [congruence|]. destruct (Hch 0%nat d0 eq_refl) as (Hrd & _ & _ & Hl).
        apply rd_inside in Hrd; [|exact Hl|exact Hcs]. destruct Hrd as [Hp _]. cbn [N.of_nat] in Hp. rewrite N.add_0_r in Hp. exact Hp. }
      destruct (nth_error descs (length descs - 1)) as [d|] eqn:E.
      - destruct (Hch _ d E) as (Hrd & _ & _ & Hl). apply rd_inside in Hrd; [|exact Hl|exact Hcs]. destruct Hrd as [Hp Hle].
        apply N.div_le_lower_bound; [lia|].
        assert (Hnz : (length descs <> 0)%nat) by (destruct descs; cbn; congruence).
        replace (Z.to_N (h_dir_offset h + Z.of_N ((h_first_pmgl h + N.of_nat (length descs - 1)) * cs)))
          with (Z.to_N (h_dir_offset h + Z.of_N (h_first_pmgl h * cs)) + N.of_nat (length descs - 1) * cs) in Hle by lia.
        replace (N.of_nat (length descs)) with (N.of_nat (length descs - 1) + 1) by lia. lia.
      - apply nth_error_None in E. destruct descs; cbn in *; [congruence|lia]. }
    rewrite N.mod_small by exact Hsm. rewrite N.min_l by lia. apply Nat2N.id. }
  rewrite Hcount.
  rewrite (list_chunks_pmgl descs file _ cs [] []).
  - cbn [N.eqb negb app]. rewrite rev_append_rev, app_nil_r. reflexivity.
  - intros i d Hi. destruct (Hch i d Hi) as [Hrd Hwf]. split; [|exact Hwf]. rewrite <- Hrd. f_equal. lia.
Qed.
