(* C19: the list of static-storage objects of the library objects, regenerated from the working tree on every run (nm + clang AST),
   contains no writable object that the source ever stores to or whose address reaches a non-const pointer. *)
From Coq Require Import List NArith String Bool.
Import ListNotations.
From MSP Require Import Gen.Globals.
Local Open Scope N_scope.

Definition gok (g : string * string * bool * N * N * N) : bool :=
  let '(_, _, writable, stores, escapes, _) := g in negb writable || ((stores =? 0) && (escapes =? 0)).
Theorem no_shared_mutable_state : forallb gok globals = true.
Proof. vm_compute. reflexivity. Qed.

(* the expected shape, so that an empty or truncated list does not pass silently: the lookup tables are there and read-only *)
Definition has (u n : string) : bool := existsb (fun g => let '(u', n', w, _, _, _) := g in String.eqb u u' && String.eqb n n' && negb w) globals.
Theorem tables_present_and_readonly :
  has "lzxd" "position_base" && has "lzxd" "extra_bits" && has "qtmd" "position_base" && has "mszipd" "lit_lengths" && has "crc32" "crc32_table" && has "chmd" "guids" = true.
Proof. vm_compute. reflexivity. Qed.
