(* oabd.c: window size selection, CRC-32, and the container (header, block headers, padding, per-block CRC) for every
   block list, parametric in the block decoder. *)
From Coq Require Import List NArith ZArith Lia Bool.
Import ListNotations.
From MSP Require Import Gen.Consts Gen.Tables Model.Oab.
Local Open Scope N_scope.

(* ---------- window size ---------- *)
Lemma wbits_loop_spec size : forall fuel w, w <= 25 -> 25 - w <= N.of_nat fuel ->
  let r := wbits_loop fuel w size in w <= r <= 25 /\ (r < 25 -> size <= 2 ^ r) /\ (w < r -> 2 ^ (r - 1) < size).
Proof.
  induction fuel as [|f IH]; intros w Hw Hf; cbn [wbits_loop]; cbv zeta.
  - assert (w = 25) by lia. subst. repeat split; lia.
  - rewrite N.shiftl_1_l. destruct (N.ltb_spec w 25) as [Hlt|Hge]; cbn [andb].
    + destruct (N.ltb_spec (2 ^ w) size) as [Hs|Hs].
      * specialize (IH (w + 1) ltac:(lia) ltac:(lia)). cbv zeta in IH. destruct IH as ((A & B) & C & D). repeat split; try lia; try exact C.
        intros _. destruct (N.eq_dec (wbits_loop f (w + 1) size) (w + 1)) as [E|E]; [rewrite E; replace (w + 1 - 1) with w by lia; exact Hs|apply D; lia].
      * repeat split; try lia.
    + repeat split; lia.
Qed.
Theorem window_bits_spec size : let w := window_bits size in
  17 <= w <= 25 /\ (size <= 2 ^ 25 -> size <= 2 ^ w) /\ (17 < w -> 2 ^ (w - 1) < size).
Proof.
  cbv zeta. destruct (wbits_loop_spec size 8 17 ltac:(lia) ltac:(cbn; lia)) as ((A & B) & C & D). fold (window_bits size) in *.
  repeat split; try assumption. intro H. destruct (N.eq_dec (window_bits size) 25) as [E|E]; [rewrite E; exact H|apply C; lia].
Qed.

(* ---------- CRC-32 ---------- *)
(* the table is the reflected polynomial 0xEDB88320 applied eight times to each byte *)
Definition crc_bit (c : N) : N := if N.odd c then N.lxor 3988292384 (N.shiftr c 1) else N.shiftr c 1.
Definition crc_byte (b : N) : N := crc_bit (crc_bit (crc_bit (crc_bit (crc_bit (crc_bit (crc_bit (crc_bit b))))))).
Fixpoint nrange (n : nat) (s : N) : list N := match n with O => [] | S k => s :: nrange k (s + 1) end.
Theorem crc_table_is_polynomial : crc32_table_gen = map crc_byte (nrange 256 0).
Proof. vm_compute. reflexivity. Qed.

(* the running CRC does not depend on how the output is cut into write() calls *)
Theorem crc32_app v a b : crc32 v (a ++ b) = crc32 (crc32 v a) b.
Proof. unfold crc32. apply fold_left_app. Qed.
Theorem crc32_chunks v chunks : crc32 v (concat chunks) = fold_left crc32 chunks v.
Proof. revert v. induction chunks as [|c cs IH]; intro v; cbn [concat fold_left]; [reflexivity|]. rewrite crc32_app. apply IH. Qed.

Lemma log2_lt32 x : x < 2 ^ 32 -> N.log2 x < 32.
Proof. intro H. destruct x as [|p]; [reflexivity|]. apply N.log2_lt_pow2; [lia|exact H]. Qed.
Lemma lxor_lt32 a b : a < M32 -> b < M32 -> N.lxor a b < M32.
Proof.
  intros Ha Hb. unfold M32 in *. change 4294967296 with (2 ^ 32) in *.
  destruct (N.eq_dec (N.lxor a b) 0) as [E|E]; [rewrite E; reflexivity|].
  apply N.log2_lt_pow2; [lia|]. eapply N.le_lt_trans; [apply N.log2_lxor|].
  apply N.max_lub_lt; apply log2_lt32; assumption.
Qed.
Lemma table_lt32 i : nth i crc32_table_gen 0 < M32.
Proof.
  destruct (Nat.lt_ge_cases i 256) as [H|H].
  - assert (F : Forall (fun x => x < M32) crc32_table_gen) by (apply Forall_forall; intros x Hx; revert x Hx; apply Forall_forall; repeat constructor).
    rewrite Forall_forall in F. apply F. apply nth_In. exact H.
  - rewrite nth_overflow by exact H. reflexivity.
Qed.
Lemma crc_step_lt32 v b : v < M32 -> crc_step v b < M32.
Proof.
  intro H. unfold crc_step. apply lxor_lt32; [apply table_lt32|]. rewrite N.shiftr_div_pow2. eapply N.le_lt_trans; [apply N.div_le_upper_bound with (q := v); [discriminate|]|exact H].
  change (2 ^ 8) with 256. lia.
Qed.
Lemma crc32_lt32 d : forall v, v < M32 -> crc32 v d < M32.
Proof. unfold crc32. induction d as [|b d IH]; intros v H; cbn [fold_left]; [exact H|]. apply IH. apply crc_step_lt32. exact H. Qed.

(* ---------- byte plumbing ---------- *)
Lemma len_app (a b : list N) : len (a ++ b) = len a + len b.
Proof. unfold len. rewrite app_length. lia. Qed.
Lemma nthb_app_r (a b : list N) i : nthb (a ++ b) (len a + i) = nthb b i.
Proof. unfold nthb, len. rewrite N2Nat.inj_add, Nat2N.id, app_nth2_plus. reflexivity. Qed.
Lemma le32_app_r (a b : list N) i : le32 (a ++ b) (len a + i) = le32 b i.
Proof. unfold le32. rewrite <- !N.add_assoc, !nthb_app_r. reflexivity. Qed.
Definition le32b (v : N) : list N := [v mod 256; (v / 256) mod 256; (v / 256 / 256) mod 256; (v / 256 / 256 / 256) mod 256].
Lemma le32_arith v : v < 4294967296 -> v mod 256 + 256 * ((v / 256) mod 256 + 256 * ((v / 256 / 256) mod 256 + 256 * ((v / 256 / 256 / 256) mod 256))) = v.
Proof.
  intros H.
  pose proof (N.div_mod v 256 ltac:(lia)) as E0. pose proof (N.mod_lt v 256 ltac:(lia)) as L0.
  set (v1 := v / 256) in *. pose proof (N.div_mod v1 256 ltac:(lia)) as E1. pose proof (N.mod_lt v1 256 ltac:(lia)) as L1.
  set (v2 := v1 / 256) in *. pose proof (N.div_mod v2 256 ltac:(lia)) as E2. pose proof (N.mod_lt v2 256 ltac:(lia)) as L2.
  set (v3 := v2 / 256) in *. pose proof (N.div_mod v3 256 ltac:(lia)) as E3. pose proof (N.mod_lt v3 256 ltac:(lia)) as L3.
  set (v4 := v3 / 256) in *. clearbody v4.
  generalize dependent (v3 mod 256). generalize dependent (v2 mod 256). generalize dependent (v1 mod 256). generalize dependent (v mod 256).
  clearbody v1 v2 v3. intros. lia.
Qed.
Lemma le32_le32b v r : v < M32 -> le32 (le32b v ++ r) 0 = v.
Proof.
  intro H. unfold le32, le32b, nthb, M32 in *. change (N.to_nat 0) with 0%nat. change (N.to_nat (0 + 1)) with 1%nat.
  change (N.to_nat (0 + 2)) with 2%nat. change (N.to_nat (0 + 3)) with 3%nat. cbn [app nth]. apply le32_arith. exact H.
Qed.
Lemma len_le32b v : len (le32b v) = 4. Proof. reflexivity. Qed.
Lemma take_app (a b : list N) : take (len a) (a ++ b) = a.
Proof. unfold take. rewrite N.min_l by (rewrite len_app; lia). unfold len. rewrite Nat2N.id, firstn_app, Nat.sub_diag, firstn_all, firstn_O, app_nil_r. reflexivity. Qed.
Lemma drop_app (a b : list N) : drop (len a) (a ++ b) = b.
Proof.
  unfold drop. destruct (N.leb_spec (len (a ++ b)) (len a)) as [H|H].
  - rewrite len_app in H. assert (len b = 0) by lia. destruct b; [reflexivity|unfold len in *; cbn in *; lia].
  - unfold len. rewrite Nat2N.id, skipn_app, Nat.sub_diag, skipn_all. reflexivity.
Qed.

(* ---------- the container of a full OAB file ---------- *)
Section Full.
Variable lzx : N -> N -> list N -> list N -> N * list N.
Variable buf_size : N.

Inductive blk := Stored (crcfield : N) (d : list N) | Comp (stream pad d : list N).
Definition bdata (b : blk) : list N := match b with Stored _ d => d | Comp _ _ d => d end.
Definition enc_blk (b : blk) : list N :=
  match b with
  | Stored c d => le32b 0 ++ le32b (len d) ++ le32b (len d) ++ le32b c ++ d
  | Comp s p d => le32b 1 ++ le32b (len (s ++ p)) ++ le32b (len d) ++ le32b (crc32 4294967295 d) ++ (s ++ p)
  end.
(* a block the format allows, whose compressed stream (followed by its padding) the block decoder turns into d *)
Definition wf_blk (bm : N) (b : blk) : Prop :=
  len (bdata b) <= bm /\ len (bdata b) < M32 /\
  match b with
  | Stored c _ => c < M32
  | Comp s p d => len (s ++ p) < M32 /\ lzx (window_bits (len d)) (len d) [] (s ++ p) = (MSPACK_ERR_OK, d)
  end.
Definition total (bs : list blk) : N := fold_right (fun b acc => len (bdata b) + acc) 0 bs.

Lemma total_zero bs : total bs = 0 -> concat (map bdata bs) = [].
Proof.
  induction bs as [|b bs IH]; cbn [total fold_right map concat]; [reflexivity|]. fold (total bs). intro H.
  assert (Hb : len (bdata b) = 0) by lia. destruct (bdata b); [apply IH; lia|unfold len in Hb; cbn in Hb; lia].
Qed.

(* the four header fields of an encoded block *)
Lemma hdr_fields f1 f2 f3 f4 rest : f1 < M32 -> f2 < M32 -> f3 < M32 -> f4 < M32 ->
  let b := le32b f1 ++ le32b f2 ++ le32b f3 ++ le32b f4 ++ rest in
  le32 b 0 = f1 /\ le32 b 4 = f2 /\ le32 b 8 = f3 /\ le32 b 12 = f4 /\ drop 16 b = rest /\ 16 <= len b.
Proof.
  intros H1 H2 H3 H4. cbv zeta. repeat split.
  - apply le32_le32b; assumption.
  - change 4 with (len (le32b f1) + 0). rewrite le32_app_r. apply le32_le32b; assumption.
  - change 8 with (len (le32b f1) + (len (le32b f2) + 0)). rewrite !le32_app_r. apply le32_le32b; assumption.
  - change 12 with (len (le32b f1) + (len (le32b f2) + (len (le32b f3) + 0))). rewrite !le32_app_r. apply le32_le32b; assumption.
  - change 16 with (len (le32b f1 ++ le32b f2 ++ le32b f3 ++ le32b f4)).
    replace (le32b f1 ++ le32b f2 ++ le32b f3 ++ le32b f4 ++ rest) with ((le32b f1 ++ le32b f2 ++ le32b f3 ++ le32b f4) ++ rest) by (rewrite <- !app_assoc; reflexivity).
    apply drop_app.
  - rewrite !len_app, !len_le32b. lia.
Qed.

Theorem full_blocks_correct : forall bs rest fuel out bm, 0 < buf_size -> Forall (wf_blk bm) bs -> (length bs < fuel)%nat ->
  full_blocks lzx buf_size fuel (concat (map enc_blk bs) ++ rest) bm (total bs) out = (MSPACK_ERR_OK, out ++ concat (map bdata bs)).
Proof.
  induction bs as [|b bs IH]; intros rest fuel out bm Hbuf Hwf Hf; (destruct fuel as [|f]; [cbn in Hf; lia|]).
  - cbn. rewrite app_nil_r. reflexivity.
  - cbn [full_blocks]. destruct (N.eqb_spec (total (b :: bs)) 0) as [Z|NZ]; [rewrite total_zero by exact Z; rewrite app_nil_r; reflexivity|].
    inversion Hwf as [|? ? (Hbm & H32 & Hb) Hbs]; subst. cbn [map concat total fold_right]. fold (total bs). rewrite <- app_assoc.
    assert (Htot : (len (bdata b) + total bs) - len (bdata b) = total bs) by lia.
    destruct b as [c d|s p d]; cbn [bdata enc_blk] in *.
    + rewrite <- !app_assoc.
      destruct (hdr_fields 0 (len d) (len d) c (d ++ concat (map enc_blk bs) ++ rest)) as (F1 & F2 & F3 & F4 & F5 & F6); try assumption; [reflexivity|].
      change oabblk_Flags with 0; change oabblk_CompSize with 4; change oabblk_UncompSize with 8; change oabblk_CRC with 12; change oabblk_SIZEOF with 16.
      rewrite F1, F2, F3, F4, F5.
      replace (len _ <? 16) with false by (symmetry; apply N.ltb_ge; exact F6).
      replace (bm <? len d) with false by (symmetry; apply N.ltb_ge; lia).
      replace (len d + total bs <? len d) with false by (symmetry; apply N.ltb_ge; lia).
      change (1 <? 0) with false. change (0 =? 0) with true. cbn [orb]. rewrite N.eqb_refl. cbn [negb].
      unfold copy_out. replace (len d <=? len (d ++ concat (map enc_blk bs) ++ rest)) with true by (symmetry; apply N.leb_le; rewrite len_app; lia).
      rewrite take_app, drop_app. change (MSPACK_ERR_OK =? 0) with true. cbn [negb]. rewrite Htot, IH by (try assumption; cbn in Hf; lia). rewrite <- app_assoc. reflexivity.
    + destruct Hb as (Hc32 & Hlzx). rewrite <- !app_assoc.
      pose proof (crc32_lt32 d 4294967295 ltac:(reflexivity)) as Hcrc.
      destruct (hdr_fields 1 (len (s ++ p)) (len d) (crc32 4294967295 d) (s ++ p ++ concat (map enc_blk bs) ++ rest)) as (F1 & F2 & F3 & F4 & F5 & F6); try assumption; [reflexivity|].
      change oabblk_Flags with 0; change oabblk_CompSize with 4; change oabblk_UncompSize with 8; change oabblk_CRC with 12; change oabblk_SIZEOF with 16.
      rewrite F1, F2, F3, F4, F5.
      replace (len _ <? 16) with false by (symmetry; apply N.ltb_ge; exact F6).
      replace (bm <? len d) with false by (symmetry; apply N.ltb_ge; lia).
      replace (len d + total bs <? len d) with false by (symmetry; apply N.ltb_ge; lia).
      change (1 <? 1) with false. change (1 =? 0) with false. cbn [orb].
      rewrite (app_assoc s p), take_app, Hlzx. change (MSPACK_ERR_OK =? 0) with true. cbn [negb].
      replace (len ((s ++ p) ++ concat (map enc_blk bs) ++ rest) <? len (s ++ p)) with false by (symmetry; apply N.ltb_ge; rewrite (len_app (s ++ p)); lia).
      rewrite N.eqb_refl. cbn [negb]. rewrite drop_app, Htot, IH by (try assumption; cbn in Hf; lia). rewrite <- app_assoc. reflexivity.
Qed.

Lemma enc_blk_len b : 16 <= len (enc_blk b).
Proof. destruct b; cbn [enc_blk]; rewrite !len_app, !len_le32b; lia. Qed.
Lemma encs_len bs : 16 * N.of_nat (length bs) <= len (concat (map enc_blk bs)).
Proof. induction bs as [|b bs IH]; cbn [map concat length]; [cbn; lia|]. rewrite len_app. pose proof (enc_blk_len b). lia. Qed.

(* decompress(): every well-formed file - any block list, any padding, any trailing bytes, any buffer size - gives the concatenated data *)
Theorem oab_decompress_correct bs bm trailing : 0 < buf_size -> bm < M32 -> total bs < M32 -> Forall (wf_blk bm) bs ->
  oab_decompress lzx buf_size (le32b 3 ++ le32b 1 ++ le32b bm ++ le32b (total bs) ++ concat (map enc_blk bs) ++ trailing)
  = (MSPACK_ERR_OK, concat (map bdata bs)).
Proof.
  intros Hbuf Hbm Htot Hwf. unfold oab_decompress.
  destruct (hdr_fields 3 1 bm (total bs) (concat (map enc_blk bs) ++ trailing)) as (F1 & F2 & F3 & F4 & F5 & F6); try assumption; try reflexivity.
  change oabhead_VersionHi with 0; change oabhead_VersionLo with 4; change oabhead_BlockMax with 8; change oabhead_TargetSize with 12; change oabhead_SIZEOF with 16.
  rewrite F1, F2, F3, F4, F5. replace (len _ <? 16) with false by (symmetry; apply N.ltb_ge; exact F6).
  change ((3 =? 3) && (1 =? 1)) with true. cbn [negb].
  rewrite full_blocks_correct; [reflexivity|exact Hbuf|exact Hwf|].
  pose proof (encs_len bs) as He. change oabblk_SIZEOF with 16.
  set (inp := le32b 3 ++ _). assert (Hl : 16 * N.of_nat (length bs) + 16 <= len inp).
  { unfold inp. rewrite !len_app, !len_le32b. lia. }
  assert (N.of_nat (length bs) + 1 <= len inp / 16) by (apply N.div_le_lower_bound; lia). lia.
Qed.
End Full.

(* ---------- the container of an incremental patch ---------- *)
Section Patch.
Variable lzx : N -> N -> list N -> list N -> N * list N.

Record pblk := mkPB { pb_stream : list N; pb_pad : list N; pb_ref : list N; pb_data : list N }.
Definition round32k (x : N) : N := (x + 32767) / 32768 * 32768.
Definition pwbits (b : pblk) : N := window_bits (round32k (len (pb_ref b)) + len (pb_data b)).
Definition enc_pblk (b : pblk) : list N :=
  le32b (len (pb_stream b ++ pb_pad b)) ++ le32b (len (pb_data b)) ++ le32b (len (pb_ref b)) ++ le32b (crc32 4294967295 (pb_data b)) ++ (pb_stream b ++ pb_pad b).
(* a patch block the format allows (reference data rounded up to 32K frames plus the output fit the largest LZX DELTA window),
   whose stream the block decoder turns into the data when given the reference data *)
Definition wf_pblk (bm : N) (b : pblk) : Prop :=
  len (pb_data b) <= bm /\ len (pb_ref b) <= bm /\ len (pb_stream b ++ pb_pad b) < M32 /\
  round32k (len (pb_ref b)) + len (pb_data b) <= 2 ^ 25 /\
  lzx (pwbits b) (len (pb_data b)) (pb_ref b) (pb_stream b ++ pb_pad b) = (MSPACK_ERR_OK, pb_data b).
Definition ptotal (bs : list pblk) : N := fold_right (fun b acc => len (pb_data b) + acc) 0 bs.

Lemma ptotal_zero bs : ptotal bs = 0 -> concat (map pb_data bs) = [].
Proof.
  induction bs as [|b bs IH]; cbn [ptotal fold_right map concat]; [reflexivity|]. fold (ptotal bs). intro H.
  assert (Hb : len (pb_data b) = 0) by lia. destruct (pb_data b); [apply IH; lia|unfold len in Hb; cbn in Hb; lia].
Qed.
Lemma round32k_ge x : x <= round32k x.
Proof. unfold round32k. pose proof (N.div_mod (x + 32767) 32768 ltac:(lia)). pose proof (N.mod_lt (x + 32767) 32768 ltac:(lia)). lia. Qed.

Theorem patch_blocks_correct : forall bs rest base_tail fuel out bm, Forall (wf_pblk bm) bs -> (length bs < fuel)%nat ->
  patch_blocks lzx fuel (concat (map enc_pblk bs) ++ rest) (concat (map pb_ref bs) ++ base_tail) bm (ptotal bs) out
  = (MSPACK_ERR_OK, out ++ concat (map pb_data bs)).
Proof.
  induction bs as [|b bs IH]; intros rest base_tail fuel out bm Hwf Hf; (destruct fuel as [|f]; [cbn in Hf; lia|]).
  - cbn. rewrite app_nil_r. reflexivity.
  - cbn [patch_blocks]. destruct (N.eqb_spec (ptotal (b :: bs)) 0) as [Z|NZ]; [rewrite ptotal_zero by exact Z; rewrite app_nil_r; reflexivity|].
    inversion Hwf as [|? ? (Hd & Hr & Hc & Hw & Hlzx) Hbs]; subst. cbn [map concat ptotal fold_right]. fold (ptotal bs).
    set (sp := pb_stream b ++ pb_pad b) in *. set (d := pb_data b) in *. set (r := pb_ref b) in *.
    assert (Eb : enc_pblk b = le32b (len sp) ++ le32b (len d) ++ le32b (len r) ++ le32b (crc32 4294967295 d) ++ sp) by reflexivity.
    rewrite Eb. rewrite <- !app_assoc.
    pose proof (crc32_lt32 d 4294967295 ltac:(reflexivity)) as Hcrc.
    assert (Hd32 : len d < M32) by (pose proof (round32k_ge (len r)); unfold M32; assert (2 ^ 25 = 33554432) by reflexivity; lia).
    assert (Hr32 : len r < M32) by (pose proof (round32k_ge (len r)); unfold M32; assert (2 ^ 25 = 33554432) by reflexivity; lia).
    destruct (hdr_fields (len sp) (len d) (len r) (crc32 4294967295 d) (sp ++ concat (map enc_pblk bs) ++ rest)) as (F1 & F2 & F3 & F4 & F5 & F6); try assumption.
    change patchblk_PatchSize with 0; change patchblk_TargetSize with 4; change patchblk_SourceSize with 8; change patchblk_CRC with 12; change patchblk_SIZEOF with 16.
    rewrite F1, F2, F3, F4, F5.
    replace (len _ <? 16) with false by (symmetry; apply N.ltb_ge; exact F6).
    replace (bm <? len d) with false by (symmetry; apply N.ltb_ge; lia).
    replace (len d + ptotal bs <? len d) with false by (symmetry; apply N.ltb_ge; lia).
    replace (bm <? len r) with false by (symmetry; apply N.ltb_ge; lia). cbn [orb].
    assert (Hr25 : len r <= 33554432 /\ round32k (len r) + len d <= 33554432) by (pose proof (round32k_ge (len r)); assert (2 ^ 25 = 33554432) by reflexivity; lia).
    assert (Hws : ((len r + 32767) mod M32 / 32768 * 32768 + len d) mod M32 = round32k (len r) + len d).
    { rewrite (N.mod_small (len r + 32767)) by (unfold M32 in *; lia). fold (round32k (len r)). apply N.mod_small. unfold M32. assert (2 ^ 25 = 33554432) by reflexivity. lia. }
    rewrite Hws.
    destruct (window_bits_spec (round32k (len r) + len d)) as (_ & Hfit & _). specialize (Hfit Hw). rewrite N.shiftl_1_l.
    replace (2 ^ window_bits (round32k (len r) + len d) <? len r) with false by (symmetry; apply N.ltb_ge; pose proof (round32k_ge (len r)); lia).
    replace (len (r ++ concat (map pb_ref bs) ++ base_tail) <? len r) with false by (symmetry; apply N.ltb_ge; rewrite len_app; lia).
    rewrite !take_app. unfold pwbits in Hlzx. fold r d in Hlzx. rewrite Hlzx. change (MSPACK_ERR_OK =? 0) with true. cbn [negb].
    replace (len (sp ++ concat (map enc_pblk bs) ++ rest) <? len sp) with false by (symmetry; apply N.ltb_ge; rewrite len_app; lia).
    rewrite N.eqb_refl. cbn [negb]. rewrite !drop_app.
    replace (len d + ptotal bs - len d) with (ptotal bs) by lia. rewrite IH by (try assumption; cbn in Hf; lia). rewrite <- app_assoc. reflexivity.
Qed.

Lemma enc_pblk_len b : 16 <= len (enc_pblk b).
Proof. unfold enc_pblk. rewrite !len_app, !len_le32b. lia. Qed.
Lemma pencs_len bs : 16 * N.of_nat (length bs) <= len (concat (map enc_pblk bs)).
Proof. induction bs as [|b bs IH]; cbn [map concat length]; [cbn; lia|]. rewrite len_app. pose proof (enc_pblk_len b). lia. Qed.

(* decompress_incremental(): every well-formed patch applied to its base (the concatenated reference data, plus anything after it) gives the target *)
Theorem oab_patch_correct bs bm srcsize scrc tcrc trailing base_tail :
  bm < M32 -> srcsize < M32 -> scrc < M32 -> tcrc < M32 -> ptotal bs < M32 -> Forall (wf_pblk (N.max bm patchblk_SIZEOF)) bs ->
  oab_patch lzx (le32b 3 ++ le32b 2 ++ le32b bm ++ le32b srcsize ++ le32b (ptotal bs) ++ le32b scrc ++ le32b tcrc ++ concat (map enc_pblk bs) ++ trailing)
            (concat (map pb_ref bs) ++ base_tail)
  = (MSPACK_ERR_OK, concat (map pb_data bs)).
Proof.
  intros Hbm Hss Hsc Htc Htot Hwf. unfold oab_patch.
  set (body := concat (map enc_pblk bs) ++ trailing).
  destruct (hdr_fields 3 2 bm srcsize (le32b (ptotal bs) ++ le32b scrc ++ le32b tcrc ++ body)) as (F1 & F2 & F3 & _ & F5 & _); try assumption; try reflexivity.
  set (inp := le32b 3 ++ _) in *.
  assert (F4 : le32 inp 16 = ptotal bs).
  { unfold inp. change 16 with (len (le32b 3) + (len (le32b 2) + (len (le32b bm) + (len (le32b srcsize) + 0)))). rewrite !le32_app_r. apply le32_le32b. exact Htot. }
  assert (F7 : drop 28 inp = body).
  { unfold inp. change 28 with (len (le32b 3 ++ le32b 2 ++ le32b bm ++ le32b srcsize ++ le32b (ptotal bs) ++ le32b scrc ++ le32b tcrc)).
    replace (le32b 3 ++ le32b 2 ++ le32b bm ++ le32b srcsize ++ le32b (ptotal bs) ++ le32b scrc ++ le32b tcrc ++ body)
      with ((le32b 3 ++ le32b 2 ++ le32b bm ++ le32b srcsize ++ le32b (ptotal bs) ++ le32b scrc ++ le32b tcrc) ++ body) by (rewrite <- !app_assoc; reflexivity).
    apply drop_app. }
  assert (Hl : 28 + 16 * N.of_nat (length bs) <= len inp).
  { unfold inp, body. rewrite !len_app, !len_le32b. pose proof (pencs_len bs). lia. }
  change patchhead_VersionHi with 0; change patchhead_VersionLo with 4; change patchhead_BlockMax with 8; change patchhead_TargetSize with 16; change patchhead_SIZEOF with 28.
  rewrite F1, F2, F3, F4, F7. replace (len inp <? 28) with false by (symmetry; apply N.ltb_ge; lia).
  change ((3 =? 3) && (2 =? 2)) with true. cbn [negb]. unfold body.
  rewrite patch_blocks_correct; [reflexivity|exact Hwf|].
  change patchblk_SIZEOF with 16. assert (N.of_nat (length bs) + 1 <= len inp / 16) by (apply N.div_le_lower_bound; lia). lia.
Qed.
End Patch.
