From Coq Require Import List NArith Bool Lia.
Import ListNotations.
From MSP Require Import Model.Cache.
Local Open Scope N_scope.

Definition avail (f : folder) : N :=
  match limit f with None => N.of_nat (length (plain f)) | Some x => N.min x (N.of_nat (length (plain f))) end.

(* the invariant tying a cached decoder to the folder: it has delivered o <= avail bytes without error, or it failed having
   reached exactly [avail] *)
Definition coherent (f : folder) (s : st) : Prop :=
  match s with None => True | Some (o, false) => o <= avail f | Some (o, true) => o = avail f end.

Lemma deliver_ok f o n : o + n <= avail f -> deliver f o n = (slice (plain f) o n, o + n, false).
Proof. intro H. unfold deliver. fold (avail f). destruct (N.leb_spec (o + n) (avail f)); [reflexivity|lia]. Qed.
Lemma deliver_fail f o n : avail f < o + n -> deliver f o n = (slice (plain f) o (avail f - o), N.max o (avail f), true).
Proof. intro H. unfold deliver. fold (avail f). destruct (N.leb_spec (o + n) (avail f)); [lia|reflexivity]. Qed.

(* what a decoder started at offset o (no error yet, o <= off) answers, in closed form *)
Definition answer (f : folder) (off len : N) : bool * list N :=
  if len =? 0 then (true, [])
  else if off + len <=? avail f then (true, slice (plain f) off len)
  else if off <=? avail f then (false, slice (plain f) off (avail f - off)) else (false, []).

Lemma extract_from f o off len : o <= off -> o <= avail f ->
  fst (extract f (Some (o, false)) off len) = answer f off len /\ coherent f (snd (extract f (Some (o, false)) off len)).
Proof.
  intros Ho Ha. unfold extract, answer. destruct (N.ltb_spec off o) as [Hlt|_]; [lia|].
  destruct (N.eqb_spec len 0) as [E|NE]; [cbn; split; [reflexivity|exact Ha]|].
  destruct (N.leb_spec (off + len) (avail f)) as [H|H].
  - rewrite (deliver_ok f o (off - o)) by lia. replace (o + (off - o)) with off by lia.
    rewrite (deliver_ok f off len) by lia. cbn. split; [reflexivity|lia].
  - destruct (N.leb_spec off (avail f)) as [H2|H2].
    + rewrite (deliver_ok f o (off - o)) by lia. replace (o + (off - o)) with off by lia.
      rewrite (deliver_fail f off len) by lia. cbn. split; [reflexivity|lia].
    + rewrite (deliver_fail f o (off - o)) by lia. cbn. split; [reflexivity|lia].
Qed.

Lemma extract_none_eq f off len : extract f None off len = extract f (Some (0, false)) off len.
Proof. unfold extract. destruct (N.ltb_spec off 0); [lia|reflexivity]. Qed.

Lemma fresh_answer f off len : fresh f off len = answer f off len.
Proof. unfold fresh. rewrite extract_none_eq. apply extract_from; lia. Qed.

(* one call from any coherent state: same answer as a fresh decoder, and the new state is coherent again *)
Lemma extract_coherent f s off len : coherent f s ->
  fst (extract f s off len) = fresh f off len /\ coherent f (snd (extract f s off len)).
Proof.
  intro Hc. rewrite fresh_answer. destruct s as [[o failed]|].
  2:{ rewrite extract_none_eq. apply extract_from; lia. }
  destruct (N.ltb_spec off o) as [Hlt|Hge].
  - (* behind the cursor: re-initialise *)
    assert (E : extract f (Some (o, failed)) off len = extract f (Some (0, false)) off len).
    { unfold extract. destruct (N.ltb_spec off o); [|lia]. destruct (N.ltb_spec off 0); [lia|reflexivity]. }
    rewrite E. apply extract_from; lia.
  - destruct failed.
    + (* sticky error: o = avail *)
      cbn in Hc. unfold extract, answer. destruct (N.ltb_spec off o); [lia|].
      destruct (N.eqb_spec len 0) as [E0|NE]; [cbn; split; [reflexivity|exact Hc]|]. cbn [fst snd coherent].
      split; [|exact Hc].
      destruct (N.leb_spec (off + len) (avail f)); [lia|].
      destruct (N.leb_spec off (avail f)); [|reflexivity].
      replace (avail f - off) with 0 by lia. unfold slice. cbn. reflexivity.
    + cbn in Hc. apply extract_from; lia.
Qed.

(* C08, cabinet folders: after ANY history of extract calls on the folder (any order, repetition, failed calls included),
   a call returns exactly what a fresh decompressor returns *)
Theorem extract_history_independent : forall f hist off len,
  fst (extract f (after f None hist) off len) = fresh f off len.
Proof.
  intros f hist off len.
  assert (G : forall hist s, coherent f s -> coherent f (after f s hist)).
  { induction hist0 as [|[o l] rest IH]; intros s Hs; cbn [after]; [exact Hs|]. apply IH. apply (extract_coherent f s o l Hs). }
  apply extract_coherent. apply G. exact I.
Qed.

(* intact folders: every request inside the plaintext is served completely and exactly *)
Corollary intact_folder_exact : forall f hist off len,
  dmg f = None -> off + len <= N.of_nat (length (plain f)) -> 0 < len ->
  fst (extract f (after f None hist) off len) = (true, slice (plain f) off len).
Proof.
  intros f hist off len Hd Hin Hl. rewrite extract_history_independent, fresh_answer. unfold answer, avail, limit. rewrite Hd.
  destruct (N.eqb_spec len 0); [lia|]. destruct (N.leb_spec (off + len) (N.of_nat (length (plain f)))); [reflexivity|lia].
Qed.

Example cache_nonvacuous :
  let f := {| plain := [1;2;3;4;5;6;7;8;9;10]; dmg := Some 7; frame := 4 |} in
  fst (extract f (after f None [(0, 3); (6, 4); (2, 2)]) 1 3) = (true, [2;3;4]) /\
  fst (extract f (after f None [(0, 3); (6, 4)]) 5 1) = (false, []) /\ fresh f 5 1 = (false, []).
Proof. vm_compute. auto. Qed.
