From Coq Require Import List NArith ZArith Lia Bool.
Import ListNotations.
From MSP Require Import Base.Src.
Local Open Scope N_scope.

(* honest host: one input file served in chunks, one output that accepts everything *)
Record hst := { rem : list byte; out : list byte (* reversed *) }.
Section Honest.
Context {A : Type}.
Variables (bufsize : N) (rule : eofrule) (hint : N).
Hypothesis bufsize_pos : 0 < bufsize.

Definition hans (h : hst) (c : hcall) : hanswer c * hst :=
  match c return hanswer c * hst with
  | HRead n => (RBytes (firstn (N.to_nat n) (rem h)), {| rem := skipn (N.to_nat n) (rem h); out := out h |})
  | HWrite d => (Z.of_nat (length d), {| rem := rem h; out := rev d ++ out h |})
  | HHint => (hint, h)
  end.
Fixpoint exec {A} (h : hst) (p : prog A) : A * hst :=
  match p with Ret a => (a, h) | Do c k => let '(a, h') := hans h c in exec h' (k a) end.

Definition R (i : ist) (b : bst) (h : hst) : Prop :=
  irest i = bbuf b ++ rem h ++ (if bend b then [] else pad rule) /\ iout i = out h /\
  (bend b = true -> rem h = []) /\ (rule = EofStop -> bend b = false).

Lemma firstn_pos_cons (n : nat) (b : byte) l : (0 < n)%nat ->
  exists t, firstn n (b :: l) = b :: t /\ t ++ skipn n (b :: l) = l.
Proof. intro Hn. destruct n as [|n]; [lia|]. exists (firstn n l). cbn. split; [reflexivity|apply firstn_skipn]. Qed.

(* READ_IF_NEEDED: after it, either the buffer is non-empty and nothing else changed, or the
   function returns with the rule's status *)
Lemma sim_fill i b h (k : sres (byte * bst) -> prog (sres A * bst)) : R i b h -> bbuf b = [] ->
  match irest i with
  | x :: r => exists b' h', exec h (b_fill bufsize rule b k) = exec h' (k (SVal (x, b'))) /\
                            R {| irest := r; iout := iout i |} b' h'
  | [] => exists h', exec h (b_fill bufsize rule b k) = exec h' (k (SStop (eof_status rule))) /\ iout i = out h'
  end.
Proof.
  intros (Hr & Ho & He & Hs) Eb. rewrite Hr, Eb. cbn [app]. unfold b_fill. cbn [exec hans].
  destruct (rem h) as [|y r] eqn:Er.
  - rewrite firstn_nil, skipn_nil. cbn [app].
    destruct rule eqn:Erule.
    + rewrite (Hs eq_refl). cbn [pad]. eexists. split; [reflexivity|exact Ho].
    + destruct (bend b) eqn:Ebe.
      * eexists. split; [reflexivity|exact Ho].
      * cbn [pad]. eexists; eexists. split; [reflexivity|]. unfold R; cbn. repeat split; auto. rewrite Erule. discriminate.
  - destruct (firstn_pos_cons (N.to_nat bufsize) y r) as (t & Ht & Hsk); [lia|]. rewrite Ht.
    cbn [app]. eexists; eexists. split; [reflexivity|]. unfold R; cbn.
    rewrite <- Hsk at 1. rewrite <- app_assoc. repeat split; auto.
    intro Hb. specialize (He Hb). discriminate.
Qed.

Lemma sim_next i b h (k : sres (byte * bst) -> prog (sres A * bst)) : R i b h ->
  match ideal_next rule i with
  | SVal (x, i') => exists b' h', exec h (b_next bufsize rule b k) = exec h' (k (SVal (x, b'))) /\ R i' b' h'
  | SStop e => exists h', exec h (b_next bufsize rule b k) = exec h' (k (SStop e)) /\ iout i = out h'
  end.
Proof.
  intros HR. unfold ideal_next, b_next. destruct (bbuf b) as [|x l] eqn:Eb.
  - pose proof (sim_fill i b h k HR Eb) as F. destruct (irest i); exact F.
  - destruct HR as (Hr & Ho & He & Hs). rewrite Hr, Eb. cbn [app].
    eexists; eexists. split; [reflexivity|]. unfold R; cbn. repeat split; auto.
Qed.

(* the ideal source takes a whole chunk at once *)
Lemma ideal_take_chunk : forall c n i acc r,
  irest i = c ++ r -> (length c <= n)%nat ->
  ideal_take rule n i acc = ideal_take rule (n - length c) {| irest := r; iout := iout i |} (rev c ++ acc).
Proof.
  induction c as [|x c IH]; intros n i acc r Hi Hn.
  - cbn in *. rewrite Nat.sub_0_r. destruct i; cbn in *; subst; reflexivity.
  - destruct n as [|n]; [cbn in Hn; lia|]. cbn [ideal_take length]. unfold ideal_next. rewrite Hi. cbn [app].
    rewrite (IH n {| irest := c ++ r; iout := iout i |} (x :: acc) r eq_refl); [|cbn in Hn; lia].
    cbn [Nat.sub rev iout]. rewrite <- app_assoc. reflexivity.
Qed.

Lemma sim_copyin : forall fuel todo i b h acc (k : sres (list byte * bst) -> prog (sres A * bst)),
  R i b h -> (2 * todo < fuel + (if bbuf b then 0 else 1))%nat ->
  match ideal_take rule todo i acc with
  | SVal (l, i') => exists b' h', exec h (b_copyin bufsize rule fuel todo b acc k) = exec h' (k (SVal (l, b'))) /\ R i' b' h'
  | SStop e => exists h', exec h (b_copyin bufsize rule fuel todo b acc k) = exec h' (k (SStop e)) /\ iout i = out h'
  end.
Proof.
  induction fuel as [|fuel IH]; intros todo i b h acc k HR Hf.
  - destruct todo; [|destruct (bbuf b); cbn in Hf; lia].
    cbn. eexists; eexists. split; [reflexivity|]. destruct i; exact HR.
  - destruct todo as [|todo'].
    { cbn. eexists; eexists. split; [reflexivity|]. destruct i; exact HR. }
    cbn [b_copyin]. destruct (bbuf b) as [|x l] eqn:Eb.
    + (* refill, then the buffer is non-empty: one more round with the same todo *)
      match goal with |- context [b_fill _ _ _ ?K] => pose proof (sim_fill i b h K HR Eb) as F end.
      destruct (irest i) as [|y r] eqn:Ei.
      * destruct F as (h' & E & Ho). rewrite E. cbn [ideal_take]. unfold ideal_next. rewrite Ei. eauto.
      * destruct F as (b' & h' & E & R'). rewrite E.
        assert (R2 : R i {| bbuf := y :: bbuf b'; bend := bend b' |} h').
        { destruct R' as (Hr & Ho & He & Hs). unfold R; cbn in *. rewrite Ei, Hr. repeat split; auto. }
        apply (IH (S todo') i _ h' acc k R2). cbn. cbn in Hf. lia.
    + (* take min(avail, todo) bytes *)
      set (m := Nat.min (length (x :: l)) (S todo')).
      assert (Ef : firstn (S todo') (x :: l) = firstn m (x :: l)).
      { unfold m. destruct (Nat.le_ge_cases (length (x :: l)) (S todo')) as [Hle|Hge].
        - rewrite Nat.min_l by exact Hle. rewrite !firstn_all2; [reflexivity|lia|exact Hle].
        - rewrite Nat.min_r by exact Hge. reflexivity. }
      assert (Es : skipn (S todo') (x :: l) = skipn m (x :: l)).
      { unfold m. destruct (Nat.le_ge_cases (length (x :: l)) (S todo')) as [Hle|Hge].
        - rewrite Nat.min_l by exact Hle. rewrite !skipn_all2; [reflexivity|lia|exact Hle].
        - rewrite Nat.min_r by exact Hge. reflexivity. }
      rewrite Ef, Es, rev_append_rev. replace (length (firstn m (x :: l))) with m by (rewrite firstn_length; unfold m; lia).
      assert (Hm : (1 <= m <= S todo')%nat) by (unfold m; cbn [length]; lia).
      destruct HR as (Hr & Ho & He & Hs). rewrite Eb in Hr.
      rewrite (ideal_take_chunk (firstn m (x :: l)) (S todo') i acc
                 (skipn m (x :: l) ++ rem h ++ (if bend b then [] else pad rule))).
      2:{ rewrite Hr. rewrite <- (firstn_skipn m (x :: l)) at 1. rewrite <- app_assoc. reflexivity. }
      2:{ rewrite firstn_length. lia. }
      rewrite firstn_length. replace (Nat.min m (length (x :: l))) with m by (unfold m; lia).
      apply (IH (S todo' - m)%nat
               {| irest := skipn m (x :: l) ++ rem h ++ (if bend b then [] else pad rule); iout := iout i |}
               {| bbuf := skipn m (x :: l); bend := bend b |} h).
      * unfold R; cbn. repeat split; auto.
      * cbn [bbuf]. destruct (skipn m (x :: l)); cbn in Hf; lia.
Qed.

(* ===== the generic theorem: any decoder written over the source agrees under both interpretations ===== *)
(* same status and output; and when the program ran to its end the two runs are again related, so calls can be chained *)
Theorem buffered_refines_ideal_rel : forall (p : sprog A) i b h, R i b h ->
  let '(r1, i') := ideal rule hint p i in
  let '((r2, b'), h') := exec h (buffered bufsize rule p b) in
  r1 = r2 /\ iout i' = out h' /\ (forall a, r1 = SVal a -> R i' b' h').
Proof.
  induction p as [a|c k IH]; intros i b h HR.
  - cbn. split; [reflexivity|]. split; [apply HR|]. intros _ _. exact HR.
  - destruct c as [| |n|d|]; cbn [ideal buffered].
    + match goal with |- context [b_next _ _ _ ?K] => pose proof (sim_next i b h K HR) as S end.
      destruct (ideal_next rule i) as [[x i']|e].
      * destruct S as (b' & h' & E & R'). rewrite E. apply IH. exact R'.
      * destruct S as (h' & E & Ho). rewrite E. cbn [exec]. split; [reflexivity|split; [exact Ho|discriminate]].
    + (* SAvail *)
      destruct (bbuf b) as [|x l] eqn:Eb.
      * match goal with |- context [b_fill _ _ _ ?K] => pose proof (sim_fill i b h K HR Eb) as F end.
        destruct (irest i) as [|y r] eqn:Ei.
        -- destruct F as (h' & E & Ho). rewrite E. cbn [exec]. split; [reflexivity|split; [exact Ho|discriminate]].
        -- destruct F as (b' & h' & E & R'). rewrite E. apply IH.
           destruct R' as (Hr & Ho & He & Hs). unfold R; cbn in *. rewrite Ei, Hr. repeat split; auto.
      * assert (Ei : exists y r, irest i = y :: r) by (destruct HR as (Hr & _); rewrite Hr, Eb; cbn [app]; eauto).
        destruct Ei as (y & r & Ei). rewrite Ei. apply IH. exact HR.
    + match goal with |- context [b_copyin _ _ _ _ _ _ ?K] => pose proof (sim_copyin (S (2 * n)) n i b h [] K HR) as S end.
      destruct (ideal_take rule n i []) as [[l i']|e].
      * destruct S as (b' & h' & E & R'); [destruct (bbuf b); lia|]. rewrite E. apply IH. exact R'.
      * destruct S as (h' & E & Ho); [destruct (bbuf b); lia|]. rewrite E. cbn [exec]. split; [reflexivity|split; [exact Ho|discriminate]].
    + cbn [exec hans]. rewrite Z.eqb_refl. apply IH.
      destruct HR as (Hr & Ho & He & Hs). unfold R; cbn. rewrite Ho, ?rev_append_rev. repeat split; auto.
    + cbn [exec hans]. apply IH. exact HR.
Qed.

Theorem buffered_refines_ideal : forall (p : sprog A) i b h, R i b h ->
  let '(r1, i') := ideal rule hint p i in
  let '((r2, _), h') := exec h (buffered bufsize rule p b) in
  r1 = r2 /\ iout i' = out h'.
Proof.
  intros p i b h HR. pose proof (buffered_refines_ideal_rel p i b h HR) as H.
  destruct (ideal rule hint p i) as [r1 i']. destruct (exec h (buffered bufsize rule p b)) as [[r2 b'] h'].
  destruct H as (A1 & A2 & _). split; assumption.
Qed.
End Honest.
