(* The sample CHM of Props/ChmSample.v satisfies the hypotheses of the fast_find theorems (non-vacuity), by computation. *)
From Coq Require Import List NArith ZArith Lia Bool Sorting.Sorted.
Import ListNotations.
From MSP Require Import Gen.Consts Gen.Tables Model.Chm Proofs.ChmEnc Proofs.ChmCmp Proofs.ChmFind Proofs.ChmDir.
From MSP Require Export Props.ChmSample.
Local Open Scope N_scope.

Definition sample_name : list N := [47; 98; 46; 116; 120; 116].      (* "/b.txt"; the directory has "/B.TXT" *)
Definition pm0 : pmgl := nth 0 sample_pmgls (mkPmgl 0 0 0 0 [] []).
Definition pm1 : pmgl := nth 1 sample_pmgls (mkPmgl 0 0 0 0 [] []).
Definition sample_kids : list kid :=
  [mkKid (fst (nth 0 sample_root_keys ([], 0))) 0 (p_es pm0); mkKid (fst (nth 1 sample_root_keys ([], 0))) 1 (p_es pm1)].
Definition lay (i : nat) := nth i sample_layout ([], [], []).

Ltac small_M M H1 H2 :=
  match type of H2 with _ < ?q => let v := eval vm_compute in q in change q with v in H2 end;
  destruct (N.eq_dec M 1) as [->|]; [first [exfalso; lia|vm_compute; reflexivity]|];
  destruct (N.eq_dec M 2) as [->|]; [first [exfalso; lia|vm_compute; reflexivity]|];
  destruct (N.eq_dec M 3) as [->|]; [first [exfalso; lia|vm_compute; reflexivity]|];
  destruct (N.eq_dec M 4) as [->|]; [first [exfalso; lia|vm_compute; reflexivity]|];
  exfalso; lia.

Lemma sample_tree : exists h ents, read_hdr sample_chm = (MSPACK_ERR_OK, Some h) /\
  tree_at lowerA sample_name sample_chm h 1 (h_index_root h) ents /\
  fast_find lowerA sample_chm h sample_name = (MSPACK_ERR_OK, Some (0, 5, 6)).
Proof.
  eexists. exists (concat (map k_ents sample_kids)). split; [vm_compute; reflexivity|]. split; [|vm_compute; reflexivity].
  cbn [tree_at]. exists sample_kids. split; [|split; [reflexivity|split]].
  - (* the index chunk *)
    eexists. exists (fst (fst (lay 2))), (snd (fst (lay 2))), (snd (lay 2)). split; [vm_compute; reflexivity|]. split; [|split; [vm_compute; reflexivity|repeat constructor]].
    constructor; try (timeout 20 (vm_compute; reflexivity)); try (timeout 20 (vm_compute; discriminate)).
    + cbn. lia.
    + intros _ M H1 H2. small_M M H1 H2.
    + repeat constructor; try (vm_compute; reflexivity); intro rest; apply skip_encint_enc.
  - apply keys_ok_sorted; [vm_compute; reflexivity|]. split; [|split].
    + repeat constructor; vm_compute; reflexivity.
    + repeat constructor; try (vm_compute; reflexivity); vm_compute; discriminate.
    + intros A k k' B E. destruct A as [|a A]; [|destruct A as [|a' A]; [discriminate|destruct A; discriminate]].
      inversion E; subst. repeat constructor; vm_compute; reflexivity.
  - constructor; [|constructor; [|constructor]]; cbn [tree_at k_num k_ents].
    + eexists. eexists. exists (fst (fst (lay 0))), (snd (fst (lay 0))), (snd (lay 0)). split; [vm_compute; reflexivity|]. split; [|split; [|split; [|split; [vm_compute; reflexivity|reflexivity]]]].
      * constructor; try (timeout 20 (vm_compute; reflexivity)); try (timeout 20 (vm_compute; discriminate)); try (cbn; lia);
          try (intros _ M H1 H2; small_M M H1 H2); repeat constructor; apply wf_ae_of; vm_compute; repeat split; reflexivity.
      * repeat constructor; vm_compute; reflexivity.
      * apply sorted_canon; [vm_compute; reflexivity|]. split; repeat constructor; vm_compute; reflexivity.
    + eexists. eexists. exists (fst (fst (lay 1))), (snd (fst (lay 1))), (snd (lay 1)). split; [vm_compute; reflexivity|]. split; [|split; [|split; [|split; [vm_compute; reflexivity|reflexivity]]]].
      * constructor; try (timeout 20 (vm_compute; reflexivity)); try (timeout 20 (vm_compute; discriminate)); try (cbn; lia);
          try (intros _ M H1 H2; small_M M H1 H2); repeat constructor; apply wf_ae_of; vm_compute; repeat split; reflexivity.
      * repeat constructor; vm_compute; reflexivity.
      * apply sorted_canon; [vm_compute; reflexivity|]. split; repeat constructor; vm_compute; reflexivity.
Qed.
