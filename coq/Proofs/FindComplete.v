(* Completeness of the search loop (Model/Find.v cab_find, the model of cabd_find + cabd_search): every position of the file that carries the
   signature, has its 20 header bytes inside the file, passes the plausibility filter and parses as a cabinet is reported - unless it
   lies inside the extent of a cabinet reported before it.  For every file, every parse oracle, both salvage settings. *)
From Coq Require Import List Arith NArith Bool Lia.
Import ListNotations.
From MSP Require Import Model.Progress Proofs.ProgressP Model.Find Proofs.FindP.
Local Open Scope N_scope.

(* ---------- the signature in a byte list ---------- *)
Definition sig_here (l : list N) : bool :=
  match l with a :: b :: c :: d :: _ => (a =? 77) && (b =? 83) && (c =? 67) && (d =? 70) | _ => false end.
Fixpoint nosig (l : list N) : bool := match l with [] => true | _ :: r => negb (sig_here l) && nosig r end.
Definition MSC : list N := [77; 83; 67].
Definition hdr (l : list N) : option (N * N) :=
  match l with
  | _ :: _ :: _ :: _ :: _ :: _ :: _ :: _ :: c0 :: c1 :: c2 :: c3 :: _ :: _ :: _ :: _ :: f0 :: f1 :: f2 :: f3 :: _ => Some (le32 c0 c1 c2 c3, le32 f0 f1 f2 f3)
  | _ => None
  end.

Lemma sig_here_shape l : sig_here l = true -> exists t, l = MSCF ++ t.
Proof.
  destruct l as [|a [|b [|c [|d t]]]]; cbn [sig_here]; try discriminate. intro H.
  apply andb_true_iff in H. destruct H as [H H4]. apply andb_true_iff in H. destruct H as [H H3]. apply andb_true_iff in H. destruct H as [H1 H2].
  apply N.eqb_eq in H1, H2, H3, H4. subst. exists t. reflexivity.
Qed.
Lemma sig_here_prefix l1 l2 : (4 <= length l1)%nat -> sig_here (l1 ++ l2) = sig_here l1.
Proof. destruct l1 as [|a [|b [|c [|d t]]]]; cbn [length]; try lia. intros _. reflexivity. Qed.
Lemma nosig_app_r l1 l2 : nosig (l1 ++ l2) = true -> nosig l2 = true.
Proof. induction l1 as [|a l1 IH]; cbn [app nosig]; [auto|]. intro H. apply andb_true_iff in H. apply IH, H. Qed.
Lemma nosig_skipn l : nosig l = true -> forall k, sig_here (skipn k l) = false.
Proof.
  induction l as [|a l IH]; intros H k; [destruct k; reflexivity|]. cbn [nosig] in H. apply andb_true_iff in H. destruct H as [H1 H2].
  destruct k; cbn [skipn]; [apply negb_true_iff, H1|apply IH, H2].
Qed.
(* every list either has no signature or splits at the first one *)
Lemma split_first : forall l, nosig l = true \/ exists j t, l = j ++ MSCF ++ t /\ nosig (j ++ MSC) = true.
Proof.
  induction l as [|b r IH]; [left; reflexivity|].
  destruct (sig_here (b :: r)) eqn:S.
  - right. destruct (sig_here_shape _ S) as [t E]. exists [], t. split; [exact E|reflexivity].
  - destruct IH as [N|(j & t & E & N)].
    + left. cbn [nosig]. rewrite S. exact N.
    + right. exists (b :: j), t. split; [cbn [app]; rewrite E; reflexivity|].
      cbn [app nosig]. rewrite N, andb_true_r. apply negb_true_iff.
      assert (P : sig_here (b :: r) = sig_here (b :: j ++ MSC)).
      { rewrite E. replace (b :: j ++ MSCF ++ t) with ((b :: j ++ MSC) ++ [70] ++ t) by (cbn [app]; rewrite <- app_assoc; reflexivity).
        rewrite sig_here_prefix; [reflexivity|]. cbn [length]. rewrite app_length. cbn [MSC length]. lia. }
      rewrite <- P. exact S.
Qed.

(* ---------- the scan, position-free ---------- *)
Fixpoint scanr (l : list N) (a : astate) : (nat * N * N) + astate :=
  match l with
  | [] => inr a
  | b :: r => let a' := step a b in
              if ast a' =? 20 then inl (O, acablen a', afoffset a')
              else match scanr r a' with inl (k, c, f) => inl (S k, c, f) | inr x => inr x end
  end.
Lemma first_cand_scanr : forall l pos a,
  first_cand l pos a = match scanr l a with inl (k, c, f) => inl (pos + N.of_nat k + 1 - 20, c, f) | inr x => inr x end.
Proof.
  induction l as [|b r IH]; intros pos a; cbn [first_cand scanr]; [reflexivity|].
  destruct (ast (step a b) =? 20).
  - replace (pos + N.of_nat 0 + 1 - 20) with (pos + 1 - 20) by lia. reflexivity.
  - rewrite IH. destruct (scanr r (step a b)) as [[[k c] f]|x]; [|reflexivity].
    replace (pos + 1 + N.of_nat k + 1 - 20) with (pos + N.of_nat (S k) + 1 - 20) by lia. reflexivity.
Qed.

Definition pend (s : N) : list N := firstn (N.to_nat s) MSCF.
(* bytes without a signature leave the automaton searching *)
Lemma scan_junk x : forall j a tl, ast a <= 3 -> nosig (pend (ast a) ++ j ++ x) = true ->
  exists a', ast a' <= 3 /\ nosig (pend (ast a') ++ x) = true /\
             scanr (j ++ tl) a = match scanr tl a' with inl (k, c, f) => inl ((length j + k)%nat, c, f) | inr y => inr y end.
Proof.
  induction j as [|b j IH]; intros a tl Ha H.
  - exists a. split; [exact Ha|]. split; [exact H|]. cbn [app length]. destruct (scanr tl a) as [[[k c] f]|y]; reflexivity.
  - assert (NEXT : ast (step a b) <= 3 /\ nosig (pend (ast (step a b)) ++ j ++ x) = true).
    { assert (Hs : ast a = 0 \/ ast a = 1 \/ ast a = 2 \/ ast a = 3) by lia.
      destruct a as [s cl fo]. cbn [ast] in *.
      assert (SUF : nosig (j ++ x) = true) by (apply (nosig_app_r (pend s ++ [b])); rewrite <- app_assoc; exact H).
      assert (SUFM : b = 77 -> nosig (77 :: j ++ x) = true) by (intros ->; apply (nosig_app_r (pend s)); exact H).
      unfold step. cbn [ast acablen afoffset].
      destruct Hs as [E|[E|[E|E]]]; subst s; cbn [N.eqb Pos.eqb]; unfold start.
      - destruct (N.eqb_spec b 77) as [Eb|Eb]; cbn [ast]; (split; [lia|]); [apply SUFM, Eb|exact SUF].
      - destruct (N.eqb_spec b 83) as [Eb|Eb]; cbn [ast]; [split; [lia|]; subst b; exact H|].
        destruct (N.eqb_spec b 77) as [Eb'|Eb']; cbn [ast]; (split; [lia|]); [apply SUFM, Eb'|exact SUF].
      - destruct (N.eqb_spec b 67) as [Eb|Eb]; cbn [ast]; [split; [lia|]; subst b; exact H|].
        destruct (N.eqb_spec b 77) as [Eb'|Eb']; cbn [ast]; (split; [lia|]); [apply SUFM, Eb'|exact SUF].
      - destruct (N.eqb_spec b 70) as [Eb|Eb]; cbn [ast]; [subst b; exfalso; vm_compute in H; discriminate|].
        destruct (N.eqb_spec b 77) as [Eb'|Eb']; cbn [ast]; (split; [lia|]); [apply SUFM, Eb'|exact SUF]. }
    destruct NEXT as [N1 N2]. destruct (IH (step a b) tl N1 N2) as (a' & A1 & A2 & A3).
    exists a'. split; [exact A1|]. split; [exact A2|].
    cbn [app scanr length]. destruct (N.eqb_spec (ast (step a b)) 20) as [E20|_]; [lia|].
    rewrite A3. destruct (scanr tl a') as [[[k c] f]|y]; reflexivity.
Qed.

(* a signature with its 16 further header bytes is a candidate, whatever searching state the automaton is in *)
Lemma scan_candidate : forall a x4 x5 x6 x7 c0 c1 c2 c3 y12 y13 y14 y15 f0 f1 f2 f3 tl, ast a <= 3 ->
  scanr (MSCF ++ [x4; x5; x6; x7; c0; c1; c2; c3; y12; y13; y14; y15; f0; f1; f2; f3] ++ tl) a = inl (19%nat, le32 c0 c1 c2 c3, le32 f0 f1 f2 f3).
Proof.
  intros a x4 x5 x6 x7 c0 c1 c2 c3 y12 y13 y14 y15 f0 f1 f2 f3 tl Ha.
  assert (H : ast a = 0 \/ ast a = 1 \/ ast a = 2 \/ ast a = 3) by lia.
  destruct a as [s cl fo]. cbn [ast] in *. unfold le32, MSCF.
  destruct H as [E|[E|[E|E]]]; subst s; cbv [scanr app step ast acablen afoffset start N.eqb Pos.eqb N.add Pos.add Pos.succ]; reflexivity.
Qed.
(* ... and one with fewer than 16 bytes behind it is not *)
Lemma scan_short : forall t a, ast a <= 3 -> (length t < 16)%nat -> exists a', scanr (MSCF ++ t) a = inr a'.
Proof.
  intros t a Ha Ht.
  assert (H : ast a = 0 \/ ast a = 1 \/ ast a = 2 \/ ast a = 3) by lia.
  destruct a as [s cl fo]. cbn [ast] in *. unfold MSCF.
  do 16 (destruct t as [|? t]; [destruct H as [E|[E|[E|E]]]; subst s;
          cbv [scanr app step ast acablen afoffset start N.eqb Pos.eqb N.add Pos.add Pos.succ]; eexists; reflexivity|]).
  cbn [length] in Ht. lia.
Qed.

Lemma hdr_some l cl fo : sig_here l = true -> hdr l = Some (cl, fo) ->
  exists x4 x5 x6 x7 c0 c1 c2 c3 y12 y13 y14 y15 f0 f1 f2 f3 tl,
    l = MSCF ++ [x4; x5; x6; x7; c0; c1; c2; c3; y12; y13; y14; y15; f0; f1; f2; f3] ++ tl /\ cl = le32 c0 c1 c2 c3 /\ fo = le32 f0 f1 f2 f3.
Proof.
  intros S H. destruct (sig_here_shape _ S) as [t ->]. unfold MSCF in *. cbn [app] in *.
  do 16 (destruct t as [|? t]; [discriminate H|]). cbn [hdr] in H. inversion H; subst.
  do 17 eexists. split; [reflexivity|split; reflexivity].
Qed.
Lemma hdr_none_short t : hdr (MSCF ++ t) = None -> (length t < 16)%nat.
Proof.
  unfold MSCF. cbn [app]. intro H.
  do 16 (destruct t as [|? t]; [cbn [length]; lia|]). discriminate H.
Qed.
Lemma hdr_short l : (length l < 20)%nat -> hdr l = None.
Proof. intro H. do 20 (destruct l as [|? l]; [reflexivity|]). cbn [length] in H. lia. Qed.

(* what the scan from the searching state returns, in terms of the list alone *)
Lemma scan_spec l :
  match scanr l a0 with
  | inl (k, cl, fo) => exists j tl, l = j ++ tl /\ k = (length j + 19)%nat /\ sig_here tl = true /\ hdr tl = Some (cl, fo) /\ nosig (j ++ MSC) = true
  | inr _ => forall j tl, l = j ++ tl -> sig_here tl = true -> hdr tl = None
  end.
Proof.
  destruct (split_first l) as [N|(j0 & t & E & N)].
  - destruct (scan_junk [] l a0 [] ltac:(cbn; lia)) as (a' & A1 & A2 & A3); [cbn [a0 ast pend N.to_nat firstn app]; rewrite app_nil_r; exact N|].
    rewrite app_nil_r in A3. rewrite A3. cbn [scanr]. intros j tl El S. exfalso.
    assert (F : sig_here (skipn (length j) l) = false) by (apply nosig_skipn, N).
    rewrite El, skipn_app, skipn_all, Nat.sub_diag in F. cbn [skipn app] in F. congruence.
  - destruct (scan_junk MSC j0 a0 (MSCF ++ t) ltac:(cbn; lia)) as (a' & A1 & A2 & A3); [cbn [a0 ast pend N.to_nat firstn app]; exact N|].
    rewrite <- E in A3. rewrite A3.
    (* no signature starts before j0 *)
    assert (EARLY : forall k, (k < length j0)%nat -> sig_here (skipn k l) = false).
    { intros k Hk. rewrite E. change (MSCF ++ t) with (MSC ++ [70] ++ t). rewrite app_assoc, skipn_app.
      replace (k - length (j0 ++ MSC))%nat with O by (rewrite app_length; lia). cbn [skipn].
      rewrite sig_here_prefix.
      - apply nosig_skipn, N.
      - rewrite skipn_length, app_length. cbn [MSC length]. lia. }
    destruct (hdr (MSCF ++ t)) as [[cl fo]|] eqn:Hh.
    + assert (SS : sig_here (MSCF ++ t) = true) by reflexivity.
      destruct (hdr_some _ _ _ SS Hh) as (x4 & x5 & x6 & x7 & c0 & c1 & c2 & c3 & y12 & y13 & y14 & y15 & f0 & f1 & f2 & f3 & tl & El & -> & ->).
      rewrite El, (scan_candidate a' _ _ _ _ _ _ _ _ _ _ _ _ _ _ _ _ tl A1).
      exists j0, (MSCF ++ t). split; [exact E|]. split; [reflexivity|]. split; [reflexivity|]. split; [exact Hh|exact N].
    + destruct (scan_short t a' A1 (hdr_none_short _ Hh)) as [a'' Es]. rewrite Es.
      intros j tl El S.
      assert (GE : (length j0 <= length j)%nat).
      { destruct (Nat.le_gt_cases (length j0) (length j)) as [G|G]; [exact G|]. exfalso.
        specialize (EARLY _ G). rewrite El, skipn_app, skipn_all, Nat.sub_diag in EARLY. cbn [skipn app] in EARLY. congruence. }
      apply hdr_short.
      assert (LEN : length l = (length j + length tl)%nat) by (rewrite El, app_length; reflexivity).
      rewrite E, !app_length in LEN. pose proof (hdr_none_short _ Hh) as Ht. cbn [MSCF length] in LEN. lia.
Qed.

(* ---------- positions in the file ---------- *)
Section Complete.
Variables (bytes : list N) (parse : N -> bool) (salvage : bool).
Definition suf (q : N) : list N := skipn (N.to_nat q) bytes.
Definition sig_at (q : N) : Prop := sig_here (suf q) = true.
Definition accepted (q : N) : bool :=
  match hdr (suf q) with Some (cl, fo) => plausible bytes salvage q cl fo && parse q | None => false end.
Definition cablen_at (q : N) : N := match hdr (suf q) with Some (cl, _) => cl | None => 0 end.

Lemma skipn_add (l : list N) : forall n m, skipn (n + m) l = skipn m (skipn n l).
Proof. revert l. induction l as [|a l IH]; intros n m; [destruct n, m; reflexivity|]. destruct n; [reflexivity|]. cbn [Nat.add skipn]. apply IH. Qed.
Lemma suf_split off j tl : suf off = j ++ tl -> suf (off + N.of_nat (length j)) = tl.
Proof.
  unfold suf. intro E. replace (N.to_nat (off + N.of_nat (length j))) with (N.to_nat off + length j)%nat by lia.
  rewrite skipn_add, E, skipn_app, skipn_all, Nat.sub_diag. reflexivity.
Qed.
(* two signatures do not overlap *)
Lemma sig_apart q0 q : sig_at q0 -> sig_at q -> q0 < q -> q0 + 4 <= q.
Proof.
  unfold sig_at. intros S0 S L. destruct (sig_here_shape _ S0) as [t E].
  assert (D : q = q0 + 1 \/ q = q0 + 2 \/ q = q0 + 3 \/ q0 + 4 <= q) by lia.
  destruct D as [D|[D|[D|D]]]; [| | |exact D]; exfalso; subst q; unfold suf in S;
    [replace (N.to_nat (q0 + 1)) with (N.to_nat q0 + 1)%nat in S by lia
    |replace (N.to_nat (q0 + 2)) with (N.to_nat q0 + 2)%nat in S by lia
    |replace (N.to_nat (q0 + 3)) with (N.to_nat q0 + 3)%nat in S by lia];
    rewrite skipn_add in S; fold (suf q0) in S; rewrite E in S; unfold MSCF in S; cbn [app skipn] in S;
    destruct (sig_here_shape _ S) as [t' E']; unfold MSCF in E'; cbn [app] in E'; inversion E'.
Qed.
Lemma sig_inside q : sig_at q -> q + 4 <= flen bytes.
Proof.
  unfold sig_at, suf, flen. intro S. destruct (sig_here_shape _ S) as [t E].
  assert (L : length (skipn (N.to_nat q) bytes) = length (MSCF ++ t)) by (rewrite E; reflexivity).
  rewrite skipn_length, app_length in L. cbn [MSCF length] in L. lia.
Qed.

Lemma acc_kept : forall fuel off acc res, cab_find bytes parse salvage fuel off acc = Some res -> forall p, In p acc -> In p res.
Proof.
  induction fuel as [|f IH]; intros off acc res E p Hp; cbn [cab_find] in E; [discriminate|].
  assert (R : forall l, In p l -> In p (rev' l)) by (intros l Hl; unfold rev'; rewrite <- rev_alt; apply in_rev in Hl || (apply -> in_rev; exact Hl); exact Hl).
  destruct (first_cand _ off a0) as [[[caboff cablen] foffset]|a']; [|inversion E; subst; apply R, Hp].
  set (ok := plausible bytes salvage caboff cablen foffset && parse caboff) in *.
  assert (Hp' : In p (if ok then caboff :: acc else acc)) by (destruct ok; [right|]; exact Hp).
  destruct (flen bytes <=? _); [inversion E; subst; apply R, Hp'|apply (IH _ _ _ E _ Hp')].
Qed.

Theorem find_complete_from : forall fuel off acc res, cab_find bytes parse salvage fuel off acc = Some res ->
  forall q, off <= q -> sig_at q -> accepted q = true -> (forall p, In p res -> p < q -> p + cablen_at p <= q) -> In q res.
Proof.
  induction fuel as [|f IH]; intros off acc res E q Hq S A SH; cbn [cab_find] in E; [discriminate|].
  assert (HDRQ : exists cl fo, hdr (suf q) = Some (cl, fo)).
  { unfold accepted in A. destruct (hdr (suf q)) as [[cl fo]|]; [eauto|discriminate]. }
  destruct HDRQ as (clq & foq & HDRQ).
  rewrite first_cand_scanr in E. fold (suf off) in E. pose proof (scan_spec (suf off)) as SP.
  assert (SUFQ : suf off = firstn (N.to_nat (q - off)) (suf off) ++ suf q).
  { unfold suf. replace (N.to_nat q) with (N.to_nat off + N.to_nat (q - off))%nat by lia. rewrite skipn_add. symmetry. apply firstn_skipn. }
  destruct (scanr (suf off) a0) as [[[k cl] fo]|a'].
  2:{ exfalso. rewrite (SP _ _ SUFQ S) in HDRQ. discriminate. }
  destruct SP as (j & tl & El & -> & S0 & H0 & NJ).
  set (q0 := off + N.of_nat (length j)) in *.
  replace (off + N.of_nat (length j + 19) + 1 - 20) with q0 in E by (unfold q0; lia).
  assert (TL : suf q0 = tl) by (apply suf_split, El).
  assert (S0' : sig_at q0) by (unfold sig_at; rewrite TL; exact S0).
  (* no signature between off and q0 *)
  assert (GE : q0 <= q).
  { destruct (N.le_gt_cases q0 q) as [G|G]; [exact G|]. exfalso.
    assert (F : sig_here (skipn (N.to_nat (q - off)) (j ++ MSC)) = false) by (apply nosig_skipn, NJ).
    unfold sig_at in S. rewrite <- (suf_split off (firstn (N.to_nat (q - off)) (suf off)) (suf q) SUFQ) in S at 1.
    assert (LF : length (firstn (N.to_nat (q - off)) (suf off)) = N.to_nat (q - off)).
    { apply firstn_length_le. rewrite El, app_length. unfold q0 in G. lia. }
    rewrite LF in S. replace (off + N.of_nat (N.to_nat (q - off))) with q in S by lia.
    (* suf q = skipn (q - off) (j ++ tl), and tl begins with the signature *)
    unfold suf in S. replace (N.to_nat q) with (N.to_nat off + N.to_nat (q - off))%nat in S by lia. rewrite skipn_add in S. fold (suf off) in S.
    rewrite El in S. destruct (sig_here_shape _ S0) as [t Et]. rewrite Et in S.
    change (MSCF ++ t) with (MSC ++ [70] ++ t) in S. rewrite app_assoc, skipn_app in S.
    replace (N.to_nat (q - off) - length (j ++ MSC))%nat with O in S by (rewrite app_length; unfold q0 in G; lia). cbn [skipn] in S.
    rewrite sig_here_prefix in S; [congruence|]. rewrite skipn_length, app_length. cbn [MSC length]. unfold q0 in G. lia. }
  set (pl := plausible bytes salvage q0 cl fo) in *.
  assert (HC : cablen_at q0 = cl) by (unfold cablen_at; rewrite TL, H0; reflexivity).
  destruct (N.eq_dec q q0) as [EQ|NE].
  - (* this candidate is q itself *)
    subst q. unfold accepted in A. rewrite TL, H0 in A. fold pl in A. rewrite A in E.
    assert (IN : In q0 (q0 :: acc)) by (left; reflexivity).
    destruct (flen bytes <=? _); [inversion E; subst; unfold rev'; rewrite <- rev_alt; apply -> in_rev; exact IN|apply (acc_kept _ _ _ _ E _ IN)].
  - assert (LT : q0 < q) by lia.
    pose proof (sig_apart _ _ S0' S LT) as AP. pose proof (sig_inside _ S) as INS.
    unfold resume_offset in E.
    destruct (pl && parse q0) eqn:OK.
    + (* an accepted cabinet: q is not inside it *)
      assert (FO : (fo <? cl) = true).
      { apply andb_true_iff in OK. destruct OK as [P _]. unfold pl, plausible in P. apply andb_true_iff in P. destruct P as [P _]. apply andb_true_iff in P. apply P. }
      rewrite FO in E. cbn [andb] in E.
      destruct (flen bytes <=? q0 + cl) eqn:EF.
      * inversion E; subst res. exfalso.
        assert (IN : In q0 (rev' (q0 :: acc))) by (unfold rev'; rewrite <- rev_alt; apply -> in_rev; left; reflexivity).
        pose proof (SH _ IN LT) as SHq. rewrite HC in SHq. apply N.leb_le in EF. lia.
      * assert (IN : In q0 res) by (apply (acc_kept _ _ _ _ E); left; reflexivity).
        pose proof (SH _ IN LT) as SHq. rewrite HC in SHq. apply (IH _ _ _ E q SHq S A SH).
    + cbn [andb] in E.
      destruct (flen bytes <=? q0 + 4) eqn:EF; [apply N.leb_le in EF; lia|].
      apply (IH _ _ _ E q AP S A SH).
Qed.
End Complete.

Theorem first_cand_spec : forall l pos,
  match first_cand l pos a0 with
  | inl (p, cl, fo) => exists j tl, l = j ++ tl /\ p = pos + N.of_nat (length j) /\ sig_here tl = true /\ hdr tl = Some (cl, fo) /\ nosig (j ++ MSC) = true
  | inr _ => forall j tl, l = j ++ tl -> sig_here tl = true -> hdr tl = None
  end.
Proof.
  intros l pos. rewrite first_cand_scanr. pose proof (scan_spec l) as SP. destruct (scanr l a0) as [[[k cl] fo]|a']; [|exact SP].
  destruct SP as (j & tl & E & -> & S & H & NJ). exists j, tl. repeat split; try assumption. lia.
Qed.

Theorem find_complete : forall bytes parse salvage fuel res, cab_find bytes parse salvage fuel 0 [] = Some res ->
  forall q, sig_at bytes q -> accepted bytes parse salvage q = true ->
            (forall p, In p res -> p < q -> p + cablen_at bytes p <= q) -> In q res.
Proof. intros bytes parse salvage fuel res E q S A SH. apply (find_complete_from bytes parse salvage fuel 0 [] res E q); [lia|exact S|exact A|exact SH]. Qed.

(* ---------- the search loop returns: fuel proportional to the file length always suffices ---------- *)
Theorem find_terminates : forall bytes parse salvage fuel off acc,
  (N.to_nat (flen bytes - off) < fuel)%nat -> exists res, cab_find bytes parse salvage fuel off acc = Some res.
Proof.
  intros bytes parse salvage. induction fuel as [|f IH]; intros off acc Hf; [lia|]. cbn [cab_find].
  pose proof (first_cand_spec (skipn (N.to_nat off) bytes) off) as SP.
  destruct (first_cand (skipn (N.to_nat off) bytes) off a0) as [[[caboff cablen] foffset]|a']; [|eauto].
  destruct SP as (j & tl & _ & Hp & _).
  pose proof (resume_advances caboff cablen foffset (plausible bytes salvage caboff cablen foffset) (parse caboff)) as ADV.
  destruct (N.leb_spec (flen bytes) (resume_offset caboff cablen foffset (plausible bytes salvage caboff cablen foffset) (parse caboff))) as [_|LT]; [eauto|].
  apply IH. lia.
Qed.
Corollary find_returns : forall bytes parse salvage, exists res, cab_find bytes parse salvage (S (length bytes)) 0 [] = Some res.
Proof. intros. apply find_terminates. unfold flen. lia. Qed.

(* ---------- the reported offsets are strictly increasing (every cabinet is reported once) ---------- *)
Fixpoint incr_from (lo : N) (l : list N) : Prop := match l with [] => True | x :: r => lo <= x /\ incr_from (x + 1) r end.
Lemma incr_from_app : forall l lo x, incr_from lo l -> (forall y, In y l -> y < x) -> lo <= x -> incr_from lo (l ++ [x]).
Proof.
  induction l as [|a l IH]; intros lo x H B L; cbn [app incr_from] in *; [split; [exact L|exact I]|].
  destruct H as [H1 H2]. split; [exact H1|]. apply IH; [exact H2|intros y Hy; apply B; right; exact Hy|]. specialize (B a (or_introl eq_refl)). lia.
Qed.
Theorem find_increasing_from : forall bytes parse salvage fuel off acc res,
  incr_from 0 (rev acc) -> (forall y, In y acc -> y < off) ->
  cab_find bytes parse salvage fuel off acc = Some res -> incr_from 0 res.
Proof.
  intros bytes parse salvage. induction fuel as [|f IH]; intros off acc res HI HB E; cbn [cab_find] in E; [discriminate|].
  pose proof (first_cand_spec (skipn (N.to_nat off) bytes) off) as SP.
  destruct (first_cand (skipn (N.to_nat off) bytes) off a0) as [[[caboff cablen] foffset]|a'].
  2:{ inversion E; subst. unfold rev'. rewrite <- rev_alt. exact HI. }
  destruct SP as (j & tl & _ & Hp & _).
  pose proof (resume_advances caboff cablen foffset (plausible bytes salvage caboff cablen foffset) (parse caboff)) as ADV.
  set (acc' := if plausible bytes salvage caboff cablen foffset && parse caboff then caboff :: acc else acc) in *.
  assert (HI' : incr_from 0 (rev acc')).
  { unfold acc'. destruct (plausible bytes salvage caboff cablen foffset && parse caboff); [|exact HI]. cbn [rev]. apply incr_from_app; [exact HI| |lia].
    intros y Hy. apply in_rev in Hy. specialize (HB y Hy). lia. }
  assert (HB' : forall y, In y acc' -> y < resume_offset caboff cablen foffset (plausible bytes salvage caboff cablen foffset) (parse caboff)).
  { intros y Hy. unfold acc' in Hy. destruct (plausible bytes salvage caboff cablen foffset && parse caboff).
    - destruct Hy as [<-|Hy]; [exact ADV|]. specialize (HB y Hy). lia.
    - specialize (HB y Hy). lia. }
  destruct (flen bytes <=? _); [inversion E; subst; unfold rev'; rewrite <- rev_alt; exact HI'|]. exact (IH _ _ _ HI' HB' E).
Qed.
Theorem find_increasing : forall bytes parse salvage fuel res, cab_find bytes parse salvage fuel 0 [] = Some res -> incr_from 0 res.
Proof. intros. eapply find_increasing_from; [| |eassumption]; [exact I|intros y []]. Qed.
