(* The chunk cache of struct mschmd_header is transparent: whatever chunks earlier lookups have cached, fast_find answers as
   if it read every chunk from the file, and leaves a cache that is again consistent with the file. *)
From Coq Require Import List NArith ZArith Lia Bool.
Import ListNotations.
From MSP Require Import Gen.Consts Gen.Tables Model.Chm.
Local Open Scope N_scope.

Section Cache.
Variable lower : N -> N.
Variables (file : list N) (h : hdr).

(* every cached chunk is what read_chunk would deliver now *)
Definition cache_ok (c : cache) : Prop := forall n b, cache_get c n = Some b -> read_chunk file h n = inr b.

Lemma cache_ok_nil : cache_ok [].
Proof. intros n b H. discriminate. Qed.

Lemma read_chunk_c_ok c n : cache_ok c ->
  fst (read_chunk_c file h c n) = read_chunk file h n /\ cache_ok (snd (read_chunk_c file h c n)).
Proof.
  intro Hc. unfold read_chunk_c. destruct (h_num_chunks h <=? n) eqn:E.
  - cbn [fst snd]. split; [|exact Hc]. unfold read_chunk. rewrite E. reflexivity.
  - destruct (cache_get c n) as [b|] eqn:G.
    + cbn [fst snd]. split; [symmetry; apply Hc; exact G|exact Hc].
    + destruct (read_chunk file h n) as [e|b] eqn:R; cbn [fst snd]; (split; [reflexivity|]); [exact Hc|].
      intros m b' H. cbn [cache_get] in H. destruct (N.eqb_spec n m) as [->|Hne]; [inversion H; subst; exact R|apply Hc; exact H].
Qed.

Lemma descend_c_ok : forall fuel fname n visited c, cache_ok c ->
  fst (descend_c lower fuel file h fname n visited c) = descend lower fuel file h fname n visited /\
  cache_ok (snd (descend_c lower fuel file h fname n visited c)).
Proof.
  induction fuel as [|f IH]; intros fname n visited c Hc; cbn [descend_c descend]; [split; [reflexivity|exact Hc]|].
  destruct (h_num_chunks h <=? visited); [split; [reflexivity|exact Hc]|].
  destruct (read_chunk_c_ok c n Hc) as [E1 E2]. destruct (read_chunk_c file h c n) as [r c1]. cbn [fst snd] in E1, E2. rewrite <- E1.
  destruct r as [e|ch]; [split; [reflexivity|exact E2]|].
  destruct (search_chunk lower (h_chunk_size h) (h_density h) ch fname) as [| |p]; try (split; [reflexivity|exact E2]).
  destruct (nthb ch 3 =? 76); [split; [destruct (read_found p); reflexivity|exact E2]|].
  destruct (read_encint p) as [[n' r]|]; [|split; [reflexivity|exact E2]]. apply IH. exact E2.
Qed.
Lemma walk_c_ok : forall fuel fname n visited le c, cache_ok c ->
  fst (walk_c lower fuel file h fname n visited le c) = walk lower fuel file h fname n visited le /\
  cache_ok (snd (walk_c lower fuel file h fname n visited le c)).
Proof.
  induction fuel as [|f IH]; intros fname n visited le c Hc; cbn [walk_c walk]; [destruct le; (split; [reflexivity|exact Hc])|].
  destruct (h_last_pmgl h <? n); [destruct le; (split; [reflexivity|exact Hc])|].
  destruct (h_num_chunks h <=? visited); [destruct le; (split; [reflexivity|exact Hc])|].
  destruct (read_chunk_c_ok c n Hc) as [E1 E2]. destruct (read_chunk_c file h c n) as [r c1]. cbn [fst snd] in E1, E2. rewrite <- E1.
  destruct r as [e|ch]; [destruct le; (split; [reflexivity|exact E2])|].
  destruct (search_chunk lower (h_chunk_size h) (h_density h) ch fname) as [| |p].
  - destruct (n =? le32 ch pmgl_NextChunk); [split; [reflexivity|exact E2]|apply IH; exact E2].
  - destruct (n =? le32 ch pmgl_NextChunk); [split; [reflexivity|exact E2]|apply IH; exact E2].
  - split; [destruct (read_found p); reflexivity|exact E2].
Qed.

(* whatever is cached, the answer is that of the uncached search, and the cache stays consistent *)
Theorem fast_find_c_ok name c : cache_ok c ->
  fst (fast_find_c lower file h name c) = fast_find lower file h name /\ cache_ok (snd (fast_find_c lower file h name c)).
Proof.
  intro Hc. unfold fast_find_c, fast_find. destruct (h_index_root h <? h_num_chunks h); [apply descend_c_ok|apply walk_c_ok]; exact Hc.
Qed.

(* any history of lookups: the i-th answer is the uncached answer for the i-th name *)
Fixpoint lookups (names : list (list N)) (c : cache) : list (N * found) * cache :=
  match names with
  | [] => ([], c)
  | nm :: rest => let '(r, c1) := fast_find_c lower file h nm c in let '(rs, c2) := lookups rest c1 in (r :: rs, c2)
  end.
Theorem lookups_history_free : forall names c, cache_ok c ->
  fst (lookups names c) = map (fast_find lower file h) names /\ cache_ok (snd (lookups names c)).
Proof.
  induction names as [|nm rest IH]; intros c Hc; cbn [lookups map]; [split; [reflexivity|exact Hc]|].
  destruct (fast_find_c_ok nm c Hc) as [E1 E2]. destruct (fast_find_c lower file h nm c) as [r c1]. cbn [fst snd] in E1, E2.
  destruct (IH c1 E2) as [F1 F2]. destruct (lookups rest c1) as [rs c2]. cbn [fst snd] in *. split; [rewrite E1, F1; reflexivity|exact F2].
Qed.
End Cache.
