(* compare() of chmd.c as an order: on names whose UTF-8 is canonical (every character takes exactly the bytes its code point
   needs, which holds for every well-formed UTF-8 string) compare is the lexicographic order of the lower-cased code points. *)
From Coq Require Import List NArith ZArith Lia Bool.
Import ListNotations.
From MSP Require Import Model.Chm.
Local Open Scope N_scope.

(* ---------- lexicographic comparison of lists of numbers ---------- *)
Fixpoint lexcmp (a b : list N) : comparison :=
  match a, b with
  | [], [] => Eq
  | [], _ :: _ => Lt
  | _ :: _, [] => Gt
  | x :: a', y :: b' => match x ?= y with Eq => lexcmp a' b' | c => c end
  end.
Lemma lexcmp_refl a : lexcmp a a = Eq.
Proof. induction a as [|x a IH]; cbn; [reflexivity|]. rewrite N.compare_refl. exact IH. Qed.
Lemma lexcmp_eq a : forall b, lexcmp a b = Eq -> a = b.
Proof.
  induction a as [|x a IH]; intros [|y b]; cbn; try discriminate; [reflexivity|].
  destruct (N.compare_spec x y) as [E|L|G]; try discriminate. intro H. subst. f_equal. apply IH. exact H.
Qed.
Lemma lexcmp_antisym a : forall b, lexcmp b a = CompOpp (lexcmp a b).
Proof.
  induction a as [|x a IH]; intros [|y b]; cbn; try reflexivity.
  rewrite (N.compare_antisym x y). destruct (x ?= y); cbn; [apply IH|reflexivity|reflexivity].
Qed.
Lemma lexcmp_trans a : forall b c, lexcmp a b = Lt -> lexcmp b c = Lt -> lexcmp a c = Lt.
Proof.
  induction a as [|x a IH]; intros [|y b] [|z c]; cbn; try discriminate; try reflexivity.
  destruct (N.compare_spec x y) as [E1|L1|G1]; destruct (N.compare_spec y z) as [E2|L2|G2]; try discriminate; intros H1 H2; subst.
  - rewrite N.compare_refl. eapply IH; eassumption.
  - apply N.compare_lt_iff in L2. rewrite L2. reflexivity.
  - apply N.compare_lt_iff in L1. rewrite L1. reflexivity.
  - assert (L3 : x < z) by lia. apply N.compare_lt_iff in L3. rewrite L3. reflexivity.
Qed.
Lemma lexcmp_eq_l a b c : lexcmp a b = Eq -> lexcmp a c = lexcmp b c.
Proof. intro H. apply lexcmp_eq in H. subst. reflexivity. Qed.

Section Order.
Variable lower : N -> N.

(* ---------- decoding: the code points GET_UTF8_CHAR delivers ---------- *)
Lemma get_utf8_shorter x r : (length (snd (get_utf8 x r)) <= length r)%nat.
Proof.
  unfold get_utf8. destruct (x <? 128); [cbn; lia|].
  destruct r as [|a r1]; [cbn; lia|].
  destruct ((194 <=? x) && (x <? 224)); [cbn; lia|].
  destruct r1 as [|b r2]; [cbn; lia|].
  destruct ((224 <=? x) && (x <? 240)); [cbn; lia|].
  destruct r2 as [|c r3]; [cbn; lia|].
  destruct ((240 <=? x) && (x <=? 245)); cbn; lia.
Qed.

Fixpoint chars (fuel : nat) (s : list N) : list N :=
  match fuel with O => [] | S f =>
    match s with [] => [] | x :: r => let '(c, t) := get_utf8 x r in lower c :: chars f t end
  end.
Definition key (s : list N) : list N := chars (length s) s.

Lemma chars_fuel : forall f1 f2 s, (length s <= f1)%nat -> (length s <= f2)%nat -> chars f1 s = chars f2 s.
Proof.
  induction f1 as [|f1 IH]; intros f2 s H1 H2.
  - destruct s; [|cbn in H1; lia]. destruct f2; reflexivity.
  - destruct s as [|x r]; [destruct f2; reflexivity|]. destruct f2 as [|f2]; [cbn in H2; lia|]. cbn [chars].
    pose proof (get_utf8_shorter x r) as Hs. destruct (get_utf8 x r) as [c t]. cbn [snd] in Hs. cbn [length] in *.
    f_equal. apply IH; lia.
Qed.
Lemma key_cons x r : key (x :: r) = lower (fst (get_utf8 x r)) :: key (snd (get_utf8 x r)).
Proof.
  unfold key. cbn [length chars]. pose proof (get_utf8_shorter x r) as Hs. destruct (get_utf8 x r) as [c t]. cbn [fst snd] in *.
  f_equal. apply chars_fuel; lia.
Qed.

(* first difference of two key lists, as the C loop reports it *)
Fixpoint lexdiff (a b : list N) : option Z :=
  match a, b with
  | x :: a', y :: b' => if x =? y then lexdiff a' b' else Some (Z.of_N x - Z.of_N y)%Z
  | _, _ => None
  end.

Lemma cmp_loop_lexdiff : forall fuel s1 s2, (length s1 < fuel)%nat -> cmp_loop lower fuel s1 s2 = lexdiff (key s1) (key s2).
Proof.
  induction fuel as [|f IH]; intros s1 s2 Hf; [lia|]. cbn [cmp_loop].
  destruct s1 as [|x1 r1]; [reflexivity|]. destruct s2 as [|x2 r2]; [rewrite key_cons; reflexivity|].
  rewrite !key_cons. pose proof (get_utf8_shorter x1 r1) as Hs.
  destruct (get_utf8 x1 r1) as [c1 t1]. destruct (get_utf8 x2 r2) as [c2 t2]. cbn [fst snd lexdiff] in *. cbn [length] in Hf.
  destruct (N.eqb_spec c1 c2) as [->|Hne].
  - rewrite N.eqb_refl. apply IH. lia.
  - destruct (N.eqb_spec (lower c1) (lower c2)); [apply IH; lia|reflexivity].
Qed.

Lemma compare_lexdiff s1 s2 : compare lower s1 s2 = match lexdiff (key s1) (key s2) with Some d => d | None => (Z.of_N (len s1) - Z.of_N (len s2))%Z end.
Proof. unfold compare. rewrite cmp_loop_lexdiff by lia. reflexivity. Qed.

(* ---------- canonical names ---------- *)
Definition width (c : N) : N := if c <? 128 then 1 else if c <? 2048 then 2 else if c <? 65536 then 3 else 4.
Definition wsum (k : list N) : N := fold_right (fun c acc => width c + acc) 0 k.
Definition canon (s : list N) : Prop := len s = wsum (key s).
Definition canonb (s : list N) : bool := len s =? wsum (key s).
Lemma canonb_spec s : canonb s = true <-> canon s.
Proof. unfold canonb, canon. apply N.eqb_eq. Qed.

Lemma width_pos c : 0 < width c.
Proof. unfold width. repeat match goal with |- context [if ?b then _ else _] => destruct b end; lia. Qed.

Definition sgn (z : Z) : comparison := (z ?= 0)%Z.

Lemma lexdiff_lexcmp : forall a b,
  match lexdiff a b with
  | Some d => sgn d = lexcmp a b /\ lexcmp a b <> Eq
  | None => (lexcmp a b = Eq /\ wsum a = wsum b) \/ (lexcmp a b = Lt /\ wsum a < wsum b) \/ (lexcmp a b = Gt /\ wsum b < wsum a)
  end.
Proof.
  induction a as [|x a IH]; intros [|y b]; cbn [lexdiff lexcmp wsum fold_right].
  - left. split; reflexivity.
  - right; left. split; [reflexivity|]. pose proof (width_pos y). lia.
  - right; right. split; [reflexivity|]. pose proof (width_pos x). lia.
  - destruct (N.eqb_spec x y) as [->|Hne].
    + rewrite N.compare_refl. specialize (IH b). destruct (lexdiff a b); [exact IH|].
      fold (wsum a) (wsum b). destruct IH as [[E W]|[[E W]|[E W]]]; [left|right; left|right; right]; (split; [exact E|lia]).
    + unfold sgn. destruct (N.compare_spec x y) as [E|L|G]; [congruence| |]; split; try discriminate.
      * apply Z.compare_lt_iff. lia.
      * apply Z.compare_gt_iff. lia.
Qed.

(* on canonical names, the sign of compare() is the lexicographic comparison of the keys *)
Theorem compare_sign s1 s2 : canon s1 -> canon s2 -> sgn (compare lower s1 s2) = lexcmp (key s1) (key s2).
Proof.
  intros K1 K2. rewrite compare_lexdiff. pose proof (lexdiff_lexcmp (key s1) (key s2)) as H.
  destruct (lexdiff (key s1) (key s2)) as [d|]; [exact (proj1 H)|].
  unfold canon in K1, K2. unfold sgn. destruct H as [[E W]|[[E W]|[E W]]]; rewrite E.
  - apply Z.compare_eq_iff. lia.
  - apply Z.compare_lt_iff. lia.
  - apply Z.compare_gt_iff. lia.
Qed.
End Order.

(* every string of ASCII bytes is canonical, whatever the lower-casing function does to widths of ASCII... (needs lower to keep width) *)
Definition keeps_width (lower : N -> N) : Prop := forall c, width (lower c) = width c.
Lemma lowerA_keeps_width : keeps_width lowerA.
Proof.
  intro c. unfold lowerA. destruct ((65 <=? c) && (c <=? 90)) eqn:E; [|reflexivity].
  apply andb_true_iff in E as [E1 E2]. apply N.leb_le in E1, E2. unfold width.
  replace (c + 32 <? 128) with true by (symmetry; apply N.ltb_lt; lia). replace (c <? 128) with true by (symmetry; apply N.ltb_lt; lia). reflexivity.
Qed.
