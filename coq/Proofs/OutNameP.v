From Coq Require Import List NArith Lia Bool.
Import ListNotations.
From MSP Require Import Model.OutName.
Local Open Scope N_scope.

Lemma is_slash_not_dot c : is_slash c = true -> (c =? DOT) = false.
Proof. unfold is_slash, SL, BSL, DOT. intro H. apply orb_true_iff in H as [H|H]; apply N.eqb_eq in H; subst; reflexivity. Qed.
Lemma xx_not_dot : (XX =? DOT) = false. Proof. reflexivity. Qed.

(* strong induction on length *)
Lemma list_strong_ind (P : list N -> Prop) :
  (forall l, (forall l', (length l' < length l)%nat -> P l') -> P l) -> forall l, P l.
Proof.
  intros H l. assert (G: forall n l, (length l < n)%nat -> P l).
  { induction n as [|n IH]; intros l0 Hl; [lia|]. apply H. intros l' Hl'. apply IH. lia. }
  apply (G (S (length l))). lia.
Qed.

Lemma rw_3 a b c r : rw (a :: b :: c :: r) =
  if (a =? DOT) && (b =? DOT) && is_slash c then XX :: XX :: c :: rw r else a :: rw (b :: c :: r).
Proof. reflexivity. Qed.
Lemma rw_2 a b : rw [a; b] = [a; b]. Proof. reflexivity. Qed.
Lemma rw_1 a : rw [a] = [a]. Proof. reflexivity. Qed.
Lemma dds_3 a b c r : has_dds (a :: b :: c :: r) =
  ((a =? DOT) && (b =? DOT) && is_slash c) || has_dds (b :: c :: r).
Proof. reflexivity. Qed.
Lemma dds_2 a b : has_dds [a; b] = false. Proof. reflexivity. Qed.
Lemma dds_1 a : has_dds [a] = false. Proof. reflexivity. Qed.

(* the head of [rw (a :: rest)] is [a] or 'x' *)
Lemma rw_head a rest : exists a' t, rw (a :: rest) = a' :: t /\ (a' = a \/ a' = XX).
Proof.
  destruct rest as [|b [|c r]].
  - rewrite rw_1. eauto.
  - rewrite rw_2. eauto.
  - rewrite rw_3. destruct ((a =? DOT) && (b =? DOT) && is_slash c); eauto.
Qed.
Global Opaque rw has_dds.

Theorem rw_no_dotdot_slash : forall l, has_dds (rw l) = false.
Proof.
  induction l as [l IH] using list_strong_ind.
  destruct l as [|a [|b [|c r]]].
  - reflexivity.
  - rewrite rw_1. apply dds_1.
  - rewrite rw_2. apply dds_2.
  - rewrite rw_3. destruct ((a =? DOT) && (b =? DOT) && is_slash c) eqn:E.
    + (* rewritten: x x c (rw r) *)
      apply andb_true_iff in E as [_ Ec].
      assert (IH2 : has_dds (rw r) = false) by (apply IH; cbn; lia).
      rewrite dds_3, xx_not_dot. cbn [andb orb].
      destruct (rw r) as [|d [|e t]] eqn:Er.
      * apply dds_2.
      * rewrite dds_3, xx_not_dot. cbn [andb orb]. apply dds_2.
      * rewrite dds_3, xx_not_dot. cbn [andb orb].
        rewrite dds_3, (is_slash_not_dot c Ec). cbn [andb orb]. exact IH2.
    + (* not rewritten: a :: rw (b :: c :: r) *)
      assert (IH1 : has_dds (rw (b :: c :: r)) = false) by (apply IH; cbn; lia).
      (* first two bytes of rw (b::c::r) *)
      destruct r as [|d r'].
      * rewrite rw_2 in *. rewrite dds_3, E. apply dds_2.
      * rewrite rw_3 in *. destruct ((b =? DOT) && (c =? DOT) && is_slash d) eqn:E2.
        -- rewrite dds_3, xx_not_dot, andb_false_r. cbn [andb orb]. exact IH1.
        -- destruct (rw_head c (d :: r')) as (c1 & t & Hc & Hor). rewrite Hc in *.
           rewrite dds_3, IH1, orb_false_r.
           destruct Hor as [H1|H1]; subst c1; [exact E|].
           replace (is_slash XX) with false by reflexivity. apply andb_false_r.
Qed.

(* ---------- properties of the whole of create_output_name ---------- *)
Lemma strip_nonslash : forall l, match strip l with [] => True | a :: _ => is_slash a = false end.
Proof. induction l as [|c r IH]; cbn [strip]; [exact I|]. destruct (is_slash c) eqn:E; [exact IH|exact E]. Qed.
Lemma strip_lead_nonslash : forall l, match strip_lead l with [] => True | a :: _ => is_slash a = false end.
Proof.
  intros [|c r]; cbn [strip_lead]; [exact I|]. destruct (is_slash c) eqn:E; [|exact E].
  pose proof (strip_nonslash (c :: r)) as H. destruct (strip (c :: r)); [reflexivity|exact H].
Qed.
Lemma strip_incl : forall l x, In x (strip l) -> In x l.
Proof. induction l as [|c r IH]; intros x H; cbn [strip] in H; [exact H|]. destruct (is_slash c); [right; apply IH; exact H|exact H]. Qed.
Lemma strip_lead_incl : forall l x, In x (strip_lead l) -> In x l \/ x = XX.
Proof.
  intros [|c r] x H; cbn [strip_lead] in H; [left; exact H|]. destruct (is_slash c); [|left; exact H].
  destruct (strip (c :: r)) eqn:E; [right; destruct H as [H|[]]; symmetry; exact H|]. left. apply strip_incl. rewrite E. exact H.
Qed.
Lemma strip_length : forall l, (length (strip l) <= length l)%nat.
Proof. induction l as [|c r IH]; cbn [strip length]; [lia|]. destruct (is_slash c); cbn [length]; lia. Qed.
Lemma strip_lead_length : forall l, (length (strip_lead l) <= length l)%nat.
Proof.
  intros [|c r]; cbn [strip_lead]; [lia|]. destruct (is_slash c); [|lia].
  pose proof (strip_length (c :: r)) as H. destruct (strip (c :: r)); cbn [length] in *; lia.
Qed.

Lemma rw_nil : rw [] = []. Proof. reflexivity. Qed.
Lemma rw_incl : forall l x, In x (rw l) -> In x l \/ x = XX.
Proof.
  induction l as [l IH] using list_strong_ind. intros x H.
  destruct l as [|a [|b [|c r]]].
  - rewrite rw_nil in H. left; exact H.
  - rewrite rw_1 in H. left; exact H.
  - rewrite rw_2 in H. left. exact H.
  - rewrite rw_3 in H. destruct ((a =? DOT) && (b =? DOT) && is_slash c).
    + destruct H as [H|[H|[H|H]]]; try (right; symmetry; exact H); [left; subst; cbn; auto|].
      destruct (IH r ltac:(cbn; lia) x H) as [H1|H1]; [left; cbn; auto|right; exact H1].
    + destruct H as [H|H]; [left; left; exact H|].
      destruct (IH (b :: c :: r) ltac:(cbn; lia) x H) as [H1|H1]; [left; right; exact H1|right; exact H1].
Qed.
Lemma rw_length : forall l, length (rw l) = length l.
Proof.
  induction l as [l IH] using list_strong_ind.
  destruct l as [|a [|b [|c r]]]; rewrite ?rw_nil, ?rw_1, ?rw_2; try reflexivity.
  rewrite rw_3. destruct ((a =? DOT) && (b =? DOT) && is_slash c); cbn [length].
  - rewrite (IH r) by (cbn; lia). reflexivity.
  - rewrite (IH (b :: c :: r)) by (cbn; lia). reflexivity.
Qed.

Lemma cstr_no_nul : forall l, ~ In 0 (cstr l).
Proof. induction l as [|c r IH]; cbn [cstr]; [auto|]. destruct (N.eqb_spec c 0); [auto|]. intros [H|H]; [congruence|exact (IH H)]. Qed.
Lemma cstr_length : forall l, (length (cstr l) <= length l)%nat.
Proof. induction l as [|c r IH]; cbn [cstr length]; [lia|]. destruct (c =? 0); cbn [length]; lia. Qed.

Section Out.
Variable lower : N -> N.

Lemma encode1_length x : (length (encode1 x) <= 4)%nat.
Proof. unfold encode1. repeat (match goal with |- context [if ?b then _ else _] => destruct b end); cbn [length]; lia. Qed.
Lemma conv_utf8_length : forall fuel isunix lw l, (length (conv_utf8 lower fuel isunix lw l) <= 4 * length l)%nat.
Proof.
  induction fuel as [|f IH]; intros isunix lw l; cbn [conv_utf8]; [cbn; lia|].
  destruct l as [|c r]; [cbn; lia|]. destruct (decode1 c r) as [x k]. rewrite app_length.
  pose proof (encode1_length (swap isunix (if lw then lower (fixup x) else fixup x))) as H1.
  specialize (IH isunix lw (skipn k r)). rewrite skipn_length in IH. cbn [length]. lia.
Qed.

(* C16, the name part: for EVERY member name (any bytes), every case-folding function, either slash convention, UTF-8 or not:
   the part of the output name after "dir/" contains no "../" and no "..\", does not begin with a slash of either kind,
   contains no NUL, and fits the buffer cabextract allocates (4 bytes per input byte). *)
Theorem out_tail_no_dotdot_slash : forall lw isunix utf8 name, has_dds (out_tail lower lw isunix utf8 name) = false.
Proof. intros. unfold out_tail. apply rw_no_dotdot_slash. Qed.

Theorem out_tail_no_leading_slash : forall lw isunix utf8 name,
  match out_tail lower lw isunix utf8 name with [] => True | a :: _ => is_slash a = false end.
Proof.
  intros. unfold out_tail. set (l := strip_lead _). pose proof (strip_lead_nonslash (cstr (if utf8 then conv_utf8 lower (length name) isunix lw name else conv_plain lower isunix lw name))) as H.
  fold l in H. destruct l as [|a r]; [rewrite rw_nil; exact I|]. destruct (rw_head a r) as (a' & t & E & Hor). rewrite E.
  destruct Hor as [->| ->]; [exact H|reflexivity].
Qed.

Theorem out_tail_no_nul : forall lw isunix utf8 name, ~ In 0 (out_tail lower lw isunix utf8 name).
Proof.
  intros lw isunix utf8 name H. unfold out_tail in H. apply rw_incl in H as [H|H]; [|discriminate].
  apply strip_lead_incl in H as [H|H]; [|discriminate]. exact (cstr_no_nul _ H).
Qed.

Theorem out_tail_fits : forall lw isunix utf8 name, (length (out_tail lower lw isunix utf8 name) <= 4 * length name)%nat.
Proof.
  intros. unfold out_tail. rewrite rw_length.
  pose proof (strip_lead_length (cstr (if utf8 then conv_utf8 lower (length name) isunix lw name else conv_plain lower isunix lw name))) as H1.
  pose proof (cstr_length (if utf8 then conv_utf8 lower (length name) isunix lw name else conv_plain lower isunix lw name)) as H2.
  assert (H3 : (length (if utf8 then conv_utf8 lower (length name) isunix lw name else conv_plain lower isunix lw name) <= 4 * length name)%nat).
  { destruct utf8; [apply conv_utf8_length|]. unfold conv_plain. rewrite map_length. lia. }
  lia.
Qed.
End Out.

Example outname_nonvacuous :
  out_tail (fun x => x) false true false [46;46;47;46;46;47;101;116;99] = [120;120;47;120;120;47;101;116;99] /\
  out_tail (fun x => x) false false true [92;92;46;46;92;224;128;175;46;46;47;120] <> [] /\
  out_tail (fun x => x) false true true [47;47;47] = [120].
Proof. vm_compute. repeat split; discriminate. Qed.
