(* cabd_read_headers (Model/Cab.v) reads back what a cabinet writer wrote: strings, folder table, file table, and the whole
   header of a cabinet without reserve areas and without neighbours (flags = 0). *)
From Coq Require Import List NArith ZArith Lia Bool.
Import ListNotations.
From MSP Require Import Base.Src Gen.Consts Gen.Tables Model.Chm Model.Cab Proofs.ChmEnc Proofs.CabP.
Local Open Scope N_scope.

Lemma rdn_prefix (pre s : list N) n : rdn (pre ++ s) (Z.of_N (len pre)) n = firstn (N.to_nat n) s.
Proof.
  unfold rdn, sub. rewrite N2Z.id. destruct (N.eqb_spec n 0) as [->|Hn].
  { rewrite N.add_0_r, N.leb_refl. reflexivity. }
  replace (len pre + n <=? len pre) with false by (symmetry; apply N.leb_gt; lia). cbn [orb].
  destruct (N.leb_spec (len (pre ++ s)) (len pre)) as [Hle|Hgt].
  - rewrite len_app in Hle. assert (len s = 0) by lia. destruct s; [rewrite firstn_nil; reflexivity|unfold len in *; cbn in *; lia].
  - rewrite skipn_len_app. rewrite len_app. replace (N.min (len pre + n) (len pre + len s) - len pre) with (N.min n (len s)) by lia.
    unfold len. destruct (N.le_ge_cases n (N.of_nat (length s))) as [H|H].
    + rewrite N.min_l by exact H. reflexivity.
    + rewrite N.min_r by exact H. rewrite Nat2N.id. rewrite firstn_all. symmetry. apply firstn_all2. lia.
Qed.

(* ---------- strings ---------- *)
Definition nonul (s : list N) : Prop := Forall (fun c => c <> 0) s.
Lemma index0_name : forall s rest i, nonul s -> index0 (s ++ 0 :: rest) i = Some (i + len s).
Proof.
  induction s as [|c s IH]; intros rest i Hn; cbn [app index0].
  - rewrite N.eqb_refl. f_equal. unfold len. cbn. lia.
  - inversion Hn as [|? ? Hc Hs]; subst. replace (c =? 0) with false by (symmetry; apply N.eqb_neq; exact Hc).
    rewrite IH by exact Hs. f_equal. unfold len. cbn [length]. lia.
Qed.
Lemma index0_firstn : forall l k i r, index0 l i = Some r -> r - i < N.of_nat k -> i <= r -> index0 (firstn k l) i = Some r.
Proof.
  induction l as [|c l IH]; intros k i r H Hk Hi; [discriminate|]. destruct k as [|k]; [lia|]. cbn [firstn index0] in *.
  destruct (c =? 0); [exact H|]. apply IH; [exact H| |].
  - assert (i + 1 <= r). { clear - H. revert H. generalize (i + 1). revert r. induction l as [|d l IHl]; intros r j H; [discriminate|]. cbn in H. destruct (d =? 0); [inversion H; lia|]. apply IHl in H. lia. }
    lia.
  - clear - H. revert H. generalize (i + 1). revert r. induction l as [|d l IHl]; intros r j H; [discriminate|]. cbn in H. destruct (d =? 0); [inversion H; lia|]. apply IHl in H. lia.
Qed.

Lemma read_string_enc pre s rest permit : nonul s -> len s < 256 -> (permit = false -> s <> []) ->
  read_string (pre ++ s ++ 0 :: rest) (Z.of_N (len pre)) permit = (MSPACK_ERR_OK, s, Z.of_N (len pre + len s + 1)).
Proof.
  intros Hn Hl Hne. unfold read_string. rewrite rdn_prefix.
  set (buf := firstn (N.to_nat 256) (s ++ 0 :: rest)).
  assert (Hidx : index0 buf 0 = Some (len s)).
  { unfold buf. apply index0_firstn; [rewrite index0_name by exact Hn; f_equal; lia| |lia]. rewrite N.sub_0_r, N2Nat.id. exact Hl. }
  assert (Hlen : len buf =? 0 = false).
  { apply N.eqb_neq. unfold buf, len. rewrite firstn_length, app_length. cbn [length]. lia. }
  rewrite Hlen, Hidx.
  assert (Hpe : (len s =? 0) && negb permit = false).
  { destruct permit; [apply andb_false_r|]. cbn [negb]. rewrite andb_true_r. apply N.eqb_neq. specialize (Hne eq_refl). destruct s; [congruence|unfold len; cbn; lia]. }
  rewrite Hpe. f_equal; [f_equal|].
  - unfold buf. rewrite firstn_firstn. replace (Nat.min (N.to_nat (len s)) (N.to_nat 256)) with (N.to_nat (len s)) by lia. apply firstn_len_app.
  - lia.
Qed.

(* ---------- folder table ---------- *)
Record fospec := mkFS { fs_doff : N; fs_nblocks : N; fs_comp : N; fs_resv : list N }.
Definition enc_fo (s : fospec) : list N := le32b (fs_doff s) ++ le16b (fs_nblocks s) ++ le16b (fs_comp s) ++ fs_resv s.
Definition dec_fo (base : Z) (s : fospec) : cfolder := mkFo (fs_comp s) (fs_nblocks s) (base + Z.of_N (fs_doff s))%Z false false.

Lemma rdn_at' (pre m t : list N) n : n = len m -> rdn (pre ++ m ++ t) (Z.of_N (len pre)) n = m.
Proof. intros ->. apply rdn_at. Qed.

Lemma read_folders_enc base fres : forall specs pre rest acc, Forall (fun s => len (fs_resv s) = fres) specs ->
  read_folders (length specs) (pre ++ concat (map enc_fo specs) ++ rest) (Z.of_N (len pre)) base fres acc =
  (MSPACK_ERR_OK, rev acc ++ map (dec_fo base) specs, Z.of_N (len pre + len (concat (map enc_fo specs)))).
Proof.
  induction specs as [|s specs IH]; intros pre rest acc Hr; cbn [length read_folders map concat].
  - rewrite app_nil_r. cbn. rewrite N.add_0_r. reflexivity.
  - inversion Hr as [|? ? Hs Hrs]; subst.
    set (h8 := le32b (fs_doff s) ++ le16b (fs_nblocks s) ++ le16b (fs_comp s)).
    assert (E : pre ++ (enc_fo s ++ concat (map enc_fo specs)) ++ rest = pre ++ h8 ++ (fs_resv s ++ concat (map enc_fo specs) ++ rest)).
    { unfold enc_fo, h8. rewrite <- !app_assoc. reflexivity. }
    rewrite E. rewrite (rdn_at' pre h8 _ cffold_SIZEOF) by reflexivity. change (len h8 =? cffold_SIZEOF) with true. cbn [negb].
    assert (F1 : le16 h8 cffold_CompType = fs_comp s).
    { unfold h8. change cffold_CompType with (len (le32b (fs_doff s)) + (len (le16b (fs_nblocks s)) + 0)). rewrite !le16_app_r. rewrite <- (app_nil_r (le16b _)). apply le16_le16b. }
    assert (F2 : le16 h8 cffold_NumBlocks = fs_nblocks s).
    { unfold h8. change cffold_NumBlocks with (len (le32b (fs_doff s)) + 0). rewrite le16_app_r. apply le16_le16b. }
    assert (F3 : le32 h8 cffold_DataOffset = fs_doff s) by (unfold h8; apply le32_le32b).
    rewrite F1, F2, F3.
    replace (Z.of_N (len pre) + Z.of_N cffold_SIZEOF + Z.of_N (len (fs_resv s)))%Z with (Z.of_N (len (pre ++ h8 ++ fs_resv s))) by (rewrite !len_app; change (len h8) with 8; change cffold_SIZEOF with 8; lia).
    replace (pre ++ h8 ++ fs_resv s ++ concat (map enc_fo specs) ++ rest) with ((pre ++ h8 ++ fs_resv s) ++ concat (map enc_fo specs) ++ rest) by (rewrite <- !app_assoc; reflexivity).
    rewrite IH by exact Hrs. cbn [rev]. rewrite <- app_assoc. cbn [app]. f_equal. f_equal. unfold enc_fo, h8. rewrite !len_app. lia.
Qed.

(* ---------- file table ---------- *)
Record fispec := mkFiS { s_ulen : N; s_uoff : N; s_fidx : N; s_date : N; s_time : N; s_attr : N; s_name : list N }.
Definition enc_fi (s : fispec) : list N :=
  le32b (s_ulen s) ++ le32b (s_uoff s) ++ le16b (s_fidx s) ++ le16b (s_date s) ++ le16b (s_time s) ++ le16b (s_attr s) ++ s_name s ++ [0].
Definition to_next (s : fispec) : bool := (s_fidx s =? cffileCONTINUED_TO_NEXT) || (s_fidx s =? cffileCONTINUED_PREV_AND_NEXT).
Definition from_prev (s : fispec) : bool := (s_fidx s =? cffileCONTINUED_FROM_PREV) || (s_fidx s =? cffileCONTINUED_PREV_AND_NEXT).
Definition folder_of (nfold : N) (s : fispec) : N :=
  if s_fidx s <? cffileCONTINUED_FROM_PREV then s_fidx s else if from_prev s then 0 else nfold - 1.
Definition dec_fi (nfold : N) (s : fispec) : cfile :=
  mkFi (s_name s) (s_ulen s) (s_attr s) (s_uoff s) (folder_of nfold s)
       (N.shiftr (s_time s) 11) (N.land (N.shiftr (s_time s) 5) 63) (N.land (N.shiftl (s_time s) 1) 62)
       (N.shiftr (s_date s) 9 + 1980) (N.land (N.shiftr (s_date s) 5) 15) (N.land (s_date s) 31) (s_fidx s).
Definition wf_fi (nfold : N) (s : fispec) : Prop :=
  nonul (s_name s) /\ len (s_name s) < 256 /\ s_name s <> [] /\ (s_fidx s < nfold \/ cffileCONTINUED_FROM_PREV <= s_fidx s) /\ s_fidx s < 65536.
Definition merge1 (fs : list cfolder) (s : fispec) : list cfolder :=
  let f1 := if to_next s then set_mnext fs else fs in if from_prev s then set_mprev f1 else f1.

Lemma read_files_enc salvage nfold : forall specs pre rest folders acc, Forall (wf_fi nfold) specs ->
  read_files (length specs) (pre ++ concat (map enc_fi specs) ++ rest) (Z.of_N (len pre)) salvage nfold folders acc =
  (MSPACK_ERR_OK, fold_left merge1 specs folders, rev acc ++ map (dec_fi nfold) specs).
Proof.
  induction specs as [|s specs IH]; intros pre rest folders acc Hwf; cbn [length read_files map concat fold_left].
  - rewrite app_nil_r. reflexivity.
  - inversion Hwf as [|? ? (Hn & Hl & Hne & Hidx & H16) Hrs]; subst.
    set (h16 := le32b (s_ulen s) ++ le32b (s_uoff s) ++ le16b (s_fidx s) ++ le16b (s_date s) ++ le16b (s_time s) ++ le16b (s_attr s)).
    assert (E : pre ++ (enc_fi s ++ concat (map enc_fi specs)) ++ rest = pre ++ h16 ++ (s_name s ++ 0 :: (concat (map enc_fi specs) ++ rest))).
    { unfold enc_fi, h16. rewrite <- !app_assoc. reflexivity. }
    rewrite E. rewrite (rdn_at' pre h16 _ cffile_SIZEOF) by reflexivity. change (len h16 =? cffile_SIZEOF) with true. cbn [negb].
    assert (F0 : le32 h16 cffile_UncompressedSize = s_ulen s) by (unfold h16; apply le32_le32b).
    assert (F1 : le32 h16 cffile_FolderOffset = s_uoff s).
    { unfold h16. change cffile_FolderOffset with (len (le32b (s_ulen s)) + 0). rewrite le32_app_r. apply le32_le32b. }
    assert (F2 : le16 h16 cffile_FolderIndex = s_fidx s).
    { unfold h16. change cffile_FolderIndex with (len (le32b (s_ulen s)) + (len (le32b (s_uoff s)) + 0)). rewrite !le16_app_r. apply le16_le16b. }
    assert (F3 : le16 h16 cffile_Date = s_date s).
    { unfold h16. change cffile_Date with (len (le32b (s_ulen s)) + (len (le32b (s_uoff s)) + (len (le16b (s_fidx s)) + 0))). rewrite !le16_app_r. apply le16_le16b. }
    assert (F4 : le16 h16 cffile_Time = s_time s).
    { unfold h16. change cffile_Time with (len (le32b (s_ulen s)) + (len (le32b (s_uoff s)) + (len (le16b (s_fidx s)) + (len (le16b (s_date s)) + 0)))). rewrite !le16_app_r. apply le16_le16b. }
    assert (F5 : le16 h16 cffile_Attribs = s_attr s).
    { unfold h16. change cffile_Attribs with (len (le32b (s_ulen s)) + (len (le32b (s_uoff s)) + (len (le16b (s_fidx s)) + (len (le16b (s_date s)) + (len (le16b (s_time s)) + 0))))). rewrite !le16_app_r.
      rewrite <- (app_nil_r (le16b _)). apply le16_le16b. }
    rewrite F0, F1, F2, F3, F4, F5.
    replace (Z.of_N (len pre) + Z.of_N cffile_SIZEOF)%Z with (Z.of_N (len (pre ++ h16))) by (rewrite len_app; change (len h16) with 16; change cffile_SIZEOF with 16; lia).
    replace (pre ++ h16 ++ s_name s ++ 0 :: concat (map enc_fi specs) ++ rest) with ((pre ++ h16) ++ s_name s ++ 0 :: (concat (map enc_fi specs) ++ rest)) by (rewrite <- !app_assoc; reflexivity).
    rewrite read_string_enc by (try assumption; intros _; exact Hne). change (MSPACK_ERR_OK =? 0) with true. cbv iota.
    (* the folder the entry belongs to *)
    assert (Hfo : (if s_fidx s <? cffileCONTINUED_FROM_PREV then if s_fidx s <? nfold then Some (s_fidx s) else None
                   else if (s_fidx s =? cffileCONTINUED_FROM_PREV) || (s_fidx s =? cffileCONTINUED_PREV_AND_NEXT) then Some 0 else Some (nfold - 1)) = Some (folder_of nfold s)).
    { unfold folder_of, from_prev. destruct (N.ltb_spec (s_fidx s) cffileCONTINUED_FROM_PREV) as [Hlt|Hge]; [|destruct (_ || _); reflexivity].
      destruct Hidx as [Hi|Hi]; [|lia]. replace (s_fidx s <? nfold) with true by (symmetry; apply N.ltb_lt; exact Hi). reflexivity. }
    rewrite Hfo. fold (to_next s) (from_prev s). fold (merge1 folders s). fold (dec_fi nfold s).
    replace ((pre ++ h16) ++ s_name s ++ 0 :: concat (map enc_fi specs) ++ rest) with ((pre ++ h16 ++ s_name s ++ [0]) ++ concat (map enc_fi specs) ++ rest) by (rewrite <- !app_assoc; reflexivity).
    replace (Z.of_N (len (pre ++ h16) + len (s_name s) + 1)) with (Z.of_N (len (pre ++ h16 ++ s_name s ++ [0]))) by (rewrite !len_app; change (len [0]) with 1; lia).
    rewrite IH by exact Hrs. cbn [rev]. rewrite <- app_assoc. reflexivity.
Qed.

(* ---------- the whole header of a cabinet without reserve areas and without neighbouring cabinets ---------- *)
Definition enc_cfheader (r1 cablen r2 foff r3 minor major nfold nfiles flags setid idx : N) : list N :=
  le32b MSCF_SIG ++ le32b r1 ++ le32b cablen ++ le32b r2 ++ le32b foff ++ le32b r3 ++ [minor; major] ++
  le16b nfold ++ le16b nfiles ++ le16b flags ++ le16b setid ++ le16b idx.

Lemma le16_pair v : v mod 256 + 256 * (v / 256) = v.
Proof. pose proof (N.div_mod v 256 ltac:(lia)). lia. Qed.
Lemma le32_quad v : (v mod 65536) mod 256 + 256 * ((v mod 65536) / 256) + 65536 * ((v / 65536) mod 256 + 256 * ((v / 65536) / 256)) = v.
Proof. rewrite !le16_pair. pose proof (N.div_mod v 65536 ltac:(lia)). lia. Qed.

Theorem read_headers_plain salvage r1 cablen r2 foff r3 minor major setid idx fos fis rest :
  fos <> [] -> fis <> [] -> N.of_nat (length fos) < 65536 -> N.of_nat (length fis) < 65536 ->
  Forall (fun s => len (fs_resv s) = 0) fos -> Forall (wf_fi (N.of_nat (length fos))) fis ->
  read_headers (enc_cfheader r1 cablen r2 foff r3 minor major (N.of_nat (length fos)) (N.of_nat (length fis)) 0 setid idx
                ++ concat (map enc_fo fos) ++ concat (map enc_fi fis) ++ rest) 0 salvage =
  (MSPACK_ERR_OK, Some (mkCab 0 cablen setid idx 0 0 0 None None None None
                              (fold_left merge1 fis (map (dec_fo 0) fos)) (map (dec_fi (N.of_nat (length fos))) fis))).
Proof.
  intros Hfo Hfi Hnfo Hnfi Hres Hwf. unfold read_headers. cbn [Z.ltb Z.compare].
  set (nfold := N.of_nat (length fos)) in *. set (nfiles := N.of_nat (length fis)) in *.
  set (hdr := enc_cfheader r1 cablen r2 foff r3 minor major nfold nfiles 0 setid idx).
  set (body := concat (map enc_fo fos) ++ concat (map enc_fi fis) ++ rest).
  assert (Hb : rdn (hdr ++ body) 0 cfhead_SIZEOF = hdr).
  { change (hdr ++ body) with ([] ++ hdr ++ body). change 0%Z with (Z.of_N (len (@nil N))). apply rdn_at'. reflexivity. }
  rewrite Hb. change (len hdr =? cfhead_SIZEOF) with true. cbn [negb].
  assert (G0 : le32 hdr cfhead_Signature = MSCF_SIG) by reflexivity.
  assert (G1 : le16 hdr cfhead_NumFolders = nfold) by (change (le16 hdr cfhead_NumFolders) with (nfold mod 256 + 256 * (nfold / 256)); apply le16_pair).
  assert (G2 : le16 hdr cfhead_NumFiles = nfiles) by (change (le16 hdr cfhead_NumFiles) with (nfiles mod 256 + 256 * (nfiles / 256)); apply le16_pair).
  assert (G3 : le16 hdr cfhead_Flags = 0) by reflexivity.
  assert (G4 : le16 hdr cfhead_SetID = setid) by (change (le16 hdr cfhead_SetID) with (setid mod 256 + 256 * (setid / 256)); apply le16_pair).
  assert (G5 : le16 hdr cfhead_CabinetIndex = idx) by (change (le16 hdr cfhead_CabinetIndex) with (idx mod 256 + 256 * (idx / 256)); apply le16_pair).
  assert (G6 : le32 hdr cfhead_CabinetSize = cablen).
  { change (le32 hdr cfhead_CabinetSize) with ((cablen mod 65536) mod 256 + 256 * ((cablen mod 65536) / 256) + 65536 * ((cablen / 65536) mod 256 + 256 * ((cablen / 65536) / 256))). apply le32_quad. }
  rewrite G0, G1, G2, G3, G4, G5, G6, N.eqb_refl. cbn [negb].
  replace (nfold =? 0) with false by (symmetry; apply N.eqb_neq; unfold nfold; destruct fos; [congruence|cbn; lia]).
  replace (nfiles =? 0) with false by (symmetry; apply N.eqb_neq; unfold nfiles; destruct fis; [congruence|cbn; lia]).
  change (N.land 0 cfheadRESERVE_PRESENT =? 0) with true. change (N.land 0 cfheadPREV_CABINET =? 0) with true. change (N.land 0 cfheadNEXT_CABINET =? 0) with true.
  cbn [negb andb N.eqb].
  (* folders *)
  change (0 + Z.of_N cfhead_SIZEOF)%Z with (Z.of_N (len hdr)). unfold body.
  replace (N.to_nat nfold) with (length fos) by (unfold nfold; rewrite Nat2N.id; reflexivity).
  replace (N.to_nat nfiles) with (length fis) by (unfold nfiles; rewrite Nat2N.id; reflexivity).
  rewrite (read_folders_enc 0 0 fos hdr (concat (map enc_fi fis) ++ rest) [] Hres).
  change (MSPACK_ERR_OK =? 0) with true. cbn [negb rev app].
  (* files *)
  replace (hdr ++ concat (map enc_fo fos) ++ concat (map enc_fi fis) ++ rest) with ((hdr ++ concat (map enc_fo fos)) ++ concat (map enc_fi fis) ++ rest) by (rewrite <- !app_assoc; reflexivity).
  rewrite <- len_app. rewrite (read_files_enc salvage nfold fis _ rest _ [] Hwf).
  change (MSPACK_ERR_OK =? 0) with true. cbn [negb rev app].
  destruct (map (dec_fi nfold) fis) eqn:Em; [destruct fis; [congruence|discriminate]|]. reflexivity.
Qed.
