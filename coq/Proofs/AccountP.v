From Coq Require Import List NArith Bool Lia.
Import ListNotations.
From MSP Require Import Model.Account.
Local Open Scope N_scope.

Lemma frames_spec : forall ps out_bytes w,
  let a := frames out_bytes ps w in
  w <= written a /\ written a <= w + out_bytes /\ (status_ok a = true -> written a = w + out_bytes).
Proof.
  induction ps as [|p rest IH]; intros out_bytes w; cbn [frames].
  - destruct (N.eqb_spec out_bytes 0); cbn; [subst; repeat split; lia|repeat split; try lia; discriminate].
  - destruct (N.eqb_spec out_bytes 0) as [E|NE]; [cbn; subst; repeat split; lia|].
    destruct p as [p|]; [|cbn; repeat split; try lia; discriminate].
    destruct (N.eqb_spec (out_bytes - N.min out_bytes p) 0) as [E2|NE2]; cbn [written status_ok].
    + repeat split; lia.
    + specialize (IH (out_bytes - N.min out_bytes p) (w + N.min out_bytes p)). cbn zeta in IH.
      destruct IH as (A & B & C). repeat split; try lia. intro H. specialize (C H). lia.
Qed.

Theorem written_le_requested : forall have out_bytes ps,
  written (decompress_call have out_bytes ps) <= out_bytes.
Proof.
  intros have out_bytes ps. unfold decompress_call.
  destruct (N.eqb_spec (out_bytes - N.min have out_bytes) 0); cbn [written]; [lia|].
  pose proof (frames_spec ps (out_bytes - N.min have out_bytes) (N.min have out_bytes)) as (A & B & C). lia.
Qed.

Theorem ok_implies_exact : forall have out_bytes ps,
  status_ok (decompress_call have out_bytes ps) = true -> written (decompress_call have out_bytes ps) = out_bytes.
Proof.
  intros have out_bytes ps. unfold decompress_call.
  destruct (N.eqb_spec (out_bytes - N.min have out_bytes) 0); cbn [written status_ok]; [lia|].
  pose proof (frames_spec ps (out_bytes - N.min have out_bytes) (N.min have out_bytes)) as (A & B & C). intro H. specialize (C H). lia.
Qed.

Theorem short_is_error : forall have out_bytes ps,
  written (decompress_call have out_bytes ps) < out_bytes -> status_ok (decompress_call have out_bytes ps) = false.
Proof.
  intros have out_bytes ps Hlt. destruct (status_ok (decompress_call have out_bytes ps)) eqn:E; [|reflexivity].
  apply ok_implies_exact in E. lia.
Qed.

(* the skip-then-extract pair of cabd_extract / chmd_extract: phase 1 decodes `skip` bytes with the output handle NULL (nothing
   reaches write), phase 2 decodes `len` bytes to the file.  Only phase 2's bytes are written to the output. *)
Definition extract_pair (have skip len : N) (ps1 ps2 : list (option N)) : N * bool :=
  let a1 := decompress_call have skip ps1 in
  if status_ok a1 then let a2 := decompress_call (leftover a1) len ps2 in (written a2, status_ok a2) else (0, false).
Theorem extract_pair_bound : forall have skip len ps1 ps2,
  fst (extract_pair have skip len ps1 ps2) <= len /\
  (snd (extract_pair have skip len ps1 ps2) = true -> fst (extract_pair have skip len ps1 ps2) = len).
Proof.
  intros. unfold extract_pair. destruct (status_ok (decompress_call have skip ps1)); cbn [fst snd].
  - split; [apply written_le_requested|apply ok_implies_exact].
  - split; [lia|discriminate].
Qed.

Example account_nonvacuous :
  decompress_call 10 100000 [Some 32768; Some 32768; Some 32768; Some 32768] = {| written := 100000; leftover := 31082; status_ok := true |} /\
  status_ok (decompress_call 0 70000 [Some 32768; None]) = false.
Proof. vm_compute. auto. Qed.
