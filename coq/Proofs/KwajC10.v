(* C10 for the KWAJ front end (L2/Kwaj.v), for EVERY host: a call that returns MSPACK_ERR_OK saw no host failure (open/alloc NULL, read
   error, write count different from the bytes offered, seek failure), and last_error() = the returned status.  Proved on the program
   trees with the two predicates of Proofs/Rep.v; the abstract LZH / MSZIP decoders are assumed to report failures themselves. *)
From stdpp Require Import gmap.
From Coq Require Import NArith ZArith List Bool.
From MSP Require Import Gen.Consts L2.Sys L2.Szdd L2.Kwaj Proofs.Mon Proofs.Rep.
Local Open Scope N_scope.

Definition okN (e : N) : bool := e =? 0.
Definition ok1 {A} (r : N * A) : bool := fst r =? 0.

(* small trees: expand, split on every answer and test, close each leaf *)
Ltac leaf := cbn [rep okN ok1 fst snd orb negb isfail]; intros;
  try reflexivity; try discriminate; try congruence;
  try (match goal with H : ?x = true |- _ => cbn in H; try discriminate; try congruence end).
Ltac walk := repeat (cbn [rep bind call1 isfail orb negb fst snd]; intros;
  match goal with
  | |- context [match ?x with _ => _ end] => destruct x eqn:?
  end); leaf.

Lemma rep_read_part fh n : rep ok1 false (read_part fh n).
Proof.
  unfold read_part. apply rep_call. intros [|buf]; cbn [isfail orb]; [leaf|].
  destruct (_ <? _)%nat; [leaf|]. destruct (_ =? _)%nat; [leaf|].
  apply rep_call. intros ok. destruct ok; cbn [isfail negb orb]; leaf.
Qed.

(* lzss_decompress reports (window allocation, reads, writes) *)
Section Lz.
Variables (junk : byte) (inh outh : handle) (bufsize : Z) (window : ptr).
Lemma rep_stop e f : (f = true -> e <> 0) -> rep okN f (stop window e).
Proof. intro H. unfold stop. apply rep_call. intros []. cbn [isfail orb rep okN]. rewrite orb_false_r. intro E. apply N.eqb_neq. apply H. exact E. Qed.
Lemma rep_getbyte s k : (forall s' b, rep okN false (k s' b)) -> rep okN false (getbyte inh bufsize window s k).
Proof.
  intro Hk. unfold getbyte. destruct (ibuf s) as [|b rest]; [|apply Hk].
  apply rep_call. intros [|[|b rest]]; cbn [isfail orb].
  - apply rep_stop. intros _. vm_compute. discriminate.
  - apply rep_stop. intro; discriminate.
  - apply Hk.
Qed.
Lemma rep_putbyte s b k : (forall s', rep okN false (k s')) -> rep okN false (putbyte outh window s b k).
Proof.
  intro Hk. unfold putbyte. apply rep_call. intros w. cbn [isfail length orb]. change (Z.of_nat 1) with 1%Z.
  destruct (Z.eqb w 1); cbn [negb]; [apply Hk|]. apply rep_stop. intros _. vm_compute. discriminate.
Qed.
Lemma rep_copy n : forall s mpos k, (forall s', rep okN false (k s')) -> rep okN false (copy junk outh window n s mpos k).
Proof. induction n as [|n IH]; intros s mpos k Hk; cbn [copy]; [apply Hk|]. apply rep_putbyte. intros s'. apply IH. exact Hk. Qed.
Lemma rep_items n : forall c bit s k, (forall s', rep okN false (k s')) -> rep okN false (items junk inh outh bufsize window n c bit s k).
Proof.
  induction n as [|n IH]; intros c bit s k Hk; cbn [items]; [apply Hk|].
  destruct (N.testbit c bit).
  - apply rep_getbyte. intros s1 b. apply rep_putbyte. intros s2. apply IH. exact Hk.
  - apply rep_getbyte. intros s1 m1. apply rep_getbyte. intros s2 m2. apply rep_copy. intros s3. apply IH. exact Hk.
Qed.
Lemma rep_loop fuel : forall inv s, rep okN false (loop junk inh outh bufsize window fuel inv s).
Proof.
  induction fuel as [|f IH]; intros inv s; cbn [loop]; [apply rep_stop; intro; discriminate|].
  apply rep_getbyte. intros s1 c. apply rep_items. intros s2. apply IH.
Qed.
End Lz.
Lemma rep_lzss junk fuel inh outh bufsize mode : rep okN false (lzss_decompress junk fuel inh outh bufsize mode).
Proof.
  unfold lzss_decompress. apply rep_call. intros [w|]; cbn [isfail orb]; [apply rep_loop|leaf].
Qed.

(* ---------- kwajd_read_headers ---------- *)
Lemma rep_read_headers h0 : rep ok1 false (read_headers h0).
Proof.
  unfold read_headers. apply rep_call. intros [|buf]; cbn [isfail orb]; [leaf|].
  destruct (negb _); [leaf|]. destruct (negb _); [leaf|].
  set (flags := le16 buf 12). set (fh := kfh h0).
  (* length *)
  eapply (rep_bind (fun _ => True) ok1); [apply always_true| | |].
  { destruct (has flags MSKWAJ_HDR_HASLENGTH); [|leaf]. apply rep_call. intros [|b]; cbn [isfail orb]; [leaf|]. destruct (_ =? _)%nat; leaf. }
  2:{ intros [e1 h2] _ E. unfold ok1 in E. cbn [fst] in E. cbn beta iota. rewrite E. cbn [negb]. leaf. exact E. }
  intros [e1 h2] _ E. unfold ok1 in E. cbn [fst] in E. cbn beta iota. rewrite E. cbn [negb].
  (* unknown1 *)
  eapply (rep_bind (fun _ => True) okN); [apply always_true| | |].
  { destruct (has flags MSKWAJ_HDR_HASUNKNOWN1); [|leaf]. apply rep_call. intros [|b]; cbn [isfail orb]; [leaf|]. destruct (_ =? _)%nat; leaf. }
  2:{ intros e2 _ E2. unfold okN in E2. cbn beta. rewrite E2. cbn [negb]. leaf. exact E2. }
  intros e2 _ E2. unfold okN in E2. cbn beta. rewrite E2. cbn [negb].
  (* unknown2 *)
  eapply (rep_bind (fun _ => True) okN); [apply always_true| | |].
  { destruct (has flags MSKWAJ_HDR_HASUNKNOWN2); [|leaf]. apply rep_call. intros [|b]; cbn [isfail orb]; [leaf|]. destruct (_ =? _)%nat; [|leaf].
    apply rep_call. intros ok. destruct ok; cbn [isfail negb orb]; leaf. }
  2:{ intros e3 _ E3. unfold okN in E3. cbn beta. rewrite E3. cbn [negb]. leaf. exact E3. }
  intros e3 _ E3. unfold okN in E3. cbn beta. rewrite E3. cbn [negb].
  (* names *)
  eapply (rep_bind (fun _ => True) ok1); [apply always_true| | |].
  { destruct (_ || _); [|leaf]. apply rep_call. intros [p|]; cbn [isfail orb]; [|leaf].
    eapply (rep_bind (fun _ => True) ok1); [apply always_true| | |].
    { destruct (has flags MSKWAJ_HDR_HASFILENAME); [apply rep_read_part|leaf]. }
    2:{ intros n1 _ E1. unfold ok1 in E1. cbn beta. rewrite E1. cbn [negb]. leaf. exact E1. }
    intros n1 _ E1. unfold ok1 in E1. cbn beta. rewrite E1. cbn [negb].
    eapply (rep_bind (fun _ => True) ok1); [apply always_true| | |].
    { destruct (has flags MSKWAJ_HDR_HASFILEEXT); [apply rep_read_part|leaf]. }
    2:{ intros n2 _ E2'. unfold ok1 in E2'. cbn beta. rewrite E2'. cbn [negb]. leaf. exact E2'. }
    intros n2 _ E2'. unfold ok1 in E2'. cbn beta. rewrite E2'. cbn [negb]. leaf. }
  2:{ intros [e4 h4] _ E4. unfold ok1 in E4. cbn [fst] in E4. cbn beta iota. rewrite E4. cbn [negb]. leaf. exact E4. }
  intros [e4 h4] _ E4. unfold ok1 in E4. cbn [fst] in E4. cbn beta iota. rewrite E4. cbn [negb].
  (* extra text *)
  destruct (has flags MSKWAJ_HDR_HASEXTRATEXT); [|leaf].
  apply rep_call. intros [|b2]; cbn [isfail orb]; [leaf|]. destruct (negb _); [leaf|].
  apply rep_call. intros [q|]; cbn [isfail orb]; [|leaf].
  apply rep_call. intros [|ex]; cbn [isfail orb]; [leaf|]. destruct (_ =? _)%nat; leaf.
Qed.

(* whatever a program does after the point where the result can no longer be ok *)
Lemma rep_never {A B} (okf : A -> bool) (p : prog B) (q : B -> prog A) : (forall b, rep okf true (q b)) -> rep okf true (bind p q).
Proof. intro H. induction p as [b|c k IH]; cbn [bind rep]; [apply H|]. intro a. cbn [orb]. apply IH. Qed.
Lemma rep_close_then {A} (okf : A -> bool) s h (q : kself -> prog A) f : (forall s', rep okf f (q s')) -> rep okf f (bind (kwaj_close s h) q).
Proof.
  intro H. unfold kwaj_close. cbn [bind call1 rep isfail]. intros. rewrite !orb_false_r. apply H.
Qed.

Definition ok_open (r : option khdr * kself) : bool := match fst r with Some _ => true | None => false end.
Definition psi_open (r : option khdr * kself) : Prop := fst r = None -> kserr (snd r) <> 0.

Lemma rep_kwaj_open s nm : rep ok_open false (kwaj_open s nm).
Proof.
  unfold kwaj_open. apply rep_call. intros [f|]; cbn [isfail orb]; [|leaf].
  apply rep_call. intros [p|]; cbn [isfail orb].
  - eapply (rep_bind (fun _ => True) ok1); [apply always_true|apply rep_read_headers| |].
    + intros [e h] _ E. unfold ok1 in E. cbn [fst] in E. cbn beta iota. rewrite E. cbn [negb]. leaf.
    + intros [e h] _ E. unfold ok1 in E. cbn [fst] in E. cbn beta iota. rewrite E. cbn [negb]. apply rep_never. intros s'. leaf.
  - cbn [bind call1 rep isfail]. intros. leaf.
Qed.
Lemma always_kwaj_open s nm : always psi_open (kwaj_open s nm).
Proof.
  unfold kwaj_open. apply always_call. intros [f|]; [|cbn [always]; unfold psi_open; cbn; intros _; discriminate].
  apply always_call. intros [p|].
  - eapply (always_bind (fun _ => True)); [apply always_true|]. intros [e h] _. cbn beta iota.
    destruct (negb (e =? 0)) eqn:E.
    + eapply (always_bind (fun _ => True)); [apply always_true|]. intros s' _. cbn [always]. unfold psi_open. cbn [fst snd kserr]. intros _.
      apply negb_true_iff, N.eqb_neq in E. exact E.
    + cbn [always]. unfold psi_open. cbn [fst]. discriminate.
  - cbn [bind call1 always]. intros. unfold psi_open. cbn. intros _. discriminate.
Qed.

Section Ext.
Variables (junk : byte) (fuel : nat) (lzh mszip : handle -> handle -> prog N).
Hypothesis lzh_reports : forall fh oh, rep okN false (lzh fh oh).
Hypothesis mszip_reports : forall fh oh, rep okN false (mszip fh oh).

Lemma len_xor (x : bool) (l : list N) : length (if x then map (fun c => N.lxor c 255) l else l) = length l.
Proof. destruct x; [apply map_length|reflexivity]. Qed.
Lemma rep_copy_loop n : forall fh oh x, rep okN false (copy_loop n fh oh x).
Proof.
  induction n as [|n IH]; intros fh oh x; cbn [copy_loop]; [leaf|].
  apply rep_call. intros [|[|b l]]; cbn [isfail orb]; [leaf|leaf|].
  apply rep_call. intros w. cbn [isfail orb]. rewrite len_xor.
  destruct (Z.eqb w _); cbn [negb]; [apply IH|leaf].
Qed.

Lemma rep_kwaj_extract s h out : rep ok1 false (kwaj_extract junk fuel lzh mszip s h out).
Proof.
  unfold kwaj_extract. apply rep_call. intros ok. destruct ok; cbn [isfail negb orb]; [|leaf].
  apply rep_call. intros [oh|]; cbn [isfail orb]; [|leaf].
  eapply (rep_bind (fun _ => True) okN); [apply always_true| | |].
  - destruct (_ || _).
    + apply rep_call. intros [bp|]; cbn [isfail orb]; [|leaf].
      eapply (rep_bind (fun _ => True) okN); [apply always_true|apply rep_copy_loop| |].
      * intros e _ E. cbn [bind call1 rep isfail orb]. intros. unfold okN in *. congruence.
      * intros e _ E. cbn [bind call1 rep isfail orb]. intros. exact E.
    + destruct (_ =? _); [apply rep_lzss|]. destruct (_ =? _); [apply lzh_reports|]. destruct (_ =? _); [apply mszip_reports|leaf].
  - intros e _ E. cbn [bind call1 rep isfail orb]. intros. discriminate.
  - intros e _ E. cbn [bind call1 rep isfail orb]. intros. unfold ok1. cbn [fst]. exact E.
Qed.
Lemma always_kwaj_extract s h out : always (fun r => kserr (snd r) = fst r) (kwaj_extract junk fuel lzh mszip s h out).
Proof.
  unfold kwaj_extract. apply always_call. intros ok. destruct (negb ok); [reflexivity|].
  apply always_call. intros [oh|]; [|reflexivity].
  eapply (always_bind (fun _ => True)); [apply always_true|]. intros e _. cbn [bind call1 always]. intros. reflexivity.
Qed.

Lemma rep_kwaj_decompress s i o : rep ok1 false (kwaj_decompress junk fuel lzh mszip s i o).
Proof.
  unfold kwaj_decompress.
  eapply (rep_bind psi_open ok_open); [apply always_kwaj_open|apply rep_kwaj_open| |].
  - intros [h s1] _ E. unfold ok_open in E. cbn [fst] in E. destruct h as [hd|]; [|discriminate]. cbn beta iota.
    eapply (rep_bind (fun _ => True) ok1); [apply always_true|apply rep_kwaj_extract| |].
    + intros [e s2] _ E2. cbn beta iota. apply rep_close_then. intros s3. leaf.
    + intros [e s2] _ E2. cbn beta iota. apply rep_never. intros s3. cbn [rep]. intros _. exact E2.
  - intros [h s1] Hpsi E. unfold ok_open in E. cbn [fst] in E. destruct h as [hd|]; [discriminate|]. cbn beta iota.
    cbn [rep]. intros _. unfold ok1. cbn [fst]. apply N.eqb_neq. apply Hpsi. reflexivity.
Qed.
Lemma always_kwaj_decompress s i o : always (fun r => kserr (snd r) = fst r) (kwaj_decompress junk fuel lzh mszip s i o).
Proof.
  unfold kwaj_decompress. eapply (always_bind (fun _ => True)); [apply always_true|]. intros [h s1] _. cbn beta iota.
  destruct h as [hd|]; [|reflexivity].
  eapply (always_bind (fun _ => True)); [apply always_true|]. intros [e s2] _. cbn beta iota.
  eapply (always_bind (fun _ => True)); [apply always_true|]. intros s3 _. reflexivity.
Qed.

Definition okA (r : N * N) : bool := fst r =? 0.
Lemma rep_kscript_decompress : rep okA false (kscript_decompress junk fuel lzh mszip).
Proof.
  unfold kscript_decompress, kwaj_new, kwaj_destroy. cbn [bind call1 rep]. intros [p|]; cbn [isfail orb]; [|leaf].
  eapply (rep_bind (fun _ => True) ok1); [apply always_true|apply rep_kwaj_decompress| |].
  - intros [e s'] _ E. cbn beta iota. cbn [bind call1 rep isfail orb]. intros. discriminate.
  - intros [e s'] _ E. cbn beta iota. cbn [bind call1 rep isfail orb]. intros. exact E.
Qed.
Lemma always_kscript_decompress : always (fun r => snd r = fst r) (kscript_decompress junk fuel lzh mszip).
Proof.
  unfold kscript_decompress, kwaj_new, kwaj_destroy. cbn [bind call1 always]. intros [p|]; [|reflexivity].
  eapply (always_bind (fun r => kserr (snd r) = fst r)); [apply always_kwaj_decompress|]. intros [e s'] H. cbn beta iota. cbn [bind call1 always]. intros. exact H.
Qed.

(* create; decompress(in, out); destroy on the KWAJ front end, for EVERY host: last_error() equals the returned status, and a returned
   MSPACK_ERR_OK means that no callback failed during the whole script *)
Theorem kwaj_decompress_reports_failures : forall (o : oracle),
  let '((e, le), m) := run o mon0 (kscript_decompress junk fuel lzh mszip) in
  le = e /\ (e = MSPACK_ERR_OK -> hfail m = false).
Proof.
  intro o. pose proof (always_run _ _ o mon0 always_kscript_decompress) as H1.
  pose proof (rep_run okA _ false o mon0 rep_kscript_decompress) as H2.
  destruct (run o mon0 (kscript_decompress junk fuel lzh mszip)) as [[e le] m]. cbn [fst snd] in *.
  split; [exact H1|]. intro E. destruct (hfail m) eqn:Hh; [|reflexivity].
  assert (okA (e, le) = false) by (apply H2; [cbn; discriminate|reflexivity]). unfold okA in H. cbn [fst] in H. rewrite E in H. discriminate.
Qed.
End Ext.

(* a file at least as long as the fixed header whose signature bytes are wrong is refused with MSPACK_ERR_SIGNATURE *)
Theorem kwaj_bad_signature_refused : forall (o : oracle) m h0 buf,
  o (nxt m) (CRead (kfh h0) (Z.of_N kwajh_SIZEOF)) = RBytes buf -> length buf = N.to_nat kwajh_SIZEOF ->
  (le32 buf 0 =? 1245796171) && (le32 buf 4 =? 3509055624) = false ->
  fst (fst (run o m (read_headers h0))) = MSPACK_ERR_SIGNATURE.
Proof.
  intros o m h0 buf Ho Hl Hs. unfold read_headers, call1. cbn [bind run mk_answer]. rewrite Ho.
  rewrite firstn_all2 by (rewrite Hl; vm_compute; lia).
  rewrite Hl, Nat.eqb_refl. cbn [negb]. rewrite Hs. cbn [negb run fst]. reflexivity.
Qed.
