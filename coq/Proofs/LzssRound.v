From Coq Require Import List NArith ZArith Lia Bool.
Import ListNotations.
From MSP Require Import Model.LzssBase Model.Lzss Model.LzssEnc.
Local Open Scope N_scope.


(* ---------- bit facts ---------- *)
Lemma testbit_ctrl : forall l j, N.testbit (ctrl l) (N.of_nat j) = nth j l false.
Proof.
  induction l as [|b r IH]; intros j; cbn [ctrl nth].
  - rewrite N.bits_0. destruct j; reflexivity.
  - destruct j as [|j].
    + cbn [N.of_nat]. apply N.testbit_0_r.
    + rewrite Nat2N.inj_succ, N.testbit_succ_r. apply IH.
Qed.

(* finite sweep: the two match bytes decode to what was encoded *)
Definition match_ok (mpos len : N) : bool :=
  let m1 := N.land mpos 255 in let m2 := N.lor (N.shiftl (N.shiftr mpos 8) 4) (len - 3) in
  (N.lor m1 (N.shiftl (N.land m2 240) 4) =? mpos) && (N.land m2 15 + 3 =? len).
Definition nseq (n : nat) : list N := map N.of_nat (seq 0 n).
Lemma match_sweep : forallb (fun mpos => forallb (fun d => match_ok mpos (3 + d)) (nseq 16)) (nseq 4096) = true.
Proof. vm_compute. reflexivity. Qed.
Lemma in_nseq n x : x < N.of_nat n -> In x (nseq n).
Proof.
  intro H. unfold nseq. apply in_map_iff. exists (N.to_nat x). split; [apply N2Nat.id|].
  apply in_seq. lia.
Qed.
Lemma match_bytes mpos len : mpos < 4096 -> 3 <= len -> len <= 18 ->
  let m1 := N.land mpos 255 in let m2 := N.lor (N.shiftl (N.shiftr mpos 8) 4) (len - 3) in
  N.lor m1 (N.shiftl (N.land m2 240) 4) = mpos /\ N.land m2 15 + 3 = len.
Proof.
  intros H1 H2 H3. pose proof match_sweep as S. rewrite forallb_forall in S.
  specialize (S mpos (in_nseq 4096 mpos H1)). rewrite forallb_forall in S.
  specialize (S (len - 3) (in_nseq 16 (len - 3) ltac:(lia))).
  replace (3 + (len - 3)) with len in S by lia. unfold match_ok in S.
  apply andb_true_iff in S as [A B]. apply N.eqb_eq in A, B. auto.
Qed.

(* ---------- one group ---------- *)
Lemma s_items_tokens : forall g k' c bit rest s,
  forallb wf_tok g = true ->
  (forall j, (j < length g)%nat -> N.testbit c (bit + N.of_nat j) = is_lit (nth j g (Lit 0))) ->
  s_items (length g + k') c bit (flat_map body1 g ++ rest) s =
  s_items k' c (bit + N.of_nat (length g)) rest (expand s g).
Proof.
  induction g as [|t g IH]; intros k' c bit rest s Hwf Hbits.
  - cbn. rewrite N.add_0_r. reflexivity.
  - cbn [forallb] in Hwf. apply andb_true_iff in Hwf as [Ht Hg].
    assert (Hb0 := Hbits 0%nat ltac:(cbn; lia)). cbn [nth N.of_nat] in Hb0. rewrite N.add_0_r in Hb0.
    assert (Hrest : forall j, (j < length g)%nat -> N.testbit c (bit + 1 + N.of_nat j) = is_lit (nth j g (Lit 0))).
    { intros j Hj. specialize (Hbits (S j) ltac:(cbn; lia)). cbn [nth] in Hbits.
      rewrite Nat2N.inj_succ in Hbits. rewrite <- Hbits. f_equal. lia. }
    cbn [length Nat.add s_items flat_map]. rewrite Hb0.
    destruct t as [b|mpos len]; cbn [is_lit body1 app].
    + rewrite (IH k' c (bit + 1) rest (s_put s b) Hg Hrest). cbn [expand fold_left expand1].
      f_equal. rewrite Nat2N.inj_succ. lia.
    + cbn [wf_tok] in Ht. apply andb_true_iff in Ht as [Ht H3]. apply andb_true_iff in Ht as [H1 H2].
      apply N.ltb_lt in H1. apply N.leb_le in H2, H3.
      destruct (match_bytes mpos len H1 H2 H3) as [E1 E2]. cbn zeta in E1, E2. rewrite E1, E2.
      rewrite (IH k' c (bit + 1) rest (s_copy (N.to_nat len) s mpos) Hg Hrest). cbn [expand fold_left expand1].
      f_equal. rewrite Nat2N.inj_succ. lia.
Qed.

Lemma ctrl_bits g j : N.testbit (ctrl (map is_lit g)) (0 + N.of_nat j) = nth j (map is_lit g) false.
Proof. rewrite N.add_0_l. apply testbit_ctrl. Qed.

Lemma lxor_inv c inv : N.lxor (N.lxor c inv) inv = c.
Proof. rewrite N.lxor_assoc, N.lxor_nilpotent, N.lxor_0_r. reflexivity. Qed.

(* a full group of 8, or a final shorter group *)
Lemma group_step : forall g inv rest s, forallb wf_tok g = true -> (length g <= 8)%nat ->
  s_items 8 (N.lxor (N.lxor (ctrl (map is_lit g)) inv) inv) 0 (flat_map body1 g ++ rest) s =
  if (length g =? 8)%nat then (rest, expand s g, false)
  else s_items (8 - length g) (ctrl (map is_lit g)) (N.of_nat (length g)) rest (expand s g).
Proof.
  intros g inv rest s Hwf Hlen. rewrite lxor_inv.
  replace 8%nat with (length g + (8 - length g))%nat at 1 by lia.
  rewrite s_items_tokens; [|exact Hwf|].
  - rewrite N.add_0_l. destruct (Nat.eqb_spec (length g) 8) as [E|E].
    + rewrite E. cbn. reflexivity.
    + reflexivity.
  - intros j Hj. rewrite ctrl_bits. rewrite (nth_indep _ false (is_lit (Lit 0))) by (rewrite map_length; exact Hj).
    apply map_nth.
Qed.

(* the bit after a short final group is 0, and the input is exhausted: the decoder stops *)
Lemma short_group_stops : forall g s k, (length g < 8)%nat -> (0 < k)%nat ->
  s_items k (ctrl (map is_lit g)) (N.of_nat (length g)) [] s = ([], s, true).
Proof.
  intros g s k Hlen Hk. destruct k as [|k]; [lia|]. cbn [s_items].
  rewrite testbit_ctrl. rewrite nth_overflow by (rewrite map_length; lia). reflexivity.
Qed.

(* ---------- the whole stream ---------- *)
Lemma flat_map_groups_length : forall fuel ts, (length ts <= fuel)%nat ->
  (length (flat_map (enc_group 0) (groups fuel ts)) >= 0)%nat.
Proof. intros. lia. Qed.

Lemma groups_nil fuel : groups fuel [] = [].
Proof. destruct fuel; reflexivity. Qed.
Lemma groups_cons fuel ts : ts <> [] -> groups (S fuel) ts = firstn 8 ts :: groups fuel (skipn 8 ts).
Proof. destruct ts; [congruence|reflexivity]. Qed.
Lemma s_loop_nil lf inv s : s_loop lf inv [] s = s.
Proof. destruct lf; reflexivity. Qed.

Lemma s_loop_groups : forall n fuel inv ts s,
  forallb wf_tok ts = true -> (length ts <= n)%nat -> (length ts <= fuel)%nat ->
  forall lf, (length (flat_map (enc_group inv) (groups fuel ts)) < lf)%nat ->
  s_loop lf inv (flat_map (enc_group inv) (groups fuel ts)) s = expand s ts.
Proof.
  induction n as [|n IH]; intros fuel inv ts s Hwf Hn Hf lf Hlf.
  - destruct ts; [|cbn in Hn; lia]. rewrite groups_nil. cbn [flat_map]. apply s_loop_nil.
  - destruct (list_eq_dec N.eq_dec (map (fun _ => 0) ts) []) as [Enil|Enn].
    { destruct ts; [|discriminate]. rewrite groups_nil. cbn [flat_map]. apply s_loop_nil. }
    assert (Hne : ts <> []) by (intro E; subst; apply Enn; reflexivity).
    destruct fuel as [|fuel]; [destruct ts; [congruence|cbn in Hf; lia]|].
    rewrite (groups_cons fuel ts Hne) in *.
    set (g := firstn 8 ts) in *. set (rest := skipn 8 ts) in *.
    cbn [flat_map] in *. unfold enc_group at 1. unfold enc_group in Hlf at 1. cbn [app length] in *.
    destruct lf as [|lf]; [lia|]. cbn [s_loop].
    assert (Hg : forallb wf_tok g = true).
    { unfold g. rewrite <- (firstn_skipn 8 ts) in Hwf. rewrite forallb_app in Hwf. apply andb_true_iff in Hwf. apply Hwf. }
    assert (Hr : forallb wf_tok rest = true).
    { unfold rest. rewrite <- (firstn_skipn 8 ts) in Hwf. rewrite forallb_app in Hwf. apply andb_true_iff in Hwf. apply Hwf. }
    assert (Hg8 : (length g <= 8)%nat) by (unfold g; rewrite firstn_length; lia).
    rewrite (group_step g inv _ s Hg Hg8).
    assert (Hsplit : expand s ts = expand (expand s g) rest).
    { unfold expand. rewrite <- fold_left_app. unfold g, rest. rewrite firstn_skipn. reflexivity. }
    rewrite app_length in Hlf.
    destruct (Nat.eqb_spec (length g) 8) as [E8|E8].
    + rewrite Hsplit. apply (IH fuel inv rest (expand s g) Hr).
      * unfold rest. rewrite skipn_length. unfold g in E8. rewrite firstn_length in E8. lia.
      * unfold rest. rewrite skipn_length. lia.
      * lia.
    + assert (Hrest : rest = []).
      { unfold rest. apply skipn_all2. unfold g in E8, Hg8. rewrite firstn_length in E8. lia. }
      rewrite Hrest, groups_nil. cbn [flat_map].
      rewrite short_group_stops by lia. rewrite Hsplit, Hrest. reflexivity.
Qed.

Theorem lzss_roundtrip : forall mode ts, forallb wf_tok ts = true ->
  lzss_spec mode (lzss_enc mode ts) =
  rev (sout (expand {| swin := Emp; spos := start_pos mode; sout := [] |} ts)).
Proof.
  intros mode ts Hwf. unfold lzss_spec, lzss_enc. f_equal. f_equal.
  apply (s_loop_groups (length ts)); auto.
Qed.
