(* Memory safety of the LZX port (Model/Lzx.v): the model carries ghost bounds checks that fail with status OOB wherever lzxd.c
   would store or copy outside its window (literal store, both match copy loops, raw copy of an uncompressed block) or outside
   the E8 buffer.  Here: no run ever returns OOB. *)
From Coq Require Import List NArith ZArith Lia Bool.
Import ListNotations.
From MSP Require Import Base.Src Model.Mszip Model.Lzx Proofs.NoWrite.
From RecordUpdate Require Import RecordSet.
Import RecordSetNotations.
Local Open Scope N_scope.

Section Safe.
Variable Hh : N -> Prop.      (* which output-length hints (lzx->length as seen by the decoder) are considered *)
Definition sres_ok {A} (Q : A -> lst -> Prop) (r : N + A * lst) : Prop := match r with inl e => e <> OOB | inr (a, s') => Q a s' end.
Definition hs {A} (Q : A -> lst -> Prop) (m : lm A) (s : lst) : Prop := leaves Hh (sres_ok Q) (m s).
Lemma hs_bnd {A B} (Q1 : A -> lst -> Prop) (Q2 : B -> lst -> Prop) (m : lm A) (f : A -> lm B) s :
  hs Q1 m s -> (forall a s', Q1 a s' -> hs Q2 (f a) s') -> hs Q2 (bnd m f) s.
Proof. intros Hm Hf. unfold hs, bnd. eapply leaves_sbind; [exact Hm|]. intros [e|[a s']] H; [constructor; exact H|apply Hf; exact H]. Qed.
Lemma hs_get_bnd {B} (Q : B -> lst -> Prop) (f : lst -> lm B) s : hs Q (f s) s -> hs Q (bnd get f) s.
Proof. intro H. exact H. Qed.
Lemma hs_modify_bnd {B} (Q : B -> lst -> Prop) g (k : unit -> lm B) s : hs Q (k tt) (g s) -> hs Q (bnd (modify g) k) s.
Proof. intro H. exact H. Qed.
Lemma hs_put_bnd {B} (Q : B -> lst -> Prop) x (k : unit -> lm B) s : hs Q (k tt) x -> hs Q (bnd (put x) k) s.
Proof. intro H. exact H. Qed.
Lemma hs_ret {A} (Q : A -> lst -> Prop) a s : Q a s -> hs Q (ret a) s. Proof. intro H. constructor. exact H. Qed.
Lemma hs_fail {A} (Q : A -> lst -> Prop) e s : e <> OOB -> hs Q (@fail A e) s. Proof. intro H. constructor. exact H. Qed.
Lemma hs_modify (Q : unit -> lst -> Prop) f s : Q tt (f s) -> hs Q (modify f) s. Proof. intro H. constructor. exact H. Qed.
Lemma hs_put (Q : unit -> lst -> Prop) x s : Q tt x -> hs Q (put x) s. Proof. intro H. constructor. exact H. Qed.
Lemma hs_weaken {A} (Q Q' : A -> lst -> Prop) m s : hs Q m s -> (forall a s', Q a s' -> Q' a s') -> hs Q' m s.
Proof. intros H HQ. eapply leaves_weaken; [exact H|]. intros [e|[a s']] Hr; [exact Hr|apply HQ; exact Hr]. Qed.
Lemma hs_do {A} (Q : A -> lst -> Prop) c (k : sanswer c -> lm A) s : (forall r, hs Q (k r) s) -> hs Q (fun s0 => SDo c (fun r => k r s0)) s.
Proof. intro H. destruct c; constructor; intros; apply H. Qed.

(* ---- what the reading half of the decoder leaves alone ---- *)
Definition same (s s' : lst) : Prop :=
  wposn s' = wposn s /\ fposn s' = fposn s /\ wsize s' = wsize s /\ offset s' = offset s /\ brem s' = brem s /\ btype s' = btype s /\
  refsize s' = refsize s /\ frame s' = frame s /\ is_delta s' = is_delta s /\ reset_interval s' = reset_interval s /\ err s' = err s /\
  optr s' = optr s /\ oend s' = oend s.
Lemma same_refl s : same s s. Proof. repeat split. Qed.
Lemma same_trans s1 s2 s3 : same s1 s2 -> same s2 s3 -> same s1 s3.
Proof. unfold same. intros H1 H2. repeat match goal with H : _ /\ _ |- _ => destruct H end. repeat split; congruence. Qed.
(* Kp g m s : from s (which agrees with g) m ends in states that agree with g, and never goes out of bounds *)
Definition Kp {A} (g : lst) (m : lm A) (s : lst) : Prop := hs (fun _ s' => same g s') m s.
Definition K {A} (m : lm A) : Prop := forall g s, same g s -> Kp g m s.
Lemma Kp_bnd {A B} g (m : lm A) (f : A -> lm B) s : Kp g m s -> (forall a s', same g s' -> Kp g (f a) s') -> Kp g (bnd m f) s.
Proof. intros Hm Hf. eapply hs_bnd; [exact Hm|]. intros a s' H. apply Hf. exact H. Qed.
Lemma Kp_get_bnd {B} g (f : lst -> lm B) s : Kp g (f s) s -> Kp g (bnd get f) s.
Proof. intro H. exact H. Qed.
Lemma K_Kp {A} (m : lm A) g s : K m -> same g s -> Kp g m s. Proof. intros H Hs. apply H. exact Hs. Qed.
Lemma K_hs {A} (m : lm A) s : K m -> hs (fun _ s' => same s s') m s. Proof. intro H. apply H. apply same_refl. Qed.

Lemma same_upd g s s' : same g s -> wposn s' = wposn s -> fposn s' = fposn s -> wsize s' = wsize s -> offset s' = offset s -> brem s' = brem s ->
  btype s' = btype s -> refsize s' = refsize s -> frame s' = frame s -> is_delta s' = is_delta s -> reset_interval s' = reset_interval s -> err s' = err s -> optr s' = optr s -> oend s' = oend s -> same g s'.
Proof. unfold same. intros H. intros. repeat match goal with H : _ /\ _ |- _ => destruct H end. repeat split; congruence. Qed.
Ltac upd := match goal with H : same ?g ?s |- same ?g _ => apply (same_upd g s _ H); reflexivity end.

Create HintDb kdb.
Ltac kk := repeat (match goal with
  | |- K _ => let g := fresh "g" in let s := fresh "s" in let Hs := fresh "Hs" in intros g s Hs
  | |- Kp _ (bnd get _) _ => apply Kp_get_bnd
  | |- Kp _ (bnd _ _) _ => apply Kp_bnd; [|let a := fresh "a" in let s := fresh "s" in let Hs := fresh "Hs" in intros a s Hs]
  | |- Kp _ (if ?b then _ else _) _ => destruct b
  | |- Kp _ (let '(_, _) := ?x in _) _ => destruct x
  | |- Kp _ (match ?x with _ => _ end) _ => destruct x
  | |- Kp _ (ret _) _ => apply hs_ret; assumption
  | |- Kp _ (fail _) _ => apply hs_fail; discriminate
  | |- Kp _ get _ => apply hs_ret; assumption
  | |- Kp _ (modify _) _ => apply hs_modify; upd
  | |- Kp _ (put _) _ => apply hs_put; upd
  | |- Kp _ _ _ => solve [apply K_Kp; [auto with kdb|assumption]]
  end).

Lemma K_next : K next_byte. Proof. intros g s Hs. apply (hs_do _ SNext (fun b => ret b)). intro b. apply hs_ret. exact Hs. Qed.
Lemma K_avail : K avail. Proof. intros g s Hs. apply (hs_do _ SAvail (fun b => ret tt)). intro b. apply hs_ret. exact Hs. Qed.
Lemma K_get_hint : K get_hint. Proof. intros g s Hs. apply (hs_do _ SHint (fun b => ret b)). intro b. apply hs_ret. exact Hs. Qed.
Lemma K_copy_in n : K (copy_in n). Proof. intros g s Hs. apply (hs_do _ (SCopyIn (N.to_nat n)) (fun b => ret b)). intro b. apply hs_ret. exact Hs. Qed.
Lemma K_write d : K (write d). Proof. intros g s Hs. apply (hs_do _ (SWrite d) (fun b => ret tt)). intro b. apply hs_ret. exact Hs. Qed.
#[local] Hint Resolve K_next K_avail K_get_hint K_copy_in K_write : kdb.
Lemma K_read_word : K read_word. Proof. unfold read_word. kk. Qed.
#[local] Hint Resolve K_read_word : kdb.
Lemma K_ensure f : forall n, K (ensure f n). Proof. induction f as [|f IH]; intro n; cbn [ensure]; kk. Qed.
#[local] Hint Resolve K_ensure : kdb.
Lemma K_peek n : K (peek n). Proof. unfold peek. kk. Qed.
Lemma K_remove n : K (remove n). Proof. unfold remove. kk. Qed.
#[local] Hint Resolve K_peek K_remove : kdb.
Lemma K_read_bits n : K (read_bits n). Proof. unfold read_bits. kk. Qed.
#[local] Hint Resolve K_read_bits : kdb.
Lemma K_traverse f : forall t ms sym mask, K (traverse f t ms sym mask). Proof. induction f as [|f IH]; intros; cbn [traverse]; kk. Qed.
#[local] Hint Resolve K_traverse : kdb.
Lemma K_read_huffsym t l tb ms : K (read_huffsym t l tb ms). Proof. unfold read_huffsym. kk. Qed.
#[local] Hint Resolve K_read_huffsym : kdb.
Lemma K_pre_lens n : forall x, K (pre_lens n x). Proof. induction n as [|n IH]; intro x; cbn [pre_lens]; kk. Qed.
#[local] Hint Resolve K_pre_lens : kdb.
Lemma K_lens_loop f : forall w x last, K (lens_loop f w x last). Proof. induction f as [|f IH]; intros w x last; destruct w; cbn [lens_loop]; kk. Qed.
#[local] Hint Resolve K_lens_loop : kdb.
Lemma K_read_lens w a b : K (read_lens w a b). Proof. unfold read_lens. kk. Qed.
#[local] Hint Resolve K_read_lens : kdb.
Lemma K_ali_lens n : forall i, K (ali_lens n i). Proof. induction n as [|n IH]; intro i; cbn [ali_lens]; kk. Qed.
Lemma K_raw_bytes n : forall acc, K (raw_bytes n acc). Proof. induction n as [|n IH]; intro acc; cbn [raw_bytes]; kk. Qed.
#[local] Hint Resolve K_ali_lens K_raw_bytes : kdb.
Lemma K_verbatim_header : K verbatim_header. Proof. unfold verbatim_header. kk. Qed.
#[local] Hint Resolve K_verbatim_header : kdb.
Lemma K_delta_extra_len : K delta_extra_len. Proof. unfold delta_extra_len. kk. Qed.
#[local] Hint Resolve K_delta_extra_len : kdb.

(* ---- the block header also sets block_type / block_remaining; it leaves the window geometry alone ---- *)
Definition sameB (s s' : lst) : Prop :=
  wposn s' = wposn s /\ fposn s' = fposn s /\ wsize s' = wsize s /\ offset s' = offset s /\
  refsize s' = refsize s /\ frame s' = frame s /\ is_delta s' = is_delta s /\ reset_interval s' = reset_interval s /\ err s' = err s /\
  optr s' = optr s /\ oend s' = oend s.
Lemma same_sameB s s' : same s s' -> sameB s s'.
Proof. unfold same, sameB. intro H. repeat match goal with H : _ /\ _ |- _ => destruct H end. repeat split; assumption. Qed.
Lemma sameB_refl s : sameB s s. Proof. repeat split. Qed.
Lemma sameB_trans s1 s2 s3 : sameB s1 s2 -> sameB s2 s3 -> sameB s1 s3.
Proof. unfold sameB. intros H1 H2. repeat match goal with H : _ /\ _ |- _ => destruct H end. repeat split; congruence. Qed.
Definition KpB {A} (g : lst) (m : lm A) (s : lst) : Prop := hs (fun _ s' => sameB g s') m s.
Definition KB {A} (m : lm A) : Prop := forall g s, sameB g s -> KpB g m s.
Lemma KpB_bnd {A B} g (m : lm A) (f : A -> lm B) s : KpB g m s -> (forall a s', sameB g s' -> KpB g (f a) s') -> KpB g (bnd m f) s.
Proof. intros Hm Hf. eapply hs_bnd; [exact Hm|]. intros a s' H. apply Hf. exact H. Qed.
Lemma KpB_get_bnd {B} g (f : lst -> lm B) s : KpB g (f s) s -> KpB g (bnd get f) s.
Proof. intro H. exact H. Qed.
Lemma K_KB {A} (m : lm A) : K m -> KB m.
Proof. intros H g s Hs. eapply hs_weaken; [apply (H s s (same_refl s))|]. intros a s' H1. cbv beta in H1. apply (sameB_trans _ _ _ Hs). apply same_sameB. exact H1. Qed.
Lemma KB_KpB {A} (m : lm A) g s : KB m -> sameB g s -> KpB g m s. Proof. intros H Hs. apply H. exact Hs. Qed.
Lemma sameB_upd g s s' : sameB g s -> wposn s' = wposn s -> fposn s' = fposn s -> wsize s' = wsize s -> offset s' = offset s ->
  refsize s' = refsize s -> frame s' = frame s -> is_delta s' = is_delta s -> reset_interval s' = reset_interval s -> err s' = err s -> optr s' = optr s -> oend s' = oend s -> sameB g s'.
Proof. unfold sameB. intros H. intros. repeat match goal with H : _ /\ _ |- _ => destruct H end. repeat split; congruence. Qed.
Ltac updB := match goal with H : sameB ?g ?s |- sameB ?g _ => apply (sameB_upd g s _ H); reflexivity end.
Create HintDb kbdb.
Ltac kkB := repeat (match goal with
  | |- KB _ => let g := fresh "g" in let s := fresh "s" in let Hs := fresh "Hs" in intros g s Hs
  | |- KpB _ (bnd get _) _ => apply KpB_get_bnd
  | |- KpB _ (bnd _ _) _ => apply KpB_bnd; [|let a := fresh "a" in let s := fresh "s" in let Hs := fresh "Hs" in intros a s Hs]
  | |- KpB _ (if ?b then _ else _) _ => destruct b
  | |- KpB _ (let '(_, _) := ?x in _) _ => destruct x
  | |- KpB _ (match ?x with _ => _ end) _ => destruct x
  | |- KpB _ (ret _) _ => apply hs_ret; assumption
  | |- KpB _ (fail _) _ => apply hs_fail; discriminate
  | |- KpB _ (modify _) _ => apply hs_modify; updB
  | |- KpB _ (put _) _ => apply hs_put; updB
  | |- KpB _ _ _ => solve [apply KB_KpB; [first [solve [auto with kbdb] | apply K_KB; auto with kdb]|assumption]]
  end).
Lemma KB_block_header : KB block_header. Proof. unfold block_header. kkB. Qed.
#[local] Hint Resolve KB_block_header : kbdb.

(* ---- one symbol ---- *)
Ltac rd := match goal with H : same ?g ?s |- hs _ (bnd _ _) ?s =>
  eapply hs_bnd; [apply (K_Kp _ g s); [solve [kk]|exact H]|let a := fresh "a" in let s' := fresh "s" in let H' := fresh "Hs" in intros a s' H'; cbv beta in H'] end.
Ltac gt := apply hs_get_bnd.
Ltac unsame := repeat match goal with H : same _ _ |- _ => unfold same in H; decompose [and] H; clear H end.
Ltac bools := repeat match goal with
  | H : (_ <? _) = false |- _ => apply N.ltb_ge in H
  | H : (_ <? _) = true |- _ => apply N.ltb_lt in H
  | H : (_ <=? _) = false |- _ => apply N.leb_gt in H
  | H : (_ <=? _) = true |- _ => apply N.leb_le in H end.

Definition sameW (s s' : lst) : Prop :=
  fposn s' = fposn s /\ wsize s' = wsize s /\ offset s' = offset s /\ brem s' = brem s /\ btype s' = btype s /\
  refsize s' = refsize s /\ frame s' = frame s /\ is_delta s' = is_delta s /\ reset_interval s' = reset_interval s /\ err s' = err s /\
  optr s' = optr s /\ oend s' = oend s.

Lemma decode_symbol_safe s : wposn s < wsize s ->
  hs (fun n s' => wposn s' = wposn s + n /\ wposn s' <= wsize s' /\ sameW s s') decode_symbol s.
Proof.
  intro Hw. unfold decode_symbol. assert (H0 : same s s) by apply same_refl. gt. rd.
  destruct (a <? NUM_CHARS).
  - gt. destruct (wsize s0 <=? wposn s0) eqn:E.
    + exfalso. bools. unsame. lia.
    + apply hs_modify_bnd. apply hs_ret. bools. unsame. unfold sameW. cbn. repeat split; first [assumption|lia|congruence].
  - cbv zeta. rd. rd. gt. rd. gt.
    destruct (wsize s3 <? wposn s3 + a2) eqn:E1; [apply hs_fail; discriminate|].
    destruct (wposn s3 <? a1) eqn:E2.
    + destruct ((offset s3 <? a1) && (refsize s3 <? a1 - wposn s3)); [apply hs_fail; discriminate|].
      destruct (wsize s3 <? a1 - wposn s3) eqn:E3; [apply hs_fail; discriminate|].
      match goal with |- hs _ (if negb ?b then _ else _) _ => assert (Hb : b = true) end.
      { bools. unfold inb. destruct (a1 - wposn s3 <? a2) eqn:E4; bools; rewrite ?andb_true_iff, ?N.leb_le; lia. }
      rewrite Hb. cbn [negb]. apply hs_put_bnd. apply hs_ret. bools. unsame. unfold sameW. cbn. repeat split; first [assumption|lia|congruence].
    + match goal with |- hs _ (if negb ?b then _ else _) _ => assert (Hb : b = true) end.
      { bools. unfold inb. rewrite ?andb_true_iff, ?N.leb_le. lia. }
      rewrite Hb. cbn [negb]. apply hs_put_bnd. apply hs_ret. bools. unsame. unfold sameW. cbn. repeat split; first [assumption|lia|congruence].
Qed.

Lemma sameW_trans s1 s2 s3 : sameW s1 s2 -> sameW s2 s3 -> sameW s1 s3.
Proof. unfold sameW. intros H1 H2. repeat match goal with H : _ /\ _ |- _ => destruct H end. repeat split; congruence. Qed.
Lemma sameW_refl s : sameW s s. Proof. repeat split. Qed.

(* ---- the symbol loop: window_posn + this_run is constant, so a literal is only ever stored below the bound ---- *)
Lemma sym_loop_safe : forall f tr s, wposn s <= wsize s -> (Z.of_N (wposn s) + tr <= Z.of_N (wsize s))%Z ->
  hs (fun tr' s' => (tr' <= 0)%Z /\ (Z.of_N (wposn s') + tr' = Z.of_N (wposn s) + tr)%Z /\ wposn s' <= wsize s' /\ sameW s s') (sym_loop f tr) s.
Proof.
  induction f as [|f IH]; intros tr s Hw Hb; cbn [sym_loop]; [apply hs_fail; discriminate|].
  destruct (tr <=? 0)%Z eqn:E.
  - apply hs_ret. apply Z.leb_le in E. repeat split; try assumption; lia.
  - apply Z.leb_gt in E. eapply hs_bnd; [apply decode_symbol_safe; lia|]. intros n s1 (E1 & E2 & E3). cbv beta.
    eapply hs_weaken; [apply IH|].
    + exact E2.
    + destruct E3 as (_ & E3 & _). rewrite E3. lia.
    + intros tr' s' (A & B & C & D). cbv beta. split; [exact A|]. split; [lia|]. split; [exact C|]. exact (sameW_trans _ _ _ E3 D).
Qed.

Definition sameF (s s' : lst) : Prop :=
  fposn s' = fposn s /\ wsize s' = wsize s /\ offset s' = offset s /\ refsize s' = refsize s /\ frame s' = frame s /\
  is_delta s' = is_delta s /\ reset_interval s' = reset_interval s /\ err s' = err s /\ optr s' = optr s /\ oend s' = oend s.
Ltac unsameB := repeat match goal with H : sameB _ _ |- _ => unfold sameB in H; decompose [and] H; clear H end.
Ltac unsameW := repeat match goal with H : sameW _ _ |- _ => unfold sameW in H; decompose [and] H; clear H end.
Ltac unsameF := repeat match goal with H : sameF _ _ |- _ => unfold sameF in H; decompose [and] H; clear H end.

(* ---- the block loop of one frame: while bytes remain to be decoded, window_posn + bytes_todo <= window_size; a match that overruns
        its run is only accepted when the block has that many bytes left, and then the frame is complete ---- *)
Lemma todo_loop_safe : forall f todo s, wposn s <= wsize s -> ((0 < todo)%Z -> (Z.of_N (wposn s) + todo <= Z.of_N (wsize s))%Z) ->
  hs (fun _ s' => wposn s' <= wsize s' /\ sameF s s') (todo_loop f todo) s.
Proof.
  induction f as [|f IH]; intros todo s Hw Hb; cbn [todo_loop]; [apply hs_fail; discriminate|].
  destruct (todo <=? 0)%Z eqn:E; [apply hs_ret; split; [exact Hw|repeat split]|]. apply Z.leb_gt in E. specialize (Hb E).
  gt. eapply hs_bnd.
  { apply (KB_KpB _ s s); [|apply sameB_refl]. kkB. }
  intros u0 s1 Hs1. cbv beta in Hs1. gt. cbv zeta.
  set (this_run := Z.min (Z.of_N (brem s1)) todo).
  assert (Hr0 : (0 <= this_run)%Z) by (unfold this_run; lia). assert (Hr1 : (this_run <= todo)%Z) by (unfold this_run; lia).
  apply hs_modify_bnd. set (s1' := s1 <| brem := Z.to_N (Z.of_N (brem s1) - this_run) |>).
  assert (G1 : wposn s1' = wposn s1) by reflexivity. assert (G2 : wsize s1' = wsize s1) by reflexivity.
  assert (G3 : brem s1' = Z.to_N (Z.of_N (brem s1) - this_run)) by reflexivity.
  assert (G4 : sameF s1 s1') by (repeat split).
  eapply (hs_bnd (fun tr_ s2 => (tr_ <= 0)%Z /\ (Z.of_N (wposn s2) + tr_ = Z.of_N (wposn s1) + this_run)%Z /\ wposn s2 <= wsize s2 /\ sameW s1' s2)).
  { destruct ((btype s1 =? 1) || (btype s1 =? 2)).
    - eapply hs_weaken; [apply sym_loop_safe|].
      + unsameB. lia.
      + unsameB. lia.
      + intros tr' s2 (A & B & C & D). cbv beta. rewrite G1 in B. exact (conj A (conj B (conj C D))).
    - destruct (btype s1 =? 3); [|apply hs_fail; discriminate].
      gt. destruct (wsize s1' <? wposn s1' + Z.to_N this_run) eqn:E3; [exfalso; bools; unsameB; lia|].
      assert (Hq : same s1' s1') by apply same_refl. rd. apply hs_modify_bnd. apply hs_ret. bools. unsame. unsameB. unfold sameW. cbn.
      repeat split; first [assumption|lia|congruence]. }
  intros tr_ s2 (A & B & C & D). cbv beta.
  eapply (hs_bnd (fun _ s3 => wposn s3 = wposn s2 /\ wsize s3 = wsize s2 /\ sameF s2 s3 /\ ((tr_ < 0)%Z -> (- tr_ <= Z.of_N (brem s2))%Z))).
  { destruct (tr_ <? 0)%Z eqn:E4.
    - gt. destruct (Z.of_N (brem s2) <? - tr_)%Z eqn:E5; [apply hs_fail; discriminate|]. apply hs_modify. apply Z.ltb_ge in E5. repeat split; intros; lia.
    - apply hs_ret. apply Z.ltb_ge in E4. repeat split; intros; lia. }
  intros _ s3 (F1 & F2 & F3 & F4). cbv beta.
  eapply hs_weaken; [apply IH|].
  - lia.
  - intro Ht. unsameB. unsameW. unsameF.
    destruct (Z.ltb_spec tr_ 0) as [Hn|Hn].
    + specialize (F4 Hn). exfalso.
      assert (brem s2 = Z.to_N (Z.of_N (brem s1) - this_run)) by congruence. unfold this_run in *. lia.
    + assert (tr_ = 0)%Z by lia. subst tr_. lia.
  - intros _ s' (P1 & P2). cbv beta. split; [exact P1|]. unsameB. unsameW. unsameF. repeat split; congruence.
Qed.

(* ---- a whole frame, while the output length is not known to the decoder (lzx->length = 0: every frame is a full one) ---- *)
Lemma hs_hint_bnd {B} (Q : B -> lst -> Prop) (f : N -> lm B) s : (forall h, Hh h -> hs Q (f h) s) -> hs Q (bnd get_hint f) s.
Proof. intro H. unfold hs, bnd, get_hint. cbn [sbind]. constructor. exact H. Qed.
Lemma hs_write_bnd {B} (Q : B -> lst -> Prop) d (f : unit -> lm B) s : hs Q (f tt) s -> hs Q (bnd (write d) f) s.
Proof. intro H. unfold hs, bnd, write. cbn [sbind]. constructor. intros []. exact H. Qed.
Ltac rdB := match goal with H : sameB ?g ?s |- hs _ (bnd _ _) ?s =>
  eapply hs_bnd; [apply (KB_KpB _ g s); [solve [kkB]|exact H]|let a := fresh "a" in let s' := fresh "s" in let H' := fresh "Hs" in intros a s' H'; cbv beta in H'] end.

Section NoHint.
Hypothesis Hh0 : forall h, Hh h -> h = 0.
Definition FI (s : lst) : Prop := wposn s = fposn s /\ fposn s + 32768 <= wsize s /\ fposn s mod 32768 = 0 /\ wsize s mod 32768 = 0 /\ wsize s < 4294967296.

Ltac Zify.zify_post_hook ::= Z.div_mod_to_equations.
Lemma FI_step x ws fp : wsize x = ws -> wposn x = fp + 32768 -> fposn x = fp + 32768 -> fp + 32768 <= ws -> fp mod 32768 = 0 -> ws mod 32768 = 0 ->
  ws < 4294967296 ->
  FI (if fposn (if wposn x =? wsize x then x <| wposn := 0 |> else x) =? wsize (if wposn x =? wsize x then x <| wposn := 0 |> else x)
      then (if wposn x =? wsize x then x <| wposn := 0 |> else x) <| fposn := 0 |>
      else if wposn x =? wsize x then x <| wposn := 0 |> else x).
Proof.
  intros E1 E2 E3 L1 M1 M2 L2. unfold FI.
  destruct (N.eqb_spec (wposn x) (wsize x)) as [Ew|Ew].
  - replace (fposn (x <| wposn := 0 |>) =? wsize (x <| wposn := 0 |>)) with true.
    2:{ symmetry. apply N.eqb_eq. change (fposn x = wsize x). lia. }
    change (0 = 0 /\ 0 + 32768 <= wsize x /\ 0 mod 32768 = 0 /\ wsize x mod 32768 = 0 /\ wsize x < 4294967296). rewrite E1. repeat split; lia.
  - replace (fposn x =? wsize x) with false by (symmetry; apply N.eqb_neq; lia).
    rewrite E1, E2 in Ew. rewrite E1, E2, E3.
    assert (N32 : 32768 <> 0) by discriminate.
    destruct (proj1 (N.mod_divides fp 32768 N32) M1) as [c1 C1]. destruct (proj1 (N.mod_divides ws 32768 N32) M2) as [c2 C2].
    repeat split; try lia.
    replace (fp + 32768) with ((c1 + 1) * 32768) by lia. apply N.mod_mul. exact N32.
Qed.

Lemma frame_pre_safe0 s : FI s ->
  hs (fun fs x0 => fs = 32768 /\ wsize x0 = wsize s /\ wposn x0 = fposn s + 32768 /\ fposn x0 = fposn s /\ err x0 = err s) frame_pre s.
Proof.
  intro HI. unfold frame_pre. gt.
  assert (H0 : sameB s s) by apply sameB_refl.
  rdB. gt. rdB. gt. rdB.
  apply hs_hint_bnd. intros len0 Hl0. apply Hh0 in Hl0. subst len0. rdB.
  apply hs_hint_bnd. intros len1 Hl1. apply Hh0 in Hl1. subst len1. gt.
  change (negb (0 =? 0)) with false. cbn [andb]. cbv zeta.
  destruct HI as (I1 & I2 & I3 & I4 & I5).
  replace (s32 (u32 (Z.of_N (fposn s3) + Z.of_N FRAME_SIZE - Z.of_N (wposn s3)))) with 32768%Z.
  2:{ replace (Z.of_N (fposn s3) + Z.of_N FRAME_SIZE - Z.of_N (wposn s3))%Z with 32768%Z; [reflexivity|].
      change FRAME_SIZE with 32768. unsameB. lia. }
  eapply hs_bnd; [apply todo_loop_safe|].
  { unsameB. lia. }
  { intros _. unsameB. lia. }
  intros u s4 (W4 & F4). cbv beta. gt.
  destruct (u32 (Z.of_N (wposn s4) - Z.of_N (fposn s4)) =? FRAME_SIZE) eqn:E1; cbn [negb]; [|apply hs_fail; discriminate].
  assert (P4 : wposn s4 = fposn s + 32768).
  { apply N.eqb_eq in E1. unfold u32 in E1. change FRAME_SIZE with 32768 in E1. unsameB. unsameF.
    assert (Hd : ((Z.of_N (wposn s4) - Z.of_N (fposn s4)) mod 4294967296 = 32768)%Z) by lia. clear E1.
    assert (Z.of_N (wposn s4) - Z.of_N (fposn s4) = 32768 \/ Z.of_N (wposn s4) - Z.of_N (fposn s4) = 32768 - 4294967296)%Z.
    { set (d := (Z.of_N (wposn s4) - Z.of_N (fposn s4))%Z) in *. assert (-4294967296 < d < 4294967296)%Z by (unfold d; lia).
      clearbody d. pose proof (Z.div_mod d 4294967296 ltac:(lia)) as Q. pose proof (Z.mod_pos_bound d 4294967296 ltac:(lia)). nia. }
    lia. }
  assert (G4 : sameB s4 s4) by apply sameB_refl.
  rdB. gt. rdB. gt.
  destruct (optr s6 =? oend s6); cbn [negb]; [|apply hs_fail; discriminate].
  assert (C4 : ((FRAME_SIZE <? FRAME_SIZE) || (wsize s6 <? fposn s6 + FRAME_SIZE)) = false).
  { change FRAME_SIZE with 32768. apply orb_false_iff. split; [reflexivity|]. apply N.ltb_ge. unsameB. unsameF. lia. }
  rewrite C4.
  assert (Q : wsize s6 = wsize s /\ wposn s6 = fposn s + 32768 /\ fposn s6 = fposn s /\ err s6 = err s) by (unsameB; unsameF; repeat split; congruence).
  destruct Q as (Q1 & Q2 & Q3 & Q4).
  match goal with |- hs _ (bnd (if ?b then _ else _) _) _ => destruct b end; apply hs_put_bnd; apply hs_ret; (split; [reflexivity|]);
    (split; [transitivity (wsize s6); [reflexivity|exact Q1]|]); (split; [transitivity (wposn s6); [reflexivity|exact Q2]|]);
    (split; [transitivity (fposn s6); [reflexivity|exact Q3]|transitivity (err s6); [reflexivity|exact Q4]]).
Qed.

Lemma frame_loop_safe : forall f ef ob s, FI s -> hs (fun _ s' => FI s' /\ err s' = err s) (frame_loop f ef ob) s.
Proof.
  induction f as [|f IH]; intros ef ob s HI; cbn [frame_loop]; [apply hs_fail; discriminate|].
  gt. destruct (ef <=? frame s); [apply hs_ret; split; [exact HI|reflexivity]|].
  eapply hs_bnd; [apply frame_pre_safe0; exact HI|]. intros fs x0 (-> & Y1 & Y2 & Y3 & Y4). cbv beta.
  gt. apply hs_write_bnd. apply hs_modify_bnd. apply hs_modify_bnd.
  set (X := x0 <| optr := optr x0 + N.min ob 32768 |> <| offset := offset x0 + N.min ob 32768 |> <| fposn := fposn x0 + 32768 |> <| frame := frame x0 + 1 |>).
  destruct HI as (I1 & I2 & I3 & I4 & I5).
  eapply hs_weaken; [apply IH|].
  - assert (X1 : wsize X = wsize s) by (transitivity (wsize x0); [reflexivity|exact Y1]).
    assert (X2 : wposn X = fposn s + 32768) by (transitivity (wposn x0); [reflexivity|exact Y2]).
    assert (X3 : fposn X = fposn s + 32768) by (transitivity (fposn x0 + 32768); [reflexivity|rewrite Y3; reflexivity]).
    unfold wrap_posns. cbv zeta. exact (FI_step X (wsize s) (fposn s) X1 X2 X3 I2 I3 I4 I5).
  - intros r s' [P1 P2]. cbv beta. split; [exact P1|]. rewrite P2. transitivity (err x0); [|exact Y4].
    unfold wrap_posns. cbv zeta. destruct (wposn X =? wsize X); destruct (fposn _ =? wsize _); reflexivity.
Qed.

(* one call of lzxd_decompress *)
Lemma decompress_safe n s : FI s -> err s <> OOB -> hs (fun _ s' => FI s' /\ err s' = err s) (decompress n) s.
Proof.
  intros HI He. unfold decompress. gt.
  destruct (err s =? 0) eqn:E0; cbn [negb]; [|apply hs_fail; exact He].
  cbv zeta. assert (H0 : sameB s s) by apply sameB_refl.
  eapply (hs_bnd (fun _ s1 => FI s1 /\ err s1 = err s)).
  { destruct (0 <? N.min (oend s - optr s) n).
    - apply hs_write_bnd. apply hs_modify. split; [exact HI|reflexivity].
    - apply hs_ret. split; [exact HI|reflexivity]. }
  intros u s1 [I1 E1]. cbv beta.
  destruct (n - N.min (oend s - optr s) n =? 0); [apply hs_ret; split; assumption|].
  gt. eapply hs_bnd; [apply frame_loop_safe; exact I1|]. intros rest s2 [I2 E2]. cbv beta.
  destruct (rest =? 0); cbn [negb]; [apply hs_ret; split; [exact I2|congruence]|apply hs_fail; discriminate].
Qed.
End NoHint.

(* ---- the same for a known output length L (lzx->length = L from the start: CHM, OAB, LZX DELTA): the last frame is short ---- *)
Section KnownHint.
Variable L : N.
Hypothesis HhL : forall h, Hh h -> h = L.

Definition al (x : N) : Prop := exists c, x = 32768 * c.
Definition Dd (s : lst) : N := offset s + (oend s - optr s).        (* bytes decoded so far: written + still waiting in the window *)
Definition Geo (s : lst) : Prop := wposn s = fposn s /\ al (wsize s) /\ wsize s < 4294967296 /\ 32768 <= wsize s /\ optr s <= oend s.
Definition NormalM (s : lst) : Prop := al (fposn s) /\ fposn s + 32768 <= wsize s /\ Dd s = frame s * 32768 /\ (L <> 0 -> Dd s <= L).
Definition TailM (s : lst) : Prop := L <> 0 /\ Dd s = L /\ fposn s <= wsize s /\ L <= frame s * 32768.
Definition Core (s : lst) : Prop := Geo s /\ (NormalM s \/ TailM s).
Definition LIp (s : lst) (ob ef : N) : Prop :=
  Geo s /\ optr s = oend s /\ 1 <= ef /\ (ef - 1) * 32768 < offset s + ob /\ offset s + ob <= ef * 32768 /\ ef * 32768 < 140737488355328 /\ (NormalM s \/ TailM s).
Definition PREp (s : lst) (ob ef : N) : Prop := (ef <= frame s /\ Core s) \/ LIp s ob ef.
Definition fsz (off : N) : N := if negb (L =? 0) && (Z.of_N L - Z.of_N off <? 32768)%Z then u32 (Z.of_N L - Z.of_N off) else FRAME_SIZE.

Lemma fs_facts s ob ef : LIp s ob ef -> frame s < ef ->
  fsz (offset s) <= 32768 /\ fposn s + fsz (offset s) <= wsize s /\
  ((NormalM s /\ fsz (offset s) = 32768 /\ (L <> 0 -> offset s + 32768 <= L)) \/
   (NormalM s /\ L <> 0 /\ offset s <= L /\ fsz (offset s) = L - offset s /\ L - offset s < 32768) \/
   (TailM s /\ fsz (offset s) = 0)).
Proof.
  intros (G & Ho & E1 & E2 & E3 & E4 & M) Hf. unfold fsz. change FRAME_SIZE with 32768.
  assert (HD : Dd s = offset s) by (unfold Dd; lia).
  destruct M as [(A1 & A2 & A3 & A4)|(T1 & T2 & T3 & T4)].
  - rewrite HD in A3, A4. destruct (N.eqb_spec L 0) as [HL|HL]; cbn [negb andb].
    + split; [lia|]. split; [lia|]. left. split; [unfold NormalM; rewrite HD; auto|]. split; [reflexivity|]. intro; contradiction.
    + specialize (A4 HL). destruct (Z.ltb_spec (Z.of_N L - Z.of_N (offset s)) 32768) as [Hl|Hl].
      * assert (Hu : u32 (Z.of_N L - Z.of_N (offset s)) = L - offset s).
        { unfold u32. rewrite Z.mod_small by lia. lia. }
        rewrite Hu. split; [lia|]. split; [lia|]. right. left. split; [unfold NormalM; rewrite HD; auto|]. repeat split; try lia; exact HL.
      * split; [lia|]. split; [lia|]. left. split; [unfold NormalM; rewrite HD; auto|]. split; [reflexivity|]. intro. lia.
  - rewrite HD in T2. destruct (N.eqb_spec L 0) as [HL|HL]; [contradiction|]. cbn [negb andb].
    replace (Z.of_N L - Z.of_N (offset s))%Z with 0%Z by lia. cbn. split; [lia|]. split; [lia|]. right. right. split; [unfold TailM; rewrite HD; auto|reflexivity].
Qed.

Definition WRAP (x : lst) : lst :=
  if fposn (if wposn x =? wsize x then x <| wposn := 0 |> else x) =? wsize (if wposn x =? wsize x then x <| wposn := 0 |> else x)
  then (if wposn x =? wsize x then x <| wposn := 0 |> else x) <| fposn := 0 |>
  else if wposn x =? wsize x then x <| wposn := 0 |> else x.
Lemma wrap_fields x : wposn x = fposn x ->
  wsize (WRAP x) = wsize x /\ offset (WRAP x) = offset x /\ frame (WRAP x) = frame x /\ optr (WRAP x) = optr x /\ oend (WRAP x) = oend x /\
  err (WRAP x) = err x /\ wposn (WRAP x) = fposn (WRAP x) /\
  ((fposn x = wsize x /\ fposn (WRAP x) = 0) \/ (fposn x <> wsize x /\ fposn (WRAP x) = fposn x)).
Proof.
  intro E. unfold WRAP. destruct (N.eqb_spec (wposn x) (wsize x)) as [Ew|Ew].
  - replace (fposn (x <| wposn := 0 |>) =? wsize (x <| wposn := 0 |>)) with true.
    2:{ symmetry. apply N.eqb_eq. change (fposn x = wsize x). congruence. }
    repeat split; try reflexivity. left. split; [congruence|reflexivity].
  - replace (fposn x =? wsize x) with false by (symmetry; apply N.eqb_neq; congruence).
    repeat split; try reflexivity; try assumption. right. split; [congruence|reflexivity].
Qed.

Lemma PRE_step s ob ef x o0 : LIp s ob ef -> frame s < ef ->
  wsize x = wsize s -> wposn x = fposn s + fsz (offset s) -> fposn x = fposn s + fsz (offset s) ->
  offset x = offset s + N.min ob (fsz (offset s)) -> frame x = frame s + 1 ->
  optr x = o0 + N.min ob (fsz (offset s)) -> oend x = o0 + fsz (offset s) ->
  PREp (WRAP x) (ob - N.min ob (fsz (offset s))) ef /\ Dd (WRAP x) <= N.max (Dd s) (ef * 32768).
Proof.
  intros HL Hf X1 X2 X3 X4 X5 X6 X7.
  destruct (fs_facts _ _ _ HL Hf) as (F1 & F2 & F3).
  destruct (wrap_fields x ltac:(congruence)) as (W1 & W2 & W3 & W4 & W5 & W6 & W7 & W8).
  destruct HL as (G & Ho & E1 & E2 & E3 & E4 & M). destruct G as (G1 & (cw & G2) & G3 & G4 & G5).
  assert (HD : Dd s = offset s) by (unfold Dd; lia).
  set (fs := fsz (offset s)) in *. set (i := N.min ob fs) in *.
  assert (Hi : i <= fs) by (unfold i; lia). assert (Hi2 : i <= ob) by (unfold i; lia).
  assert (DY : Dd (WRAP x) = offset s + fs) by (unfold Dd; rewrite W2, W4, W5, X4, X6, X7; lia).
  assert (GY : Geo (WRAP x)).
  { unfold Geo. rewrite W1, W4, W5, X1, X6, X7. split; [exact W7|]. split; [exists cw; exact G2|]. repeat split; lia. }
  assert (FY : fposn (WRAP x) <= wsize s /\ (fposn (WRAP x) = 0 \/ fposn (WRAP x) = fposn s + fs)).
  { destruct W8 as [[A B]|[A B]]; rewrite B; split; lia. }
  unfold PREp, LIp, Core.
  destruct F3 as [(N0 & Hfs & HLb)|[(N0 & HLn & Hle & Hfs & Hlt)|(T0 & Hfs)]].
  - (* a full frame *)
    destruct N0 as ((cf & A1) & A2 & A3 & A4). rewrite HD in A3, A4.
    assert (NY : NormalM (WRAP x)).
    { unfold NormalM. rewrite DY, W3, X5, W1, X1. destruct W8 as [[A B]|[A B]]; rewrite B.
      - split; [exists 0; reflexivity|]. split; [lia|]. split; [lia|]. intro HLz. specialize (HLb HLz). lia.
      - rewrite X3. split; [exists (cf + 1); lia|]. split; [rewrite X3, X1 in A; lia|]. split; [lia|]. intro HLz. specialize (HLb HLz). lia. }
    split; [|rewrite DY; lia].
    destruct (N.eq_dec i fs) as [Ei|Ei].
    + right. rewrite W4, W5, X6, X7, W2, X4. split; [exact GY|]. split; [lia|]. repeat split; try lia. left. exact NY.
    + left. rewrite W3, X5. split; [lia|]. split; [exact GY|]. left. exact NY.
  - (* the short last frame *)
    destruct N0 as ((cf & A1) & A2 & A3 & A4). rewrite HD in A3, A4.
    assert (TY : TailM (WRAP x)).
    { unfold TailM. rewrite DY, W3, X5. split; [exact HLn|]. split; [lia|]. split; [rewrite W1, X1; exact (proj1 FY)|lia]. }
    split; [|rewrite DY; lia].
    destruct (N.eq_dec i fs) as [Ei|Ei].
    + right. rewrite W4, W5, X6, X7, W2, X4. split; [exact GY|]. split; [lia|]. repeat split; try lia. right. exact TY.
    + left. rewrite W3, X5. split; [lia|]. split; [exact GY|]. right. exact TY.
  - (* past the end *)
    destruct T0 as (T1 & T2 & T3 & T4). rewrite HD in T2.
    assert (TY : TailM (WRAP x)).
    { unfold TailM. rewrite DY, W3, X5. split; [exact T1|]. split; [lia|]. split; [rewrite W1, X1; exact (proj1 FY)|lia]. }
    split; [|rewrite DY; lia].
    right. rewrite W4, W5, X6, X7, W2, X4. split; [exact GY|]. split; [lia|]. repeat split; try lia. right. exact TY.
Qed.

Lemma s32_u32_small x : x <= 32768 -> s32 (u32 (Z.of_N x)) = Z.of_N x.
Proof.
  intro H. unfold u32. rewrite Z.mod_small by lia. rewrite N2Z.id. unfold s32. change (M32 - 1) with (N.ones 32). rewrite N.land_ones.
  rewrite N.mod_small by (change (2 ^ 32) with 4294967296; lia).
  destruct (Z.ltb_spec (Z.of_N x) 2147483648); lia.
Qed.
Lemma u32_diff a b fs : a < 4294967296 -> b + fs < 4294967296 -> fs <= 32768 -> u32 (Z.of_N a - Z.of_N b) = fs -> a = b + fs.
Proof.
  intros Ha Hb Hf E. unfold u32 in E.
  assert (Hd : ((Z.of_N a - Z.of_N b) mod 4294967296 = Z.of_N fs)%Z).
  { pose proof (Z.mod_pos_bound (Z.of_N a - Z.of_N b) 4294967296 ltac:(lia)). lia. }
  clear E. set (d := (Z.of_N a - Z.of_N b)%Z) in *. assert (-4294967296 < d < 4294967296)%Z by (unfold d; lia).
  pose proof (Z.div_mod d 4294967296 ltac:(lia)) as Q. assert (d = Z.of_N fs \/ d = Z.of_N fs - 4294967296)%Z by nia. unfold d in *. lia.
Qed.

Lemma frame_pre_safeL s ob ef : LIp s ob ef -> frame s < ef ->
  hs (fun fs x0 => fs = fsz (offset s) /\ wsize x0 = wsize s /\ wposn x0 = fposn s + fs /\ fposn x0 = fposn s /\ offset x0 = offset s /\
                   frame x0 = frame s /\ err x0 = err s /\ exists o0, optr x0 = o0 /\ oend x0 = o0 + fs) frame_pre s.
Proof.
  intros HL Ef. unfold frame_pre. gt.
  destruct (fs_facts _ _ _ HL Ef) as (F1 & F2 & _).
  pose proof HL as (G & Ho & _). destruct G as (G1 & G2 & G3 & G4 & G5).
  assert (H0 : sameB s s) by apply sameB_refl.
  rdB. gt. rdB. gt. rdB.
  apply hs_hint_bnd. intros len0 Hl0. apply HhL in Hl0. subst len0. rdB.
  apply hs_hint_bnd. intros len1 Hl1. apply HhL in Hl1. subst len1. gt.
  cbv zeta.
  change (if negb (L =? 0) && (Z.of_N L - Z.of_N (offset s3) <? 32768)%Z then u32 (Z.of_N L - Z.of_N (offset s3)) else FRAME_SIZE) with (fsz (offset s3)).
  assert (Eo : offset s3 = offset s) by (unsameB; congruence). rewrite Eo. set (fs := fsz (offset s)) in *.
  replace (s32 (u32 (Z.of_N (fposn s3) + Z.of_N fs - Z.of_N (wposn s3)))) with (Z.of_N fs).
  2:{ replace (Z.of_N (fposn s3) + Z.of_N fs - Z.of_N (wposn s3))%Z with (Z.of_N fs) by (unsameB; lia). symmetry. apply s32_u32_small. exact F1. }
  eapply hs_bnd; [apply todo_loop_safe|].
  { unsameB. lia. }
  { intros _. unsameB. lia. }
  intros u s4 (W4 & F4). cbv beta. gt.
  destruct (u32 (Z.of_N (wposn s4) - Z.of_N (fposn s4)) =? fs) eqn:E1; cbn [negb]; [|apply hs_fail; discriminate].
  assert (P4 : wposn s4 = fposn s + fs).
  { apply N.eqb_eq in E1. unsameB. unsameF. replace (fposn s) with (fposn s4) by congruence. apply u32_diff; try assumption; lia. }
  assert (G4' : sameB s4 s4) by apply sameB_refl.
  rdB. gt. rdB. gt.
  destruct (optr s6 =? oend s6); cbn [negb]; [|apply hs_fail; discriminate].
  assert (C4 : ((FRAME_SIZE <? fs) || (wsize s6 <? fposn s6 + fs)) = false).
  { change FRAME_SIZE with 32768. apply orb_false_iff. split; apply N.ltb_ge; [exact F1|]. unsameB. unsameF. lia. }
  rewrite C4.
  assert (Q : wsize s6 = wsize s /\ wposn s6 = fposn s + fs /\ fposn s6 = fposn s /\ offset s6 = offset s /\ frame s6 = frame s /\ err s6 = err s)
    by (unsameB; unsameF; repeat split; congruence).
  destruct Q as (Q1 & Q2 & Q3 & Q4 & Q5 & Q6).
  match goal with |- hs _ (bnd (if ?b then _ else _) _) _ => destruct b end; apply hs_put_bnd; apply hs_ret; (split; [reflexivity|]);
    (split; [transitivity (wsize s6); [reflexivity|exact Q1]|]); (split; [transitivity (wposn s6); [reflexivity|exact Q2]|]);
    (split; [transitivity (fposn s6); [reflexivity|exact Q3]|]); (split; [transitivity (offset s6); [reflexivity|exact Q4]|]);
    (split; [transitivity (frame s6); [reflexivity|exact Q5]|]); (split; [transitivity (err s6); [reflexivity|exact Q6]|]).
  - exists 0. split; reflexivity.
  - exists (fposn s6). split; reflexivity.
Qed.

Lemma frame_loop_safeL : forall f ef ob s, PREp s ob ef ->
  hs (fun _ s' => Core s' /\ err s' = err s /\ Dd s' <= N.max (Dd s) (ef * 32768)) (frame_loop f ef ob) s.
Proof.
  induction f as [|f IH]; intros ef ob s HP; cbn [frame_loop]; [apply hs_fail; discriminate|].
  gt. destruct (ef <=? frame s) eqn:Ef.
  { apply hs_ret. split; [|split; [reflexivity|lia]]. destruct HP as [[_ C]|(G & _ & _ & _ & _ & _ & M)]; [exact C|exact (conj G M)]. }
  apply N.leb_gt in Ef. destruct HP as [[C _]|HL]; [lia|].
  eapply hs_bnd; [apply (frame_pre_safeL s ob ef HL Ef)|]. intros fs x0 (-> & Y1 & Y2 & Y3 & Y4 & Y5 & Y6 & o0 & Y7 & Y8). cbv beta.
  set (fs := fsz (offset s)) in *.
  gt. apply hs_write_bnd. apply hs_modify_bnd. apply hs_modify_bnd.
  set (X := x0 <| optr := optr x0 + N.min ob fs |> <| offset := offset x0 + N.min ob fs |> <| fposn := fposn x0 + fs |> <| frame := frame x0 + 1 |>).
  change (hs (fun _ s' => Core s' /\ err s' = err s /\ Dd s' <= N.max (Dd s) (ef * 32768)) (frame_loop f ef (ob - N.min ob fs)) (WRAP X)).
  assert (X1 : wsize X = wsize s) by (transitivity (wsize x0); [reflexivity|congruence]).
  assert (X2 : wposn X = fposn s + fs) by (transitivity (wposn x0); [reflexivity|congruence]).
  assert (X3 : fposn X = fposn s + fs) by (transitivity (fposn x0 + fs); [reflexivity|congruence]).
  assert (X4 : offset X = offset s + N.min ob fs) by (transitivity (offset x0 + N.min ob fs); [reflexivity|congruence]).
  assert (X5 : frame X = frame s + 1) by (transitivity (frame x0 + 1); [reflexivity|congruence]).
  assert (X8 : err X = err s) by (transitivity (err x0); [reflexivity|congruence]).
  assert (X6 : optr X = o0 + N.min ob fs) by (transitivity (optr x0 + N.min ob fs); [reflexivity|congruence]).
  assert (X7 : oend X = o0 + fs) by (transitivity (oend x0); [reflexivity|congruence]).
  clearbody X.
  destruct (PRE_step s ob ef X o0 HL Ef X1 X2 X3 X4 X5 X6 X7) as [PP DB].
  destruct (wrap_fields X ltac:(congruence)) as (_ & _ & _ & _ & _ & W6 & _).
  eapply hs_weaken; [apply IH; exact PP|]. intros r s' (C1 & C2 & C3). cbv beta. split; [exact C1|]. split; [congruence|lia].
Qed.

Lemma ef_facts T : 0 < T -> T < 70368744177664 ->
  let ef := N.land ((T + FRAME_SIZE - 1) / FRAME_SIZE) (M32 - 1) in 1 <= ef /\ (ef - 1) * 32768 < T /\ T <= ef * 32768 /\ ef * 32768 < 140737488355328.
Proof.
  intros H0 H1. change FRAME_SIZE with 32768. change (M32 - 1) with (N.ones 32). cbv zeta. rewrite N.land_ones.
  pose proof (N.div_mod (T + 32768 - 1) 32768 ltac:(discriminate)) as Q. pose proof (N.mod_lt (T + 32768 - 1) 32768 ltac:(discriminate)) as R.
  set (q := (T + 32768 - 1) / 32768) in *. set (r := (T + 32768 - 1) mod 32768) in *.
  assert (q < 2 ^ 32) by (change (2 ^ 32) with 4294967296; lia). rewrite N.mod_small by assumption. lia.
Qed.

Lemma decompress_safeL n s : Core s -> err s <> OOB -> Dd s + n < 70368744177664 ->
  hs (fun _ s' => Core s' /\ err s' = err s /\ Dd s' <= Dd s + n + 32768) (decompress n) s.
Proof.
  intros HC He Hb. unfold decompress. gt.
  destruct (err s =? 0) eqn:E0; cbn [negb]; [|apply hs_fail; exact He].
  cbv zeta. set (i := N.min (oend s - optr s) n).
  destruct HC as ((G1 & G2 & G3 & G4 & G5) & M).
  set (s1 := if 0 <? i then s <| optr := optr s + i |> <| offset := offset s + i |> else s).
  assert (S1 : wposn s1 = wposn s /\ fposn s1 = fposn s /\ wsize s1 = wsize s /\ frame s1 = frame s /\ err s1 = err s /\ optr s1 = optr s + i /\ offset s1 = offset s + i /\ oend s1 = oend s).
  { unfold s1. destruct (0 <? i) eqn:Hi; [repeat split|]. apply N.ltb_ge in Hi. repeat split; lia. }
  destruct S1 as (S1 & S2 & S3 & S4 & S5 & S6 & S7 & S8).
  assert (Hi : i <= oend s - optr s) by (unfold i; lia). assert (Hi2 : i <= n) by (unfold i; lia).
  assert (D1 : Dd s1 = Dd s) by (unfold Dd; rewrite S6, S7, S8; lia).
  assert (C1 : Core s1).
  { split; [unfold Geo; rewrite S1, S2, S3, S6, S8; repeat split; try assumption; lia|].
    destruct M as [(A1 & A2 & A3 & A4)|(T1 & T2 & T3 & T4)]; [left; unfold NormalM|right; unfold TailM]; rewrite D1, S2, S3, ?S4; repeat split; assumption. }
  eapply (hs_bnd (fun _ s' => s' = s1)).
  { unfold s1. destruct (0 <? i); [apply hs_write_bnd; apply hs_modify; reflexivity|apply hs_ret; reflexivity]. }
  intros u s1' ->. clearbody s1.
  destruct (n - i =? 0) eqn:Eo; [apply hs_ret; split; [exact C1|]; split; [exact S5|lia]|].
  apply N.eqb_neq in Eo. gt.
  assert (Hav : optr s1 = oend s1) by (unfold i in *; lia).
  assert (Do : Dd s1 = offset s1) by (unfold Dd; lia).
  destruct (ef_facts (offset s1 + (n - i)) ltac:(lia) ltac:(lia)) as (F1 & F2 & F3 & F4).
  set (ef := N.land ((offset s1 + (n - i) + FRAME_SIZE - 1) / FRAME_SIZE) (M32 - 1)) in *.
  eapply hs_bnd; [apply (frame_loop_safeL 70000 ef (n - i) s1)|].
  { right. destruct C1 as [GG MM]. unfold LIp. repeat split; try assumption; apply GG. }
  intros rest s2 (C2 & E2 & B2). cbv beta.
  destruct (rest =? 0); cbn [negb]; [|apply hs_fail; discriminate]. apply hs_ret. split; [exact C2|]. split; [congruence|lia].
Qed.
End KnownHint.
End Safe.

(* ---- the interpreter can only stop a decoder with its end-of-input status ---- *)
Lemma ideal_stop {A} rule hint (p : sprog A) : forall s e s', ideal rule hint p s = (SStop e, s') -> e = eof_status rule.
Proof.
  induction p as [a|c k IH]; intros s e s' H; cbn [ideal] in H; [discriminate|]. destruct c.
  - unfold ideal_next in H. destruct (irest s) as [|b r0]; [inversion H; reflexivity|]. exact (IH _ _ _ _ H).
  - destruct (irest s) as [|b r0]; [inversion H; reflexivity|]. exact (IH _ _ _ _ H).
  - destruct (ideal_take rule n s []) as [[l s1]|e1] eqn:T; [exact (IH _ _ _ _ H)|]. inversion H; subst. exact (take_stop _ _ _ _ _ T).
  - exact (IH _ _ _ _ H).
  - exact (IH _ _ _ _ H).
Qed.

Definition Hzero (h : N) : Prop := h = 0.
Definition Inv (s : lst) : Prop := FI s /\ err s <> OOB.
Theorem lzx_call_safe s i n st s' i' : Inv s -> lzx_call 0 s i n = (st, s', i') -> st <> OOB /\ Inv s'.
Proof.
  intros [HI He] H. unfold lzx_call in H.
  destruct (ideal EofPad2 0 (decompress n s) i) as [r i1] eqn:E.
  destruct r as [[e|[[] s1]]|e].
  - pose proof (leaves_run Hzero _ EofPad2 0 _ eq_refl (decompress_safe Hzero (fun h Hh => Hh) n s HI He) _ _ _ E) as L. cbn in L.
    inversion H; subst. split; [exact L|]. split; [exact HI|exact L].
  - pose proof (leaves_run Hzero _ EofPad2 0 _ eq_refl (decompress_safe Hzero (fun h Hh => Hh) n s HI He) _ _ _ E) as L. cbn in L.
    inversion H; subst. destruct L as [L1 L2]. split; [discriminate|]. split; [exact L1|congruence].
  - apply ideal_stop in E. subst e. inversion H; subst. split; [discriminate|]. split; [exact HI|discriminate].
Qed.

Lemma lzx_calls_safe : forall reqs s i acc sts i', Inv s -> Forall (fun st => st <> OOB) acc -> lzx_calls 0 reqs s i acc = (sts, i') -> Forall (fun st => st <> OOB) sts.
Proof.
  induction reqs as [|n reqs IH]; intros s i acc sts i' HI Ha H; cbn [lzx_calls] in H.
  - inversion H; subst. rewrite rev_append_rev, app_nil_r. apply Forall_rev. exact Ha.
  - destruct (lzx_call 0 s i n) as [[st s1] i1] eqn:E. destruct (lzx_call_safe _ _ _ _ _ _ HI E) as [N1 I1].
    apply (IH _ _ _ _ _ I1 (Forall_cons (P := fun st => st <> OOB) st N1 Ha) H).
Qed.

Lemma shiftl_mult wb : 15 <= wb -> N.shiftl 1 wb = 2 ^ (wb - 15) * 32768.
Proof. intro H. rewrite N.shiftl_1_l. replace wb with ((wb - 15) + 15) at 1 by lia. rewrite N.pow_add_r. reflexivity. Qed.
Lemma init_inv wb ri delta ref : 15 <= wb <= 25 -> Inv (lzx_init wb ri delta ref).
Proof.
  intro Hw. split; [|discriminate]. unfold FI.
  change (0 = 0 /\ 0 + 32768 <= N.shiftl 1 wb /\ 0 mod 32768 = 0 /\ N.shiftl 1 wb mod 32768 = 0 /\ N.shiftl 1 wb < 4294967296).
  rewrite shiftl_mult by lia. assert (1 <= 2 ^ (wb - 15)) by (apply N.lt_pred_le; cbn; apply N.neq_0_lt_0, N.pow_nonzero; discriminate).
  assert (2 ^ (wb - 15) <= 2 ^ 10) by (apply N.pow_le_mono_r; lia). change (2 ^ 10) with 1024 in *.
  repeat split; try lia. apply N.mod_mul. discriminate.
Qed.

(* every call of every sequence on every input, for every legal window size, while the output length is unknown to the decoder *)
Theorem lzx_run_safe wb ri delta ref inp reqs sts out : 15 <= wb <= 25 -> lzx_run wb ri 0 delta ref inp reqs = (sts, out) -> Forall (fun st => st <> OOB) sts.
Proof.
  intros Hw H. unfold lzx_run in H.
  destruct (lzx_calls 0 reqs (lzx_init wb ri delta ref) {| irest := inp ++ pad EofPad2; iout := [] |} []) as [sts0 i'] eqn:E.
  inversion H; subst. exact (lzx_calls_safe _ _ _ _ _ _ (init_inv _ _ _ _ Hw) (Forall_nil _) E).
Qed.

(* the block loop alone, for every hint, end-of-input rule and input: from any state whose frame fits the window *)
Theorem todo_loop_never_oob rule hint fuel todo s i r i' : wposn s <= wsize s -> ((0 < todo)%Z -> (Z.of_N (wposn s) + todo <= Z.of_N (wsize s))%Z) ->
  ideal rule hint (todo_loop fuel todo s) i = (SVal r, i') ->
  match r with inl e => e <> OOB | inr (_, s') => wposn s' <= wsize s' end.
Proof.
  intros Hw Hb E. pose proof (leaves_run (fun _ => True) _ rule hint _ I (todo_loop_safe (fun _ => True) fuel todo s Hw Hb) _ _ _ E) as L.
  destruct r as [e|[u s']]; cbn in L; [exact L|exact (proj1 L)].
Qed.
(* a state outside the invariant, for the non-vacuity example of the ghost checks *)
Definition bad_state : lst := lzx_init 17 0 true [] <| wposn := 131072 |> <| fposn := 131072 |>.

(* ---- a known output length ---- *)
Definition sumN (l : list N) : N := fold_right N.add 0 l.
Definition InvL (L : N) (s : lst) : Prop := Core L s /\ err s <> OOB.
Theorem lzx_call_safeL L s i n st s' i' : InvL L s -> Dd s + n < 70368744177664 -> lzx_call L s i n = (st, s', i') ->
  st <> OOB /\ InvL L s' /\ Dd s' <= Dd s + n + 32768.
Proof.
  intros [HC He] Hb H. unfold lzx_call in H.
  destruct (ideal EofPad2 L (decompress n s) i) as [r i1] eqn:E.
  pose proof (decompress_safeL (fun h => h = L) L (fun h Hh => Hh) n s HC He Hb) as SAFE.
  assert (DE : forall e, Dd (s <| err := e |>) = Dd s) by (intro; reflexivity).
  destruct r as [[e|[[] s1]]|e].
  - pose proof (leaves_run _ _ EofPad2 L _ eq_refl SAFE _ _ _ E) as LL. cbn in LL.
    inversion H; subst. split; [exact LL|]. split; [split; [exact HC|exact LL]|]. rewrite DE. lia.
  - pose proof (leaves_run _ _ EofPad2 L _ eq_refl SAFE _ _ _ E) as LL. cbn in LL.
    inversion H; subst. destruct LL as (L1 & L2 & L3). split; [discriminate|]. split; [split; [exact L1|congruence]|exact L3].
  - apply ideal_stop in E. subst e. inversion H; subst. split; [discriminate|]. split; [split; [exact HC|discriminate]|]. rewrite DE. lia.
Qed.

Lemma lzx_calls_safeL L : forall reqs s i acc sts i', InvL L s -> Forall (fun st => st <> OOB) acc ->
  Dd s + sumN reqs + 32768 * N.of_nat (length reqs) < 70368744177664 ->
  lzx_calls L reqs s i acc = (sts, i') -> Forall (fun st => st <> OOB) sts.
Proof.
  induction reqs as [|n reqs IH]; intros s i acc sts i' HI Ha Hb H; cbn [lzx_calls] in H.
  - inversion H; subst. rewrite rev_append_rev, app_nil_r. apply Forall_rev. exact Ha.
  - cbn [sumN fold_right length] in Hb. fold (sumN reqs) in Hb. rewrite Nat2N.inj_succ in Hb.
    destruct (lzx_call L s i n) as [[st s1] i1] eqn:E.
    assert (Hb1 : Dd s + n < 70368744177664) by lia.
    destruct (lzx_call_safeL _ _ _ _ _ _ _ HI Hb1 E) as (N1 & I1 & B1).
    assert (Hb2 : Dd s1 + sumN reqs + 32768 * N.of_nat (length reqs) < 70368744177664) by lia.
    apply (IH _ _ _ _ _ I1 (Forall_cons (P := fun st => st <> OOB) st N1 Ha) Hb2 H).
Qed.

Lemma init_invL L wb ri delta ref : 15 <= wb <= 25 -> InvL L (lzx_init wb ri delta ref) /\ Dd (lzx_init wb ri delta ref) = 0.
Proof.
  intro Hw. split; [|reflexivity]. split; [|discriminate]. unfold Core, Geo, NormalM, Dd.
  change (wposn (lzx_init wb ri delta ref)) with 0. change (fposn (lzx_init wb ri delta ref)) with 0. change (wsize (lzx_init wb ri delta ref)) with (N.shiftl 1 wb).
  change (optr (lzx_init wb ri delta ref)) with 0. change (oend (lzx_init wb ri delta ref)) with 0. change (offset (lzx_init wb ri delta ref)) with 0. change (frame (lzx_init wb ri delta ref)) with 0.
  rewrite shiftl_mult by lia. assert (1 <= 2 ^ (wb - 15)) by (apply N.lt_pred_le; cbn; apply N.neq_0_lt_0, N.pow_nonzero; discriminate).
  assert (2 ^ (wb - 15) <= 2 ^ 10) by (apply N.pow_le_mono_r; lia). change (2 ^ 10) with 1024 in *.
  split; [split; [reflexivity|]; split; [exists (2 ^ (wb - 15)); lia|]; repeat split; lia|].
  left. split; [exists 0; reflexivity|]. repeat split; try lia.
Qed.

(* every call of every sequence, every input, every legal window size, ANY output length known to the decoder from the start (0 = unknown) *)
Theorem lzx_run_safeL wb ri L delta ref inp reqs sts out : 15 <= wb <= 25 ->
  sumN reqs + 32768 * N.of_nat (length reqs) < 70368744177664 ->
  lzx_run wb ri L delta ref inp reqs = (sts, out) -> Forall (fun st => st <> OOB) sts.
Proof.
  intros Hw Hb H. unfold lzx_run in H.
  destruct (lzx_calls L reqs (lzx_init wb ri delta ref) {| irest := inp ++ pad EofPad2; iout := [] |} []) as [sts0 i'] eqn:E.
  inversion H; subst. destruct (init_invL L wb ri delta ref Hw) as [I0 D0].
  assert (Hb0 : Dd (lzx_init wb ri delta ref) + sumN reqs + 32768 * N.of_nat (length reqs) < 70368744177664) by (rewrite D0; lia).
  apply (lzx_calls_safeL L _ _ _ _ _ _ I0 (Forall_nil _) Hb0 E).
Qed.
