(* C10 for the SZDD front end + LZSS decoder, for EVERY host: a call that returns MSPACK_ERR_OK saw no host failure
   (open/alloc NULL, read error, write count different from the bytes offered, seek failure), and last_error() = returned status. *)
From stdpp Require Import gmap.
From Coq Require Import NArith ZArith List.
From MSP Require Import Gen.Consts L2.Sys L2.Szdd Proofs.Mon Proofs.SzddLedger.
Local Open Scope N_scope.

Definition OKs (e : N) (m : mon) : Prop := e = MSPACK_ERR_OK -> okh m.

(* call rules in the okh-tracking form *)
Lemma o_read L R W h n : h ∈ R -> (0 <= n)%Z ->
  triple (sto L R W) (call1 (CRead h n)) (fun r m => st L R W m /\ (r <> RErr -> okh m)).
Proof.
  intros Hh Hn. eapply t_conseq; [apply (triple_okh _ _ _ (t_read L R W h n Hh Hn))|auto|].
  intros a m [H1 H2]. split; [exact H1|]. intro Hne. apply H2. destruct a; [congruence|reflexivity].
Qed.
Lemma o_write L R W h d : h ∈ W ->
  triple (sto L R W) (call1 (CWrite h d)) (fun w m => st L R W m /\ (Z.eqb w (Z.of_nat (length d)) = true -> okh m)).
Proof.
  intros Hh. eapply t_conseq; [apply (triple_okh _ _ _ (t_write L R W h d Hh))|auto|].
  intros a m [H1 H2]. split; [exact H1|]. intro E. apply H2. cbn [isfail]. rewrite E. reflexivity.
Qed.
Lemma o_seek L R W h off wh : h ∈ R ∪ W -> wh <= 2 ->
  triple (sto L R W) (call1 (CSeek h off wh)) (fun ok m => st L R W m /\ (ok = true -> okh m)).
Proof.
  intros Hh Hw. eapply t_conseq; [apply (triple_okh _ _ _ (t_seek L R W h off wh Hh Hw))|auto|].
  intros a m [H1 H2]. split; [exact H1|]. intro E. apply H2. cbn [isfail]. rewrite E. reflexivity.
Qed.
Lemma o_close L R W h : h ∈ R ∪ W -> triple (sto L R W) (call1 (CClose h)) (fun _ => sto L (R ∖ {[h]}) (W ∖ {[h]})).
Proof.
  intros Hh. eapply t_conseq; [apply (triple_okh _ _ _ (t_close L R W h Hh))|auto|].
  intros a m [H1 H2]. split; [exact H1|apply H2; reflexivity].
Qed.
Lemma o_free_some L R W p : p ∈ L -> triple (sto L R W) (call1 (CFree (Some p))) (fun _ => sto (L ∖ {[p]}) R W).
Proof.
  intros Hp. eapply t_conseq; [apply (triple_okh _ _ _ (t_free_some L R W p Hp))|auto|].
  intros a m [H1 H2]. split; [exact H1|apply H2; reflexivity].
Qed.
Lemma o_alloc L R W n : (0 <= n)%Z ->
  triple (sto L R W) (call1 (CAlloc n))
    (fun r m => match r with Some p => p ∉ L ∪ R ∪ W /\ sto ({[p]} ∪ L) R W m | None => st L R W m end).
Proof.
  intros Hn. eapply t_conseq; [apply (triple_okh _ _ _ (t_alloc L R W n Hn))|auto|].
  intros a m [H1 H2]. destruct a as [p|]; [|exact H1]. destruct H1 as [Hf Hs]. split; [exact Hf|]. split; [exact Hs|apply H2; reflexivity].
Qed.
Lemma o_open_in L R W k :
  triple (sto L R W) (call1 (COpen (FIn k) MODE_READ))
    (fun r m => match r with Some h => h ∉ L ∪ R ∪ W /\ sto L ({[h]} ∪ R) W m | None => st L R W m end).
Proof.
  eapply t_conseq; [apply (triple_okh _ _ _ (t_open_in L R W k))|auto|].
  intros a m [H1 H2]. destruct a as [p|]; [|exact H1]. destruct H1 as [Hf Hs]. split; [exact Hf|]. split; [exact Hs|apply H2; reflexivity].
Qed.
Lemma o_open_out L R W k :
  triple (sto L R W) (call1 (COpen (FOut k) MODE_WRITE))
    (fun r m => match r with Some h => h ∉ L ∪ R ∪ W /\ sto L R ({[h]} ∪ W) m | None => st L R W m end).
Proof.
  eapply t_conseq; [apply (triple_okh _ _ _ (t_open_out L R W k))|auto|].
  intros a m [H1 H2]. destruct a as [p|]; [|exact H1]. destruct H1 as [Hf Hs]. split; [exact Hf|]. split; [exact Hs|apply H2; reflexivity].
Qed.

Lemma err_ne : MSPACK_ERR_READ <> MSPACK_ERR_OK /\ MSPACK_ERR_WRITE <> MSPACK_ERR_OK /\ MSPACK_ERR_NOMEMORY <> MSPACK_ERR_OK /\
               MSPACK_ERR_SEEK <> MSPACK_ERR_OK /\ MSPACK_ERR_OPEN <> MSPACK_ERR_OK /\ EFUEL <> MSPACK_ERR_OK /\
               MSPACK_ERR_DATAFORMAT <> MSPACK_ERR_OK /\ MSPACK_ERR_SIGNATURE <> MSPACK_ERR_OK.
Proof. vm_compute. repeat split; discriminate. Qed.

Section LzssLoop.
Variables (junk : byte) (inh outh : handle) (bufsize : Z) (window : ptr) (L R W : gset N).
Hypothesis Hin : inh ∈ R. Hypothesis Hout : outh ∈ W. Hypothesis Hwin : window ∈ L. Hypothesis Hbuf : (0 <= bufsize)%Z.
Definition Qo : N -> mon -> Prop := fun e m => st (L ∖ {[window]}) R W m /\ OKs e m.

Lemma s_stop_ok e : triple (sto L R W) (stop window e) Qo.
Proof.
  unfold stop. eapply t_bind; [apply (o_free_some L R W window Hwin)|]. intros ?u. apply t_ret.
  intros m [H1 H2]. split; [exact H1|intro; exact H2].
Qed.
Lemma s_stop_err e : e <> MSPACK_ERR_OK -> triple (st L R W) (stop window e) Qo.
Proof.
  intro Hne. unfold stop. eapply t_bind; [apply (t_free_some L R W window Hwin)|]. intros ?u. apply t_ret.
  intros m H. split; [exact H|intro E; contradiction].
Qed.
Lemma s_getbyte s k : (forall s' b, triple (sto L R W) (k s' b) Qo) -> triple (sto L R W) (getbyte inh bufsize window s k) Qo.
Proof.
  intro Hk. unfold getbyte. destruct (ibuf s) as [|b rest]; [|apply Hk].
  eapply t_bind; [apply (o_read L R W inh bufsize Hin Hbuf)|]. intros r. cbn beta.
  destruct r as [|[|b rest]].
  - eapply t_pre_weaken; [|apply s_stop_err; apply err_ne]. intros m [H _]. exact H.
  - eapply t_pre_weaken; [|apply s_stop_ok]. intros m [H1 H2]. split; [exact H1|apply H2; discriminate].
  - eapply t_pre_weaken; [|apply Hk]. intros m [H1 H2]. split; [exact H1|apply H2; discriminate].
Qed.
Lemma s_putbyte s b k : (forall s', triple (sto L R W) (k s') Qo) -> triple (sto L R W) (putbyte outh window s b k) Qo.
Proof.
  intro Hk. unfold putbyte. eapply t_bind; [apply (o_write L R W outh _ Hout)|]. intros w. cbn beta. cbn [length].
  destruct (Z.eqb w 1) eqn:E.
  - eapply t_pre_weaken; [|apply Hk]. intros m [H1 H2]. split; [exact H1|apply H2; exact E].
  - eapply t_pre_weaken; [|apply s_stop_err; apply err_ne]. intros m [H _]. exact H.
Qed.
Lemma s_copy n : forall s mpos k, (forall s', triple (sto L R W) (k s') Qo) -> triple (sto L R W) (copy junk outh window n s mpos k) Qo.
Proof. induction n as [|n IH]; intros s mpos k Hk; cbn [copy]; [apply Hk|]. apply s_putbyte. intros s'. apply IH. exact Hk. Qed.
Lemma s_items n : forall c bit s k, (forall s', triple (sto L R W) (k s') Qo) -> triple (sto L R W) (items junk inh outh bufsize window n c bit s k) Qo.
Proof.
  induction n as [|n IH]; intros c bit s k Hk; cbn [items]; [apply Hk|].
  destruct (N.testbit c bit).
  - apply s_getbyte. intros s1 b. apply s_putbyte. intros s2. apply IH. exact Hk.
  - apply s_getbyte. intros s1 m1. apply s_getbyte. intros s2 m2. apply s_copy. intros s3. apply IH. exact Hk.
Qed.
Lemma s_loop fuel : forall inv s, triple (sto L R W) (loop junk inh outh bufsize window fuel inv s) Qo.
Proof.
  induction fuel as [|f IH]; intros inv s; cbn [loop].
  - eapply t_pre_weaken; [|apply s_stop_err; apply err_ne]. intros m [H _]. exact H.
  - apply s_getbyte. intros s1 c. apply s_items. intros s2. apply IH.
Qed.
End LzssLoop.

Lemma s_lzss_decompress junk fuel inh outh bufsize mode L R W :
  inh ∈ R -> outh ∈ W -> (0 <= bufsize)%Z ->
  triple (sto L R W) (lzss_decompress junk fuel inh outh bufsize mode) (fun e m => st L R W m /\ OKs e m).
Proof.
  intros Hin Hout Hb. unfold lzss_decompress.
  eapply t_bind; [apply (o_alloc L R W); unfold LZSS_WINDOW_SIZE; lia|]. intros w. cbn beta.
  destruct w as [w|].
  - apply t_pre_prop. intro Hfresh.
    eapply t_conseq; [apply (s_loop junk inh outh bufsize w ({[w]} ∪ L) R W Hin Hout ltac:(set_solver) Hb)|auto|].
    intros a m [(HL & HR & HW) Ho]. split; [|exact Ho]. unfold st. repeat split; auto. rewrite HL. set_solver.
  - apply t_ret. intros m H. split; [exact H|]. intro E. exfalso. revert E. apply err_ne.
Qed.

Lemma s_read_headers fh L R W : fh ∈ R ->
  triple (sto L R W) (read_headers fh) (fun r m => st L R W m /\ OKs (fst (fst (fst r))) m).
Proof.
  intro Hfh. unfold read_headers.
  assert (Err : forall (P : mon -> Prop) (e x y z : N), e <> MSPACK_ERR_OK -> (forall m, P m -> st L R W m) ->
                 triple P (Ret (e, x, y, z)) (fun r m => st L R W m /\ OKs (fst (fst (fst r))) m)).
  { intros P e x y z Hne HP. apply t_ret. intros m H. split; [apply HP; exact H|]. cbn [fst]. intro E. contradiction. }
  eapply t_bind; [apply (o_read L R W fh 8 Hfh); lia|]. intros r. cbn beta.
  destruct r as [|buf]; [apply Err; [apply err_ne|tauto]|].
  destruct (negb _); [apply Err; [apply err_ne|tauto]|].
  destruct (list_eqb buf _).
  - eapply t_bind; [eapply t_pre_weaken; [|apply (o_read L R W fh 6 Hfh); lia]; intros m [H1 H2]; split; [exact H1|apply H2; discriminate]|].
    intros r2. cbn beta.
    destruct r2 as [|b2]; [apply Err; [apply err_ne|tauto]|]. destruct (negb _); [apply Err; [apply err_ne|tauto]|].
    destruct (negb _); [apply Err; [apply err_ne|tauto]|].
    apply t_ret. intros m [H1 H2]. split; [exact H1|]. intro. apply H2. discriminate.
  - destruct (list_eqb buf _); [|apply Err; [apply err_ne|tauto]].
    eapply t_bind; [eapply t_pre_weaken; [|apply (o_read L R W fh 4 Hfh); lia]; intros m [H1 H2]; split; [exact H1|apply H2; discriminate]|].
    intros r2. cbn beta.
    destruct r2 as [|b2]; [apply Err; [apply err_ne|tauto]|]. destruct (negb _); [apply Err; [apply err_ne|tauto]|].
    apply t_ret. intros m [H1 H2]. split; [exact H1|]. intro. apply H2. discriminate.
Qed.

Lemma s_szdd_open s k L R W :
  triple (sto L R W) (szdd_open s (FIn k))
    (fun r m => match fst r with
                | None => st L R W m /\ serr (snd r) <> MSPACK_ERR_OK
                | Some h => hptr h ∉ L ∪ R ∪ W /\ hfh h ∉ L ∪ R ∪ W /\ hptr h <> hfh h /\ sto ({[hptr h]} ∪ L) ({[hfh h]} ∪ R) W m /\ serr (snd r) = MSPACK_ERR_OK
                end /\ sptr (snd r) = sptr s).
Proof.
  unfold szdd_open.
  eapply t_bind; [apply o_open_in|]. intros fh. cbn beta.
  destruct fh as [f|].
  - apply t_pre_prop. intro Hf.
    eapply t_bind; [apply o_alloc; unfold sizeof_szdd_header; lia|]. intros hp. cbn beta.
    destruct hp as [p|].
    + apply t_pre_prop. intro Hp.
      eapply t_bind; [apply (s_read_headers f ({[p]} ∪ L) ({[f]} ∪ R) W); set_solver|]. intros [[[e fmt] len] mc]. cbn [fst].
      destruct (N.eqb_spec e 0) as [E0|NE0]; cbn [negb].
      * apply t_ret. intros m [H1 H2]. cbn [fst snd sptr hptr hfh serr]. split; [|reflexivity].
        split; [set_solver|]. split; [set_solver|]. split; [set_solver|]. split; [|reflexivity]. split; [exact H1|apply H2; exact E0].
      * eapply t_bind; [eapply t_pre_weaken; [|apply (t_close ({[p]} ∪ L) ({[f]} ∪ R) W f); set_solver]; intros m [H _]; exact H|]. intros ?u.
        eapply t_bind; [apply (t_free_some ({[p]} ∪ L) (({[f]} ∪ R) ∖ {[f]}) (W ∖ {[f]}) p); set_solver|]. intros ?u.
        apply t_ret. intros m (HL & HR & HW). cbn [fst snd sptr serr]. split; [|reflexivity]. split; [|exact NE0].
        unfold st. rewrite HL, HR, HW. repeat split; set_solver.
    + eapply t_bind; [apply (t_close L ({[f]} ∪ R) W f); set_solver|]. intros ?u.
      eapply t_bind; [apply t_free_none|]. intros ?u.
      apply t_ret. intros m (HL & HR & HW). cbn [fst snd sptr serr]. split; [|reflexivity]. split; [|apply err_ne].
      unfold st. rewrite HL, HR, HW. repeat split; set_solver.
  - eapply t_bind; [eapply t_pre_weaken; [|apply (t_alloc L R W); unfold sizeof_szdd_header; lia]; intros m H; exact H|]. intros hp. cbn beta.
    destruct hp as [p|].
    + apply t_pre_prop. intro Hp. eapply t_bind; [apply t_ret_same|]. intros ?u.
      eapply t_bind; [apply (t_free_some ({[p]} ∪ L) R W p); set_solver|]. intros ?u.
      apply t_ret. intros m (HL & HR & HW). cbn [fst snd sptr serr]. split; [|reflexivity]. split; [|apply err_ne].
      unfold st. rewrite HL, HR, HW. repeat split; set_solver.
    + eapply t_bind; [apply t_ret_same|]. intros ?u.
      eapply t_bind; [apply t_free_none|]. intros ?u.
      apply t_ret. intros m H. cbn [fst snd sptr serr]. split; [|reflexivity]. split; [exact H|apply err_ne].
Qed.

Lemma s_szdd_extract junk fuel s h k L R W : hfh h ∈ R ->
  triple (sto L R W) (szdd_extract junk fuel s h (FOut k))
    (fun r m => st L R W m /\ OKs (fst r) m /\ serr (snd r) = fst r /\ sptr (snd r) = sptr s).
Proof.
  intro Hfh. unfold szdd_extract.
  eapply t_bind; [apply (o_seek L R W (hfh h)); [set_solver|unfold SEEK_START; lia]|]. intros ok. cbn beta.
  destruct ok; cbn [negb].
  2:{ apply t_ret. intros m [H _]. cbn [fst snd serr sptr]. repeat split; try apply H; auto. intro E. exfalso. revert E. apply err_ne. }
  eapply t_bind; [eapply t_pre_weaken; [|apply o_open_out]; intros m [H1 H2]; split; [exact H1|apply H2; reflexivity]|]. intros o. cbn beta.
  destruct o as [oh|].
  2:{ apply t_ret. intros m H. cbn [fst snd serr sptr]. repeat split; try apply H; auto. intro E. exfalso. revert E. apply err_ne. }
  apply t_pre_prop. intro Hoh.
  eapply t_bind; [apply (s_lzss_decompress junk fuel (hfh h) oh SZDD_INPUT_SIZE _ L R ({[oh]} ∪ W)); [exact Hfh|set_solver|unfold SZDD_INPUT_SIZE; lia]|].
  intros e. cbn beta.
  (* close keeps okh when it held: do the case analysis on e = OK by carrying the implication *)
  intros o m Hw [Hst Hok]. rewrite run_bind.
  pose proof (t_close L R ({[oh]} ∪ W) oh ltac:(set_solver) o m Hw Hst) as T.
  destruct (run o m (call1 (CClose oh))) as [u m1] eqn:Erun. destruct T as [Hw1 (HL & HR & HW)].
  cbn [run]. split; [exact Hw1|]. cbn [fst snd serr sptr]. split; [|split; [|split; reflexivity]].
  - unfold st. rewrite HL, HR, HW. repeat split; set_solver.
  - intro E. specialize (Hok E). unfold okh in *. unfold call1 in Erun. cbn [run] in Erun. inversion Erun; subst. cbn. rewrite Hok. reflexivity.
Qed.

Lemma s_szdd_close s h L R W : hptr h ∉ L ∪ R ∪ W -> hfh h ∉ L ∪ R ∪ W -> hptr h <> hfh h ->
  triple (st ({[hptr h]} ∪ L) ({[hfh h]} ∪ R) W) (szdd_close s h) (fun r m => st L R W m /\ sptr r = sptr s).
Proof. apply t_szdd_close. Qed.

(* okh is never lost by close/free: a small fact about the monitor *)
Lemma run_close_free_okh o m h p : okh m ->
  okh (snd (run o m (do! _ <- call1 (CClose h); call1 (CFree (Some p))))).
Proof. intro H. unfold okh in *. cbn. rewrite H. reflexivity. Qed.

Lemma s_szdd_decompress junk fuel s ki ko L R W :
  triple (sto L R W) (szdd_decompress junk fuel s (FIn ki) (FOut ko))
    (fun r m => st L R W m /\ OKs (fst r) m /\ serr (snd r) = fst r /\ sptr (snd r) = sptr s).
Proof.
  unfold szdd_decompress.
  eapply t_bind; [apply s_szdd_open|]. intros [h s1]. cbn [fst snd].
  destruct h as [hd|].
  - apply (t_pre_extract _ (hptr hd ∉ L ∪ R ∪ W /\ hfh hd ∉ L ∪ R ∪ W /\ hptr hd <> hfh hd /\ sptr s1 = sptr s)); [intros m H; tauto|].
    intros (Hp & Hf & Hne & Hs1).
    apply (t_pre_weaken _ (sto ({[hptr hd]} ∪ L) ({[hfh hd]} ∪ R) W)); [intros m H; tauto|].
    eapply t_bind; [apply (s_szdd_extract junk fuel s1 hd ko); set_solver|]. intros [e s2]. cbn [fst snd].
    intros o m Hw (Hst & Hok & Hse & Hs2). rewrite run_bind.
    pose proof (t_szdd_close s2 hd L R W Hp Hf Hne o m Hw Hst) as T.
    destruct (run o m (szdd_close s2 hd)) as [s3 m1] eqn:Erun. destruct T as [Hw1 [Hst1 Hs3]].
    cbn [run fst snd serr sptr]. split; [exact Hw1|]. split; [exact Hst1|]. split; [|split; [reflexivity|congruence]].
    intro E. specialize (Hok E). unfold szdd_close in Erun.
    assert (K := run_close_free_okh o m (hfh hd) (hptr hd) Hok).
    unfold okh in *. rewrite !run_bind in Erun. cbn in Erun. cbn in K. inversion Erun; subst. exact K.
  - apply t_ret. intros m [[H Hne] Hs]. cbn [fst snd]. split; [exact H|]. split; [intro E; contradiction|]. split; [reflexivity|exact Hs].
Qed.

(* the statement for script A *)
Lemma s_script_decompress junk fuel :
  triple (sto ∅ ∅ ∅) (script_decompress junk fuel) (fun r m => snd r = fst r /\ OKs (fst r) m).
Proof.
  unfold script_decompress, szdd_new, szdd_destroy.
  eapply t_bind.
  - eapply t_bind; [apply o_alloc; unfold sizeof_szdd_decompressor; lia|]. intros sp. cbn beta.
    apply (t_ret _ _ (fun r m => match r with Some s => sto ({[sptr s]} ∪ ∅) ∅ ∅ m /\ serr s = MSPACK_ERR_OK | None => st ∅ ∅ ∅ m end)).
    intros m H. destruct sp as [p|]; cbn [sptr serr]; [split; [apply H|reflexivity]|exact H].
  - intros so. cbn beta. destruct so as [s|].
    2:{ apply t_ret. intros m H. cbn [fst snd]. split; [reflexivity|]. intro E. exfalso. revert E. vm_compute. discriminate. }
    apply t_pre_prop_r. intros _.
    eapply t_bind; [apply (s_szdd_decompress junk fuel s 0 0)|]. intros [e s']. cbn [fst snd].
    intros o m Hw (Hst & Hok & Hse & Hsp). rewrite run_bind.
    pose proof (t_free_some ({[sptr s]} ∪ ∅) ∅ ∅ (sptr s) ltac:(set_solver) o m Hw Hst) as T.
    rewrite Hsp. unfold call1 in T |- *. cbn [run bind] in T |- *. destruct T as [Hw1 _].
    split; [exact Hw1|]. cbn [fst snd]. split; [exact Hse|].
    intro E. specialize (Hok E). unfold okh in *. cbn. rewrite Hok. reflexivity.
Qed.

Theorem szdd_decompress_reports_failures : forall (o : oracle) junk fuel,
  let '((e, le), m) := run o mon0 (script_decompress junk fuel) in
  le = e /\ (e = MSPACK_ERR_OK -> hfail m = false).
Proof.
  intros o junk fuel. pose proof (s_script_decompress junk fuel o mon0 wf_mon0 (conj st_mon0 eq_refl)) as T.
  destruct (run o mon0 (script_decompress junk fuel)) as [[e le] m]. cbn [fst snd] in T. destruct T as [_ [H1 H2]]. split; [exact H1|exact H2].
Qed.

(* signature clause: a file at least as long as the signature whose first 8 bytes are neither signature is refused with
   MSPACK_ERR_SIGNATURE (on the executable honest host without faults) *)
From MSP Require Import L2.Host Gen.Tables.
Theorem szdd_bad_signature_refused : forall (o : oracle) m fh buf,
  o (nxt m) (CRead fh 8) = RBytes buf -> length buf = 8%nat ->
  list_eqb buf szdd_sig_expand = false -> list_eqb buf szdd_sig_qbasic = false ->
  fst (fst (fst (fst (run o m (read_headers fh))))) = MSPACK_ERR_SIGNATURE.
Proof.
  intros o m fh buf Ho Hlen H1 H2. unfold read_headers, call1. cbn [run bind mk_answer]. rewrite Ho.
  replace (firstn (Z.to_nat 8) buf) with buf by (symmetry; apply firstn_all2; rewrite Hlen; cbn; lia).
  rewrite Hlen. cbn [Nat.eqb negb]. rewrite H1, H2. reflexivity.
Qed.
