From Coq Require Import List NArith Bool Lia.
Import ListNotations.
From MSP Require Import Model.Progress Proofs.ProgressP Model.Find.
Local Open Scope N_scope.

(* ---- search-buffer-size independence: chunked scanning = scanning the concatenation ---- *)
Lemma first_cand_app : forall l1 l2 pos a,
  first_cand (l1 ++ l2) pos a = match first_cand l1 pos a with inl r => inl r | inr a' => first_cand l2 (pos + N.of_nat (length l1)) a' end.
Proof.
  induction l1 as [|b l1 IH]; intros l2 pos a; cbn [app first_cand length].
  - replace (pos + N.of_nat 0) with pos by lia. reflexivity.
  - destruct (ast (step a b) =? 20); [reflexivity|]. rewrite IH. replace (pos + 1 + N.of_nat (length l1)) with (pos + N.of_nat (S (length l1))) by lia. reflexivity.
Qed.
Theorem scan_bufsize_independent : forall chunks pos a, first_cand_chunks chunks pos a = first_cand (concat chunks) pos a.
Proof.
  induction chunks as [|c rest IH]; intros pos a; cbn [first_cand_chunks concat]; [reflexivity|].
  rewrite first_cand_app. destruct (first_cand c pos a); [reflexivity|apply IH].
Qed.

(* ---- the signature is recognised from every searching state, whatever came before ---- *)
Definition MSCF : list N := [77; 83; 67; 70].
Lemma sig_from_searching : forall a, ast a <= 3 -> ast (fold_left step MSCF a) = 4.
Proof.
  intros a Ha. assert (H : ast a = 0 \/ ast a = 1 \/ ast a = 2 \/ ast a = 3) by lia.
  destruct a as [s cl fo]. cbn [ast] in *. destruct H as [E|[E|[E|E]]]; subst s; vm_compute; reflexivity.
Qed.
(* ... and a complete 20-byte header yields a candidate at exactly its own offset with the two fields decoded little-endian *)
Definition le32 (b0 b1 b2 b3 : N) : N := N.lor (N.lor (N.lor b0 (N.shiftl b1 8)) (N.shiftl b2 16)) (N.shiftl b3 24).
Theorem candidate_at_signature : forall a x4 x5 x6 x7 c0 c1 c2 c3 y12 y13 y14 y15 f0 f1 f2 f3,
  ast a <= 3 ->
  fold_left step (MSCF ++ [x4; x5; x6; x7; c0; c1; c2; c3; y12; y13; y14; y15; f0; f1; f2; f3]) a =
  {| ast := 20; acablen := le32 c0 c1 c2 c3; afoffset := le32 f0 f1 f2 f3 |}.
Proof.
  intros a x4 x5 x6 x7 c0 c1 c2 c3 y12 y13 y14 y15 f0 f1 f2 f3 Ha.
  assert (H : ast a = 0 \/ ast a = 1 \/ ast a = 2 \/ ast a = 3) by lia.
  destruct a as [s cl fo]. cbn [ast] in *. unfold le32, MSCF.
  destruct H as [E|[E|[E|E]]]; subst s; cbv [fold_left app step ast acablen afoffset start N.eqb Pos.eqb N.add Pos.add Pos.succ]; reflexivity.
Qed.

(* ---- soundness: everything reported was parsed as a cabinet at that offset, and passed the plausibility filter ---- *)
Lemma find_sound_acc bytes parse salvage : forall fuel off acc res,
  Forall (fun o => parse o = true) acc ->
  cab_find bytes parse salvage fuel off acc = Some res -> Forall (fun o => parse o = true) res.
Proof.
  induction fuel as [|f IH]; intros off acc res Hacc E; cbn [cab_find] in E; [discriminate|].
  assert (Hrev : forall l, Forall (fun o => parse o = true) l -> Forall (fun o => parse o = true) (rev' l)).
  { intros l Hl. unfold rev'. rewrite <- rev_alt. apply Forall_rev. exact Hl. }
  destruct (first_cand _ off a0) as [[[caboff cablen] foffset]|a'].
  2:{ inversion E; subst. apply Hrev. exact Hacc. }
  set (pl := plausible bytes salvage caboff cablen foffset) in *.
  assert (Hacc' : Forall (fun o => parse o = true) (if pl && parse caboff then caboff :: acc else acc)).
  { destruct (pl && parse caboff) eqn:Eok; [|exact Hacc]. constructor; [|exact Hacc]. apply andb_true_iff in Eok. apply Eok. }
  destruct (flen bytes <=? _); [inversion E; subst; apply Hrev; exact Hacc'|]. apply (IH _ _ _ Hacc' E).
Qed.
Theorem find_sound : forall bytes parse salvage fuel res,
  cab_find bytes parse salvage fuel 0 [] = Some res -> Forall (fun o => parse o = true) res.
Proof. intros. eapply find_sound_acc; [constructor|eassumption]. Qed.

