(* cabd.c block reader (Model/Cab.v): on a folder whose data area holds well-formed blocks, cabd_sys_read behaves as an honest
   byte stream over the concatenated block payloads; hence the decoders see exactly that stream, for every buffer size. *)
From Coq Require Import List NArith ZArith Lia Bool.
Import ListNotations.
From MSP Require Import Base.Src Gen.Consts Gen.Tables Model.Chm Model.Cab Proofs.ChmEnc.
From MSP Require Model.Cksum.
Local Open Scope N_scope.

Lemma le32_le32b v r : le32 (le32b v ++ r) 0 = v.
Proof.
  unfold le32, le32b. rewrite <- app_assoc, le16_le16b. change (0 + 2) with (len (le16b (v mod 65536)) + 0).
  rewrite le16_app_r, le16_le16b. pose proof (N.div_mod v 65536 ltac:(lia)). lia.
Qed.

(* one CFDATA block as it lies in the file: checksum field, sizes, the cabinet's per-block reserve, payload *)
Record blk := mkB { b_ck : N; b_un : N; b_resv : list N; b_data : list N }.
Definition blk_hdr (b : blk) : list N := le32b (b_ck b) ++ le16b (len (b_data b)) ++ le16b (b_un b).
Definition enc_blk (b : blk) : list N := blk_hdr b ++ b_resv b ++ b_data b.
Definition blk_sum (b : blk) : N := Cksum.cksum (le16b (len (b_data b)) ++ le16b (b_un b)) (Cksum.cksum (b_data b) 0).
Definition wf_blk (bres : N) (b : blk) : Prop :=
  len (b_data b) <= CAB_INPUTMAX /\ 0 < b_un b /\ b_un b <= CAB_BLOCKMAX /\ len (b_resv b) = bres /\ (b_ck b = 0 \/ b_ck b = blk_sum b).

Lemma len_blk_hdr b : len (blk_hdr b) = 8. Proof. reflexivity. Qed.

Lemma rdn_at (pre m t : list N) : rdn (pre ++ m ++ t) (Z.of_N (len pre)) (len m) = m.
Proof. unfold rdn. rewrite N2Z.id. apply sub_mid. Qed.

Section Reader.
Variable par : params.
Variables (bres comp nblocks : N).

(* reading one block that lies at the current position *)
Lemma read_block_ok pre b post h parts : wf_blk bres b -> h_pos h = Z.of_N (len pre) -> len parts = 0 ->
  read_block (pre ++ enc_blk b ++ post) par bres comp h parts =
  (MSPACK_ERR_OK, b_un b,
   mkH (Z.of_N (len pre + len (enc_blk b))) (h_open h) (parts ++ b_data b) (h_block h) (h_outlen h) (h_rerr h) (h_off h) (h_writing h) (h_out h) (h_hint h)).
Proof.
  intros (Hlen & Hun0 & Hun & Hres & Hck) Hpos Hparts. unfold read_block, enc_blk. rewrite Hpos.
  rewrite <- !app_assoc. change cfdata_SIZEOF with (len (blk_hdr b)). rewrite rdn_at, N.eqb_refl. cbn [negb].
  set (hdr := blk_hdr b).
  assert (Hl : le16 hdr cfdata_CompressedSize = len (b_data b)).
  { unfold hdr, blk_hdr. change cfdata_CompressedSize with (len (le32b (b_ck b)) + 0). rewrite le16_app_r, le16_le16b. reflexivity. }
  assert (Hu : le16 hdr cfdata_UncompressedSize = b_un b).
  { unfold hdr, blk_hdr. change cfdata_UncompressedSize with (len (le32b (b_ck b)) + (len (le16b (len (b_data b))) + 0)). rewrite !le16_app_r.
    apply le16_le16b0. unfold CAB_BLOCKMAX in Hun. lia. }
  assert (Hc : le32 hdr cfdata_CheckSum = b_ck b) by (unfold hdr, blk_hdr; apply le32_le32b).
  rewrite Hl, Hu, Hc, Hparts. cbn [N.add].
  replace (CAB_INPUTMAX <? len (b_data b)) with false by (symmetry; apply N.ltb_ge; exact Hlen).
  replace (CAB_BLOCKMAX <? b_un b) with false by (symmetry; apply N.ltb_ge; exact Hun). cbn [andb].
  (* the payload *)
  assert (Hd : rdn (pre ++ hdr ++ b_resv b ++ b_data b ++ post) (Z.of_N (len pre) + Z.of_N (len hdr) + Z.of_N bres) (len (b_data b)) = b_data b).
  { replace (Z.of_N (len pre) + Z.of_N (len hdr) + Z.of_N bres)%Z with (Z.of_N (len (pre ++ hdr ++ b_resv b))) by (rewrite !len_app, Hres; lia).
    replace (pre ++ hdr ++ b_resv b ++ b_data b ++ post) with ((pre ++ hdr ++ b_resv b) ++ b_data b ++ post) by (rewrite <- !app_assoc; reflexivity).
    apply rdn_at. }
  rewrite Hd, N.eqb_refl. cbn [negb].
  assert (Hsum : Cksum.cksum (sub hdr 4 8) (Cksum.cksum (b_data b) 0) = blk_sum b).
  { reflexivity. }
  rewrite Hsum.
  replace (negb (b_ck b =? 0) && negb (blk_sum b =? b_ck b) && negb (ignore_cksum par comp)) with false.
  2:{ destruct Hck as [Z0|Eq]; [rewrite Z0; reflexivity|]. rewrite Eq, N.eqb_refl. cbn. rewrite andb_false_r. reflexivity. }
  replace (b_un b =? 0) with false by (symmetry; apply N.eqb_neq; lia). cbn [negb].
  f_equal. f_equal. rewrite !len_app, Hres. lia.
Qed.

(* ---------- the block reader as a byte stream ---------- *)
Variable file : list N.
Definition qtm : bool := ctype comp =? cffoldCOMPTYPE_QUANTUM.
Definition pay (b : blk) : list N := if qtm then b_data b ++ [255] else b_data b.
Definition pays (bs : list blk) : list N := concat (map pay bs).
Definition encs (bs : list blk) : list N := concat (map enc_blk bs).

(* the reader stands at the header of the first of the blocks bs (the folder's remaining blocks); rem is what it will still deliver *)
Definition Rh (h : chost) (rem : list N) : Prop :=
  exists pre bs post, file = pre ++ encs bs ++ post /\ h_pos h = Z.of_N (len pre) /\ Forall (wf_blk bres) bs /\
    rem = h_ibuf h ++ pays bs /\ (bs = [] -> nblocks <= h_block h) /\ (bs <> [] -> h_block h + N.of_nat (length bs) = nblocks).

Definition same_sink (h h' : chost) : Prop :=
  h_off h' = h_off h /\ h_writing h' = h_writing h /\ h_out h' = h_out h /\ h_open h' = h_open h /\
  (ctype comp <> cffoldCOMPTYPE_LZX -> h_hint h' = h_hint h).

Lemma firstn_app_le {A} n (a b : list A) : (n <= length a)%nat -> firstn n (a ++ b) = firstn n a.
Proof. intro H. rewrite firstn_app. replace (n - length a)%nat with 0%nat by lia. rewrite firstn_O, app_nil_r. reflexivity. Qed.

Definition at_blocks (h : chost) (pre : list N) (bs : list blk) (post : list N) : Prop :=
  file = pre ++ encs bs ++ post /\ h_pos h = Z.of_N (len pre) /\ Forall (wf_blk bres) bs /\
  (bs = [] -> nblocks <= h_block h) /\ (bs <> [] -> h_block h + N.of_nat (length bs) = nblocks).

Lemma sys_read_stream : forall fuel todo acc h pre bs post, at_blocks h pre bs post ->
  (todo = 0 /\ (1 <= fuel)%nat) \/ (2 * length bs + (match h_ibuf h with [] => 0 | _ => 1 end) + 1 <= fuel)%nat ->
  exists h' pre' bs', sys_read file par bres comp nblocks fuel todo acc h = (RBytes (acc ++ firstn (N.to_nat todo) (h_ibuf h ++ pays bs)), h') /\
     at_blocks h' pre' bs' post /\ h_ibuf h' ++ pays bs' = skipn (N.to_nat todo) (h_ibuf h ++ pays bs) /\ same_sink h h'.
Proof.
  induction fuel as [|f IH]; intros todo acc h pre bs post Hat Hfuel; [destruct Hfuel as [[_ H]|H]; lia|].
  cbn [sys_read]. destruct (N.eqb_spec todo 0) as [->|Hnz].
  { exists h, pre, bs. cbn [N.to_nat firstn skipn]. rewrite app_nil_r. split; [reflexivity|split; [exact Hat|split; [reflexivity|unfold same_sink; repeat split; intros; reflexivity]]]. }
  destruct Hfuel as [[H0 _]|Hfuel]; [contradiction|].
  destruct (h_ibuf h) as [|x ib] eqn:Eib.
  - (* input buffer empty: next block, or out of blocks *)
    destruct Hat as (Hfile & Hpos & Hwf & Hnil & Hcons).
    destruct bs as [|b bs'].
    + specialize (Hnil eq_refl). replace (nblocks <=? h_block h) with true by (symmetry; apply N.leb_le; exact Hnil).
      cbn [app pays map concat]. rewrite firstn_nil, skipn_nil, app_nil_r.
      eexists. exists pre, []. split; [reflexivity|]. split; [|split].
      * destruct (p_salvage par); unfold at_blocks; cbn; (repeat split; try assumption; try (intros _; cbn; lia); try congruence).
      * destruct (p_salvage par); reflexivity.
      * destruct (p_salvage par); cbn; repeat split; reflexivity.
    + specialize (Hcons ltac:(discriminate)). cbn [length] in Hcons.
      replace (nblocks <=? h_block h) with false by (symmetry; apply N.leb_gt; lia).
      inversion Hwf as [|? ? Hb Hbs]; subst.
      set (hb := mkH (h_pos h) (h_open h) [] (h_block h + 1) (h_outlen h) (h_rerr h) (h_off h) (h_writing h) (h_out h) (h_hint h)).
      assert (Hrb := read_block_ok pre b (encs bs' ++ post) hb [] Hb Hpos eq_refl).
      unfold encs in Hfile. cbn [map concat] in Hfile. fold (encs bs') in Hfile. rewrite <- app_assoc in Hfile. rewrite <- Hfile in Hrb.
      rewrite Hrb. change (MSPACK_ERR_OK =? 0) with true. cbn [negb app].
      match goal with |- context [sys_read _ _ _ _ _ f todo acc ?H1] => set (h1 := H1) end.
      assert (Hib1 : h_ibuf h1 = pay b) by (unfold h1, pay, qtm; cbn; destruct (ctype comp =? cffoldCOMPTYPE_QUANTUM); reflexivity).
      assert (Hat1 : at_blocks h1 (pre ++ enc_blk b) bs' post).
      { unfold at_blocks, h1. cbn. repeat split.
        - rewrite Hfile, <- app_assoc. reflexivity.
        - rewrite len_app. reflexivity.
        - exact Hbs.
        - intros ->. cbn in Hcons. lia.
        - intros Hne. destruct bs'; [congruence|]. cbn [length] in *. lia. }
      destruct (IH todo acc h1 (pre ++ enc_blk b) bs' post Hat1) as (h' & pre' & bs2 & E & Hat' & Hrem & Hs).
      { right. rewrite Hib1. cbn [length] in Hfuel. destruct (pay b); lia. }
      exists h', pre', bs2. rewrite E, Hib1. unfold pays at 2 4. cbn [map concat]. fold (pays bs'). split; [reflexivity|]. split; [exact Hat'|]. split; [exact Hrem|].
      destruct Hs as (S1 & S2 & S3 & S4 & S5). unfold same_sink. unfold h1 in *. cbn in *. repeat split; try assumption.
      intro Hl. rewrite (S5 Hl). replace (ctype comp =? cffoldCOMPTYPE_LZX) with false by (symmetry; apply N.eqb_neq; exact Hl). rewrite andb_false_r. reflexivity.
  - (* bytes in the input buffer *)
    set (ibuf := x :: ib) in *.
    set (got := firstn (N.to_nat todo) ibuf).
    set (h1 := mkH (h_pos h) (h_open h) (skipn (N.to_nat todo) ibuf) (h_block h) (h_outlen h) (h_rerr h) (h_off h) (h_writing h) (h_out h) (h_hint h)).
    assert (Hat1 : at_blocks h1 pre bs post) by (destruct Hat as (A & B & C & D & E); unfold at_blocks, h1; cbn; repeat split; assumption).
    assert (Hlg : len got = N.min todo (len ibuf)) by (unfold got, len; rewrite firstn_length; lia).
    destruct (IH (todo - len got) (acc ++ got) h1 pre bs post Hat1) as (h' & pre' & bs2 & E & Hat' & Hrem & Hs).
    { destruct (N.le_gt_cases todo (len ibuf)) as [Hle|Hgt].
      - left. split; [lia|]. lia.
      - right. unfold h1. cbn [h_ibuf]. rewrite skipn_all2 by (unfold len in Hgt; lia). lia. }
    exists h', pre', bs2. rewrite E. split; [|split; [exact Hat'|split]].
    + assert (Hx : (acc ++ got) ++ firstn (N.to_nat (todo - len got)) (h_ibuf h1 ++ pays bs) = acc ++ firstn (N.to_nat todo) (ibuf ++ pays bs)).
      { rewrite <- app_assoc. f_equal. unfold h1. cbn [h_ibuf].
        destruct (N.le_gt_cases todo (len ibuf)) as [Hle|Hgt].
        - replace (todo - len got) with 0 by lia. cbn [N.to_nat firstn]. rewrite app_nil_r. unfold got. symmetry. apply firstn_app_le. unfold len in Hle. lia.
        - rewrite skipn_all2 by (unfold len in Hgt; lia). cbn [app].
          assert (Hg : got = ibuf) by (unfold got; apply firstn_all2; unfold len in Hgt; lia). rewrite Hg.
          rewrite firstn_app. rewrite (firstn_all2 ibuf) by (unfold len in Hgt; lia). f_equal. f_equal. unfold len. lia. }
      rewrite Hx. reflexivity.
    + rewrite Hrem. unfold h1. cbn [h_ibuf].
      destruct (N.le_gt_cases todo (len ibuf)) as [Hle|Hgt].
      * replace (todo - len got) with 0 by lia. cbn [N.to_nat skipn]. rewrite skipn_app. replace (N.to_nat todo - length ibuf)%nat with 0%nat by (unfold len in Hle; lia). reflexivity.
      * rewrite (@skipn_all2 _ (N.to_nat todo) ibuf) by (unfold len in Hgt; lia). cbn [app]. rewrite (skipn_app (N.to_nat todo)), (@skipn_all2 _ (N.to_nat todo) ibuf) by (unfold len in Hgt; lia). cbn [app]. f_equal. rewrite Hlg. unfold len in *. lia.
    + destruct Hs as (S1 & S2 & S3 & S4 & S5). unfold same_sink, h1 in *. cbn in *. repeat split; assumption.
Qed.
End Reader.

(* ---------- the CAB host simulates an honest byte stream (folders other than LZX: the output-length hint never changes) ---------- *)
From MSP Require Import Proofs.Sim.
Section HostSim.
Variable par : params.
Variables (bres comp nblocks : N).
Variable file : list N.
Hypothesis not_lzx : ctype comp <> cffoldCOMPTYPE_LZX.
Variable w : bool.                 (* whether cabd_sys_write passes the bytes on (d->outfh) *)
Variables (o0 : list N) (off0 hint : N) (post : list N).

Definition Q (h : chost) (hs : hst) : Prop :=
  (exists pre bs, at_blocks bres nblocks file h pre bs post /\ rem hs = h_ibuf h ++ pays comp bs) /\
  h_writing h = w /\ h_hint h = hint /\ h_off h = off0 + len (out hs) /\ h_out h = (if w then out hs ++ o0 else o0).

Lemma at_blocks_count h pre bs : at_blocks bres nblocks file h pre bs post -> (length bs <= N.to_nat nblocks)%nat.
Proof. intros (_ & _ & _ & _ & Hc). destruct bs as [|b bs]; [cbn; lia|]. specialize (Hc ltac:(discriminate)). lia. Qed.

Lemma host_step h hs c : Q h hs ->
  let '(a, h') := Cab.hans file par bres comp nblocks h c in
  let '(a', hs') := Sim.hans hint hs c in a = a' /\ Q h' hs'.
Proof.
  intros ((pre & bs & Hat & Hrem) & Hw & Hh & Hoff & Hout). destruct c as [n|d|]; cbn [Cab.hans Sim.hans].
  - pose proof (at_blocks_count h pre bs Hat) as Hc.
    destruct (sys_read_stream par bres comp nblocks file (S (2 * N.to_nat nblocks + 4)) n [] h pre bs post Hat) as (h' & pre' & bs' & E & Hat' & Hrem' & (S1 & S2 & S3 & S4 & S5)).
    { right. destruct (h_ibuf h); lia. }
    rewrite E. cbn [app]. rewrite <- Hrem. split; [reflexivity|]. unfold Q. cbn [rem out]. repeat split.
    + exists pre', bs'. split; [exact Hat'|]. rewrite Hrem', Hrem. reflexivity.
    + rewrite S2. exact Hw.
    + rewrite (S5 not_lzx). exact Hh.
    + rewrite S1. exact Hoff.
    + rewrite S3. exact Hout.
  - split; [unfold len; rewrite nat_N_Z; reflexivity|]. unfold Q. cbn [h_off h_writing h_hint h_out h_ibuf h_pos h_block h_open rem out]. repeat split.
    + exists pre, bs. split; [|exact Hrem]. destruct Hat as (A & B & C & D & E). unfold at_blocks. cbn [h_pos h_block]. repeat split; assumption.
    + exact Hw.
    + exact Hh.
    + rewrite Hoff. unfold len. rewrite app_length, rev_length. unfold byte. lia.
    + rewrite Hw, Hout. destruct w; [rewrite rev_append_rev, app_assoc; reflexivity|reflexivity].
  - split; [exact Hh|]. unfold Q. repeat split; try assumption. exists pre, bs. split; assumption.
Qed.

Lemma host_sim {A} : forall (p : prog A) h hs, Q h hs ->
  let '(a, h') := Cab.cexec file par bres comp nblocks h p in
  let '(a', hs') := Sim.exec hint hs p in a = a' /\ Q h' hs'.
Proof.
  induction p as [a|c k IH]; intros h hs HQ; cbn [Cab.cexec Sim.exec]; [split; [reflexivity|exact HQ]|].
  pose proof (host_step h hs c HQ) as S. destruct (Cab.hans file par bres comp nblocks h c) as [a h']. destruct (Sim.hans hint hs c) as [a' hs'].
  destruct S as [-> HQ']. apply IH. exact HQ'.
Qed.
End HostSim.

(* ---------- decoders behind the CAB block reader see the ideal stream, for every buffer size ---------- *)
Section DecoderIdeal.
Variable par : params.
Variables (bres comp nblocks : N).
Variable file : list N.
Hypothesis not_lzx : ctype comp <> cffoldCOMPTYPE_LZX.

Theorem cab_buffered_ideal {A} (p : sprog A) bufsize rule w o0 off0 hint post i b h hs : 0 < bufsize ->
  Q bres comp nblocks file w o0 off0 hint post h hs -> R rule i b hs ->
  let '((r2, _), h') := Cab.cexec file par bres comp nblocks h (buffered bufsize rule p b) in
  let '(r1, i') := ideal rule hint p i in
  r1 = r2 /\ exists hs', Q bres comp nblocks file w o0 off0 hint post h' hs' /\ iout i' = out hs'.
Proof.
  intros Hb HQ HR.
  pose proof (host_sim par bres comp nblocks file not_lzx w o0 off0 hint post (buffered bufsize rule p b) h hs HQ) as S1.
  pose proof (buffered_refines_ideal bufsize rule hint Hb p i b hs HR) as S2.
  destruct (Cab.cexec file par bres comp nblocks h (buffered bufsize rule p b)) as [[r2 b'] h'].
  destruct (Sim.exec hint hs (buffered bufsize rule p b)) as [[r2' b''] hs'].
  destruct (ideal rule hint p i) as [r1 i']. destruct S1 as [E HQ']. inversion E; subst. destruct S2 as [E1 E2].
  split; [exact E1|]. exists hs'. split; [exact HQ'|exact E2].
Qed.
End DecoderIdeal.

(* ---------- uncompressed folders, end to end ---------- *)
Section Stored.
Variable par : params.
Variables (bres comp nblocks : N).
Variable file : list N.
Hypothesis not_lzx : ctype comp <> cffoldCOMPTYPE_LZX.
Hypothesis bufpos : 0 < p_bufsize par.

Lemma skipn_skipn2 {A} (l : list A) a b : skipn b (skipn a l) = skipn (a + b) l.
Proof. revert l. induction a as [|a IH]; intro l; [reflexivity|]. destruct l as [|x l]; [rewrite !skipn_nil; reflexivity|]. cbn [skipn Nat.add]. apply IH. Qed.
Lemma firstn_add2 {A} (l : list A) a b : firstn (a + b) l = firstn a l ++ firstn b (skipn a l).
Proof. revert l. induction a as [|a IH]; intro l; [reflexivity|]. destruct l as [|x l]; [rewrite !firstn_nil; reflexivity|]. cbn [firstn skipn Nat.add app]. f_equal. apply IH. Qed.

Lemma noned_ok w o0 off0 hint post : forall fuel bytes h hs, Q bres comp nblocks file w o0 off0 hint post h hs ->
  bytes <= len (rem hs) -> (bytes = 0 /\ (1 <= fuel)%nat) \/ (N.to_nat (bytes / p_bufsize par) + 1 < fuel)%nat ->
  exists h' hs', noned file par bres comp nblocks fuel bytes h = (MSPACK_ERR_OK, h') /\ Q bres comp nblocks file w o0 off0 hint post h' hs' /\
                 rem hs' = skipn (N.to_nat bytes) (rem hs) /\ out hs' = rev (firstn (N.to_nat bytes) (rem hs)) ++ out hs.
Proof.
  induction fuel as [|f IH]; intros bytes h hs HQ Hle Hf; [exfalso; destruct Hf as [[_ Hf]|Hf]; eapply Nat.nlt_0_r; exact Hf|]. cbn [noned].
  destruct (N.eqb_spec bytes 0) as [->|Hnz].
  { exists h, hs. cbn [N.to_nat skipn firstn rev app]. split; [reflexivity|split; [exact HQ|split; reflexivity]]. }
  destruct Hf as [[Hz0 _]|Hf]; [contradiction|].
  set (run := N.min bytes (p_bufsize par)).
  assert (Hrun : 0 < run /\ run <= bytes /\ run <= p_bufsize par) by (unfold run; lia).
  pose proof (host_step par bres comp nblocks file not_lzx w o0 off0 hint post h hs (HRead run) HQ) as S1.
  destruct (Cab.hans file par bres comp nblocks h (HRead run)) as [a h1]. cbn [Sim.hans] in S1. destruct S1 as [-> HQ1].
  set (l := firstn (N.to_nat run) (rem hs)) in *.
  assert (Hl : len l = run) by (unfold l, len, byte; rewrite firstn_length; unfold len, byte in Hle; lia).
  rewrite Hl, N.eqb_refl. cbn [negb].
  pose proof (host_step par bres comp nblocks file not_lzx w o0 off0 hint post h1 _ (HWrite l) HQ1) as S2.
  destruct (Cab.hans file par bres comp nblocks h1 (HWrite l)) as [a2 h2]. cbn [Sim.hans] in S2. destruct S2 as [_ HQ2]. cbn [rem out] in HQ2.
  destruct (IH (bytes - run) h2 _ HQ2) as (h' & hs' & E & HQ' & Hr & Ho).
  - cbn [rem]. unfold len, byte. rewrite skipn_length. unfold len, byte in Hle. lia.
  - assert ((bytes - run) / p_bufsize par + 1 <= bytes / p_bufsize par \/ bytes - run = 0) as [Hd|Hz].
    { destruct (N.le_gt_cases (p_bufsize par) bytes) as [Hge|Hlt].
      - left. replace run with (p_bufsize par) by (unfold run; lia).
        replace bytes with ((bytes - p_bufsize par) + 1 * p_bufsize par) at 2 by lia. rewrite N.div_add by lia. lia.
      - right. unfold run. lia. }
    + right. clear - Hd Hf. set (q1 := (bytes - run) / p_bufsize par) in *. set (q2 := bytes / p_bufsize par) in *. clearbody q1 q2. lia.
    + left. split; [exact Hz|]. clear - Hf. set (q2 := bytes / p_bufsize par) in *. clearbody q2. lia.
  - exists h', hs'. split; [exact E|]. split; [exact HQ'|]. cbn [rem out] in Hr, Ho. split.
    + rewrite Hr. rewrite skipn_skipn2. f_equal. lia.
    + rewrite Ho. unfold l. rewrite app_assoc, <- rev_app_distr. f_equal. f_equal.
      replace (N.to_nat bytes) with (N.to_nat run + N.to_nat (bytes - run))%nat by lia. symmetry. apply firstn_add2.
Qed.
End Stored.

(* ---------- extract() of a member of an uncompressed folder, from a fresh decompressor ---------- *)
Section StoredExtract.
Variable file : list N.
Variable par : params.
Variable cab : cabinet.
Hypothesis bufpos : 0 < p_bufsize par.

(* the checks cabd_extract makes before touching the data *)
Definition prechecks (fo : cfolder) (f : cfile) : bool :=
  (fi_off f <=? CAB_LENGTHMAX) && (fi_len f <=? CAB_LENGTHMAX - fi_off f) && negb (fo_mprev fo) &&
  (p_salvage par || ((fi_off f <=? (fo_nblocks fo * CAB_BLOCKMAX) mod M32) && (fi_len f <=? (fo_nblocks fo * CAB_BLOCKMAX) mod M32 - fi_off f))).

Theorem stored_extract fo f pre bs post :
  nth_error (c_folders cab) (N.to_nat (fi_folder f)) = Some fo -> ctype (fo_comp fo) = cffoldCOMPTYPE_NONE -> prechecks fo f = true ->
  file = pre ++ encs bs ++ post -> fo_offset fo = Z.of_N (len pre) -> N.of_nat (length bs) = fo_nblocks fo -> Forall (wf_blk (c_bres cab)) bs ->
  fi_off f + fi_len f <= len (pays (fo_comp fo) bs) ->
  exists st', extract file par cab cs_init f =
              (MSPACK_ERR_OK, firstn (N.to_nat (fi_len f)) (skipn (N.to_nat (fi_off f)) (pays (fo_comp fo) bs)), st').
Proof.
  intros Hfo Hct Hpre Hfile Hoff Hnb Hwf Hin. unfold prechecks in Hpre.
  apply andb_true_iff in Hpre as [Hpre H4]. apply andb_true_iff in Hpre as [Hpre H3]. apply andb_true_iff in Hpre as [H1 H2].
  apply N.leb_le in H1, H2. apply negb_true_iff in H3.
  unfold extract. replace (CAB_LENGTHMAX <? fi_off f) with false by (symmetry; apply N.ltb_ge; exact H1).
  replace (CAB_LENGTHMAX - fi_off f <? fi_len f) with false by (symmetry; apply N.ltb_ge; exact H2). cbn [andb]. rewrite Hfo, H3.
  assert (Hmax : negb (p_salvage par) && (((fo_nblocks fo * CAB_BLOCKMAX) mod M32 <? fi_off f) || ((fo_nblocks fo * CAB_BLOCKMAX) mod M32 - fi_off f <? fi_len f)) = false).
  { destruct (p_salvage par); [reflexivity|]. cbn [orb negb andb] in *. apply andb_true_iff in H4 as [A B]. apply N.leb_le in A, B.
    replace (_ <? fi_off f) with false by (symmetry; apply N.ltb_ge; exact A). replace (_ <? fi_len f) with false by (symmetry; apply N.ltb_ge; exact B). reflexivity. }
  rewrite Hmax. cbn [cs_init cs_folder cs_dec cs_host cs_bst negb orb].
  assert (Hinit : init_decomp (fo_comp fo) = inr (DNoned 0)).
  { unfold init_decomp. unfold ctype in Hct. rewrite Hct. reflexivity. }
  rewrite Hinit. cbn [N.eqb negb cs_dec cs_host cs_bst cs_folder].
  destruct (N.eqb_spec (fi_len f) 0) as [Z0|NZ]; [rewrite Z0; eexists; reflexivity|].
  set (comp := fo_comp fo) in *. set (S := pays comp bs) in *.
  assert (Hnl : ctype comp <> cffoldCOMPTYPE_LZX) by (rewrite Hct; discriminate).
  set (h0 := clear_out (with_writing (mkH (fo_offset fo) true [] 0 0 0 0 false [] 0) false)).
  assert (HQ0 : Q (c_bres cab) comp (fo_nblocks fo) file false [] 0 0 post h0 {| rem := S; out := [] |}).
  { unfold Q, h0. cbn. repeat split. exists pre, bs. split; [|reflexivity]. unfold at_blocks. cbn. repeat split; try assumption.
    - intros ->. cbn in Hnb. lia.
    - intros _. lia. }
  (* skip to the member's offset *)
  assert (Hskip : exists h1 hs1 d1, (if fi_off f - h_off h0 =? 0 then (0, DNoned 0, {| bbuf := []; bend := false |}, h0)
                                     else dec_call file par cab fo (DNoned 0) {| bbuf := []; bend := false |} h0 (fi_off f - h_off h0)) = (0, d1, {| bbuf := []; bend := false |}, h1) /\
            d1 = DNoned 0 /\ Q (c_bres cab) comp (fo_nblocks fo) file false [] 0 0 post h1 hs1 /\ rem hs1 = skipn (N.to_nat (fi_off f)) S).
  { change (h_off h0) with 0. rewrite N.sub_0_r. destruct (N.eqb_spec (fi_off f) 0) as [E0|NE].
    - exists h0, {| rem := S; out := [] |}, (DNoned 0). rewrite E0. split; [reflexivity|split; [reflexivity|split; [exact HQ0|reflexivity]]].
    - unfold dec_call. cbn [N.eqb negb].
      destruct (noned_ok par (c_bres cab) comp (fo_nblocks fo) file Hnl bufpos false [] 0 0 post
                  (Datatypes.S (N.to_nat (fi_off f / N.max (p_bufsize par) 1)) + 1) (fi_off f) h0 _ HQ0) as (h1 & hs1 & E & HQ1 & Hr & _).
      + cbn [rem]. lia.
      + right. rewrite N.max_l by lia. lia.
      + fold comp. rewrite E. exists h1, hs1, (DNoned 0). split; [reflexivity|split; [reflexivity|split; [exact HQ1|exact Hr]]]. }
  destruct Hskip as (h1 & hs1 & d1 & E1 & -> & HQ1 & Hr1). rewrite E1. cbn [N.eqb negb].
  (* extract *)
  assert (HQ1' : Q (c_bres cab) comp (fo_nblocks fo) file true [] (h_off h1) 0 post (with_writing h1 true) {| rem := rem hs1; out := [] |}).
  { destruct HQ1 as ((pre1 & bs1 & Hat & Hrem) & Hw & Hh & Ho & Hout). unfold Q, with_writing.
    cbn [h_off h_writing h_hint h_out h_ibuf h_pos h_block h_open rem out]. split; [|split; [reflexivity|split; [exact Hh|split; [cbn; lia|rewrite Hout; reflexivity]]]].
    exists pre1, bs1. split; [|exact Hrem]. destruct Hat as (A & B & C & D & E). unfold at_blocks. cbn [h_pos h_block]. repeat split; assumption. }
  unfold dec_call. cbn [N.eqb negb].
  destruct (noned_ok par (c_bres cab) comp (fo_nblocks fo) file Hnl bufpos true [] (h_off h1) 0 post
              (Datatypes.S (N.to_nat (fi_len f / N.max (p_bufsize par) 1)) + 1) (fi_len f) (with_writing h1 true) _ HQ1') as (h2 & hs2 & E2 & HQ2 & Hr2 & Ho2).
  - cbn [rem]. rewrite Hr1. unfold len. rewrite skipn_length. unfold len in Hin. lia.
  - right. rewrite N.max_l by lia. lia.
  - fold comp. rewrite E2. cbn [N.eqb negb]. eexists. f_equal. f_equal.
    destruct HQ2 as (_ & _ & _ & _ & Hout). rewrite Hout, Ho2. cbn [rem out]. rewrite app_nil_r, app_nil_r, rev_append_rev, app_nil_r, rev_involutive, Hr1. reflexivity.
Qed.
End StoredExtract.

(* ---------- extract() of a member of an MSZIP folder = the ideal run of the MSZIP port on the concatenated payloads ---------- *)
Section ChainedIdeal.
Variable par : params.
Variables (bres comp nblocks : N).
Variable file : list N.
Hypothesis not_lzx : ctype comp <> cffoldCOMPTYPE_LZX.

Theorem cab_buffered_ideal_rel {A} (p : sprog A) bufsize rule w o0 off0 hint post i b h hs : 0 < bufsize ->
  Q bres comp nblocks file w o0 off0 hint post h hs -> R rule i b hs ->
  let '((r2, b'), h') := Cab.cexec file par bres comp nblocks h (buffered bufsize rule p b) in
  let '(r1, i') := ideal rule hint p i in
  r1 = r2 /\ exists hs', Q bres comp nblocks file w o0 off0 hint post h' hs' /\ iout i' = out hs' /\ (forall a, r1 = SVal a -> R rule i' b' hs').
Proof.
  intros Hb HQ HR.
  pose proof (host_sim par bres comp nblocks file not_lzx w o0 off0 hint post (buffered bufsize rule p b) h hs HQ) as S1.
  pose proof (buffered_refines_ideal_rel bufsize rule hint Hb p i b hs HR) as S2.
  destruct (Cab.cexec file par bres comp nblocks h (buffered bufsize rule p b)) as [[r2 b'] h'].
  destruct (Sim.exec hint hs (buffered bufsize rule p b)) as [[r2' b''] hs'].
  destruct (ideal rule hint p i) as [r1 i']. destruct S1 as [E HQ']. inversion E; subst. destruct S2 as (E1 & E2 & E3).
  split; [exact E1|]. exists hs'. split; [exact HQ'|]. split; [exact E2|exact E3].
Qed.
End ChainedIdeal.

Section MszipExtract.
Variable file : list N.
Variable par : params.
Variable cab : cabinet.
Hypothesis bufpos : 0 < p_bufsize par.

Lemma bufsize_even_pos : 0 < bufsize_even par.
Proof. unfold bufsize_even. assert (1 <= (p_bufsize par + 1) / 2) by (apply N.div_le_lower_bound; lia). lia. Qed.

Theorem mszip_extract fo f pre bs post z1 i1 z2 i2 :
  nth_error (c_folders cab) (N.to_nat (fi_folder f)) = Some fo -> ctype (fo_comp fo) = cffoldCOMPTYPE_MSZIP -> prechecks par fo f = true ->
  file = pre ++ encs bs ++ post -> fo_offset fo = Z.of_N (len pre) -> N.of_nat (length bs) = fo_nblocks fo -> Forall (wf_blk (c_bres cab)) bs ->
  fi_len f <> 0 ->
  (* the ideal run: skip to the member's offset, then decode the member *)
  (if fi_off f =? 0 then (SVal (MSPACK_ERR_OK, false, Mszip.zinit), {| irest := pays (fo_comp fo) bs ++ pad EofPad2; iout := [] |})
   else ideal EofPad2 0 (Mszip.zcall (fi_off f) Mszip.zinit) {| irest := pays (fo_comp fo) bs ++ pad EofPad2; iout := [] |}) = (SVal (MSPACK_ERR_OK, false, z1), i1) ->
  ideal EofPad2 0 (Mszip.zcall (fi_len f) z1) {| irest := irest i1; iout := [] |} = (SVal (MSPACK_ERR_OK, false, z2), i2) ->
  exists st', extract file par cab cs_init f = (MSPACK_ERR_OK, rev (iout i2), st').
Proof.
  intros Hfo Hct Hpre Hfile Hoff Hnb Hwf Hlen Hskip Hext. unfold prechecks in Hpre.
  apply andb_true_iff in Hpre as [Hpre H4]. apply andb_true_iff in Hpre as [Hpre H3]. apply andb_true_iff in Hpre as [H1 H2].
  apply N.leb_le in H1, H2. apply negb_true_iff in H3.
  unfold extract. replace (CAB_LENGTHMAX <? fi_off f) with false by (symmetry; apply N.ltb_ge; exact H1).
  replace (CAB_LENGTHMAX - fi_off f <? fi_len f) with false by (symmetry; apply N.ltb_ge; exact H2). cbn [andb]. rewrite Hfo, H3.
  assert (Hmax : negb (p_salvage par) && (((fo_nblocks fo * CAB_BLOCKMAX) mod M32 <? fi_off f) || ((fo_nblocks fo * CAB_BLOCKMAX) mod M32 - fi_off f <? fi_len f)) = false).
  { destruct (p_salvage par); [reflexivity|]. cbn [orb negb andb] in *. apply andb_true_iff in H4 as [A B]. apply N.leb_le in A, B.
    replace (_ <? fi_off f) with false by (symmetry; apply N.ltb_ge; exact A). replace (_ <? fi_len f) with false by (symmetry; apply N.ltb_ge; exact B). reflexivity. }
  rewrite Hmax. cbn [cs_init cs_folder cs_dec cs_host cs_bst negb orb].
  assert (Hinit : init_decomp (fo_comp fo) = inr (DZip Mszip.zinit)).
  { unfold init_decomp. unfold ctype in Hct. rewrite Hct. reflexivity. }
  rewrite Hinit. cbn [N.eqb negb cs_dec cs_host cs_bst cs_folder].
  replace (fi_len f =? 0) with false by (symmetry; apply N.eqb_neq; exact Hlen).
  set (comp := fo_comp fo) in *. set (S := pays comp bs) in *.
  assert (Hnl : ctype comp <> cffoldCOMPTYPE_LZX) by (rewrite Hct; discriminate).
  set (h0 := clear_out (with_writing (mkH (fo_offset fo) true [] 0 0 0 0 false [] 0) false)).
  set (b0 := {| bbuf := []; bend := false |}).
  set (i0 := {| irest := S ++ pad EofPad2; iout := [] |}) in *.
  assert (HQ0 : Q (c_bres cab) comp (fo_nblocks fo) file false [] 0 0 post h0 {| rem := S; out := [] |}).
  { unfold Q, h0. cbn. repeat split. exists pre, bs. split; [|reflexivity]. unfold at_blocks. cbn. repeat split; try assumption.
    - intros ->. cbn in Hnb. lia.
    - intros _. lia. }
  assert (HR0 : R EofPad2 i0 b0 {| rem := S; out := [] |}) by (unfold R, i0, b0; cbn; repeat split; auto; discriminate).
  (* skip *)
  assert (Hs : exists h1 hs1 b1, (if fi_off f - h_off h0 =? 0 then (0, DZip Mszip.zinit, b0, h0)
                                  else dec_call file par cab fo (DZip Mszip.zinit) b0 h0 (fi_off f - h_off h0)) = (0, DZip z1, b1, h1) /\
            Q (c_bres cab) comp (fo_nblocks fo) file false [] 0 0 post h1 hs1 /\ R EofPad2 i1 b1 hs1).
  { change (h_off h0) with 0. rewrite N.sub_0_r. destruct (N.eqb_spec (fi_off f) 0) as [E0|NE].
    - inversion Hskip; subst. exists h0, {| rem := S; out := [] |}, b0. split; [reflexivity|split; [exact HQ0|exact HR0]].
    - unfold dec_call.
      pose proof (cab_buffered_ideal_rel par (c_bres cab) comp (fo_nblocks fo) file Hnl (Mszip.zcall (fi_off f) Mszip.zinit) (bufsize_even par) EofPad2
                    false [] 0 0 post i0 b0 h0 _ bufsize_even_pos HQ0 HR0) as P.
      fold comp. destruct (Cab.cexec file par (c_bres cab) comp (fo_nblocks fo) h0 (buffered (bufsize_even par) EofPad2 (Mszip.zcall (fi_off f) Mszip.zinit) b0)) as [[r2 b1] h1].
      rewrite Hskip in P. destruct P as (<- & hs1 & HQ1 & _ & HR1). cbn [andb]. exists h1, hs1, b1. split; [reflexivity|split; [exact HQ1|exact (HR1 _ eq_refl)]]. }
  destruct Hs as (h1 & hs1 & b1 & E1 & HQ1 & HR1). rewrite E1. cbn [N.eqb negb].
  (* extract *)
  assert (HQ1' : Q (c_bres cab) comp (fo_nblocks fo) file true [] (h_off h1) 0 post (with_writing h1 true) {| rem := rem hs1; out := [] |}).
  { destruct HQ1 as ((pre1 & bs1 & Hat & Hrem) & Hw & Hh & Ho & Hout). unfold Q, with_writing.
    cbn [h_off h_writing h_hint h_out h_ibuf h_pos h_block h_open rem out]. split; [|split; [reflexivity|split; [exact Hh|split; [cbn; lia|rewrite Hout; reflexivity]]]].
    exists pre1, bs1. split; [|exact Hrem]. destruct Hat as (A & B & C & D & E). unfold at_blocks. cbn [h_pos h_block]. repeat split; assumption. }
  assert (HR1' : R EofPad2 {| irest := irest i1; iout := [] |} b1 {| rem := rem hs1; out := [] |}).
  { destruct HR1 as (A & B & C & D). unfold R. cbn. repeat split; assumption. }
  unfold dec_call.
  pose proof (cab_buffered_ideal_rel par (c_bres cab) comp (fo_nblocks fo) file Hnl (Mszip.zcall (fi_len f) z1) (bufsize_even par) EofPad2
                true [] (h_off h1) 0 post _ b1 (with_writing h1 true) _ bufsize_even_pos HQ1' HR1') as P.
  fold comp. destruct (Cab.cexec file par (c_bres cab) comp (fo_nblocks fo) (with_writing h1 true) (buffered (bufsize_even par) EofPad2 (Mszip.zcall (fi_len f) z1) b1)) as [[r2 b2] h2].
  rewrite Hext in P. destruct P as (<- & hs2 & HQ2 & Ho2 & _). cbn [andb N.eqb negb]. eexists. f_equal. f_equal.
  destruct HQ2 as (_ & _ & _ & _ & Hout). rewrite Hout, <- Ho2, app_nil_r, rev_append_rev, app_nil_r. reflexivity.
Qed.
End MszipExtract.

(* ---------- the same for Quantum folders (the block reader appends the trailer byte 0xFF to every block: pays) ---------- *)
Section QtmExtract.
Variable file : list N.
Variable par : params.
Variable cab : cabinet.
Hypothesis bufpos : 0 < p_bufsize par.

Theorem qtm_extract fo f pre bs post q1 i1 q2 i2 :
  nth_error (c_folders cab) (N.to_nat (fi_folder f)) = Some fo -> ctype (fo_comp fo) = cffoldCOMPTYPE_QUANTUM ->
  10 <= N.land (N.shiftr (fo_comp fo) 8) 31 -> N.land (N.shiftr (fo_comp fo) 8) 31 <= 21 -> prechecks par fo f = true ->
  file = pre ++ encs bs ++ post -> fo_offset fo = Z.of_N (len pre) -> N.of_nat (length bs) = fo_nblocks fo -> Forall (wf_blk (c_bres cab)) bs ->
  fi_len f <> 0 ->
  let q0 := Qtm.qtm_init (N.land (N.shiftr (fo_comp fo) 8) 31) in
  (if fi_off f =? 0 then (SVal (inr (tt, q0)), {| irest := pays (fo_comp fo) bs ++ pad EofPad2; iout := [] |})
   else ideal EofPad2 0 (Qtm.decompress (fi_off f) q0) {| irest := pays (fo_comp fo) bs ++ pad EofPad2; iout := [] |}) = (SVal (inr (tt, q1)), i1) ->
  ideal EofPad2 0 (Qtm.decompress (fi_len f) q1) {| irest := irest i1; iout := [] |} = (SVal (inr (tt, q2)), i2) ->
  exists st', extract file par cab cs_init f = (MSPACK_ERR_OK, rev (iout i2), st').
Proof.
  intros Hfo Hct Hw1 Hw2 Hpre Hfile Hoff Hnb Hwf Hlen q0 Hskip Hext. unfold prechecks in Hpre.
  apply andb_true_iff in Hpre as [Hpre H4]. apply andb_true_iff in Hpre as [Hpre H3]. apply andb_true_iff in Hpre as [H1 H2].
  apply N.leb_le in H1, H2. apply negb_true_iff in H3.
  unfold extract. replace (CAB_LENGTHMAX <? fi_off f) with false by (symmetry; apply N.ltb_ge; exact H1).
  replace (CAB_LENGTHMAX - fi_off f <? fi_len f) with false by (symmetry; apply N.ltb_ge; exact H2). cbn [andb]. rewrite Hfo, H3.
  assert (Hmax : negb (p_salvage par) && (((fo_nblocks fo * CAB_BLOCKMAX) mod M32 <? fi_off f) || ((fo_nblocks fo * CAB_BLOCKMAX) mod M32 - fi_off f <? fi_len f)) = false).
  { destruct (p_salvage par); [reflexivity|]. cbn [orb negb andb] in *. apply andb_true_iff in H4 as [A B]. apply N.leb_le in A, B.
    replace (_ <? fi_off f) with false by (symmetry; apply N.ltb_ge; exact A). replace (_ <? fi_len f) with false by (symmetry; apply N.ltb_ge; exact B). reflexivity. }
  rewrite Hmax. cbn [cs_init cs_folder cs_dec cs_host cs_bst negb orb].
  assert (Hinit : init_decomp (fo_comp fo) = inr (DQtm q0)).
  { unfold init_decomp. unfold ctype in Hct. rewrite Hct. cbn [N.eqb].
    replace (10 <=? N.land (N.shiftr (fo_comp fo) 8) 31) with true by (symmetry; apply N.leb_le; exact Hw1).
    replace (N.land (N.shiftr (fo_comp fo) 8) 31 <=? 21) with true by (symmetry; apply N.leb_le; exact Hw2). reflexivity. }
  rewrite Hinit. cbn [N.eqb negb cs_dec cs_host cs_bst cs_folder].
  replace (fi_len f =? 0) with false by (symmetry; apply N.eqb_neq; exact Hlen).
  set (comp := fo_comp fo) in *. set (S := pays comp bs) in *.
  assert (Hnl : ctype comp <> cffoldCOMPTYPE_LZX) by (rewrite Hct; discriminate).
  set (h0 := clear_out (with_writing (mkH (fo_offset fo) true [] 0 0 0 0 false [] 0) false)).
  set (b0 := {| bbuf := []; bend := false |}).
  set (i0 := {| irest := S ++ pad EofPad2; iout := [] |}) in *.
  assert (HQ0 : Q (c_bres cab) comp (fo_nblocks fo) file false [] 0 0 post h0 {| rem := S; out := [] |}).
  { unfold Q, h0. cbn. repeat split. exists pre, bs. split; [|reflexivity]. unfold at_blocks. cbn. repeat split; try assumption.
    - intros ->. cbn in Hnb. lia.
    - intros _. lia. }
  assert (HR0 : R EofPad2 i0 b0 {| rem := S; out := [] |}) by (unfold R, i0, b0; cbn; repeat split; auto; discriminate).
  assert (Hs : exists h1 hs1 b1, (if fi_off f - h_off h0 =? 0 then (0, DQtm q0, b0, h0)
                                  else dec_call file par cab fo (DQtm q0) b0 h0 (fi_off f - h_off h0)) = (0, DQtm q1, b1, h1) /\
            Q (c_bres cab) comp (fo_nblocks fo) file false [] 0 0 post h1 hs1 /\ R EofPad2 i1 b1 hs1).
  { change (h_off h0) with 0. rewrite N.sub_0_r. destruct (N.eqb_spec (fi_off f) 0) as [E0|NE].
    - inversion Hskip; subst. exists h0, {| rem := S; out := [] |}, b0. split; [reflexivity|split; [exact HQ0|exact HR0]].
    - unfold dec_call.
      pose proof (cab_buffered_ideal_rel par (c_bres cab) comp (fo_nblocks fo) file Hnl (Qtm.decompress (fi_off f) q0) (bufsize_even par) EofPad2
                    false [] 0 0 post i0 b0 h0 _ (bufsize_even_pos par bufpos) HQ0 HR0) as P.
      fold comp. destruct (Cab.cexec file par (c_bres cab) comp (fo_nblocks fo) h0 (buffered (bufsize_even par) EofPad2 (Qtm.decompress (fi_off f) q0) b0)) as [[r2 b1] h1].
      rewrite Hskip in P. destruct P as (<- & hs1 & HQ1 & _ & HR1). exists h1, hs1, b1. split; [reflexivity|split; [exact HQ1|exact (HR1 _ eq_refl)]]. }
  destruct Hs as (h1 & hs1 & b1 & E1 & HQ1 & HR1). rewrite E1. cbn [N.eqb negb].
  assert (HQ1' : Q (c_bres cab) comp (fo_nblocks fo) file true [] (h_off h1) 0 post (with_writing h1 true) {| rem := rem hs1; out := [] |}).
  { destruct HQ1 as ((pre1 & bs1 & Hat & Hrem) & Hw & Hh & Ho & Hout). unfold Q, with_writing.
    cbn [h_off h_writing h_hint h_out h_ibuf h_pos h_block h_open rem out]. split; [|split; [reflexivity|split; [exact Hh|split; [cbn; lia|rewrite Hout; reflexivity]]]].
    exists pre1, bs1. split; [|exact Hrem]. destruct Hat as (A & B & C & D & E). unfold at_blocks. cbn [h_pos h_block]. repeat split; assumption. }
  assert (HR1' : R EofPad2 {| irest := irest i1; iout := [] |} b1 {| rem := rem hs1; out := [] |}).
  { destruct HR1 as (A & B & C & D). unfold R. cbn. repeat split; assumption. }
  unfold dec_call.
  pose proof (cab_buffered_ideal_rel par (c_bres cab) comp (fo_nblocks fo) file Hnl (Qtm.decompress (fi_len f) q1) (bufsize_even par) EofPad2
                true [] (h_off h1) 0 post _ b1 (with_writing h1 true) _ (bufsize_even_pos par bufpos) HQ1' HR1') as P.
  fold comp. destruct (Cab.cexec file par (c_bres cab) comp (fo_nblocks fo) (with_writing h1 true) (buffered (bufsize_even par) EofPad2 (Qtm.decompress (fi_len f) q1) b1)) as [[r2 b2] h2].
  rewrite Hext in P. destruct P as (<- & hs2 & HQ2 & Ho2 & _). cbn [N.eqb negb]. eexists. f_equal. f_equal.
  destruct HQ2 as (_ & _ & _ & _ & Hout). rewrite Hout, <- Ho2, app_nil_r, rev_append_rev, app_nil_r. reflexivity.
Qed.
End QtmExtract.
