(* Input-buffer-size independence of the three CAB decoders: instances of the generic
   refinement theorem (Proofs/Sim.v) for the ported decoder programs. *)
From Coq Require Import List NArith ZArith Lia Bool.
Import ListNotations.
From MSP Require Import Base.Src Proofs.Sim Model.Mszip Model.Lzx Model.Qtm.
Local Open Scope N_scope.

Definition fresh_ideal (inp : list byte) : ist := {| irest := inp ++ pad EofPad2; iout := [] |}.
Definition fresh_host (inp : list byte) : hst := {| rem := inp; out := [] |}.
Definition fresh_buf : bst := {| bbuf := []; bend := false |}.

Lemma R_fresh inp : R EofPad2 (fresh_ideal inp) fresh_buf (fresh_host inp).
Proof. unfold R, fresh_ideal, fresh_buf, fresh_host; cbn. repeat split; auto; discriminate. Qed.

(* any decoder program p: same status, same output bytes, whatever the input buffer size *)
Theorem decoder_bufsize_independent {A} (p : sprog A) bufsize hint inp : 0 < bufsize ->
  let '(r1, i') := ideal EofPad2 hint p (fresh_ideal inp) in
  let '((r2, _), h') := exec hint (fresh_host inp) (buffered bufsize EofPad2 p fresh_buf) in
  r1 = r2 /\ iout i' = out h'.
Proof. intro Hb. apply (buffered_refines_ideal bufsize EofPad2 hint Hb p). apply R_fresh. Qed.

Corollary decoder_two_bufsizes {A} (p : sprog A) b1 b2 hint inp : 0 < b1 -> 0 < b2 ->
  let '((r1, _), h1) := exec hint (fresh_host inp) (buffered b1 EofPad2 p fresh_buf) in
  let '((r2, _), h2) := exec hint (fresh_host inp) (buffered b2 EofPad2 p fresh_buf) in
  r1 = r2 /\ out h1 = out h2.
Proof.
  intros H1 H2. pose proof (decoder_bufsize_independent p b1 hint inp H1) as P1.
  pose proof (decoder_bufsize_independent p b2 hint inp H2) as P2.
  destruct (ideal EofPad2 hint p (fresh_ideal inp)) as [r i'].
  destruct (exec hint (fresh_host inp) (buffered b1 EofPad2 p fresh_buf)) as [[r1 ?] h1].
  destruct (exec hint (fresh_host inp) (buffered b2 EofPad2 p fresh_buf)) as [[r2 ?] h2].
  destruct P1 as [A1 B1], P2 as [A2 B2]. split; congruence.
Qed.
