(* The MSZIP frame decoder (Model/Mszip.v zframe: 'CK' search + inflate) only reads: it makes no write call, and when it fails it
   fails with an inflate error code, never with a host status.  Proved compositionally over the decoder's monadic definition. *)
From Coq Require Import List NArith Lia Bool.
Import ListNotations.
From MSP Require Import Base.Src Model.Mszip.
Local Open Scope N_scope.

Inductive clean {A : Type} : sprog (ierr + A) -> Prop :=
| clean_ok a : clean (SRet (inr a))
| clean_err c : clean (SRet (inl (IErr c)))
| clean_next k : (forall b, clean (k b)) -> clean (SDo SNext k)
| clean_avail k : (forall u, clean (k u)) -> clean (SDo SAvail k)
| clean_copy n k : (forall l, clean (k l)) -> clean (SDo (SCopyIn n) k)
| clean_hint k : (forall h, clean (k h)) -> clean (SDo SHint k).
Definition cleanm {A} (m : dm A) : Prop := forall s, clean (m s).

Lemma clean_sbind {A B} (p : sprog (ierr + A)) (f : ierr + A -> sprog (ierr + B)) :
  clean p -> (forall a, clean (f (inr a))) -> (forall c, clean (f (inl (IErr c)))) -> clean (sbind p f).
Proof.
  intros Hp Ha He. induction Hp as [a|c|k Hk IH|k Hk IH|n k Hk IH|k Hk IH]; cbn [sbind]; auto; constructor; exact IH.
Qed.
Lemma cleanm_bnd {A B} (m : dm A) (f : A -> dm B) : cleanm m -> (forall a, cleanm (f a)) -> cleanm (bnd m f).
Proof.
  intros Hm Hf s. unfold bnd. apply clean_sbind; [apply Hm| |].
  - intros [a s']. apply Hf.
  - intro c. constructor.
Qed.
Lemma cleanm_ret {A} (a : A) : cleanm (ret a). Proof. intro s. constructor. Qed.
Lemma cleanm_fail {A} c : cleanm (@fail A (IErr c)). Proof. intro s. constructor. Qed.
Lemma cleanm_get : cleanm get. Proof. intro s. constructor. Qed.
Lemma cleanm_put s0 : cleanm (put s0). Proof. intro s. constructor. Qed.
Lemma cleanm_next : cleanm next_byte. Proof. intro s. constructor. intro b. constructor. Qed.
Create HintDb cl.
#[export] Hint Resolve cleanm_ret cleanm_fail cleanm_get cleanm_put cleanm_next : cl.

Ltac cl := repeat (match goal with
  | |- cleanm (bnd _ _) => apply cleanm_bnd
  | |- cleanm (if ?b then _ else _) => destruct b
  | |- cleanm (match ?x with _ => _ end) => destruct x
  | |- forall _, _ => intro
  | |- _ => solve [auto with cl]
  end).

Lemma cleanm_ensure f : forall n, cleanm (ensure f n).
Proof. induction f as [|f IH]; intro n; cbn [ensure]; cl. Qed.
#[export] Hint Resolve cleanm_ensure : cl.
Lemma cleanm_peek n : cleanm (peek n). Proof. unfold peek. cl. Qed.
Lemma cleanm_remove n : cleanm (remove n). Proof. unfold remove. cl. Qed.
#[export] Hint Resolve cleanm_peek cleanm_remove : cl.
Lemma cleanm_read_bits n : cleanm (read_bits n). Proof. unfold read_bits. cl. Qed.
#[export] Hint Resolve cleanm_read_bits : cl.
Lemma cleanm_flush : cleanm flush_if_needed. Proof. unfold flush_if_needed. cl. Qed.
#[export] Hint Resolve cleanm_flush : cl.
Lemma cleanm_out_byte b : cleanm (out_byte b). Proof. unfold out_byte. cl. Qed.
#[export] Hint Resolve cleanm_out_byte : cl.
Lemma cleanm_copy_match n : forall mpos, cleanm (copy_match n mpos).
Proof. induction n as [|n IH]; intro mpos; cbn [copy_match]; cl. Qed.
#[export] Hint Resolve cleanm_copy_match : cl.
Lemma cleanm_traverse f : forall table maxsyms sym idx, cleanm (traverse f table maxsyms sym idx).
Proof. induction f as [|f IH]; intros; cbn [traverse]; cl. Qed.
#[export] Hint Resolve cleanm_traverse : cl.
Lemma cleanm_read_huffsym t l tb ms : cleanm (read_huffsym t l tb ms). Proof. unfold read_huffsym. cl. Qed.
#[export] Hint Resolve cleanm_read_huffsym : cl.
Lemma cleanm_rl_bitlens l : forall blen, cleanm (rl_bitlens l blen).
Proof. induction l as [|o l IH]; intro blen; cbn [rl_bitlens]; cl. Qed.
#[export] Hint Resolve cleanm_rl_bitlens : cl.
Lemma cleanm_rl_codes f : forall bt bl total lens i last, cleanm (rl_codes f bt bl total lens i last).
Proof.
  induction f as [|f IH]; intros; cbn [rl_codes]; cl.
  all: match goal with |- cleanm (let '(_, _) := ?x in _) => destruct x end; cl.
  all: match goal with |- cleanm (let '(_, _) := ?x in _) => destruct x end; cl.
Qed.
#[export] Hint Resolve cleanm_rl_codes : cl.
Lemma cleanm_zip_read_lens : cleanm zip_read_lens. Proof. unfold zip_read_lens. cl. Qed.
#[export] Hint Resolve cleanm_zip_read_lens : cl.
Lemma cleanm_block_loop f : cleanm (block_loop f).
Proof. induction f as [|f IH]; cbn [block_loop]; cl. Qed.
#[export] Hint Resolve cleanm_block_loop : cl.
Lemma cleanm_put_bytes l : cleanm (put_bytes l).
Proof. induction l as [|b l IH]; cbn [put_bytes]; cl. Qed.
#[export] Hint Resolve cleanm_put_bytes : cl.
Lemma cleanm_copyin n : cleanm (fun st => SDo (SCopyIn n) (fun l => SRet (inr (l, st)))).
Proof. intro s. constructor. intro l. constructor. Qed.
#[export] Hint Resolve cleanm_copyin : cl.
Lemma cleanm_stored_copy f : forall len, cleanm (stored_copy f len).
Proof. induction f as [|f IH]; intro len; cbn [stored_copy]; cl. Qed.
#[export] Hint Resolve cleanm_stored_copy : cl.
Lemma cleanm_take_bitbuf f : forall i acc, cleanm (take_bitbuf_bytes f i acc).
Proof. induction f as [|f IH]; intros; cbn [take_bitbuf_bytes]; cl. Qed.
Lemma cleanm_take_raw n : forall acc, cleanm (take_raw n acc).
Proof. induction n as [|n IH]; intros; cbn [take_raw]; cl. Qed.
#[export] Hint Resolve cleanm_take_bitbuf cleanm_take_raw : cl.
Lemma cleanm_inflate f : cleanm (inflate f).
Proof.
  induction f as [|f IH]; cbn [inflate]; cl.
  all: try (match goal with |- cleanm (let '(_, _) := ?x in _) => destruct x end; cl).
Qed.
#[export] Hint Resolve cleanm_inflate : cl.
Lemma cleanm_find_ck f : forall st, cleanm (find_ck f st).
Proof. induction f as [|f IH]; intro st; cbn [find_ck]; cl. Qed.
#[export] Hint Resolve cleanm_find_ck : cl.
Lemma cleanm_zframe : cleanm zframe. Proof. unfold zframe. cl. Qed.

(* what cleanliness means for a run on the ideal source *)
Lemma clean_run {A} rule hint (p : sprog (ierr + A)) : clean p -> forall s r s', ideal rule hint p s = (r, s') ->
  iout s' = iout s /\ (forall e, r = SVal (inl e) -> exists c, e = IErr c).
Proof.
  intro Hp. induction Hp as [a|c|k Hk IH|k Hk IH|n k Hk IH|k Hk IH]; intros s r s' H; cbn [ideal] in H.
  - inversion H; subst. split; [reflexivity|]. intros e E. inversion E.
  - inversion H; subst. split; [reflexivity|]. intros e E. inversion E; subst. eexists; reflexivity.
  - unfold ideal_next in H. destruct (irest s) as [|b r0].
    + inversion H; subst. split; [reflexivity|]. intros e E. inversion E.
    + apply IH in H. cbn [iout] in H. exact H.
  - destruct (irest s) as [|b r0].
    + inversion H; subst. split; [reflexivity|]. intros e E. inversion E.
    + apply IH in H. exact H.
  - destruct (ideal_take rule n s []) as [[l s1]|e] eqn:T.
    + apply IH in H. assert (iout s1 = iout s).
      { clear - T. revert T. generalize (@nil byte). revert s. induction n as [|n IHn]; intros s acc T; cbn [ideal_take] in T.
        - inversion T; subst. reflexivity.
        - unfold ideal_next in T. destruct (irest s) as [|b r0]; [discriminate|]. apply IHn in T. cbn [iout] in T. exact T. }
      destruct H as [H1 H2]. split; [congruence|exact H2].
    + inversion H; subst. split; [reflexivity|]. intros e' E. inversion E.
  - apply IH in H. exact H.
Qed.
