From Coq Require Import List NArith Bool Lia.
Import ListNotations.
From MSP Require Import Model.Cabx.
Local Open Scope N_scope.

Section Loop.
Variable M : Type.
Variables (matches extract_ok path_ok writable : M -> bool).
Notation proc := (process M matches extract_ok path_ok writable).

(* every mode acts on exactly the members selected by the filter, in listing order, each once *)
Theorem modes_select_same_members : forall md ms, map target (fst (proc md ms)) = filter matches ms.
Proof.
  intros md. induction ms as [|m rest IH]; cbn [process filter]; [reflexivity|].
  destruct (proc md rest) as [acts errs] eqn:E. cbn [fst] in IH.
  destruct (matches m); cbn [negb]; [|exact IH].
  destruct md; cbn [fst map target]; try (f_equal; exact IH).
  destruct (path_ok m); cbn [negb fst map target]; [|f_equal; exact IH].
  destruct (writable m); cbn [fst map target]; f_equal; exact IH.
Qed.
Corollary modes_agree : forall md1 md2 ms, map target (fst (proc md1 ms)) = map target (fst (proc md2 ms)).
Proof. intros. rewrite !modes_select_same_members. reflexivity. Qed.

(* listing never fails; the other modes count exactly the selected members that failed *)
Theorem list_no_errors : forall ms, snd (proc MList ms) = 0.
Proof.
  induction ms as [|m rest IH]; cbn [process]; [reflexivity|]. destruct (proc MList rest) as [acts errs]. cbn [snd] in *.
  destruct (matches m); cbn [negb snd]; exact IH.
Qed.
Definition failed_test (m : M) : bool := matches m && negb (extract_ok m).
Theorem test_errors_count : forall ms, snd (proc MTest ms) = N.of_nat (length (filter failed_test ms)).
Proof.
  induction ms as [|m rest IH]; cbn [process filter length]; [reflexivity|]. destruct (proc MTest rest) as [acts errs]. cbn [snd] in *.
  unfold failed_test at 1. destruct (matches m); cbn [negb andb snd]; [|exact IH].
  destruct (extract_ok m); cbn [negb N.b2n length snd]; rewrite IH; [lia|rewrite Nat2N.inj_succ; lia].
Qed.
Theorem exit_zero_iff_no_failure : forall ms, exit_status M matches extract_ok path_ok writable MTest ms = 0 <-> filter failed_test ms = [].
Proof.
  intros ms. unfold exit_status. rewrite test_errors_count. destruct (filter failed_test ms) as [|x l]; cbn [length]; [split; reflexivity|].
  rewrite Nat2N.inj_succ. destruct (N.eqb_spec (N.succ (N.of_nat (length l))) 0); [lia|]. split; discriminate.
Qed.
End Loop.

(* permission bits: finite domain (attribute bits RDONLY and EXEC, 9 umask bits) swept exhaustively *)
Definition perm_spec (attribs umask : N) : bool :=
  let p := perm_bits attribs umask in
  let ro := negb (N.land attribs ATTR_RDONLY =? 0) in let ex := negb (N.land attribs ATTR_EXEC =? 0) in
  (N.land p (N.land umask 511) =? 0) &&                                         (* nothing the umask forbids *)
  (N.land p 292 =? N.land 292 (N.lxor 511 (N.land umask 511))) &&                (* read bits: always, minus umask *)
  (N.land p 146 =? (if ro then 0 else N.land 146 (N.lxor 511 (N.land umask 511)))) &&   (* write bits iff not read-only *)
  (N.land p 73 =? (if ex then N.land 73 (N.lxor 511 (N.land umask 511)) else 0)).       (* execute bits iff EXEC *)
Definition nseq (n : nat) : list N := map N.of_nat (seq 0 n).
Lemma perm_sweep : forallb (fun a => forallb (fun u => perm_spec a u) (nseq 512)) [0; 1; 64; 65; 32; 33; 96; 97] = true.
Proof. vm_compute. reflexivity. Qed.
