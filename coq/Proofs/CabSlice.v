(* A member of an MSZIP folder is a slice of the folder's decode: cabd_extract's "decode up to the member's offset, then the member"
   equals cutting [offset, offset + length) out of ONE ideal run of the decoder over the folder's data blocks.
   Combines the block-reader / buffered-interpreter result (Proofs/CabP.v) with the decoder's own resumability
   (Proofs/MszipResume.v) and output accounting (Proofs/MszipAcct.v). *)
From Coq Require Import List NArith ZArith Lia Bool.
Import ListNotations.
From MSP Require Import Base.Src Gen.Consts Gen.Tables Model.Chm Model.Cab Proofs.ChmEnc Proofs.CabP Proofs.MszipResume Proofs.MszipAcct Proofs.IdealOut.
From MSP Require Model.Mszip.
Local Open Scope N_scope.

Section Slice.
Variable file : list N.
Variable par : params.
Variable cab : cabinet.
Hypothesis bufpos : 0 < p_bufsize par.

Lemma rev_skipn_len (a b : list N) n : N.of_nat (length b) = n -> skipn (N.to_nat n) (rev (a ++ b)) = rev a.
Proof.
  intro H. subst n. rewrite rev_app_distr, Nat2N.id, <- (rev_length b), skipn_app, Nat.sub_diag, (skipn_all (rev b)). reflexivity.
Qed.

Theorem mszip_member_is_slice fo f pre bs post zf iF :
  nth_error (c_folders cab) (N.to_nat (fi_folder f)) = Some fo -> ctype (fo_comp fo) = cffoldCOMPTYPE_MSZIP -> prechecks par fo f = true ->
  file = pre ++ encs bs ++ post -> fo_offset fo = Z.of_N (len pre) -> N.of_nat (length bs) = fo_nblocks fo -> Forall (wf_blk (c_bres cab)) bs ->
  fi_len f <> 0 ->
  (* ONE ideal run of the decoder over the folder's payloads, for offset + length bytes *)
  ideal EofPad2 0 (Mszip.zcall (fi_off f + fi_len f) Mszip.zinit) {| irest := pays (fo_comp fo) bs ++ pad EofPad2; iout := [] |} = (SVal (MSPACK_ERR_OK, false, zf), iF) ->
  exists st', extract file par cab cs_init f = (MSPACK_ERR_OK, skipn (N.to_nat (fi_off f)) (rev (iout iF)), st') /\
              N.of_nat (length (skipn (N.to_nat (fi_off f)) (rev (iout iF)))) = fi_len f.
Proof.
  intros Hfo Hct Hpre Hfile Hoff Hnb Hwf Hlen Hrun.
  set (i0 := {| irest := pays (fo_comp fo) bs ++ pad EofPad2; iout := [] |}) in *.
  assert (Hz0 : Mszip.zo Mszip.zinit <= Mszip.zend Mszip.zinit) by (vm_compute; discriminate).
  (* the first part succeeds on its own, and the second part is then determined by the whole *)
  destruct (zcall_prefix EofPad2 0 _ _ _ _ _ _ Hz0 Hrun) as (z1 & i1 & H1).
  assert (Nc : nofuel (SVal (MSPACK_ERR_OK, false, zf))) by (unfold nofuel; vm_compute; discriminate).
  pose proof (zcall_split EofPad2 0 _ _ _ _ _ _ _ _ Hz0 H1 Hrun Nc) as H2.
  destruct (zcall_acct EofPad2 0 _ _ _ _ _ Hz0 H1) as (_ & _ & A1). destruct (A1 _ _ eq_refl) as [L1 Hz1].
  destruct (zcall_acct EofPad2 0 _ _ _ _ _ Hz1 H2) as (_ & _ & A2). destruct (A2 _ _ eq_refl) as [L2 _].
  (* the second run started from an empty output *)
  set (i1e := {| irest := irest i1; iout := [] |}).
  assert (Hi1 : i1 = push i1e (iout i1)) by (destruct i1; reflexivity).
  rewrite Hi1, ideal_push in H2. destruct (ideal EofPad2 0 (Mszip.zcall (fi_len f) z1) i1e) as [r2 i2] eqn:E2.
  apply pair_equal_spec in H2 as [Hr2 HiF]. subst r2.
  assert (Hskip : (if fi_off f =? 0 then (SVal (MSPACK_ERR_OK, false, Mszip.zinit), i0)
                   else ideal EofPad2 0 (Mszip.zcall (fi_off f) Mszip.zinit) i0) = (SVal (MSPACK_ERR_OK, false, z1), i1) \/ fi_off f = 0).
  { destruct (N.eqb_spec (fi_off f) 0) as [E0|NE]; [right; exact E0|left; exact H1]. }
  assert (Lo : N.of_nat (length (iout i1)) = fi_off f).
  { unfold olen in L1. unfold i0 in L1. cbn [iout length] in L1. lia. }
  assert (Hout : skipn (N.to_nat (fi_off f)) (rev (iout iF)) = rev (iout i2)).
  { rewrite <- HiF. unfold push. cbn [iout]. apply rev_skipn_len. exact Lo. }
  assert (Hl2 : N.of_nat (length (rev (iout i2))) = fi_len f).
  { rewrite rev_length. unfold olen in L2. rewrite <- HiF in L2. unfold push in L2. cbn [iout] in L2. rewrite app_length in L2. lia. }
  rewrite Hout.
  assert (Hex : exists st', extract file par cab cs_init f = (MSPACK_ERR_OK, rev (iout i2), st')).
  { destruct Hskip as [Hs|E0].
  - exact (mszip_extract file par cab bufpos fo f pre bs post z1 i1 zf i2 Hfo Hct Hpre Hfile Hoff Hnb Hwf Hlen Hs E2).
  - (* offset 0: nothing is skipped; the first run did nothing *)
    assert (Hs : (if fi_off f =? 0 then (SVal (MSPACK_ERR_OK, false, Mszip.zinit), i0)
                  else ideal EofPad2 0 (Mszip.zcall (fi_off f) Mszip.zinit) i0) = (SVal (MSPACK_ERR_OK, false, Mszip.zinit), i0)) by (rewrite E0; reflexivity).
    (* with offset 0 the first run is the empty request: z1 and i1 are the initial ones *)
    rewrite E0 in H1. vm_compute in H1. apply pair_equal_spec in H1 as [Hv Hi]. injection Hv as Hv. subst z1. 
    assert (Ei : i1e = i0) by (unfold i1e; rewrite <- Hi; reflexivity). rewrite Ei in E2.
    exact (mszip_extract file par cab bufpos fo f pre bs post Mszip.zinit i0 zf i2 Hfo Hct Hpre Hfile Hoff Hnb Hwf Hlen Hs E2). }
  destruct Hex as [st' Hex]. exists st'. split; [exact Hex|exact Hl2].
Qed.
End Slice.
