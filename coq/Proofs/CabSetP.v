(* The list surgery of the executable set model (Model/CabSet.v: join_chains, run against cabd_merge) is the abstract merge of
   Model/Merge.v, whose order-independence is proved in Proofs/MergeP.v. *)
From Coq Require Import List NArith ZArith Lia Bool.
Import ListNotations.
From MSP Require Import Gen.Consts Model.Chm Model.Cab Model.CabSet.
From MSP Require Model.Merge Proofs.MergeP.
Local Open Scope N_scope.

Definition enc_id (i : oid) : N := fst i * 65536 + snd i.
Definition small (i : oid) : Prop := snd i < 65536.
Lemma enc_id_inj a b : small a -> small b -> enc_id a = enc_id b -> a = b.
Proof. destruct a as [a1 a2], b as [b1 b2]. unfold enc_id, small. cbn. intros Ha Hb E. assert (a1 = b1) by nia. subst. f_equal. lia. Qed.
Lemma enc_id_eqb a b : small a -> small b -> (enc_id a =? enc_id b) = oid_eqb a b.
Proof.
  intros Ha Hb. destruct (N.eqb_spec (enc_id a) (enc_id b)) as [E|E].
  - apply enc_id_inj in E; try assumption. subst. unfold oid_eqb. rewrite !N.eqb_refl. reflexivity.
  - symmetry. apply not_true_iff_false. intro H. apply E. unfold oid_eqb in H. apply andb_true_iff in H as [H1 H2]. apply N.eqb_eq in H1, H2.
    destruct a, b; cbn in *; subst; reflexivity.
Qed.

Definition issome {A} (o : option A) : bool := match o with Some _ => true | None => false end.
Definition afold (sf : sfolder) : Merge.fold :=
  {| Merge.fid := enc_id (sf_id sf); Merge.blocks := sf_nblocks sf; Merge.mprev := issome (sf_mprev sf); Merge.mnext := issome (sf_mnext sf) |}.
Definition afile (f : sfile) : Merge.file := {| Merge.fname := enc_id (sfi_id f); Merge.ffold := enc_id (sfi_folder f) |}.
Definition apart (ch : chain) : Merge.part := {| Merge.folders := map afold (ch_folders ch); Merge.files := map afile (ch_files ch) |}.

Lemma last_opt_split {A} (l : list A) x : last_opt l = Some x -> exists init, l = init ++ [x].
Proof.
  induction l as [|y l IH]; [discriminate|]. destruct l as [|z l'].
  - cbn. intro H. inversion H. exists []. reflexivity.
  - intro H. change (last_opt (y :: z :: l')) with (last_opt (z :: l')) in H. destruct (IH H) as (init & E). exists (y :: init). rewrite E. reflexivity.
Qed.
Lemma replace_last_snoc {A} (init : list A) x y : replace_last (init ++ [x]) y = init ++ [y].
Proof.
  induction init as [|a init IH]; [reflexivity|]. cbn [app].
  destruct (init ++ [x]) as [|z r] eqn:E; [destruct init; discriminate|].
  change (replace_last (a :: z :: r) y) with (a :: replace_last (z :: r) y). rewrite IH. reflexivity.
Qed.

Lemma filter_all {A} (p : A -> bool) l : Forall (fun x => p x = true) l -> filter p l = l.
Proof. induction 1 as [|x l Hx _ IH]; cbn [filter]; [reflexivity|]. rewrite Hx, IH. reflexivity. Qed.
Lemma filter_map_comm {A B} (f : A -> B) (p : A -> bool) (q : B -> bool) l : Forall (fun x => q (f x) = p x) l -> filter q (map f l) = map f (filter p l).
Proof. induction 1 as [|x l Hx _ IH]; cbn [filter map]; [reflexivity|]. rewrite Hx. destruct (p x); cbn [map]; rewrite IH; reflexivity. Qed.

(* whenever the executable model joins two chains, the lists it builds are those of the abstract merge *)
Theorem join_is_abstract_merge cl cr ch : join_chains cl cr = Some (Some ch) ->
  Forall (fun sf => small (sf_id sf)) (ch_folders cr) -> Forall (fun f => small (sfi_folder f)) (ch_files cl ++ ch_files cr) ->
  (forall rfol rest, ch_folders cr = rfol :: rest -> Forall (fun f => sfi_folder f <> sf_id rfol) (ch_files cl)) ->
  (forall lfol rfol rest, last_opt (ch_folders cl) = Some lfol -> ch_folders cr = rfol :: rest -> 1 <= sf_nblocks lfol + sf_nblocks rfol /\ sf_nblocks lfol + sf_nblocks rfol <= M32) ->
  apart ch = Merge.merge (apart cl) (apart cr).
Proof.
  intros Hj Hsm Hsf Hdisj Hnb. unfold join_chains in Hj.
  destruct (last_opt (ch_folders cl)) as [lfol|] eqn:El; [|discriminate].
  destruct (ch_folders cr) as [|rfol rfols] eqn:Er; [discriminate|].
  destruct (last_opt_split _ _ El) as (init & Einit).
  specialize (Hdisj rfol rfols eq_refl). destruct (Hnb lfol rfol rfols eq_refl eq_refl) as [N1 N2]. clear Hnb.
  assert (Hml : Merge.folders (apart cl) = map afold init ++ [afold lfol]) by (cbn; rewrite Einit, map_app; reflexivity).
  assert (Hmr : Merge.folders (apart cr) = afold rfol :: map afold rfols) by (cbn; rewrite Er; reflexivity).
  rewrite (MergeP.merge_spec _ _ _ _ _ _ Hml Hmr). cbn [afold Merge.mnext Merge.mprev].
  destruct (sf_mnext lfol) as [ln|] eqn:Eln; destruct (sf_mprev rfol) as [rp|] eqn:Erp; cbn [issome orb].
  4:{ inversion Hj; subst. unfold apart. cbn [ch_folders ch_files Merge.folders Merge.files]. rewrite Er, !map_app. reflexivity. }
  2,3: unfold can_merge in Hj; rewrite ?Eln, ?Erp in Hj; destruct (negb (sf_comp lfol =? sf_comp rfol)); [discriminate|]; destruct (CAB_FOLDERMAX <? sf_nblocks lfol + sf_nblocks rfol); discriminate.
  destruct (can_merge lfol rfol (ch_files cl) (ch_files cr)) as [[|]|]; try discriminate. inversion Hj; subst; clear Hj.
  unfold apart. cbn [ch_folders ch_files Merge.folders Merge.files]. f_equal.
  - rewrite Einit, replace_last_snoc, !map_app, <- app_assoc. f_equal. cbn [map app]. f_equal. unfold afold, Merge.absorb. cbn [sf_id sf_nblocks sf_mprev sf_mnext Merge.fid Merge.blocks Merge.mprev Merge.mnext].
    f_equal.
    + destruct (N.eq_dec (sf_nblocks lfol + sf_nblocks rfol) 0); [lia|].
      replace (sf_nblocks lfol + sf_nblocks rfol + M32 - 1) with ((sf_nblocks lfol + sf_nblocks rfol - 1) + 1 * M32) by lia.
      rewrite N.mod_add by (unfold M32; lia). apply N.mod_small. lia.
    + destruct (sf_mnext rfol) as [fidn|]; [|reflexivity].
      destruct (find (fun f => oid_eqb (sfi_id f) fidn) (ch_files cr)) as [f|]; [|reflexivity]. destruct (negb (oid_eqb (sfi_folder f) (sf_id rfol))); reflexivity.
  - rewrite filter_app, map_app. f_equal.
    + f_equal. apply filter_all. rewrite Forall_forall in *. intros f Hf. apply negb_true_iff. apply not_true_iff_false. intro H.
      apply (Hdisj f Hf). unfold oid_eqb in H. apply andb_true_iff in H as [H1 H2]. apply N.eqb_eq in H1, H2. destruct (sfi_folder f), (sf_id rfol); cbn in *; subst; reflexivity.
    + symmetry. apply filter_map_comm. rewrite Forall_forall in *. intros f Hf. unfold Merge.keep, afile, afold. cbn [Merge.ffold Merge.fid].
      rewrite enc_id_eqb; [reflexivity| |].
      * apply Hsf. apply in_or_app. right. exact Hf.
      * apply Hsm. left. reflexivity.
Qed.
