(* Everything lzxd_decompress does between two writes (reset, headers, code lengths, table building, block decoding, frame realignment)
   only reads: proved compositionally over the monadic definition of the LZX port (Model/Lzx.v). *)
From Coq Require Import List NArith ZArith Bool.
Import ListNotations.
From MSP Require Import Base.Src Model.Mszip Model.Lzx Proofs.NoWrite.
From RecordUpdate Require Import RecordSet.
Local Open Scope N_scope.

(* a failure status is never 0 (MSPACK_ERR_OK) *)
Definition nz {A} (r : N + A * lst) : Prop := match r with inl e => e <> 0 | inr _ => True end.
Definition nwm {A} (m : lm A) : Prop := forall s, nowrite nz (m s).
Lemma nwm_bnd {A B} (m : lm A) (f : A -> lm B) : nwm m -> (forall a, nwm (f a)) -> nwm (bnd m f).
Proof. intros Hm Hf s. unfold bnd. eapply nowrite_sbind; [apply Hm|]. intros [e|[a s']] Hn; [constructor; exact Hn|apply Hf]. Qed.
Lemma nwm_ret {A} (a : A) : nwm (ret a). Proof. intro s. constructor. exact I. Qed.
Lemma nwm_fail {A} e : e <> 0 -> nwm (@fail A e). Proof. intros He s. constructor. exact He. Qed.
Lemma nwm_get : nwm get. Proof. intro s. constructor. exact I. Qed.
Lemma nwm_put s0 : nwm (put s0). Proof. intro s. constructor. exact I. Qed.
Lemma nwm_modify f : nwm (modify f). Proof. intro s. constructor. exact I. Qed.
Lemma nwm_avail : nwm avail. Proof. intro s. constructor. intro. constructor. exact I. Qed.
Lemma nwm_next : nwm next_byte. Proof. intro s. constructor. intro. constructor. exact I. Qed.
Lemma nwm_copy_in n : nwm (copy_in n). Proof. intro s. constructor. intro. constructor. exact I. Qed.
Lemma nwm_get_hint : nwm get_hint. Proof. intro s. constructor. intro. constructor. exact I. Qed.
Lemma nwm_fail_dec {A} : nwm (@fail A ERR_DECRUNCH). Proof. apply nwm_fail. intro H. vm_compute in H. discriminate. Qed.
Lemma nwm_fail_99 {A} : nwm (@fail A 99). Proof. apply nwm_fail. discriminate. Qed.
Lemma nwm_fail_oob {A} : nwm (@fail A OOB). Proof. apply nwm_fail. discriminate. Qed.
Create HintDb nw.
#[export] Hint Resolve nwm_ret nwm_fail_dec nwm_fail_99 nwm_fail_oob nwm_get nwm_put nwm_modify nwm_avail nwm_next nwm_copy_in nwm_get_hint : nw.

Ltac nw := repeat (match goal with
  | |- nwm (bnd _ _) => apply nwm_bnd
  | |- nwm (if ?b then _ else _) => destruct b
  | |- nwm (let '(_, _) := ?x in _) => destruct x
  | |- nwm (match ?x with _ => _ end) => destruct x
  | |- forall _, _ => intro
  | |- _ => solve [auto with nw]
  end).

Lemma nwm_read_word : nwm read_word. Proof. unfold read_word. nw. Qed.
#[export] Hint Resolve nwm_read_word : nw.
Lemma nwm_ensure f : forall n, nwm (ensure f n). Proof. induction f as [|f IH]; intro n; cbn [ensure]; nw. Qed.
#[export] Hint Resolve nwm_ensure : nw.
Lemma nwm_peek n : nwm (peek n). Proof. unfold peek. nw. Qed.
Lemma nwm_remove n : nwm (remove n). Proof. unfold remove. nw. Qed.
#[export] Hint Resolve nwm_peek nwm_remove : nw.
Lemma nwm_read_bits n : nwm (read_bits n). Proof. unfold read_bits. nw. Qed.
#[export] Hint Resolve nwm_read_bits : nw.
Lemma nwm_traverse f : forall t ms sym mask, nwm (traverse f t ms sym mask). Proof. induction f as [|f IH]; intros; cbn [traverse]; nw. Qed.
#[export] Hint Resolve nwm_traverse : nw.
Lemma nwm_read_huffsym t l tb ms : nwm (read_huffsym t l tb ms). Proof. unfold read_huffsym. nw. Qed.
#[export] Hint Resolve nwm_read_huffsym : nw.
Lemma nwm_pre_lens n : forall x, nwm (pre_lens n x). Proof. induction n as [|n IH]; intro x; cbn [pre_lens]; nw. Qed.
#[export] Hint Resolve nwm_pre_lens : nw.
Lemma nwm_lens_loop f : forall w x last, nwm (lens_loop f w x last).
Proof. induction f as [|f IH]; intros; cbn [lens_loop]; nw. Qed.
#[export] Hint Resolve nwm_lens_loop : nw.
Lemma nwm_read_lens w a b : nwm (read_lens w a b). Proof. unfold read_lens. nw. Qed.
#[export] Hint Resolve nwm_read_lens : nw.
Lemma nwm_ali_lens n : forall i, nwm (ali_lens n i). Proof. induction n as [|n IH]; intro i; cbn [ali_lens]; nw. Qed.
Lemma nwm_raw_bytes n : forall acc, nwm (raw_bytes n acc). Proof. induction n as [|n IH]; intro acc; cbn [raw_bytes]; nw. Qed.
#[export] Hint Resolve nwm_ali_lens nwm_raw_bytes : nw.
Lemma nwm_verbatim_header : nwm verbatim_header. Proof. unfold verbatim_header. nw. Qed.
#[export] Hint Resolve nwm_verbatim_header : nw.
Lemma nwm_block_header : nwm block_header. Proof. unfold block_header. nw. Qed.
#[export] Hint Resolve nwm_block_header : nw.
Lemma nwm_delta_extra_len : nwm delta_extra_len. Proof. unfold delta_extra_len. nw. Qed.
#[export] Hint Resolve nwm_delta_extra_len : nw.
Lemma nwm_decode_symbol : nwm decode_symbol. Proof. unfold decode_symbol. nw. Qed.
#[export] Hint Resolve nwm_decode_symbol : nw.
Lemma nwm_sym_loop f : forall r, nwm (sym_loop f r). Proof. induction f as [|f IH]; intro r; cbn [sym_loop]; nw. Qed.
#[export] Hint Resolve nwm_sym_loop : nw.
Lemma nwm_todo_loop f : forall t, nwm (todo_loop f t). Proof. induction f as [|f IH]; intro t; cbn [todo_loop]; nw. Qed.
#[export] Hint Resolve nwm_todo_loop : nw.
Lemma nwm_frame_pre : nwm frame_pre. Proof. unfold frame_pre. nw. Qed.
#[export] Hint Resolve nwm_frame_pre : nw.
