(* Two predicates on decoder program trees, both sound for the ideal interpreter and compositional over sbind:
   nowrite L p : p never calls write, and every value it can return satisfies L;
   acct Q P w p : p, having written w bytes so far, returns a with w' bytes written where Q a w', and at every point where the
                  interpreter may stop it (end of input) the count satisfies P. *)
From Coq Require Import List NArith Arith Lia.
Import ListNotations.
From MSP Require Import Base.Src.
Local Open Scope N_scope.

Inductive nowrite {A : Type} (L : A -> Prop) : sprog A -> Prop :=
| nw_ret a : L a -> nowrite L (SRet a)
| nw_next k : (forall b, nowrite L (k b)) -> nowrite L (SDo SNext k)
| nw_avail k : (forall u, nowrite L (k u)) -> nowrite L (SDo SAvail k)
| nw_copy n k : (forall l, nowrite L (k l)) -> nowrite L (SDo (SCopyIn n) k)
| nw_hint k : (forall h, nowrite L (k h)) -> nowrite L (SDo SHint k).

Lemma nowrite_sbind {A B} (L1 : A -> Prop) (L2 : B -> Prop) (p : sprog A) (f : A -> sprog B) :
  nowrite L1 p -> (forall a, L1 a -> nowrite L2 (f a)) -> nowrite L2 (sbind p f).
Proof. intros Hp Hf. induction Hp as [a La|k Hk IH|k Hk IH|n k Hk IH|k Hk IH]; cbn [sbind]; auto; constructor; exact IH. Qed.

Lemma take_out rule : forall n s acc l s', ideal_take rule n s acc = SVal (l, s') -> iout s' = iout s.
Proof.
  induction n as [|n IH]; intros s acc l s' T; cbn [ideal_take] in T.
  - inversion T; subst. reflexivity.
  - unfold ideal_next in T. destruct (irest s) as [|b r0]; [discriminate|]. apply IH in T. cbn [iout] in T. exact T.
Qed.
Lemma take_stop rule : forall n s acc e, ideal_take rule n s acc = SStop e -> e = eof_status rule.
Proof.
  induction n as [|n IHn]; intros s acc e T; cbn [ideal_take] in T; [discriminate|].
  unfold ideal_next in T. destruct (irest s) as [|b r0]; [inversion T; reflexivity|]. exact (IHn _ _ _ T).
Qed.
Lemma nowrite_run {A} (L : A -> Prop) rule hint (p : sprog A) : nowrite L p -> forall s r s', ideal rule hint p s = (r, s') ->
  iout s' = iout s /\ match r with SVal a => L a | SStop e => e = eof_status rule end.
Proof.
  intro Hp. induction Hp as [a La|k Hk IH|k Hk IH|n k Hk IH|k Hk IH]; intros s r s' H; cbn [ideal] in H.
  - inversion H; subst. split; [reflexivity|exact La].
  - unfold ideal_next in H. destruct (irest s) as [|b r0]; [inversion H; subst; split; reflexivity|]. apply IH in H. cbn [iout] in H. exact H.
  - destruct (irest s) as [|b r0]; [inversion H; subst; split; reflexivity|]. apply IH in H. exact H.
  - destruct (ideal_take rule n s []) as [[l s1]|e] eqn:T.
    + apply IH in H. destruct H as [H1 H2]. split; [|exact H2]. rewrite H1. apply (take_out rule _ _ _ _ _ T).
    + apply take_stop in T. inversion H; subst. split; reflexivity.
  - apply IH in H. exact H.
Qed.

Inductive acct {A : Type} (Q : A -> N -> Prop) (P : N -> Prop) : N -> sprog A -> Prop :=
| ac_ret a w : Q a w -> acct Q P w (SRet a)
| ac_next k w : P w -> (forall b, acct Q P w (k b)) -> acct Q P w (SDo SNext k)
| ac_avail k w : P w -> (forall u, acct Q P w (k u)) -> acct Q P w (SDo SAvail k)
| ac_copy n k w : P w -> (forall l, acct Q P w (k l)) -> acct Q P w (SDo (SCopyIn n) k)
| ac_hint k w : (forall h, acct Q P w (k h)) -> acct Q P w (SDo SHint k)
| ac_write d k w : acct Q P (w + N.of_nat (length d)) (k tt) -> acct Q P w (SDo (SWrite d) k).

Lemma acct_sbind {A B} (Q1 : A -> N -> Prop) (Q2 : B -> N -> Prop) (P : N -> Prop) w (p : sprog A) (f : A -> sprog B) :
  acct Q1 P w p -> (forall a w', Q1 a w' -> acct Q2 P w' (f a)) -> acct Q2 P w (sbind p f).
Proof. intros Hp Hf. induction Hp; cbn [sbind]; auto; constructor; auto. Qed.
Lemma acct_nowrite {A} (L : A -> Prop) (P : N -> Prop) w (p : sprog A) : nowrite L p -> P w -> acct (fun a w' => L a /\ w' = w) P w p.
Proof. intros Hp Hw. induction Hp; constructor; auto. Qed.
Lemma acct_weaken {A} (Q Q' : A -> N -> Prop) (P : N -> Prop) w (p : sprog A) : acct Q P w p -> (forall a w', Q a w' -> Q' a w') -> acct Q' P w p.
Proof. intros Hp HQ. induction Hp; constructor; auto. Qed.

Definition olen (s : ist) : N := N.of_nat (length (iout s)).
Lemma acct_run {A} (Q : A -> N -> Prop) (P : N -> Prop) rule hint (p : sprog A) w : acct Q P w p -> forall base s r s', olen s = base + w ->
  ideal rule hint p s = (r, s') ->
  exists w', w <= w' /\ olen s' = base + w' /\ match r with SVal a => Q a w' | SStop e => e = eof_status rule /\ P w' end.
Proof.
  intro Hp. induction Hp as [a w Qa|k w Pw Hk IH|k w Pw Hk IH|n k w Pw Hk IH|k w Hk IH|d k w Hk IH]; intros base s r s' Hs H; cbn [ideal] in H.
  - inversion H; subst. exists w. split; [lia|]. split; [exact Hs|exact Qa].
  - unfold ideal_next in H. destruct (irest s) as [|b r0]; [inversion H; subst; exists w; split; [lia|]; split; [exact Hs|split; [reflexivity|exact Pw]]|].
    eapply IH; [|exact H]. exact Hs.
  - destruct (irest s) as [|b r0]; [inversion H; subst; exists w; split; [lia|]; split; [exact Hs|split; [reflexivity|exact Pw]]|].
    eapply IH; [|exact H]. exact Hs.
  - destruct (ideal_take rule n s []) as [[l s1]|e] eqn:T.
    + eapply IH; [|exact H]. unfold olen. rewrite (take_out rule _ _ _ _ _ T). exact Hs.
    + apply take_stop in T. inversion H; subst. exists w. split; [lia|]. split; [exact Hs|]. split; [reflexivity|exact Pw].
  - eapply IH; [|exact H]. exact Hs.
  - destruct (IH base {| irest := irest s; iout := rev_append d (iout s) |} r s') as (w' & A1 & B & C); [|exact H|].
    + unfold olen in *. cbn [iout]. rewrite rev_append_rev, app_length, rev_length, Nat2N.inj_add. lia.
    + exists w'. split; [lia|]. split; [exact B|exact C].
Qed.

(* leaves H L p : every value p can return satisfies L, whatever the source answers and for every output-length hint satisfying H
   (any calls allowed) - the carrier of Hoare-style reasoning on decoder monads *)
Inductive leaves {A : Type} (H : N -> Prop) (L : A -> Prop) : sprog A -> Prop :=
| lv_ret a : L a -> leaves H L (SRet a)
| lv_next k : (forall b, leaves H L (k b)) -> leaves H L (SDo SNext k)
| lv_avail k : (forall u, leaves H L (k u)) -> leaves H L (SDo SAvail k)
| lv_copy n k : (forall l, length l = n -> leaves H L (k l)) -> leaves H L (SDo (SCopyIn n) k)
| lv_write d k : (forall u, leaves H L (k u)) -> leaves H L (SDo (SWrite d) k)
| lv_hint k : (forall h, H h -> leaves H L (k h)) -> leaves H L (SDo SHint k).
Lemma leaves_sbind {A B} (H : N -> Prop) (L1 : A -> Prop) (L2 : B -> Prop) (p : sprog A) (f : A -> sprog B) :
  leaves H L1 p -> (forall a, L1 a -> leaves H L2 (f a)) -> leaves H L2 (sbind p f).
Proof. intros Hp Hf. induction Hp; cbn [sbind]; auto; constructor; auto. Qed.
Lemma leaves_weaken {A} (H : N -> Prop) (L L' : A -> Prop) (p : sprog A) : leaves H L p -> (forall a, L a -> L' a) -> leaves H L' p.
Proof. intros Hp HL. induction Hp; constructor; auto. Qed.
Lemma take_len rule : forall n s acc l s', ideal_take rule n s acc = SVal (l, s') -> length l = (n + length acc)%nat.
Proof.
  induction n as [|n IH]; intros s acc l s' T; cbn [ideal_take] in T.
  - inversion T; subst. rewrite rev_append_rev, app_nil_r, rev_length. reflexivity.
  - unfold ideal_next in T. destruct (irest s) as [|b r0]; [discriminate|]. apply IH in T. cbn [length] in T. lia.
Qed.
Lemma leaves_run {A} (H : N -> Prop) (L : A -> Prop) rule hint (p : sprog A) : H hint -> leaves H L p -> forall s a s', ideal rule hint p s = (SVal a, s') -> L a.
Proof.
  intros Hh Hp. induction Hp as [a La|k Hk IH|k Hk IH|n k Hk IH|d k Hk IH|k Hk IH]; intros s a' s' E; cbn [ideal] in E.
  - inversion E; subst. exact La.
  - unfold ideal_next in E. destruct (irest s) as [|b r0]; [discriminate|]. exact (IH _ _ _ _ E).
  - destruct (irest s) as [|b r0]; [discriminate|]. exact (IH _ _ _ _ E).
  - destruct (ideal_take rule n s []) as [[l s1]|e] eqn:T; [|discriminate]. apply take_len in T. cbn [length] in T. rewrite Nat.add_0_r in T. exact (IH _ T _ _ _ E).
  - exact (IH _ _ _ _ E).
  - exact (IH _ Hh _ _ _ E).
Qed.
