(* CRC-32 of crc32.h over the regenerated table: changing one byte of the data always changes the CRC. *)
From Coq Require Import List NArith ZArith Lia Bool.
Import ListNotations.
From MSP Require Import Gen.Tables Model.Oab Proofs.OabP.
Local Open Scope N_scope.

Lemma lxor_twice a c : N.lxor (N.lxor a c) c = a.
Proof. rewrite N.lxor_assoc, N.lxor_nilpotent, N.lxor_0_r. reflexivity. Qed.
Lemma lxor_cancel_r a b c : N.lxor a c = N.lxor b c -> a = b.
Proof. intro H. rewrite <- (lxor_twice a c), H. apply lxor_twice. Qed.

Lemma land_lxor_distr_l a b c : N.land (N.lxor a b) c = N.lxor (N.land a c) (N.land b c).
Proof. apply N.bits_inj. intro n. rewrite N.land_spec, !N.lxor_spec, !N.land_spec. destruct (N.testbit a n), (N.testbit b n), (N.testbit c n); reflexivity. Qed.

(* ---------- the table: entries and their top bytes are pairwise different ---------- *)
Fixpoint nodupb (l : list N) : bool := match l with [] => true | x :: r => negb (existsb (N.eqb x) r) && nodupb r end.
Lemma nodupb_sound l : nodupb l = true -> NoDup l.
Proof.
  induction l as [|x r IH]; intro H; [constructor|]. cbn in H. apply andb_true_iff in H as [H1 H2]. constructor; [|apply IH; exact H2].
  intro Hin. apply negb_true_iff in H1. assert (E : existsb (N.eqb x) r = true) by (apply existsb_exists; exists x; split; [exact Hin|apply N.eqb_refl]). congruence.
Qed.
Definition top (x : N) : N := N.shiftr x 24.
Lemma table_nodup : NoDup crc32_table_gen /\ NoDup (map top crc32_table_gen) /\ length crc32_table_gen = 256%nat.
Proof. repeat split; apply nodupb_sound; vm_compute; reflexivity. Qed.

Definition T (i : N) : N := nth (N.to_nat i) crc32_table_gen 0.
Lemma T_inj i j : i < 256 -> j < 256 -> T i = T j -> i = j.
Proof.
  intros Hi Hj E. destruct table_nodup as (ND & _ & L). unfold T in E.
  apply N2Nat.inj. apply (proj1 (NoDup_nth crc32_table_gen 0) ND); [lia|lia|exact E].
Qed.
Lemma T_top_inj i j : i < 256 -> j < 256 -> top (T i) = top (T j) -> i = j.
Proof.
  intros Hi Hj E. destruct table_nodup as (_ & ND & L). unfold T in E.
  apply N2Nat.inj. apply (proj1 (NoDup_nth (map top crc32_table_gen) 0) ND); [rewrite map_length; lia|rewrite map_length; lia|].
  change 0 with (top 0) at 1 2. rewrite !map_nth. exact E.
Qed.

Definition idx (v b : N) : N := N.land (N.lxor v b) 255.
Lemma idx_lt v b : idx v b < 256.
Proof. unfold idx. change 255 with (N.ones 8). rewrite N.land_ones. apply N.mod_lt. discriminate. Qed.
Lemma crc_step_T v b : crc_step v b = N.lxor (T (idx v b)) (N.shiftr v 8).
Proof. reflexivity. Qed.

(* different bytes give different CRCs from the same state *)
Lemma crc_step_inj_byte v b b' : b < 256 -> b' < 256 -> b <> b' -> crc_step v b <> crc_step v b'.
Proof.
  intros Hb Hb' Hne E. rewrite !crc_step_T in E. apply lxor_cancel_r in E. apply T_inj in E; try apply idx_lt.
  unfold idx in E. rewrite !land_lxor_distr_l in E. rewrite (N.lxor_comm _ (N.land b 255)), (N.lxor_comm _ (N.land b' 255)) in E. apply lxor_cancel_r in E.
  change 255 with (N.ones 8) in E. rewrite !N.land_ones in E. rewrite !N.mod_small in E by (change (2 ^ 8) with 256; assumption). contradiction.
Qed.

(* different 32-bit states give different states after the same byte *)
Lemma crc_step_inj_state v v' b : v < M32 -> v' < M32 -> crc_step v b = crc_step v' b -> v = v'.
Proof.
  intros Hv Hv' E. rewrite !crc_step_T in E.
  assert (Ht : forall u w, u < M32 -> top (N.lxor (T w) (N.shiftr u 8)) = top (T w)).
  { intros u w Hu. unfold top. rewrite N.shiftr_lxor, N.shiftr_shiftr. change (8 + 24) with 32.
    rewrite (N.shiftr_div_pow2 u 32), N.div_small by exact Hu. apply N.lxor_0_r. }
  assert (Ei : idx v b = idx v' b).
  { apply T_top_inj; try apply idx_lt. rewrite <- (Ht v _ Hv), <- (Ht v' _ Hv'), E. reflexivity. }
  rewrite Ei in E. rewrite (N.lxor_comm (T _)), (N.lxor_comm (T _) (N.shiftr v' 8)) in E. apply lxor_cancel_r in E.
  unfold idx in Ei. rewrite !land_lxor_distr_l in Ei. apply lxor_cancel_r in Ei.
  change 255 with (N.ones 8) in Ei. rewrite !N.land_ones in Ei. rewrite !N.shiftr_div_pow2 in E.
  rewrite (N.div_mod v (2 ^ 8)), (N.div_mod v' (2 ^ 8)) by discriminate. rewrite E, Ei. reflexivity.
Qed.

Lemma crc32_inj_state d : forall v v', v < M32 -> v' < M32 -> v <> v' -> crc32 v d <> crc32 v' d.
Proof.
  unfold crc32. induction d as [|b d IH]; intros v v' Hv Hv' Hne; cbn [fold_left]; [exact Hne|].
  apply IH; try (apply crc_step_lt32; assumption). intro E. apply Hne. eapply crc_step_inj_state; eassumption.
Qed.

(* the per-block CRC of oabd.c detects every change of one byte of the block's data *)
Theorem crc32_single_byte pre x x' post v : v < M32 -> x < 256 -> x' < 256 -> x <> x' ->
  crc32 v (pre ++ x :: post) <> crc32 v (pre ++ x' :: post).
Proof.
  intros Hv Hx Hx' Hne. rewrite !crc32_app. change (x :: post) with ([x] ++ post). change (x' :: post) with ([x'] ++ post). rewrite !crc32_app.
  pose proof (crc32_lt32 pre v Hv) as Hu. apply crc32_inj_state.
  - apply crc_step_lt32. exact Hu.
  - apply crc_step_lt32. exact Hu.
  - apply crc_step_inj_byte; assumption.
Qed.
