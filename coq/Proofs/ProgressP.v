From Coq Require Import List NArith Bool Lia.
From MSP Require Import Model.Progress.
Local Open Scope N_scope.

(* the scan always resumes strictly after the candidate: the number of candidates examined is bounded by the file length *)
Theorem resume_advances : forall caboff cablen foffset plausible parsed,
  caboff < resume_offset caboff cablen foffset plausible parsed.
Proof.
  intros. unfold resume_offset. destruct (plausible && parsed); cbn [andb]; [|lia].
  destruct (N.ltb_spec foffset cablen); lia.
Qed.

(* whatever the chunk links say, the walk ends after at most num_chunks visits: fuel num_chunks + 1 always suffices *)
Theorem pmgl_walk_terminates : forall next hit last num fuel n visited,
  (N.to_nat (num - visited) < fuel)%nat ->
  match pmgl_walk fuel next hit last num n visited with
  | OutOfFuel => False
  | Found s | NotFound s | LoopDetected s => s <= N.max num visited
  end.
Proof.
  intros next hit last num. induction fuel as [|f IH]; intros n visited Hf; [lia|]. cbn [pmgl_walk].
  destruct (N.ltb_spec last n); [lia|].
  destruct (N.leb_spec num visited); [lia|].
  destruct (hit n); [lia|].
  destruct (N.eqb_spec n (next n)); [lia|].
  specialize (IH (next n) (visited + 1) ltac:(lia)).
  destruct (pmgl_walk f next hit last num (next n) (visited + 1)); try exact IH; lia.
Qed.
Corollary pmgl_walk_bounded : forall next hit last num n,
  match pmgl_walk (S (N.to_nat num)) next hit last num n 0 with
  | OutOfFuel => False
  | Found s | NotFound s | LoopDetected s => s <= num
  end.
Proof.
  intros. pose proof (pmgl_walk_terminates next hit last num (S (N.to_nat num)) n 0 ltac:(lia)) as H.
  destruct (pmgl_walk _ _ _ _ _ _ _); try exact H; lia.
Qed.
Example walk_cycle_detected : pmgl_walk 10 (fun n => if n =? 0 then 1 else 0) (fun _ => false) 1 2 0 0 = LoopDetected 2.
Proof. vm_compute. reflexivity. Qed.
