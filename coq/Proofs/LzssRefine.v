From Coq Require Import List NArith ZArith Lia Bool.
Import ListNotations.
From MSP Require Import Model.LzssBase Model.Lzss.
Local Open Scope N_scope.

(* ---------- honest host: one input file, one output file, never fails ---------- *)
Record hst := { rem : list byte; out : list byte (* reversed *) }.

Section Honest.
Variables (inh outh : handle) (bufsize : N).
Hypothesis bufsize_pos : 0 < bufsize.

Definition hanswer (h : hst) (c : call) : answer c * hst :=
  match c return answer c * hst with
  | CRead _ n => (RBytes (firstn (N.to_nat n) (rem h)),
                  {| rem := skipn (N.to_nat n) (rem h); out := out h |})
  | CWrite _ d => (Z.of_nat (length d), {| rem := rem h; out := rev d ++ out h |})
  end.

Fixpoint exec {A} (h : hst) (p : prog A) : A * hst :=
  match p with
  | Ret a => (a, h)
  | Do c k => let '(a, h') := hanswer h c in exec h' (k a)
  end.

Lemma exec_bind {A B} (p : prog A) (f : A -> prog B) h :
  exec h (bind p f) = let '(a, h') := exec h p in exec h' (f a).
Proof.
  revert h. induction p as [a|c k IH]; intro h; cbn [bind exec].
  - reflexivity.
  - destruct (hanswer h c) as [a h']. apply IH.
Qed.

(* simulation relation *)
Definition R (s : sst) (i : ist) (h : hst) (inp : list byte) : Prop :=
  swin s = iwin i /\ spos s = ipos i /\ sout s = out h /\ inp = ibuf i ++ rem h.

Lemma firstn_pos_cons (n : nat) (b : byte) l : (0 < n)%nat ->
  exists t, firstn n (b :: l) = b :: t /\ t ++ skipn n (b :: l) = l.
Proof.
  intro Hn. destruct n as [|n]; [lia|]. exists (firstn n l). cbn [firstn skipn]. split; [reflexivity|].
  apply firstn_skipn.
Qed.

Lemma exec_getbyte s i h inp : R s i h inp ->
  match inp with
  | [] => exec h (getbyte inh bufsize i) = (inl OK, h)
  | b :: rest => exists i' h', exec h (getbyte inh bufsize i) = (inr (i', b), h') /\ R s i' h' rest
  end.
Proof.
  intros (Hw & Hp & Ho & Hi). unfold getbyte.
  destruct (ibuf i) as [|b0 buf'] eqn:Eb.
  - cbn [app] in Hi. subst inp. cbn [exec hanswer].
    destruct (rem h) as [|b rest] eqn:Er.
    + rewrite firstn_nil. cbn [exec]. rewrite skipn_nil. destruct h; cbn in *; subst; reflexivity.
    + destruct (firstn_pos_cons (N.to_nat bufsize) b rest) as (t & Ht & Hs); [lia|].
      rewrite Ht. cbn [exec]. eexists; eexists; split; [reflexivity|].
      unfold R; cbn. repeat split; auto.
  - subst inp. cbn [app exec]. eexists; eexists; split; [reflexivity|].
    unfold R; cbn. repeat split; auto.
Qed.

Lemma exec_put s i h inp b : R s i h inp ->
  exists i' h', exec h (i_put outh i b) = (inr i', h') /\ R (s_put s b) i' h' inp.
Proof.
  intros (Hw & Hp & Ho & Hi). unfold i_put. cbn [exec hanswer length]. cbn.
  eexists; eexists; split; [reflexivity|].
  unfold R, s_put; cbn. rewrite Hw, Hp, Ho. repeat split; auto.
Qed.

Lemma exec_copy n : forall s i h inp mpos, R s i h inp ->
  exists i' h', exec h (i_copy outh n i mpos) = (inr i', h') /\ R (s_copy n s mpos) i' h' inp.
Proof.
  induction n as [|n IH]; intros s i h inp mpos HR; cbn [i_copy s_copy].
  - cbn [exec]. eauto.
  - rewrite exec_bind.
    destruct (exec_put s i h inp (wget W (iwin i) mpos FILL) HR) as (i1 & h1 & E1 & R1).
    rewrite E1. destruct HR as (Hw & _). rewrite Hw. apply IH. exact R1.
Qed.

Lemma exec_items k : forall c bit s i h inp, R s i h inp ->
  let '(inp2, s2, stop) := s_items k c bit inp s in
  if stop then exists h', exec h (i_items inh outh bufsize k c bit i) = (inl OK, h') /\ sout s2 = out h'
  else exists i' h', exec h (i_items inh outh bufsize k c bit i) = (inr i', h') /\ R s2 i' h' inp2.
Proof.
  induction k as [|k IH]; intros c bit s i h inp HR; cbn [s_items i_items].
  - cbn [exec]. eauto.
  - destruct (N.testbit c bit).
    + (* literal *)
      rewrite exec_bind. pose proof (exec_getbyte s i h inp HR) as G.
      destruct inp as [|b inp'].
      * rewrite G. cbn [exec]. exists h. split; [reflexivity|]. apply HR.
      * destruct G as (i1 & h1 & E1 & R1). rewrite E1. rewrite exec_bind.
        destruct (exec_put s i1 h1 inp' b R1) as (i2 & h2 & E2 & R2). rewrite E2.
        apply IH. exact R2.
    + (* match *)
      rewrite exec_bind. pose proof (exec_getbyte s i h inp HR) as G.
      destruct inp as [|m1 inp'].
      * rewrite G. cbn [exec]. exists h. split; [reflexivity|]. apply HR.
      * destruct G as (i1 & h1 & E1 & R1). rewrite E1. rewrite exec_bind.
        pose proof (exec_getbyte s i1 h1 inp' R1) as G2.
        destruct inp' as [|m2 inp''].
        -- rewrite G2. cbn [exec]. exists h1. split; [reflexivity|]. apply R1.
        -- destruct G2 as (i2 & h2 & E2 & R2). rewrite E2. rewrite exec_bind.
           destruct (exec_copy (N.to_nat (N.land m2 15 + 3)) s i2 h2 inp''
                       (N.lor m1 (N.shiftl (N.land m2 240) 4)) R2) as (i3 & h3 & E3 & R3).
           rewrite E3. apply IH. exact R3.
Qed.

Lemma s_items_length k : forall c bit inp s,
  let '(inp2, _, _) := s_items k c bit inp s in (length inp2 <= length inp)%nat.
Proof.
  induction k as [|k IH]; intros c bit inp s; cbn [s_items]; [lia|].
  destruct (N.testbit c bit).
  - destruct inp as [|b inp']; [cbn; lia|]. specialize (IH c (bit+1) inp' (s_put s b)).
    destruct (s_items k c (bit+1) inp' (s_put s b)) as [[i2 s2] st]. cbn [length]. lia.
  - destruct inp as [|m1 [|m2 inp']]; [cbn; lia|cbn; lia|].
    match goal with |- context [s_items k c (bit+1) inp' ?s'] => specialize (IH c (bit+1) inp' s');
      destruct (s_items k c (bit+1) inp' s') as [[i2 s2] st] end. cbn [length]. lia.
Qed.

Lemma exec_loop fuel : forall inv s i h inp, R s i h inp -> (length inp < fuel)%nat ->
  exists h', exec h (i_loop inh outh bufsize fuel inv i) = (OK, h') /\
             sout (s_loop fuel inv inp s) = out h'.
Proof.
  induction fuel as [|f IH]; intros inv s i h inp HR Hf; [lia|].
  cbn [i_loop s_loop]. rewrite exec_bind.
  pose proof (exec_getbyte s i h inp HR) as G.
  destruct inp as [|c inp'].
  - rewrite G. cbn [exec]. exists h. split; [reflexivity|]. apply HR.
  - destruct G as (i1 & h1 & E1 & R1). rewrite E1. rewrite exec_bind.
    pose proof (exec_items 8 (N.lxor c inv) 0 s i1 h1 inp' R1) as GI.
    pose proof (s_items_length 8 (N.lxor c inv) 0 inp' s) as GL.
    destruct (s_items 8 (N.lxor c inv) 0 inp' s) as [[inp2 s2] stop].
    destruct stop.
    + destruct GI as (h' & E & Ho). rewrite E. cbn [exec]. eauto.
    + destruct GI as (i2 & h2 & E & R2). rewrite E. apply IH; [exact R2|]. cbn [length] in Hf. lia.
Qed.

Theorem lzss_impl_refines_spec : forall mode inp,
  exists h', exec {| rem := inp; out := [] |}
                  (lzss_impl inh outh bufsize (S (length inp)) mode) = (OK, h') /\
             rev (out h') = lzss_spec mode inp.
Proof.
  intros mode inp. unfold lzss_impl, lzss_spec.
  destruct (exec_loop (S (length inp)) (if mode =? 1 then 255 else 0)
              {| swin := Emp; spos := start_pos mode; sout := [] |}
              {| iwin := Emp; ipos := start_pos mode; ibuf := [] |}
              {| rem := inp; out := [] |} inp) as (h' & E & Ho).
  - unfold R; cbn. auto.
  - lia.
  - exists h'. split; [exact E|]. rewrite <- Ho. reflexivity.
Qed.
End Honest.
