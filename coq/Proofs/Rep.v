(* Failure reporting as a property of the program tree alone (no ledger needed):
   [rep okf f p]: on every path of p, if some call's answer on the way was a host failure (or f says one happened before), the result
   is not ok;  [always Phi p]: every result of p satisfies Phi.  Both are sound for the monitor semantics of Proofs/Mon.v under
   EVERY host, and both compose along bind. *)
From stdpp Require Import gmap.
From Coq Require Import NArith ZArith List Bool.
From MSP Require Import L2.Sys Proofs.Mon.
Local Open Scope N_scope.

Fixpoint rep {A} (okf : A -> bool) (f : bool) (p : prog A) : Prop :=
  match p with Ret a => f = true -> okf a = false | Do c k => forall a, rep okf (f || isfail c a) (k a) end.
Fixpoint always {A} (Phi : A -> Prop) (p : prog A) : Prop :=
  match p with Ret a => Phi a | Do c k => forall a, always Phi (k a) end.

Lemma rep_mono {A} (okf : A -> bool) (p : prog A) : forall f, rep okf true p -> rep okf f p.
Proof.
  induction p as [a|c k IH]; intros f H; cbn [rep] in *.
  - intros _. apply H. reflexivity.
  - intro a. apply IH. specialize (H a). cbn [orb] in H. exact H.
Qed.
Lemma always_imp {A} (P Q : A -> Prop) (p : prog A) : (forall a, P a -> Q a) -> always P p -> always Q p.
Proof. intro H. induction p as [a|c k IH]; cbn [always]; [apply H|]. intros Hk a. apply IH. apply Hk. Qed.
Lemma always_and {A} (P Q : A -> Prop) (p : prog A) : always P p -> always Q p -> always (fun a => P a /\ Q a) p.
Proof. induction p as [a|c k IH]; cbn [always]; [auto|]. intros H1 H2 a. apply IH; auto. Qed.
Lemma always_bind {A B} (Psi : B -> Prop) (Phi : A -> Prop) (p : prog B) (q : B -> prog A) :
  always Psi p -> (forall b, Psi b -> always Phi (q b)) -> always Phi (bind p q).
Proof. induction p as [b|c k IH]; cbn [always bind]; intros Hp Hq; [apply Hq; exact Hp|]. intro a. apply IH; auto. Qed.
Lemma always_true {A} (p : prog A) : always (fun _ => True) p.
Proof. induction p as [a|c k IH]; cbn [always]; auto. Qed.

(* bind: what follows an ok result must itself report; what follows a not-ok result must end not-ok whatever happens *)
Lemma rep_bind_gen {A B} (Psi : B -> Prop) (okB : B -> bool) (okf : A -> bool) (q : B -> prog A) f0 :
  (forall b, Psi b -> okB b = true -> rep okf f0 (q b)) ->
  (forall b, Psi b -> okB b = false -> rep okf true (q b)) ->
  forall (p : prog B) f, (f0 = true -> f = true) -> always Psi p -> rep okB f p -> rep okf f (bind p q).
Proof.
  intros H1 H2. induction p as [b|c k IH]; intros f Hf Ha Hr; cbn [bind always rep] in *.
  - destruct (okB b) eqn:E.
    + assert (f = false) by (destruct f; [specialize (Hr eq_refl); congruence|reflexivity]). subst f.
      assert (f0 = false) by (destruct f0; [specialize (Hf eq_refl); discriminate|reflexivity]). subst f0. apply H1; auto.
    + apply rep_mono. apply H2; auto.
  - intro a. apply IH; [|apply Ha|apply Hr]. intro E. rewrite (Hf E). reflexivity.
Qed.
Lemma rep_bind {A B} (Psi : B -> Prop) (okB : B -> bool) (okf : A -> bool) (p : prog B) (q : B -> prog A) f :
  always Psi p -> rep okB f p ->
  (forall b, Psi b -> okB b = true -> rep okf f (q b)) ->
  (forall b, Psi b -> okB b = false -> rep okf true (q b)) ->
  rep okf f (bind p q).
Proof. intros Ha Hr H1 H2. apply (rep_bind_gen Psi okB okf q f H1 H2 p f); auto. Qed.

(* a single call: the continuation sees the failure flag raised exactly when the answer is a failure *)
Lemma rep_call {A} (okf : A -> bool) (c : call) (k : answer c -> prog A) f :
  (forall a, rep okf (f || isfail c a) (k a)) -> rep okf f (bind (call1 c) k).
Proof. intro H. unfold call1. cbn [bind rep]. exact H. Qed.
Lemma always_call {A} (Phi : A -> Prop) (c : call) (k : answer c -> prog A) :
  (forall a, always Phi (k a)) -> always Phi (bind (call1 c) k).
Proof. intro H. unfold call1. cbn [bind always]. exact H. Qed.

(* ---------- soundness for the monitor semantics ---------- *)
Lemma hfail_mstep m c a : hfail (mstep m c a) = hfail m.
Proof.
  destruct c; cbn [mstep]; repeat (match goal with |- context [match ?x with _ => _ end] => destruct x end; cbn [upd hfail]); reflexivity.
Qed.
Lemma rep_run {A} (okf : A -> bool) (p : prog A) : forall f o m, rep okf f p -> (hfail m = true -> f = true) ->
  hfail (snd (run o m p)) = true -> okf (fst (run o m p)) = false.
Proof.
  induction p as [a|c k IH]; intros f o m Hr Hf Hh; cbn [run rep fst snd] in *.
  - apply Hr. apply Hf. exact Hh.
  - set (a := mk_answer (nxt m) c (o (nxt m) c)) in *.
    apply (IH a (f || isfail c a) o _ (Hr a)); [|exact Hh].
    unfold mark. cbn [hfail]. rewrite hfail_mstep. intro E. apply orb_true_iff in E as [E|E]; [rewrite (Hf E); reflexivity|rewrite E; apply orb_true_r].
Qed.
Lemma always_run {A} (Phi : A -> Prop) (p : prog A) : forall o m, always Phi p -> Phi (fst (run o m p)).
Proof. induction p as [a|c k IH]; intros o m H; cbn [run always fst] in *; [exact H|]. apply IH. apply H. Qed.
