From Coq Require Import List NArith Bool Lia.
Import ListNotations.
From MSP Require Import Gen.Consts Model.Cksum Model.CabBlock Model.Salvage.
Local Open Scope N_scope.

(* ---- relaxing never changes what strict mode accepts ---- *)
Theorem file_table_relax : forall nf es r, file_table false nf es = Some r -> file_table true nf es = Some r.
Proof.
  intros nf. induction es as [|e rest IH]; intros r H; cbn [file_table] in *; [exact H|].
  destruct (entry_ok nf e); [|discriminate].
  destruct (file_table false nf rest) as [l|] eqn:E; [|discriminate]. rewrite (IH l eq_refl). exact H.
Qed.
Theorem listing_relax : forall nf es r, listing false nf es = Some r -> listing true nf es = Some r.
Proof.
  intros nf es r H. unfold listing in *. destruct (file_table false nf es) as [l|] eqn:E; [|discriminate].
  rewrite (file_table_relax nf es l E). exact H.
Qed.
Theorem accept_part_relax : forall have len h, accept_part false have len = Some h -> accept_part true have len = Some h.
Proof.
  intros have len h. unfold accept_part. destruct (CAB_INPUTMAX <? have + len); cbn [negb orb]; [discriminate|auto].
Qed.
Theorem accept_parts_relax : forall lens have h, accept_parts false have lens = Some h -> accept_parts true have lens = Some h.
Proof.
  induction lens as [|l rest IH]; intros have h H; cbn [accept_parts] in *; [exact H|].
  destruct (accept_part false have l) as [h1|] eqn:E; [|discriminate]. rewrite (accept_part_relax have l h1 E). apply IH. exact H.
Qed.
Theorem block_ok_relax : forall stored hdr4 payload, block_ok false stored hdr4 payload = true -> forall ig, block_ok ig stored hdr4 payload = true.
Proof. intros stored hdr4 payload H ig. unfold block_ok in *. rewrite orb_false_r in H. rewrite H. reflexivity. Qed.
Theorem extract_len_relax : forall off len l, extract_len false off len = Some l -> extract_len true off len = Some l.
Proof. intros off len l. unfold extract_len. destruct (CAB_LENGTHMAX <? off); [discriminate|]. destruct (CAB_LENGTHMAX - off <? len); [discriminate|auto]. Qed.

(* ---- what salvage mode recovers ---- *)
(* the listing in salvage mode is exactly the valid entries, in order *)
Theorem file_table_salvage : forall nf es, file_table true nf es = Some (filter (entry_ok nf) es).
Proof.
  intros nf. induction es as [|e rest IH]; cbn [file_table filter]; [reflexivity|].
  destruct (entry_ok nf e); rewrite IH; reflexivity.
Qed.
(* a block whose payload is intact but whose stored checksum is wrong: refused by the strict test, accepted when the flag is set *)
Theorem wrong_checksum_salvaged : forall stored hdr4 payload,
  stored <> 0 -> stored <> block_sum hdr4 payload ->
  block_ok false stored hdr4 payload = false /\ block_ok true stored hdr4 payload = true.
Proof.
  intros stored hdr4 payload H0 Hne. unfold block_ok, block_accepts.
  destruct (N.eqb_spec stored 0); [contradiction|]. destruct (N.eqb_spec (block_sum hdr4 payload) stored); [congruence|]. split; reflexivity.
Qed.
Example salvage_nonvacuous :
  let es := [{| e_fidx := 0; e_name_ok := true; e_payload := 1 |}; {| e_fidx := 7; e_name_ok := true; e_payload := 2 |}; {| e_fidx := 65534; e_name_ok := true; e_payload := 3 |}] in
  listing false 2 es = None /\ option_map (map e_payload) (listing true 2 es) = Some [1; 3].
Proof. vm_compute. auto. Qed.
