(* C09 + C20 for the SZDD front end and the LZSS decoder: for EVERY host (every file content, every combination of
   open/read/write/seek/alloc failures, any write counts), the documented client scripts end with an empty ledger
   and no contract violation. *)
From stdpp Require Import gmap.
From Coq Require Import NArith ZArith List.
From MSP Require Import Gen.Consts L2.Sys L2.Szdd Proofs.Mon.
Local Open Scope N_scope.

Section LzssLoop.
Variables (junk : byte) (inh outh : handle) (bufsize : Z) (window : ptr) (L R W : gset N).
Hypothesis Hin : inh ∈ R. Hypothesis Hout : outh ∈ W. Hypothesis Hwin : window ∈ L. Hypothesis Hbuf : (0 <= bufsize)%Z.
Definition Qx : N -> mon -> Prop := fun _ => st (L ∖ {[window]}) R W.

Lemma t_stop e : triple (st L R W) (stop window e) Qx.
Proof. unfold stop. eapply t_bind; [apply (t_free_some L R W window Hwin)|]. intros ?u. apply t_ret. auto. Qed.

Lemma t_getbyte s k : (forall s' b, triple (st L R W) (k s' b) Qx) -> triple (st L R W) (getbyte inh bufsize window s k) Qx.
Proof.
  intro Hk. unfold getbyte. destruct (ibuf s) as [|b rest]; [|apply Hk].
  eapply t_bind; [apply (t_read L R W inh bufsize Hin Hbuf)|]. intros r. cbn beta.
  destruct r as [|[|b rest]]; [apply t_stop|apply t_stop|apply Hk].
Qed.
Lemma t_putbyte s b k : (forall s', triple (st L R W) (k s') Qx) -> triple (st L R W) (putbyte outh window s b k) Qx.
Proof.
  intro Hk. unfold putbyte. eapply t_bind; [apply (t_write L R W outh _ Hout)|]. intros w. cbn beta.
  destruct (Z.eqb w 1); [apply Hk|apply t_stop].
Qed.
Lemma t_copy n : forall s mpos k, (forall s', triple (st L R W) (k s') Qx) -> triple (st L R W) (copy junk outh window n s mpos k) Qx.
Proof.
  induction n as [|n IH]; intros s mpos k Hk; cbn [copy]; [apply Hk|].
  apply t_putbyte. intros s'. apply IH. exact Hk.
Qed.
Lemma t_items n : forall c bit s k, (forall s', triple (st L R W) (k s') Qx) -> triple (st L R W) (items junk inh outh bufsize window n c bit s k) Qx.
Proof.
  induction n as [|n IH]; intros c bit s k Hk; cbn [items]; [apply Hk|].
  destruct (N.testbit c bit).
  - apply t_getbyte. intros s1 b. apply t_putbyte. intros s2. apply IH. exact Hk.
  - apply t_getbyte. intros s1 m1. apply t_getbyte. intros s2 m2. apply t_copy. intros s3. apply IH. exact Hk.
Qed.
Lemma t_loop fuel : forall inv s, triple (st L R W) (loop junk inh outh bufsize window fuel inv s) Qx.
Proof.
  induction fuel as [|f IH]; intros inv s; cbn [loop]; [apply t_stop|].
  apply t_getbyte. intros s1 c. apply t_items. intros s2. apply IH.
Qed.
End LzssLoop.

(* lzss_decompress: allocates the window and frees it on every exit, touches nothing else *)
Lemma t_lzss_decompress junk fuel inh outh bufsize mode L R W :
  inh ∈ R -> outh ∈ W -> (0 <= bufsize)%Z ->
  triple (st L R W) (lzss_decompress junk fuel inh outh bufsize mode) (fun _ => st L R W).
Proof.
  intros Hin Hout Hb. unfold lzss_decompress.
  eapply t_bind; [apply (t_alloc L R W); unfold LZSS_WINDOW_SIZE; lia|]. intros w. cbn beta.
  destruct w as [w|]; [|apply t_ret; auto].
  apply t_pre_prop. intro Hfresh.
  eapply t_conseq; [apply (t_loop junk inh outh bufsize w ({[w]} ∪ L) R W Hin Hout ltac:(set_solver) Hb)|auto|].
  intros a m H. unfold Qx in H. destruct H as (HL & HR & HW). unfold st. repeat split; auto. rewrite HL. set_solver.
Qed.

Lemma t_read_headers fh L R W : fh ∈ R -> triple (st L R W) (read_headers fh) (fun _ => st L R W).
Proof.
  intro Hfh. unfold read_headers.
  eapply t_bind; [apply (t_read L R W fh 8 Hfh); lia|]. intros r. cbn beta.
  destruct r as [|buf]; [apply t_ret; auto|].
  destruct (negb _); [apply t_ret; auto|].
  destruct (list_eqb buf _).
  - eapply t_bind; [apply (t_read L R W fh 6 Hfh); lia|]. intros r2. cbn beta.
    destruct r2 as [|b2]; [apply t_ret; auto|]. destruct (negb _); [apply t_ret; auto|]. destruct (negb _); apply t_ret; auto.
  - destruct (list_eqb buf _); [|apply t_ret; auto].
    eapply t_bind; [apply (t_read L R W fh 4 Hfh); lia|]. intros r2. cbn beta.
    destruct r2 as [|b2]; [apply t_ret; auto|]. destruct (negb _); apply t_ret; auto.
Qed.

(* szdd_open: either nothing new is owned (NULL returned) or exactly one handle and one allocation *)
Lemma t_szdd_open s k L R W :
  triple (st L R W) (szdd_open s (FIn k))
    (fun r m => match fst r with
                | None => st L R W m
                | Some h => hptr h ∉ L ∪ R ∪ W /\ hfh h ∉ L ∪ R ∪ W /\ hptr h <> hfh h /\ st ({[hptr h]} ∪ L) ({[hfh h]} ∪ R) W m
                end /\ sptr (snd r) = sptr s).
Proof.
  unfold szdd_open.
  eapply t_bind; [apply t_open_in|]. intros fh. cbn beta.
  destruct fh as [f|].
  - apply t_pre_prop. intro Hf.
    eapply t_bind; [apply t_alloc; unfold sizeof_szdd_header; lia|]. intros hp. cbn beta.
    destruct hp as [p|].
    + apply t_pre_prop. intro Hp.
      eapply t_bind; [apply (t_read_headers f ({[p]} ∪ L) ({[f]} ∪ R) W); set_solver|]. intros [[[e fmt] len] mc]. cbn beta.
      destruct (negb (e =? 0)).
      * eapply t_bind; [apply (t_close ({[p]} ∪ L) ({[f]} ∪ R) W f); set_solver|]. intros ?u.
        eapply t_bind; [apply (t_free_some ({[p]} ∪ L) (({[f]} ∪ R) ∖ {[f]}) (W ∖ {[f]}) p); set_solver|]. intros ?u.
        apply t_ret. intros m (HL & HR & HW). cbn [fst snd sptr]. split; [|reflexivity].
        unfold st. rewrite HL, HR, HW. repeat split; set_solver.
      * apply t_ret. intros m H. cbn [fst snd sptr hptr hfh]. split; [|reflexivity].
        repeat split; try apply H; try set_solver.
    + (* alloc failed: close the handle, free(NULL) *)
      eapply t_bind; [apply (t_close L ({[f]} ∪ R) W f); set_solver|]. intros ?u.
      eapply t_bind; [apply t_free_none|]. intros ?u.
      apply t_ret. intros m (HL & HR & HW). cbn [fst snd sptr]. split; [|reflexivity].
      unfold st. rewrite HL, HR, HW. repeat split; set_solver.
  - eapply t_bind; [apply t_alloc; unfold sizeof_szdd_header; lia|]. intros hp. cbn beta.
    destruct hp as [p|].
    + apply t_pre_prop. intro Hp. eapply t_bind; [apply t_ret_same|]. intros ?u.
      eapply t_bind; [apply (t_free_some ({[p]} ∪ L) R W p); set_solver|]. intros ?u.
      apply t_ret. intros m (HL & HR & HW). cbn [fst snd sptr]. split; [|reflexivity].
      unfold st. rewrite HL, HR, HW. repeat split; set_solver.
    + eapply t_bind; [apply t_ret_same|]. intros ?u.
      eapply t_bind; [apply t_free_none|]. intros ?u.
      apply t_ret. intros m H. cbn [fst snd sptr]. split; [exact H|reflexivity].
Qed.

Lemma t_szdd_extract junk fuel s h k L R W : hfh h ∈ R ->
  triple (st L R W) (szdd_extract junk fuel s h (FOut k)) (fun r m => st L R W m /\ sptr (snd r) = sptr s).
Proof.
  intro Hfh. unfold szdd_extract.
  eapply t_bind; [apply (t_seek L R W (hfh h)); [set_solver|unfold SEEK_START; lia]|]. intros ok. cbn beta.
  destruct (negb ok); [apply t_ret; auto|].
  eapply t_bind; [apply t_open_out|]. intros o. cbn beta.
  destruct o as [oh|]; [|apply t_ret; auto].
  apply t_pre_prop. intro Hoh.
  eapply t_bind; [apply (t_lzss_decompress junk fuel (hfh h) oh SZDD_INPUT_SIZE _ L R ({[oh]} ∪ W)); [exact Hfh|set_solver|unfold SZDD_INPUT_SIZE; lia]|].
  intros e. cbn beta.
  eapply t_bind; [apply (t_close L R ({[oh]} ∪ W) oh); set_solver|]. intros ?u.
  apply t_ret. intros m (HL & HR & HW). cbn [snd sptr]. split; [|reflexivity].
  unfold st. rewrite HL, HR, HW. repeat split; set_solver.
Qed.

Lemma t_szdd_close s h L R W : hptr h ∉ L ∪ R ∪ W -> hfh h ∉ L ∪ R ∪ W -> hptr h <> hfh h ->
  triple (st ({[hptr h]} ∪ L) ({[hfh h]} ∪ R) W) (szdd_close s h) (fun r m => st L R W m /\ sptr r = sptr s).
Proof.
  intros Hp Hf Hne. unfold szdd_close.
  eapply t_bind; [apply (t_close _ _ _ (hfh h)); set_solver|]. intros ?u.
  eapply t_bind; [apply (t_free_some _ _ _ (hptr h)); set_solver|]. intros ?u.
  apply t_ret. intros m (HL & HR & HW). cbn [sptr]. split; [|reflexivity].
  unfold st. rewrite HL, HR, HW. repeat split; set_solver.
Qed.

Lemma t_szdd_decompress junk fuel s ki ko L R W :
  triple (st L R W) (szdd_decompress junk fuel s (FIn ki) (FOut ko)) (fun r m => st L R W m /\ sptr (snd r) = sptr s).
Proof.
  unfold szdd_decompress.
  eapply t_bind; [apply t_szdd_open|]. intros [h s1]. cbn [fst snd].
  destruct h as [hd|].
  - apply (t_pre_extract _ (hptr hd ∉ L ∪ R ∪ W /\ hfh hd ∉ L ∪ R ∪ W /\ hptr hd <> hfh hd /\ sptr s1 = sptr s)); [intros m H; tauto|].
    intros (Hp & Hf & Hne & Hs1).
    apply (t_pre_weaken _ (st ({[hptr hd]} ∪ L) ({[hfh hd]} ∪ R) W)); [intros m H; tauto|].
    eapply t_bind; [apply (t_szdd_extract junk fuel s1 hd ko); set_solver|]. intros [e s2]. cbn [snd].
    apply t_pre_prop_r. intro Hs2.
    eapply t_bind; [eapply t_conseq; [apply (t_szdd_close s2 hd L R W Hp Hf Hne)|intros m H; apply H|intros a m H; exact H]|].
    intros s3. apply t_ret. intros m [H1 H2]. cbn [snd sptr]. split; [exact H1|]. congruence.
  - apply t_ret. intros m [H Hs]. cbn [fst snd] in *. auto.
Qed.

(* script A: create; decompress(in -> out); destroy *)
Lemma t_script_decompress junk fuel : triple (st ∅ ∅ ∅) (script_decompress junk fuel) (fun _ => st ∅ ∅ ∅).
Proof.
  unfold script_decompress, szdd_new, szdd_destroy.
  eapply t_bind.
  - eapply t_bind; [apply t_alloc; unfold sizeof_szdd_decompressor; lia|]. intros sp. cbn beta.
    apply (t_ret _ _ (fun r m => match r with Some s => sptr s ∉ (∅ : gset N) /\ st ({[sptr s]} ∪ ∅) ∅ ∅ m | None => st ∅ ∅ ∅ m end)).
    intros m H. destruct sp as [p|]; cbn [sptr]; [split; [set_solver|apply H]|exact H].
  - intros so. cbn beta. destruct so as [s|]; [|apply t_ret; auto].
    apply t_pre_prop. intros _.
    eapply t_bind; [apply (t_szdd_decompress junk fuel s 0 0)|]. intros [e s']. cbn [snd].
    apply t_pre_prop_r. intro Hs.
    eapply t_bind; [rewrite Hs; apply (t_free_some ({[sptr s]} ∪ ∅) ∅ ∅ (sptr s)); set_solver|]. intros ?u.
    apply t_ret. intros m (HL & HR & HW). unfold st. rewrite HL, HR, HW. repeat split; set_solver.
Qed.

Lemma t_script_open_extract junk fuel : triple (st ∅ ∅ ∅) (script_open_extract junk fuel) (fun _ => st ∅ ∅ ∅).
Proof.
  unfold script_open_extract, szdd_new, szdd_destroy.
  eapply t_bind.
  - eapply t_bind; [apply t_alloc; unfold sizeof_szdd_decompressor; lia|]. intros sp. cbn beta.
    apply (t_ret _ _ (fun r m => match r with Some s => sptr s ∉ (∅ : gset N) /\ st ({[sptr s]} ∪ ∅) ∅ ∅ m | None => st ∅ ∅ ∅ m end)).
    intros m H. destruct sp as [p|]; cbn [sptr]; [split; [set_solver|apply H]|exact H].
  - intros so. cbn beta. destruct so as [s|]; [|apply t_ret; auto].
    apply t_pre_prop. intros _.
    set (L0 := ({[sptr s]} ∪ ∅ : gset N)).
    eapply t_bind; [apply (t_szdd_open s 0 L0 ∅ ∅)|]. intros [h s1]. cbn [fst snd].
    destruct h as [hd|].
    + apply (t_pre_extract _ (hptr hd ∉ L0 ∪ ∅ ∪ ∅ /\ hfh hd ∉ L0 ∪ ∅ ∪ ∅ /\ hptr hd <> hfh hd /\ sptr s1 = sptr s)); [intros m H; tauto|].
      intros (Hp & Hf & Hne & Hs1).
      apply (t_pre_weaken _ (st ({[hptr hd]} ∪ L0) ({[hfh hd]} ∪ ∅) ∅)); [intros m H; tauto|].
      eapply t_bind; [apply (t_szdd_extract junk fuel s1 hd 0); set_solver|]. intros [e1 s2]. cbn [snd].
      apply t_pre_prop_r. intro Hs2.
      eapply t_bind; [apply (t_szdd_extract junk fuel s2 hd 1); set_solver|]. intros [e2 s3]. cbn [snd].
      apply t_pre_prop_r. intro Hs3.
      eapply t_bind; [apply (t_szdd_close s3 hd L0 ∅ ∅ Hp Hf Hne)|]. intros s4. cbn beta.
      apply t_pre_prop_r. intro Hs4.
      eapply t_bind; [replace (sptr s4) with (sptr s) by congruence; apply (t_free_some L0 ∅ ∅ (sptr s)); unfold L0; set_solver|]. intros ?u.
      apply t_ret. intros m (HL & HR & HW). unfold st. rewrite HL, HR, HW. unfold L0. repeat split; set_solver.
    + apply t_pre_prop_r. intro Hs1.
      eapply t_bind; [rewrite Hs1; apply (t_free_some L0 ∅ ∅ (sptr s)); unfold L0; set_solver|]. intros ?u.
      apply t_ret. intros m (HL & HR & HW). unfold st. rewrite HL, HR, HW. unfold L0. repeat split; set_solver.
Qed.

Definition clean (m : mon) : Prop := live m = ∅ /\ ropen m = ∅ /\ wopen m = ∅ /\ bad m = false.
Lemma wf_mon0 : wf mon0. Proof. split; [intros x Hx; set_solver|reflexivity]. Qed.
Lemma st_mon0 : st ∅ ∅ ∅ mon0. Proof. repeat split. Qed.

Lemma triple_clean {A} (p : prog A) : triple (st ∅ ∅ ∅) p (fun _ => st ∅ ∅ ∅) -> forall o, clean (snd (run o mon0 p)).
Proof.
  intros T o. specialize (T o mon0 wf_mon0 st_mon0). destruct (run o mon0 p) as [a m]. destruct T as [[_ Hb] (HL & HR & HW)].
  cbn [snd]. unfold clean. auto.
Qed.

(* For EVERY host: after create; decompress(in, out); destroy  -- and after  create; open; extract; extract; close; destroy --
   nothing is left allocated or open, nothing was freed/closed twice or used after release, and every callback was used as documented. *)
Theorem szdd_script_decompress_clean : forall (o : oracle) junk fuel, clean (snd (run o mon0 (script_decompress junk fuel))).
Proof. intros o junk fuel. apply triple_clean. apply t_script_decompress. Qed.
Theorem szdd_script_open_extract_clean : forall (o : oracle) junk fuel, clean (snd (run o mon0 (script_open_extract junk fuel))).
Proof. intros o junk fuel. apply triple_clean. apply t_script_open_extract. Qed.
