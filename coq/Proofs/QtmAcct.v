(* Output accounting of the real Quantum port (Model/Qtm.v decompress = qtmd_decompress): a call asked for n bytes never writes more
   than n and writes exactly n when it returns OK - for every input and every stream state (C07).  Unlike LZX and MSZIP the
   Quantum decoder also writes from inside its match loop (the window flush of a wrapping match), so the counting predicate goes
   through the inner loop as well. *)
From Coq Require Import List NArith ZArith Lia Bool.
Import ListNotations.
From MSP Require Import Base.Src Model.Mszip Model.Qtm Proofs.NoWrite.
From RecordUpdate Require Import RecordSet.
Local Open Scope N_scope.

Definition nz {A} (r : N + A * qst) : Prop := match r with inl e => e <> 0 | inr _ => True end.
Definition nwm {A} (m : qm A) : Prop := forall s, nowrite nz (m s).
Lemma nwm_bnd {A B} (m : qm A) (f : A -> qm B) : nwm m -> (forall a, nwm (f a)) -> nwm (bnd m f).
Proof. intros Hm Hf s. unfold bnd. eapply nowrite_sbind; [apply Hm|]. intros [e|[a s']] Hn; [constructor; exact Hn|apply Hf]. Qed.
Lemma nwm_ret {A} (a : A) : nwm (ret a). Proof. intro s. constructor. exact I. Qed.
Lemma nwm_fail {A} e : e <> 0 -> nwm (@fail A e). Proof. intros He s. constructor. exact He. Qed.
Lemma nwm_get : nwm get. Proof. intro s. constructor. exact I. Qed.
Lemma nwm_put s0 : nwm (put s0). Proof. intro s. constructor. exact I. Qed.
Lemma nwm_modify f : nwm (modify f). Proof. intro s. constructor. exact I. Qed.
Lemma nwm_next : nwm next_byte. Proof. intro s. constructor. intro. constructor. exact I. Qed.
Lemma nwm_fail_dec {A} : nwm (@fail A ERR_DECRUNCH). Proof. apply nwm_fail. intro H. vm_compute in H. discriminate. Qed.
Lemma nwm_fail_99 {A} : nwm (@fail A 99). Proof. apply nwm_fail. discriminate. Qed.
Lemma nwm_fail_oob {A} : nwm (@fail A OOBQ). Proof. apply nwm_fail. discriminate. Qed.
Create HintDb qnw.
#[export] Hint Resolve nwm_ret nwm_fail_dec nwm_fail_99 nwm_fail_oob nwm_get nwm_put nwm_modify nwm_next : qnw.
Ltac qnw := repeat (match goal with
  | |- nwm (bnd _ _) => apply nwm_bnd
  | |- nwm (if ?b then _ else _) => destruct b
  | |- nwm (let '(_, _) := ?x in _) => destruct x
  | |- nwm (match ?x with _ => _ end) => destruct x
  | |- forall _, _ => intro
  | |- _ => solve [auto with qnw]
  end).
Lemma nwm_read_word : nwm read_word. Proof. unfold read_word. qnw. Qed.
#[export] Hint Resolve nwm_read_word : qnw.
Lemma nwm_ensure f : forall n, nwm (ensure f n). Proof. induction f as [|f IH]; intro n; cbn [ensure]; qnw. Qed.
#[export] Hint Resolve nwm_ensure : qnw.
Lemma nwm_peek n : nwm (peek n). Proof. unfold peek. qnw. Qed.
Lemma nwm_remove n : nwm (remove n). Proof. unfold remove. qnw. Qed.
#[export] Hint Resolve nwm_peek nwm_remove : qnw.
Lemma nwm_read_bits n : nwm (read_bits n). Proof. unfold read_bits. qnw. Qed.
#[export] Hint Resolve nwm_read_bits : qnw.
Lemma nwm_read_many f : forall needed val, nwm (read_many f needed val). Proof. induction f as [|f IH]; intros; cbn [read_many]; qnw. Qed.
#[export] Hint Resolve nwm_read_many : qnw.
Lemma nwm_renorm f : nwm (renorm f). Proof. induction f as [|f IH]; cbn [renorm]; qnw. Qed.
#[export] Hint Resolve nwm_renorm : qnw.
Lemma nwm_get_symbol i : nwm (get_symbol i). Proof. unfold get_symbol. qnw. Qed.
#[export] Hint Resolve nwm_get_symbol : qnw.
Lemma nwm_trailer f : nwm (trailer f). Proof. induction f as [|f IH]; cbn [trailer]; qnw. Qed.
#[export] Hint Resolve nwm_trailer : qnw.

Section Acct.
Variable n : N.
Definition acm {A} (Q : A -> N -> Prop) (w : N) (m : qm A) : Prop :=
  forall s, acct (fun r w' => match r with inl e => e <> 0 /\ w' <= n | inr (a, _) => Q a w' end) (fun w' => w' <= n) w (m s).
Lemma acm_bnd {A B} (Q1 : A -> N -> Prop) (Q2 : B -> N -> Prop) w (m : qm A) (f : A -> qm B) :
  acm Q1 w m -> (forall a w', Q1 a w' -> acm Q2 w' (f a)) -> acm Q2 w (bnd m f).
Proof. intros Hm Hf s. unfold bnd. eapply acct_sbind; [apply Hm|]. intros [e|[a s']] w' H; [constructor; exact H|apply Hf; exact H]. Qed.
Lemma acm_nw {A} (m : qm A) w : nwm m -> w <= n -> acm (fun _ w' => w' = w) w m.
Proof.
  intros Hm Hw s. eapply acct_weaken; [apply (acct_nowrite nz (fun w1 => w1 <= n)); [apply Hm|exact Hw]|].
  intros [e|[a s']] w' [L E]; subst; [split; [exact L|exact Hw]|reflexivity].
Qed.
Lemma acm_write d w : acm (fun _ w' => w' = w + N.of_nat (length d)) w (write d).
Proof. intro s. unfold write. constructor. constructor. reflexivity. Qed.
Lemma acm_ret {A} (Q : A -> N -> Prop) a w : Q a w -> acm Q w (ret a). Proof. intros H s. constructor. exact H. Qed.
Lemma acm_fail {A} (Q : A -> N -> Prop) e w : e <> 0 -> w <= n -> acm Q w (fail e). Proof. intros H1 H2 s. constructor. split; assumption. Qed.
Lemma acm_modify (Q : unit -> N -> Prop) f w : Q tt w -> acm Q w (modify f). Proof. intros H s. constructor. exact H. Qed.

Lemma span_len : forall k w i acc, length (span k w i acc) = (k + length acc)%nat.
Proof. induction k as [|k IH]; intros w i acc; cbn [span]; [rewrite rev_append_rev, app_length, rev_length; cbn; lia|]. rewrite IH. cbn [length]. lia. Qed.
Lemma span_lenN k w i : N.of_nat (length (span (N.to_nat k) w i [])) = k.
Proof. rewrite span_len. cbn [length]. lia. Qed.

Ltac fin := cbn [snd] in *; repeat match goal with
  | H : (_ <? _) = false |- _ => apply N.ltb_ge in H
  | H : (_ <? _) = true |- _ => apply N.ltb_lt in H
  | H : (_ <=? _) = false |- _ => apply N.leb_gt in H
  | H : (_ <=? _) = true |- _ => apply N.leb_le in H end; lia.

Ltac step := match goal with
  | |- acm _ _ (bnd (write _) _) => eapply acm_bnd; [apply acm_write|intros ? ? ->; rewrite span_lenN]
  | |- acm _ _ (bnd _ _) => eapply acm_bnd; [apply acm_nw; [solve [qnw]|fin]|intros ? ? ->]
  | |- acm _ _ (fail _) => apply acm_fail; [let HH := fresh in intro HH; vm_compute in HH; discriminate|fin]
  | |- acm _ _ (if ?b then _ else _) => destruct b eqn:?
  | |- acm _ _ (let '(_, _) := ?x in _) => destruct x
  | |- _ => progress cbv zeta
  end.

Lemma inner_acct : forall f fe ob w, w + ob = n -> acm (fun r w' => w' + snd r = n) w (inner f fe ob).
Proof.
  induction f as [|f IH]; intros fe ob w Hw; cbn [inner]; [step|].
  repeat step; try (apply IH; exact Hw); try (apply acm_ret; fin).
Qed.

Lemma outer_acct : forall f ob w, w + ob = n -> acm (fun rest w' => w' + rest = n) w (outer f ob).
Proof.
  induction f as [|f IH]; intros ob w Hw; cbn [outer]; [step|].
  repeat step; try (apply acm_ret; fin).
  eapply acm_bnd; [apply inner_acct; exact Hw|]. intros [b ob1] w1 H1. cbn [snd] in H1.
  repeat step; try (apply acm_ret; fin); apply IH; fin.
Qed.

Lemma decompress_acct : acm (fun _ w' => w' = n) 0 (decompress n).
Proof.
  unfold decompress. step.
  destruct (N.eqb_spec (err a) 0) as [E|E]; cbn [negb]; [|apply acm_fail; [exact E|lia]].
  cbv zeta. set (i := N.min (oend a - optr a) n). assert (Hin : i <= n) by (unfold i; lia). clearbody i.
  eapply (acm_bnd (fun _ w' => w' = i)).
  - destruct (0 <? i) eqn:Hi.
    + step. apply acm_modify. lia.
    + apply acm_ret. apply N.ltb_ge in Hi. lia.
  - intros _ w' ->. destruct (N.eqb_spec (n - i) 0) as [E0|E0]; [apply acm_ret; lia|].
    eapply acm_bnd; [apply outer_acct; lia|]. intros rest w' Hr. cbv beta in Hr.
    destruct (0 <? rest) eqn:Er.
    + step. step. apply acm_modify. lia.
    + apply acm_ret. apply N.ltb_ge in Er. lia.
Qed.
End Acct.

Theorem qtm_call_acct s i n st s' i' : qtm_call s i n = (st, s', i') ->
  olen i <= olen i' /\ olen i' <= olen i + n /\ (st = 0 -> olen i' = olen i + n).
Proof.
  unfold qtm_call. intro H.
  destruct (ideal EofPad2 0 (decompress n s) i) as [r i1] eqn:E.
  destruct (acct_run _ _ _ _ _ _ (decompress_acct n s) (olen i) i r i1 ltac:(lia) E) as (w' & A & B & C).
  destruct r as [[e|[[] s1]]|e]; inversion H; subst; (split; [lia|]).
  - destruct C as [C1 C2]. split; [lia|]. intro; contradiction.
  - split; lia.
  - destruct C as [C1 C2]. split; [lia|]. subst. intro HH. vm_compute in HH. discriminate.
Qed.

Definition sumN (l : list N) : N := fold_right N.add 0 l.
Lemma qtm_calls_acct : forall reqs s i acc sts i', qtm_calls reqs s i acc = (sts, i') ->
  exists sts', sts = rev acc ++ sts' /\ length sts' = length reqs /\
    olen i <= olen i' /\ olen i' <= olen i + sumN reqs /\ (Forall (fun st => st = 0) sts' -> olen i' = olen i + sumN reqs).
Proof.
  induction reqs as [|n reqs IH]; intros s i acc sts i' H; cbn [qtm_calls] in H.
  - inversion H; subst. exists []. rewrite rev_append_rev. cbn [sumN fold_right length]. repeat split; try lia.
  - destruct (qtm_call s i n) as [[st s1] i1] eqn:E. destruct (qtm_call_acct _ _ _ _ _ _ E) as (A & B & C).
    destruct (IH _ _ _ _ _ H) as (sts' & E1 & E2 & E3 & E4 & E5). exists (st :: sts'). cbn [rev] in E1. rewrite <- app_assoc in E1. cbn [app] in E1.
    cbn [sumN fold_right length]. fold (sumN reqs). split; [exact E1|]. split; [lia|]. split; [lia|]. split; [lia|].
    intro F. inversion F as [|? ? F1 F2]; subst. specialize (C eq_refl). specialize (E5 F2). lia.
Qed.
Theorem qtm_run_acct wb inp reqs sts out : qtm_run wb inp reqs = (sts, out) ->
  length sts = length reqs /\ N.of_nat (length out) <= sumN reqs /\ (Forall (fun st => st = 0) sts -> N.of_nat (length out) = sumN reqs).
Proof.
  unfold qtm_run. intro H.
  destruct (qtm_calls reqs (qtm_init wb) {| irest := inp ++ pad EofPad2; iout := [] |} []) as [sts0 i'] eqn:E.
  inversion H; subst. destruct (qtm_calls_acct _ _ _ _ _ _ E) as (sts' & E1 & E2 & E3 & E4 & E5). cbn [rev app] in E1. subst sts'.
  unfold olen in *. cbn [iout length] in *. rewrite rev_append_rev, app_nil_r, rev_length. split; [exact E2|]. split; [lia|]. intro F. specialize (E5 F). lia.
Qed.
