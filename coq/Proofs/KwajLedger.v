(* C09 + C20 for the KWAJ front end (L2/Kwaj.v = kwajd.c): for EVERY host the documented client scripts end with an empty ledger and
   no contract violation.  The LZH and MSZIP decoders are abstract programs assumed to leave the ledger as they found it. *)
From stdpp Require Import gmap.
From Coq Require Import NArith ZArith List.
From MSP Require Import Gen.Consts L2.Sys L2.Szdd L2.Kwaj Proofs.Mon Proofs.SzddLedger.
Local Open Scope N_scope.

Definition oset (o : option ptr) : gset N := match o with Some p => {[p]} | None => ∅ end.

Lemma t_free_opt L R W (o : option ptr) : (forall p, o = Some p -> p ∈ L) ->
  triple (st L R W) (call1 (CFree o)) (fun _ => st (L ∖ oset o) R W).
Proof.
  intro H. destruct o as [p|]; cbn [oset].
  - apply t_free_some. apply H. reflexivity.
  - replace (L ∖ ∅) with L by set_solver. apply t_free_none.
Qed.

(* ---------- kwajd_read_headers ---------- *)
Section Headers.
Variables (L R W : gset N) (fh : handle).
Hypothesis Hfh : fh ∈ R.
Lemma Hfh2 : fh ∈ R ∪ W. Proof. set_solver. Qed.

Lemma t_read_part maxlen : triple (st L R W) (read_part fh maxlen) (fun _ => st L R W).
Proof.
  unfold read_part. eapply t_bind; [apply (t_read L R W fh _ Hfh); lia|]. intros r. cbn beta.
  destruct r as [|buf]; [apply t_ret; auto|].
  destruct (_ <? _)%nat; [apply t_ret; auto|]. destruct (_ =? _)%nat; [apply t_ret; auto|].
  eapply t_bind; [apply (t_seek L R W fh); [exact Hfh2|unfold SEEK_CUR; lia]|]. intros ok. cbn beta.
  destruct (negb ok); apply t_ret; auto.
Qed.

(* what the header record owns *)
Definition owns (h : khdr) (m : mon) : Prop :=
  st (oset (kfn h) ∪ oset (kex h) ∪ L) R W m /\
  (forall p, kfn h = Some p -> p ∉ L ∪ R ∪ W) /\ (forall q, kex h = Some q -> q ∉ L ∪ R ∪ W /\ kfn h <> Some q).
Definition same_ids (h0 h : khdr) : Prop := khp h = khp h0 /\ kfh h = kfh h0.

Lemma owns_plain h m : kfn h = None -> kex h = None -> st L R W m -> owns h m.
Proof.
  intros Hf He (HL & HR & HW). unfold owns. rewrite Hf, He. cbn [oset]. split; [|split; intros ? ?; discriminate].
  unfold st. rewrite HL. repeat split; auto. clear. set_solver.
Qed.

Lemma t_read_headers h0 : kfh h0 = fh -> kfn h0 = None -> kex h0 = None ->
  triple (st L R W) (read_headers h0) (fun r m => owns (snd r) m /\ same_ids h0 (snd r)).
Proof.
  intros Hh Hn He. unfold read_headers. rewrite Hh.
  assert (P0 : forall e m, st L R W m -> owns (snd (e, h0)) m /\ same_ids h0 (snd (e : N, h0))).
  { intros e m Hm. split; [apply owns_plain; assumption|split; reflexivity]. }
  eapply t_bind; [apply (t_read L R W fh _ Hfh); unfold kwajh_SIZEOF; lia|]. intros r. cbn beta.
  destruct r as [|buf]; [apply t_ret; apply P0|].
  destruct (negb _); [apply t_ret; apply P0|]. destruct (negb _); [apply t_ret; apply P0|].
  set (flags := le16 buf 12).
  set (h1 := {| khp := khp h0; kfh := fh; kcomp := le16 buf 8; kdataoff := le16 buf 10; kheaders := flags; klength := 0; kfn := None; kname := []; kex := None; kextra := [] |}).
  (* a header value with no allocation in it and the same identities *)
  set (plain := fun h : khdr => khp h = khp h0 /\ kfh h = fh /\ kfn h = None /\ kex h = None).
  assert (Pp : forall (e : N) h m, plain h -> st L R W m -> owns (snd (e, h)) m /\ same_ids h0 (snd (e, h))).
  { intros e h m (A & B & C & D) Hm. split; [apply owns_plain; assumption|split; [exact A|rewrite Hh; exact B]]. }
  assert (Ph1 : plain h1) by (unfold plain, h1; cbn; auto).
  (* length *)
  eapply (t_bind _ _ (fun r m => st L R W m /\ plain (snd r))).
  { destruct (has flags MSKWAJ_HDR_HASLENGTH); [|apply t_ret; intros m Hm; split; [exact Hm|exact Ph1]].
    eapply t_bind; [apply (t_read L R W fh 4 Hfh); lia|]. intros r. cbn beta.
    destruct r as [|b]; [apply t_ret; intros m Hm; split; [exact Hm|exact Ph1]|].
    destruct (_ =? _)%nat; apply t_ret; intros m Hm; (split; [exact Hm|]); [unfold plain, set_len; cbn; unfold plain in Ph1; tauto|exact Ph1]. }
  intros [e1 h2]. cbn [snd]. apply t_pre_prop_r. intro Ph2.
  destruct (negb (e1 =? 0)); [apply t_ret; intros m Hm; apply Pp; assumption|].
  (* unknown1 *)
  eapply (t_bind _ _ (fun _ => st L R W)).
  { destruct (has flags MSKWAJ_HDR_HASUNKNOWN1); [|apply t_ret; auto].
    eapply t_bind; [apply (t_read L R W fh 2 Hfh); lia|]. intros r. cbn beta.
    destruct r as [|b]; [apply t_ret; auto|]. destruct (_ =? _)%nat; apply t_ret; auto. }
  intros e2. cbn beta. destruct (negb (e2 =? 0)); [apply t_ret; intros m Hm; apply Pp; assumption|].
  (* unknown2 *)
  eapply (t_bind _ _ (fun _ => st L R W)).
  { destruct (has flags MSKWAJ_HDR_HASUNKNOWN2); [|apply t_ret; auto].
    eapply t_bind; [apply (t_read L R W fh 2 Hfh); lia|]. intros r. cbn beta.
    destruct r as [|b]; [apply t_ret; auto|]. destruct (_ =? _)%nat; [|apply t_ret; auto].
    eapply t_bind; [apply (t_seek L R W fh); [exact Hfh2|unfold SEEK_CUR; lia]|]. intros ok. apply t_ret. auto. }
  intros e3. cbn beta. destruct (negb (e3 =? 0)); [apply t_ret; intros m Hm; apply Pp; assumption|].
  (* names: one allocation that the record keeps, whatever happens next *)
  set (named := fun h : khdr => khp h = khp h0 /\ kfh h = fh /\ kex h = None).
  eapply (t_bind _ _ (fun r m => named (snd r) /\ match kfn (snd r) with Some p => p ∉ L ∪ R ∪ W /\ st ({[p]} ∪ L) R W m | None => st L R W m end)).
  { destruct (has flags MSKWAJ_HDR_HASFILENAME || has flags MSKWAJ_HDR_HASFILEEXT).
    2:{ apply t_ret. intros m Hm. destruct Ph2 as (A & B & C & D). cbn [snd]. rewrite C. split; [unfold named; auto|exact Hm]. }
    eapply t_bind; [apply t_alloc; lia|]. intros fp. cbn beta.
    destruct fp as [p|].
    2:{ apply t_ret. intros m Hm. destruct Ph2 as (A & B & C & D). cbn [snd]. rewrite C. split; [unfold named; auto|exact Hm]. }
    apply t_pre_prop. intro Hp.
    assert (Hfh' : fh ∈ R) by exact Hfh.
    assert (N3 : named (set_fn h2 (Some p) [])) by (destruct Ph2 as (A & B & C & D); unfold named, set_fn; cbn; auto).
    eapply (t_bind _ _ (fun _ => st ({[p]} ∪ L) R W)).
    { destruct (has flags MSKWAJ_HDR_HASFILENAME); [|apply t_ret; auto].
      unfold read_part. eapply t_bind; [apply (t_read ({[p]} ∪ L) R W fh _ Hfh); lia|]. intros r. cbn beta.
      destruct r as [|buf1]; [apply t_ret; auto|].
      destruct (_ <? _)%nat; [apply t_ret; auto|]. destruct (_ =? _)%nat; [apply t_ret; auto|].
      eapply t_bind; [apply (t_seek ({[p]} ∪ L) R W fh); [exact Hfh2|unfold SEEK_CUR; lia]|]. intros ok. cbn beta.
      destruct (negb ok); apply t_ret; auto. }
    intros n1. cbn beta.
    destruct (negb (fst n1 =? 0)); [apply t_ret; intros m Hm; cbn [snd set_fn kfn]; split; [exact N3|split; [exact Hp|exact Hm]]|].
    eapply (t_bind _ _ (fun _ => st ({[p]} ∪ L) R W)).
    { destruct (has flags MSKWAJ_HDR_HASFILEEXT); [|apply t_ret; auto].
      unfold read_part. eapply t_bind; [apply (t_read ({[p]} ∪ L) R W fh _ Hfh); lia|]. intros r. cbn beta.
      destruct r as [|buf1]; [apply t_ret; auto|].
      destruct (_ <? _)%nat; [apply t_ret; auto|]. destruct (_ =? _)%nat; [apply t_ret; auto|].
      eapply t_bind; [apply (t_seek ({[p]} ∪ L) R W fh); [exact Hfh2|unfold SEEK_CUR; lia]|]. intros ok. cbn beta.
      destruct (negb ok); apply t_ret; auto. }
    intros n2. cbn beta.
    destruct (negb (fst n2 =? 0)); apply t_ret; intros m Hm; cbn [snd set_fn kfn]; (split; [|split; [exact Hp|exact Hm]]);
      destruct Ph2 as (A & B & C & D); unfold named, set_fn; cbn; auto. }
  intros [e4 h4]. cbn [snd]. apply t_pre_prop. intros (I1 & I2 & I3).
  (* from here on: the ledger is L plus what kfn h4 holds *)
  set (Lf := oset (kfn h4) ∪ L).
  assert (Hfresh4 : forall p, kfn h4 = Some p -> p ∉ L ∪ R ∪ W -> True) by auto.
  apply (t_pre_weaken _ (fun m => st Lf R W m /\ (forall p, kfn h4 = Some p -> p ∉ L ∪ R ∪ W))).
  { intros m Hm. unfold Lf. destruct (kfn h4) as [p|]; cbn [oset].
    - destruct Hm as [Hp Hm]. split; [exact Hm|]. intros p0 E. inversion E; subst. exact Hp.
    - split; [|intros ? ?; discriminate]. destruct Hm as (HL & HR & HW). unfold st. rewrite HL. repeat split; auto. clear. set_solver. }
  apply t_pre_prop_r. intro Hf4.
  assert (Pown4 : forall (e : N) m, st Lf R W m -> owns (snd (e, h4)) m /\ same_ids h0 (snd (e, h4))).
  { intros e m (HL & HR & HW). cbn [snd]. split; [|split; [exact I1|rewrite Hh; exact I2]].
    unfold owns. rewrite I3. cbn [oset]. split; [|split; [exact Hf4|intros ? ?; discriminate]].
    unfold st. unfold Lf in HL. rewrite HL. repeat split; auto. clear. set_solver. }
  destruct (negb (e4 =? 0)); [apply t_ret; intros m Hm; apply Pown4; exact Hm|].
  destruct (has flags MSKWAJ_HDR_HASEXTRATEXT); [|apply t_ret; intros m Hm; apply Pown4; exact Hm].
  eapply t_bind; [apply (t_read Lf R W fh 2 Hfh); lia|]. intros r. cbn beta.
  destruct r as [|b2]; [apply t_ret; intros m Hm; apply Pown4; exact Hm|].
  destruct (negb _); [apply t_ret; intros m Hm; apply Pown4; exact Hm|].
  eapply t_bind; [apply t_alloc; lia|]. intros ep. cbn beta.
  destruct ep as [q|]; [|apply t_ret; intros m Hm; apply Pown4; exact Hm].
  apply t_pre_prop. intro Hq.
  assert (Pown5 : forall (e : N) ex m, st ({[q]} ∪ Lf) R W m -> owns (snd (e, set_ex h4 (Some q) ex)) m /\ same_ids h0 (snd (e, set_ex h4 (Some q) ex))).
  { intros e ex m (HL & HR & HW). cbn [snd]. split; [|split; [exact I1|rewrite Hh; exact I2]].
    unfold owns, set_ex. cbn [kfn kex oset]. split; [|split].
    - unfold st. unfold Lf in HL. rewrite HL. repeat split; auto. clear. set_solver.
    - exact Hf4.
    - intros q0 E. inversion E; subst q0. split; [clear - Hq; unfold Lf in Hq; set_solver|]. intro E2. unfold Lf in Hq. rewrite E2 in Hq. cbn [oset] in Hq. clear - Hq. set_solver. }
  eapply t_bind; [apply (t_read ({[q]} ∪ Lf) R W fh _ Hfh); lia|]. intros r2. cbn beta.
  destruct r2 as [|ex]; [apply t_ret; intros m Hm; apply Pown5; exact Hm|].
  destruct (_ =? _)%nat; apply t_ret; intros m Hm; apply Pown5; exact Hm.
Qed.
End Headers.

(* ---------- close / open ---------- *)
Lemma t_kwaj_close s h L R W : khp h ∉ L ∪ R ∪ W -> kfh h ∉ L ∪ R ∪ W -> khp h <> kfh h ->
  (forall p, kfn h = Some p -> p ∉ L ∪ R ∪ W /\ p <> khp h /\ p <> kfh h) ->
  (forall q, kex h = Some q -> q ∉ L ∪ R ∪ W /\ q <> khp h /\ q <> kfh h /\ kfn h <> Some q) ->
  triple (st (oset (kfn h) ∪ oset (kex h) ∪ ({[khp h]} ∪ L)) ({[kfh h]} ∪ R) W) (kwaj_close s h) (fun r m => st L R W m /\ ksptr r = ksptr s).
Proof.
  intros Hp Hf Hne Hfn Hex. unfold kwaj_close.
  set (hp := khp h) in *. set (fh := kfh h) in *.
  destruct (kfn h) as [p|] eqn:E1; destruct (kex h) as [q|] eqn:E2; cbn [oset].
  - destruct (Hfn _ eq_refl) as (A1 & A2 & A3). destruct (Hex _ eq_refl) as (B1 & B2 & B3 & B4). assert (Hpq : p <> q) by congruence. clear Hfn Hex.
    eapply t_bind; [apply (t_close _ _ _ fh); clear; set_solver|]. intros ?u.
    eapply t_bind; [apply (t_free_some _ _ _ p); clear; set_solver|]. intros ?u.
    eapply t_bind; [apply (t_free_some _ _ _ q); clear - Hpq; set_solver|]. intros ?u.
    eapply t_bind; [apply (t_free_some _ _ _ hp); clear - A2 B2; set_solver|]. intros ?u.
    apply t_ret. intros m (HL & HR & HW). cbn [ksptr]. split; [|reflexivity]. unfold st. rewrite HL, HR, HW.
    clear - Hp Hf Hne A1 A2 A3 B1 B2 B3 Hpq. repeat split; set_solver.
  - destruct (Hfn _ eq_refl) as (A1 & A2 & A3). clear Hfn Hex.
    eapply t_bind; [apply (t_close _ _ _ fh); clear; set_solver|]. intros ?u.
    eapply t_bind; [apply (t_free_some _ _ _ p); clear; set_solver|]. intros ?u.
    eapply t_bind; [apply t_free_none|]. intros ?u.
    eapply t_bind; [apply (t_free_some _ _ _ hp); clear - A2; set_solver|]. intros ?u.
    apply t_ret. intros m (HL & HR & HW). cbn [ksptr]. split; [|reflexivity]. unfold st. rewrite HL, HR, HW.
    clear - Hp Hf Hne A1 A2 A3. repeat split; set_solver.
  - destruct (Hex _ eq_refl) as (B1 & B2 & B3 & B4). clear Hfn Hex.
    eapply t_bind; [apply (t_close _ _ _ fh); clear; set_solver|]. intros ?u.
    eapply t_bind; [apply t_free_none|]. intros ?u.
    eapply t_bind; [apply (t_free_some _ _ _ q); clear; set_solver|]. intros ?u.
    eapply t_bind; [apply (t_free_some _ _ _ hp); clear - B2; set_solver|]. intros ?u.
    apply t_ret. intros m (HL & HR & HW). cbn [ksptr]. split; [|reflexivity]. unfold st. rewrite HL, HR, HW.
    clear - Hp Hf Hne B1 B2 B3. repeat split; set_solver.
  - clear Hfn Hex.
    eapply t_bind; [apply (t_close _ _ _ fh); clear; set_solver|]. intros ?u.
    eapply t_bind; [apply t_free_none|]. intros ?u.
    eapply t_bind; [apply t_free_none|]. intros ?u.
    eapply t_bind; [apply (t_free_some _ _ _ hp); clear; set_solver|]. intros ?u.
    apply t_ret. intros m (HL & HR & HW). cbn [ksptr]. split; [|reflexivity]. unfold st. rewrite HL, HR, HW.
    clear - Hp Hf Hne. repeat split; set_solver.
Qed.

(* open: nothing new is owned (NULL), or the handle, the header and what the header holds *)
Definition opened (L R W : gset N) (h : khdr) (m : mon) : Prop :=
  khp h ∉ L ∪ R ∪ W /\ kfh h ∉ L ∪ R ∪ W /\ khp h <> kfh h /\
  (forall p, kfn h = Some p -> p ∉ L ∪ R ∪ W /\ p <> khp h /\ p <> kfh h) /\
  (forall q, kex h = Some q -> q ∉ L ∪ R ∪ W /\ q <> khp h /\ q <> kfh h /\ kfn h <> Some q) /\
  st (oset (kfn h) ∪ oset (kex h) ∪ ({[khp h]} ∪ L)) ({[kfh h]} ∪ R) W m.

Lemma owns_opened L R W p f h m : p ∉ L ∪ R ∪ W -> f ∉ L ∪ R ∪ W -> p <> f -> khp h = p -> kfh h = f ->
  owns ({[p]} ∪ L) ({[f]} ∪ R) W h m -> opened L R W h m.
Proof.
  intros Hp Hf Hpf E1 E2 (Hst & Hfn & Hex). unfold opened. rewrite E1, E2.
  split; [exact Hp|]. split; [exact Hf|]. split; [exact Hpf|]. split; [|split].
  - intros p0 E. specialize (Hfn _ E). clear - Hfn. set_solver.
  - intros q E. destruct (Hex _ E) as [A B]. split; [clear - A; set_solver|]. split; [clear - A; set_solver|]. split; [clear - A; set_solver|exact B].
  - destruct Hst as (HL & HR & HW). unfold st. rewrite HL, HR, HW. clear. repeat split; set_solver.
Qed.

Lemma t_kwaj_open s k L R W :
  triple (st L R W) (kwaj_open s (FIn k))
    (fun r m => match fst r with None => st L R W m | Some h => opened L R W h m end /\ ksptr (snd r) = ksptr s).
Proof.
  unfold kwaj_open.
  eapply t_bind; [apply t_open_in|]. intros fh. cbn beta.
  destruct fh as [f|]; [|apply t_ret; intros m Hm; cbn [fst snd ksptr]; auto].
  apply t_pre_prop. intro Hf.
  eapply t_bind; [apply t_alloc; unfold sizeof_kwaj_header; lia|]. intros hp. cbn beta.
  destruct hp as [p|].
  2:{ eapply t_bind; [apply (t_close L ({[f]} ∪ R) W f); clear; set_solver|]. intros ?u.
      apply t_ret. intros m (HL & HR & HW). cbn [fst snd ksptr]. split; [|reflexivity]. unfold st. rewrite HL, HR, HW. clear - Hf. repeat split; set_solver. }
  apply t_pre_prop. intro Hp.
  assert (Hpf : p <> f) by (clear - Hp; set_solver).
  assert (Hp' : p ∉ L ∪ R ∪ W) by (clear - Hp; set_solver).
  assert (Hfin : f ∈ {[f]} ∪ R) by (clear; set_solver).
  eapply t_bind; [apply (t_read_headers ({[p]} ∪ L) ({[f]} ∪ R) W f Hfin (hdr0 p f)); reflexivity|]. intros [e h]. cbn [snd].
  apply t_pre_prop_r. intros (Hid1 & Hid2). cbn [hdr0 khp kfh] in Hid1, Hid2.
  apply (t_pre_weaken _ (opened L R W h)); [intros m Hm; exact (owns_opened L R W p f h m Hp' Hf Hpf Hid1 Hid2 Hm)|].
  destruct (negb (e =? 0)).
  - apply (t_pre_extract _ (khp h ∉ L ∪ R ∪ W /\ kfh h ∉ L ∪ R ∪ W /\ khp h <> kfh h /\
            (forall p0, kfn h = Some p0 -> p0 ∉ L ∪ R ∪ W /\ p0 <> khp h /\ p0 <> kfh h) /\
            (forall q, kex h = Some q -> q ∉ L ∪ R ∪ W /\ q <> khp h /\ q <> kfh h /\ kfn h <> Some q))); [intros m H; unfold opened in H; tauto|].
    intros (A & B & C & D & E).
    apply (t_pre_weaken _ (st (oset (kfn h) ∪ oset (kex h) ∪ ({[khp h]} ∪ L)) ({[kfh h]} ∪ R) W)); [intros m H; unfold opened in H; tauto|].
    eapply t_bind; [apply (t_kwaj_close s h L R W A B C D E)|]. intros s'. apply t_ret. intros m [Hm _]. cbn [fst snd ksptr]. auto.
  - apply t_ret. intros m Hm. cbn [fst snd ksptr]. split; [exact Hm|reflexivity].
Qed.

(* ---------- extract ---------- *)
Section Extract.
Variables (junk : byte) (fuel : nat) (lzh_body mszip_body : handle -> handle -> prog N).
(* what is assumed of the two abstract decoders: they leave the ledger as they found it and respect the contract *)
Hypothesis lzh_ok : forall L R W fh oh, fh ∈ R -> oh ∈ W -> triple (st L R W) (lzh_body fh oh) (fun _ => st L R W).
Hypothesis mszip_ok : forall L R W fh oh, fh ∈ R -> oh ∈ W -> triple (st L R W) (mszip_body fh oh) (fun _ => st L R W).

Lemma t_copy_loop n : forall L R W fh oh x, fh ∈ R -> oh ∈ W -> triple (st L R W) (copy_loop n fh oh x) (fun _ => st L R W).
Proof.
  induction n as [|n IH]; intros L R W fh oh x Hfh Hoh; cbn [copy_loop]; [apply t_ret; auto|].
  eapply t_bind; [apply (t_read L R W fh _ Hfh); unfold KWAJ_IN, KWAJ_INPUT_SIZE; lia|]. intros r. cbn beta.
  destruct r as [|[|b l]]; [apply t_ret; auto|apply t_ret; auto|].
  eapply t_bind; [apply (t_write L R W oh _ Hoh)|]. intros w. cbn beta.
  destruct (Z.eqb _ _); [apply IH; assumption|apply t_ret; auto].
Qed.

Lemma t_kwaj_extract s h k L R W : kfh h ∈ R ->
  triple (st L R W) (kwaj_extract junk fuel lzh_body mszip_body s h (FOut k)) (fun r m => st L R W m /\ ksptr (snd r) = ksptr s).
Proof.
  intro Hfh. unfold kwaj_extract.
  eapply t_bind; [apply (t_seek L R W (kfh h)); [clear - Hfh; set_solver|unfold SEEK_START; lia]|]. intros ok. cbn beta.
  destruct (negb ok); [apply t_ret; auto|].
  eapply t_bind; [apply t_open_out|]. intros o. cbn beta.
  destruct o as [oh|]; [|apply t_ret; auto].
  apply t_pre_prop. intro Hoh.
  assert (Hoh' : oh ∈ {[oh]} ∪ W) by (clear; set_solver).
  eapply (t_bind _ _ (fun _ => st L R ({[oh]} ∪ W))).
  { destruct (_ || _).
    - eapply t_bind; [apply t_alloc; unfold KWAJ_IN, KWAJ_INPUT_SIZE; lia|]. intros b. cbn beta.
      destruct b as [bp|]; [|apply t_ret; auto].
      apply t_pre_prop. intro Hbp.
      eapply t_bind; [apply (t_copy_loop fuel ({[bp]} ∪ L) R ({[oh]} ∪ W) (kfh h) oh _ Hfh Hoh')|]. intros e.
      eapply t_bind; [apply (t_free_some ({[bp]} ∪ L) R ({[oh]} ∪ W) bp); clear; set_solver|]. intros ?u.
      apply t_ret. intros m (HL & HR & HW). unfold st. rewrite HL, HR, HW. clear - Hbp. repeat split; set_solver.
    - destruct (_ =? _).
      + apply (t_lzss_decompress junk fuel (kfh h) oh KWAJ_IN _ L R ({[oh]} ∪ W) Hfh Hoh'). unfold KWAJ_IN, KWAJ_INPUT_SIZE. lia.
      + destruct (_ =? _); [apply lzh_ok; assumption|]. destruct (_ =? _); [apply mszip_ok; assumption|apply t_ret; auto]. }
  intros e. cbn beta.
  eapply t_bind; [apply (t_close L R ({[oh]} ∪ W) oh); clear; set_solver|]. intros ?u.
  apply t_ret. intros m (HL & HR & HW). cbn [snd ksptr]. split; [|reflexivity].
  unfold st. rewrite HL, HR, HW. clear - Hoh. repeat split; set_solver.
Qed.

Lemma opened_facts L R W h m : opened L R W h m ->
  khp h ∉ L ∪ R ∪ W /\ kfh h ∉ L ∪ R ∪ W /\ khp h <> kfh h /\
  (forall p0, kfn h = Some p0 -> p0 ∉ L ∪ R ∪ W /\ p0 <> khp h /\ p0 <> kfh h) /\
  (forall q, kex h = Some q -> q ∉ L ∪ R ∪ W /\ q <> khp h /\ q <> kfh h /\ kfn h <> Some q).
Proof. unfold opened. tauto. Qed.
Lemma opened_st L R W h m : opened L R W h m -> st (oset (kfn h) ∪ oset (kex h) ∪ ({[khp h]} ∪ L)) ({[kfh h]} ∪ R) W m.
Proof. unfold opened. tauto. Qed.

Lemma t_kwaj_decompress s ki ko L R W :
  triple (st L R W) (kwaj_decompress junk fuel lzh_body mszip_body s (FIn ki) (FOut ko)) (fun r m => st L R W m /\ ksptr (snd r) = ksptr s).
Proof.
  unfold kwaj_decompress.
  eapply t_bind; [apply t_kwaj_open|]. intros [h s1]. cbn [fst snd].
  destruct h as [hd|]; [|apply t_ret; intros m [H Hs]; cbn [fst snd] in *; auto].
  apply t_pre_prop_r. intro Hs1.
  apply (t_pre_extract _ _ _ _ (opened_facts L R W hd)). intros (A & B & C & D & E).
  apply (t_pre_weaken _ _ _ _ (opened_st L R W hd)).
  set (L' := oset (kfn hd) ∪ oset (kex hd) ∪ ({[khp hd]} ∪ L)).
  assert (Hin : kfh hd ∈ {[kfh hd]} ∪ R) by (clear; set_solver).
  eapply t_bind; [apply (t_kwaj_extract s1 hd ko L' ({[kfh hd]} ∪ R) W Hin)|]. intros [e s2]. cbn [snd].
  apply t_pre_prop_r. intro Hs2.
  eapply t_bind; [apply (t_kwaj_close s2 hd L R W A B C D E)|]. intros s3.
  apply t_ret. intros m [H1 H2]. cbn [snd ksptr]. split; [exact H1|]. congruence.
Qed.

Lemma t_kscript_decompress : triple (st ∅ ∅ ∅) (kscript_decompress junk fuel lzh_body mszip_body) (fun _ => st ∅ ∅ ∅).
Proof.
  unfold kscript_decompress, kwaj_new, kwaj_destroy.
  eapply t_bind.
  - eapply t_bind; [apply t_alloc; unfold sizeof_kwaj_decompressor; lia|]. intros sp. cbn beta.
    apply (t_ret _ _ (fun r m => match r with Some s => st ({[ksptr s]} ∪ ∅) ∅ ∅ m | None => st ∅ ∅ ∅ m end)).
    intros m H. destruct sp as [p|]; cbn [ksptr]; [apply H|exact H].
  - intros so. cbn beta. destruct so as [s|]; [|apply t_ret; auto].
    eapply t_bind; [apply (t_kwaj_decompress s 0 0)|]. intros [e s']. cbn [snd].
    apply t_pre_prop_r. intro Hs.
    eapply t_bind; [rewrite Hs; apply (t_free_some ({[ksptr s]} ∪ ∅) ∅ ∅ (ksptr s)); clear; set_solver|]. intros ?u.
    apply t_ret. intros m (HL & HR & HW). unfold st. rewrite HL, HR, HW. clear. repeat split; set_solver.
Qed.

Lemma t_kscript_open_extract : triple (st ∅ ∅ ∅) (kscript_open_extract junk fuel lzh_body mszip_body) (fun _ => st ∅ ∅ ∅).
Proof.
  unfold kscript_open_extract, kwaj_new, kwaj_destroy.
  eapply t_bind.
  - eapply t_bind; [apply t_alloc; unfold sizeof_kwaj_decompressor; lia|]. intros sp. cbn beta.
    apply (t_ret _ _ (fun r m => match r with Some s => st ({[ksptr s]} ∪ ∅) ∅ ∅ m | None => st ∅ ∅ ∅ m end)).
    intros m H. destruct sp as [p|]; cbn [ksptr]; [apply H|exact H].
  - intros so. cbn beta. destruct so as [s|]; [|apply t_ret; auto].
    set (L0 := ({[ksptr s]} ∪ ∅ : gset N)).
    eapply t_bind; [apply (t_kwaj_open s 0 L0 ∅ ∅)|]. intros [h s1]. cbn [fst snd].
    destruct h as [hd|].
    + apply t_pre_prop_r. intro Hs1.
      apply (t_pre_extract _ _ _ _ (opened_facts L0 ∅ ∅ hd)). intros (A & B & C & D & E).
      apply (t_pre_weaken _ _ _ _ (opened_st L0 ∅ ∅ hd)).
      set (L' := oset (kfn hd) ∪ oset (kex hd) ∪ ({[khp hd]} ∪ L0)).
      assert (Hin : kfh hd ∈ {[kfh hd]} ∪ (∅ : gset N)) by (clear; set_solver).
      eapply t_bind; [apply (t_kwaj_extract s1 hd 0 L' _ ∅ Hin)|]. intros [e1 s2]. cbn [snd].
      apply t_pre_prop_r. intro Hs2.
      eapply t_bind; [apply (t_kwaj_extract s2 hd 1 L' _ ∅ Hin)|]. intros [e2 s3]. cbn [snd].
      apply t_pre_prop_r. intro Hs3.
      eapply t_bind; [apply (t_kwaj_close s3 hd L0 ∅ ∅ A B C D E)|]. intros s4. cbn beta.
      apply t_pre_prop_r. intro Hs4.
      eapply t_bind; [replace (ksptr s4) with (ksptr s) by congruence; apply (t_free_some L0 ∅ ∅ (ksptr s)); unfold L0; clear; set_solver|]. intros ?u.
      apply t_ret. intros m (HL & HR & HW). unfold st. rewrite HL, HR, HW. unfold L0. clear. repeat split; set_solver.
    + apply t_pre_prop_r. intro Hs1.
      eapply t_bind; [rewrite Hs1; apply (t_free_some L0 ∅ ∅ (ksptr s)); unfold L0; clear; set_solver|]. intros ?u.
      apply t_ret. intros m (HL & HR & HW). unfold st. rewrite HL, HR, HW. unfold L0. clear. repeat split; set_solver.
Qed.

(* For EVERY host: after create; decompress(in, out); destroy  -- and after  create; open; extract; extract; close; destroy --
   nothing is left allocated or open, nothing was freed/closed twice or used after release, and every callback was used as documented. *)
Theorem kwaj_script_decompress_clean : forall (o : oracle), clean (snd (run o mon0 (kscript_decompress junk fuel lzh_body mszip_body))).
Proof. intro o. apply triple_clean. apply t_kscript_decompress. Qed.
Theorem kwaj_script_open_extract_clean : forall (o : oracle), clean (snd (run o mon0 (kscript_open_extract junk fuel lzh_body mszip_body))).
Proof. intro o. apply triple_clean. apply t_kscript_open_extract. Qed.
End Extract.
