(* lzxd_decompress (Model/Lzx.v: decompress) is resumable when the output length is known from the start (CHM, OAB, DELTA; 0 = never
   known): asking for a bytes and then for b more gives the bytes, the status and the decoder state of asking for a + b at once -
   the fact that lets a caller continue with a cached decoder (C08).  Uses the frame/offset bookkeeping of Proofs/LzxSafe.v. *)
From Coq Require Import List NArith ZArith Arith Lia Bool.
Import ListNotations.
From MSP Require Import Base.Src Model.Mszip Model.Lzx Proofs.NoWrite Proofs.LzxSafe.
From MSP Require Proofs.LzxAcct.
From RecordUpdate Require Import RecordSet.
Import RecordSetNotations.
Local Open Scope N_scope.

Section Resume.
Variables (rule : eofrule) (L : N).
Notation run := (ideal rule L).
Definition HL (h : N) : Prop := h = L.

Lemma ideal_sbind {A B} (p : sprog A) (f : A -> sprog B) : forall s,
  run (sbind p f) s = match run p s with (SVal a, s') => run (f a) s' | (SStop e, s') => (SStop e, s') end.
Proof.
  induction p as [a|c k IH]; intro s; [reflexivity|]. destruct c; cbn [sbind ideal].
  - destruct (ideal_next rule s) as [[b s']|e]; [apply IH|reflexivity].
  - destruct (irest s); [reflexivity|apply IH].
  - destruct (ideal_take rule n s []) as [[l s']|e]; [apply IH|reflexivity].
  - apply IH.
  - apply IH.
Qed.
Definition push (d : list N) (i : ist) : ist := {| irest := irest i; iout := rev_append d (iout i) |}.
Definition upd (x0 : lst) (k fs : N) : lst := x0 <| optr := optr x0 + k |> <| offset := offset x0 + k |> <| fposn := fposn x0 + fs |> <| frame := frame x0 + 1 |>.
Definition nxt (x0 : lst) (k fs : N) : lst := wrap_posns (upd x0 k fs).
Definition fl (s : lst) (k : N) : lst := s <| optr := optr s + k |> <| offset := offset s + k |>.

(* one turn of the frame loop, as a fact about runs *)
Lemma frame_loop_0 ef ob s i : run (frame_loop 0 ef ob s) i = (SVal (inl 99), i). Proof. reflexivity. Qed.
Lemma frame_loop_S f ef ob s i : run (frame_loop (S f) ef ob s) i =
  if ef <=? frame s then (SVal (inr (ob, s)), i) else
  match run (frame_pre s) i with
  | (SVal (inr (fs, x0)), i1) => run (frame_loop f ef (ob - N.min ob fs) (nxt x0 (N.min ob fs) fs)) (push (obytes x0 (N.min ob fs)) i1)
  | (SVal (inl e), i1) => (SVal (inl e), i1)
  | (SStop e, i1) => (SStop e, i1)
  end.
Proof.
  cbn [frame_loop]. unfold bnd at 1. cbn [get sbind]. destruct (ef <=? frame s); [reflexivity|].
  unfold bnd at 1. rewrite ideal_sbind. destruct (run (frame_pre s) i) as [[[e|[fs x0]]|e] i1]; try reflexivity.
Qed.

(* the status 99 marks an exhausted loop counter of the model, which is not a behaviour of the C code *)
Definition nofuel {A} (r : sres (N + A)) : Prop := match r with SVal (inl e) => e <> 99 | _ => True end.
Lemma frame_loop_mono : forall f ef ob s i r j, run (frame_loop f ef ob s) i = (r, j) -> nofuel r -> forall f', (f <= f')%nat -> run (frame_loop f' ef ob s) i = (r, j).
Proof.
  induction f as [|f IH]; intros ef ob s i r j H Hn f' Hf.
  - rewrite frame_loop_0 in H. inversion H; subst. cbn in Hn. congruence.
  - destruct f' as [|f']; [lia|]. rewrite frame_loop_S in H. rewrite frame_loop_S.
    destruct (ef <=? frame s); [exact H|]. destruct (run (frame_pre s) i) as [[[e|[fs x0]]|e] i1]; try exact H.
    apply (IH _ _ _ _ _ _ H Hn). lia.
Qed.
Lemma frame_loop_fuel_indep f1 f2 ef ob s i r1 j1 r2 j2 :
  run (frame_loop f1 ef ob s) i = (r1, j1) -> nofuel r1 -> run (frame_loop f2 ef ob s) i = (r2, j2) -> nofuel r2 -> r1 = r2 /\ j1 = j2.
Proof.
  intros H1 N1 H2 N2. pose proof (frame_loop_mono _ _ _ _ _ _ _ H1 N1 (Nat.max f1 f2) (Nat.le_max_l _ _)) as A.
  pose proof (frame_loop_mono _ _ _ _ _ _ _ H2 N2 (Nat.max f1 f2) (Nat.le_max_r _ _)) as B. rewrite A in B. inversion B. auto.
Qed.

(* what one frame leaves behind, as a fact about runs (from frame_pre_safeL) *)
Lemma frame_pre_run s ob ef i fs x0 i1 : LIp L s ob ef -> frame s < ef -> run (frame_pre s) i = (SVal (inr (fs, x0)), i1) ->
  fs = fsz L (offset s) /\ wsize x0 = wsize s /\ wposn x0 = fposn s + fs /\ fposn x0 = fposn s /\ offset x0 = offset s /\
  frame x0 = frame s /\ err x0 = err s /\ exists o0, optr x0 = o0 /\ oend x0 = o0 + fs.
Proof.
  intros HLI Hf E. exact (leaves_run HL _ rule L _ eq_refl (frame_pre_safeL HL L (fun h Hh => Hh) s ob ef HLI Hf) _ _ _ E).
Qed.

(* bytes handed out in two pieces are the bytes handed out in one *)
Lemma span_acc : forall n w o acc, span n w o acc = rev acc ++ span n w o [].
Proof.
  induction n as [|n IH]; intros w o acc; cbn [span].
  - cbn [rev_append]. rewrite rev_append_rev, !app_nil_r. reflexivity.
  - rewrite (IH w (o + 1) (_ :: acc)), (IH w (o + 1) [_]). cbn [rev app]. rewrite <- app_assoc. reflexivity.
Qed.
Lemma span_split : forall a b w o, span (a + b) w o [] = span a w o [] ++ span b w (o + N.of_nat a) [].
Proof.
  induction a as [|a IH]; intros b w o.
  - cbn [Nat.add span rev_append app]. rewrite N.add_0_r. reflexivity.
  - cbn [Nat.add span]. rewrite (span_acc (a + b)), (span_acc a). cbn [rev app]. rewrite IH. f_equal. f_equal. f_equal. lia.
Qed.
Lemma obytes_split s k1 k2 s' : osel s' = osel s -> win s' = win s -> e8 s' = e8 s -> optr s' = optr s + k1 ->
  obytes s (k1 + k2) = obytes s k1 ++ obytes s' k2.
Proof.
  intros E1 E2 E3 E4. unfold obytes. rewrite E1, E2, E3, E4, N2Nat.inj_add, span_split, N2Nat.id. reflexivity.
Qed.
Lemma push_push d1 d2 i : push d2 (push d1 i) = push (d1 ++ d2) i.
Proof. unfold push. cbn. rewrite !rev_append_rev, rev_app_distr, app_assoc. reflexivity. Qed.

(* delivering k1 + k2 bytes of a frame = delivering k1, then flushing k2 more at the start of the next call *)
Lemma lst_ext (s t : lst) : bb s = bb t -> bl s = bl t -> win s = win t -> wsize s = wsize t -> refsize s = refsize t -> num_offsets s = num_offsets t -> wposn s = wposn t -> fposn s = fposn t -> frame s = frame t -> reset_interval s = reset_interval t -> R0 s = R0 t -> R1 s = R1 t -> R2 s = R2 t -> blen s = blen t -> brem s = brem t -> intel_filesize s = intel_filesize t -> intel_started s = intel_started t -> btype s = btype t -> header_read s = header_read t -> is_delta s = is_delta t -> offset s = offset t -> pre_len s = pre_len t -> main_len s = main_len t -> len_len s = len_len t -> ali_len s = ali_len t -> pre_tab s = pre_tab t -> main_tab s = main_tab t -> len_tab s = len_tab t -> ali_tab s = ali_tab t -> len_empty s = len_empty t -> e8 s = e8 t -> osel s = osel t -> optr s = optr t -> oend s = oend t -> err s = err t -> s = t.
Proof. destruct s, t; cbn; intros; subst; reflexivity. Qed.
Lemma nxt_fl x0 k1 k2 fs : nxt x0 (k1 + k2) fs = fl (nxt x0 k1 fs) k2.
Proof.
  unfold nxt, fl, upd, wrap_posns. cbv zeta.
  change (wposn (x0 <| optr := optr x0 + (k1 + k2) |> <| offset := offset x0 + (k1 + k2) |> <| fposn := fposn x0 + fs |> <| frame := frame x0 + 1 |>)) with (wposn x0).
  change (wsize (x0 <| optr := optr x0 + (k1 + k2) |> <| offset := offset x0 + (k1 + k2) |> <| fposn := fposn x0 + fs |> <| frame := frame x0 + 1 |>)) with (wsize x0).
  change (wposn (x0 <| optr := optr x0 + k1 |> <| offset := offset x0 + k1 |> <| fposn := fposn x0 + fs |> <| frame := frame x0 + 1 |>)) with (wposn x0).
  change (wsize (x0 <| optr := optr x0 + k1 |> <| offset := offset x0 + k1 |> <| fposn := fposn x0 + fs |> <| frame := frame x0 + 1 |>)) with (wsize x0).
  destruct (wposn x0 =? wsize x0);
  match goal with |- (if ?c then _ else _) = _ => change c with (fposn x0 + fs =? wsize x0) end;
  match goal with |- _ = set offset _ (set optr _ (if ?c then _ else _)) => change c with (fposn x0 + fs =? wsize x0) end;
  destruct (fposn x0 + fs =? wsize x0); apply lst_ext; try reflexivity; cbn; lia.
Qed.
Lemma fl_fl s k1 k2 : fl (fl s k1) k2 = fl s (k1 + k2).
Proof. unfold fl. apply lst_ext; try reflexivity; cbn; lia. Qed.
Lemma fl_0 s : fl s 0 = s.
Proof. unfold fl. apply lst_ext; try reflexivity; cbn; lia. Qed.
Lemma nxt_fields x0 k fs : osel (nxt x0 k fs) = osel x0 /\ win (nxt x0 k fs) = win x0 /\ e8 (nxt x0 k fs) = e8 x0 /\ optr (nxt x0 k fs) = optr x0 + k /\
  oend (nxt x0 k fs) = oend x0 /\ frame (nxt x0 k fs) = frame x0 + 1 /\ offset (nxt x0 k fs) = offset x0 + k.
Proof. unfold nxt, upd, wrap_posns. cbv zeta. destruct (wposn _ =? wsize _); destruct (fposn _ =? wsize _); repeat split. Qed.

(* PRE_step instantiated with the state the loop really produces *)
Lemma pre_next s ob ef i fs x0 i1 : LIp L s ob ef -> frame s < ef -> run (frame_pre s) i = (SVal (inr (fs, x0)), i1) ->
  PREp L (nxt x0 (N.min ob fs) fs) (ob - N.min ob fs) ef.
Proof.
  intros HLI Hf E. destruct (frame_pre_run _ _ _ _ _ _ _ HLI Hf E) as (-> & Y1 & Y2 & Y3 & Y4 & Y5 & Y6 & o0 & Y7 & Y8).
  set (fs := fsz L (offset s)) in *.
  set (X := upd x0 (N.min ob fs) fs).
  assert (X1 : wsize X = wsize s) by (transitivity (wsize x0); [reflexivity|exact Y1]).
  assert (X2 : wposn X = fposn s + fs) by (transitivity (wposn x0); [reflexivity|exact Y2]).
  assert (X3 : fposn X = fposn s + fs) by (transitivity (fposn x0 + fs); [reflexivity|rewrite Y3; reflexivity]).
  assert (X4 : offset X = offset s + N.min ob fs) by (transitivity (offset x0 + N.min ob fs); [reflexivity|rewrite Y4; reflexivity]).
  assert (X5 : frame X = frame s + 1) by (transitivity (frame x0 + 1); [reflexivity|rewrite Y5; reflexivity]).
  assert (X6 : optr X = o0 + N.min ob fs) by (transitivity (optr x0 + N.min ob fs); [reflexivity|rewrite Y7; reflexivity]).
  assert (X7 : oend X = o0 + fs) by (transitivity (oend x0); [reflexivity|exact Y8]).
  exact (proj1 (PRE_step L s ob ef X o0 HLI Hf X1 X2 X3 X4 X5 X6 X7)).
Qed.

(* the frame loop of a call that asks for b bytes more does what the shorter call's loop did, hands out what that call left waiting,
   and goes on as the next call would *)
Lemma loop_split : forall f1 ef1 ob1 s i s1 i1, 0 < ob1 -> PREp L s ob1 ef1 ->
  run (frame_loop f1 ef1 ob1 s) i = (SVal (inr (0, s1)), i1) ->
  forall b ef, PREp L s (ob1 + b) ef -> (ef - 1) * 32768 < offset s + (ob1 + b) -> offset s + (ob1 + b) <= ef * 32768 ->
  offset s1 = offset s + ob1 /\
  forall f rc ic, run (frame_loop f ef (ob1 + b) s) i = (rc, ic) -> nofuel rc ->
  forall f2 r2 i2, run (frame_loop f2 ef (b - N.min (oend s1 - optr s1) b) (fl s1 (N.min (oend s1 - optr s1) b))) (push (obytes s1 (N.min (oend s1 - optr s1) b)) i1) = (r2, i2) -> nofuel r2 ->
  rc = r2 /\ ic = i2.
Proof.
  induction f1 as [|f1 IH]; intros ef1 ob1 s i s1 i1 Hob HP1 H1 b ef HP Rc1 Rc2; [rewrite frame_loop_0 in H1; discriminate|].
  rewrite frame_loop_S in H1.
  destruct (N.leb_spec ef1 (frame s)) as [Ex|Ex]; [inversion H1; lia|].
  unfold PREp in HP1. destruct HP1 as [[CC1 CC2]|HL1]; [lia|].
  pose proof HL1 as HL1'. unfold LIp in HL1'. destruct HL1' as (G1 & Ho1 & E11 & E12 & E13 & E14 & M1).
  assert (Hef : ef1 <= ef /\ LIp L s (ob1 + b) ef).
  { assert (ef1 <= ef) by lia. split; [assumption|]. unfold PREp in HP. destruct HP as [[CC1 CC2]|HLc]; [lia|exact HLc]. }
  destruct Hef as [Hef HLc].
  destruct (run (frame_pre s) i) as [[[e|[fs x0]]|e] i'] eqn:EP; try discriminate.
  destruct (frame_pre_run _ _ _ _ _ _ _ HL1 Ex EP) as (Efs & Y1 & Y2 & Y3 & Y4 & Y5 & Y6 & o0 & Y7 & Y8).
  pose proof (pre_next _ _ _ _ _ _ _ HL1 Ex EP) as PN1.
  assert (Exc : frame s < ef) by lia.
  pose proof (pre_next _ _ _ _ _ _ _ HLc Exc EP) as PNc.
  destruct (fs_facts L s ob1 ef1 HL1 Ex) as (F1 & F2 & F3). rewrite <- Efs in F1, F2, F3.
  destruct (N.lt_ge_cases fs ob1) as [Hbig|Hsmall].
  - (* the frame is handed out completely by both *)
    replace (N.min ob1 fs) with fs in * by lia. replace (N.min (ob1 + b) fs) with fs in PNc by lia.
    replace (ob1 + b - fs) with (ob1 - fs + b) in PNc by lia.
    assert (Hob' : 0 < ob1 - fs) by lia.
    destruct (nxt_fields x0 fs fs) as (_ & _ & _ & _ & _ & _ & O7).
    assert (R1' : (ef - 1) * 32768 < offset (nxt x0 fs fs) + (ob1 - fs + b)) by (rewrite O7, Y4; lia).
    assert (R2' : offset (nxt x0 fs fs) + (ob1 - fs + b) <= ef * 32768) by (rewrite O7, Y4; lia).
    destruct (IH _ _ _ _ _ _ Hob' PN1 H1 b ef PNc R1' R2') as [Eo K].
    split.
    + rewrite Eo, O7, Y4. lia.
    + intros f rc ic Hc Nc f2 r2 i2 H2 N2. destruct f as [|f]; [rewrite frame_loop_0 in Hc; inversion Hc; subst; cbn in Nc; congruence|].
      rewrite frame_loop_S in Hc. destruct (N.leb_spec ef (frame s)); [lia|]. rewrite EP in Hc.
      replace (N.min (ob1 + b) fs) with fs in Hc by lia. replace (ob1 + b - fs) with (ob1 - fs + b) in Hc by lia.
      exact (K _ _ _ Hc Nc _ _ _ H2 N2).
  - (* the shorter call stops inside this frame *)
    replace (N.min ob1 fs) with ob1 in * by lia. replace (ob1 - ob1) with 0 in * by lia.
    assert (Hfs : 0 < fs) by lia.
    assert (Hn1 : frame (nxt x0 ob1 fs) = frame s + 1) by (destruct (nxt_fields x0 ob1 fs) as (_ & _ & _ & _ & _ & O6 & _); rewrite O6, Y5; reflexivity).
    assert (Hex : ef1 <= frame s + 1).
    { destruct F3 as [(Nm & _)|[(Nm & _)|(_ & Z0)]]; [| |lia]; unfold NormalM in Nm; destruct Nm as (_ & _ & A3 & _); unfold Dd in A3; lia. }
    destruct f1 as [|f1]; [rewrite frame_loop_0 in H1; discriminate|]. rewrite frame_loop_S in H1.
    destruct (N.leb_spec ef1 (frame (nxt x0 ob1 fs))) as [_|Bad]; [|lia]. inversion H1; subst s1 i1. clear H1.
    destruct (nxt_fields x0 ob1 fs) as (O1 & O2 & O3 & O4 & O5 & O6 & O7).
    split; [rewrite O7, Y4; reflexivity|].
    intros f rc ic Hc Nc f2 r2 i2 H2 N2.
    set (k2 := N.min (oend (nxt x0 ob1 fs) - optr (nxt x0 ob1 fs)) b) in *.
    assert (Hk2 : k2 = N.min (fs - ob1) b) by (unfold k2; rewrite O4, O5, Y7, Y8; f_equal; lia).
    assert (Hkc : N.min (ob1 + b) fs = ob1 + k2) by lia.
    destruct f as [|f]; [rewrite frame_loop_0 in Hc; inversion Hc; subst; cbn in Nc; congruence|].
    rewrite frame_loop_S in Hc. destruct (N.leb_spec ef (frame s)); [lia|]. rewrite EP in Hc.
    rewrite Hkc, nxt_fl in Hc. replace (ob1 + b - (ob1 + k2)) with (b - k2) in Hc by lia.
    rewrite (obytes_split x0 ob1 k2 (nxt x0 ob1 fs) O1 O2 O3 O4), <- push_push in Hc.
    exact (frame_loop_fuel_indep _ _ _ _ _ _ _ _ _ _ Hc Nc H2 N2).
Qed.

(* one call of lzxd_decompress as a fact about runs *)
Definition EF (T : N) : N := N.land ((T + FRAME_SIZE - 1) / FRAME_SIZE) (M32 - 1).
Definition after_loop (x : sres (N + N * lst) * ist) : sres (N + unit * lst) * ist :=
  match x with
  | (SVal (inr (rest, s2)), i2) => if rest =? 0 then (SVal (inr (tt, s2)), i2) else (SVal (inl ERR_DECRUNCH), i2)
  | (SVal (inl e), i2) => (SVal (inl e), i2)
  | (SStop e, i2) => (SStop e, i2)
  end.
Lemma push_nil i : push [] i = i. Proof. destruct i. reflexivity. Qed.
Lemma obytes_0 s : obytes s 0 = []. Proof. reflexivity. Qed.
Lemma decompress_run n s i : err s = 0 ->
  run (decompress n s) i =
  let k := N.min (oend s - optr s) n in
  if n - k =? 0 then (SVal (inr (tt, fl s k)), push (obytes s k) i)
  else after_loop (run (frame_loop 70000 (EF (offset (fl s k) + (n - k))) (n - k) (fl s k)) (push (obytes s k) i)).
Proof.
  intro He. unfold decompress. unfold bnd at 1. cbn [get sbind]. rewrite He. cbn [N.eqb negb]. cbv zeta.
  set (k := N.min (oend s - optr s) n).
  assert (Hfl : forall (B : Type) (g : lm B) (Q : sres (N + B * lst) * ist),
            run (g (fl s k)) (push (obytes s k) i) = Q ->
            run (bnd (if 0 <? k then _ <- write (obytes s k) ;; modify (fun s0 => s0 <| optr := optr s0 + k |> <| offset := offset s0 + k |>) else ret tt) (fun _ => g) s) i = Q).
  { intros B g Q HQ. destruct (N.ltb_spec 0 k) as [Hk|Hk].
    - exact HQ.
    - assert (k = 0) by lia. rewrite H in HQ. rewrite fl_0, obytes_0, push_nil in HQ. exact HQ. }
  apply Hfl. destruct (n - k =? 0); [reflexivity|].
  unfold bnd at 1. cbn [get sbind]. cbv zeta. unfold bnd at 1. rewrite ideal_sbind. unfold EF, after_loop.
  destruct (run (frame_loop 70000 _ (n - k) (fl s k)) (push (obytes s k) i)) as [[[e|[rest s2]]|e] i2]; try reflexivity.
  destruct (rest =? 0); reflexivity.
Qed.

Lemma LIp_entry s n k : Core L s -> k = N.min (oend s - optr s) n -> oend s - optr s < n -> Dd s + n < 70368744177664 ->
  LIp L (fl s k) (n - k) (EF (offset (fl s k) + (n - k))) /\
  (EF (offset (fl s k) + (n - k)) - 1) * 32768 < offset (fl s k) + (n - k) /\ offset (fl s k) + (n - k) <= EF (offset (fl s k) + (n - k)) * 32768.
Proof.
  intros HC Hk Hgt Hb. unfold Core, Geo in HC. destruct HC as ((G1 & G2 & G3 & G4 & G5) & M).
  assert (Hka : k = oend s - optr s) by lia.
  assert (Fo : offset (fl s k) = offset s + k) by reflexivity. assert (Fp : optr (fl s k) = optr s + k) by reflexivity.
  assert (Fe : oend (fl s k) = oend s) by reflexivity.
  assert (D1 : Dd (fl s k) = Dd s) by (unfold Dd; rewrite Fo, Fp, Fe; lia).
  assert (Do : Dd (fl s k) = offset (fl s k)) by (unfold Dd; rewrite Fp, Fe; lia).
  destruct (ef_facts (offset (fl s k) + (n - k))) as (F1 & F2 & F3 & F4); [lia|unfold Dd in *; lia|]. fold (EF (offset (fl s k) + (n - k))) in *.
  split; [|split; assumption].
  unfold LIp. split; [unfold Geo; repeat split; try assumption; rewrite ?Fp, ?Fe; lia|]. split; [rewrite Fp, Fe; lia|]. repeat split; try assumption.
  destruct M as [(A1 & A2 & A3 & A4)|(T1 & T2 & T3 & T4)]; [left; unfold NormalM|right; unfold TailM]; rewrite D1; repeat split; assumption.
Qed.

(* asking for a bytes and then for b more = asking for a + b at once: same bytes written, same status, same decoder state *)
Theorem decompress_resumable a b s i s1 i1 rc ic r2 i2 : Core L s -> err s = 0 -> Dd s + (a + b) < 70368744177664 ->
  run (decompress a s) i = (SVal (inr (tt, s1)), i1) ->
  run (decompress (a + b) s) i = (rc, ic) -> nofuel rc ->
  run (decompress b s1) i1 = (r2, i2) -> nofuel r2 ->
  rc = r2 /\ ic = i2.
Proof.
  intros HC He Hb H1 Hc Nc H2 N2.
  rewrite (decompress_run a s i He) in H1. rewrite (decompress_run (a + b) s i He) in Hc. cbv zeta in H1, Hc.
  set (av := oend s - optr s) in *.
  destruct (N.le_gt_cases a av) as [Hin|Hout].
  - (* the first request is served from what was waiting *)
    replace (N.min av a) with a in H1 by lia. replace (a - a) with 0 in H1 by lia. cbn [N.eqb] in H1. inversion H1; subst s1 i1. clear H1.
    assert (E1 : err (fl s a) = 0) by exact He.
    rewrite (decompress_run b (fl s a) _ E1) in H2. cbv zeta in H2.
    assert (Av1 : oend (fl s a) - optr (fl s a) = av - a) by (change (oend s - (optr s + a) = av - a); unfold av; lia).
    rewrite Av1 in H2. set (k2 := N.min (av - a) b) in *.
    replace (N.min av (a + b)) with (a + k2) in Hc by (unfold k2; lia).
    replace (a + b - (a + k2)) with (b - k2) in Hc by lia.
    rewrite fl_fl in H2. rewrite push_push in H2.
    rewrite <- (obytes_split s a k2 (fl s a) eq_refl eq_refl eq_refl eq_refl) in H2.
    rewrite Hc in H2. inversion H2. split; reflexivity.
  - (* the first request needed new frames *)
    replace (N.min av a) with av in H1 by lia. replace (N.min av (a + b)) with av in Hc by lia.
    set (s' := fl s av) in *. set (i' := push (obytes s av) i) in *.
    destruct (N.eqb_spec (a - av) 0) as [E0|E0]; [lia|]. destruct (N.eqb_spec (a + b - av) 0) as [E0'|E0']; [lia|].
    set (ob1 := a - av) in *. replace (a + b - av) with (ob1 + b) in * by (unfold ob1; lia).
    destruct (LIp_entry s a av HC ltac:(lia) Hout ltac:(lia)) as (LI1 & _ & _). fold s' ob1 in LI1.
    destruct (LIp_entry s (a + b) av HC ltac:(lia) ltac:(lia) Hb) as (LIc & Rc1 & Rc2). fold s' in LIc, Rc1, Rc2. replace (a + b - av) with (ob1 + b) in * by (unfold ob1; lia).
    set (ef1 := EF (offset s' + ob1)) in *. set (ef := EF (offset s' + (ob1 + b))) in *.
    destruct (run (frame_loop 70000 ef1 ob1 s') i') as [[[e1|[rest1 sA]]|e1] iA] eqn:EL1; cbn [after_loop] in H1; try discriminate.
    destruct (N.eqb_spec rest1 0) as [Er|Er]; [|discriminate]. subst rest1. inversion H1; subst sA iA. clear H1.
    assert (Hob : 0 < ob1) by lia.
    destruct (loop_split _ _ _ _ _ _ _ Hob (or_intror LI1) EL1 b ef (or_intror LIc) Rc1 Rc2) as [Eo K].
    (* the state the first call left behind *)
    pose proof (leaves_run HL _ rule L _ eq_refl (frame_loop_safeL HL L (fun h Hh => Hh) 70000 ef1 ob1 s' (or_intror LI1)) _ _ _ EL1) as SA. cbn in SA.
    destruct SA as (C1 & Es1 & _).
    assert (E1 : err s1 = 0) by (rewrite Es1; exact He).
    rewrite (decompress_run b s1 i1 E1) in H2. cbv zeta in H2.
    set (k2 := N.min (oend s1 - optr s1) b) in *.
    assert (Eoff : offset (fl s1 k2) + (b - k2) = offset s' + (ob1 + b)).
    { change (offset s1 + k2 + (b - k2) = offset s' + (ob1 + b)). rewrite Eo. unfold k2. lia. }
    rewrite Eoff in H2. fold ef in H2.
    destruct (run (frame_loop 70000 ef (ob1 + b) s') i') as [rl il] eqn:ELc.
    assert (Nl : nofuel rl).
    { destruct rl as [[e|[r x]]|e]; cbn; try exact I. intro; subst e. cbn [after_loop] in Hc. inversion Hc; subst rc. cbn in Nc. congruence. }
    destruct (N.eqb_spec (b - k2) 0) as [Ez|Ez].
    + (* the second request is served from what the first call left waiting *)
      inversion H2; subst r2 i2. clear H2.
      assert (Hex : ef <= frame (fl s1 k2)).
      { change (ef <= frame s1). unfold Core, Geo, NormalM, TailM, Dd in C1. destruct C1 as ((_ & _ & _ & _ & G5) & M).
        assert (T : offset s' + (ob1 + b) <= offset s1 + (oend s1 - optr s1)) by (rewrite Eo; unfold k2 in Ez; lia).
        destruct M as [(_ & _ & A3 & _)|(_ & T2 & _ & T4)]; nia. }
      assert (R0 : run (frame_loop 1 ef (b - k2) (fl s1 k2)) (push (obytes s1 k2) i1) = (SVal (inr (b - k2, fl s1 k2)), push (obytes s1 k2) i1)).
      { rewrite frame_loop_S. destruct (N.leb_spec ef (frame (fl s1 k2))); [reflexivity|lia]. }
      destruct (K _ _ _ ELc Nl _ _ _ R0 I) as [Kr Ki]. subst rl il. cbn [after_loop] in Hc. rewrite Ez in Hc. cbn [N.eqb] in Hc.
      inversion Hc. split; reflexivity.
    + destruct (run (frame_loop 70000 ef (b - k2) (fl s1 k2)) (push (obytes s1 k2) i1)) as [rr ir] eqn:ELr.
      assert (Nr : nofuel rr).
      { destruct rr as [[e|[r x]]|e]; cbn; try exact I. intro; subst e. cbn [after_loop] in H2. inversion H2; subst r2. cbn in N2. congruence. }
      destruct (K _ _ _ ELc Nl _ _ _ ELr Nr) as [Kr Ki]. subst rl il. rewrite Hc in H2. inversion H2. split; reflexivity.
Qed.
End Resume.

(* the same in terms of lzx_call (one lzxd_decompress call with its sticky error, as Model/Chm.v and Model/Oab.v use it): a call for a
   bytes that returns OK followed by a call for b bytes = one call for a + b bytes - same status, same bytes written, and the same
   decoder state when the status is OK *)
Theorem lzx_call_resumable L s i a b s1 i1 st2 s2 i2 stc sc ic : Core L s -> err s = 0 -> Dd s + (a + b) < 70368744177664 ->
  lzx_call L s i a = (0, s1, i1) ->
  lzx_call L s1 i1 b = (st2, s2, i2) -> st2 <> 99 ->
  lzx_call L s i (a + b) = (stc, sc, ic) -> stc <> 99 ->
  stc = st2 /\ ic = i2 /\ (stc = 0 -> sc = s2).
Proof.
  intros HC He Hb H1 H2 N2 Hc Nc. unfold lzx_call in *.
  destruct (ideal EofPad2 L (decompress a s) i) as [ra ia] eqn:Ea.
  destruct ra as [[e|[[] sa]]|e]; try (inversion H1; subst; fail).
  - (* a failure status is never 0 (Proofs/LzxAcct.v) *)
    exfalso. assert (e = 0) by (inversion H1; reflexivity). subst e.
    assert (Ho : olen i = olen i + 0) by lia.
    destruct (acct_run _ _ EofPad2 L _ _ (LzxAcct.decompress_acct a s) (olen i) i _ _ Ho Ea) as (w' & _ & _ & Cq). cbn in Cq. destruct Cq as [Cq _]. apply Cq. reflexivity.
  - inversion H1; subst sa ia. clear H1.
    destruct (ideal EofPad2 L (decompress b s1) i1) as [rb ib] eqn:Eb. destruct (ideal EofPad2 L (decompress (a + b) s) i) as [rcc icc] eqn:Ec.
    assert (Nb : nofuel rb). { destruct rb as [[e|[[] x]]|e]; cbn; try exact I. intro; subst e. inversion H2; subst. congruence. }
    assert (Ncc : nofuel rcc). { destruct rcc as [[e|[[] x]]|e]; cbn; try exact I. intro; subst e. inversion Hc; subst. congruence. }
    destruct (decompress_resumable EofPad2 L a b s i s1 i1 rcc icc rb ib HC He Hb Ea Ec Ncc Eb Nb) as [Er Ei]. subst rcc icc.
    destruct rb as [[e|[[] x]]|e]; inversion H2; inversion Hc; subst; repeat split; try reflexivity; intro Z; try reflexivity; exfalso.
    + assert (Ho : olen i = olen i + 0) by lia.
      destruct (acct_run _ _ EofPad2 L _ _ (LzxAcct.decompress_acct (a + b) s) (olen i) i _ _ Ho Ec) as (w' & _ & _ & Cq). cbn in Cq. destruct Cq as [Cq _]. apply Cq. exact Z.
    + apply ideal_stop in Ec. subst. cbn in Z. discriminate.
  - exfalso. assert (e = 0) by (inversion H1; reflexivity). subst e. apply ideal_stop in Ea. cbn in Ea. discriminate.
Qed.

(* ---- the shape Model/Chm.v's extract has: skip to the member's offset (output discarded), then the member's bytes ---- *)
From MSP Require Proofs.IdealOut.
Lemma lzx_call_push L s i o n : lzx_call L s (IdealOut.push i o) n = let '(st, s', i') := lzx_call L s i n in (st, s', IdealOut.push i' o).
Proof.
  unfold lzx_call. rewrite IdealOut.ideal_push. destruct (ideal EofPad2 L (decompress n s) i) as [[[e|[[] x]]|e] i']; reflexivity.
Qed.
Definition clr (i : ist) : ist := {| irest := irest i; iout := [] |}.
Theorem lzx_skip_then_extract L lz inp skip ln lz1 inp1 e2 lz2 inp2 ec lzc inpc : Core L lz -> err lz = 0 -> Dd lz + (skip + ln) < 70368744177664 ->
  lzx_call L lz inp skip = (0, lz1, inp1) ->
  lzx_call L lz1 (clr inp1) ln = (e2, lz2, inp2) -> e2 <> 99 ->
  lzx_call L lz inp (skip + ln) = (ec, lzc, inpc) -> ec <> 99 ->
  ec = e2 /\ irest inpc = irest inp2 /\ iout inpc = iout inp2 ++ iout inp1 /\ (ec = 0 -> lzc = lz2).
Proof.
  intros HC He Hb H1 H2 N2 Hc Nc.
  assert (Ei : inp1 = IdealOut.push (clr inp1) (iout inp1)) by (destruct inp1; reflexivity).
  assert (H2' : lzx_call L lz1 inp1 ln = (e2, lz2, IdealOut.push inp2 (iout inp1))) by (rewrite Ei at 1; rewrite lzx_call_push, H2; reflexivity).
  destruct (lzx_call_resumable L lz inp skip ln lz1 inp1 e2 lz2 _ ec lzc inpc HC He Hb H1 H2' N2 Hc Nc) as (A & B & C).
  subst inpc. repeat split; try assumption; reflexivity.
Qed.
