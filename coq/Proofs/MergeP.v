From Coq Require Import List NArith Bool Lia.
Import ListNotations.
From MSP Require Import Model.Merge.
Local Open Scope N_scope.

(* the canonical shape used in the proofs: a part is  first-folder :: middle ++ [last-folder]  or a single folder *)
Lemma merge_cons_snoc (pre : list fold) (lf rf : fold) (rtail : list fold) (lfiles rfiles : list file) :
  merge {| folders := pre ++ [lf]; files := lfiles |} {| folders := rf :: rtail; files := rfiles |} =
  if mnext lf || mprev rf then {| folders := pre ++ absorb lf rf :: rtail; files := lfiles ++ filter (keep (fid rf)) rfiles |}
  else {| folders := (pre ++ [lf]) ++ rf :: rtail; files := lfiles ++ rfiles |}.
Proof.
  unfold merge. cbn [folders files]. rewrite rev_app_distr. cbn [rev app]. rewrite rev_involutive. reflexivity.
Qed.

Lemma filter_keep_notin rid (l : list file) : (forall f, In f l -> ffold f <> rid) -> filter (keep rid) l = l.
Proof.
  induction l as [|f l IH]; intro H; cbn [filter]; [reflexivity|].
  unfold keep at 1. destruct (N.eqb_spec (ffold f) rid) as [E|NE]; [exfalso; apply (H f (or_introl eq_refl) E)|].
  cbn [negb]. f_equal. apply IH. intros g Hg. apply H. right. exact Hg.
Qed.
Lemma filter_keep_comm a b (l : list file) : filter (keep a) (filter (keep b) l) = filter (keep b) (filter (keep a) l).
Proof. induction l as [|f l IH]; cbn [filter]; [reflexivity|]. destruct (keep b f) eqn:Eb, (keep a f) eqn:Ea; cbn [filter]; rewrite ?Ea, ?Eb, IH; reflexivity. Qed.

Lemma merge_spec (l r : part) lp lf rf rt : folders l = lp ++ [lf] -> folders r = rf :: rt ->
  merge l r = if mnext lf || mprev rf then {| folders := lp ++ absorb lf rf :: rt; files := files l ++ filter (keep (fid rf)) (files r) |}
              else {| folders := folders l ++ folders r; files := files l ++ files r |}.
Proof.
  intros Hl Hr. unfold merge. rewrite Hl, Hr, rev_app_distr. cbn [rev app]. rewrite rev_involutive. reflexivity.
Qed.
Ltac lnorm := cbn [folders files]; repeat (rewrite <- app_assoc || rewrite <- app_comm_cons); cbn [app].
Ltac lists := lnorm; reflexivity.

(* Three consecutive parts A, B, C of a set (B with one folder or several).  Folder identities are unique across the set: C's files
   never refer to B's first folder.  Then the two join orders give the same folder list and the same file list. *)
Theorem merge_assoc : forall (apre : list fold) (alast : fold) (afiles : list file)
                             (bfirst : fold) (bmid : list fold) (blast : fold) (bfiles : list file)
                             (cfirst : fold) (ctail : list fold) (cfiles : list file),
  (forall f, In f cfiles -> ffold f <> fid bfirst) ->
  let A := {| folders := apre ++ [alast]; files := afiles |} in
  let B := {| folders := bfirst :: bmid ++ [blast]; files := bfiles |} in
  let C := {| folders := cfirst :: ctail; files := cfiles |} in
  merge (merge A B) C = merge A (merge B C).
Proof.
  intros apre alast afiles bfirst bmid blast bfiles cfirst ctail cfiles Hc A B C.
  rewrite (merge_spec A B apre alast bfirst (bmid ++ [blast])) by lists.
  rewrite (merge_spec B C (bfirst :: bmid) blast cfirst ctail) by lists.
  subst A B C. cbn [folders files].
  destruct (mnext alast || mprev bfirst) eqn:E1; destruct (mnext blast || mprev cfirst) eqn:E2.
  - rewrite (merge_spec _ _ (apre ++ absorb alast bfirst :: bmid) blast cfirst ctail) by lists.
    rewrite (merge_spec _ _ apre alast bfirst (bmid ++ absorb blast cfirst :: ctail)) by lists.
    rewrite E1, E2. cbn [folders files]. f_equal; [lists|].
    rewrite <- app_assoc. f_equal. rewrite filter_app. f_equal.
    rewrite filter_keep_comm. rewrite (filter_keep_notin (fid bfirst) cfiles Hc). reflexivity.
  - rewrite (merge_spec _ _ (apre ++ absorb alast bfirst :: bmid) blast cfirst ctail) by lists.
    rewrite (merge_spec _ _ apre alast bfirst ((bmid ++ [blast]) ++ cfirst :: ctail)) by lists.
    rewrite E1, E2. cbn [folders files]. f_equal; [lists|].
    rewrite <- app_assoc. f_equal. rewrite filter_app. f_equal. symmetry. apply filter_keep_notin. exact Hc.
  - rewrite (merge_spec _ _ (apre ++ [alast] ++ bfirst :: bmid) blast cfirst ctail) by lists.
    rewrite (merge_spec _ _ apre alast bfirst (bmid ++ absorb blast cfirst :: ctail)) by lists.
    rewrite E1, E2. cbn [folders files]. f_equal; lists.
  - rewrite (merge_spec _ _ (apre ++ [alast] ++ bfirst :: bmid) blast cfirst ctail) by lists.
    rewrite (merge_spec _ _ apre alast bfirst ((bmid ++ [blast]) ++ cfirst :: ctail)) by lists.
    rewrite E1, E2. cbn [folders files]. f_equal; lists.
Qed.

(* B with a single folder (it may continue on both sides: CONTINUED_PREV_AND_NEXT): the same law; every folder holds >= 1 block *)
Theorem merge_assoc_single : forall (apre : list fold) (alast : fold) (afiles : list file) (b : fold) (bfiles : list file)
                                    (cfirst : fold) (ctail : list fold) (cfiles : list file),
  (forall f, In f cfiles -> ffold f <> fid b) -> 1 <= blocks b ->
  let A := {| folders := apre ++ [alast]; files := afiles |} in
  let B := {| folders := [b]; files := bfiles |} in
  let C := {| folders := cfirst :: ctail; files := cfiles |} in
  merge (merge A B) C = merge A (merge B C).
Proof.
  intros apre alast afiles b bfiles cfirst ctail cfiles Hc Hb A B C.
  rewrite (merge_spec A B apre alast b []) by lists.
  rewrite (merge_spec B C [] b cfirst ctail) by lists.
  subst A B C. cbn [folders files].
  destruct (mnext alast || mprev b) eqn:E1; destruct (mnext b || mprev cfirst) eqn:E2.
  - rewrite (merge_spec _ _ apre (absorb alast b) cfirst ctail) by lists.
    rewrite (merge_spec _ _ apre alast (absorb b cfirst) ctail) by lists.
    cbn [absorb mnext mprev fid blocks]. rewrite E1, E2. cbn [folders files app]. f_equal.
    + f_equal. f_equal. unfold absorb. cbn [fid blocks mprev mnext]. f_equal. lia.
    + rewrite <- app_assoc. f_equal. rewrite filter_app. f_equal.
      rewrite filter_keep_comm. rewrite (filter_keep_notin (fid b) cfiles Hc). reflexivity.
  - rewrite (merge_spec _ _ apre (absorb alast b) cfirst ctail) by lists.
    rewrite (merge_spec _ _ apre alast b ([] ++ cfirst :: ctail)) by lists.
    cbn [absorb mnext mprev fid blocks]. rewrite E1, E2. cbn [folders files app]. f_equal; [lists|].
    rewrite <- app_assoc. f_equal. rewrite filter_app. f_equal. symmetry. apply filter_keep_notin. exact Hc.
  - rewrite (merge_spec _ _ (apre ++ [alast]) b cfirst ctail) by lists.
    rewrite (merge_spec _ _ apre alast (absorb b cfirst) ctail) by lists.
    cbn [absorb mnext mprev fid blocks]. rewrite E1, E2. cbn [folders files app]. f_equal; lists.
  - rewrite (merge_spec _ _ (apre ++ [alast]) b cfirst ctail) by lists.
    rewrite (merge_spec _ _ apre alast b (cfirst :: ctail)) by lists.
    rewrite E1, E2. cbn [folders files app]. f_equal; lists.
Qed.

(* the block count of a folder spanning n parts: the sum of the parts' counts minus the n-1 shared split blocks *)
Lemma absorb_blocks a b : 1 <= blocks b -> blocks (absorb a b) + 1 = blocks a + blocks b.
Proof. intro H. unfold absorb. cbn [blocks]. lia. Qed.

Example merge_nonvacuous :
  let f1 := {| fid := 1; blocks := 3; mprev := false; mnext := true |} in
  let f2 := {| fid := 2; blocks := 1; mprev := true; mnext := true |} in
  let f3 := {| fid := 3; blocks := 2; mprev := true; mnext := false |} in
  let f4 := {| fid := 4; blocks := 5; mprev := false; mnext := false |} in
  let A := {| folders := [f1]; files := [{| fname := 10; ffold := 1 |}; {| fname := 11; ffold := 1 |}] |} in
  let B := {| folders := [f2]; files := [{| fname := 11; ffold := 2 |}] |} in
  let C := {| folders := [f3; f4]; files := [{| fname := 11; ffold := 3 |}; {| fname := 12; ffold := 4 |}] |} in
  merge (merge A B) C = merge A (merge B C) /\
  map fname (files (merge (merge A B) C)) = [10; 11; 12] /\ map blocks (folders (merge (merge A B) C)) = [4; 5].
Proof. vm_compute. auto. Qed.
