(* Memory safety of the Quantum port (Model/Qtm.v): ghost bounds checks (status OOBQ) on the literal store and on every match copy -
   the plain one, the one reaching back before the window start, and both halves of the copy that wraps the window end.
   Here: no run from qtmd_init ever returns OOBQ. *)
From Coq Require Import List NArith ZArith Arith Lia Bool.
Import ListNotations.
From MSP Require Import Base.Src Gen.Consts Gen.Tables Model.Mszip Model.Qtm Proofs.NoWrite.
From RecordUpdate Require Import RecordSet.
Import RecordSetNotations.
Local Open Scope N_scope.

Definition qres_ok {A} (Q : A -> qst -> Prop) (r : N + A * qst) : Prop := match r with inl e => e <> OOBQ | inr (a, s') => Q a s' end.
Definition hq {A} (Q : A -> qst -> Prop) (m : qm A) (s : qst) : Prop := leaves (fun _ => True) (qres_ok Q) (m s).
Lemma hq_bnd {A B} (Q1 : A -> qst -> Prop) (Q2 : B -> qst -> Prop) (m : qm A) (f : A -> qm B) s :
  hq Q1 m s -> (forall a s', Q1 a s' -> hq Q2 (f a) s') -> hq Q2 (bnd m f) s.
Proof. intros Hm Hf. unfold hq, bnd. eapply leaves_sbind; [exact Hm|]. intros [e|[a s']] H; [constructor; exact H|apply Hf; exact H]. Qed.
Lemma hq_get_bnd {B} (Q : B -> qst -> Prop) (f : qst -> qm B) s : hq Q (f s) s -> hq Q (bnd get f) s. Proof. intro H. exact H. Qed.
Lemma hq_put_bnd {B} (Q : B -> qst -> Prop) x (k : unit -> qm B) s : hq Q (k tt) x -> hq Q (bnd (put x) k) s. Proof. intro H. exact H. Qed.
Lemma hq_modify_bnd {B} (Q : B -> qst -> Prop) g (k : unit -> qm B) s : hq Q (k tt) (g s) -> hq Q (bnd (modify g) k) s. Proof. intro H. exact H. Qed.
Lemma hq_write_bnd {B} (Q : B -> qst -> Prop) d (f : unit -> qm B) s : hq Q (f tt) s -> hq Q (bnd (write d) f) s.
Proof. intro H. unfold hq, bnd, write. cbn [sbind]. constructor. intros []. exact H. Qed.
Lemma hq_ret {A} (Q : A -> qst -> Prop) a s : Q a s -> hq Q (ret a) s. Proof. intro H. constructor. exact H. Qed.
Lemma hq_fail {A} (Q : A -> qst -> Prop) e s : e <> OOBQ -> hq Q (@fail A e) s. Proof. intro H. constructor. exact H. Qed.
Lemma hq_put (Q : unit -> qst -> Prop) x s : Q tt x -> hq Q (put x) s. Proof. intro H. constructor. exact H. Qed.
Lemma hq_modify (Q : unit -> qst -> Prop) g s : Q tt (g s) -> hq Q (modify g) s. Proof. intro H. constructor. exact H. Qed.
Lemma hq_weaken {A} (Q Q' : A -> qst -> Prop) m s : hq Q m s -> (forall a s', Q a s' -> Q' a s') -> hq Q' m s.
Proof. intros H HQ. eapply leaves_weaken; [exact H|]. intros [e|[a s']] Hr; [exact Hr|apply HQ; exact Hr]. Qed.

(* ---- bit lemmas ---- *)
Lemma land_m32 x : N.land x (M32 - 1) < M32.
Proof. change (M32 - 1) with (N.ones 32). rewrite N.land_ones. change M32 with (2 ^ 32). apply N.mod_lt. discriminate. Qed.
Lemma land_m32_le x : N.land x (M32 - 1) <= x.
Proof. change (M32 - 1) with (N.ones 32). rewrite N.land_ones. apply N.mod_le. discriminate. Qed.
Lemma lor_lt a b n : a < 2 ^ n -> b < 2 ^ n -> N.lor a b < 2 ^ n.
Proof.
  intros Ha Hb. destruct (N.eq_dec a 0) as [->|Na]; [rewrite N.lor_0_l; exact Hb|]. destruct (N.eq_dec b 0) as [->|Nb]; [rewrite N.lor_0_r; exact Ha|].
  assert (N.lor a b <> 0) by (intro E; apply N.lor_eq_0_iff in E; tauto).
  apply N.log2_lt_pow2; [lia|]. rewrite N.log2_lor. apply N.max_lub_lt; apply N.log2_lt_pow2; lia.
Qed.
Lemma shiftr_lt bb n : bb < M32 -> n <= 32 -> N.shiftr bb (32 - n) < 2 ^ n.
Proof.
  intros Hb Hn. rewrite N.shiftr_div_pow2. apply N.div_lt_upper_bound; [apply N.pow_nonzero; discriminate|].
  rewrite <- N.pow_add_r. replace (32 - n + n) with 32 by lia. exact Hb.
Qed.

(* ---- what the reading half (bit reader, arithmetic decoder, model updates) leaves alone; the bit buffer stays below 2^32 ---- *)
Definition sameq (s s' : qst) : Prop :=
  wposn s' = wposn s /\ wsize s' = wsize s /\ optr s' = optr s /\ oend s' = oend s /\ err s' = err s /\ win s' = win s.
Lemma sameq_refl s : sameq s s. Proof. repeat split. Qed.
Definition Gq (g s' : qst) : Prop := sameq g s' /\ bb s' < M32.
Definition Kq {A} (m : qm A) : Prop := forall g s, Gq g s -> hq (fun _ s' => Gq g s') m s.
Lemma hqK_bnd {A B} g (Q : B -> qst -> Prop) (m : qm A) (f : A -> qm B) s :
  hq (fun _ s' => Gq g s') m s -> (forall a s', Gq g s' -> hq Q (f a) s') -> hq Q (bnd m f) s.
Proof. intros Hm Hf. eapply hq_bnd; [exact Hm|]. intros a s' H. apply Hf. exact H. Qed.
Lemma Kq_app {A} (m : qm A) g s : Kq m -> Gq g s -> hq (fun _ s' => Gq g s') m s. Proof. intros K H. exact (K g s H). Qed.
Lemma Gq_upd g s x : Gq g s -> wposn x = wposn s -> wsize x = wsize s -> optr x = optr s -> oend x = oend s -> err x = err s -> win x = win s -> bb x < M32 -> Gq g x.
Proof. unfold Gq, sameq. intros [H Hb]. intros. repeat match goal with H : _ /\ _ |- _ => destruct H end. repeat split; congruence. Qed.
Ltac bbt := first [assumption | apply land_m32 | match goal with H : Gq _ ?s |- bb _ < M32 => exact (proj2 H) end].
Ltac gupd := match goal with H : Gq ?g ?t |- Gq ?g _ => apply (Gq_upd g t _ H); [reflexivity..|cbn; bbt] end.
Create HintDb kqdb.
Ltac kq := repeat (match goal with
  | |- Kq _ => let g := fresh "g" in let s := fresh "s" in let Hs := fresh "Hs" in intros g s Hs
  | |- hq _ (bnd get _) _ => apply hq_get_bnd
  | H : Gq ?g ?s |- hq _ (bnd _ _) ?s => apply (hqK_bnd g); [|let a := fresh "a" in let s := fresh "s" in let Hs := fresh "Hs" in intros a s Hs]
  | |- hq _ (if ?b then _ else _) _ => destruct b
  | |- hq _ (let '(_, _) := ?x in _) _ => destruct x
  | |- hq _ (match ?x with _ => _ end) _ => destruct x
  | |- hq _ (ret _) _ => apply hq_ret; assumption
  | |- hq _ (fail _) _ => apply hq_fail; discriminate
  | |- hq _ (put _) _ => apply hq_put; gupd
  | |- hq _ (modify _) _ => apply hq_modify; gupd
  | |- hq _ _ _ => solve [apply Kq_app; [auto with kqdb|assumption]]
  end).
Lemma Kq_next : Kq next_byte. Proof. intros g s Hs. unfold next_byte. constructor. intro b. constructor. exact Hs. Qed.
#[export] Hint Resolve Kq_next : kqdb.
Lemma Kq_read_word : Kq read_word. Proof. unfold read_word. kq. Qed.
#[export] Hint Resolve Kq_read_word : kqdb.
Lemma Kq_ensure f : forall n, Kq (ensure f n). Proof. induction f as [|f IH]; intro n; cbn [ensure]; kq. Qed.
#[export] Hint Resolve Kq_ensure : kqdb.
Lemma Kq_peek n : Kq (peek n). Proof. unfold peek. kq. Qed.
Lemma Kq_remove n : Kq (remove n). Proof. unfold remove. kq. Qed.
#[export] Hint Resolve Kq_peek Kq_remove : kqdb.
Lemma Kq_read_bits n : Kq (read_bits n). Proof. unfold read_bits. kq. Qed.
#[export] Hint Resolve Kq_read_bits : kqdb.
Lemma Kq_read_many f : forall needed val, Kq (read_many f needed val). Proof. induction f as [|f IH]; intros; cbn [read_many]; kq. Qed.
#[export] Hint Resolve Kq_read_many : kqdb.
Lemma Kq_renorm f : Kq (renorm f). Proof. induction f as [|f IH]; cbn [renorm]; kq. Qed.
#[export] Hint Resolve Kq_renorm : kqdb.
Lemma Kq_get_symbol i : Kq (get_symbol i). Proof. unfold get_symbol. destruct i; kq. Qed.
#[export] Hint Resolve Kq_get_symbol : kqdb.
Lemma Kq_trailer f : Kq (trailer f). Proof. induction f as [|f IH]; cbn [trailer]; kq. Qed.
#[export] Hint Resolve Kq_trailer : kqdb.

(* READ_MANY_BITS delivers a value below 2^needed *)
Lemma peek_bound n g s : Gq g s -> n <= 32 -> hq (fun p s' => Gq g s' /\ p < 2 ^ n) (peek n) s.
Proof.
  intros Hs Hn. unfold peek. apply hq_get_bnd. apply hq_ret. split; [exact Hs|].
  destruct (N.eqb_spec n 0) as [->|E]; [reflexivity|]. apply shiftr_lt; [exact (proj2 Hs)|exact Hn].
Qed.
Lemma read_many_bound : forall f needed val k g s, Gq g s -> val < 2 ^ k -> k + needed <= 32 ->
  hq (fun v s' => Gq g s' /\ v < 2 ^ (k + needed)) (read_many f needed val) s.
Proof.
  induction f as [|f IH]; intros needed val k g s Hs Hv Hk; cbn [read_many].
  - apply hq_ret. split; [exact Hs|]. eapply N.lt_le_trans; [exact Hv|]. apply N.pow_le_mono_r; lia.
  - destruct (N.eqb_spec needed 0) as [->|En]; [apply hq_ret; split; [exact Hs|rewrite N.add_0_r; exact Hv]|].
    apply hq_get_bnd. apply (hqK_bnd g); [kq|]. intros u s1 Hs1. apply hq_get_bnd. cbv zeta.
    set (r := N.min (bl s1) needed). assert (Hr : r <= needed) by (unfold r; lia).
    eapply hq_bnd; [apply (peek_bound r g s1 Hs1); lia|]. intros p s2 [Hs2 Hp]. cbv beta.
    apply (hqK_bnd g); [kq|]. intros u2 s3 Hs3.
    replace (N.land (needed + 256 - r) 255) with (needed - r).
    2:{ change 255 with (N.ones 8). rewrite N.land_ones. replace (needed + 256 - r) with (needed - r + 1 * 2 ^ 8) by (change (2 ^ 8) with 256; lia).
        rewrite N.mod_add by discriminate. rewrite N.mod_small; [reflexivity|]. change (2 ^ 8) with 256. lia. }
    eapply hq_weaken; [apply (IH (needed - r) _ (k + r) g s3 Hs3)|].
    + eapply N.le_lt_trans; [apply land_m32_le|]. apply lor_lt.
      * rewrite N.shiftl_mul_pow2, N.pow_add_r. apply N.mul_lt_mono_pos_r; [apply N.neq_0_lt_0, N.pow_nonzero; discriminate|exact Hv].
      * eapply N.lt_le_trans; [exact Hp|]. apply N.pow_le_mono_r; lia.
    + lia.
    + intros v s' [A B]. split; [exact A|]. replace (k + r + (needed - r)) with (k + needed) in B by lia. exact B.
Qed.

(* ---- match lengths stay far below the smallest window ---- *)
Lemma nthN_beyond (l : list N) i : N.of_nat (length l) <= i -> nthN l i = 0.
Proof. intro H. unfold nthN. apply nth_overflow. lia. Qed.
Lemma len_bound sym e : e < 2 ^ nthN q_length_extra sym -> nthN q_length_base sym + e + 5 <= 1024 /\ nthN q_length_extra sym <= 32.
Proof.
  intro He. destruct (N.ltb_spec sym 27) as [Hs|Hs].
  - assert (F : forallb (fun s => (nthN q_length_base s + 2 ^ nthN q_length_extra s + 5 <=? 1025) && (nthN q_length_extra s <=? 32)) (map N.of_nat (seq 0 27)) = true) by (vm_compute; reflexivity).
    rewrite forallb_forall in F. specialize (F sym). rewrite andb_true_iff, !N.leb_le in F. 
    assert (In sym (map N.of_nat (seq 0 27))) by (apply in_map_iff; exists (N.to_nat sym); split; [apply N2Nat.id|apply in_seq; lia]).
    specialize (F H). lia.
  - assert (L1 : N.of_nat (length q_length_extra) = 27) by reflexivity. assert (L2 : N.of_nat (length q_length_base) = 27) by reflexivity.
    assert (E1 : nthN q_length_extra sym = 0) by (apply nthN_beyond; rewrite L1; exact Hs).
    assert (E2 : nthN q_length_base sym = 0) by (apply nthN_beyond; rewrite L2; exact Hs).
    rewrite E1 in *. rewrite E2. cbn in He. lia.
Qed.

(* ---- the inner loop ---- *)
Definition IQ (s : qst) : Prop := wposn s <= wsize s /\ 1024 <= wsize s /\ bb s < M32.
Ltac unG := repeat match goal with H : Gq _ _ |- _ => destruct H as [[? [? [? [? [? ?]]]]] ?] end.

Lemma mlmo_spec sel g s : Gq g s ->
  hq (fun mlmo s' => Gq g s' /\ fst mlmo <= 1024)
     (if sel =? 4 then sym <- get_symbol M4 ;; e <- read_many 40 (nthN q_extra_bits sym) 0 ;; ret (3, nthN q_position_base sym + e + 1)
      else if sel =? 5 then sym <- get_symbol M5 ;; e <- read_many 40 (nthN q_extra_bits sym) 0 ;; ret (4, nthN q_position_base sym + e + 1)
      else if sel =? 6 then
        sym <- get_symbol M6L ;; e <- read_many 40 (nthN q_length_extra sym) 0 ;;
        let ml := nthN q_length_base sym + e + 5 in
        sym2 <- get_symbol M6 ;; e2 <- read_many 40 (nthN q_extra_bits sym2) 0 ;;
        ret (ml, nthN q_position_base sym2 + e2 + 1)
      else fail ERR_DECRUNCH) s.
Proof.
  intro Hs. destruct (sel =? 4); [|destruct (sel =? 5); [|destruct (sel =? 6); [|apply hq_fail; discriminate]]].
  - apply (hqK_bnd g); [kq|]. intros sym s1 H1. apply (hqK_bnd g); [kq|]. intros e s2 H2. apply hq_ret. split; [exact H2|cbn; lia].
  - apply (hqK_bnd g); [kq|]. intros sym s1 H1. apply (hqK_bnd g); [kq|]. intros e s2 H2. apply hq_ret. split; [exact H2|cbn; lia].
  - apply (hqK_bnd g); [kq|]. intros sym s1 H1.
    destruct (N.le_gt_cases (nthN q_length_extra sym) 32) as [Hx|Hx].
    + eapply hq_bnd; [apply (read_many_bound 40 (nthN q_length_extra sym) 0 0 g s1 H1); [cbn; lia|lia]|].
      intros e s2 [H2 He]. cbv beta zeta. rewrite N.add_0_l in He. destruct (len_bound sym e He) as [B1 _].
      apply (hqK_bnd g); [kq|]. intros sym2 s3 H3. apply (hqK_bnd g); [kq|]. intros e2 s4 H4. apply hq_ret. split; [exact H4|cbn; exact B1].
    + exfalso. destruct (N.ltb_spec sym 27) as [Hq|Hq].
      * assert (F : forallb (fun s => nthN q_length_extra s <=? 32) (map N.of_nat (seq 0 27)) = true) by (vm_compute; reflexivity).
        rewrite forallb_forall in F. specialize (F sym). rewrite N.leb_le in F. apply (N.lt_irrefl 32). eapply N.lt_le_trans; [exact Hx|]. apply F.
        apply in_map_iff. exists (N.to_nat sym). split; [apply N2Nat.id|apply in_seq; lia].
      * assert (L1 : N.of_nat (length q_length_extra) = 27) by reflexivity. rewrite nthN_beyond in Hx by (rewrite L1; exact Hq). lia.
Qed.

Lemma inner_safe : forall f fe ob s, IQ s -> fe <= wsize s ->
  hq (fun _ s' => IQ s' /\ wsize s' = wsize s /\ err s' = err s) (inner f fe ob) s.
Proof.
  induction f as [|f IH]; intros fe ob s (I1 & I2 & I3) Hfe; cbn [inner]; [apply hq_fail; discriminate|].
  assert (G0 : Gq s s) by (split; [apply sameq_refl|exact I3]).
  apply hq_get_bnd. destruct (N.leb_spec fe (wposn s)) as [Ew|Ew]; [apply hq_ret; repeat split; assumption|].
  apply (hqK_bnd s); [kq|]. intros sel s1 H1.
  destruct (sel <? 4).
  - apply (hqK_bnd s); [kq|]. intros sym s2 H2. apply hq_get_bnd.
    destruct (N.leb_spec (wsize s2) (wposn s2)) as [Eo|Eo]; [exfalso; unG; lia|].
    apply hq_modify_bnd. eapply hq_weaken; [apply IH|].
    + unG. unfold IQ. cbn. repeat split; lia.
    + unG. cbn. lia.
    + intros r s' (A & B & C). cbv beta. split; [exact A|]. unG. cbn in B, C. split; congruence.
  - eapply hq_bnd; [apply (mlmo_spec sel s s1 H1)|]. intros [ml mo0] s2 [H2 Hml]. cbn [fst] in Hml. cbv beta zeta.
    apply hq_modify_bnd. apply hq_get_bnd.
    set (s3 := s2 <| frame_todo := N.land (frame_todo s2 + M32 - ml) (M32 - 1) |>).
    assert (S3 : wposn s3 = wposn s /\ wsize s3 = wsize s /\ bb s3 < M32 /\ err s3 = err s /\ optr s3 = optr s) by (unG; repeat split; cbn; congruence).
    destruct S3 as (W3 & Z3 & B3 & E3 & O3).
    assert (S2 : wposn s2 = wposn s /\ wsize s2 = wsize s /\ bb s2 < M32 /\ err s2 = err s) by (unG; repeat split; congruence).
    destruct S2 as (W2 & Z2 & B2 & E2).
    destruct (N.ltb_spec (wsize s3) (wposn s3 + ml)) as [Ewr|Ewr].
    + (* the match wraps the window end *)
      assert (Cg : (wsize s3 <? wposn s3) || (wsize s3 <? ml - (wsize s3 - wposn s3)) = false).
      { apply orb_false_iff. split; apply N.ltb_ge; lia. }
      rewrite Cg. cbv zeta.
      destruct (copy_mask (N.to_nat (wsize s3 - wposn s3)) (win s3) (N.land (wposn s3 + M32 - N.land mo0 (M32 - 1)) (M32 - 1)) (wposn s3) (wsize s3 - 1)) as [w1 j1].
      destruct (ob <? wsize s3 - optr s3); [apply hq_fail; discriminate|].
      apply hq_write_bnd.
      destruct (copy_mask (N.to_nat (ml - (wsize s3 - wposn s3))) w1 j1 0 (wsize s3 - 1)) as [w2 j2].
      apply hq_put_bnd. apply hq_ret. unfold IQ. cbn. repeat split; try lia; try congruence.
    + (* it does not *)
      eapply (hq_bnd (fun _ s4 => IQ s4 /\ wsize s4 = wsize s /\ err s4 = err s)).
      { destruct (N.ltb_spec (wposn s3) (N.land mo0 (M32 - 1))) as [Em|Em].
        - cbv zeta. destruct (N.ltb_spec (wsize s3) (N.land mo0 (M32 - 1) - wposn s3)) as [Ej|Ej]; [apply hq_fail; discriminate|].
          match goal with |- hq _ (if negb ?b then _ else _) _ => assert (Hb : b = true) end.
          { unfold inb. destruct (N.ltb_spec (N.land mo0 (M32 - 1) - wposn s3) ml); rewrite ?andb_true_iff, ?N.leb_le; lia. }
          rewrite Hb. cbn [negb]. apply hq_put. unfold IQ. cbn. repeat split; try lia; try congruence.
        - match goal with |- hq _ (if negb ?b then _ else _) _ => assert (Hb : b = true) end.
          { unfold inb. rewrite ?andb_true_iff, ?N.leb_le. lia. }
          rewrite Hb. cbn [negb]. apply hq_put. unfold IQ. cbn. repeat split; try lia; try congruence. }
      intros u s4 (A4 & Z4 & E4). eapply hq_weaken; [apply IH; [exact A4|lia]|].
      intros r s' (A & B & C). cbv beta. split; [exact A|]. split; congruence.
Qed.

Lemma outer_safe : forall f ob s, IQ s -> hq (fun _ s' => IQ s' /\ wsize s' = wsize s /\ err s' = err s) (outer f ob) s.
Proof.
  induction f as [|f IH]; intros ob s HI; cbn [outer]; [apply hq_fail; discriminate|].
  pose proof HI as (I1 & I2 & I3).
  assert (G0 : Gq s s) by (split; [apply sameq_refl|exact I3]).
  apply hq_get_bnd. destruct (ob <=? oend s - optr s); [apply hq_ret; repeat split; assumption|].
  apply (hqK_bnd s); [kq|]. intros u1 s1 H1. apply hq_get_bnd. cbv zeta.
  set (fe := if wsize s1 <? _ then wsize s1 else _).
  assert (Hfe : fe <= wsize s1) by (unfold fe; match goal with |- (if ?b then _ else _) <= _ => destruct b eqn:E end; [lia|apply N.ltb_ge in E; exact E]).
  assert (S1 : IQ s1 /\ wsize s1 = wsize s /\ err s1 = err s) by (unG; unfold IQ; repeat split; try congruence; lia).
  destruct S1 as (A1 & Z1 & E1).
  eapply hq_bnd; [apply (inner_safe 70000 fe ob s1 A1 Hfe)|]. intros [b ob1] s2 (A2 & Z2 & E2). cbv beta.
  apply hq_modify_bnd. apply hq_get_bnd.
  set (s3 := s2 <| oend := wposn s2 |>).
  assert (A3 : IQ s3) by exact A2.
  assert (G3 : Gq s3 s3) by (split; [apply sameq_refl|exact (proj2 (proj2 A3))]).
  destruct (QFRAME <? frame_todo s3); [apply hq_fail; discriminate|].
  apply (hqK_bnd s3); [kq|]. intros u4 s5 H4. apply hq_get_bnd.
  assert (S4 : IQ s5 /\ wsize s5 = wsize s /\ err s5 = err s).
  { destruct A3 as (P1 & P2 & P3). unG. unfold IQ. repeat split; try lia; try assumption.
    - transitivity (wsize s3); [assumption|]. transitivity (wsize s2); [reflexivity|congruence].
    - transitivity (err s3); [assumption|]. transitivity (err s2); [reflexivity|congruence]. }
  destruct S4 as (A4 & Z4 & E4).
  destruct (wposn s5 =? wsize s5).
  - cbv zeta. destruct (ob1 <=? oend s5 - optr s5); [apply hq_ret; exact (conj A4 (conj Z4 E4))|].
    apply hq_write_bnd. apply hq_put_bnd. eapply hq_weaken; [apply IH|].
    + destruct A4 as (P1 & P2 & P3). unfold IQ. cbn. repeat split; try lia; assumption.
    + intros r s' (A & B & C). cbv beta. split; [exact A|]. cbn in B, C. split; congruence.
  - eapply hq_weaken; [apply IH; exact A4|]. intros r s' (A & B & C). cbv beta. split; [exact A|]. split; congruence.
Qed.

Lemma decompress_safe n s : IQ s -> err s <> OOBQ -> hq (fun _ s' => IQ s' /\ wsize s' = wsize s /\ err s' = err s) (decompress n) s.
Proof.
  intros HI He. unfold decompress. apply hq_get_bnd.
  destruct (err s =? 0); cbn [negb]; [|apply hq_fail; exact He]. cbv zeta.
  eapply (hq_bnd (fun _ s1 => IQ s1 /\ wsize s1 = wsize s /\ err s1 = err s)).
  { destruct (0 <? N.min (oend s - optr s) n); [apply hq_write_bnd; apply hq_modify|apply hq_ret]; repeat split; try reflexivity; apply HI. }
  intros u s1 (A1 & Z1 & E1). cbv beta.
  destruct (n - N.min (oend s - optr s) n =? 0); [apply hq_ret; exact (conj A1 (conj Z1 E1))|].
  eapply hq_bnd; [apply outer_safe; exact A1|]. intros rest s2 (A2 & Z2 & E2). cbv beta.
  destruct (0 <? rest).
  - apply hq_get_bnd. apply hq_write_bnd. apply hq_modify. split; [exact A2|]. cbn. split; congruence.
  - apply hq_ret. split; [exact A2|]. split; congruence.
Qed.

Definition InvQ (s : qst) : Prop := IQ s /\ err s <> OOBQ.
Lemma ideal_stop_q {A} rule hint (p : sprog A) : forall s e s', ideal rule hint p s = (SStop e, s') -> e = eof_status rule.
Proof.
  induction p as [a|c k IH]; intros s e s' H; cbn [ideal] in H; [discriminate|]. destruct c.
  - unfold ideal_next in H. destruct (irest s) as [|b r0]; [inversion H; reflexivity|]. exact (IH _ _ _ _ H).
  - destruct (irest s) as [|b r0]; [inversion H; reflexivity|]. exact (IH _ _ _ _ H).
  - destruct (ideal_take rule n s []) as [[l s1]|e1] eqn:T; [exact (IH _ _ _ _ H)|]. inversion H; subst. exact (take_stop _ _ _ _ _ T).
  - exact (IH _ _ _ _ H).
  - exact (IH _ _ _ _ H).
Qed.
Theorem qtm_call_safe s i n st s' i' : InvQ s -> qtm_call s i n = (st, s', i') -> st <> OOBQ /\ InvQ s'.
Proof.
  intros [HI He] H. unfold qtm_call in H.
  destruct (ideal EofPad2 0 (decompress n s) i) as [r i1] eqn:E.
  destruct r as [[e|[[] s1]]|e].
  - pose proof (leaves_run (fun _ => True) _ EofPad2 0 _ I (decompress_safe n s HI He) _ _ _ E) as LL. cbn in LL.
    inversion H; subst. split; [exact LL|]. split; [exact HI|exact LL].
  - pose proof (leaves_run (fun _ => True) _ EofPad2 0 _ I (decompress_safe n s HI He) _ _ _ E) as LL. cbn in LL.
    inversion H; subst. destruct LL as (L1 & L2 & L3). split; [discriminate|]. split; [exact L1|congruence].
  - apply ideal_stop_q in E. subst e. inversion H; subst. split; [discriminate|]. split; [exact HI|discriminate].
Qed.
Lemma qtm_calls_safe : forall reqs s i acc sts i', InvQ s -> Forall (fun st => st <> OOBQ) acc -> qtm_calls reqs s i acc = (sts, i') -> Forall (fun st => st <> OOBQ) sts.
Proof.
  induction reqs as [|n reqs IH]; intros s i acc sts i' HI Ha H; cbn [qtm_calls] in H.
  - inversion H; subst. rewrite rev_append_rev, app_nil_r. apply Forall_rev. exact Ha.
  - destruct (qtm_call s i n) as [[st s1] i1] eqn:E. destruct (qtm_call_safe _ _ _ _ _ _ HI E) as [N1 I1].
    apply (IH _ _ _ _ _ I1 (Forall_cons (P := fun st => st <> OOBQ) st N1 Ha) H).
Qed.
(* every sequence of qtmd_decompress calls from qtmd_init, every legal window size (2^10 .. 2^21), every input *)
Theorem qtm_run_safe wb inp reqs sts out : 10 <= wb <= 21 -> qtm_run wb inp reqs = (sts, out) -> Forall (fun st => st <> OOBQ) sts.
Proof.
  intros Hw H. unfold qtm_run in H.
  destruct (qtm_calls reqs (qtm_init wb) {| irest := inp ++ pad EofPad2; iout := [] |} []) as [sts0 i'] eqn:E.
  inversion H; subst. refine (qtm_calls_safe _ _ _ _ _ _ _ (Forall_nil _) E).
  split; [|discriminate]. unfold IQ. change (wposn (qtm_init wb)) with 0. change (wsize (qtm_init wb)) with (N.shiftl 1 wb). change (bb (qtm_init wb)) with 0.
  rewrite N.shiftl_1_l. assert (2 ^ 10 <= 2 ^ wb) by (apply N.pow_le_mono_r; lia). change (2 ^ 10) with 1024 in *. repeat split; lia.
Qed.
(* non-vacuity of the ghost checks: with a window far smaller than a match (a state qtmd_init never produces) a wrapped copy goes wrong *)
Definition bad_qstate : qst := qtm_init 10 <| wsize := 8 |>.
