(* search_chunk of chmd.c on a well-formed chunk: the byte-level search (quick-reference binary search, then a linear scan of
   one group) refines a search over the parsed entries. *)
From Coq Require Import List NArith ZArith Lia Bool.
Import ListNotations.
From MSP Require Import Gen.Consts Gen.Tables Model.Chm Proofs.ChmEnc.
Local Open Scope N_scope.

Definition aentry : Type := list N * list N.        (* name, payload bytes (the ENCINTs after the name) *)
Definition enc (e : aentry) : list N := encint (len (fst e)) ++ fst e ++ snd e.
Definition encs (es : list aentry) : list N := concat (map enc es).

Lemma skip_encint_digits : forall k v rest, skip_encint (digits k v ++ rest) = rest.
Proof.
  induction k as [|k IH]; intros v rest; cbn [digits app skip_encint].
  - assert (Hd : v mod 128 < 128) by (apply N.mod_lt; lia). destruct (last_byte _ Hd) as [A _]. rewrite A. reflexivity.
  - set (d := (v / 128 ^ N.of_nat (S k)) mod 128). assert (Hd : d < 128) by (apply N.mod_lt; lia).
    destruct (cont_byte _ Hd) as [A _]. rewrite A. apply IH.
Qed.
Lemma skip_encint_enc v rest : skip_encint (encint v ++ rest) = rest.
Proof. apply skip_encint_digits. Qed.

Section Search.
Variable lower : N -> N.
Variable t : list N.            (* the name searched for *)
Definition cmpe (e : aentry) : Z := compare lower t (fst e).
(* pm: PMGL (true) or PMGI (false) chunk *)
Definition skips (pm : bool) (l : list N) : list N := if pm then skip_encint (skip_encint (skip_encint l)) else skip_encint l.
(* an entry the scan can step over: its name length fits 32 bits and its payload is exactly the ENCINTs the chunk type has *)
Definition wf_ae (pm : bool) (e : aentry) : Prop := len (fst e) < M32 /\ forall rest, skips pm (snd e ++ rest) = rest.

Lemma entry_cmp_enc e rest : len (fst e) < M32 -> entry_cmp lower t (enc e ++ rest) = Some (cmpe e, snd e ++ rest).
Proof.
  intro H. unfold entry_cmp, enc. rewrite <- !app_assoc, read_encint_enc by (unfold M32, MAXINT in *; lia).
  rewrite N.mod_small by exact H.
  replace (len (fst e ++ snd e ++ rest) <? len (fst e)) with false by (symmetry; apply N.ltb_ge; rewrite len_app; lia).
  rewrite firstn_len_app, skipn_len_app. reflexivity.
Qed.

Definition fin (pm : bool) (res : option (list N)) : sres := if pm then SNone else match res with Some p => SFound p | None => SNone end.

(* the linear scan over parsed entries *)
Fixpoint alin (pm : bool) (cnt : nat) (es : list aentry) (tail : list N) (res : option (list N)) : sres :=
  match cnt with
  | O => fin pm res
  | S c =>
    match es with
    | [] => fin pm res
    | e :: es' =>
      let p := snd e ++ encs es' ++ tail in
      if (cmpe e =? 0)%Z then SFound p else if (cmpe e <? 0)%Z then fin pm res
      else alin pm c es' tail (if pm then res else Some p)
    end
  end.

Lemma linear_alin pm : forall cnt es tail res, (cnt <= length es)%nat -> Forall (wf_ae pm) es ->
  linear lower cnt pm t (encs es ++ tail) res = alin pm cnt es tail res.
Proof.
  induction cnt as [|c IH]; intros es tail res Hc Hwf; [reflexivity|].
  destruct es as [|e es']; [cbn in Hc; lia|]. inversion Hwf as [|? ? [He1 He2] Hes]; subst.
  cbn [linear alin]. unfold encs at 1. cbn [map concat]. fold (encs es'). rewrite <- app_assoc, entry_cmp_enc by exact He1.
  destruct (cmpe e =? 0)%Z; [reflexivity|]. destruct (cmpe e <? 0)%Z; [reflexivity|].
  cbn [length] in Hc. specialize (He2 (encs es' ++ tail)). unfold skips in He2.
  destruct pm; rewrite He2; apply IH; try lia; exact Hes.
Qed.

(* ---------- well-formed chunk (for searching) ---------- *)
Definition qdens (dens : N) : N := 1 + N.shiftl 1 dens.
Definition qrents (dens n : N) : N := (n + qdens dens - 1) / qdens dens.

Record wfc (cs dens : N) (pm : bool) (ch : list N) (es : list aentry) (pre free post : list N) : Prop := {
  w_eq : ch = pre ++ (encs es ++ free) ++ post;
  w_len : len ch = cs;
  w_prelen : len pre = if pm then pmgl_Entries else pmgi_Entries;
  w_sig : nthb ch 3 = if pm then 76 else 73;
  w_qr : le32 ch pmgl_QuickRefSize = len post;
  w_n : le16 ch (cs - 2) = N.of_nat (length es);
  w_npos : (0 < length es)%nat;
  w_dens : dens <= 31;
  w_post2 : 2 <= len post;
  w_offs : 2 * qrents dens (N.of_nat (length es)) <= len post - 2 ->
           forall M, 0 < M -> M < qrents dens (N.of_nat (length es)) ->
           le16 ch (cs - 2 - 2 * M) = len (encs (firstn (N.to_nat (M * qdens dens)) es));
  w_es : Forall (wf_ae pm) es }.

Lemma encs_app a b : encs (a ++ b) = encs a ++ encs b.
Proof. unfold encs. rewrite map_app, concat_app. reflexivity. Qed.
Lemma sub_mid2 (a m1 m2 t' : list N) : sub (a ++ (m1 ++ m2) ++ t') (len a + len m1) (len a + len (m1 ++ m2)) = m2.
Proof.
  replace (a ++ (m1 ++ m2) ++ t') with ((a ++ m1) ++ m2 ++ t') by (rewrite <- !app_assoc; reflexivity).
  replace (len a + len m1) with (len (a ++ m1)) by apply len_app.
  replace (len a + len (m1 ++ m2)) with (len (a ++ m1) + len m2) by (rewrite !len_app; lia).
  apply sub_mid.
Qed.

(* binary search over the parsed entries: the head of group M is entry M * qd *)
Fixpoint absearch (fuel : nat) (es : list aentry) (qd : N) (free : list N) (L R : N) : bres :=
  match fuel with O => BErr | S f =>
    let M := (L + R) / 2 in
    match skipn (N.to_nat (M * qd)) es with
    | [] => BErr
    | e :: rest =>
      let c := cmpe e in
      if (c =? 0)%Z then BExact (snd e ++ encs rest ++ free)
      else if (c <? 0)%Z then
        (if M =? 0 then BNotFound else if L <=? M - 1 then absearch f es qd free L (M - 1) else BGroup ((L + (M - 1)) / 2))
      else (if M + 1 <=? R then absearch f es qd free (M + 1) R else BGroup ((M + 1 + R) / 2))
    end
  end.

Lemma absearch_group : forall es qd free fuel L R m, L <= R -> absearch fuel es qd free L R = BGroup m -> m <= R.
Proof.
  intros es qd free; induction fuel as [|f IH]; intros L R m HLR; [discriminate|]. cbn [absearch].
  set (M := (L + R) / 2).
  assert (HM : M <= R) by (unfold M; apply N.div_le_upper_bound; lia).
  assert (HML : L <= M) by (unfold M; apply N.div_le_lower_bound; lia).
  destruct (skipn (N.to_nat (M * qd)) es) as [|e rest]; [discriminate|].
  destruct (cmpe e =? 0)%Z; [discriminate|]. destruct (cmpe e <? 0)%Z.
  - destruct (M =? 0); [discriminate|]. destruct (N.leb_spec L (M - 1)) as [Hle|Hgt].
    + intro Hb. apply IH in Hb; lia.
    + intro Hb. inversion Hb. apply N.div_le_upper_bound; lia.
  - destruct (N.leb_spec (M + 1) R) as [Hle|Hgt].
    + intro Hb. apply IH in Hb; lia.
    + intro Hb. inversion Hb. assert ((M + 1 + R) / 2 < R + 1) by (apply N.div_lt_upper_bound; lia). lia.
Qed.

Section Refine.
Variables (cs dens : N) (pm : bool) (ch : list N) (es : list aentry) (pre free post : list N).
Hypothesis W : wfc cs dens pm ch es pre free post.
Let n := N.of_nat (length es).
Let qd := qdens dens.
Let qre := qrents dens n.
Hypothesis Hspace : 2 * qre <= len post - 2.

Lemma endp_eq : cs - len post = len pre + len (encs es ++ free).
Proof. destruct W as [E L _ _ _ _ _ _ _ _ _]. rewrite <- L, E, !len_app. lia. Qed.

Lemma qd_pos : 0 < qd.
Proof. unfold qd, qdens. lia. Qed.

Lemma head_in M : M < qre -> M * qd < n.
Proof.
  intro H. unfold qre, qrents in H. fold qd in H. pose proof qd_pos.
  assert (M + 1 <= (n + qd - 1) / qd) by lia.
  assert ((M + 1) * qd <= n + qd - 1). { eapply N.le_trans; [apply N.mul_le_mono_r; exact H1|]. rewrite N.mul_comm. apply N.mul_div_le. lia. }
  nia.
Qed.

(* the bytes from the head of group M to the end of the entries area *)
Lemma group_bytes M : M < qre ->
  sub ch ((if pm then pmgl_Entries else pmgi_Entries) + (if M =? 0 then 0 else le16 ch (cs - 2 - 2 * M))) (cs - len post)
  = encs (skipn (N.to_nat (M * qd)) es) ++ free.
Proof.
  intro HM. rewrite endp_eq. pose proof W as [E L P _ _ _ _ _ _ O _]. rewrite <- P.
  assert (Hoff : (if M =? 0 then 0 else le16 ch (cs - 2 - 2 * M)) = len (encs (firstn (N.to_nat (M * qd)) es))).
  { destruct (N.eqb_spec M 0) as [->|Hne]; [reflexivity|]. apply O; try assumption; lia. }
  rewrite Hoff. rewrite E at 1.
  assert (Es : encs es = encs (firstn (N.to_nat (M * qd)) es) ++ encs (skipn (N.to_nat (M * qd)) es)) by (rewrite <- encs_app, firstn_skipn; reflexivity).
  rewrite Es. rewrite <- (app_assoc (encs (firstn (N.to_nat (M * qd)) es))).
  apply sub_mid2.
Qed.

Lemma skipn_head M : M < qre -> exists e rest, skipn (N.to_nat (M * qd)) es = e :: rest /\ wf_ae pm e.
Proof.
  intro HM. apply head_in in HM. unfold n in HM.
  destruct (skipn (N.to_nat (M * qd)) es) as [|e rest] eqn:E.
  - apply (f_equal (@length _)) in E. rewrite skipn_length in E. cbn [length] in E. lia.
  - exists e, rest. split; [reflexivity|]. destruct W as [_ _ _ _ _ _ _ _ _ _ F]. rewrite Forall_forall in F. apply F.
    rewrite <- (firstn_skipn (N.to_nat (M * qd)) es), E. apply in_or_app. right. left. reflexivity.
Qed.

Lemma bsearch_abs : forall fuel L R, L <= R -> R < qre ->
  bsearch lower fuel ch (if pm then pmgl_Entries else pmgi_Entries) (cs - 2) (cs - len post) t L R = absearch fuel es qd free L R.
Proof.
  induction fuel as [|f IH]; intros L R HLR HR; [reflexivity|]. cbn [bsearch absearch].
  set (M := (L + R) / 2).
  assert (HM : M <= R) by (unfold M; apply N.div_le_upper_bound; lia).
  assert (HML : L <= M) by (unfold M; apply N.div_le_lower_bound; lia).
  rewrite group_bytes by lia.
  destruct (skipn_head M) as (e & rest & Es & [He _]); [lia|]. rewrite Es.
  unfold encs. cbn [map concat]. fold (encs rest). rewrite <- app_assoc, entry_cmp_enc by exact He.
  destruct (cmpe e =? 0)%Z; [reflexivity|]. destruct (cmpe e <? 0)%Z.
  - destruct (M =? 0); [reflexivity|]. destruct (N.leb_spec L (M - 1)); [|reflexivity]. apply IH; lia.
  - destruct (N.leb_spec (M + 1) R); [|reflexivity]. apply IH; lia.
Qed.

End Refine.

Lemma Forall_skipn {A} (P : A -> Prop) k (l : list A) : Forall P l -> Forall P (skipn k l).
Proof. intro H. rewrite <- (firstn_skipn k l) in H. apply Forall_app in H. exact (proj2 H). Qed.

(* search_chunk on the parsed entries *)
Definition asearch (dens : N) (pm : bool) (es : list aentry) (free : list N) (postlen : N) : sres :=
  let n := N.of_nat (length es) in let qd := qdens dens in let qre := qrents dens n in
  if (Z.of_N postlen - 2 <? 2 * Z.of_N qre)%Z then alin pm (length es) es free None
  else match absearch 40 es qd free 0 (qre - 1) with
       | BErr => SErr
       | BNotFound => SNone
       | BExact p => SFound p
       | BGroup m => alin pm (N.to_nat (N.min (n - m * qd) qd)) (skipn (N.to_nat (m * qd)) es) free None
       end.

Theorem search_chunk_abs cs dens pm ch es pre free post : wfc cs dens pm ch es pre free post ->
  search_chunk lower cs dens ch t = asearch dens pm es free (len post).
Proof.
  intro W. pose proof W as [E L P S Q Nn Np D P2 O F]. unfold search_chunk, asearch.
  rewrite S, Q, Nn.
  replace ((if pm then 76 else 73) =? 76) with pm by (destruct pm; reflexivity).
  replace (31 <? dens) with false by (symmetry; apply N.ltb_ge; exact D).
  replace (N.of_nat (length es) =? 0) with false by (symmetry; apply N.eqb_neq; lia).
  replace (cs <? len post) with false by (symmetry; apply N.ltb_ge; rewrite <- L, E, !len_app; lia).
  fold (qdens dens). fold (qrents dens (N.of_nat (length es))).
  set (n := N.of_nat (length es)). set (qd := qdens dens). set (qre := qrents dens n).
  assert (Hend : cs - len post = len pre + len (encs es ++ free)) by (rewrite <- L, E, !len_app; lia).
  destruct (Z.ltb_spec (Z.of_N (len post) - 2) (2 * Z.of_N qre)) as [Hlt|Hge].
  - cbn [N.ltb N.compare]. replace (0 <? 0) with false by reflexivity.
    rewrite Hend, <- P. rewrite E at 1. rewrite sub_mid. unfold n. rewrite Nat2N.id. apply linear_alin; [lia|exact F].
  - assert (Hq : 0 < qre).
    { unfold qre, qrents. fold qd. apply N.div_str_pos. unfold qd, qdens, n. lia. }
    replace (0 <? qre) with true by (symmetry; apply N.ltb_lt; exact Hq).
    assert (Hspace : 2 * qre <= len post - 2) by lia.
    rewrite (bsearch_abs cs dens pm ch es pre free post W Hspace) by (fold n; fold qre; lia).
    fold n. fold qd.
    destruct (absearch 40 es qd free 0 (qre - 1)) as [| |p|m] eqn:B; try reflexivity.
    apply absearch_group in B; [|lia].
    rewrite (group_bytes cs dens pm ch es pre free post W Hspace) by (fold n; fold qre; lia).
    apply linear_alin.
    + rewrite skipn_length. unfold n. lia.
    + apply Forall_skipn. exact F.
Qed.

(* ---------- order: on a sorted chunk the quick search gives the answer of the plain scan of every entry ---------- *)
Definition pat (es : list aentry) : Prop :=
  forall a e b, es = a ++ e :: b -> (cmpe e <= 0)%Z -> Forall (fun x => (cmpe x < 0)%Z) b.

Lemma pat_before es a e b : pat es -> es = a ++ e :: b -> (0 <= cmpe e)%Z -> Forall (fun x => (0 < cmpe x)%Z) a.
Proof.
  intros Hp E He. apply Forall_forall. intros x Hx. apply in_split in Hx as (a1 & a2 & ->).
  destruct (Z.ltb_spec 0 (cmpe x)) as [|Hle]; [assumption|]. exfalso.
  specialize (Hp a1 x (a2 ++ e :: b)). rewrite E, <- app_assoc in Hp. specialize (Hp eq_refl Hle).
  rewrite Forall_forall in Hp. specialize (Hp e). assert (In e (a2 ++ e :: b)) by (apply in_or_app; right; left; reflexivity). specialize (Hp H). lia.
Qed.

Lemma alin_skip_pos pm : forall a e b tail res res', Forall (fun x => (0 < cmpe x)%Z) a -> (0 < cmpe e)%Z ->
  alin pm (length (a ++ e :: b)) (a ++ e :: b) tail res = alin pm (length (e :: b)) (e :: b) tail res'.
Proof.
  induction a as [|x a IH]; intros e b tail res res' Ha He.
  - cbn [app length alin]. replace (cmpe e =? 0)%Z with false by (symmetry; apply Z.eqb_neq; lia).
    replace (cmpe e <? 0)%Z with false by (symmetry; apply Z.ltb_ge; lia). destruct pm; [|reflexivity].
    (* PMGL: res is never used *)
    clear. revert res res'. generalize (length b). intros c. revert b. induction c as [|c IHc]; intros b res res'; [reflexivity|].
    destruct b as [|y b]; [reflexivity|]. cbn [alin]. destruct (cmpe y =? 0)%Z; [reflexivity|]. destruct (cmpe y <? 0)%Z; [reflexivity|]. apply IHc.
  - inversion Ha as [|? ? Hx Ha']; subst. cbn [app length alin].
    replace (cmpe x =? 0)%Z with false by (symmetry; apply Z.eqb_neq; lia).
    replace (cmpe x <? 0)%Z with false by (symmetry; apply Z.ltb_ge; lia). apply IH; assumption.
Qed.
Lemma alin_skip_exact pm : forall a e b tail res, Forall (fun x => (0 < cmpe x)%Z) a -> cmpe e = 0%Z ->
  alin pm (length (a ++ e :: b)) (a ++ e :: b) tail res = SFound (snd e ++ encs b ++ tail).
Proof.
  induction a as [|x a IH]; intros e b tail res Ha He.
  - cbn [app length alin]. rewrite He. reflexivity.
  - inversion Ha as [|? ? Hx Ha']; subst. cbn [app length alin].
    replace (cmpe x =? 0)%Z with false by (symmetry; apply Z.eqb_neq; lia).
    replace (cmpe x <? 0)%Z with false by (symmetry; apply Z.ltb_ge; lia). apply IH; assumption.
Qed.
(* a scan limited to cnt entries equals the full scan when the entry after the limit (if any) is greater than the name *)
Lemma alin_limit pm : forall cnt l tail res, (cnt <= length l)%nat ->
  (forall e, nth_error l cnt = Some e -> (cmpe e < 0)%Z) ->
  alin pm cnt l tail res = alin pm (length l) l tail res.
Proof.
  induction cnt as [|c IH]; intros l tail res Hc Hn.
  - destruct l as [|e l]; [reflexivity|]. cbn [length alin]. specialize (Hn e eq_refl).
    replace (cmpe e =? 0)%Z with false by (symmetry; apply Z.eqb_neq; lia).
    replace (cmpe e <? 0)%Z with true by (symmetry; apply Z.ltb_lt; lia). reflexivity.
  - destruct l as [|e l]; [cbn in Hc; lia|]. cbn [length alin].
    destruct (cmpe e =? 0)%Z; [reflexivity|]. destruct (cmpe e <? 0)%Z; [reflexivity|].
    apply IH; [cbn in Hc; lia|]. intros e' He'. apply Hn. exact He'.
Qed.

Lemma skipn_cons_nth {A} (l : list A) k e r : skipn k l = e :: r -> nth_error l k = Some e /\ l = firstn k l ++ e :: r.
Proof.
  intro H. split.
  - rewrite <- (firstn_skipn k l) at 1. rewrite H.
    assert (Hl : length (firstn k l) = k).
    { apply firstn_length_le. destruct (Nat.le_gt_cases k (length l)); [assumption|]. rewrite skipn_all2 in H by lia. discriminate. }
    rewrite nth_error_app2 by lia. rewrite Hl, Nat.sub_diag. reflexivity.
  - rewrite <- H. symmetry. apply firstn_skipn.
Qed.
Lemma skipn_skipn' {A} (l : list A) a b : skipn b (skipn a l) = skipn (a + b) l.
Proof.
  revert l. induction a as [|a IH]; intro l; [reflexivity|]. destruct l as [|x l]; [rewrite !skipn_nil; reflexivity|]. cbn [skipn Nat.add]. apply IH.
Qed.

Section Quick.
Variables (dens : N) (pm : bool) (es : list aentry) (free : list N).
Let n := N.of_nat (length es).
Let qd := qdens dens.
Let qre := qrents dens n.
Hypothesis Hpat : pat es.
Hypothesis Hn : 0 < n.
Hypothesis Hnb : n < 65536.
Definition full : sres := alin pm (length es) es free None.
Definition headpos (M : N) : Prop := exists e r, skipn (N.to_nat (M * qd)) es = e :: r /\ (0 < cmpe e)%Z.
Definition headneg (M : N) : Prop := exists e r, skipn (N.to_nat (M * qd)) es = e :: r /\ (cmpe e < 0)%Z.

Lemma qd_pos' : 0 < qd. Proof. unfold qd, qdens. lia. Qed.
Lemma heads M : M < qre -> M * qd < n.
Proof.
  intro H. unfold qre, qrents in H. fold qd in H. pose proof qd_pos'.
  assert (H1 : M + 1 <= (n + qd - 1) / qd) by lia.
  assert ((M + 1) * qd <= n + qd - 1). { eapply N.le_trans; [apply N.mul_le_mono_r; exact H1|]. rewrite N.mul_comm. apply N.mul_div_le. lia. }
  nia.
Qed.
Lemma qre_cover : n <= qre * qd.
Proof.
  unfold qre, qrents. fold qd. pose proof qd_pos'. pose proof (N.div_mod (n + qd - 1) qd ltac:(lia)) as D.
  pose proof (N.mod_lt (n + qd - 1) qd ltac:(lia)). nia.
Qed.
Lemma qre_le : qre <= n.
Proof. unfold qre, qrents. fold qd. pose proof qd_pos'. apply N.div_le_upper_bound; [lia|]. nia. Qed.
Lemma head_exists M : M < qre -> exists e r, skipn (N.to_nat (M * qd)) es = e :: r.
Proof.
  intro H. apply heads in H. unfold n in H. destruct (skipn (N.to_nat (M * qd)) es) as [|e r] eqn:E; [|eauto].
  apply (f_equal (@length _)) in E. rewrite skipn_length in E. cbn [length] in E. lia.
Qed.

Ltac Zify.zify_post_hook ::= Z.div_mod_to_equations.
Lemma absearch_spec : forall fuel L R, L <= R -> R < qre -> R + 1 - L < 2 ^ N.of_nat fuel ->
  (L = 0 \/ headpos (L - 1)) -> (R + 1 = qre \/ headneg (R + 1)) ->
  match absearch fuel es qd free L R with
  | BErr => False
  | BNotFound => full = SNone
  | BExact p => full = SFound p
  | BGroup m => m < qre /\ headpos m /\ (m + 1 = qre \/ headneg (m + 1))
  end.
Proof.
  induction fuel as [|f IH]; intros L R HLR HR Hf I1 I2.
  - cbn in Hf. lia.
  - cbn [absearch]. set (M := (L + R) / 2).
    assert (HM : M <= R) by (unfold M; apply N.div_le_upper_bound; lia).
    assert (HML : L <= M) by (unfold M; apply N.div_le_lower_bound; lia).
    assert (HM2 : 2 * M <= L + R /\ L + R < 2 * M + 2).
    { unfold M. clear. lia. }
    rewrite Nat2N.inj_succ, N.pow_succ_r' in Hf.
    destruct (head_exists M) as (e & rest & Es); [lia|]. rewrite Es.
    destruct (skipn_cons_nth _ _ _ _ Es) as [_ Esplit].
    destruct (Z.eqb_spec (cmpe e) 0) as [C0|C0].
    { unfold full. rewrite Esplit at 1 2. apply alin_skip_exact; [|exact C0]. eapply pat_before; [exact Hpat|exact Esplit|lia]. }
    destruct (Z.ltb_spec (cmpe e) 0) as [Cn|Cp].
    + destruct (N.eqb_spec M 0) as [M0|M0].
      * rewrite M0 in Es. cbn in Es. unfold full. rewrite Es. cbn [length alin].
        replace (cmpe e =? 0)%Z with false by (symmetry; apply Z.eqb_neq; lia).
        replace (cmpe e <? 0)%Z with true by (symmetry; apply Z.ltb_lt; lia). destruct pm; reflexivity.
      * destruct (N.leb_spec L (M - 1)) as [Hle|Hgt].
        -- apply IH; [lia|lia|lia|exact I1|]. right. replace (M - 1 + 1) with M by lia. exists e, rest. split; [exact Es|exact Cn].
        -- assert (HLM : L = M) by lia.
           assert (Hm : (L + (M - 1)) / 2 = M - 1).
           { rewrite HLM. symmetry. apply (N.div_unique _ 2 _ 1); lia. }
           rewrite Hm. split; [lia|]. split.
           ++ destruct I1 as [I1|I1]; [lia|]. rewrite HLM in I1. exact I1.
           ++ right. replace (M - 1 + 1) with M by lia. exists e, rest. split; [exact Es|exact Cn].
    + destruct (N.leb_spec (M + 1) R) as [Hle|Hgt].
      * apply IH; [lia|lia|lia| |exact I2]. right. replace (M + 1 - 1) with M by lia. exists e, rest. split; [exact Es|lia].
      * assert (HMR : M = R) by lia.
        assert (Hm : (M + 1 + R) / 2 = R).
        { rewrite HMR. symmetry. apply (N.div_unique _ 2 _ 1); lia. }
        rewrite Hm. split; [lia|]. split.
        -- rewrite <- HMR. exists e, rest. split; [exact Es|lia].
        -- exact I2.
Qed.

Theorem asearch_full postlen : asearch dens pm es free postlen = full.
Proof.
  unfold asearch. fold n. fold qd. fold qre.
  destruct (Z.of_N postlen - 2 <? 2 * Z.of_N qre)%Z; [reflexivity|].
  assert (Hq : 0 < qre).
  { unfold qre, qrents. fold qd. pose proof qd_pos'. apply N.div_str_pos. lia. }
  pose proof (absearch_spec 40 0 (qre - 1)) as S.
  assert (Hfuel : qre - 1 + 1 - 0 < 2 ^ N.of_nat 40).
  { pose proof qre_le. eapply N.le_lt_trans with (m := 65536); [lia|]. reflexivity. }
  assert (Hr : qre - 1 + 1 = qre) by lia. assert (H0r : 0 <= qre - 1) by lia. assert (Hr1 : qre - 1 < qre) by lia.
  specialize (S H0r Hr1 Hfuel (or_introl eq_refl) (or_introl Hr)).
  destruct (absearch 40 es qd free 0 (qre - 1)) as [| |p|m]; [contradiction|symmetry; exact S|symmetry; exact S|].
  destruct S as (Hm & (e & b & Es & He) & Hnext).
  destruct (skipn_cons_nth _ _ _ _ Es) as [_ Esplit]. rewrite Es.
  unfold full. rewrite Esplit at 1 2. rewrite (alin_skip_pos pm _ e b free None None).
  2:{ eapply pat_before; [exact Hpat|exact Esplit|lia]. }
  2:{ exact He. }
  assert (Hlen : length (e :: b) = (length es - N.to_nat (m * qd))%nat) by (rewrite <- Es, skipn_length; reflexivity).
  pose proof (heads m Hm) as Hh. pose proof qd_pos' as Hqd.
  apply alin_limit.
  - rewrite Hlen. unfold n in *. lia.
  - intros e' He'. destruct Hnext as [Hlast|(e2 & r2 & Es2 & He2)].
    + (* last group: the limit is the whole rest *)
      pose proof qre_cover as Hc. rewrite <- Hlast in Hc.
      assert (Hcnt : N.to_nat (N.min (n - m * qd) qd) = length (e :: b)) by (rewrite Hlen; unfold n in *; lia).
      rewrite Hcnt in He'. assert (Hnone : nth_error (e :: b) (length (e :: b)) = None) by (apply nth_error_None; lia).
      rewrite Hnone in He'. discriminate.
    + assert (Hm1 : m + 1 < qre).
      { destruct (N.lt_ge_cases (m + 1) qre) as [|Hge]; [assumption|]. exfalso.
        pose proof qre_cover as Hc. assert (Hbig : n <= (m + 1) * qd) by nia.
        apply (f_equal (@length _)) in Es2. rewrite skipn_length in Es2. cbn [length] in Es2. unfold n in *. lia. }
      pose proof (heads (m + 1) Hm1) as Hh1.
      assert (Hcnt : N.to_nat (N.min (n - m * qd) qd) = N.to_nat qd) by lia.
      rewrite Hcnt in He'. rewrite <- Es in He'.
      assert (Hsk : skipn (N.to_nat qd) (skipn (N.to_nat (m * qd)) es) = e2 :: r2).
      { rewrite skipn_skipn'. rewrite <- Es2. f_equal. lia. }
      apply skipn_cons_nth in Hsk as [Hnth _]. rewrite Hnth in He'. inversion He'. subst. exact He2.
Qed.
End Quick.
End Search.
