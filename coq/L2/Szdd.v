(* Callback-accurate port of szddd.c + lzssd.c (full call set: open/close/read/write/seek/alloc/free). *)
From Coq Require Import List NArith ZArith Bool.
Import ListNotations.
From MSP Require Import Model.LzssBase.
From MSP Require Import Gen.Consts Gen.Tables L2.Sys.
Local Open Scope N_scope.

Fixpoint list_eqb (a b : list N) : bool :=
  match a, b with [] , [] => true | x :: a', y :: b' => (x =? y) && list_eqb a' b' | _, _ => false end.
Definition le32 (l : list N) (o : nat) : N :=
  nth o l 0 + 256 * nth (o+1) l 0 + 65536 * nth (o+2) l 0 + 16777216 * nth (o+3) l 0.
Definition W := 12%nat. Definition mask (x : N) := N.land x (LZSS_WINDOW_SIZE - 1).
Definition EFUEL : N := 99.

(* ---- lzss_decompress(system, input, output, input_buffer_size, mode) ---- *)
Record ist := { iwin : wtree; ipos : N; ibuf : list byte }.
Section Lzss.
Variables (junk : byte) (inh outh : handle) (bufsize : Z) (window : ptr).
(* [junk]: what a window cell holds before the decoder writes it (the allocator's leftovers) *)
Definition stop (e : N) : prog N := do! _ <- call1 (CFree (Some window)); Ret e.   (* every exit frees the window *)
Definition getbyte (s : ist) (k : ist -> byte -> prog N) : prog N :=
  match ibuf s with
  | b :: rest => k {| iwin := iwin s; ipos := ipos s; ibuf := rest |} b
  | [] => do! r <- call1 (CRead inh bufsize);
          match r with
          | RErr => stop MSPACK_ERR_READ
          | RBytes [] => stop MSPACK_ERR_OK
          | RBytes (b :: rest) => k {| iwin := iwin s; ipos := ipos s; ibuf := rest |} b
          end
  end.
Definition putbyte (s : ist) (b : byte) (k : ist -> prog N) : prog N :=
  do! w <- call1 (CWrite outh [b]);
  if Z.eqb w 1 then k {| iwin := wset W (iwin s) (ipos s) b; ipos := mask (ipos s + 1); ibuf := ibuf s |}
  else stop MSPACK_ERR_WRITE.
Fixpoint copy (n : nat) (s : ist) (mpos : N) (k : ist -> prog N) : prog N :=
  match n with O => k s | S n' => putbyte s (wget W (iwin s) mpos junk) (fun s' => copy n' s' (mask (mpos + 1)) k) end.
Fixpoint items (n : nat) (c bit : N) (s : ist) (k : ist -> prog N) : prog N :=
  match n with O => k s | S n' =>
    if N.testbit c bit then getbyte s (fun s1 b => putbyte s1 b (fun s2 => items n' c (bit + 1) s2 k))
    else getbyte s (fun s1 m1 => getbyte s1 (fun s2 m2 =>
           copy (N.to_nat (N.land m2 15 + 3)) s2 (mask (N.lor m1 (N.shiftl (N.land m2 240) 4)))   (* mask: identity on bytes (mpos is 12 bits in C) *)
                (fun s3 => items n' c (bit + 1) s3 k)))
  end.
Fixpoint loop (fuel : nat) (inv : N) (s : ist) : prog N :=
  match fuel with O => stop EFUEL   (* out of fuel is not a C behaviour; the model releases the window so that every statement below is unconditional *)
  | S f =>
    getbyte s (fun s1 c => items 8 (N.lxor c inv) 0 s1 (fun s2 => loop f inv s2)) end.
End Lzss.
(* memset(window, LZSS_WINDOW_FILL, LZSS_WINDOW_SIZE) *)
Definition lzss_decompress (junk : byte) (fuel : nat) (inh outh : handle) (bufsize : Z) (mode : N) : prog N :=
  do! w <- call1 (CAlloc (Z.of_N LZSS_WINDOW_SIZE + bufsize));
  match w with
  | None => Ret MSPACK_ERR_NOMEMORY
  | Some window =>
    loop junk inh outh bufsize window fuel (if mode =? LZSS_MODE_MSHELP then 255 else 0)
         {| iwin := full_tree W LZSS_WINDOW_FILL; ipos := LZSS_WINDOW_SIZE - (if mode =? LZSS_MODE_QBASIC then 18 else 16); ibuf := [] |}
  end.

(* ---- szddd.c ---- *)
Record self := { sptr : ptr; serr : N }.
Record hdr := { hptr : ptr; hfh : handle; hformat : N; hlength : N; hmissing : N }.

Definition read_headers (fh : handle) : prog (N * N * N * N) :=   (* error, format, length, missing *)
  do! r <- call1 (CRead fh 8);
  match r with
  | RBytes buf =>
    if negb (length buf =? 8)%nat then Ret (MSPACK_ERR_READ, 0, 0, 0) else
    if list_eqb buf szdd_sig_expand then
      do! r2 <- call1 (CRead fh 6);
      match r2 with
      | RBytes b2 => if negb (length b2 =? 6)%nat then Ret (MSPACK_ERR_READ, 0, 0, 0) else
                     if negb (nth 0 b2 0 =? 65) then Ret (MSPACK_ERR_DATAFORMAT, 0, 0, 0) else Ret (MSPACK_ERR_OK, 0, le32 b2 2, nth 1 b2 0)
      | RErr => Ret (MSPACK_ERR_READ, 0, 0, 0) end
    else if list_eqb buf szdd_sig_qbasic then
      do! r2 <- call1 (CRead fh 4);
      match r2 with
      | RBytes b2 => if negb (length b2 =? 4)%nat then Ret (MSPACK_ERR_READ, 0, 0, 0) else Ret (MSPACK_ERR_OK, 1, le32 b2 0, 0)
      | RErr => Ret (MSPACK_ERR_READ, 0, 0, 0) end
    else Ret (MSPACK_ERR_SIGNATURE, 0, 0, 0)
  | RErr => Ret (MSPACK_ERR_READ, 0, 0, 0)
  end.

Definition szdd_open (s : self) (name : fname) : prog (option hdr * self) :=
  do! fh <- call1 (COpen name MODE_READ);
  do! hp <- call1 (CAlloc (Z.of_N sizeof_szdd_header));
  match fh, hp with
  | Some f, Some p =>
      do! r <- read_headers f; let '(e, fmt, len, mc) := r in
      if negb (e =? 0) then do! _ <- call1 (CClose f); do! _ <- call1 (CFree (Some p)); Ret (None, {| sptr := sptr s; serr := e |})
      else Ret (Some {| hptr := p; hfh := f; hformat := fmt; hlength := len; hmissing := mc |}, {| sptr := sptr s; serr := MSPACK_ERR_OK |})
  | _, _ =>
      (* if (!fh) error = OPEN; if (!hdr) error = NOMEMORY;  -- the second assignment wins; a previous error value of the instance
         does not matter here because one of the two assignments always happens *)
      let e := match hp with None => MSPACK_ERR_NOMEMORY | Some _ => MSPACK_ERR_OPEN end in
      do! _ <- (match fh with Some f => call1 (CClose f) | None => Ret tt end);
      do! _ <- call1 (CFree hp); Ret (None, {| sptr := sptr s; serr := e |})
  end.
Definition szdd_close (s : self) (h : hdr) : prog self :=
  do! _ <- call1 (CClose (hfh h)); do! _ <- call1 (CFree (Some (hptr h))); Ret {| sptr := sptr s; serr := MSPACK_ERR_OK |}.
Definition SZDD_INPUT_SIZE : Z := 2048.
Definition szdd_extract (junk : byte) (fuel : nat) (s : self) (h : hdr) (out : fname) : prog (N * self) :=
  do! ok <- call1 (CSeek (hfh h) (if hformat h =? 0 then 14 else 12) SEEK_START);
  if negb ok then Ret (MSPACK_ERR_SEEK, {| sptr := sptr s; serr := MSPACK_ERR_SEEK |}) else
  do! o <- call1 (COpen out MODE_WRITE);
  match o with
  | None => Ret (MSPACK_ERR_OPEN, {| sptr := sptr s; serr := MSPACK_ERR_OPEN |})
  | Some oh =>
    do! e <- lzss_decompress junk fuel (hfh h) oh SZDD_INPUT_SIZE (if hformat h =? 0 then LZSS_MODE_EXPAND else LZSS_MODE_QBASIC);
    do! _ <- call1 (CClose oh); Ret (e, {| sptr := sptr s; serr := e |})
  end.
Definition szdd_decompress (junk : byte) (fuel : nat) (s : self) (inp out : fname) : prog (N * self) :=
  do! r <- szdd_open s inp; let '(h, s1) := r in
  match h with
  | None => Ret (serr s1, s1)
  | Some hd => do! r2 <- szdd_extract junk fuel s1 hd out; let '(e, s2) := r2 in
               do! s3 <- szdd_close s2 hd; Ret (e, {| sptr := sptr s3; serr := e |})
  end.

(* client scripts (the documented protocol): create; ...; destroy *)
Definition szdd_new : prog (option self) :=
  do! sp <- call1 (CAlloc (Z.of_N sizeof_szdd_decompressor));
  Ret (match sp with Some p => Some {| sptr := p; serr := MSPACK_ERR_OK |} | None => None end).
Definition szdd_destroy (s : self) : prog unit := call1 (CFree (Some (sptr s))).

(* script A: new; decompress(in0 -> out0); destroy.   result: (status, last_error) *)
Definition script_decompress (junk : byte) (fuel : nat) : prog (N * N) :=
  do! so <- szdd_new;
  match so with
  | None => Ret (98, 98)
  | Some s => do! r <- szdd_decompress junk fuel s (FIn 0) (FOut 0); let '(e, s') := r in
              do! _ <- szdd_destroy s'; Ret (e, serr s')
  end.
(* script B: new; open(in0); extract(out0) twice if open succeeded; close; destroy *)
Definition script_open_extract (junk : byte) (fuel : nat) : prog (list N) :=
  do! so <- szdd_new;
  match so with
  | None => Ret [98]
  | Some s =>
    do! r <- szdd_open s (FIn 0); let '(h, s1) := r in
    match h with
    | None => do! _ <- szdd_destroy s1; Ret [serr s1]
    | Some hd =>
      do! r1 <- szdd_extract junk fuel s1 hd (FOut 0); let '(e1, s2) := r1 in
      do! r2 <- szdd_extract junk fuel s2 hd (FOut 1); let '(e2, s3) := r2 in
      do! s4 <- szdd_close s3 hd;
      do! _ <- szdd_destroy s4; Ret [0; e1; e2; serr s4]
    end
  end.

(* ---- drivers for the L2 correspondence: run a script on the executable host ---- *)
From MSP Require Import L2.Host.
Definition run_script_decompress (input : list byte) (fl : list (N * N * N)) : N * N * list (list N) * list (list byte) :=
  let h0 := host0 [input] 2 (map (fun t => (kind_of (fst (fst t)), snd (fst t), snd t)) fl) in
  let '((e, le), h) := exec h0 (script_decompress 170 (S (length input))) in
  (e, le, rev_append (trace h) [], outfiles h).
Definition run_script_open_extract (input : list byte) (fl : list (N * N * N)) : list N * list (list N) * list (list byte) :=
  let h0 := host0 [input] 2 (map (fun t => (kind_of (fst (fst t)), snd (fst t), snd t)) fl) in
  let '(r, h) := exec h0 (script_open_extract 170 (S (length input))) in
  (r, rev_append (trace h) [], outfiles h).
