(* The mspack_system vtable as a free monad: every way the library touches the world. *)
From Coq Require Import List NArith ZArith Bool.
Import ListNotations.
Local Open Scope N_scope.

Definition byte := N.
Definition ptr := N. Definition handle := N.
Inductive fname := FIn (n : N) | FOut (n : N).       (* archive/patch/base names vs output names supplied by the caller *)
Inductive rd := RErr | RBytes (l : list byte).

Inductive call : Type :=
| COpen (name : fname) (mode : N) | CClose (h : handle)
| CRead (h : handle) (n : Z) | CWrite (h : handle) (d : list byte)
| CSeek (h : handle) (off : Z) (whence : N) | CTell (h : handle)
| CMsg (h : option handle) | CAlloc (n : Z) | CFree (p : option ptr).
Definition answer (c : call) : Type :=
  match c with
  | COpen _ _ => option handle | CAlloc _ => option ptr
  | CRead _ _ => rd | CWrite _ _ => Z | CSeek _ _ _ => bool | CTell _ => Z
  | _ => unit end.
(* what the host decides: identities are assigned by the interpreter *)
Definition raw (c : call) : Type :=
  match c with
  | COpen _ _ => bool | CAlloc _ => bool
  | CRead _ _ => rd | CWrite _ _ => Z | CSeek _ _ _ => bool | CTell _ => Z
  | _ => unit end.

Inductive prog (A : Type) : Type := Ret (a : A) | Do (c : call) (k : answer c -> prog A).
Arguments Ret {A}. Arguments Do {A}.
Fixpoint bind {A B} (p : prog A) (f : A -> prog B) : prog B :=
  match p with Ret a => f a | Do c k => Do c (fun r => bind (k r) f) end.
Notation "'do!' x <- p ; q" := (bind p (fun x => q)) (at level 200, x name, p at level 100, q at level 200).
Notation "'do!' ' pat <- p ; q" := (bind p (fun x => match x with pat => q end)) (at level 200, pat pattern, p at level 100, q at level 200).
Definition call1 (c : call) : prog (answer c) := Do c (fun r => Ret r).

Definition MODE_READ : N := 0. Definition MODE_WRITE : N := 1.
Definition SEEK_START : N := 0. Definition SEEK_CUR : N := 1. Definition SEEK_END : N := 2.
