(* Executable honest host with a fault plan, for the L2 (callback-level) correspondence with harness/sysmon.c. *)
From Coq Require Import List NArith ZArith Bool.
Import ListNotations.
From MSP Require Import L2.Sys.
Local Open Scope N_scope.

Inductive kind := KOpen | KRead | KWrite | KSeek | KAlloc.
Definition kind_eqb (a b : kind) : bool :=
  match a, b with KOpen, KOpen | KRead, KRead | KWrite, KWrite | KSeek, KSeek | KAlloc, KAlloc => true | _, _ => false end.
Record ofile := { oname : fname; omode : N; opos : N }.
Record hst := {
  infiles : list (list byte);            (* FIn k  -> contents *)
  outfiles : list (list byte);           (* FOut k -> contents written so far *)
  opened : list (handle * ofile);
  nextid : N;
  counts : list (kind * N);              (* calls of each kind so far *)
  faults : list (kind * N * N);          (* (kind, index, mode): fail the index-th call of that kind; mode 1 = short write (n-1 bytes) *)
  trace : list (list N) }.               (* canonical event lines, reversed *)

Definition count_of (h : hst) (k : kind) : N :=
  match find (fun p => kind_eqb (fst p) k) (counts h) with Some (_, n) => n | None => 0 end.
Definition bump (h : hst) (k : kind) : list (kind * N) :=
  (k, count_of h k + 1) :: filter (fun p => negb (kind_eqb (fst p) k)) (counts h).
Definition faulty (h : hst) (k : kind) : option N :=
  match find (fun p => kind_eqb (fst (fst p)) k && (snd (fst p) =? count_of h k)) (faults h) with
  | Some (_, _, m) => Some m | None => None end.
Definition lookup (h : hst) (x : handle) : option ofile :=
  match find (fun p => fst p =? x) (opened h) with Some (_, f) => Some f | None => None end.
Definition set_open (h : hst) (x : handle) (f : ofile) : list (handle * ofile) :=
  (x, f) :: filter (fun p => negb (fst p =? x)) (opened h).
Fixpoint replace_nth {A} (n : nat) (l : list A) (a : A) : list A :=
  match l, n with [], _ => [] | _ :: t, O => a :: t | x :: t, S n' => x :: replace_nth n' t a end.
Definition zenc (z : Z) : N := match z with Z0 => 0 | Zpos p => 2 * Npos p | Zneg p => 2 * Npos p + 1 end.
Definition contents (h : hst) (nm : fname) : option (list byte) :=
  match nm with FIn k => nth_error (infiles h) (N.to_nat k) | FOut k => nth_error (outfiles h) (N.to_nat k) end.
Definition nm_code (nm : fname) : list N := match nm with FIn k => [0; k] | FOut k => [1; k] end.

Definition ev (h : hst) (l : list N) (ofs : list (list byte)) (op : list (handle * ofile)) (nid : N) (cs : list (kind * N)) : hst :=
  {| infiles := infiles h; outfiles := ofs; opened := op; nextid := nid; counts := cs; faults := faults h; trace := l :: trace h |}.

Definition hstep (h : hst) (c : call) : answer c * hst :=
  match c return answer c * hst with
  | COpen nm mode =>
      match faulty h KOpen with
      | Some _ => (None, ev h ([1] ++ nm_code nm ++ [mode; 0; 0]) (outfiles h) (opened h) (nextid h) (bump h KOpen))
      | None =>
        match contents h nm with
        | None => (None, ev h ([1] ++ nm_code nm ++ [mode; 0; 1]) (outfiles h) (opened h) (nextid h) (bump h KOpen))     (* no such file *)
        | Some _ =>
          let id := nextid h in
          let ofs := match nm with FOut k => if mode =? MODE_WRITE then replace_nth (N.to_nat k) (outfiles h) [] else outfiles h | _ => outfiles h end in
          (Some id, ev h ([1] ++ nm_code nm ++ [mode; 1; id]) ofs ((id, {| oname := nm; omode := mode; opos := 0 |}) :: opened h) (id + 1) (bump h KOpen))
        end
      end
  | CClose x => (tt, ev h [2; x] (outfiles h) (filter (fun p => negb (fst p =? x)) (opened h)) (nextid h) (counts h))
  | CRead x n =>
      match lookup h x, faulty h KRead with
      | Some f, None =>
          let data := match contents h (oname f) with Some d => d | None => [] end in
          let chunk := firstn (Z.to_nat n) (skipn (N.to_nat (opos f)) data) in
          (RBytes chunk, ev h [3; x; zenc n; N.of_nat (length chunk)] (outfiles h)
                            (set_open h x {| oname := oname f; omode := omode f; opos := opos f + N.of_nat (length chunk) |})
                            (nextid h) (bump h KRead))
      | _, _ => (RErr, ev h [3; x; zenc n; 998] (outfiles h) (opened h) (nextid h) (bump h KRead))
      end
  | CWrite x d =>
      let n := N.of_nat (length d) in
      match lookup h x, faulty h KWrite with
      | Some f, None =>
          match oname f with
          | FOut k => let data := nth (N.to_nat k) (outfiles h) [] in
                      (Z.of_N n, ev h [4; x; n; n] (replace_nth (N.to_nat k) (outfiles h) (data ++ d)) (opened h) (nextid h) (bump h KWrite))
          | FIn _ => ((-1)%Z, ev h [4; x; n; 998] (outfiles h) (opened h) (nextid h) (bump h KWrite))
          end
      | Some f, Some 1 =>
          match oname f, d with
          | FOut k, _ :: _ => let data := nth (N.to_nat k) (outfiles h) [] in
                      (Z.of_N (n - 1), ev h [4; x; n; n - 1] (replace_nth (N.to_nat k) (outfiles h) (data ++ removelast d)) (opened h) (nextid h) (bump h KWrite))
          | _, _ => ((-1)%Z, ev h [4; x; n; 998] (outfiles h) (opened h) (nextid h) (bump h KWrite))
          end
      | _, _ => ((-1)%Z, ev h [4; x; n; 998] (outfiles h) (opened h) (nextid h) (bump h KWrite))
      end
  | CSeek x off whence =>
      match lookup h x, faulty h KSeek with
      | Some f, None =>
          let len := Z.of_nat (length (match contents h (oname f) with Some d => d | None => [] end)) in
          let base := if whence =? 0 then 0%Z else if whence =? 1 then Z.of_N (opos f) else len in
          let np := (base + off)%Z in
          if (np <? 0)%Z then (false, ev h [5; x; zenc off; whence; 0] (outfiles h) (opened h) (nextid h) (bump h KSeek))
          else (true, ev h [5; x; zenc off; whence; 1] (outfiles h)
                         (set_open h x {| oname := oname f; omode := omode f; opos := Z.to_N np |}) (nextid h) (bump h KSeek))
      | _, _ => (false, ev h [5; x; zenc off; whence; 0] (outfiles h) (opened h) (nextid h) (bump h KSeek))
      end
  | CTell x =>
      let p := match lookup h x with Some f => Z.of_N (opos f) | None => 0%Z end in
      (p, ev h [6; x; zenc p] (outfiles h) (opened h) (nextid h) (counts h))
  | CMsg x => (tt, ev h [7; match x with Some v => v + 1 | None => 0 end] (outfiles h) (opened h) (nextid h) (counts h))
  | CAlloc n =>
      match faulty h KAlloc with
      | Some _ => (None, ev h [8; zenc n; 0; 0] (outfiles h) (opened h) (nextid h) (bump h KAlloc))
      | None => (Some (nextid h), ev h [8; zenc n; 1; nextid h] (outfiles h) (opened h) (nextid h + 1) (bump h KAlloc))
      end
  | CFree p => (tt, ev h [9; match p with Some v => v + 1 | None => 0 end] (outfiles h) (opened h) (nextid h) (counts h))
  end.

Fixpoint exec {A} (h : hst) (p : prog A) : A * hst :=
  match p with Ret a => (a, h) | Do c k => let '(a, h') := hstep h c in exec h' (k a) end.

Definition host0 (ins : list (list byte)) (nout : nat) (fl : list (kind * N * N)) : hst :=
  {| infiles := ins; outfiles := repeat [] nout; opened := []; nextid := 1; counts := []; faults := fl; trace := [] |}.
Definition kind_of (k : N) : kind := match k with 0 => KOpen | 1 => KRead | 2 => KWrite | 3 => KSeek | _ => KAlloc end.
