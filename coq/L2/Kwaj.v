(* Callback-accurate port of kwajd.c: create / open (kwajd_read_headers with its two optional allocations) / extract (methods NONE,
   XOR, SZDD; LZH and MSZIP through an abstract decoder body) / close / decompress / destroy, as programs over mspack_system. *)
From Coq Require Import List NArith ZArith Bool.
Import ListNotations.
From MSP Require Import Gen.Consts Gen.Tables L2.Sys L2.Szdd.
Local Open Scope N_scope.

Definition le16 (l : list N) (o : nat) : N := nth o l 0 + 256 * nth (o + 1) l 0.
Definition has (flags bit : N) : bool := negb (N.land flags bit =? 0).
Fixpoint index0 (l : list N) (i : nat) : option nat := match l with [] => None | c :: r => if c =? 0 then Some i else index0 r (S i) end.

Record kself := { ksptr : ptr; kserr : N }.
(* what kwajd_read_headers has filled in when it returns (also on failure: kwajd_close releases whatever is set) *)
Record khdr := { khp : ptr; kfh : handle; kcomp : N; kdataoff : N; kheaders : N; klength : N;
                 kfn : option ptr; kname : list N; kex : option ptr; kextra : list N }.
Definition hdr0 (p : ptr) (fh : handle) : khdr :=
  {| khp := p; kfh := fh; kcomp := 0; kdataoff := 0; kheaders := 0; klength := 0; kfn := None; kname := []; kex := None; kextra := [] |}.
Definition set_fn (h : khdr) (fp : option ptr) (nm : list N) : khdr :=
  {| khp := khp h; kfh := kfh h; kcomp := kcomp h; kdataoff := kdataoff h; kheaders := kheaders h; klength := klength h;
     kfn := fp; kname := nm; kex := kex h; kextra := kextra h |}.
Definition set_ex (h : khdr) (ep : option ptr) (ex : list N) : khdr :=
  {| khp := khp h; kfh := kfh h; kcomp := kcomp h; kdataoff := kdataoff h; kheaders := kheaders h; klength := klength h;
     kfn := kfn h; kname := kname h; kex := ep; kextra := ex |}.
Definition set_len (h : khdr) (n : N) : khdr :=
  {| khp := khp h; kfh := kfh h; kcomp := kcomp h; kdataoff := kdataoff h; kheaders := kheaders h; klength := n;
     kfn := kfn h; kname := kname h; kex := kex h; kextra := kextra h |}.

(* one part of the 8.3 name: read up to maxlen bytes, copy up to the NUL, seek back behind it.  (error, characters) *)
Definition read_part (fh : handle) (maxlen : nat) : prog (N * list N) :=
  do! r <- call1 (CRead fh (Z.of_nat maxlen));
  match r with
  | RErr => Ret (MSPACK_ERR_READ, [])
  | RBytes buf =>
    let len := length buf in
    if (len <? 2)%nat then Ret (MSPACK_ERR_READ, []) else
    let i := match index0 buf 0 with Some i => i | None => len end in
    if (i =? maxlen)%nat then Ret (MSPACK_ERR_DATAFORMAT, []) else     (* maxlen bytes and none of them NUL *)
    do! ok <- call1 (CSeek fh (Z.of_nat i + 1 - Z.of_nat len) SEEK_CUR);
    if negb ok then Ret (MSPACK_ERR_SEEK, []) else
    (* fn--: the terminator is dropped; when the bytes ran out before a NUL the last byte copied is dropped instead *)
    Ret (MSPACK_ERR_OK, match index0 buf 0 with Some _ => firstn i buf | None => firstn (len - 1) buf end)
  end.

Definition read_headers (h0 : khdr) : prog (N * khdr) :=
  let fh := kfh h0 in
  do! r <- call1 (CRead fh (Z.of_N kwajh_SIZEOF));
  match r with
  | RErr => Ret (MSPACK_ERR_READ, h0)
  | RBytes buf =>
    if negb (length buf =? N.to_nat kwajh_SIZEOF)%nat then Ret (MSPACK_ERR_READ, h0) else
    if negb ((le32 buf 0 =? 1245796171) && (le32 buf 4 =? 3509055624)) then Ret (MSPACK_ERR_SIGNATURE, h0) else
    let flags := le16 buf 12 in
    let h1 := {| khp := khp h0; kfh := fh; kcomp := le16 buf 8; kdataoff := le16 buf 10; kheaders := flags; klength := 0;
                 kfn := None; kname := []; kex := None; kextra := [] |} in
    do! a <- (if has flags MSKWAJ_HDR_HASLENGTH then
                do! r <- call1 (CRead fh 4);
                match r with RBytes b => if (length b =? 4)%nat then Ret (MSPACK_ERR_OK, set_len h1 (le32 b 0)) else Ret (MSPACK_ERR_READ, h1) | RErr => Ret (MSPACK_ERR_READ, h1) end
              else Ret (MSPACK_ERR_OK, h1));
    let '(e1, h2) := a in if negb (e1 =? 0) then Ret (e1, h2) else
    do! e2 <- (if has flags MSKWAJ_HDR_HASUNKNOWN1 then
                 do! r <- call1 (CRead fh 2);
                 match r with RBytes b => if (length b =? 2)%nat then Ret MSPACK_ERR_OK else Ret MSPACK_ERR_READ | RErr => Ret MSPACK_ERR_READ end
               else Ret MSPACK_ERR_OK);
    if negb (e2 =? 0) then Ret (e2, h2) else
    do! e3 <- (if has flags MSKWAJ_HDR_HASUNKNOWN2 then
                 do! r <- call1 (CRead fh 2);
                 match r with
                 | RBytes b => if (length b =? 2)%nat then
                                 do! ok <- call1 (CSeek fh (Z.of_N (le16 b 0)) SEEK_CUR); Ret (if ok then MSPACK_ERR_OK else MSPACK_ERR_SEEK)
                               else Ret MSPACK_ERR_READ
                 | RErr => Ret MSPACK_ERR_READ end
               else Ret MSPACK_ERR_OK);
    if negb (e3 =? 0) then Ret (e3, h2) else
    do! b <- (if has flags MSKWAJ_HDR_HASFILENAME || has flags MSKWAJ_HDR_HASFILEEXT then
                do! fp <- call1 (CAlloc 13);
                match fp with
                | None => Ret (MSPACK_ERR_NOMEMORY, h2)
                | Some p =>
                  let h3 := set_fn h2 (Some p) [] in
                  do! n1 <- (if has flags MSKWAJ_HDR_HASFILENAME then read_part fh 9 else Ret (MSPACK_ERR_OK, []));
                  if negb (fst n1 =? 0) then Ret (fst n1, h3) else
                  do! n2 <- (if has flags MSKWAJ_HDR_HASFILEEXT then read_part fh 4 else Ret (MSPACK_ERR_OK, []));
                  if negb (fst n2 =? 0) then Ret (fst n2, h3) else
                  Ret (MSPACK_ERR_OK, set_fn h2 (Some p) (snd n1 ++ (if has flags MSKWAJ_HDR_HASFILEEXT then 46 :: snd n2 else [])))
                end
              else Ret (MSPACK_ERR_OK, h2));
    let '(e4, h4) := b in if negb (e4 =? 0) then Ret (e4, h4) else
    if has flags MSKWAJ_HDR_HASEXTRATEXT then
      do! r <- call1 (CRead fh 2);
      match r with
      | RBytes b2 =>
        if negb (length b2 =? 2)%nat then Ret (MSPACK_ERR_READ, h4) else
        let i := le16 b2 0 in
        do! ep <- call1 (CAlloc (Z.of_N i + 1));
        match ep with
        | None => Ret (MSPACK_ERR_NOMEMORY, h4)
        | Some q =>
          do! r2 <- call1 (CRead fh (Z.of_N i));
          match r2 with
          | RBytes ex => if (length ex =? N.to_nat i)%nat then Ret (MSPACK_ERR_OK, set_ex h4 (Some q) ex) else Ret (MSPACK_ERR_READ, set_ex h4 (Some q) [])
          | RErr => Ret (MSPACK_ERR_READ, set_ex h4 (Some q) [])
          end
        end
      | RErr => Ret (MSPACK_ERR_READ, h4)
      end
    else Ret (MSPACK_ERR_OK, h4)
  end.

Definition kwaj_close (s : kself) (h : khdr) : prog kself :=
  do! _ <- call1 (CClose (kfh h)); do! _ <- call1 (CFree (kfn h)); do! _ <- call1 (CFree (kex h)); do! _ <- call1 (CFree (Some (khp h)));
  Ret {| ksptr := ksptr s; kserr := MSPACK_ERR_OK |}.

Definition kwaj_open (s : kself) (name : fname) : prog (option khdr * kself) :=
  do! fh <- call1 (COpen name MODE_READ);
  match fh with
  | None => Ret (None, {| ksptr := ksptr s; kserr := MSPACK_ERR_OPEN |})
  | Some f =>
    do! hp <- call1 (CAlloc (Z.of_N sizeof_kwaj_header));
    match hp with
    | None => do! _ <- call1 (CClose f); Ret (None, {| ksptr := ksptr s; kserr := MSPACK_ERR_NOMEMORY |})
    | Some p =>
      do! r <- read_headers (hdr0 p f); let '(e, h) := r in
      if negb (e =? 0) then do! s' <- kwaj_close s h; Ret (None, {| ksptr := ksptr s; kserr := e |})
      else Ret (Some h, {| ksptr := ksptr s; kserr := MSPACK_ERR_OK |})
    end
  end.

Section Extract.
Variables (junk : byte) (fuel : nat).
(* the LZH and MSZIP decoders (init, decompress, free) are left abstract: programs over the two handles *)
Variables (lzh_body mszip_body : handle -> handle -> prog N).
Definition KWAJ_IN : Z := Z.of_N KWAJ_INPUT_SIZE.

Fixpoint copy_loop (n : nat) (fh outh : handle) (xor : bool) : prog N :=
  match n with O => Ret EFUEL | S n' =>
    do! r <- call1 (CRead fh KWAJ_IN);
    match r with
    | RErr => Ret MSPACK_ERR_READ
    | RBytes [] => Ret MSPACK_ERR_OK
    | RBytes l =>
      do! w <- call1 (CWrite outh (if xor then map (fun c => N.lxor c 255) l else l));
      if Z.eqb w (Z.of_nat (length l)) then copy_loop n' fh outh xor else Ret MSPACK_ERR_WRITE
    end
  end.

Definition kwaj_extract (s : kself) (h : khdr) (out : fname) : prog (N * kself) :=
  let fh := kfh h in
  do! ok <- call1 (CSeek fh (Z.of_N (kdataoff h)) SEEK_START);
  if negb ok then Ret (MSPACK_ERR_SEEK, {| ksptr := ksptr s; kserr := MSPACK_ERR_SEEK |}) else
  do! o <- call1 (COpen out MODE_WRITE);
  match o with
  | None => Ret (MSPACK_ERR_OPEN, {| ksptr := ksptr s; kserr := MSPACK_ERR_OPEN |})
  | Some oh =>
    do! e <- (if (kcomp h =? MSKWAJ_COMP_NONE) || (kcomp h =? MSKWAJ_COMP_XOR) then
                do! b <- call1 (CAlloc KWAJ_IN);
                match b with
                | None => Ret MSPACK_ERR_NOMEMORY
                | Some bp => do! e <- copy_loop fuel fh oh (kcomp h =? MSKWAJ_COMP_XOR); do! _ <- call1 (CFree (Some bp)); Ret e
                end
              else if kcomp h =? MSKWAJ_COMP_SZDD then lzss_decompress junk fuel fh oh KWAJ_IN LZSS_MODE_QBASIC
              else if kcomp h =? MSKWAJ_COMP_LZH then lzh_body fh oh
              else if kcomp h =? MSKWAJ_COMP_MSZIP then mszip_body fh oh
              else Ret MSPACK_ERR_DATAFORMAT);
    do! _ <- call1 (CClose oh); Ret (e, {| ksptr := ksptr s; kserr := e |})
  end.

Definition kwaj_decompress (s : kself) (inp out : fname) : prog (N * kself) :=
  do! r <- kwaj_open s inp; let '(h, s1) := r in
  match h with
  | None => Ret (kserr s1, s1)
  | Some hd => do! r2 <- kwaj_extract s1 hd out; let '(e, s2) := r2 in
               do! s3 <- kwaj_close s2 hd; Ret (e, {| ksptr := ksptr s3; kserr := e |})
  end.

Definition kwaj_new : prog (option kself) :=
  do! sp <- call1 (CAlloc (Z.of_N sizeof_kwaj_decompressor));
  Ret (match sp with Some p => Some {| ksptr := p; kserr := MSPACK_ERR_OK |} | None => None end).
Definition kwaj_destroy (s : kself) : prog unit := call1 (CFree (Some (ksptr s))).

(* script A: new; decompress(in0 -> out0); destroy.   result: (status, last_error) *)
Definition kscript_decompress : prog (N * N) :=
  do! so <- kwaj_new;
  match so with
  | None => Ret (98, 98)
  | Some s => do! r <- kwaj_decompress s (FIn 0) (FOut 0); let '(e, s') := r in
              do! _ <- kwaj_destroy s'; Ret (e, kserr s')
  end.
(* script B: new; open(in0); extract(out0), extract(out1) if open succeeded; close; destroy.
   result: statuses, then the header fields open() reported *)
Definition kscript_open_extract : prog (list N * option khdr) :=
  do! so <- kwaj_new;
  match so with
  | None => Ret ([98], None)
  | Some s =>
    do! r <- kwaj_open s (FIn 0); let '(h, s1) := r in
    match h with
    | None => do! _ <- kwaj_destroy s1; Ret ([kserr s1], None)
    | Some hd =>
      do! r1 <- kwaj_extract s1 hd (FOut 0); let '(e1, s2) := r1 in
      do! r2 <- kwaj_extract s2 hd (FOut 1); let '(e2, s3) := r2 in
      do! s4 <- kwaj_close s3 hd;
      do! _ <- kwaj_destroy s4; Ret ([0; e1; e2; kserr s4], Some hd)
    end
  end.
End Extract.

(* ---- drivers for the L2 correspondence (methods LZH / MSZIP are not driven: their bodies are abstract here) ---- *)
From MSP Require Import L2.Host.
Definition no_body (_ _ : handle) : prog N := Ret 97.
Definition run_kscript_decompress (input : list byte) (fl : list (N * N * N)) : N * N * list (list N) * list (list byte) :=
  let h0 := host0 [input] 2 (map (fun t => (kind_of (fst (fst t)), snd (fst t), snd t)) fl) in
  let '((e, le), h) := exec h0 (kscript_decompress 170 (S (length input)) no_body no_body) in
  (e, le, rev_append (trace h) [], outfiles h).
Definition run_kscript_open_extract (input : list byte) (fl : list (N * N * N)) : list N * list N * list (list N) * list (list byte) :=
  let h0 := host0 [input] 2 (map (fun t => (kind_of (fst (fst t)), snd (fst t), snd t)) fl) in
  let '((r, hd), h) := exec h0 (kscript_open_extract 170 (S (length input)) no_body no_body) in
  (r, match hd with Some x => [kcomp x; kdataoff x; kheaders x; klength x; N.of_nat (length (kname x)); N.of_nat (length (kextra x))] ++ kname x ++ kextra x | None => [] end,
   rev_append (trace h) [], outfiles h).
