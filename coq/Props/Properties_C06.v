(* C06 — OAB files and incremental patches decompress to the exact target.  Statements only.
   Model/Oab.v is the executable model of oabd.c + crc32.h (run against the C library by tools/props/C06.py).  The container
   is proved for every block list, padding, trailing data and buffer size, parametric in the LZX DELTA block decoder; the decoder
   itself (Model/Lzx.v, the port of lzxd.c) is tied to the C code by the correspondence only. *)
From Coq Require Import List NArith.
From MSP Require Import Gen.Consts Gen.Tables Model.Oab Proofs.OabP Props.OabSample.
Import ListNotations. Local Open Scope N_scope.

(* the LZX window: the smallest of 2^17..2^25 that holds the size oabd.c computes for the block (or 2^25) *)
Theorem C06_window_bits : forall size, let w := window_bits size in
  17 <= w <= 25 /\ (size <= 2 ^ 25 -> size <= 2 ^ w) /\ (17 < w -> 2 ^ (w - 1) < size).
Proof. exact window_bits_spec. Qed.
Print Assumptions C06_window_bits.

(* the CRC table regenerated from crc32.c is the reflected polynomial 0xEDB88320, and the running CRC does not depend on how
   the decoder cuts its output into write() calls *)
Theorem C06_crc_table : crc32_table_gen = map crc_byte (nrange 256 0).
Proof. exact crc_table_is_polynomial. Qed.
Print Assumptions C06_crc_table.
Theorem C06_crc_write_chunking : forall v chunks, crc32 v (concat chunks) = fold_left crc32 chunks v.
Proof. exact crc32_chunks. Qed.
Print Assumptions C06_crc_write_chunking.

(* decompress(): header + any list of stored / LZX blocks (each LZX block's stream and padding decoding to its data under the
   window the block size implies) + anything after them, read with any buffer size: the output is the concatenated data *)
Theorem C06_full_file : forall lzx buf_size bs bm trailing, 0 < buf_size -> bm < M32 -> total bs < M32 -> Forall (wf_blk lzx bm) bs ->
  oab_decompress lzx buf_size (le32b 3 ++ le32b 1 ++ le32b bm ++ le32b (total bs) ++ concat (map enc_blk bs) ++ trailing)
  = (MSPACK_ERR_OK, concat (map bdata bs)).
Proof. exact oab_decompress_correct. Qed.
Print Assumptions C06_full_file.

(* decompress_incremental(): the same for patches, each block decoded against the next reference bytes of the base file *)
Theorem C06_patch : forall lzx bs bm srcsize scrc tcrc trailing base_tail,
  bm < M32 -> srcsize < M32 -> scrc < M32 -> tcrc < M32 -> ptotal bs < M32 -> Forall (wf_pblk lzx (N.max bm patchblk_SIZEOF)) bs ->
  oab_patch lzx (le32b 3 ++ le32b 2 ++ le32b bm ++ le32b srcsize ++ le32b (ptotal bs) ++ le32b scrc ++ le32b tcrc ++ concat (map enc_pblk bs) ++ trailing)
            (concat (map pb_ref bs) ++ base_tail)
  = (MSPACK_ERR_OK, concat (map pb_data bs)).
Proof. exact oab_patch_correct. Qed.
Print Assumptions C06_patch.

(* non-vacuity: blocks produced by the generator the checks use meet wf_blk / wf_pblk with the LZX port as the decoder *)
Example C06_sample_blocks :
  wf_blk lzx_block 100 (Comp s_stream s_pad s_data) /\ wf_blk lzx_block 100 (Stored 12345 [1; 2; 3]) /\
  wf_pblk lzx_block 100 (mkPB p_stream s_pad p_ref p_data).
Proof. unfold wf_blk, wf_pblk. repeat split; try (vm_compute; reflexivity); vm_compute; discriminate. Qed.
