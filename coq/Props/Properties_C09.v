(* C09 — every allocation and file handle is released exactly once on every path.  Statements only.
   Model: L2/Szdd.v (callback-accurate port of szddd.c + lzssd.c); semantics: Proofs/Mon.v (monitor under an arbitrary host). *)
From stdpp Require Import gmap.
From Coq Require Import NArith.
From MSP Require Import L2.Sys L2.Szdd Proofs.Mon Proofs.SzddLedger.

(* [clean m]: no live allocation, no handle open for reading or writing, and the sticky flag [bad] never raised: nothing was
   freed or closed that was not live/open at that moment (so: exactly once), nothing was used after release.
   [oracle] is ANY function from call numbers to host answers: every input, every failure of any callback at any point, in any
   combination, and any byte counts returned by write. *)
Theorem C09_szdd_decompress_ledger : forall (o : oracle) junk fuel, clean (snd (run o mon0 (script_decompress junk fuel))).
Proof. exact szdd_script_decompress_clean. Qed.
Print Assumptions C09_szdd_decompress_ledger.

Theorem C09_szdd_open_extract_close_ledger : forall (o : oracle) junk fuel, clean (snd (run o mon0 (script_open_extract junk fuel))).
Proof. exact szdd_script_open_extract_clean. Qed.
Print Assumptions C09_szdd_open_extract_close_ledger.

(* ---- the KWAJ front end (L2/Kwaj.v = kwajd.c: open with its optional name / extra-text allocations, extract, close, decompress) ---- *)
From MSP Require Import L2.Kwaj Proofs.KwajLedger.
(* for every host; the LZH and MSZIP decoders are abstract programs assumed to leave the ledger as they found it *)
Theorem C09_kwaj_decompress_ledger : forall junk fuel (lzh mszip : handle -> handle -> prog N),
  (forall L R W fh oh, fh ∈ R -> oh ∈ W -> triple (st L R W) (lzh fh oh) (fun _ => st L R W)) ->
  (forall L R W fh oh, fh ∈ R -> oh ∈ W -> triple (st L R W) (mszip fh oh) (fun _ => st L R W)) ->
  forall o : oracle, clean (snd (run o mon0 (kscript_decompress junk fuel lzh mszip))).
Proof. exact kwaj_script_decompress_clean. Qed.
Theorem C09_kwaj_open_extract_close_ledger : forall junk fuel (lzh mszip : handle -> handle -> prog N),
  (forall L R W fh oh, fh ∈ R -> oh ∈ W -> triple (st L R W) (lzh fh oh) (fun _ => st L R W)) ->
  (forall L R W fh oh, fh ∈ R -> oh ∈ W -> triple (st L R W) (mszip fh oh) (fun _ => st L R W)) ->
  forall o : oracle, clean (snd (run o mon0 (kscript_open_extract junk fuel lzh mszip))).
Proof. exact kwaj_script_open_extract_clean. Qed.
Print Assumptions C09_kwaj_decompress_ledger.
Print Assumptions C09_kwaj_open_extract_close_ledger.
(* the assumption on the abstract decoders is satisfiable (the stand-in used by the correspondence driver) *)
Example C09_kwaj_bodies_exist : forall L R W fh oh, fh ∈ R -> oh ∈ W -> triple (st L R W) (no_body fh oh) (fun _ => st L R W).
Proof. intros. apply t_ret. auto. Qed.
