(* C09 — every allocation and file handle is released exactly once on every path.  Statements only.
   Model: L2/Szdd.v (callback-accurate port of szddd.c + lzssd.c); semantics: Proofs/Mon.v (monitor under an arbitrary host). *)
From stdpp Require Import gmap.
From Coq Require Import NArith.
From MSP Require Import L2.Sys L2.Szdd Proofs.Mon Proofs.SzddLedger.

(* [clean m]: no live allocation, no handle open for reading or writing, and the sticky flag [bad] never raised: nothing was
   freed or closed that was not live/open at that moment (so: exactly once), nothing was used after release.
   [oracle] is ANY function from call numbers to host answers: every input, every failure of any callback at any point, in any
   combination, and any byte counts returned by write. *)
Theorem C09_szdd_decompress_ledger : forall (o : oracle) junk fuel, clean (snd (run o mon0 (script_decompress junk fuel))).
Proof. exact szdd_script_decompress_clean. Qed.
Print Assumptions C09_szdd_decompress_ledger.

Theorem C09_szdd_open_extract_close_ledger : forall (o : oracle) junk fuel, clean (snd (run o mon0 (script_open_extract junk fuel))).
Proof. exact szdd_script_open_extract_clean. Qed.
Print Assumptions C09_szdd_open_extract_close_ledger.
