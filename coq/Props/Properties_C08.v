(* C08 — extraction results do not depend on what was extracted before.  Statements only.
   Model/Cache.v: the reuse rule of cabd_extract / chmd_extract (reuse the cached decoder iff same folder, requested offset not behind the
   cursor and a live decoder; otherwise rebuild from the folder start; decoder errors are permanent) over an abstract folder
   (plaintext + optional damage point + frame granularity of the decoder). *)
From Coq Require Import List NArith.
From MSP Require Import Model.Cache Proofs.CacheP.
Import ListNotations. Local Open Scope N_scope.

Theorem C08_extract_history_independent : forall f hist off len,
  fst (extract f (after f None hist) off len) = fresh f off len.
Proof. exact extract_history_independent. Qed.
Print Assumptions C08_extract_history_independent.

Theorem C08_intact_folder_exact : forall f hist off len,
  dmg f = None -> off + len <= N.of_nat (length (plain f)) -> 0 < len ->
  fst (extract f (after f None hist) off len) = (true, slice (plain f) off len).
Proof. exact intact_folder_exact. Qed.
Print Assumptions C08_intact_folder_exact.
