(* C08 — extraction results do not depend on what was extracted before.  Statements only.
   Model/Cache.v: the reuse rule of cabd_extract / chmd_extract (reuse the cached decoder iff same folder, requested offset not behind the
   cursor and a live decoder; otherwise rebuild from the folder start; decoder errors are permanent) over an abstract folder
   (plaintext + optional damage point + frame granularity of the decoder). *)
From Coq Require Import List NArith.
From MSP Require Import Model.Cache Proofs.CacheP.
Import ListNotations. Local Open Scope N_scope.

Theorem C08_extract_history_independent : forall f hist off len,
  fst (extract f (after f None hist) off len) = fresh f off len.
Proof. exact extract_history_independent. Qed.
Print Assumptions C08_extract_history_independent.

Theorem C08_intact_folder_exact : forall f hist off len,
  dmg f = None -> off + len <= N.of_nat (length (plain f)) -> 0 < len ->
  fst (extract f (after f None hist) off len) = (true, slice (plain f) off len).
Proof. exact intact_folder_exact. Qed.
Print Assumptions C08_intact_folder_exact.

(* ---- the real MSZIP port (Model/Mszip.v zcall = mszipd_decompress): a request can be split anywhere ---- *)
From MSP Require Import Base.Src Model.Mszip Proofs.MszipResume.
(* for every end-of-input rule, hint, input, stream state and split a + b: if the first a bytes are delivered with OK, then the
   combined request and the second request have the same result and leave the same input / output behind.  [nofuel] excludes the
   model's own loop-counter status 99, which is not a behaviour of the C code. *)
Theorem C08_mszip_decoder_resumable : forall rule hint a b z i z1 i1 rc ic r2 i2, zo z <= zend z ->
  ideal rule hint (zcall a z) i = (SVal (OK, false, z1), i1) ->
  ideal rule hint (zcall (a + b) z) i = (rc, ic) -> nofuel rc ->
  ideal rule hint (zcall b z1) i1 = (r2, i2) -> nofuel r2 ->
  rc = r2 /\ ic = i2.
Proof. exact zcall_resumable. Qed.
Print Assumptions C08_mszip_decoder_resumable.

(* the premises are met by real runs: 2 bytes, then 3 more, of a stored deflate block holding "hello" *)
Definition c08_sample : list N := [67; 75; 1; 5; 0; 250; 255; 104; 101; 108; 108; 111].
Example C08_mszip_sample :
  match ideal EofPad2 0 (zcall 2 zinit) {| irest := c08_sample ++ pad EofPad2; iout := [] |} with
  | (SVal (e, fl, z1), i1) =>
      e = OK /\ fl = false /\ rev (iout i1) = [104; 101] /\
      match ideal EofPad2 0 (zcall 3 z1) i1 with
      | (SVal (e2, _, _), i2) => e2 = OK /\ rev (iout i2) = [104; 101; 108; 108; 111]
      | _ => False end
  | _ => False end.
Proof. vm_compute. repeat split. Qed.

(* ---- whole extraction histories on the cabinet model (Model/Cab.v, tied to cabd.c), MSZIP folders ---- *)
From Coq Require Import ZArith.
From MSP Require Import Gen.Consts Model.Chm Model.Cab Proofs.CabP Proofs.CabHist Props.CabSampleZ.
(* one decompressor, any list of members of one MSZIP folder each starting at or after the end of the one before, any DECOMPBUF, strict or
   salvage: every call returns the status and the bytes a fresh decompressor returns for that member.  [good f]: f belongs to the folder,
   passes cabd_extract's size checks, is not empty, and the ideal run of the decoder over the folder's blocks up to f's end succeeds. *)
Theorem C08_mszip_history_independent : forall file par cab, 0 < p_bufsize par ->
  forall fidx fo pre post bs, nth_error (c_folders cab) (N.to_nat fidx) = Some fo -> ctype (fo_comp fo) = cffoldCOMPTYPE_MSZIP ->
  file = pre ++ encs bs ++ post -> fo_offset fo = Z.of_N (Chm.len pre) -> N.of_nat (length bs) = fo_nblocks fo -> Forall (wf_blk (c_bres cab)) bs ->
  forall fs, bs <> [] -> ordered 0 fs -> Forall (good par fidx fo bs) fs ->
  seq_extract file par cab cs_init fs = map (fun f => let '(e, o, _) := extract file par cab cs_init f in (e, o)) fs.
Proof. exact mszip_history_independent. Qed.
Print Assumptions C08_mszip_history_independent.

(* the premises hold of a generated cabinet: one MSZIP folder, three members, all three in order *)
Example C08_mszip_history_sample : exists cab fo f0 f1 f2,
  cab_open zsample_cab false = (MSPACK_ERR_OK, Some cab) /\ c_files cab = [f0; f1; f2] /\ nth_error (c_folders cab) 0 = Some fo /\
  ctype (fo_comp fo) = cffoldCOMPTYPE_MSZIP /\
  zsample_cab = firstn (N.to_nat zsample_dataoff) zsample_cab ++ encs zsample_blocks ++ zsample_post /\
  fo_offset fo = Z.of_N (Chm.len (firstn (N.to_nat zsample_dataoff) zsample_cab)) /\ N.of_nat (length zsample_blocks) = fo_nblocks fo /\
  Forall (wf_blk (c_bres cab)) zsample_blocks /\ ordered 0 [f0; f1; f2] /\
  Forall (good (mkPar false false 4096) 0 fo zsample_blocks) [f0; f1; f2] /\
  map snd (seq_extract zsample_cab (mkPar false false 4096) cab cs_init [f0; f1; f2]) = [firstn 7 zsample_plain; firstn 20 (skipn 7 zsample_plain); skipn 27 zsample_plain].
Proof.
  eexists. eexists. eexists. eexists. eexists. split; [vm_compute; reflexivity|]. split; [reflexivity|]. split; [reflexivity|].
  split; [vm_compute; reflexivity|]. split; [vm_compute; reflexivity|]. split; [vm_compute; reflexivity|]. split; [vm_compute; reflexivity|].
  split. { constructor; [|constructor]. unfold wf_blk. repeat split; try (vm_compute; reflexivity); try (vm_compute; discriminate). right. vm_compute. reflexivity. }
  split. { cbn [ordered]. repeat split; vm_compute; discriminate. }
  split. { repeat constructor; try (vm_compute; reflexivity); try (vm_compute; discriminate); eexists; vm_compute; reflexivity. }
  vm_compute. reflexivity.
Qed.

(* ---- the real LZX port (Model/Lzx.v: decompress = lzxd_decompress) with the output length known from the start (CHM, OAB, DELTA; 0 =
        never known).  A decoder that has handed out a bytes and is asked for b more does exactly what a decoder asked for a + b at
        once does: same bytes written, same status, same decoder state afterwards.  `Core L` is the frame / offset bookkeeping
        invariant of Proofs/LzxSafe.v: it holds after lzxd_init and after every call (C08_lzx_invariant_kept), so the statement
        applies along any sequence of calls; nofuel excludes the model's own loop-counter status 99. ---- *)
From MSP Require Model.Lzx Proofs.LzxSafe Proofs.LzxResume Props.OabSample.
Theorem C08_lzx_decoder_resumable : forall rule L a b s i s1 i1 rc ic r2 i2,
  LzxSafe.Core L s -> Lzx.err s = 0 -> LzxSafe.Dd s + (a + b) < 70368744177664 ->
  ideal rule L (Lzx.decompress a s) i = (SVal (inr (tt, s1)), i1) ->
  ideal rule L (Lzx.decompress (a + b) s) i = (rc, ic) -> LzxResume.nofuel rc ->
  ideal rule L (Lzx.decompress b s1) i1 = (r2, i2) -> LzxResume.nofuel r2 ->
  rc = r2 /\ ic = i2.
Proof. exact LzxResume.decompress_resumable. Qed.
Print Assumptions C08_lzx_decoder_resumable.
(* the same for one lzxd_decompress call with its sticky error, as the CHM and OAB models use it (Model/Chm.v extract: skip to the
   member's offset, then its bytes): a call for a bytes that returns OK followed by a call for b bytes = one call for a + b *)
Theorem C08_lzx_call_resumable : forall L s i a b s1 i1 st2 s2 i2 stc sc ic,
  LzxSafe.Core L s -> Lzx.err s = 0 -> LzxSafe.Dd s + (a + b) < 70368744177664 ->
  Lzx.lzx_call L s i a = (0, s1, i1) ->
  Lzx.lzx_call L s1 i1 b = (st2, s2, i2) -> st2 <> 99 ->
  Lzx.lzx_call L s i (a + b) = (stc, sc, ic) -> stc <> 99 ->
  stc = st2 /\ ic = i2 /\ (stc = 0 -> sc = s2).
Proof. exact LzxResume.lzx_call_resumable. Qed.
Print Assumptions C08_lzx_call_resumable.
(* exactly the two calls chmd_extract makes for a member of the compressed section while it keeps its decoder (Model/Chm.v extract:
   lzx_call skip with the output discarded, then lzx_call length): status, bytes and final decoder state are those of ONE call for
   skip + length bytes, of whose output the member is the tail - whatever was extracted before with this decoder *)
Theorem C08_chm_skip_then_extract : forall L lz inp skip ln lz1 inp1 e2 lz2 inp2 ec lzc inpc,
  LzxSafe.Core L lz -> Lzx.err lz = 0 -> LzxSafe.Dd lz + (skip + ln) < 70368744177664 ->
  Lzx.lzx_call L lz inp skip = (0, lz1, inp1) ->
  Lzx.lzx_call L lz1 (LzxResume.clr inp1) ln = (e2, lz2, inp2) -> e2 <> 99 ->
  Lzx.lzx_call L lz inp (skip + ln) = (ec, lzc, inpc) -> ec <> 99 ->
  ec = e2 /\ irest inpc = irest inp2 /\ iout inpc = iout inp2 ++ iout inp1 /\ (ec = 0 -> lzc = lz2).
Proof. exact LzxResume.lzx_skip_then_extract. Qed.
Print Assumptions C08_chm_skip_then_extract.
Theorem C08_lzx_invariant_kept : forall L wb ri delta ref, 15 <= wb <= 25 ->
  LzxSafe.InvL L (Lzx.lzx_init wb ri delta ref) /\
  forall s i n st s' i', LzxSafe.InvL L s -> LzxSafe.Dd s + n < 70368744177664 -> Lzx.lzx_call L s i n = (st, s', i') -> LzxSafe.InvL L s'.
Proof.
  intros L wb ri delta ref Hw. split; [exact (proj1 (LzxSafe.init_invL L wb ri delta ref Hw))|].
  intros s i n st s' i' HI Hb E. exact (proj1 (proj2 (LzxSafe.lzx_call_safeL L s i n st s' i' HI Hb E))).
Qed.
Print Assumptions C08_lzx_invariant_kept.
(* non-vacuity: on the generated DELTA stream the first call succeeds from the initial state, and 10 + 50 bytes asked in two calls are the
   60 bytes asked in one *)
Example C08_lzx_sample : let n := N.of_nat (length OabSample.s_data) in
  fst (Lzx.lzx_run 17 0 n true [] (OabSample.s_stream ++ OabSample.s_pad) [10; n - 10]) = [0; 0] /\
  snd (Lzx.lzx_run 17 0 n true [] (OabSample.s_stream ++ OabSample.s_pad) [10; n - 10]) = snd (Lzx.lzx_run 17 0 n true [] (OabSample.s_stream ++ OabSample.s_pad) [n]).
Proof. split; vm_compute; reflexivity. Qed.

(* The property as stated is FALSE of the model of chmd_extract (and of chmd.c: the recorded finding chm-skip-through-damaged-interval) for
   helpfiles with a damaged reset interval: on the generated helpfile below (a reset point every frame; the first bytes of the second
   interval overwritten) the member /c4.bin, which lies in the third, intact interval, is refused after /c0.bin has been extracted - the
   live decoder skips forward through the damage - while a fresh decompressor, which starts at the member's own reset point, delivers its
   900 bytes.  The same file and calls are run on the C library by tools/props/C08.py (model and C agree on both sessions). *)
From MSP Require Props.ChmDamageSample.
Definition c08_last (r : N * option (hdr * list ent * list ent) * list opres) : option opres := last (map Some (snd r)) None.
Theorem C08_chm_history_independence_refuted_for_damaged_interval :
  exists file hist m,
    c08_last (chm_session file true (hist ++ [OpExtract m])) = Some (RExtract 11 []) /\
    c08_last (chm_session file true [OpExtract m]) = Some (RExtract 0 (repeat 0 900)).
Proof.
  exists ChmDamageSample.damaged_chm, [OpExtract ChmDamageSample.idx_c0], ChmDamageSample.idx_c4. split; vm_compute; reflexivity.
Qed.
Print Assumptions C08_chm_history_independence_refuted_for_damaged_interval.
