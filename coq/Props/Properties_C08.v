(* C08 — extraction results do not depend on what was extracted before.  Statements only.
   Model/Cache.v: the reuse rule of cabd_extract / chmd_extract (reuse the cached decoder iff same folder, requested offset not behind the
   cursor and a live decoder; otherwise rebuild from the folder start; decoder errors are permanent) over an abstract folder
   (plaintext + optional damage point + frame granularity of the decoder). *)
From Coq Require Import List NArith.
From MSP Require Import Model.Cache Proofs.CacheP.
Import ListNotations. Local Open Scope N_scope.

Theorem C08_extract_history_independent : forall f hist off len,
  fst (extract f (after f None hist) off len) = fresh f off len.
Proof. exact extract_history_independent. Qed.
Print Assumptions C08_extract_history_independent.

Theorem C08_intact_folder_exact : forall f hist off len,
  dmg f = None -> off + len <= N.of_nat (length (plain f)) -> 0 < len ->
  fst (extract f (after f None hist) off len) = (true, slice (plain f) off len).
Proof. exact intact_folder_exact. Qed.
Print Assumptions C08_intact_folder_exact.

(* ---- the real MSZIP port (Model/Mszip.v zcall = mszipd_decompress): a request can be split anywhere ---- *)
From MSP Require Import Base.Src Model.Mszip Proofs.MszipResume.
(* for every end-of-input rule, hint, input, stream state and split a + b: if the first a bytes are delivered with OK, then the
   combined request and the second request have the same result and leave the same input / output behind.  [nofuel] excludes the
   model's own loop-counter status 99, which is not a behaviour of the C code. *)
Theorem C08_mszip_decoder_resumable : forall rule hint a b z i z1 i1 rc ic r2 i2, zo z <= zend z ->
  ideal rule hint (zcall a z) i = (SVal (OK, false, z1), i1) ->
  ideal rule hint (zcall (a + b) z) i = (rc, ic) -> nofuel rc ->
  ideal rule hint (zcall b z1) i1 = (r2, i2) -> nofuel r2 ->
  rc = r2 /\ ic = i2.
Proof. exact zcall_resumable. Qed.
Print Assumptions C08_mszip_decoder_resumable.

(* the premises are met by real runs: 2 bytes, then 3 more, of a stored deflate block holding "hello" *)
Definition c08_sample : list N := [67; 75; 1; 5; 0; 250; 255; 104; 101; 108; 108; 111].
Example C08_mszip_sample :
  match ideal EofPad2 0 (zcall 2 zinit) {| irest := c08_sample ++ pad EofPad2; iout := [] |} with
  | (SVal (e, fl, z1), i1) =>
      e = OK /\ fl = false /\ rev (iout i1) = [104; 101] /\
      match ideal EofPad2 0 (zcall 3 z1) i1 with
      | (SVal (e2, _, _), i2) => e2 = OK /\ rev (iout i2) = [104; 101; 108; 108; 111]
      | _ => False end
  | _ => False end.
Proof. vm_compute. repeat split. Qed.
