(* C03 — CHM listing and extraction reproduce every stored file exactly.  Statements only.
   Model/Chm.v is the executable model of chmd.c (headers, directory chunks, ENCINTs, system files, reset-point selection,
   extraction from both sections); it is run against the C library on every check (tools/props/C03.py).  Proved here: the
   directory side in full generality; the section-0 copy; the arithmetic of reset-point selection.  Not proved: that LZX decoding
   from a reset point equals decoding from the start of the stream (the LZX port is tied to lzxd.c by the correspondence only). *)
From Coq Require Import List NArith ZArith.
From MSP Require Import Gen.Consts Gen.Tables Model.Chm Proofs.ChmEnc Proofs.ChmExt Props.ChmSample.
Import ListNotations. Local Open Scope N_scope.

(* every value a 64-bit off_t can hold, in its ENCINT encoding and followed by anything, is read back exactly *)
Theorem C03_encint_roundtrip : forall v rest, v < 9223372036854775808 -> read_encint (encint v ++ rest) = Some (v, rest).
Proof. exact read_encint_enc. Qed.
Print Assumptions C03_encint_roundtrip.

(* a PMGL chunk: whatever entries were encoded into it (names of any bytes and length, any section number, offsets and lengths
   below 2^63, any free space and quick-reference area) are listed back in order - minus exactly the entries chmd.c means to
   drop (names shorter than two bytes or starting with NUL, directory names, sections other than 0 and 1) *)
Theorem C03_chunk_lists_its_entries : forall cs qr unk prev next es fq,
  Forall wf_ent es -> N.of_nat (length es) < 65536 -> len (mk_pmgl qr unk prev next es fq) = cs ->
  list_chunk cs (mk_pmgl qr unk prev next es fq) false = (filter keepE es, 0).
Proof. exact list_chunk_pmgl. Qed.
Print Assumptions C03_chunk_lists_its_entries.

(* open(): if the fixed headers read as h and chunks first_pmgl..last_pmgl of the file are PMGL chunks holding the entry lists
   of descs, the listing is exactly those entries: user files in directory order, '::' system files separately *)
Theorem C03_open_lists_exactly_the_directory : forall file h descs,
  read_hdr file = (MSPACK_ERR_OK, Some h) ->
  N.of_nat (length descs) = h_last_pmgl h - h_first_pmgl h + 1 -> N.of_nat (length descs) < M32 -> descs <> [] ->
  (forall i d, nth_error descs i = Some d ->
     rd file (h_dir_offset h + Z.of_N ((h_first_pmgl h + N.of_nat i) * h_chunk_size h))%Z (h_chunk_size h) = Some (chunk_of d) /\ wf_pmgl (h_chunk_size h) d) ->
  chm_open file true = (MSPACK_ERR_OK, Some (h, filter user (concat (map kept descs)), rev (filter sysb (concat (map kept descs))))).
Proof. exact chm_open_lists. Qed.
Print Assumptions C03_open_lists_exactly_the_directory.

(* a file of the uncompressed section is exactly the bytes at sec0.offset + offset, whatever the decompression state *)
Theorem C03_section0_extract_exact : forall lower file h s off ln d, ln <> 0 ->
  rd file (h_sec0_offset h + Z.of_N off)%Z ln = Some d -> len d = ln -> extract lower file h s 0 off ln = (MSPACK_ERR_OK, d, s).
Proof. exact extract_sec0. Qed.
Print Assumptions C03_section0_extract_exact.

(* the reset point chosen for a file at uncompressed offset foff: a multiple of the reset interval, at or before the file, less
   than one interval before it; and the stream length is rounded up to the interval *)
Theorem C03_reset_point : forall foff ri, (0 < ri)%Z -> (ri mod 32768 = 0)%Z ->
  let entry := (cdiv (Z.of_N foff) ri * cdiv ri 32768)%Z in
  (entry * 32768 = Z.of_N foff / ri * ri /\ entry * 32768 <= Z.of_N foff < entry * 32768 + ri)%Z.
Proof. exact reset_point_spec. Qed.
Print Assumptions C03_reset_point.

(* non-vacuity: the sample CHM (built by the generator the checks use) meets the hypotheses of the listing theorem *)
Example C03_sample_meets_hypotheses :
  exists h, read_hdr sample_chm = (MSPACK_ERR_OK, Some h) /\
    N.of_nat (length sample_pmgls) = h_last_pmgl h - h_first_pmgl h + 1 /\
    (forall i d, nth_error sample_pmgls i = Some d ->
       rd sample_chm (h_dir_offset h + Z.of_N ((h_first_pmgl h + N.of_nat i) * h_chunk_size h))%Z (h_chunk_size h) = Some (chunk_of d) /\ wf_pmgl (h_chunk_size h) d).
Proof. exact sample_hyps. Qed.
