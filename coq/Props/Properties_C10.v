(* C10 — host failures are reported, never turned into silent corruption.  Statements only.
   Monitor semantics (Proofs/Mon.v): [hfail m] is raised when the host fails a call: open/alloc answer NULL, read answers an error,
   write accepts a number of bytes different from the bytes offered (short writes included), seek fails.  [oracle] = any host. *)
From stdpp Require Import gmap.
From Coq Require Import List NArith ZArith.
From MSP Require Import Gen.Consts Gen.Tables L2.Sys L2.Szdd Proofs.Mon Proofs.SzddC10.
Import ListNotations. Local Open Scope N_scope.

(* create; decompress(in, out); destroy on the SZDD front end + LZSS decoder, for EVERY host:
   last_error() equals the returned status, and a returned MSPACK_ERR_OK means that no callback failed during the whole script
   (so with a deterministic host the run IS the failure-free run). *)
Theorem C10_szdd_decompress_reports_failures : forall (o : oracle) junk fuel,
  let '((e, le), m) := run o mon0 (script_decompress junk fuel) in
  le = e /\ (e = MSPACK_ERR_OK -> hfail m = false).
Proof. exact szdd_decompress_reports_failures. Qed.
Print Assumptions C10_szdd_decompress_reports_failures.

(* a file at least as long as the signature whose first 8 bytes are neither SZDD signature is refused with MSPACK_ERR_SIGNATURE *)
Theorem C10_szdd_bad_signature_refused : forall (o : oracle) m fh buf,
  o (nxt m) (CRead fh 8) = RBytes buf -> length buf = 8%nat ->
  list_eqb buf szdd_sig_expand = false -> list_eqb buf szdd_sig_qbasic = false ->
  fst (fst (fst (fst (run o m (read_headers fh))))) = MSPACK_ERR_SIGNATURE.
Proof. exact szdd_bad_signature_refused. Qed.
Print Assumptions C10_szdd_bad_signature_refused.

(* ---- the KWAJ front end.  [rep okN false p] (Proofs/Rep.v): on every path of p, a host failure on the way makes the result non-OK ---- *)
From MSP Require Import L2.Kwaj Proofs.Rep Proofs.KwajC10.
Theorem C10_kwaj_decompress_reports_failures : forall junk fuel (lzh mszip : handle -> handle -> prog N),
  (forall fh oh, rep okN false (lzh fh oh)) -> (forall fh oh, rep okN false (mszip fh oh)) ->
  forall o : oracle,
  let '((e, le), m) := run o mon0 (kscript_decompress junk fuel lzh mszip) in
  le = e /\ (e = MSPACK_ERR_OK -> hfail m = false).
Proof. exact kwaj_decompress_reports_failures. Qed.
Print Assumptions C10_kwaj_decompress_reports_failures.
Theorem C10_kwaj_bad_signature_refused : forall (o : oracle) m h0 buf,
  o (nxt m) (CRead (kfh h0) (Z.of_N kwajh_SIZEOF)) = RBytes buf -> length buf = N.to_nat kwajh_SIZEOF ->
  (le32 buf 0 =? 1245796171) && (le32 buf 4 =? 3509055624) = false ->
  fst (fst (run o m (read_headers h0))) = MSPACK_ERR_SIGNATURE.
Proof. exact kwaj_bad_signature_refused. Qed.
Print Assumptions C10_kwaj_bad_signature_refused.
Example C10_kwaj_bodies_exist : forall fh oh, rep okN false (no_body fh oh).
Proof. intros. cbn. discriminate. Qed.
