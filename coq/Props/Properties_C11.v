(* C11 — results depend only on the input: no uninitialised memory reaches any output.  Statements only.
   In L2/Szdd.v every read of a window cell the decoder has not written yields the parameter [junk] (what the allocator happened
   to hand out); lzss_decompress starts from the image of memset(window, 0x20, 4096). *)
From stdpp Require Import gmap.
From Coq Require Import NArith.
From MSP Require Import L2.Sys L2.Szdd Proofs.Mon Proofs.SzddJunk.

(* For every host and any two contents of fresh memory: the complete run - result, last_error, every callback in order with its
   arguments (hence every byte written), final ledger - is identical. *)
Theorem C11_szdd_decompress_junk_independent : forall (o : oracle) j1 j2 fuel,
  run o mon0 (script_decompress j1 fuel) = run o mon0 (script_decompress j2 fuel).
Proof. exact szdd_junk_independent. Qed.
Print Assumptions C11_szdd_decompress_junk_independent.

Theorem C11_szdd_open_extract_junk_independent : forall (o : oracle) j1 j2 fuel,
  run o mon0 (script_open_extract j1 fuel) = run o mon0 (script_open_extract j2 fuel).
Proof. exact szdd_open_extract_junk_independent. Qed.
Print Assumptions C11_szdd_open_extract_junk_independent.

From MSP Require Import L2.Kwaj Proofs.KwajJunk.
(* the KWAJ front end: header reader, NONE / XOR copy loop, SZDD method; the LZH / MSZIP decoders are parameters (the same program on both sides) *)
Theorem C11_kwaj_decompress_junk_independent : forall fuel lzh mszip (o : oracle) j1 j2,
  run o mon0 (kscript_decompress j1 fuel lzh mszip) = run o mon0 (kscript_decompress j2 fuel lzh mszip).
Proof. exact kwaj_junk_independent. Qed.
Theorem C11_kwaj_open_extract_junk_independent : forall fuel lzh mszip (o : oracle) j1 j2,
  run o mon0 (kscript_open_extract j1 fuel lzh mszip) = run o mon0 (kscript_open_extract j2 fuel lzh mszip).
Proof. exact kwaj_open_extract_junk_independent. Qed.
Print Assumptions C11_kwaj_decompress_junk_independent.
Print Assumptions C11_kwaj_open_extract_junk_independent.
