(* C19 — separate instances are independent.  Statements only.
   A data race is a run-time event; what can be stated about the code is that there is no shared mutable state to race on.
   Gen/Globals.v is regenerated from the working tree on every run: every symbol with static storage duration in the library's objects
   (nm), whether it lives in a writable section, how many stores the source makes to it and how often its address reaches a non-const
   pointer (clang AST). *)
From Coq Require Import List NArith String Bool.
From MSP Require Import Gen.Globals Proofs.GlobalsP.

Theorem C19_no_shared_mutable_state : forallb gok globals = true.
Proof. exact no_shared_mutable_state. Qed.
Print Assumptions C19_no_shared_mutable_state.

Theorem C19_tables_present_and_readonly :
  (has "lzxd" "position_base" && has "lzxd" "extra_bits" && has "qtmd" "position_base" && has "mszipd" "lit_lengths" && has "crc32" "crc32_table" && has "chmd" "guids")%bool = true.
Proof. exact tables_present_and_readonly. Qed.
Print Assumptions C19_tables_present_and_readonly.
