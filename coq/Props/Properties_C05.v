(* C05 — SZDD/KWAJ payloads are expanded exactly (LZSS part).  Statements only. *)
From Coq Require Import List NArith.
From MSP Require Import Model.LzssBase Model.Lzss Model.LzssEnc Proofs.LzssRefine Proofs.LzssRound.
Import ListNotations. Local Open Scope N_scope.

(* every dialect (mode 0 = EXPAND, 1 = MS help (inverted control bits), 2 = QBasic/KWAJ), every
   well-formed token stream: the pure decoder inverts the encoder *)
Theorem C05_lzss_roundtrip : forall mode ts, forallb wf_tok ts = true ->
  lzss_spec mode (lzss_enc mode ts) =
  rev (sout (expand {| swin := Emp; spos := start_pos mode; sout := [] |} ts)).
Proof. exact lzss_roundtrip. Qed.
Print Assumptions C05_lzss_roundtrip.

(* the callback-driven port of lzss_decompress, on an honest host with ANY input buffer size, computes
   the pure decoder's output and returns OK, within fuel = |input|+1 loop iterations *)
Theorem C05_lzss_impl_refines_spec : forall inh outh bufsize, 0 < bufsize -> forall mode inp,
  exists h', exec {| rem := inp; out := [] |} (lzss_impl inh outh bufsize (S (length inp)) mode) = (OK, h') /\
             rev (out h') = lzss_spec mode inp.
Proof. exact lzss_impl_refines_spec. Qed.
Print Assumptions C05_lzss_impl_refines_spec.

Theorem C05_lzss_end_to_end : forall inh outh bufsize mode ts, 0 < bufsize -> forallb wf_tok ts = true ->
  exists h', exec {| rem := lzss_enc mode ts; out := nil |}
                  (lzss_impl inh outh bufsize (S (length (lzss_enc mode ts))) mode) = (OK, h') /\
             rev (out h') = rev (sout (expand {| swin := Emp; spos := start_pos mode; sout := nil |} ts)).
Proof.
  intros inh outh bufsize mode ts Hb Hwf.
  destruct (lzss_impl_refines_spec inh outh bufsize Hb mode (lzss_enc mode ts)) as (h' & E & Ho).
  exists h'. split; [exact E|]. rewrite Ho. apply lzss_roundtrip. exact Hwf.
Qed.
Print Assumptions C05_lzss_end_to_end.

(* ---- the KWAJ file format (Model/Kwaj.v, tied to kwajd.c by the correspondence check) ---- *)
From MSP Require Import Gen.Consts Model.Chm Model.Kwaj Proofs.KwajP.

(* kwajd_read_headers reads back every header a writer can produce: any combination of the six optional fields
   (length, two unknown areas, name, extension, extra text), any higher flag bits, any data after the header *)
Theorem C05_kwaj_headers_read_back : forall s rest, wf_kspec s rest ->
  kwaj_open (enc_kwaj s ++ rest) = (MSPACK_ERR_OK, Some (khdr_of s)).
Proof. exact kwaj_open_enc. Qed.
Print Assumptions C05_kwaj_headers_read_back.
Example C05_kwaj_sample : wf_kspec kspec_sample [200; 201].
Proof. exact kspec_sample_wf. Qed.

(* whole file, stored / XOR / SZDD methods: the member is exactly the payload, its complement, its LZSS expansion *)
Theorem C05_kwaj_stored_file : forall s rest, wf_kspec s rest -> ks_dataoff s = len (enc_kwaj s) -> ks_comp s = MSKWAJ_COMP_NONE ->
  kwaj_open (enc_kwaj s ++ rest) = (MSPACK_ERR_OK, Some (khdr_of s)) /\ kwaj_extract (enc_kwaj s ++ rest) (khdr_of s) = (MSPACK_ERR_OK, rest).
Proof. exact kwaj_file_none. Qed.
Print Assumptions C05_kwaj_stored_file.
Theorem C05_kwaj_xor_file_roundtrip : forall s plain, wf_kspec s (map (fun c => N.lxor c 255) plain) ->
  ks_dataoff s = len (enc_kwaj s) -> ks_comp s = MSKWAJ_COMP_XOR ->
  kwaj_extract (enc_kwaj s ++ map (fun c => N.lxor c 255) plain) (khdr_of s) = (MSPACK_ERR_OK, plain).
Proof. exact kwaj_xor_roundtrip. Qed.
Print Assumptions C05_kwaj_xor_file_roundtrip.
Theorem C05_kwaj_szdd_file_roundtrip : forall s ts, wf_kspec s (lzss_enc LZSS_MODE_QBASIC ts) ->
  ks_dataoff s = len (enc_kwaj s) -> ks_comp s = MSKWAJ_COMP_SZDD -> forallb wf_tok ts = true ->
  kwaj_extract (enc_kwaj s ++ lzss_enc LZSS_MODE_QBASIC ts) (khdr_of s) =
  (MSPACK_ERR_OK, rev (sout (expand {| swin := Emp; spos := start_pos LZSS_MODE_QBASIC; sout := [] |} ts))).
Proof.
  intros s ts Hwf Hd Hc Ht. rewrite (proj2 (kwaj_file_szdd s _ Hwf Hd Hc)). f_equal. apply lzss_roundtrip. exact Ht.
Qed.
Print Assumptions C05_kwaj_szdd_file_roundtrip.
