(* C05 — SZDD/KWAJ payloads are expanded exactly (LZSS part).  Statements only. *)
From Coq Require Import List NArith.
From MSP Require Import Model.LzssBase Model.Lzss Model.LzssEnc Proofs.LzssRefine Proofs.LzssRound.
Import ListNotations. Local Open Scope N_scope.

(* every dialect (mode 0 = EXPAND, 1 = MS help (inverted control bits), 2 = QBasic/KWAJ), every
   well-formed token stream: the pure decoder inverts the encoder *)
Theorem C05_lzss_roundtrip : forall mode ts, forallb wf_tok ts = true ->
  lzss_spec mode (lzss_enc mode ts) =
  rev (sout (expand {| swin := Emp; spos := start_pos mode; sout := [] |} ts)).
Proof. exact lzss_roundtrip. Qed.
Print Assumptions C05_lzss_roundtrip.

(* the callback-driven port of lzss_decompress, on an honest host with ANY input buffer size, computes
   the pure decoder's output and returns OK, within fuel = |input|+1 loop iterations *)
Theorem C05_lzss_impl_refines_spec : forall inh outh bufsize, 0 < bufsize -> forall mode inp,
  exists h', exec {| rem := inp; out := [] |} (lzss_impl inh outh bufsize (S (length inp)) mode) = (OK, h') /\
             rev (out h') = lzss_spec mode inp.
Proof. exact lzss_impl_refines_spec. Qed.
Print Assumptions C05_lzss_impl_refines_spec.

Theorem C05_lzss_end_to_end : forall inh outh bufsize mode ts, 0 < bufsize -> forallb wf_tok ts = true ->
  exists h', exec {| rem := lzss_enc mode ts; out := nil |}
                  (lzss_impl inh outh bufsize (S (length (lzss_enc mode ts))) mode) = (OK, h') /\
             rev (out h') = rev (sout (expand {| swin := Emp; spos := start_pos mode; sout := nil |} ts)).
Proof.
  intros inh outh bufsize mode ts Hb Hwf.
  destruct (lzss_impl_refines_spec inh outh bufsize Hb mode (lzss_enc mode ts)) as (h' & E & Ho).
  exists h'. split; [exact E|]. rewrite Ho. apply lzss_roundtrip. exact Hwf.
Qed.
Print Assumptions C05_lzss_end_to_end.
