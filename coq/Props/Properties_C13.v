(* C13 — cabinet sets join consistently in any order.  Statements only.
   Model/Merge.v: cabd_merge at the level of the folder and file lists it builds (folder identities unique across the set). *)
From Coq Require Import List NArith.
From MSP Require Import Model.Merge Proofs.MergeP.
From MSP Require Model.CabSet Proofs.CabSetP.
Import ListNotations. Local Open Scope N_scope.

(* three consecutive parts A, B, C: joining (A,B) first or (B,C) first gives the same folder list and the same file list *)
Theorem C13_merge_any_order : forall (apre : list fold) (alast : fold) (afiles : list file)
                             (bfirst : fold) (bmid : list fold) (blast : fold) (bfiles : list file)
                             (cfirst : fold) (ctail : list fold) (cfiles : list file),
  (forall f, In f cfiles -> ffold f <> fid bfirst) ->
  let A := {| folders := apre ++ [alast]; files := afiles |} in
  let B := {| folders := bfirst :: bmid ++ [blast]; files := bfiles |} in
  let C := {| folders := cfirst :: ctail; files := cfiles |} in
  merge (merge A B) C = merge A (merge B C).
Proof. exact merge_assoc. Qed.
Print Assumptions C13_merge_any_order.

Theorem C13_merge_any_order_single_folder_part : forall (apre : list fold) (alast : fold) (afiles : list file) (b : fold) (bfiles : list file)
                                    (cfirst : fold) (ctail : list fold) (cfiles : list file),
  (forall f, In f cfiles -> ffold f <> fid b) -> 1 <= blocks b ->
  let A := {| folders := apre ++ [alast]; files := afiles |} in
  let B := {| folders := [b]; files := bfiles |} in
  let C := {| folders := cfirst :: ctail; files := cfiles |} in
  merge (merge A B) C = merge A (merge B C).
Proof. exact merge_assoc_single. Qed.
Print Assumptions C13_merge_any_order_single_folder_part.

(* the merged folder counts the shared split block once *)
Theorem C13_merged_block_count : forall a b, 1 <= blocks b -> blocks (absorb a b) + 1 = blocks a + blocks b.
Proof. exact absorb_blocks. Qed.
Print Assumptions C13_merged_block_count.

(* the tie of that list-level model to the code: Model/CabSet.v is the executable model of cabd_merge / cabd_can_merge_folders over
   the shared folder and file lists with the identities the C objects have (it is run against the C library on every check, all
   join orders, refusals and damaged parts); whenever it joins two chains, the lists it builds are exactly the abstract merge
   of the two chains' lists (folder identities below 65536 per cabinet, the right chain's first folder not referenced from the
   left chain, block counts within 32 bits) *)
Theorem C13_executable_merge_is_abstract_merge : forall cl cr ch, CabSet.join_chains cl cr = Some (Some ch) ->
  Forall (fun sf => CabSetP.small (CabSet.sf_id sf)) (CabSet.ch_folders cr) ->
  Forall (fun f => CabSetP.small (CabSet.sfi_folder f)) (CabSet.ch_files cl ++ CabSet.ch_files cr) ->
  (forall rfol rest, CabSet.ch_folders cr = rfol :: rest -> Forall (fun f => CabSet.sfi_folder f <> CabSet.sf_id rfol) (CabSet.ch_files cl)) ->
  (forall lfol rfol rest, CabSet.last_opt (CabSet.ch_folders cl) = Some lfol -> CabSet.ch_folders cr = rfol :: rest ->
     1 <= CabSet.sf_nblocks lfol + CabSet.sf_nblocks rfol /\ CabSet.sf_nblocks lfol + CabSet.sf_nblocks rfol <= Chm.M32) ->
  CabSetP.apart ch = merge (CabSetP.apart cl) (CabSetP.apart cr).
Proof. exact CabSetP.join_is_abstract_merge. Qed.
Print Assumptions C13_executable_merge_is_abstract_merge.
