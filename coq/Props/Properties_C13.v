(* C13 — cabinet sets join consistently in any order.  Statements only.
   Model/Merge.v: cabd_merge at the level of the folder and file lists it builds (folder identities unique across the set). *)
From Coq Require Import List NArith.
From MSP Require Import Model.Merge Proofs.MergeP.
Import ListNotations. Local Open Scope N_scope.

(* three consecutive parts A, B, C: joining (A,B) first or (B,C) first gives the same folder list and the same file list *)
Theorem C13_merge_any_order : forall (apre : list fold) (alast : fold) (afiles : list file)
                             (bfirst : fold) (bmid : list fold) (blast : fold) (bfiles : list file)
                             (cfirst : fold) (ctail : list fold) (cfiles : list file),
  (forall f, In f cfiles -> ffold f <> fid bfirst) ->
  let A := {| folders := apre ++ [alast]; files := afiles |} in
  let B := {| folders := bfirst :: bmid ++ [blast]; files := bfiles |} in
  let C := {| folders := cfirst :: ctail; files := cfiles |} in
  merge (merge A B) C = merge A (merge B C).
Proof. exact merge_assoc. Qed.
Print Assumptions C13_merge_any_order.

Theorem C13_merge_any_order_single_folder_part : forall (apre : list fold) (alast : fold) (afiles : list file) (b : fold) (bfiles : list file)
                                    (cfirst : fold) (ctail : list fold) (cfiles : list file),
  (forall f, In f cfiles -> ffold f <> fid b) -> 1 <= blocks b ->
  let A := {| folders := apre ++ [alast]; files := afiles |} in
  let B := {| folders := [b]; files := bfiles |} in
  let C := {| folders := cfirst :: ctail; files := cfiles |} in
  merge (merge A B) C = merge A (merge B C).
Proof. exact merge_assoc_single. Qed.
Print Assumptions C13_merge_any_order_single_folder_part.

(* the merged folder counts the shared split block once *)
Theorem C13_merged_block_count : forall a b, 1 <= blocks b -> blocks (absorb a b) + 1 = blocks a + blocks b.
Proof. exact absorb_blocks. Qed.
Print Assumptions C13_merged_block_count.
