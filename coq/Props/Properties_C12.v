(* C12 — checksummed data is never accepted after being altered (CAB XOR checksum part).
   This file contains statements only; proofs are in Proofs/CksumP.v, the model in Model/Cksum.v. *)
From Coq Require Import List NArith.
From MSP Require Import Model.Cksum Proofs.CksumP Model.Oab Proofs.CrcP.
Import ListNotations. Local Open Scope N_scope.

Theorem C12_cab_cksum_single_byte : forall pre b b' post seed,
  bytes (pre ++ b :: post) -> b' < 256 -> b <> b' ->
  cksum (pre ++ b :: post) seed <> cksum (pre ++ b' :: post) seed.
Proof. exact cab_cksum_single_byte. Qed.
Print Assumptions C12_cab_cksum_single_byte.

Theorem C12_block_tamper_payload : forall stored hdr4 pre b b' post,
  stored <> 0 -> bytes hdr4 -> bytes (pre ++ b :: post) -> b' < 256 -> b <> b' ->
  block_accepts stored hdr4 (pre ++ b :: post) = true ->
  block_accepts stored hdr4 (pre ++ b' :: post) = false.
Proof. exact block_tamper_payload. Qed.
Print Assumptions C12_block_tamper_payload.

Theorem C12_block_tamper_sizes : forall stored payload pre b b' post,
  stored <> 0 -> bytes (pre ++ b :: post) -> b' < 256 -> b <> b' ->
  block_accepts stored (pre ++ b :: post) payload = true ->
  block_accepts stored (pre ++ b' :: post) payload = false.
Proof. exact block_tamper_sizes. Qed.
Print Assumptions C12_block_tamper_sizes.

Theorem C12_block_tamper_stored : forall stored stored' hdr4 payload,
  stored <> 0 -> stored' <> stored ->
  block_accepts stored hdr4 payload = true ->
  stored' = 0 \/ block_accepts stored' hdr4 payload = false.
Proof. exact block_tamper_stored. Qed.
Print Assumptions C12_block_tamper_stored.

(* OAB: the per-block CRC-32 (crc32.h over the table regenerated from crc32.c) changes whenever one byte of the block's data changes *)
Theorem C12_oab_crc_single_byte : forall pre x x' post v, v < Oab.M32 -> x < 256 -> x' < 256 -> x <> x' ->
  crc32 v (pre ++ x :: post) <> crc32 v (pre ++ x' :: post).
Proof. exact crc32_single_byte. Qed.
Print Assumptions C12_oab_crc_single_byte.
