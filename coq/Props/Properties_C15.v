(* C15 — CHM fast_find() agrees with the full directory listing.  Statements only.
   Model/Chm.v: compare / GET_UTF8_CHAR, search_chunk (quick-reference binary search + linear scan), read_chunk with and without
   the chunk cache, chmd_fast_find (index descent, PMGL chain walk); run against the C library by tools/props/C15.py. *)
From Coq Require Import List NArith ZArith Sorting.Sorted.
From MSP Require Import Gen.Consts Gen.Tables Model.Chm Proofs.ChmEnc Proofs.ChmCmp Proofs.ChmFind Proofs.ChmDir Proofs.ChmCache Proofs.ChmSampleP.
Import ListNotations. Local Open Scope N_scope.

(* compare() is an order: on canonical UTF-8 names (each character in exactly the bytes its code point needs - every well-formed
   UTF-8 string) its sign is the lexicographic comparison of the lower-cased code points, for any lower-casing function *)
Theorem C15_compare_is_lexicographic : forall lower s1 s2, canon lower s1 -> canon lower s2 ->
  sgn (compare lower s1 s2) = lexcmp (key lower s1) (key lower s2).
Proof. exact compare_sign. Qed.
Print Assumptions C15_compare_is_lexicographic.

(* search_chunk on any chunk laid out as a CHM writer lays it out (entries, free space, quick-reference offsets for this density,
   entry count; any chunk size) is the search over the parsed entries - for sorted and unsorted chunks alike *)
Theorem C15_search_chunk_refines : forall lower t cs dens pm ch es pre free post, wfc cs dens pm ch es pre free post ->
  search_chunk lower cs dens ch t = asearch lower t dens pm es free (len post).
Proof. exact search_chunk_abs. Qed.
Print Assumptions C15_search_chunk_refines.

(* on a sorted PMGL chunk, for every density and every amount of quick-reference space, the binary search followed by the scan
   of one group answers exactly as the listing does: the entry that compares equal, with its section, offset and length; else none *)
Theorem C15_pmgl_search_is_lookup : forall lower t cs dens ch es pre free post,
  wfc cs dens true ch (map ae_of es) pre free post -> Forall wf_ent es -> sorted_for lower t es -> N.of_nat (length es) < 65536 ->
  res_of (search_chunk lower cs dens ch t) = answer (lookup lower t es).
Proof. exact search_pmgl. Qed.
Print Assumptions C15_pmgl_search_is_lookup.

(* directories without an index: fast_find follows the PMGL chain and answers as the listing of all chunks does *)
Theorem C15_fast_find_chain : forall lower t file h ess name, t = cstr name ->
  h_num_chunks h <= h_index_root h -> N.of_nat (length ess) <= h_num_chunks h -> ess <> [] -> chain lower t file h (h_first_pmgl h) ess ->
  fast_find lower file h name = answer (lookup lower t (concat ess)).
Proof. exact fast_find_chain. Qed.
Print Assumptions C15_fast_find_chain.

(* directories with an index of any depth: fast_find descends to the one PMGL chunk that can hold the name and answers as the
   listing of all leaf entries does *)
Theorem C15_fast_find_index : forall lower t file h d ents name, t = cstr name ->
  h_index_root h < h_num_chunks h -> N.of_nat d + 1 <= h_num_chunks h -> tree_at lower t file h d (h_index_root h) ents ->
  fast_find lower file h name = answer (lookup lower t ents).
Proof. exact fast_find_tree. Qed.
Print Assumptions C15_fast_find_index.

(* the hypotheses "sorted_for" / "keys_ok" above hold for every canonical name when the directory is what a writer produces:
   canonical names in strictly increasing case-insensitive order, index keys between the entries of neighbouring children *)
Theorem C15_sorted_directory : forall lower t es, canon lower t -> dir_sorted lower es -> sorted_for lower t es.
Proof. exact sorted_canon. Qed.
Print Assumptions C15_sorted_directory.
Theorem C15_sorted_index : forall lower t kids, canon lower t -> kids_sorted lower kids -> keys_ok lower t kids.
Proof. exact keys_ok_sorted. Qed.
Print Assumptions C15_sorted_index.

(* "found" means equal up to the case of letters; "not found" means different from every entry by more than case *)
Theorem C15_found_iff_same_key : forall lower t es, canon lower t -> dir_sorted lower es ->
  (forall e, lookup lower t es = Some e -> In e es /\ key lower t = key lower (e_name e)) /\
  (lookup lower t es = None -> forall e, In e es -> key lower t <> key lower (e_name e)).
Proof. intros lower t es Kt Hs. split; [intros e; exact (lookup_key lower t es e Kt Hs)|exact (lookup_none lower t es Kt Hs)]. Qed.
Print Assumptions C15_found_iff_same_key.

(* the chunk cache: whatever earlier lookups cached, every answer in any sequence of lookups is the answer of the uncached search *)
Theorem C15_cache_transparent : forall lower file h names c, cache_ok file h c ->
  fst (lookups lower file h names c) = map (fast_find lower file h) names /\ cache_ok file h (snd (lookups lower file h names c)).
Proof. exact lookups_history_free. Qed.
Print Assumptions C15_cache_transparent.

(* non-vacuity: the sample CHM (index root above two PMGL chunks, density 0) satisfies tree_at for a name that is present in
   another case, and fast_find returns that entry *)
Example C15_sample_tree : exists h ents, read_hdr sample_chm = (MSPACK_ERR_OK, Some h) /\
  tree_at lowerA sample_name sample_chm h 1 (h_index_root h) ents /\
  fast_find lowerA sample_chm h sample_name = (MSPACK_ERR_OK, Some (0, 5, 6)).
Proof. exact sample_tree. Qed.
