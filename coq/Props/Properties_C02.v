(* C02 — memory safety.  Statements only.  What is proved here: (a) the CAB input-buffer bound for every sequence of block parts and
   both modes, against the array extent regenerated from cab.h; (b) the extents of all Huffman tables and code-length arrays
   against the sizes make_decode_table / lzxd_read_lens need, regenerated from the headers; (c) for the SZDD/LZSS port, for every
   host: nothing is used after free/close, nothing is freed or closed twice (from the C09 ledger theorem).
   Everything else in C02 rests on the sanitizer sweep of the C code (stated as partial in MANIFEST/DESIGN). *)
From stdpp Require Import gmap.
From Coq Require Import List NArith Bool.
From MSP Require Import Gen.Consts Model.CabBlock Proofs.CabBlockP L2.Sys L2.Szdd Proofs.Mon Proofs.SzddLedger.
Import ListNotations. Local Open Scope N_scope.

Theorem C02_cab_input_bound : forall (salvage : bool) lens have h,
  have <= (if salvage then CAB_INPUTMAX_SALVAGE else CAB_INPUTMAX) ->
  accept_parts salvage have lens = Some h ->
  h <= (if salvage then CAB_INPUTMAX_SALVAGE else CAB_INPUTMAX).
Proof. exact cab_input_bound. Qed.
Print Assumptions C02_cab_input_bound.

Theorem C02_cab_input_fits_array : forall (salvage : bool) lens h, accept_parts salvage 0 lens = Some h -> h + 1 <= cab_input_extent.
Proof. exact cab_input_fits. Qed.
Print Assumptions C02_cab_input_fits_array.

Theorem C02_huffman_table_extents :
  table_fits LZX_PRETREE_TABLEBITS LZX_PRETREE_MAXSYMBOLS lzx_PRETREE_table_extent = true /\
  table_fits LZX_MAINTREE_TABLEBITS LZX_MAINTREE_MAXSYMBOLS lzx_MAINTREE_table_extent = true /\
  table_fits LZX_LENGTH_TABLEBITS LZX_LENGTH_MAXSYMBOLS lzx_LENGTH_table_extent = true /\
  table_fits LZX_ALIGNED_TABLEBITS LZX_ALIGNED_MAXSYMBOLS lzx_ALIGNED_table_extent = true /\
  table_fits MSZIP_LITERAL_TABLEBITS MSZIP_LITERAL_MAXSYMBOLS zip_LITERAL_table_extent = true /\
  table_fits MSZIP_DISTANCE_TABLEBITS MSZIP_DISTANCE_MAXSYMBOLS zip_DISTANCE_table_extent = true /\
  table_fits KWAJ_TABLEBITS KWAJ_MATCHLEN1_SYMS KWAJ_MATCHLEN1_TBLSIZE = true /\
  table_fits KWAJ_TABLEBITS KWAJ_LITLEN_SYMS KWAJ_LITLEN_TBLSIZE = true /\
  table_fits KWAJ_TABLEBITS KWAJ_OFFSET_SYMS KWAJ_OFFSET_TBLSIZE = true /\
  table_fits KWAJ_TABLEBITS KWAJ_LITERAL_SYMS KWAJ_LITERAL_TBLSIZE = true.
Proof. exact huff_table_extents. Qed.
Print Assumptions C02_huffman_table_extents.

Theorem C02_length_array_extents :
  LZX_MAINTREE_MAXSYMBOLS + LZX_LENTABLE_SAFETY <= lzx_MAINTREE_len_extent /\
  LZX_LENGTH_MAXSYMBOLS + LZX_LENTABLE_SAFETY <= lzx_LENGTH_len_extent /\
  LZX_PRETREE_MAXSYMBOLS + LZX_LENTABLE_SAFETY <= lzx_PRETREE_len_extent /\
  51 - 1 <= LZX_LENTABLE_SAFETY /\
  MSZIP_FRAME_SIZE <= zip_window_extent /\ LZX_FRAME_SIZE <= lzx_e8_buf_extent.
Proof. exact lzx_len_extents. Qed.
Print Assumptions C02_length_array_extents.

(* lifetimes, SZDD/LZSS, every host: [bad] is raised by any use of a closed handle and by any free/close of something not live *)
Theorem C02_szdd_no_lifetime_error : forall (o : oracle) junk fuel,
  bad (snd (run o mon0 (script_decompress junk fuel))) = false /\ bad (snd (run o mon0 (script_open_extract junk fuel))) = false.
Proof. intros o junk fuel. split; [apply (szdd_script_decompress_clean o junk fuel)|apply (szdd_script_open_extract_clean o junk fuel)]. Qed.
Print Assumptions C02_szdd_no_lifetime_error.

(* ---- the LZX port (Model/Lzx.v, tied to lzxd.c by the decoder-level correspondence) with ghost bounds checks: the model fails with
        status OOB wherever the C code would store or copy outside window[0..window_size) - the literal store, both loops of a match
        copy, the raw copy of an uncompressed block - or read a frame that does not fit the window / the E8 buffer ---- *)
From Coq Require Import ZArith.
From MSP Require Import Base.Src Props.OabSample.
From MSP Require Model.Lzx Proofs.LzxSafe.
(* the block loop of a frame that fits the window never leaves it: every block type, every Huffman code, every match (the only
   accepted overrun of a run is one the block has bytes for, and then the frame is complete), every input, hint and end-of-input rule *)
Theorem C02_lzx_block_loop_in_bounds : forall rule hint fuel todo s i r i', Lzx.wposn s <= Lzx.wsize s ->
  ((0 < todo)%Z -> (Z.of_N (Lzx.wposn s) + todo <= Z.of_N (Lzx.wsize s))%Z) ->
  ideal rule hint (Lzx.todo_loop fuel todo s) i = (SVal r, i') ->
  match r with inl e => e <> Lzx.OOB | inr (_, s') => Lzx.wposn s' <= Lzx.wsize s' end.
Proof. exact LzxSafe.todo_loop_never_oob. Qed.
Print Assumptions C02_lzx_block_loop_in_bounds.
(* whole streams from lzxd_init, every legal window size, every reset interval, DELTA or not, any reference data, any input, any
   sequence of requests - while the decoder does not know the output length (lzx->length = 0: CAB folders before their last block) *)
Theorem C02_lzx_never_out_of_bounds : forall wb ri delta ref inp reqs sts out, 15 <= wb <= 25 ->
  Lzx.lzx_run wb ri 0 delta ref inp reqs = (sts, out) -> Forall (fun st => st <> Lzx.OOB) sts.
Proof. exact LzxSafe.lzx_run_safe. Qed.
Print Assumptions C02_lzx_never_out_of_bounds.
(* the same with ANY output length L known to the decoder from the start (CHM, OAB and LZX DELTA set it at initialisation; the last
   frame is then short, and the argument needs the bookkeeping between frame counter, bytes decoded, bytes delivered and the
   requested total): every window size, every sequence of requests whose sizes stay below 2^46 in total *)
Theorem C02_lzx_never_out_of_bounds_known_length : forall wb ri L delta ref inp reqs sts out, 15 <= wb <= 25 ->
  LzxSafe.sumN reqs + 32768 * N.of_nat (length reqs) < 70368744177664 ->
  Lzx.lzx_run wb ri L delta ref inp reqs = (sts, out) -> Forall (fun st => st <> Lzx.OOB) sts.
Proof. exact LzxSafe.lzx_run_safeL. Qed.
Print Assumptions C02_lzx_never_out_of_bounds_known_length.
(* the ghost checks bite: from a state outside the invariant (window_posn = window_size at the start of a frame) the same stream
   makes the model go out of bounds; from lzxd_init it decodes *)
Example C02_lzx_ghost_checks_bite :
  fst (fst (Lzx.lzx_call 0 LzxSafe.bad_state {| irest := s_stream ++ s_pad ++ [0; 0]; iout := [] |} 10)) = Lzx.OOB /\
  fst (Lzx.lzx_run 17 0 (N.of_nat (length s_data)) true [] (s_stream ++ s_pad) [10]) = [0].
Proof. split; vm_compute; reflexivity. Qed.

(* ---- the MSZIP port (Model/Mszip.v, tied to mszipd.c by the decoder-level correspondence) with ghost bounds checks on every index into
        the 32 KiB window: the literal store, the read and the store of every step of a match copy (incl. the start position
        `window_posn - distance` going below zero), the copy of a stored block ---- *)
From MSP Require Model.Mszip Proofs.MszipSafe.
(* one frame ('CK' search + inflate until the last block) from ANY decoder state, for every input: never out of bounds, and it ends with
   window_posn <= 32768.  Needs no invariant across frames or calls (every frame starts by resetting window_posn), so it covers every
   call sequence of mszipd_decompress and the KWAJ use of the same inflate *)
Theorem C02_mszip_frame_in_bounds : forall rule hint st i r i', ideal rule hint (Mszip.zframe st) i = (SVal r, i') ->
  match r with inl e => e <> Mszip.IErr Mszip.OOBZ | inr (_, s') => Mszip.wpos s' <= Mszip.FRAME end.
Proof. exact MszipSafe.zframe_never_oob. Qed.
Print Assumptions C02_mszip_frame_in_bounds.
Example C02_mszip_ghost_checks_bite : Mszip.out_byte 65 (Mszip.upd_win Mszip.init Mszip.Emp Mszip.FRAME 0) = SRet (inl (Mszip.IErr Mszip.OOBZ)).
Proof. exact MszipSafe.ghost_checks_bite. Qed.

(* ---- the Quantum port (Model/Qtm.v, tied to qtmd.c by the decoder-level correspondence) with ghost bounds checks on the literal store
        and on every match copy: the plain one, the one reaching back before the window start, both halves of the copy that wraps the
        window end ---- *)
From MSP Require Model.Qtm Proofs.QtmSafe Props.QtmSample.
(* every sequence of qtmd_decompress calls from qtmd_init, every window size 2^10..2^21, every input: rests on window_posn <=
   window_size, the bit buffer staying below 2^32 (so that READ_MANY_BITS(n) < 2^n) and the regenerated length tables (a match is
   at most 1024 bytes long, the smallest window) *)
Theorem C02_qtm_never_out_of_bounds : forall wb inp reqs sts out, 10 <= wb <= 21 ->
  Qtm.qtm_run wb inp reqs = (sts, out) -> Forall (fun st => st <> Qtm.OOBQ) sts.
Proof. exact QtmSafe.qtm_run_safe. Qed.
Print Assumptions C02_qtm_never_out_of_bounds.
Example C02_qtm_ghost_checks_bite :
  fst (fst (Qtm.qtm_call QtmSafe.bad_qstate {| irest := QtmSample.q_stream ++ [0; 0]; iout := [] |} 100)) = Qtm.OOBQ /\
  fst (Qtm.qtm_run 10 QtmSample.q_stream [100]) = [0].
Proof. split; vm_compute; reflexivity. Qed.
