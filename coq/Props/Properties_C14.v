(* C14 — search() finds every embedded cabinet, at any offset, with any buffer size.  Statements only.
   Model/Find.v: the signature automaton of cabd_find (as repaired), the candidate it yields, the search loop with
   cabd_read_headers abstracted to [parse]. *)
From Coq Require Import List NArith.
From MSP Require Import Model.Find Proofs.FindP Proofs.FindComplete.
Import ListNotations. Local Open Scope N_scope.

(* the scan gives the same candidate whatever the sizes of the buffers the file is read in (the automaton state is carried
   across refills) *)
Theorem C14_scan_bufsize_independent : forall chunks pos a, first_cand_chunks chunks pos a = first_cand (concat chunks) pos a.
Proof. exact scan_bufsize_independent. Qed.
Print Assumptions C14_scan_bufsize_independent.

(* whatever bytes came before (a lone 'M', "MS", "MSC", anything leaving the automaton in a searching state), the four signature
   bytes followed by 16 header bytes put the automaton in the candidate-complete state with the cabinet length (bytes 8-11) and the
   files offset (bytes 16-19) decoded little-endian *)
Theorem C14_signature_recognised_after_any_prefix : forall a x4 x5 x6 x7 c0 c1 c2 c3 y12 y13 y14 y15 f0 f1 f2 f3,
  ast a <= 3 ->
  fold_left step (MSCF ++ [x4; x5; x6; x7; c0; c1; c2; c3; y12; y13; y14; y15; f0; f1; f2; f3]) a =
  {| ast := 20; acablen := le32 c0 c1 c2 c3; afoffset := le32 f0 f1 f2 f3 |}.
Proof. exact candidate_at_signature. Qed.
Print Assumptions C14_signature_recognised_after_any_prefix.

(* nothing is reported that did not parse as a cabinet at the reported offset *)
Theorem C14_find_sound : forall bytes parse salvage fuel res,
  cab_find bytes parse salvage fuel 0 [] = Some res -> Forall (fun o => parse o = true) res.
Proof. exact find_sound. Qed.
Print Assumptions C14_find_sound.

(* completeness of the whole loop: every position of the file that carries the signature with its 20 header bytes, passes the
   plausibility filter and parses as a cabinet is reported, unless it lies inside the extent (bytes 8-11 of its header) of a cabinet
   reported before it - for every file, every header parser, both salvage settings, whenever the loop returns at all *)
Theorem C14_find_complete : forall bytes parse salvage fuel res, cab_find bytes parse salvage fuel 0 [] = Some res ->
  forall q, sig_at bytes q -> accepted bytes parse salvage q = true ->
            (forall p, In p res -> p < q -> p + cablen_at bytes p <= q) -> In q res.
Proof. exact find_complete. Qed.
Print Assumptions C14_find_complete.

(* the reported offsets are strictly increasing: no cabinet is reported twice, and the list is in file order *)
Theorem C14_find_reports_each_once_in_order : forall bytes parse salvage fuel res,
  cab_find bytes parse salvage fuel 0 [] = Some res -> incr_from 0 res.
Proof. exact find_increasing. Qed.
Print Assumptions C14_find_reports_each_once_in_order.

(* the scan alone: from the searching state it stops exactly at the first signature that has 16 more bytes behind it *)
Theorem C14_scan_stops_at_first_signature : forall l pos,
  match first_cand l pos a0 with
  | inl (p, cl, fo) => exists j tl, l = j ++ tl /\ p = pos + N.of_nat (length j) /\ sig_here tl = true /\ hdr tl = Some (cl, fo) /\ nosig (j ++ MSC) = true
  | inr _ => forall j tl, l = j ++ tl -> sig_here tl = true -> hdr tl = None
  end.
Proof. exact first_cand_spec. Qed.
Print Assumptions C14_scan_stops_at_first_signature.

(* the hypotheses are satisfiable: two small "cabinets" behind junk that ends in a broken signature, a look-alike in between whose
   header does not parse; the second cabinet sits inside nothing and is reported *)
Definition c14_file : list N :=
  [1; 77; 83; 77] ++ MSCF ++ [0; 0; 0; 0; 24; 0; 0; 0; 0; 0; 0; 0; 20; 0; 0; 0] ++ [9; 9; 9; 9] ++
  [77; 83; 67] ++ MSCF ++ [0; 0; 0; 0; 200; 0; 0; 0; 0; 0; 0; 0; 20; 0; 0; 0] ++
  [5] ++ MSCF ++ [0; 0; 0; 0; 22; 0; 0; 0; 0; 0; 0; 0; 20; 0; 0; 0] ++ [7; 7].
Definition c14_parse (o : N) : bool := (o =? 4) || (o =? 52).
Example C14_find_complete_applies :
  cab_find c14_file c14_parse false 10 0 [] = Some [4; 52] /\
  sig_at c14_file 52 /\ accepted c14_file c14_parse false 52 = true /\ sig_at c14_file 31 /\ accepted c14_file c14_parse false 31 = false.
Proof. vm_compute. repeat split. Qed.
