(* C14 — search() finds every embedded cabinet, at any offset, with any buffer size.  Statements only.
   Model/Find.v: the signature automaton of cabd_find (as repaired), the candidate it yields, the search loop with
   cabd_read_headers abstracted to [parse]. *)
From Coq Require Import List NArith.
From MSP Require Import Model.Find Proofs.FindP.
Import ListNotations. Local Open Scope N_scope.

(* the scan gives the same candidate whatever the sizes of the buffers the file is read in (the automaton state is carried
   across refills) *)
Theorem C14_scan_bufsize_independent : forall chunks pos a, first_cand_chunks chunks pos a = first_cand (concat chunks) pos a.
Proof. exact scan_bufsize_independent. Qed.
Print Assumptions C14_scan_bufsize_independent.

(* whatever bytes came before (a lone 'M', "MS", "MSC", anything leaving the automaton in a searching state), the four signature
   bytes followed by 16 header bytes put the automaton in the candidate-complete state with the cabinet length (bytes 8-11) and the
   files offset (bytes 16-19) decoded little-endian *)
Theorem C14_signature_recognised_after_any_prefix : forall a x4 x5 x6 x7 c0 c1 c2 c3 y12 y13 y14 y15 f0 f1 f2 f3,
  ast a <= 3 ->
  fold_left step (MSCF ++ [x4; x5; x6; x7; c0; c1; c2; c3; y12; y13; y14; y15; f0; f1; f2; f3]) a =
  {| ast := 20; acablen := le32 c0 c1 c2 c3; afoffset := le32 f0 f1 f2 f3 |}.
Proof. exact candidate_at_signature. Qed.
Print Assumptions C14_signature_recognised_after_any_prefix.

(* nothing is reported that did not parse as a cabinet at the reported offset *)
Theorem C14_find_sound : forall bytes parse salvage fuel res,
  cab_find bytes parse salvage fuel 0 [] = Some res -> Forall (fun o => parse o = true) res.
Proof. exact find_sound. Qed.
Print Assumptions C14_find_sound.
