(* C01 — CAB extraction: statements only.  Proofs in Proofs/, models in Model/. *)
From Coq Require Import List NArith ZArith.
From MSP Require Import Base.Src Proofs.Sim Proofs.DecBuf Model.Mszip Model.Lzx Model.Qtm.
Import ListNotations. Local Open Scope N_scope.

(* "The result is the same for every legal setting of the input buffer size": for each of the three ported CAB decoders
   (MSZIP/inflate, LZX incl. multi-call sequences, Quantum), on every input byte string and every value of the output-length hint (lzx->length: outlen for LZX), the buffered run with any
   buffer size > 0 on an honest host returns the same status and writes the same bytes as the run on the ideal byte source. *)
Theorem C01_mszip_bufsize_independent : forall bufsize out_bytes hint inp, 0 < bufsize ->
  let '(r1, i') := ideal EofPad2 hint (mszip_run out_bytes) (fresh_ideal inp) in
  let '((r2, _), h') := exec hint (fresh_host inp) (buffered bufsize EofPad2 (mszip_run out_bytes) fresh_buf) in
  r1 = r2 /\ iout i' = out h'.
Proof. intros. apply decoder_bufsize_independent. assumption. Qed.
Print Assumptions C01_mszip_bufsize_independent.

Theorem C01_lzx_bufsize_independent : forall bufsize wbits reset outlen delta refdata reqs inp, 0 < bufsize ->
  let p := Lzx.calls reqs (lzx_init wbits reset delta refdata) [] in
  let '(r1, i') := ideal EofPad2 outlen p (fresh_ideal inp) in
  let '((r2, _), h') := exec outlen (fresh_host inp) (buffered bufsize EofPad2 p fresh_buf) in
  r1 = r2 /\ iout i' = out h'.
Proof. intros. apply decoder_bufsize_independent. assumption. Qed.
Print Assumptions C01_lzx_bufsize_independent.

Theorem C01_qtm_bufsize_independent : forall bufsize wbits n hint inp, 0 < bufsize ->
  let p := Qtm.decompress n (qtm_init wbits) in
  let '(r1, i') := ideal EofPad2 hint p (fresh_ideal inp) in
  let '((r2, _), h') := exec hint (fresh_host inp) (buffered bufsize EofPad2 p fresh_buf) in
  r1 = r2 /\ iout i' = out h'.
Proof. intros. apply decoder_bufsize_independent. assumption. Qed.
Print Assumptions C01_qtm_bufsize_independent.
