(* C01 — CAB extraction: statements only.  Proofs in Proofs/, models in Model/. *)
From Coq Require Import List NArith ZArith.
From MSP Require Import Base.Src Proofs.Sim Proofs.DecBuf Model.Mszip Model.Lzx Model.Qtm.
Import ListNotations. Local Open Scope N_scope.

(* "The result is the same for every legal setting of the input buffer size": for each of the three ported CAB decoders
   (MSZIP/inflate, LZX incl. multi-call sequences, Quantum), on every input byte string and every value of the output-length hint (lzx->length: outlen for LZX), the buffered run with any
   buffer size > 0 on an honest host returns the same status and writes the same bytes as the run on the ideal byte source. *)
Theorem C01_mszip_bufsize_independent : forall bufsize out_bytes hint inp, 0 < bufsize ->
  let '(r1, i') := ideal EofPad2 hint (mszip_run out_bytes) (fresh_ideal inp) in
  let '((r2, _), h') := exec hint (fresh_host inp) (buffered bufsize EofPad2 (mszip_run out_bytes) fresh_buf) in
  r1 = r2 /\ iout i' = out h'.
Proof. intros. apply decoder_bufsize_independent. assumption. Qed.
Print Assumptions C01_mszip_bufsize_independent.

Theorem C01_lzx_bufsize_independent : forall bufsize wbits reset outlen delta refdata reqs inp, 0 < bufsize ->
  let p := Lzx.calls reqs (lzx_init wbits reset delta refdata) [] in
  let '(r1, i') := ideal EofPad2 outlen p (fresh_ideal inp) in
  let '((r2, _), h') := exec outlen (fresh_host inp) (buffered bufsize EofPad2 p fresh_buf) in
  r1 = r2 /\ iout i' = out h'.
Proof. intros. apply decoder_bufsize_independent. assumption. Qed.
Print Assumptions C01_lzx_bufsize_independent.

Theorem C01_qtm_bufsize_independent : forall bufsize wbits n hint inp, 0 < bufsize ->
  let p := Qtm.decompress n (qtm_init wbits) in
  let '(r1, i') := ideal EofPad2 hint p (fresh_ideal inp) in
  let '((r2, _), h') := exec hint (fresh_host inp) (buffered bufsize EofPad2 p fresh_buf) in
  r1 = r2 /\ iout i' = out h'.
Proof. intros. apply decoder_bufsize_independent. assumption. Qed.
Print Assumptions C01_qtm_bufsize_independent.

(* ---- the container: Model/Cab.v, the executable model of cabd_open / cabd_extract for one cabinet (run against the C library
   on intact and damaged cabinets by tools/props/C01.py) ---- *)
From Coq Require Import ZArith.
From MSP Require Import Gen.Consts Model.Cab Proofs.Sim Proofs.CabP Proofs.CabSlice Proofs.CabHdrP Props.CabSample.

(* cabd_sys_read on a folder whose data area holds well-formed CFDATA blocks (checksum absent or right, sizes within limits,
   per-block reserve skipped): every call delivers the next bytes of the concatenated payloads (plus Quantum's trailer byte),
   for every request size, and leaves the reader at the right block *)
Theorem C01_block_reader_is_a_stream : forall par bres comp nblocks file fuel todo acc h pre bs post,
  at_blocks bres nblocks file h pre bs post ->
  (todo = 0 /\ (1 <= fuel)%nat) \/ (2 * length bs + (match h_ibuf h with [] => 0 | _ => 1 end) + 1 <= fuel)%nat ->
  exists h' pre' bs', sys_read file par bres comp nblocks fuel todo acc h = (RBytes (acc ++ firstn (N.to_nat todo) (h_ibuf h ++ pays comp bs)), h') /\
     at_blocks bres nblocks file h' pre' bs' post /\ h_ibuf h' ++ pays comp bs' = skipn (N.to_nat todo) (h_ibuf h ++ pays comp bs) /\ same_sink comp h h'.
Proof. exact sys_read_stream. Qed.
Print Assumptions C01_block_reader_is_a_stream.

(* hence any decoder program run through the buffered interpreter behind the CAB block reader (MSZIP, Quantum, uncompressed:
   every folder type whose output-length hint is constant) returns what it returns on the ideal stream of concatenated
   payloads - same status, same bytes written - for every input buffer size *)
Theorem C01_decoder_behind_block_reader_is_ideal : forall par bres comp nblocks file, ctype comp <> cffoldCOMPTYPE_LZX ->
  forall A (p : sprog A) bufsize rule w o0 off0 hint post i b h hs, 0 < bufsize ->
  Q bres comp nblocks file w o0 off0 hint post h hs -> R rule i b hs ->
  let '((r2, _), h') := Cab.cexec file par bres comp nblocks h (buffered bufsize rule p b) in
  let '(r1, i') := ideal rule hint p i in
  r1 = r2 /\ exists hs', Q bres comp nblocks file w o0 off0 hint post h' hs' /\ iout i' = out hs'.
Proof. intros par bres comp nblocks file Hn A p. exact (cab_buffered_ideal par bres comp nblocks file Hn p). Qed.
Print Assumptions C01_decoder_behind_block_reader_is_ideal.

(* extract() of any member of an uncompressed folder, from a fresh decompressor, with any DECOMPBUF: exactly the member's bytes *)
Theorem C01_stored_member_exact : forall file par cab, 0 < p_bufsize par -> forall fo f pre bs post,
  nth_error (c_folders cab) (N.to_nat (fi_folder f)) = Some fo -> ctype (fo_comp fo) = cffoldCOMPTYPE_NONE -> prechecks par fo f = true ->
  file = pre ++ encs bs ++ post -> fo_offset fo = Z.of_N (Chm.len pre) -> N.of_nat (length bs) = fo_nblocks fo -> Forall (wf_blk (c_bres cab)) bs ->
  fi_off f + fi_len f <= Chm.len (pays (fo_comp fo) bs) ->
  exists st', extract file par cab cs_init f =
              (MSPACK_ERR_OK, firstn (N.to_nat (fi_len f)) (skipn (N.to_nat (fi_off f)) (pays (fo_comp fo) bs)), st').
Proof. exact stored_extract. Qed.
Print Assumptions C01_stored_member_exact.

(* extract() of a member of an MSZIP folder from a fresh decompressor, any DECOMPBUF, strict or salvage: whenever the MSZIP port,
   run on the ideal stream of concatenated block payloads, skips to the member's offset and decodes the member without error,
   extract() returns OK and exactly those bytes *)
Theorem C01_mszip_member_is_ideal_decode : forall file par cab, 0 < p_bufsize par -> forall fo f pre bs post z1 i1 z2 i2,
  nth_error (c_folders cab) (N.to_nat (fi_folder f)) = Some fo -> ctype (fo_comp fo) = cffoldCOMPTYPE_MSZIP -> prechecks par fo f = true ->
  file = pre ++ encs bs ++ post -> fo_offset fo = Z.of_N (Chm.len pre) -> N.of_nat (length bs) = fo_nblocks fo -> Forall (wf_blk (c_bres cab)) bs ->
  fi_len f <> 0 ->
  (if fi_off f =? 0 then (SVal (MSPACK_ERR_OK, false, Mszip.zinit), {| irest := pays (fo_comp fo) bs ++ pad EofPad2; iout := [] |})
   else ideal EofPad2 0 (Mszip.zcall (fi_off f) Mszip.zinit) {| irest := pays (fo_comp fo) bs ++ pad EofPad2; iout := [] |}) = (SVal (MSPACK_ERR_OK, false, z1), i1) ->
  ideal EofPad2 0 (Mszip.zcall (fi_len f) z1) {| irest := irest i1; iout := [] |} = (SVal (MSPACK_ERR_OK, false, z2), i2) ->
  exists st', extract file par cab cs_init f = (MSPACK_ERR_OK, rev (iout i2), st').
Proof. exact mszip_extract. Qed.
Print Assumptions C01_mszip_member_is_ideal_decode.

(* the member is a slice of the folder: ONE ideal run of the MSZIP port over the folder's payloads for offset + length bytes;
   extract() returns the bytes [offset, offset + length) of what that run writes, and that slice has exactly the member's length.
   (block reader + buffered interpreter + the decoder's resumability and output accounting, Proofs/CabSlice.v) *)
Theorem C01_mszip_member_is_slice_of_folder_decode : forall file par cab, 0 < p_bufsize par -> forall fo f pre bs post zf iF,
  nth_error (c_folders cab) (N.to_nat (fi_folder f)) = Some fo -> ctype (fo_comp fo) = cffoldCOMPTYPE_MSZIP -> prechecks par fo f = true ->
  file = pre ++ encs bs ++ post -> fo_offset fo = Z.of_N (Chm.len pre) -> N.of_nat (length bs) = fo_nblocks fo -> Forall (wf_blk (c_bres cab)) bs ->
  fi_len f <> 0 ->
  ideal EofPad2 0 (Mszip.zcall (fi_off f + fi_len f) Mszip.zinit) {| irest := pays (fo_comp fo) bs ++ pad EofPad2; iout := [] |} = (SVal (MSPACK_ERR_OK, false, zf), iF) ->
  exists st', extract file par cab cs_init f = (MSPACK_ERR_OK, skipn (N.to_nat (fi_off f)) (rev (iout iF)), st') /\
              N.of_nat (length (skipn (N.to_nat (fi_off f)) (rev (iout iF)))) = fi_len f.
Proof. exact mszip_member_is_slice. Qed.
Print Assumptions C01_mszip_member_is_slice_of_folder_decode.

(* the same for Quantum folders (every block followed by the trailer byte the block reader adds) *)
Theorem C01_quantum_member_is_ideal_decode : forall file par cab, 0 < p_bufsize par -> forall fo f pre bs post q1 i1 q2 i2,
  nth_error (c_folders cab) (N.to_nat (fi_folder f)) = Some fo -> ctype (fo_comp fo) = cffoldCOMPTYPE_QUANTUM ->
  10 <= N.land (N.shiftr (fo_comp fo) 8) 31 -> N.land (N.shiftr (fo_comp fo) 8) 31 <= 21 -> prechecks par fo f = true ->
  file = pre ++ encs bs ++ post -> fo_offset fo = Z.of_N (Chm.len pre) -> N.of_nat (length bs) = fo_nblocks fo -> Forall (wf_blk (c_bres cab)) bs ->
  fi_len f <> 0 ->
  let q0 := Qtm.qtm_init (N.land (N.shiftr (fo_comp fo) 8) 31) in
  (if fi_off f =? 0 then (SVal (inr (tt, q0)), {| irest := pays (fo_comp fo) bs ++ pad EofPad2; iout := [] |})
   else ideal EofPad2 0 (Qtm.decompress (fi_off f) q0) {| irest := pays (fo_comp fo) bs ++ pad EofPad2; iout := [] |}) = (SVal (inr (tt, q1)), i1) ->
  ideal EofPad2 0 (Qtm.decompress (fi_len f) q1) {| irest := irest i1; iout := [] |} = (SVal (inr (tt, q2)), i2) ->
  exists st', extract file par cab cs_init f = (MSPACK_ERR_OK, rev (iout i2), st').
Proof. exact qtm_extract. Qed.
Print Assumptions C01_quantum_member_is_ideal_decode.

(* open(): a cabinet without reserve areas and neighbours lists exactly the folders and files its writer encoded - any number of
   folders and files, any sizes / offsets / attributes / dates, names of 1..255 bytes without NUL, folder indices valid or one of
   the three CONTINUED codes (which mark the first / last folder for merging) - in strict and in salvage mode *)
Theorem C01_open_lists_what_was_written : forall salvage r1 cablen r2 foff r3 minor major setid idx fos fis rest,
  fos <> [] -> fis <> [] -> N.of_nat (length fos) < 65536 -> N.of_nat (length fis) < 65536 ->
  Forall (fun s => Chm.len (fs_resv s) = 0) fos -> Forall (wf_fi (N.of_nat (length fos))) fis ->
  read_headers (enc_cfheader r1 cablen r2 foff r3 minor major (N.of_nat (length fos)) (N.of_nat (length fis)) 0 setid idx
                ++ concat (map enc_fo fos) ++ concat (map enc_fi fis) ++ rest) 0 salvage =
  (MSPACK_ERR_OK, Some (mkCab 0 cablen setid idx 0 0 0 None None None None
                              (fold_left merge1 fis (map (dec_fo 0) fos)) (map (dec_fi (N.of_nat (length fos))) fis))).
Proof. exact read_headers_plain. Qed.
Print Assumptions C01_open_lists_what_was_written.

(* non-vacuity: a cabinet built by the generator the checks use opens in the model and its uncompressed folder meets the hypotheses *)
Example C01_sample_cabinet : exists cab fo f, cab_open sample_cab false = (MSPACK_ERR_OK, Some cab) /\
  nth_error (c_files cab) 1 = Some f /\ nth_error (c_folders cab) (N.to_nat (fi_folder f)) = Some fo /\
  ctype (fo_comp fo) = cffoldCOMPTYPE_NONE /\ prechecks (mkPar false false 4096) fo f = true /\
  sample_cab = firstn (N.to_nat sample_dataoff) sample_cab ++ encs sample_blocks ++ sample_post /\
  fo_offset fo = Z.of_N (Chm.len (firstn (N.to_nat sample_dataoff) sample_cab)) /\ N.of_nat (length sample_blocks) = fo_nblocks fo /\
  Forall (wf_blk (c_bres cab)) sample_blocks /\ fi_off f + fi_len f <= Chm.len (pays (fo_comp fo) sample_blocks).
Proof.
  eexists. eexists. eexists. split; [vm_compute; reflexivity|]. split; [reflexivity|]. split; [reflexivity|].
  repeat split; try (vm_compute; reflexivity); try (vm_compute; discriminate).
  constructor; [|constructor]. unfold wf_blk. repeat split; try (vm_compute; reflexivity); try (vm_compute; discriminate). right. vm_compute. reflexivity.
Qed.
