(* C16 — cabextract never writes outside the destination directory: the output-name part.  Statements only.
   Model/OutName.v is a port of create_output_name (UTF-8 decode / fix-up / case folding / separator swap / re-encode, C-string
   truncation, leading-slash strip, "../" rewrite).  [lower] is ANY case-folding function; names are ANY byte strings. *)
From Coq Require Import List NArith.
From MSP Require Import Model.OutName Proofs.OutNameP.
Import ListNotations. Local Open Scope N_scope.

Theorem C16_no_dotdot_slash : forall lower lw isunix utf8 name, has_dds (out_tail lower lw isunix utf8 name) = false.
Proof. exact out_tail_no_dotdot_slash. Qed.
Print Assumptions C16_no_dotdot_slash.

Theorem C16_no_leading_slash : forall lower lw isunix utf8 name,
  match out_tail lower lw isunix utf8 name with [] => True | a :: _ => is_slash a = false end.
Proof. exact out_tail_no_leading_slash. Qed.
Print Assumptions C16_no_leading_slash.

Theorem C16_no_nul : forall lower lw isunix utf8 name, ~ In 0 (out_tail lower lw isunix utf8 name).
Proof. exact out_tail_no_nul. Qed.
Print Assumptions C16_no_nul.

Theorem C16_fits_buffer : forall lower lw isunix utf8 name, (length (out_tail lower lw isunix utf8 name) <= 4 * length name)%nat.
Proof. exact out_tail_fits. Qed.
Print Assumptions C16_fits_buffer.

(* the output name is the destination directory, a slash, and that tail *)
Theorem C16_prefix : forall lower dir lw isunix utf8 name,
  create_output_name lower (Some dir) lw isunix utf8 name = dir ++ [SL] ++ out_tail lower lw isunix utf8 name.
Proof. intros. unfold create_output_name. rewrite <- app_assoc. reflexivity. Qed.
Print Assumptions C16_prefix.
