(* C04 — every call terminates after work bounded by input and output size.  Statements only.
   Coq functions are total, so termination is stated through fuel: the fuel named in each statement is never exhausted. *)
From Coq Require Import List NArith.
From MSP Require Import Model.LzssBase Model.Lzss Proofs.LzssRefine Model.Progress Proofs.ProgressP.
Local Open Scope N_scope.

(* LZSS (SZDD, KWAJ method 2): on any finite input, with any buffer size, the decoder loop returns within |input| + 1 iterations
   (the out-of-fuel value 99 is never returned: the result is OK) *)
Theorem C04_lzss_terminates : forall inh outh bufsize, 0 < bufsize -> forall mode inp,
  exists h', exec {| rem := inp; out := nil |} (lzss_impl inh outh bufsize (S (length inp)) mode) = (OK, h').
Proof.
  intros inh outh bufsize Hb mode inp. destruct (lzss_impl_refines_spec inh outh bufsize Hb mode inp) as (h' & E & _). exists h'. exact E.
Qed.
Print Assumptions C04_lzss_terminates.

(* cabd_find resumes strictly after every candidate header, accepted or rejected *)
Theorem C04_search_resumes_after_candidate : forall caboff cablen foffset plausible parsed,
  caboff < resume_offset caboff cablen foffset plausible parsed.
Proof. exact resume_advances. Qed.
Print Assumptions C04_search_resumes_after_candidate.

(* ... so the whole search loop (Model/Find.v cab_find = cabd_search + cabd_find with the header parser abstracted) returns for every file,
   every parser and both salvage settings: one unit of fuel per byte of the file is never exhausted *)
From MSP Require Import Model.Find Proofs.FindComplete.
Theorem C04_search_loop_returns : forall bytes parse salvage, exists res, cab_find bytes parse salvage (S (length bytes)) 0 nil = Some res.
Proof. exact find_returns. Qed.
Print Assumptions C04_search_loop_returns.

(* chmd_fast_find's chunk walk ends after at most num_chunks visits for EVERY link structure *)
Theorem C04_chm_walk_bounded : forall next hit last num n,
  match pmgl_walk (S (N.to_nat num)) next hit last num n 0 with
  | OutOfFuel => False
  | Found s | NotFound s | LoopDetected s => s <= num
  end.
Proof. exact pmgl_walk_bounded. Qed.
Print Assumptions C04_chm_walk_bounded.
