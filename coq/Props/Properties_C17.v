(* C17 — cabextract's modes agree with the archive and with each other.  Statements only.
   Model/Cabx.v: the per-member loop of process_cabinet with the filter, extract(), ensure_filepath() and can_write() as arbitrary
   functions; set_date_and_perm's permission computation. *)
From Coq Require Import List NArith Bool.
From MSP Require Import Model.Cabx Proofs.CabxP.
Import ListNotations. Local Open Scope N_scope.

Theorem C17_modes_select_same_members : forall (M : Type) (matches extract_ok path_ok writable : M -> bool) md ms,
  map target (fst (process M matches extract_ok path_ok writable md ms)) = filter matches ms.
Proof. exact modes_select_same_members. Qed.
Print Assumptions C17_modes_select_same_members.

Theorem C17_listing_never_fails : forall (M : Type) (matches extract_ok path_ok writable : M -> bool) ms,
  snd (process M matches extract_ok path_ok writable MList ms) = 0.
Proof. exact list_no_errors. Qed.
Print Assumptions C17_listing_never_fails.

Theorem C17_exit_zero_iff_nothing_failed : forall (M : Type) (matches extract_ok path_ok writable : M -> bool) ms,
  exit_status M matches extract_ok path_ok writable MTest ms = 0 <-> filter (failed_test M matches extract_ok) ms = [].
Proof. exact exit_zero_iff_no_failure. Qed.
Print Assumptions C17_exit_zero_iff_nothing_failed.

(* permission bits for the attribute combinations of RDONLY, EXEC (and ARCH as a bystander) under all 512 umasks *)
Theorem C17_permission_bits : forallb (fun a => forallb (fun u => perm_spec a u) (nseq 512)) [0; 1; 64; 65; 32; 33; 96; 97] = true.
Proof. exact perm_sweep. Qed.
Print Assumptions C17_permission_bits.
