(* C20 — the caller's mspack_system is used exactly as documented.  Statements only.
   The monitor of Proofs/Mon.v raises [bad] on: open with a mode other than READ for an archive name / WRITE for an output name;
   read/write/seek/tell/message on a handle that is not open (read on a handle not opened for reading, write on one not opened
   for writing); negative read or alloc sizes; seek whence outside {0,1,2}; close of a handle that is not open; free of a
   non-NULL pointer that is not a live allocation. *)
From stdpp Require Import gmap.
From Coq Require Import NArith.
From MSP Require Import L2.Sys L2.Szdd Proofs.Mon Proofs.SzddLedger.

Theorem C20_szdd_decompress_callbacks_ok : forall (o : oracle) junk fuel, bad (snd (run o mon0 (script_decompress junk fuel))) = false.
Proof. intros o junk fuel. apply (szdd_script_decompress_clean o junk fuel). Qed.
Print Assumptions C20_szdd_decompress_callbacks_ok.

Theorem C20_szdd_open_extract_close_callbacks_ok : forall (o : oracle) junk fuel, bad (snd (run o mon0 (script_open_extract junk fuel))) = false.
Proof. intros o junk fuel. apply (szdd_script_open_extract_clean o junk fuel). Qed.
Print Assumptions C20_szdd_open_extract_close_callbacks_ok.

From MSP Require Import L2.Kwaj Proofs.KwajLedger.
Theorem C20_kwaj_decompress_callbacks_ok : forall junk fuel (lzh mszip : handle -> handle -> prog N),
  (forall L R W fh oh, fh ∈ R -> oh ∈ W -> triple (st L R W) (lzh fh oh) (fun _ => st L R W)) ->
  (forall L R W fh oh, fh ∈ R -> oh ∈ W -> triple (st L R W) (mszip fh oh) (fun _ => st L R W)) ->
  forall o : oracle, bad (snd (run o mon0 (kscript_decompress junk fuel lzh mszip))) = false.
Proof. intros junk fuel lzh mszip H1 H2 o. apply (kwaj_script_decompress_clean junk fuel lzh mszip H1 H2 o). Qed.
Theorem C20_kwaj_open_extract_close_callbacks_ok : forall junk fuel (lzh mszip : handle -> handle -> prog N),
  (forall L R W fh oh, fh ∈ R -> oh ∈ W -> triple (st L R W) (lzh fh oh) (fun _ => st L R W)) ->
  (forall L R W fh oh, fh ∈ R -> oh ∈ W -> triple (st L R W) (mszip fh oh) (fun _ => st L R W)) ->
  forall o : oracle, bad (snd (run o mon0 (kscript_open_extract junk fuel lzh mszip))) = false.
Proof. intros junk fuel lzh mszip H1 H2 o. apply (kwaj_script_open_extract_clean junk fuel lzh mszip H1 H2 o). Qed.
Print Assumptions C20_kwaj_decompress_callbacks_ok.
Print Assumptions C20_kwaj_open_extract_close_callbacks_ok.
