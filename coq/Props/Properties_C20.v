(* C20 — the caller's mspack_system is used exactly as documented.  Statements only.
   The monitor of Proofs/Mon.v raises [bad] on: open with a mode other than READ for an archive name / WRITE for an output name;
   read/write/seek/tell/message on a handle that is not open (read on a handle not opened for reading, write on one not opened
   for writing); negative read or alloc sizes; seek whence outside {0,1,2}; close of a handle that is not open; free of a
   non-NULL pointer that is not a live allocation. *)
From stdpp Require Import gmap.
From Coq Require Import NArith.
From MSP Require Import L2.Sys L2.Szdd Proofs.Mon Proofs.SzddLedger.

Theorem C20_szdd_decompress_callbacks_ok : forall (o : oracle) junk fuel, bad (snd (run o mon0 (script_decompress junk fuel))) = false.
Proof. intros o junk fuel. apply (szdd_script_decompress_clean o junk fuel). Qed.
Print Assumptions C20_szdd_decompress_callbacks_ok.

Theorem C20_szdd_open_extract_close_callbacks_ok : forall (o : oracle) junk fuel, bad (snd (run o mon0 (script_open_extract junk fuel))) = false.
Proof. intros o junk fuel. apply (szdd_script_open_extract_clean o junk fuel). Qed.
Print Assumptions C20_szdd_open_extract_close_callbacks_ok.
