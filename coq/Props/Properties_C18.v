(* C18 — salvage and repair modes only relax.  Statements only (decision rules of Model/Salvage.v, Model/CabBlock.v, Model/Cksum.v). *)
From Coq Require Import List NArith Bool.
From MSP Require Import Gen.Consts Model.Cksum Model.CabBlock Model.Salvage Proofs.SalvageP.
Import ListNotations. Local Open Scope N_scope.

(* whatever strict mode accepts, the relaxed modes accept with the same result: file table, block sizes, block checksum, member length *)
Theorem C18_listing_relax : forall nf es r, listing false nf es = Some r -> listing true nf es = Some r.
Proof. exact listing_relax. Qed.
Print Assumptions C18_listing_relax.
Theorem C18_block_sizes_relax : forall lens have h, accept_parts false have lens = Some h -> accept_parts true have lens = Some h.
Proof. exact accept_parts_relax. Qed.
Print Assumptions C18_block_sizes_relax.
Theorem C18_checksum_relax : forall stored hdr4 payload, block_ok false stored hdr4 payload = true -> forall ig, block_ok ig stored hdr4 payload = true.
Proof. exact block_ok_relax. Qed.
Print Assumptions C18_checksum_relax.
Theorem C18_length_relax : forall off len l, extract_len false off len = Some l -> extract_len true off len = Some l.
Proof. exact extract_len_relax. Qed.
Print Assumptions C18_length_relax.

(* what salvage recovers: exactly the entries with a valid folder index and name, in order; blocks with intact data and a wrong checksum *)
Theorem C18_salvage_lists_valid_entries : forall nf es, file_table true nf es = Some (filter (entry_ok nf) es).
Proof. exact file_table_salvage. Qed.
Print Assumptions C18_salvage_lists_valid_entries.
Theorem C18_wrong_checksum_salvaged : forall stored hdr4 payload,
  stored <> 0 -> stored <> block_sum hdr4 payload ->
  block_ok false stored hdr4 payload = false /\ block_ok true stored hdr4 payload = true.
Proof. exact wrong_checksum_salvaged. Qed.
Print Assumptions C18_wrong_checksum_salvaged.
