(* C07 — OK means complete; output never exceeds the declared size.  Statements only.
   Model/Account.v is the output accounting common to the four CAB/CHM/OAB decoders with the per-frame decoder abstracted to an
   arbitrary sequence of outcomes (so the statements cannot depend on decoding details). *)
From Coq Require Import List NArith.
From MSP Require Import Model.Account Proofs.AccountP.
Local Open Scope N_scope.

Theorem C07_written_le_requested : forall have out_bytes ps, written (decompress_call have out_bytes ps) <= out_bytes.
Proof. exact written_le_requested. Qed.
Print Assumptions C07_written_le_requested.

Theorem C07_ok_implies_exact : forall have out_bytes ps,
  status_ok (decompress_call have out_bytes ps) = true -> written (decompress_call have out_bytes ps) = out_bytes.
Proof. exact ok_implies_exact. Qed.
Print Assumptions C07_ok_implies_exact.

Theorem C07_short_is_error : forall have out_bytes ps,
  written (decompress_call have out_bytes ps) < out_bytes -> status_ok (decompress_call have out_bytes ps) = false.
Proof. exact short_is_error. Qed.
Print Assumptions C07_short_is_error.

Theorem C07_extract_pair_bound : forall have skip len ps1 ps2,
  fst (extract_pair have skip len ps1 ps2) <= len /\
  (snd (extract_pair have skip len ps1 ps2) = true -> fst (extract_pair have skip len ps1 ps2) = len).
Proof. exact extract_pair_bound. Qed.
Print Assumptions C07_extract_pair_bound.

(* ---- the real MSZIP port (Model/Mszip.v: zcall = mszipd_decompress, zframe = 'CK' search + inflate), tied to mszipd.c by the
        decoder-level correspondence: no abstraction of the per-frame decoder here ---- *)
From MSP Require Import Base.Src Model.Mszip Proofs.MszipClean Proofs.MszipAcct Proofs.NoWrite.
(* the frame decoder never calls write, whatever the input *)
Theorem C07_mszip_frame_decoder_only_reads : forall rule hint st s r s',
  ideal rule hint (zframe st) s = (r, s') -> iout s' = iout s.
Proof. intros rule hint st s r s' H. exact (proj1 (clean_run rule hint _ (cleanm_zframe st) _ _ _ H)). Qed.
Print Assumptions C07_mszip_frame_decoder_only_reads.
(* a call asked for n bytes: never more than n written (any outcome: OK, error status, end of input); exactly n when it says OK;
   and the stream-state invariant the statement needs is re-established, so this holds for every call of every sequence from mszipd_init *)
Theorem C07_mszip_port_accounting : forall rule hint n z i r i1, zo z <= zend z ->
  ideal rule hint (zcall n z) i = (r, i1) ->
  olen i <= olen i1 /\ olen i1 <= olen i + n /\
  (forall fl z1, r = SVal (OK, fl, z1) -> olen i1 = olen i + n /\ zo z1 <= zend z1).
Proof. exact zcall_acct. Qed.
Print Assumptions C07_mszip_port_accounting.
Example C07_mszip_init_state : zo zinit <= zend zinit. Proof. vm_compute. discriminate. Qed.

(* ---- the real LZX port (Model/Lzx.v: decompress = lzxd_decompress, lzx_call = one call with its sticky error, lzx_run = a whole
        sequence of calls from lzxd_init), tied to lzxd.c by the decoder-level correspondence ---- *)
From MSP Require Import Model.Lzx Proofs.NoWrite Proofs.LzxClean Proofs.LzxAcct Props.OabSample.
(* everything between two writes of a frame (reset, block headers, code lengths and tables, the symbol loop, realignment) only reads *)
Theorem C07_lzx_block_decoder_only_reads : forall rule hint fuel todo st s r s',
  ideal rule hint (todo_loop fuel todo st) s = (r, s') -> iout s' = iout s.
Proof. intros rule hint fuel todo st s r s' H. exact (proj1 (nowrite_run _ rule hint _ (nwm_todo_loop fuel todo st) _ _ _ H)). Qed.
Print Assumptions C07_lzx_block_decoder_only_reads.
(* a call asked for n bytes on any stream state (no invariant needed), any input, any output-length hint: never more than n written
   whatever the outcome (OK, DECRUNCH, sticky error, end of input); exactly n when it returns 0 *)
Theorem C07_lzx_port_accounting : forall hint s i n st s' i', lzx_call hint s i n = (st, s', i') ->
  olen i <= olen i' /\ olen i' <= olen i + n /\ (st = 0 -> olen i' = olen i + n).
Proof. exact lzx_call_acct. Qed.
Print Assumptions C07_lzx_port_accounting.
(* a whole sequence of calls from lzxd_init *)
Theorem C07_lzx_stream_accounting : forall wb ri outlen delta ref inp reqs sts out, lzx_run wb ri outlen delta ref inp reqs = (sts, out) ->
  length sts = length reqs /\ N.of_nat (length out) <= sumN reqs /\ (Forall (fun st => st = 0) sts -> N.of_nat (length out) = sumN reqs).
Proof. exact lzx_run_acct. Qed.
Print Assumptions C07_lzx_stream_accounting.
(* non-vacuity: a generated stream decoded in three calls says OK three times (and a fourth call past the end does not) *)
Import ListNotations.
Example C07_lzx_sample : let n := N.of_nat (length s_data) in
  lzx_run 17 0 n true [] (s_stream ++ s_pad) [10; 1; n - 11] = ([0; 0; 0], s_data) /\
  fst (lzx_run 17 0 n true [] (s_stream ++ s_pad) [n; 5]) <> [0; 0].
Proof. split; [vm_compute; reflexivity|vm_compute; discriminate]. Qed.

(* ---- the real Quantum port (Model/Qtm.v: decompress = qtmd_decompress incl. the window flush inside the match loop) ---- *)
From MSP Require Import Model.Qtm Proofs.QtmAcct Props.QtmSample.
(* the arithmetic decoder (model lookup, update, renormalisation) and the frame trailer scan only read *)
Theorem C07_qtm_symbol_decoder_only_reads : forall rule hint m st s r s',
  ideal rule hint (get_symbol m st) s = (r, s') -> iout s' = iout s.
Proof. intros rule hint m st s r s' H. exact (proj1 (nowrite_run _ rule hint _ (QtmAcct.nwm_get_symbol m st) _ _ _ H)). Qed.
Print Assumptions C07_qtm_symbol_decoder_only_reads.
Theorem C07_qtm_port_accounting : forall s i n st s' i', qtm_call s i n = (st, s', i') ->
  olen i <= olen i' /\ olen i' <= olen i + n /\ (st = 0 -> olen i' = olen i + n).
Proof. exact qtm_call_acct. Qed.
Print Assumptions C07_qtm_port_accounting.
Theorem C07_qtm_stream_accounting : forall wb inp reqs sts out, qtm_run wb inp reqs = (sts, out) ->
  length sts = length reqs /\ N.of_nat (length out) <= QtmAcct.sumN reqs /\ (Forall (fun st => st = 0) sts -> N.of_nat (length out) = QtmAcct.sumN reqs).
Proof. exact qtm_run_acct. Qed.
Print Assumptions C07_qtm_stream_accounting.
(* non-vacuity: a generated 1 KiB-window stream (the window wraps twice) decoded in three calls *)
Example C07_qtm_sample : qtm_run 10 q_stream [100; 1500; 1000] = ([0; 0; 0], q_data).
Proof. vm_compute. reflexivity. Qed.
