(* C07 — OK means complete; output never exceeds the declared size.  Statements only.
   Model/Account.v is the output accounting common to the four CAB/CHM/OAB decoders with the per-frame decoder abstracted to an
   arbitrary sequence of outcomes (so the statements cannot depend on decoding details). *)
From Coq Require Import List NArith.
From MSP Require Import Model.Account Proofs.AccountP.
Local Open Scope N_scope.

Theorem C07_written_le_requested : forall have out_bytes ps, written (decompress_call have out_bytes ps) <= out_bytes.
Proof. exact written_le_requested. Qed.
Print Assumptions C07_written_le_requested.

Theorem C07_ok_implies_exact : forall have out_bytes ps,
  status_ok (decompress_call have out_bytes ps) = true -> written (decompress_call have out_bytes ps) = out_bytes.
Proof. exact ok_implies_exact. Qed.
Print Assumptions C07_ok_implies_exact.

Theorem C07_short_is_error : forall have out_bytes ps,
  written (decompress_call have out_bytes ps) < out_bytes -> status_ok (decompress_call have out_bytes ps) = false.
Proof. exact short_is_error. Qed.
Print Assumptions C07_short_is_error.

Theorem C07_extract_pair_bound : forall have skip len ps1 ps2,
  fst (extract_pair have skip len ps1 ps2) <= len /\
  (snd (extract_pair have skip len ps1 ps2) = true -> fst (extract_pair have skip len ps1 ps2) = len).
Proof. exact extract_pair_bound. Qed.
Print Assumptions C07_extract_pair_bound.

(* ---- the real MSZIP port (Model/Mszip.v: zcall = mszipd_decompress, zframe = 'CK' search + inflate), tied to mszipd.c by the
        decoder-level correspondence: no abstraction of the per-frame decoder here ---- *)
From MSP Require Import Base.Src Model.Mszip Proofs.MszipClean Proofs.MszipAcct.
(* the frame decoder never calls write, whatever the input *)
Theorem C07_mszip_frame_decoder_only_reads : forall rule hint st s r s',
  ideal rule hint (zframe st) s = (r, s') -> iout s' = iout s.
Proof. intros rule hint st s r s' H. exact (proj1 (clean_run rule hint _ (cleanm_zframe st) _ _ _ H)). Qed.
Print Assumptions C07_mszip_frame_decoder_only_reads.
(* a call asked for n bytes: never more than n written (any outcome: OK, error status, end of input); exactly n when it says OK;
   and the stream-state invariant the statement needs is re-established, so this holds for every call of every sequence from mszipd_init *)
Theorem C07_mszip_port_accounting : forall rule hint n z i r i1, zo z <= zend z ->
  ideal rule hint (zcall n z) i = (r, i1) ->
  olen i <= olen i1 /\ olen i1 <= olen i + n /\
  (forall fl z1, r = SVal (OK, fl, z1) -> olen i1 = olen i + n /\ zo z1 <= zend z1).
Proof. exact zcall_acct. Qed.
Print Assumptions C07_mszip_port_accounting.
Example C07_mszip_init_state : zo zinit <= zend zinit. Proof. vm_compute. discriminate. Qed.
