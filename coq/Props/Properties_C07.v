(* C07 — OK means complete; output never exceeds the declared size.  Statements only.
   Model/Account.v is the output accounting common to the four CAB/CHM/OAB decoders with the per-frame decoder abstracted to an
   arbitrary sequence of outcomes (so the statements cannot depend on decoding details). *)
From Coq Require Import List NArith.
From MSP Require Import Model.Account Proofs.AccountP.
Local Open Scope N_scope.

Theorem C07_written_le_requested : forall have out_bytes ps, written (decompress_call have out_bytes ps) <= out_bytes.
Proof. exact written_le_requested. Qed.
Print Assumptions C07_written_le_requested.

Theorem C07_ok_implies_exact : forall have out_bytes ps,
  status_ok (decompress_call have out_bytes ps) = true -> written (decompress_call have out_bytes ps) = out_bytes.
Proof. exact ok_implies_exact. Qed.
Print Assumptions C07_ok_implies_exact.

Theorem C07_short_is_error : forall have out_bytes ps,
  written (decompress_call have out_bytes ps) < out_bytes -> status_ok (decompress_call have out_bytes ps) = false.
Proof. exact short_is_error. Qed.
Print Assumptions C07_short_is_error.

Theorem C07_extract_pair_bound : forall have skip len ps1 ps2,
  fst (extract_pair have skip len ps1 ps2) <= len /\
  (snd (extract_pair have skip len ps1 ps2) = true -> fst (extract_pair have skip len ps1 ps2) = len).
Proof. exact extract_pair_bound. Qed.
Print Assumptions C07_extract_pair_bound.
