"""C18 — salvage and repair modes only relax: valid data is never changed."""
import random, struct
import vlib
from vlib import scenario, gen, cabfmt
from props.common import proof_broken
from props.cabtamper import _blocks

EXPLANATION = ("Theorems: each relaxed decision rule (file table, block size limits, block checksum, member length) accepts whatever the strict rule accepts, with the "
  "same result; salvage lists exactly the entries with a valid folder index and name; a block with intact data and a wrong stored checksum is refused strictly and "
  "accepted with the flag.  Search: generated cabinets/sets under the four SALVAGE x FIXMSZIP combinations must list and extract identically; cabinets derived from "
  "them by bad folder indices at chosen table positions and by wrong stored checksums on chosen blocks must, in salvage mode (FIXMSZIP for MSZIP folders), list exactly "
  "the remaining members and extract their original bytes, while strict mode refuses.")

def run(res, tier, replay):
    rng = random.Random(vlib.seed() * 13466917 + 18)
    res.rule = ("valid archives x 4 parameter combinations; defect (a): k file entries with folder index >= num_folders inserted at chosen positions; defect (b): stored checksum of "
                "chosen blocks replaced by a wrong non-zero value; non-trivial = distinct (archive, defect, combination)")
    proofs_ok = vlib.coq_gate(res, "Properties_C18")
    ok, log, exe = vlib.build_impl("asan")
    if not ok: res.oblige("C harness builds", False, log[-300:]); proof_broken(res, "C18"); return "proof"
    n = 10 if tier == "quick" else 120
    scns = []; meta = []
    def scn(files, parts, combo, nmem):
        sc = scenario.Scn()
        for k, nm in enumerate(parts): sc.file("in%d.cab" % k, files[nm])
        sc.op("cab_new").op("cab_param", 3, combo[0]).op("cab_param", 1, combo[1])
        for k in range(len(parts)): sc.op("cab_open", "c%d" % k, "in%d.cab" % k)
        for k in range(1, len(parts)): sc.op("cab_append", "c%d" % (k - 1), "c%d" % k)
        sc.op("cab_list", "c0").op("cab_extract_all", "c0", "out", 60)
        return sc
    combos = [(0, 0), (1, 0), (0, 1), (1, 1)]
    for i in range(n):
        c = gen.cab_single(rng, big=(i % 3 == 0)) if i % 3 else gen.cab_set(rng)
        if i % 6 == 1:
            # a Quantum folder with a window smaller than a frame whose data never wraps it: decodes in strict mode, must decode the same relaxed
            wbq = [10, 12, 14, 11, 13][(i // 6) % 5]
            c = gen.CabCase(); fo = cabfmt.Folder(("qtm", wbq), [cabfmt.Member(b"s%d.bin" % j, length=[414, 350, 200][j]) for j in range(3)])
            c.folders = [fo]; c.kw = {}; c.files["in0.cab"] = cabfmt.build_single([fo], rng, with_ck=True); c.parts = ["in0.cab"]; c.members = list(fo.members)
        for combo in combos:
            scns.append(scn(c.files, c.parts, combo, len(c.members))); meta.append(("valid", i, combo, c, None))
        # the settings changed between two members of a folder (the decoder of the folder is alive): still nothing changes on a valid archive
        for combo in ((0, 0), (1, 1)) if i % 2 == 0 else ((0, 1),):
            sc = scenario.Scn()
            for k, nm in enumerate(c.parts): sc.file("in%d.cab" % k, c.files[nm])
            sc.op("cab_new").op("cab_param", 3, combo[0]).op("cab_param", 1, combo[1])
            for k in range(len(c.parts)): sc.op("cab_open", "c%d" % k, "in%d.cab" % k)
            for k in range(1, len(c.parts)): sc.op("cab_append", "c%d" % (k - 1), "c%d" % k)
            sc.op("cab_list", "c0"); cur = list(combo)
            for mi in range(min(len(c.members), 60)):
                if mi > 0:
                    w = (mi + i) % 3
                    if w != 2: cur[1] ^= 1; sc.op("cab_param", 1, cur[1])
                    if w == 2: cur[0] ^= 1; sc.op("cab_param", 3, cur[0])
                sc.op("cab_extract", "c0", mi, "out%d" % mi)
            scns.append(sc); meta.append(("valid", 100000 + i, combo, c, None))
        if len(c.parts) == 1:
            cab = c.files[c.parts[0]]
            # (b) wrong stored checksums on chosen blocks
            blocks = [b for b in _blocks(cab) if b[3] != 0]
            if blocks:
                bad = bytearray(cab)
                for (q, cb, dres, ck) in rng.sample(blocks, min(len(blocks), rng.randrange(1, 3))):
                    struct.pack_into("<I", bad, q, (ck ^ rng.choice([1, 0x8000, 0xFFFFFFFF])) or 1)
                for combo in combos:
                    scns.append(scn({"x": bytes(bad)}, ["x"], combo, len(c.members))); meta.append(("cksum", i, combo, c, None))
            # (a) entries with an invalid folder index: rebuild with extra entries
            nf = len(c.folders)
            def hook_files(files):
                out = list(files); k = rng.randrange(1, 3)
                for j_ in range(k): out.insert(0 if (j_ == 0 and i % 2 == 1) else rng.randrange(0, len(out) + 1), (b"bad%d.bin" % rng.randrange(99), 10, 0, rng.choice([nf, nf + 1, 500, 0xFFFC]), 1, 1, 0x20))      # every other cabinet: the first entry is a bad one
                return out
            fp = []; files = []
            for fi, f in enumerate(c.folders):
                fp.append((f.comp_type(), f.blocks)); off = 0
                for m in f.members: files.append((m.name, m.length, off, fi, m.date, m.time, m.attribs)); off += m.length
            badcab = cabfmt.build_cab(fp, hook_files(files), **c.kw)
            for combo in combos:
                scns.append(scn({"x": badcab}, ["x"], combo, len(c.members))); meta.append(("fidx", i, combo, c, None))
    # search() instead of open(): a valid cabinet that holds, stored, a member which is itself a cabinet.  The scanner skips the
    # bytes of a cabinet it has read; relaxed modes must not make it report what lies inside
    class _C: pass
    for i in range(max(2, n // 3)):
        inner = gen.cab_single(rng, nfolders=1, methods=[("none",)]).files["in0.cab"]
        mem = [cabfmt.Member(b"a.txt", bytes(rng.choice(b"abc\n") for _ in range(rng.choice([5, 300])))), cabfmt.Member(b"inner.cab", inner),
               cabfmt.Member(b"z.bin", bytes(rng.randrange(256) for _ in range(rng.choice([0, 40]))))]
        if rng.random() < 0.5: mem = mem[:2]
        fo = cabfmt.Folder(("none",) if i % 2 == 0 else ("mszip",), mem)
        outer = cabfmt.build_single([fo], rng)
        c = _C(); c.members = mem; c.folders = [fo]; c.files = {"in0.cab": outer}; c.parts = ["in0.cab"]
        for tail in (b"", b"\0"):
            for combo in combos:
                sc = scenario.Scn().file("in0.cab", outer + tail).op("cab_new").op("cab_param", 3, combo[0]).op("cab_param", 1, combo[1])
                sc.op("cab_search", "c0", "in0.cab").op("cab_list", "c0").op("cab_extract_all", "c0", "out", 60)
                scns.append(sc); meta.append(("valid", 1000 + 2 * i + len(tail), combo, c, None))
    # MSZIP folders whose blocks before the last one are shorter than 32768 bytes (each block deflated on its own): valid, and
    # the repair mode must leave them alone
    import zlib
    for i in range(max(2, n // 4)):
        sizes = [1000, 32768, 5000] if i == 0 else [rng.choice([1000, 5000, 32768]), rng.choice([32768, 2000]), rng.choice([5000, 100])]
        data = bytes(rng.choice(b"abcdefgh \n") for _ in range(sum(sizes))); blocks = []; o = 0
        for sz in sizes:
            co = zlib.compressobj(6, zlib.DEFLATED, -15); blocks.append((b"CK" + co.compress(data[o:o + sz]) + co.flush(), sz)); o += sz
        cut = rng.randrange(1, sizes[0])
        mem = [cabfmt.Member(b"a.bin", data[:cut]), cabfmt.Member(b"b.bin", data[cut:])]
        for m_ in mem: m_.length = len(m_.data)
        cabb = cabfmt.build_cab([(1, blocks)], [(b"a.bin", cut, 0, 0, 0x5A21, 0x6C43, 0x20), (b"b.bin", len(data) - cut, cut, 0, 0x5A21, 0x6C43, 0x20)])
        c = _C(); c.members = mem; c.folders = [cabfmt.Folder(("mszip",), mem)]; c.files = {"x": cabb}; c.parts = ["x"]
        for combo in combos:
            scns.append(scn(c.files, c.parts, combo, 2)); meta.append(("valid", 2000 + i, combo, c, None))
    # directed (own generator state): one wrong stored checksum in every method - a one-block LZX folder (the block is also the last: its
    # length hint), a three-block LZX folder, a three-block Quantum folder (trailer byte per block), MSZIP, stored; first / middle / last block
    for di, (meth, lens) in enumerate(((("lzx", 16), [187]), (("lzx", 17), [40000, 30000, 20000]), (("qtm", 16), [40000, 30000, 20000]), (("mszip",), [40000, 30000]), (("none",), [40000, 30000]))):
        for which in (0, 1, -1):
            r18 = random.Random(1800 + di)
            if meth[0] in ("lzx", "qtm"): mem = [cabfmt.Member(b"k%d.bin" % j, length=ln) for j, ln in enumerate(lens)]
            else: mem = cabfmt.random_members(r18, len(lens), lens=lens)
            c = gen.CabCase(); fo = cabfmt.Folder(meth, mem); c.folders = [fo]; cab = cabfmt.build_single([fo], r18, with_ck=True); c.members = list(fo.members)
            blocks = [b for b in _blocks(cab) if b[3] != 0]
            if not blocks or (which == 1 and len(blocks) < 3): continue
            q, cb, dres, ck = blocks[which]; bad = bytearray(cab); struct.pack_into("<I", bad, q, (ck ^ 0x8000) or 1)
            for combo in combos:
                scns.append(scn({"x": bytes(bad)}, ["x"], combo, len(c.members))); meta.append(("cksum", 200000 + 10 * di + which + 1, combo, c, None))
    trs = scenario.run_scenarios(exe, scns)
    nbad = 0
    def summary(t):
        lst = [o for o in t.ops if o.name == "cab_list"]
        files = tuple(l for l in (lst[-1].lines if lst else []) if l.startswith(" file "))
        exs = tuple((o.kv.get("st"), o.out) for o in t.ops if o.name == "cab_extract")
        opens = tuple(o.kv.get("ok") for o in t.ops if o.name == "cab_open")
        return opens, files, exs
    base = {}
    for t, (kind, i, combo, c, _), sc in zip(trs, meta, scns):
        res.evaluations += 1; res.nontrivial.add((kind, i, combo)); res.count(kind + "-%d%d" % combo)
        if t.crash or t.hang:
            if res.violation("crash/hang (%s, salvage=%d fixmszip=%d): %s" % (kind, combo[0], combo[1], (t.crash or "hang")[-200:]), sc.text(), key="crash"): nbad += 1
            continue
        opens, files, exs = summary(t); why = None
        want = [(m.name.hex(), m.length) for m in c.members]
        got = [(dict(x.split("=", 1) for x in l.split()[1:])["name"], int(dict(x.split("=", 1) for x in l.split()[1:])["len"])) for l in files]
        good_ex = all(st == "0" and out == m.data.hex() for (st, out), m in zip(exs, c.members)) and len(exs) == len(c.members)
        qtm_small = any(f.method[0] == "qtm" and f.method[1] < 15 for f in c.folders)
        if kind == "valid":
            if combo == (0, 0): base[i] = (opens, files, exs)
            if got != want or not good_ex:
                # (small-window Quantum folders can fail in every mode alike: recorded finding qtm-small-window-wrap; excused only when this run equals the strict one)
                if not (qtm_small and got == want and (combo == (0, 0) or (i in base and base[i] == (opens, files, exs)))): why = "valid archive under salvage=%d fixmszip=%d: listing ok=%s, extraction ok=%s" % (combo[0], combo[1], got == want, good_ex)
            elif i in base and base[i] != (opens, files, exs): why = "valid archive gives different results under salvage=%d fixmszip=%d than in strict mode" % combo
        elif kind == "cksum":
            all_mszip = all(f.method[0] == "mszip" for f in c.folders)
            relaxed = combo[0] == 1 or (combo[1] == 1 and all_mszip)
            if relaxed and not (got == want and good_ex) and not qtm_small: why = "wrong stored checksum, intact data, salvage=%d fixmszip=%d: members not recovered (listing ok=%s, extraction ok=%s)" % (combo[0], combo[1], got == want, good_ex)
            if combo == (0, 0) and good_ex and len(exs) > 0 and any(m.length for m in c.members): why = "strict mode accepted blocks with a wrong stored checksum"
        else:
            if combo[0] == 1 and not (got == want and good_ex) and not qtm_small: why = "entries with a bad folder index, salvage mode: remaining members not listed/extracted exactly (listing %s)" % (got[:3],)
            if combo[0] == 0 and opens and opens[0] == "1": why = "strict mode opened a cabinet containing an entry with an invalid folder index"
        if why:
            if res.violation(why, sc.text(), key="c18:" + kind): nbad += 1
    res.oblige("search: %d runs over valid and derived cabinets under the four parameter combinations behave as specified" % len(scns), nbad == 0)
    res.traces += len(scns)
    res.samples = [" | ".join(l for l in s.lines if not l.startswith("file "))[:200] for s in scns[:2]]
    if not proofs_ok: proof_broken(res, "C18")
    return "proof"
