"""C16 — cabextract never writes outside the destination directory."""
import random, os, shutil, subprocess, tempfile, hashlib
import vlib
from vlib import cabfmt
from props.common import proof_broken, diff_engines

EXPLANATION = ("Theorems: for every member name, case-folding function, slash convention and UTF-8 flag, the name after 'dir/' has no '../' or '..\\\\', no leading "
  "slash, no NUL and fits the allocated buffer (Model/OutName.v = port of create_output_name).  Tie: the extracted port vs the C function (cabextract.c compiled into "
  "a wrapper unit) on generated names.  Search: the cabextract binary built from the tree is run on cabinets with hostile member names in a sandbox whose destination "
  "tree contains planted symlinks (live and dangling, as directory components and as final component); the tree outside the destination is snapshotted before and after.")

PIECES = [b"..", b"../", b"..\\", b"/", b"\\", b"//", b"\\\\", b".", b"a", b"dir", b"x/y", b"\xc0\xaf", b"\xe0\x80\xaf", b"\xc0\xae", b"\xf0\x80\x80\xaf", b"\xe0\x80\xae",
          b"\xc3\xa9", b"\xe2\x82\xac", b"\xf0\x9f\x98\x80", b"\xff", b"\x80", b"\xed\xa0\x80", b"\xef\xbf\xbe", b"C:", b" ", b"A", b"Z", b"\xc5\x81", b"...", b"..x", b"x..", b"\x01"]
def gen_name(rng):
    n = rng.randrange(1, 9); b = b"".join(rng.choice(PIECES) for _ in range(n))
    if rng.random() < 0.2: b = bytes(rng.randrange(1, 256) for _ in range(rng.randrange(1, 40)))
    b = b.replace(b"\0", b"x")[:255]
    return b or b"a"

def snapshot(root):
    out = {}
    for dp, dn, fn in os.walk(root, followlinks=False):
        for x in dn + fn:
            p = os.path.join(dp, x); st = os.lstat(p)
            if os.path.islink(p): out[os.path.relpath(p, root)] = ("link", os.readlink(p))
            elif os.path.isdir(p): out[os.path.relpath(p, root)] = ("dir",)
            else: out[os.path.relpath(p, root)] = ("file", hashlib.md5(open(p, "rb").read()).hexdigest())
    return out

def fs_search(res, tier, rng, exe):
    n = 40 if tier == "quick" else 600
    nbad = 0
    base = tempfile.mkdtemp(prefix="c16_")
    try:
        for i in range(n):
            work = os.path.join(base, "w%d" % i); dest = os.path.join(work, "dest"); outside = os.path.join(work, "outside")
            os.makedirs(dest); os.makedirs(outside)
            open(os.path.join(outside, "victim.txt"), "w").write("original")
            os.makedirs(os.path.join(outside, "sub")); open(os.path.join(outside, "sub", "v2.txt"), "w").write("original2")
            # members: hostile names, some aimed at the planted links
            names = []
            isunix = rng.random() < 0.5; sep = b"/" if isunix else b"\\"
            plan = ["dirlink", "dangling-final", "live-final", "dotdot", "abs", "mixed", "longname", "interactive"][i % 8]       # every plan x every option set
            force_utf = None; extra_opts = []; stdin_data = None; keep_order = False
            if plan == "dirlink":
                os.symlink(outside, os.path.join(dest, "assets")); names = [b"assets" + sep + b"victim.txt", b"assets" + sep + b"new.txt", b"assets" + sep + b"sub" + sep + b"v2.txt",
                         b"assets" + sep + sep + b"dbl.txt", b"assets" + sep + b"." + sep + b"dot.txt", b"assets" + sep + sep + sep + b"victim.txt"]
            elif plan == "dangling-final":
                os.symlink(os.path.join(outside, "created-by-link.txt"), os.path.join(dest, "hello.c")); names = [b"hello.c"]
                os.makedirs(os.path.join(dest, "d")); os.symlink(os.path.join(outside, "created2.txt"), os.path.join(dest, "d", "f.txt")); names.append(b"d" + sep + b"f.txt")
            elif plan == "live-final":
                os.symlink(os.path.join(outside, "victim.txt"), os.path.join(dest, "v.txt")); names = [b"v.txt"]
            elif plan == "dotdot":
                names = [b".." + sep + b"outside" + sep + b"victim.txt", b"a" + sep + b".." + sep + b".." + sep + b"outside" + sep + b"evil", b".." + (b"\\" if isunix else b"/") + b"outside" + sep + b"victim.txt", b"..", b"a" + sep + b".."]
            elif plan == "abs":
                names = [sep + outside.encode()[1:] + sep + b"victim.txt", sep + sep + b"etc" + sep + b"x", b"\xe0\x80\xaf" + outside.encode()[1:] + b"/victim.txt"]
            elif plan == "longname":
                # a name that fits the cabinet's 255 bytes but not the file system's once converted; links planted under what a shortened name would be
                if (i // 8) % 2 == 0:
                    names = [b"\xff" * 86]; force_utf = True; conv = b"\xef\xbf\xbd"
                else:
                    names = [b"\xe9" * 128]; force_utf = False; extra_opts = ["-e", "ISO-8859-1"]; conv = b"\xc3\xa9"
                for cut in (255, 254, 253, 252):
                    ln = (conv * 128)[:cut]
                    while ln and (ln[-1] & 0xC0) == 0x80: ln = ln[:-1]        # not inside a character
                    if ln and (ln[-1] & 0xC0) == 0xC0: ln = ln[:-1]
                    try: os.symlink(os.path.join(outside, "victim.txt" if cut % 2 else "created-by-long.txt"), os.path.join(dest.encode(), ln))
                    except OSError: pass
            elif plan == "interactive":
                # -i: an existing plain file makes cabextract ask, the answer (All / yes / yes yes) is remembered or repeated; later members are links
                open(os.path.join(dest, "first.txt"), "w").write("old")
                os.symlink(os.path.join(outside, "victim.txt"), os.path.join(dest, "second.txt"))
                os.symlink(os.path.join(outside, "created-by-i.txt"), os.path.join(dest, "third.txt"))
                os.makedirs(os.path.join(dest, "d")); os.symlink(os.path.join(outside, "sub", "v2.txt"), os.path.join(dest, "d", "fourth.txt"))
                names = [b"first.txt", b"second.txt", b"third.txt", b"d" + sep + b"fourth.txt"]; keep_order = True
                extra_opts = ["-i"]; stdin_data = [b"A\n", b"a\n", b"y\ny\ny\ny\n", b"y\nA\n"][(i // 8) % 4]
            else:
                names = [gen_name(rng) for _ in range(4)]
            if not keep_order: rng.shuffle(names)
            if False: rng.shuffle(names)       # the first member to reach a planted link decides what happens to it
            names = [nm[:255] for nm in names if nm and b"\0" not in nm][:6]
            utf = rng.random() < 0.4
            if force_utf is not None: utf = force_utf
            mem = [cabfmt.Member(nm, b"payload-%d" % k, attribs=(0x80 if utf else 0) | 0x20) for k, nm in enumerate(names)]
            if isunix and not any(b"/" in m.name for m in mem): pass
            cab = cabfmt.build_single([cabfmt.Folder(("none",), mem)], rng)
            cabp = os.path.join(work, "t.cab"); open(cabp, "wb").write(cab)
            before = snapshot(outside)
            opts = [[], ["-n"], ["-L"], ["-q"], ["-n", "-L"], ["-L", "-q"]][(i // 8) % 6] + extra_opts
            if plan == "interactive": opts = [o for o in opts if o != "-n"]
            r = subprocess.run([exe] + opts + ["-d", dest, cabp], capture_output=True, timeout=30, cwd=work, input=stdin_data if stdin_data is not None else b"")
            after = snapshot(outside)
            res.evaluations += 1; res.nontrivial.add((plan, tuple(names), tuple(opts))); res.count("fs-" + plan)
            if before != after:
                diff = {k: (before.get(k), after.get(k)) for k in set(before) | set(after) if before.get(k) != after.get(k)}
                replay = "# C16 file-system scenario (plan %s, options %s): files outside the destination changed: %s\n# member names (hex): %s\n# cabinet (hex): %s\n" % (
                    plan, opts, diff, [nm.hex() for nm in names], cab.hex())
                if res.violation("cabextract %s -d dest changed files outside the destination (%s): %s" % (" ".join(opts), plan, str(diff)[:200]), replay, key="fs:" + plan): nbad += 1
            # nothing must appear next to the destination either
            stray = [x for x in os.listdir(work) if x not in ("dest", "outside", "t.cab")]
            if stray:
                if res.violation("cabextract created %s beside the destination directory (plan %s)" % (stray, plan), "# names %s\n# cab %s\n" % ([nm.hex() for nm in names], cab.hex()), key="fs:stray"): nbad += 1
            shutil.rmtree(work, ignore_errors=True)
        # directed: a directory link in the archive-controlled part of the path that the extracting user cannot remove (the destination is
        # not writable for it, the link's target is): run as an unprivileged user - nothing may be written through the link
        if os.geteuid() == 0:
            for k, sep in enumerate((b"/", b"\\")):
                work = os.path.join(base, "wu%d" % k); dest = os.path.join(work, "dest"); outside = os.path.join(work, "outside")
                os.makedirs(dest); os.makedirs(os.path.join(outside, "sub")); open(os.path.join(outside, "victim.txt"), "w").write("original")
                os.symlink(outside, os.path.join(dest, "assets")); os.symlink(os.path.join(outside, "sub"), os.path.join(dest, "deep"))
                names = [b"assets" + sep + b"new.txt", b"assets" + sep + b"victim.txt", b"deep" + sep + b"x" + sep + b"y.txt"]
                cab = cabfmt.build_single([cabfmt.Folder(("none",), [cabfmt.Member(nm, b"payload-%d" % j) for j, nm in enumerate(names)])], random.Random(16))
                cabp = os.path.join(work, "t.cab"); open(cabp, "wb").write(cab)
                for d_ in (base, work): os.chmod(d_, 0o755)
                for dp, dn, fn in os.walk(outside): os.chmod(dp, 0o777)
                os.chmod(os.path.join(outside, "victim.txt"), 0o666); os.chmod(dest, 0o555)
                def drop(): os.setgid(65534); os.setuid(65534)
                # (the binary is run from a copy inside the sandbox tree: the build directory need not be reachable for that user)
                exe_u = os.path.join(work, "cabextract-copy"); shutil.copy(exe, exe_u); os.chmod(exe_u, 0o755)
                before = snapshot(outside)
                try:
                    r = subprocess.run([exe_u] + [[], ["-q"]][k] + ["-d", dest, cabp], capture_output=True, timeout=30, cwd="/", preexec_fn=drop)
                except (PermissionError, OSError, subprocess.SubprocessError):
                    res.count("fs-unremovable-link-not-runnable"); os.chmod(dest, 0o755); shutil.rmtree(work, ignore_errors=True); continue      # no way to run as another user here
                os.remove(exe_u)
                after = snapshot(outside); n += 1
                res.evaluations += 1; res.nontrivial.add(("unremovable-link", k)); res.count("fs-unremovable-link")
                if before != after:
                    diff = {k_: (before.get(k_), after.get(k_)) for k_ in set(before) | set(after) if before.get(k_) != after.get(k_)}
                    if res.violation("cabextract -d dest (run as an unprivileged user, links it cannot remove) changed files outside the destination: %s" % str(diff)[:200],
                                     "# C16 file-system scenario: dest mode 0555 holding links assets -> outside, deep -> outside/sub; run as uid 65534\n# member names (hex): %s\n# cabinet (hex): %s\n" % ([nm.hex() for nm in names], cab.hex()), key="fs:unremovable-link"): nbad += 1
                os.chmod(dest, 0o755); shutil.rmtree(work, ignore_errors=True)
    finally:
        shutil.rmtree(base, ignore_errors=True)
    res.oblige("search: %d sandbox runs of the cabextract binary left everything outside the destination untouched" % n, nbad == 0)

def run(res, tier, replay):
    rng = random.Random(vlib.seed() * 982451653 + 16)
    res.rule = ("names: concatenations of '..', slashes of both kinds, over-long and invalid UTF-8, plus random byte strings (1..255 bytes), x {lower} x {unix/dos separators} x {utf8}; "
                "file system: destination trees with symlinks planted as directory component / dangling final component / live final component, absolute and '..' names; "
                "non-trivial = distinct (name, flags) resp. (plan, names, options)")
    proofs_ok = vlib.coq_gate(res, "Properties_C16")
    ok, log, cx = vlib.build_cabx(); ok2, log2, mexe = vlib.build_model_drv()
    if not (ok and ok2): res.oblige("drivers build", False, (log + log2)[-400:]); proof_broken(res, "C16"); return "proof"
    n = 1500 if tier == "quick" else 60000
    cases = []
    for i in range(n):
        nm = gen_name(rng); cases.append("%d %d %d %s" % (rng.randrange(2), rng.randrange(2), rng.randrange(2), nm.hex()))
    # directed: '..' followed by a separator, every character spelled in every way the name converter may accept
    # (plain, 2-, 3- and 4-byte over-long forms), in front of / between / behind ordinary components, for all flag settings
    DOT = [b".", b"\xc0\xae", b"\xe0\x80\xae", b"\xf0\x80\x80\xae"]
    SEP = [b"/", b"\\", b"\xc0\xaf", b"\xe0\x80\xaf", b"\xf0\x80\x80\xaf", b"\xc1\x9c", b"\xe0\x81\x9c"]
    directed = []
    for d1 in DOT:
        for d2 in DOT:
            for sp in SEP:
                core = d1 + d2 + sp
                for nm in (core + b"x", b"a" + SEP[rng.randrange(2)] + core + b"x", core + core + b"x", sp + core + b"x"):
                    for fl in range(8): directed.append("%d %d %d %s" % (fl & 1, (fl >> 1) & 1, (fl >> 2) & 1, nm.hex()))
    if tier == "quick": directed = [c for c in directed if c.split()[2] == "1"] + rng.sample(directed, 200)
    cases = directed + cases
    rc_m, out_m, err_m = vlib.run_lines(mexe, ["outname"], cases)
    rc_c, out_c, err_c = vlib.run_lines(cx, ["outname"], cases)
    diffs = [(c, a, b) for c, a, b in zip(cases, out_m, out_c) if a != b]
    res.evaluations += len(cases); res.traces += len(cases)
    for c in cases: res.nontrivial.add(c)
    res.oblige("correspondence: port of create_output_name = C function on %d names (ASan/UBSan clean: rc=%d)" % (len(cases), rc_c), not diffs and rc_c == 0 and len(out_c) == len(cases), (str(diffs[:1]) + err_c[-300:])[:500])
    # the properties themselves, checked on the C output too
    bad = []
    for c, o in zip(cases, out_c):
        b = bytes.fromhex(o) if o not in ("-", "NULL") and not o.startswith("BAD") else b""
        if o.startswith("BAD") or b"../" in b or b"..\\" in b or b[:1] in (b"/", b"\\") or len(b) > 4 * (len(c.split()[3]) // 2): bad.append((c, o))
    if bad: res.violation("create_output_name(%s) = %s is not a safe name" % (bad[0][0], bad[0][1][:100]), "# engine outname: lower isunix utf8 namehex\n%s\n" % bad[0][0], key="outname")
    res.oblige("C output names have no '../', no leading slash and fit the buffer (%d names)" % len(cases), not bad)
    res.samples = cases[:3]
    ok3, log3, exe = vlib.build_cabextract()
    if ok3: fs_search(res, tier, rng, exe)
    else: res.oblige("cabextract binary builds from the tree", False, log3[-400:])
    if not proofs_ok or diffs:
        def s():
            for c, a, b in diffs[:1]:
                res.violation("port and C create_output_name differ on %s: model %s, C %s" % (c, a[:60], b[:60]), "# engine outname\n%s\n# model %s\n# C %s\n" % (c, a, b), found_input=False)
        proof_broken(res, "C16", s)
    return "proof"
