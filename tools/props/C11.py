"""C11 — results depend only on the input: no uninitialised memory reaches any output."""
import random
import vlib
from vlib import sweep
from props.common import proof_broken
from props import robust

EXPLANATION = ("Theorems: for every host the complete run of the SZDD/LZSS scripts is identical for any two contents of freshly allocated memory (bisimulation of the "
  "programs, window = image of memset + writes).  Tie: L2 correspondence.  Search: every corpus scenario of all five formats plus inputs built to reach unwritten "
  "memory (matches before the start of the stream in MSZIP / Quantum / LZX, KWAJ LZH length lists of undefined type) run under allocators pre-filling fresh memory "
  "with 0x00, 0xFF, 0xA5 and 0x04; statuses, listings and output bytes must be identical.")

def run(res, tier, replay):
    rng = random.Random(vlib.seed() * 2654435 + 11)
    res.rule = ("each scenario run four times with alloc() pre-filling memory with 0x00 / 0xFF / 0xA5 / 0x04; L1 transcripts compared; non-trivial = distinct scenario; "
                "hostile generators: first-block matches reaching before the stream start, undefined LZH length-list types")
    proofs_ok = vlib.coq_gate(res, "Properties_C11")
    robust.l2_szdd(res, tier, rng)
    robust.l2_kwaj(res, tier, rng)
    ok, log, exe = vlib.build_impl("asan")
    if ok:
        q = tier == "quick"
        base = sweep.repo_cases() + sweep.generated_cases(rng, 2 if q else 20)
        hostile = sweep.uninit_cases(rng, 6 if q else 80)
        # call sequences in which an earlier failed read could leave a half-filled buffer behind (a truncated CHM looked up twice, short reset tables ...)
        hostile += [c for c in sweep.targeted_cases(rng, 6 if q else 30) if c.label.startswith(("hostile:", "gen:chm"))]
        cases = robust.corpus_cases() + hostile + base + sweep.damaged_cases(rng, base, 1 if q else 6)
        n = robust.fill_oracle(res, cases, exe)
        # small fill values are plausible code lengths / symbols: the hostile inputs are also run with fresh memory holding 4, 5, 6, 8 and 1
        # (0x5A: the harness's read() first overwrites the whole destination with fill ^ 0x5A - with this fill the unread tail of a short read is zero)
        n += robust.fill_oracle(res, hostile, exe, fills=(0x00, 0x04, 0x05, 0x06, 0x08, 0x01, 0x5A))
        res.oblige("search: %d scenarios give identical transcripts under four allocator fill patterns" % len(cases), n == 0)
        for c in cases: res.nontrivial.add(c.label + str(hash(c.scn.text()))); res.count("case-" + c.label.split(":")[0])
        res.samples = [c.label + " :: " + " | ".join(l for l in c.scn.lines if not l.startswith("file "))[:200] for c in cases[:3]]
    else:
        res.oblige("C harness builds", False, log[-300:])
    if not proofs_ok: proof_broken(res, "C11")
    return "proof"
