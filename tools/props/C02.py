"""C02 — no input or call sequence makes any decompressor touch memory unsafely."""
import random
import vlib
from props.common import proof_broken
from props import robust

EXPLANATION = ("Theorems: CAB input-buffer bound for every sequence of block parts in both modes, against the array extent regenerated from cab.h; "
  "extents of all Huffman tables / code-length arrays against what the builders need (regenerated constants, vm_compute); lifetimes for the SZDD/LZSS "
  "port under every host.  Search (what the rest of the claim rests on): corpus, generated, damaged and hostile inputs of all five formats through the "
  "public API under ASan+UBSan (bounds, null, pointer-overflow, shift-exponent, divide-by-zero), clean and with sampled single faults, allocator fill 0xAA.")

def run(res, tier, replay):
    rng = random.Random(vlib.seed() * 65537 + 2)
    res.rule = ("scenario = (files, API script, fault plan) over repo test files, generator output of all formats, byte-level damage (header fields, flips, truncation, "
                "32-bit extremes, insertions) and hostile generators (CHM header fields, CAB block sizes at 32768/38912/38913/65535, salvage-mode skipped entries before joins); "
                "any sanitizer report or fatal signal is a violation; non-trivial = distinct scenario")
    proofs_ok = vlib.coq_gate(res, "Properties_C02")
    sw = robust.Sweep(res, tier, rng)
    if sw.ok:
        n = robust.crash_oracle(res, sw, include_faults=True)
        # directed (own generator state): two parts of one set found by ONE search() in one file are joined with each other, a member is
        # extracted, the list is closed through its head (repaired defect asan:heap-use-after-free:cabd_close, known_findings.json: reported again if it returns)
        from vlib import cabfmt, scenario
        r2 = random.Random(202)
        fo = cabfmt.Folder(("none",), [cabfmt.Member(b"e%d.bin" % j, data=bytes(r2.randrange(256) for _ in range(ln))) for j, ln in enumerate([3000, 40000])])
        for m_ in fo.members: m_.length = len(m_.data)
        fo.prepare(r2); cabs_, names_ = cabfmt.build_set([fo], [(0, 1, 5000)], r2, names=[b"e1.cab", b"e2.cab"])
        sc = scenario.Scn().file("in0.cab", bytes(300) + cabs_[0] + bytes(77) + cabs_[1]).op("cab_new").op("cab_search", "c0", "in0.cab").op("cab_append", "c0", "c0", 0, 1).op("cab_extract", "c0", 1, "out1", 0).op("cab_close", "c0")
        t = scenario.run_scenarios(sw.exe, [sc])[0]; res.evaluations += 1
        if t.crash:
            if res.violation("memory-safety report on directed:search-list-joined-close: %s" % robust.summarize(t.crash), sc.text() + "\n# " + t.crash[-2500:], key=robust.classify_crash(t.crash)): n += 1
        res.oblige("search: no sanitizer report / crash on %d clean and %d faulted runs (ASan+UBSan)" % (len(sw.cases), len(sw.run_faults())), n == 0)
        hangs = [c.label for c, t in zip(sw.cases, sw.clean) if t.hang]
        for c in sw.cases[:3]: res.samples.append(c.label + " :: " + " | ".join(l for l in c.scn.lines if not l.startswith("file "))[:300])
        for c in sw.cases: res.nontrivial.add(c.label + str(hash(c.scn.text())))
    if not proofs_ok: proof_broken(res, "C02")
    return "proof"
