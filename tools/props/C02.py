"""C02 — no input or call sequence makes any decompressor touch memory unsafely."""
import random
import vlib
from props.common import proof_broken
from props import robust

EXPLANATION = ("Theorems: CAB input-buffer bound for every sequence of block parts in both modes, against the array extent regenerated from cab.h; "
  "extents of all Huffman tables / code-length arrays against what the builders need (regenerated constants, vm_compute); lifetimes for the SZDD/LZSS "
  "port under every host.  Search (what the rest of the claim rests on): corpus, generated, damaged and hostile inputs of all five formats through the "
  "public API under ASan+UBSan (bounds, null, pointer-overflow, shift-exponent, divide-by-zero), clean and with sampled single faults, allocator fill 0xAA.")

def run(res, tier, replay):
    rng = random.Random(vlib.seed() * 65537 + 2)
    res.rule = ("scenario = (files, API script, fault plan) over repo test files, generator output of all formats, byte-level damage (header fields, flips, truncation, "
                "32-bit extremes, insertions) and hostile generators (CHM header fields, CAB block sizes at 32768/38912/38913/65535, salvage-mode skipped entries before joins); "
                "any sanitizer report or fatal signal is a violation; non-trivial = distinct scenario")
    proofs_ok = vlib.coq_gate(res, "Properties_C02")
    sw = robust.Sweep(res, tier, rng)
    if sw.ok:
        n = robust.crash_oracle(res, sw, include_faults=True)
        res.oblige("search: no sanitizer report / crash on %d clean and %d faulted runs (ASan+UBSan)" % (len(sw.cases), len(sw.run_faults())), n == 0)
        hangs = [c.label for c, t in zip(sw.cases, sw.clean) if t.hang]
        for c in sw.cases[:3]: res.samples.append(c.label + " :: " + " | ".join(l for l in c.scn.lines if not l.startswith("file "))[:300])
        for c in sw.cases: res.nontrivial.add(c.label + str(hash(c.scn.text())))
    if not proofs_ok: proof_broken(res, "C02")
    return "proof"
