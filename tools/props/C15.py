"""C15 — CHM fast_find() agrees with the full directory listing."""
import random
import vlib
from vlib import chmfmt, scenario
from props import chmlib
from props.common import proof_broken

EXPLANATION = ("Theorems (Properties_C15): compare() is the lexicographic order of lower-cased code points on canonical UTF-8; search_chunk on any well-laid-out chunk refines a search "
  "over the parsed entries, which on a sorted chunk is the plain scan (every density, every quick-reference space); fast_find over a PMGL chain and over an index of any depth "
  "answers as lookup in the listing; sorted directories / indexes satisfy the hypotheses for every canonical name; the chunk cache is transparent for any lookup history.  "
  "Tie: the extracted model (cached fast_find) vs the C library on the same files and lookup sequences.  Search: every listed name, case variants, near misses and absent names "
  "looked up in shuffled orders after open() and fast_open(), compared with the listing.")

def run(res, tier, replay):
    rng = random.Random(vlib.seed() * 15485863 + 15)
    res.rule = ("CHM directories of 1-700 entries, chunk sizes 40-8192 (index depth 1-5), densities 0-9, with/without index; names ASCII / 2-4 byte UTF-8, pairs differing only in the last "
                "(4-byte) character, names extending other names; lookups: every listed name (shuffled, twice - second time served from the chunk cache), case-flipped, near misses, absent; "
                "open() and fast_open(); non-trivial = distinct (file, lookup sequence)")
    proofs_ok = vlib.coq_gate(res, "Properties_C15")
    ok, log, mexe = vlib.build_model_drv(); ok2, log2, iexe = vlib.build_impl("asan")
    if not (ok and ok2):
        res.oblige("drivers build", False, (log + log2)[-500:]); proof_broken(res, "C15"); return "proof"
    n = 40 if tier == "quick" else 500
    cases = []; meta = []
    for i in range(n):
        try:
            if i == 9 or (i % 50 == 29):
                # every entry's length / offset needs a three-byte (or longer) ENCINT, tiny chunks: many entries end exactly where the
                # quick-reference area begins
                ee = [(b"/e%02d_%s" % (j, b"x" * (j % 5)), 0, 20000 * j + 16384, 16384 + 977 * j) for j in range(40)]
                p = dict(chunk_size=rng.choice([96, 128, 160]), density=rng.choice([1, 2]), with_index=(i % 2 == 1), version=3)
                chm, exp = chmfmt.build([(b"/a.txt", b"hello")], (), rng, extra_entries=ee, **p)
            elif i == 11 or (i % 50 == 31):
                # names that are not valid UTF-8 (single-byte code pages): bytes 0x80-0xC1 and 0xF6-0xFF, sequences cut short by the end of the name
                bad = [b"/\xfcbersicht.html", b"/caf\xe9", b"/caf\xe9.txt", b"/k\x80", b"/m\xff\xfe", b"/a\xc3", b"/d\xe2\x82", b"/b\xf0\x9f\x98", b"/n\xc0\xaf1", b"/z\xf8x"]     # pairwise different once decoded leniently
                f0 = [(nm, b"d%d" % k) for k, nm in enumerate(bad)] + [(b"/plain%02d" % k, b"") for k in range(12)]
                p = dict(chunk_size=rng.choice([128, 256, 4096]), density=rng.choice([0, 2]), with_index=True, version=3)
                chm, exp = chmfmt.build(f0, (), rng, **p)
            elif i in (13, 14) or (i % 50 in (33, 34)):
                # listing chunks chained in an order that is not their physical order (the links, not the positions, define the directory); no index / index
                used = set(); f0 = [(chmlib.rand_name(rng, used, maxlen=9), b"") for _ in range(rng.choice([30, 60]))]
                p = dict(chunk_size=rng.choice([96, 128]), density=rng.choice([1, 2]), with_index=(i % 2 == 0), version=3)
                chm, exp = chmfmt.build(f0, (), rng, chain_rng=random.Random(i), **p)
            elif i in (15, 16) or (i % 50 in (35, 36)):
                # the index chunk lies physically between the listing chunks (first_pmgl..last_pmgl spans it; open() skips it while listing)
                used = set(); f0 = [(chmlib.rand_name(rng, used, maxlen=9), b"") for _ in range(rng.choice([12, 20]))]
                p = dict(chunk_size=rng.choice([128, 160]), density=rng.choice([1, 2]), with_index=True, version=3)
                chm, exp = chmfmt.build(f0, (), rng, index_slot=(1 if i % 2 else 2), **p)
            elif i == 7 or (i % 100 == 57):
                # more than 1024 chunks (chunk numbers above any small table size): tiny chunks, thousands of short names
                f0 = [(b"/n%04d" % j, b"") for j in range(4200)]
                p = dict(chunk_size=64, density=1, with_index=True, version=3)
                chm, exp = chmfmt.build(f0, (), rng, **p)
            elif i % 5 == 4:
                # tiny chunks: deep indexes
                used = set(); f0 = [(chmlib.rand_name(rng, used, maxlen=5), b"") for _ in range(rng.choice([5, 30, 120]))]
                p = dict(chunk_size=rng.choice([40, 48, 64]), density=rng.choice([0, 1, 2]), with_index=True, version=3)
                chm, exp = chmfmt.build(f0, (), rng, **p)
            else:
                chm, exp, p = chmlib.rand_chm(rng, big=(i % 20 == 19), sec1=(i % 3 == 0))
        except ValueError: continue
        names = sorted(exp.keys(), key=chmfmt.sort_key)
        look = [("present", nm) for nm in rng.sample(names, min(len(names), 25))]
        if len(names) > 2000: look += [("present", nm) for nm in names[:600:2]] + [("present", nm) for nm in rng.sample(names, 200)]
        look += chmlib.find_names(rng, names, 12)
        rng.shuffle(look)
        look = look + look[:8]          # again, now from the cache
        entire = i % 2 == 0
        ops = ["f" + nm.hex() for _, nm in look if nm and 0 not in nm]
        look = [(k, nm) for k, nm in look if nm and 0 not in nm]
        cases.append((chm, entire, ops)); meta.append((exp, look, p))
    rc, mo, err = vlib.run_lines(mexe, ["chm"], [chmlib.model_line(*c) for c in cases], timeout=3000)
    ctr = scenario.run_scenarios(iexe, [chmlib.scn_for(*c) for c in cases])
    diffs = []; nbad = 0
    keyset = lambda nm: tuple(chmfmt.sort_key(nm)[0])
    for c, m, t, (exp, look, p) in zip(cases, mo, ctr, meta):
        res.evaluations += 1; res.nontrivial.add(hash((c[0], tuple(c[2])))); res.count("open" if c[1] else "fast_open"); res.count("index" if p.get("with_index") else "no-index")
        if t.crash or t.hang:
            res.violation("crash/hang in fast_find on a well-formed CHM: %s" % (t.crash or "hang")[-300:], chmlib.scn_for(*c).text(), key="c15:crash"); nbad += 1; continue
        cc = chmlib.c_canonical(t)
        if cc != m: diffs.append((c, m, cc))
        # the property's oracle
        bykey = {keyset(nm): nm for nm in exp}
        finds = [x for x in t.ops if x.name == "chm_find"]
        for (kind, nm), x in zip(look, finds):
            f = [l for l in x.lines if l.startswith("found ")]
            got = None if (not f or f[0] == "found none") else tuple(int(y.split("=")[1]) for y in f[0].split()[1:])
            hit = bykey.get(keyset(nm))
            want = (exp[hit][0], exp[hit][1], exp[hit][2]) if hit is not None else None
            if x.kv.get("st") != "0" or got != want:
                res.violation("fast_find(%r) [%s] on a well-formed CHM (%s, chunk %s, density %s): st=%s answer %s, the listing says %s" % (nm[:40], kind, "open" if c[1] else "fast_open", p.get("chunk_size"), p.get("density"), x.kv.get("st"), got, want),
                              chmlib.scn_for(*c).text(), key="c15:answer"); nbad += 1; break
    res.oblige("search: fast_find agrees with the listing on %d CHMs / %d lookups" % (len(cases), sum(len(m[1]) for m in meta)), nbad == 0)
    res.oblige("correspondence: model fast_find (with chunk cache) = C library on %d lookup sessions" % len(cases), not diffs and len(mo) == len(cases), "%d differ %s" % (len(diffs), err[-200:]) if diffs or len(mo) != len(cases) else "")
    res.traces += len(cases)
    res.samples = [" | ".join(l for l in chmlib.scn_for(*cases[0]).lines if not l.startswith("file "))[:300]] if cases else []
    if diffs or not proofs_ok:
        def s():
            for c, m, cc in diffs[:2]:
                a = cc.replace("#", ";").split(";"); b = m.replace("#", ";").split(";")
                k = next((i for i in range(min(len(a), len(b))) if a[i] != b[i]), min(len(a), len(b)))
                res.violation("model of chmd_fast_find and the C library disagree (record %d: C %s | model %s)" % (k, (a[k] if k < len(a) else "-")[:120], (b[k] if k < len(b) else "-")[:120]),
                              chmlib.scn_for(*c).text(), found_input=False)
        proof_broken(res, "C15", s)
    return "proof"
