"""C01 — CAB extraction reproduces every member byte-for-byte, with its metadata."""
import random, os, zlib
import vlib
from vlib import scenario, gen, cabfmt, lzxenc, qtmenc
from props.common import proof_broken, diff_engines

EXPLANATION = ("Theorems: decoder_bufsize_independent instantiated for the MSZIP, LZX and Quantum ports (every input, every buffer size > 0); CAB container "
  "theorems in Properties_C01.  Tie: decoder level - the extracted ports vs the C decoders on generated/damaged streams at several buffer sizes; "
  "archive level - cabinets and split sets from the generator (all methods, reserve areas, split points) opened and extracted through the real API under "
  "several DECOMPBUF / FIXMSZIP / SALVAGE settings, compared with the generator's member list, metadata and plaintext.")

def decoder_cases(rng, n):
    lz, qt, mz = [], [], []
    for i in range(n):
        wb = rng.choice([15, 16, 17, 18, 21]); total = rng.choice([0, 1, 100, 5000, 32768, 32769, 70000])
        s, d = lzxenc.encode(rng, wb, total, e8=rng.random() < 0.3)
        reqs = [total] if rng.random() < 0.5 else [total // 3, total - total // 3]
        if rng.random() < 0.3: s = bytearray(s); s[rng.randrange(len(s))] ^= 1 << rng.randrange(8); s = bytes(s)
        lz.append("%d 0 %d 0 - %s %s" % (wb, rng.choice([0, total]), ",".join(str(r) for r in reqs if r > 0) or "1", vlib.hexs(s)))
        wb = rng.choice([10, 12, 15, 17, 21]); total = rng.choice([1, 100, 5000, 32768, 40000])
        s, d = qtmenc.encode(rng, wb, total)
        if rng.random() < 0.3: s = bytearray(s); s[rng.randrange(len(s))] ^= 1 << rng.randrange(8); s = bytes(s)
        qt.append("%d %s %s" % (wb, rng.choice([str(total), "%d,%d" % (max(total // 2, 1), total - max(total // 2, 1) or 1)]), vlib.hexs(s)))
        data = bytes(rng.choice(b"abcdefgh \n" if rng.random() < 0.7 else bytes(range(256))) for _ in range(rng.choice([0, 1, 100, 5000, 32768])))
        co = zlib.compressobj(rng.choice([0, 1, 6, 9]), zlib.DEFLATED, -15, 9, rng.choice([zlib.Z_DEFAULT_STRATEGY, zlib.Z_FIXED, zlib.Z_HUFFMAN_ONLY, zlib.Z_RLE]))
        z = b"CK" + co.compress(data) + co.flush()
        if rng.random() < 0.3 and len(z) > 2: z = bytearray(z); z[rng.randrange(2, len(z))] ^= 1 << rng.randrange(8); z = bytes(z)
        mz.append("0 %d %s" % (max(len(data), 1) if rng.random() < 0.8 else len(data) + 5, vlib.hexs(z)))
    return lz, qt, mz

def check_case(res, t, c, sc, label):
    """oracle for one scenario transcript: listing and extracted bytes vs the generator"""
    if t.crash or t.hang:
        res.violation("crash/hang on a well-formed cabinet (%s): %s" % (label, (t.crash or "hang")[-300:]), sc.text(), key="crash"); return False
    ok = True; why = ""; key = "c01-cab"
    opens = [o for o in t.ops if o.name in ("cab_open", "cab_search")]
    if not opens or opens[0].kv.get("ok") != "1": ok = False; why = "open failed %s" % (opens[0].kv if opens else "")
    exs = [o for o in t.ops if o.name == "cab_extract"]
    if ok:
        # listing lines of the (merged) cabinet printed by the last cab_list op if present, else of the open
        lst = [o for o in t.ops if o.name == "cab_list"]
        lines = (lst[-1].lines if lst else opens[0].lines)
        flines = [l for l in lines if l.startswith(" file ")]
        want = []
        for m in c.members:
            th, tm, ts = gen.time_fields(m.time); dy, dm, dd = gen.date_fields(m.date)
            want.append((m.name.hex(), m.length, m.attribs, "%d:%d:%d" % (th, tm, ts), "%d-%d-%d" % (dy, dm, dd)))
        got = []
        for l in flines:
            kv = dict(x.split("=", 1) for x in l.split()[1:])
            got.append((kv["name"], int(kv["len"]), int(kv["attr"]), kv["t"], kv["d"]))
        if got != want: ok = False; why = "listing differs: got %s want %s" % (got[:3], want[:3])
    if ok:
        if len(exs) != len(c.exp_order): ok = False; why = "extract count %d != %d" % (len(exs), len(c.exp_order))
        for o, mi in zip(exs, c.exp_order):
            m = c.members[mi]
            if o.kv.get("st") != "0" or o.kv.get("err") != "0" or (o.out or "") != m.data.hex():
                ok = False; why = "member %d (%s, %d bytes): st=%s err=%s outlen=%s" % (mi, m.name, m.length, o.kv.get("st"), o.kv.get("err"), o.outlen)
                fol = next(f for f in c.folders if m in f.members)
                if fol.method[0] == "qtm" and fol.method[1] < 15 and o.kv.get("st") == "11": key = "qtm-small-window-wrap"
                break
    ca = [o for o in t.ops if o.name == "cab_close_any"]
    if ok and ca and ca[0].kv.get("open_handles") not in (None, "0"):
        ok = False; why = "close() through a member of the set left %s of its data files open: the decompression state of the closed set survives and is used for the next cabinet" % ca[0].kv.get("open_handles")
    if not ok:
        if not res.violation("well-formed cabinet (%s): %s" % (label, why[:300]), sc.text(), key=key): return True
    return ok

def cab_scenarios(rng, tier):
    out = []
    n1 = 30 if tier == "quick" else 400
    n2 = 10 if tier == "quick" else 150
    for i in range(n1):
        c = gen.cab_single(rng, big=(i % 3 == 0))
        sc = scenario.Scn()
        for nm, d in c.files.items(): sc.file(nm, d)
        sc.op("cab_new")
        params = {2: rng.choice([4, 5, 7, 64, 4096, 65536]), 1: rng.choice([0, 1]), 3: rng.choice([0, 0, 1])}
        for p, v in params.items(): sc.op("cab_param", p, v)
        sc.op("cab_open", "c0", "in0.cab")
        c.exp_order = list(range(len(c.members)))
        for mi in c.exp_order: sc.op("cab_extract", "c0", mi, "out%d" % mi)
        out.append((c, sc, "single params=%s" % params))
    # the search() front end (how cabextract opens every file): the cabinet behind a stub whose size puts the 20 header bytes the scanner
    # needs across a refill of its buffer - the default 32768 and small SEARCHBUF values
    for i in range(6 if tier == "quick" else 60):
        c = gen.cab_single(rng, big=False)
        sbuf = [32768, 4, 10, 17, 32768, 64][i % 6]
        pre = (sbuf - 19 + (i // 6 * 3 + i) % 19) if i % 3 != 2 else rng.choice([0, 1, sbuf, 2 * sbuf - 7])
        stub = bytes(rng.choice(b"\x00\x01MZ\x90PE stub ") for _ in range(max(pre, 0)))
        sc = scenario.Scn().file("in0.cab", stub + c.files["in0.cab"])
        sc.op("cab_new").op("cab_param", 0, sbuf).op("cab_search", "c0", "in0.cab")
        c.exp_order = list(range(len(c.members)))
        for mi in c.exp_order: sc.op("cab_extract", "c0", mi, "out%d" % mi)
        out.append((c, sc, "search stub=%d searchbuf=%d" % (len(stub), sbuf)))
    # directed (own generator state, the same on every run): a 1 KiB-window Quantum folder whose first member is shorter than the window and
    # ends inside a match that wraps the window end - the recorded finding qtm-small-window-wrap (known_findings.json)
    from vlib import cabfmt
    r2 = random.Random(2)
    c = gen.CabCase(); fo = cabfmt.Folder(("qtm", 10), [cabfmt.Member(b"q0.bin", length=1000), cabfmt.Member(b"q1.bin", length=1500)])
    c.folders = [fo]; c.files["in0.cab"] = cabfmt.build_single([fo], r2, with_ck=True); c.parts = ["in0.cab"]; c.members = list(fo.members)
    sc = scenario.Scn().file("in0.cab", c.files["in0.cab"]).op("cab_new").op("cab_open", "c0", "in0.cab")
    c.exp_order = [0, 1]
    for mi in c.exp_order: sc.op("cab_extract", "c0", mi, "out%d" % mi)
    out.append((c, sc, "directed small-window Quantum"))
    # directed (own generator state): LZX folders in which a stored-type block's header ends exactly on a 16-bit word boundary, so that a
    # whole word of padding stands between header and data (one in sixteen transitions from a compressed block)
    from vlib import lzxenc
    found = 0
    for k in range(600):
        if found >= (3 if tier == "quick" else 12): break
        rk = random.Random(16000 + k); before = lzxenc.STATS['pad16']
        fo = cabfmt.Folder(("lzx", 16), [cabfmt.Member(b"p0.bin", length=3000), cabfmt.Member(b"p1.bin", length=2500)]); fo.prepare(rk)
        if lzxenc.STATS['pad16'] == before: continue
        found += 1
        c = gen.CabCase(); c.folders = [fo]; c.parts = ["in0.cab"]; c.members = list(fo.members)
        c.files["in0.cab"] = cabfmt.build_cab([(fo.comp_type(), fo.blocks)], [(m.name, m.length, 3000 * j, 0, m.date, m.time, m.attribs) for j, m in enumerate(fo.members)])      # (the stream as prepared)
        sc = scenario.Scn().file("in0.cab", c.files["in0.cab"]).op("cab_new").op("cab_param", 2, [4096, 4, 64][found % 3]).op("cab_open", "c0", "in0.cab")
        c.exp_order = [0, 1]
        for mi in c.exp_order: sc.op("cab_extract", "c0", mi, "out%d" % mi)
        out.append((c, sc, "directed LZX stored block after a full padding word"))
    for i in range(n2):
        c = gen.cab_set(rng)
        sc = scenario.Scn()
        for nm, d in c.files.items(): sc.file(nm, d)
        sc.op("cab_new")
        params = {2: rng.choice([4, 7, 4096]), 1: rng.choice([0, 1]), 3: rng.choice([0, 0, 1])}
        for p, v in params.items(): sc.op("cab_param", p, v)
        for k, nm in enumerate(c.parts): sc.op("cab_open", "c%d" % k, nm)
        for k in range(1, len(c.parts)): sc.op("cab_append", "c0", "c%d" % k) if False else sc.op("cab_append", "c%d" % (k - 1), "c%d" % k)
        sc.op("cab_list", "c0")
        c.exp_order = list(range(len(c.members)))
        for mi in c.exp_order: sc.op("cab_extract", "c0", mi, "out%d" % mi)
        # the first member once more (the data file read last is now another part than the one closed through), then close() through any member
        if c.members: sc.op("cab_extract", "c0", 0, "out0"); c.exp_order = c.exp_order + [0]
        sc.op("cab_close_any", "c%d" % rng.randrange(len(c.parts)))
        out.append((c, sc, "set cuts=%s params=%s" % (c.cuts, params)))
    return out

def run(res, tier, replay):
    rng = random.Random(vlib.seed() * 1000003 + 1)
    res.rule = ("decoder level: streams from the LZX/Quantum generators and zlib (windows 15-21 / 10-21, 0..70000 bytes, split requests, 30% with a flipped bit), "
                "non-trivial = distinct stream of >= 100 output bytes; archive level: single cabinets (1-3 folders, 1-4 members, all four methods, reserve areas 0/1/max, "
                "with/without checksums) and split sets (2-4 parts, cuts at block offsets 0/1/mid/len-1/len) under DECOMPBUF in {4,5,7,64,4096,65536} x FIXMSZIP x SALVAGE")
    proofs_ok = vlib.coq_gate(res, "Properties_C01")
    n = 25 if tier == "quick" else 400
    lz, qt, mz = decoder_cases(rng, n)
    alld = []
    for eng, cases in (("lzx", lz), ("qtm", qt), ("mszip", mz)):
        for bs in ([2, 4096] if tier == "quick" else [2, 3, 7, 64, 4096]):
            d = diff_engines(res, eng, cases, args_impl=[bs])
            if d is None: proof_broken(res, "drivers"); return "proof"
            alld += [(eng, bs) + x for x in d]; res.evaluations += len(cases)
        for c in cases:
            if len(c.split()[-1]) > 200: res.nontrivial.add(c[:200])
            res.count("dec-" + eng)
    res.oblige("correspondence: extracted MSZIP/LZX/Quantum ports = C decoders on %d streams" % (len(lz) + len(qt) + len(mz)), not alld, str(alld[:1])[:500])
    res.samples = [lz[0][:200], qt[0][:200], mz[0][:200]]
    ok, log, iexe = vlib.build_impl("asan")
    cs = cab_scenarios(rng, tier)
    if replay and os.path.exists(replay) and open(replay).read().startswith("file "):
        t = scenario.run_scenarios(iexe, [open(replay).read()])[0]
        print("\n".join(t.raw[:60]))
    trs = scenario.run_scenarios(iexe, [sc for _, sc, _ in cs])
    nbad = 0
    for t, (c, sc, label) in zip(trs, cs):
        res.evaluations += 1; res.nontrivial.add(label + str(len(sc.text()))); res.count("cab-" + label.split()[0])
        for f in c.folders: res.count("method-" + f.method[0])
        if not check_case(res, t, c, sc, label): nbad += 1
    res.oblige("archive level: %d generated cabinets / sets list and extract exactly (C, ASan+UBSan)" % len(cs), nbad == 0)
    res.traces += len(cs)
    # ---- whole-file model of cabd.c (Model/Cab.v: open + extract sessions, every DECOMPBUF / SALVAGE / FIXMSZIP) vs the C library
    from props import cablib
    ok2, log2, mexe = vlib.build_model_drv()
    cases = []
    for i in range(30 if tier == "quick" else 500):
        c = gen.cab_single(rng, big=(i % 3 == 0)); cab = list(c.files.values())[0]; nm = len(c.members)
        ops = [rng.randrange(nm + 1) for _ in range(rng.randrange(1, 6))] if rng.random() < 0.6 else list(range(nm))
        par = (rng.random() < 0.3, rng.random() < 0.2, rng.choice([4, 5, 7, 64, 4096, 65536]))
        cases.append((cab,) + par + (ops,))
        for _ in range(2): cases.append((cablib.damage(rng, cab),) + par + (ops,))
    rc, mo, err = vlib.run_lines(mexe, ["cab"], [cablib.model_line(*c) for c in cases], timeout=3000)
    ctr = scenario.run_scenarios(iexe, [cablib.scn_for(*c) for c in cases])
    cdiffs = []; unm = 0
    for c, m, t in zip(cases, mo, ctr):
        res.evaluations += 1
        if t.crash or t.hang: continue
        cc = cablib.c_canonical(t)
        if "#X 98" in m:
            unm += 1; k = m.index("#X 98")
            if cc[:k] != m[:k]: cdiffs.append((c, m, cc))
            continue
        if cc != m: cdiffs.append((c, m, cc))
    res.count("cabmodel-unmodelled", unm)
    res.oblige("correspondence: model of cabd.c (open, extract sessions through the decoder ports and the buffered interpreter) = C library on %d cabinets (1/3 intact, 2/3 damaged)" % len(cases),
               not cdiffs and len(mo) == len(cases), "%d differ %s" % (len(cdiffs), err[-200:]) if cdiffs or len(mo) != len(cases) else "")
    if cdiffs:
        for c, m, cc in cdiffs[:2]:
            a = cc.replace("#", ";").split(";"); b = m.replace("#", ";").split(";")
            k = next((i for i in range(min(len(a), len(b))) if a[i] != b[i]), min(len(a), len(b)))
            res.violation("model of cabd.c and the C library disagree (record %d: C %s | model %s)" % (k, (a[k] if k < len(a) else "-")[:120], (b[k] if k < len(b) else "-")[:120]), cablib.scn_for(*c).text(), found_input=False)
    if not proofs_ok or alld:
        def s():
            for eng, bs, case, mo, io in alld[:2]:
                res.violation("%s port and C decoder disagree (bufsize %d)" % (eng, bs), "# engine %s, C bufsize %d\n%s\n# model: %s\n# impl: %s\n" % (eng, bs, case, mo[:3000], io[:3000]), found_input=False)
        proof_broken(res, "C01", s)
    return "proof"
