"""C09 — every allocation and file handle is released exactly once on every path."""
import random
import vlib
from props.common import proof_broken
from props import robust

EXPLANATION = ("Theorems (for EVERY host = every input and every combination of callback failures): the SZDD front end + LZSS decoder scripts end with an "
  "empty ledger and no release of anything not live (Proofs/SzddLedger.v over the monitor semantics of Proofs/Mon.v).  Tie: L2 correspondence - the port "
  "and the C library make identical callback sequences on generated files under every single fault.  Search: corpus + generated + damaged files of all "
  "five formats through the real API under the instrumented system, clean and with every sampled single fault; ledger read after close+destroy.")

def run(res, tier, replay):
    rng = random.Random(vlib.seed() * 31337 + 9)
    res.rule = ("scenario = (files, API script, fault plan); faults = fail the k-th open/read/write/seek/alloc (write also short) for sampled k of the clean run; "
                "non-trivial = distinct scenario; ledger = live allocations + open handles after close/destroy, plus frees/closes of unknown or released objects")
    proofs_ok = vlib.coq_gate(res, "Properties_C09")
    robust.l2_szdd(res, tier, rng)
    robust.l2_kwaj(res, tier, rng)
    sw = robust.Sweep(res, tier, rng)
    if sw.ok:
        n = robust.ledger_oracle(res, sw, "ledger")
        nc = robust.crash_oracle(res, sw) if False else 0
        res.oblige("search: ledger balanced on %d clean and %d faulted runs of the C library" % (len(sw.cases), len(sw.run_faults())), n == 0)
        for c in sw.cases[:3]: res.samples.append(c.label + " :: " + " | ".join(l for l in c.scn.lines if not l.startswith("file "))[:300])
        for c in sw.cases: res.nontrivial.add(c.label + str(hash(c.scn.text())))
        for f in sw.run_faults(): res.nontrivial.add((f[0], f[1], f[2], f[3]))
    if not proofs_ok: proof_broken(res, "C09")
    return "proof"
