"""model <-> C comparison for KWAJ files (Model/Kwaj.v)"""
import random, struct, zlib
import vlib
from vlib import scenario, kwajfmt

def scn_for(f): return scenario.Scn().file("in0.kwj", f).op("kwaj_new").op("kwaj_open", "k0", "in0.kwj").op("kwaj_extract", "k0", "out0")
def c_canonical(t):
    o = [x for x in t.ops if x.name == "kwaj_open"]
    if not o: return "?"
    if o[0].kv.get("ok") != "1": return "E%s" % o[0].kv.get("err")
    hl = [l for l in o[0].lines if l.startswith("kwaj ")][0]
    kv = dict(x.split("=", 1) for x in hl.split()[1:])
    out = "H%s %s %s %s %s %s %s" % (kv["comp"], kv["dataoff"], kv["headers"], kv["len"], kv["name"], kv["extralen"], kv["extra"])
    x = [y for y in t.ops if y.name == "kwaj_extract"]
    if x: out += "#X %s %s" % (x[0].kv.get("st"), x[0].out if x[0].out not in (None, "absent") else "")
    return out

def rand_kwaj(rng):
    """a KWAJ file with random optional headers and one of the modelled methods"""
    from vlib import sweep
    comp = rng.choice([0, 1, 2, 3, 3, 4, 4, 0, 7])
    flags = rng.randrange(64)
    plain = bytes(rng.choice(b"abcdefgh \n") for _ in range(rng.choice([0, 1, 50, 3000, 40000])))
    if comp == 0: body = plain
    elif comp == 1: body = bytes(c ^ 0xFF for c in plain)
    elif comp == 2: body, plain = sweep.py_lzss(rng, rng.choice([0, 3, 30, 200]), 2)
    elif comp == 4:
        body = b""
        for k in range(0, max(len(plain), 1), 32768):
            z = b"CK" + zlib.compress(plain[k:k + 32768], rng.choice([0, 6, 9]))[2:-4]
            body += struct.pack("<H", len(z) & 0xFFFF) + z
        body += b"\0\0"
    elif comp == 3:
        from vlib import lzhenc
        r = lzhenc.generate(rng, rng.choice([1, 2, 6, 40, 300]), want_pad=rng.choice([None, 0]), final=rng.choice([None, "M", "R"]))
        if r is None: r = lzhenc.generate(rng, 5)
        body, plain = r[0], r[1]
    else: body = plain
    hdr = b""
    if flags & 1: hdr += struct.pack("<I", len(plain))
    if flags & 2: hdr += bytes(rng.randrange(256) for _ in range(2))
    if flags & 4: n = rng.choice([0, 1, 7]); hdr += struct.pack("<H", n) + bytes(rng.randrange(256) for _ in range(n))
    if flags & 8: hdr += bytes(rng.choice(b"ABCxyz019_") for _ in range(rng.choice([1, 3, 8]))) + b"\0"
    if flags & 16: hdr += bytes(rng.choice(b"extEXT012") for _ in range(rng.choice([0, 1, 3]))) + b"\0"
    if flags & 32: n = rng.choice([0, 1, 30]); hdr += struct.pack("<H", n) + bytes(rng.randrange(1, 256) for _ in range(n))
    dataoff = 14 + len(hdr) + rng.choice([0, 0, 3])
    f = b"KWAJ\x88\xf0\x27\xd1" + struct.pack("<HHH", comp, dataoff, flags) + hdr + bytes(dataoff - 14 - len(hdr)) + body
    return f, plain, comp, flags

def damage(rng, f):
    b = bytearray(f); r = rng.random()
    if r < 0.5:
        for _ in range(rng.choice([1, 1, 3])): b[rng.randrange(len(b))] ^= 1 << rng.randrange(8)
    elif r < 0.7: b = b[:rng.randrange(1, len(b))]
    else: struct.pack_into("<H", b, rng.choice([8, 10, 12]), rng.choice([0, 1, 2, 3, 4, 5, 14, 63, 64, 0xFFFF, rng.randrange(65536)]))
    return bytes(b)
